(* Binary64 evaluation of /repo/src/tmap.c (interp_i64 and the two single-entry rules), modelled
   with Flocq's IEEE-754 binary floats, and its distance to the exact model TmapModel.v.

   C statement                                  here
     (double) (int64 expression)                 b64_of_Z      = binary_normalize mode_NE n 0   (round to nearest even)
     dt / ds,  dsample / sample_rate             b64_div       = Bdiv mode_NE
     dk * slope, dt * (1.0 / 2^30), dt * rate    b64_mul       = Bmult mode_NE
     ds == 0.0                                   b64_eq0       = Beqb . (+0)
     round(x)                                    b64_round     = Bnearbyint mode_NA  (half away from zero, result a double)
     (int64_t) x                                 Btrunc        (truncation; NaN/inf: Tm_FP_invalid, outside int64: Tm_Int_overflow)
   binary64 = binary_float 53 1024 of Flocq.IEEE754.BinarySingleNaN (all NaNs identified; no NaN
   payload is observable in tmap.c).  The rounding mode is the default one (FE_TONEAREST); the
   development is not about programs that call fesetround.

   Sections: 1 the C's operations; 2 round() = Flocq's ZnearestA = the model's Qround_haz; 3 the
   binary64 operations return RN of the exact result (no overflow under the stated bounds);
   4-5 error of RN (dk * RN (dt / ds)) and fp_interp_k against interp_k (guards 2^53 / 2^51);
   6-9 interp_i64 and the two conversion functions: within one, within one tick, anchors exact,
   between the anchors, monotone; 10 a realistic map; 11 C and exact model differ at ties
   (replayed on the real C); 12 the single-entry rules; 13 round trip in binary64;
   14 the same without the exactness guards (five roundings, guard 2^49).
   The functions fp_* are computable: the examples run Flocq's operations by vm_compute, and
   fp_model_matches_C records outputs of the real C that the model reproduces.

   Everything here is closed (no hypothesis about the arithmetic); the axioms are the classical
   real numbers of the Coq standard library, on which Flocq is built. *)
From Coq Require Import ZArith Reals QArith Qreals Qabs List Bool Lia Lra Psatz.
From Flocq Require Import Core Relative BinarySingleNaN.
From JLS Require Import Generated TmapModel TmapProofs.
Import ListNotations.
Local Open Scope Z_scope.

(* ====================================================================================== *)
(* 1. the binary64 operations of the C                                                     *)
(* ====================================================================================== *)
Notation b64 := (binary_float 53 1024).
Definition b64_prec_gt_0 : Prec_gt_0 53 := eq_refl.
Definition b64_prec_lt_emax : Prec_lt_emax 53 1024 := eq_refl.

Definition b64_of_Z (n : Z) : b64 := binary_normalize 53 1024 b64_prec_gt_0 b64_prec_lt_emax mode_NE n 0 false.
Definition b64_div (x y : b64) : b64 := @Bdiv 53 1024 b64_prec_gt_0 b64_prec_lt_emax mode_NE x y.
Definition b64_mul (x y : b64) : b64 := @Bmult 53 1024 b64_prec_gt_0 b64_prec_lt_emax mode_NE x y.
Definition b64_round (x : b64) : b64 := @Bnearbyint 53 1024 b64_prec_lt_emax mode_NA x.
Definition b64_eq0 (x : b64) : bool := Beqb x (B754_zero false).
(* (int64_t) x : undefined behaviour for NaN, infinities and values outside int64 *)
Definition b64_to_i64 (x : b64) : tm_res Z :=
  if is_finite x then
    let k := Btrunc x in
    if in64 k then TmOk k else TmFault Tm_Int_overflow
  else TmFault Tm_FP_invalid.

(* ---- interp_i64, the floating-point part:
     double dk = (double)(x0 - x[low]); double ds = (double)(x[low+1] - x[low]); double dt = (double)(y[low+1] - y[low]);
     if (ds == 0.0) return y[low];
     double slope = dt / ds;  int64_t k = (int64_t) round(dk * slope);  return y[low] + k;          *)
Definition fp_interp_k (dk ds dt : Z) : tm_res Z :=
  b64_to_i64 (b64_round (b64_mul (b64_of_Z dk) (b64_div (b64_of_Z dt) (b64_of_Z ds)))).

Definition fp_interp_at (xs ys : list Z) (low : nat) (x0 : Z) : tm_res Z :=
  let xl := nth low xs 0 in
  let yl := nth low ys 0 in
  let dk := x0 - xl in
  let ds := nth (S low) xs 0 - xl in
  let dt := nth (S low) ys 0 - yl in
  if negb (in64 dk && in64 ds && in64 dt) then TmFault Tm_Int_overflow
  else if b64_eq0 (b64_of_Z ds) then TmOk yl
  else
    match fp_interp_k dk ds dt with
    | TmFault f => TmFault f
    | TmOk k => if negb (in64 (yl + k)) then TmFault Tm_Int_overflow else TmOk (yl + k)
    end.

(* the bisection is integer code: shared with the exact model *)
Definition fp_interp (xs ys : list Z) (x0 : Z) : tm_res Z :=
  match search xs x0 with
  | TmFault e => TmFault e
  | TmOk low => fp_interp_at xs ys low x0
  end.

(* ---- single entry:
     double dsample = (double)(sample_id - sample_id[0]); double dt = dsample / sample_rate; dt *= JLS_TIME_SECOND;
     *timestamp = utc[0] + (int64_t) dt;                                                              *)
Definition fp_single_id_to_time (rate : b64) (s0 u0 q : Z) : tm_res Z :=
  let d := q - s0 in
  if negb (in64 d) then TmFault Tm_Int_overflow
  else
    match b64_to_i64 (b64_mul (b64_div (b64_of_Z d) rate) (b64_of_Z TMAP_TIME_SECOND)) with
    | TmFault f => TmFault f
    | TmOk k => if negb (in64 (u0 + k)) then TmFault Tm_Int_overflow else TmOk (u0 + k)
    end.
(*   double dt = (double)(timestamp - utc[0]); dt *= (1.0 / JLS_TIME_SECOND);
     *sample_id = sample_id[0] + (int64_t)(dt * sample_rate);                                         *)
Definition fp_single_time_to_id (rate : b64) (s0 u0 q : Z) : tm_res Z :=
  let d := q - u0 in
  if negb (in64 d) then TmFault Tm_Int_overflow
  else
    let inv_second := b64_div (b64_of_Z 1) (b64_of_Z TMAP_TIME_SECOND) in
    match b64_to_i64 (b64_mul (b64_mul (b64_of_Z d) inv_second) rate) with
    | TmFault f => TmFault f
    | TmOk k => if negb (in64 (s0 + k)) then TmFault Tm_Int_overflow else TmOk (s0 + k)
    end.

(* if (self->sample_rate <= 0) return JLS_ERROR_UNAVAILABLE;   (false for NaN: a NaN rate goes on) *)
Definition b64_le0 (x : b64) : bool :=
  match Bcompare x (B754_zero false) with Some Lt | Some Eq => true | _ => false end.

Definition fp_tmap_sample_id_to_timestamp (rate : b64) (t : tmap) (q : Z) : qres :=
  match tm_entries t with
  | [] => QErr TMAP_ERROR_UNAVAILABLE
  | [(s0, u0)] =>
      if b64_le0 rate then QErr TMAP_ERROR_UNAVAILABLE else qres_of (fp_single_id_to_time rate s0 u0 q)
  | _ => qres_of (fp_interp (ids t) (times t) q)
  end.

Definition fp_tmap_timestamp_to_sample_id (rate : b64) (t : tmap) (q : Z) : qres :=
  match tm_entries t with
  | [] => QErr TMAP_ERROR_UNAVAILABLE
  | [(s0, u0)] =>
      if b64_le0 rate then QErr TMAP_ERROR_UNAVAILABLE else qres_of (fp_single_time_to_id rate s0 u0 q)
  | _ => qres_of (fp_interp (times t) (ids t) q)
  end.

(* ====================================================================================== *)
(* 2. round() and Qround_haz: both are Flocq's ZnearestA                                   *)
(* ====================================================================================== *)
Local Open Scope R_scope.

Lemma ZnearestA_nonneg : forall x : R, 0 <= x -> ZnearestA x = Zfloor (x + /2).
Proof.
  intros x Hx. unfold Znearest.
  pose proof (Zfloor_lb x) as Hl. pose proof (Zfloor_ub x) as Hu.
  assert (Hf0 : (0 <= Zfloor x)%Z) by (apply Zfloor_lub; exact Hx).
  destruct (Rcompare_spec (x - IZR (Zfloor x)) (/2)) as [Hc|Hc|Hc].
  - symmetry. apply Zfloor_imp. rewrite plus_IZR. lra.
  - replace (0 <=? Zfloor x)%Z with true by (symmetry; apply Z.leb_le; exact Hf0).
    rewrite Zceil_floor_neq by lra.
    symmetry. apply Zfloor_imp. rewrite !plus_IZR. lra.
  - rewrite Zceil_floor_neq by lra.
    symmetry. apply Zfloor_imp. rewrite !plus_IZR. lra.
Qed.

Lemma ZnearestA_nonpos : forall x : R, x <= 0 -> ZnearestA x = (- Zfloor (- x + /2))%Z.
Proof.
  intros x Hx. unfold Znearest.
  pose proof (Zfloor_lb x) as Hl. pose proof (Zfloor_ub x) as Hu.
  destruct (Req_dec (IZR (Zfloor x)) x) as [Hi|Hi].
  - (* x is an integer *)
    assert (Hc : Rcompare (x - IZR (Zfloor x)) (/2) = Lt) by (apply Rcompare_Lt; lra).
    rewrite Hc.
    assert (E : Zfloor (- x + /2) = (- Zfloor x)%Z).
    { apply Zfloor_imp. rewrite plus_IZR, opp_IZR. lra. }
    rewrite E. lia.
  - assert (Hc1 : Zceil x = (Zfloor x + 1)%Z) by (apply Zceil_floor_neq; exact Hi).
    assert (Hfn : (Zfloor x < 0)%Z).
    { apply lt_IZR. lra. }
    destruct (Rcompare_spec (x - IZR (Zfloor x)) (/2)) as [Hc|Hc|Hc].
    + assert (E : Zfloor (- x + /2) = (- Zfloor x)%Z).
      { apply Zfloor_imp. rewrite plus_IZR, opp_IZR. lra. }
      rewrite E. lia.
    + replace (0 <=? Zfloor x)%Z with false by (symmetry; apply Z.leb_gt; exact Hfn).
      assert (E : Zfloor (- x + /2) = (- Zfloor x)%Z).
      { apply Zfloor_imp. rewrite plus_IZR, opp_IZR. lra. }
      rewrite E. lia.
    + rewrite Hc1.
      assert (E : Zfloor (- x + /2) = (- (Zfloor x + 1))%Z).
      { apply Zfloor_imp. rewrite plus_IZR, opp_IZR, plus_IZR. lra. }
      rewrite E. lia.
Qed.

Lemma Q2R_make : forall (n : Z) (d : positive), Q2R (n # d) = IZR n / IZR (Zpos d).
Proof. intros n d. unfold Q2R. cbn [Qnum Qden]. reflexivity. Qed.

Lemma Q2R_inject_Z : forall n : Z, Q2R (inject_Z n) = IZR n.
Proof. intros n. unfold Q2R, inject_Z. cbn [Qnum Qden]. field. Qed.

(* the model's round() is round half away from zero on the reals *)
Lemma Qround_haz_R : forall q : Q, Qround_haz q = ZnearestA (Q2R q).
Proof.
  intros [n d]. rewrite Q2R_make. unfold Qround_haz. cbn [Qnum Qden].
  assert (Hd : 0 < IZR (Zpos d)) by (apply IZR_lt; reflexivity).
  destruct (Z.leb_spec 0 n) as [Hn|Hn].
  - rewrite ZnearestA_nonneg.
    + replace (IZR n / IZR (Zpos d) + /2) with (IZR (2 * n + Zpos d) / IZR (2 * Zpos d)).
      * rewrite Zfloor_div by lia. reflexivity.
      * rewrite plus_IZR, !mult_IZR. field. lra.
    + apply Rmult_le_pos; [apply IZR_le; exact Hn|apply Rlt_le, Rinv_0_lt_compat; exact Hd].
  - rewrite ZnearestA_nonpos.
    + replace (- (IZR n / IZR (Zpos d)) + /2) with (IZR (2 * (- n) + Zpos d) / IZR (2 * Zpos d)).
      * rewrite Zfloor_div by lia. reflexivity.
      * rewrite plus_IZR, !mult_IZR, opp_IZR. field. lra.
    + assert (IZR n <= 0) by (apply IZR_le; lia).
      unfold Rdiv. rewrite <- (Rmult_0_l (/ IZR (Zpos d))).
      apply Rmult_le_compat_r; [apply Rlt_le, Rinv_0_lt_compat; exact Hd|assumption].
Qed.

Lemma ZnearestA_close : forall x y : R, Rabs (x - y) < 1 -> (-1 <= ZnearestA x - ZnearestA y <= 1)%Z.
Proof.
  intros x y H.
  pose proof (Znearest_half (Zle_bool 0) x) as Hx. pose proof (Znearest_half (Zle_bool 0) y) as Hy.
  apply Rabs_def2 in H. apply Rabs_le_inv in Hx. apply Rabs_le_inv in Hy.
  assert (H2 : -2 < IZR (ZnearestA x - ZnearestA y) < 2) by (rewrite minus_IZR; lra).
  destruct H2 as [Ha Hb]. apply lt_IZR in Ha. apply lt_IZR in Hb. lia.
Qed.

Lemma ZnearestA_int : forall (x : R) (n : Z), Rabs (x - IZR n) < /2 -> ZnearestA x = n.
Proof. intros x n H. apply Znearest_imp. exact H. Qed.

(* equal unless the exact value is within delta of a half-integer *)
Lemma ZnearestA_stable : forall (c e delta : R),
  Rabs (c - e) <= delta ->
  (forall m : Z, delta < Rabs (e - (IZR m + /2))) ->
  ZnearestA c = ZnearestA e.
Proof.
  intros c e delta Hce Hfar.
  set (n := ZnearestA e).
  pose proof (Znearest_half (Zle_bool 0) e) as He. fold n in He.
  apply Rabs_le_inv in He. apply Rabs_le_inv in Hce.
  pose proof (Hfar n) as H1. pose proof (Hfar (n - 1)%Z) as H2.
  rewrite minus_IZR in H2.
  assert (Hd : 0 <= delta) by lra.
  apply ZnearestA_int. apply Rabs_def1.
  - unfold Rabs in H1. destruct (Rcase_abs (e - (IZR n + /2))); lra.
  - unfold Rabs in H2. destruct (Rcase_abs (e - (IZR n - 1 + /2))); lra.
Qed.

(* ====================================================================================== *)
(* 3. the binary64 operations compute the rounding RN of the exact real result            *)
(* ====================================================================================== *)
(* RN = round to nearest, ties to even, in the binary64 format (53 bits, emin = -1074) *)
Definition RN (x : R) : R := round radix2 (FLT_exp (-1074) 53) ZnearestE x.

Lemma b64_fexp : SpecFloat.fexp 53 1024 = FLT_exp (-1074) 53.
Proof. reflexivity. Qed.

Lemma bpow_IZR : forall e : Z, (0 <= e)%Z -> bpow radix2 e = IZR (2 ^ e).
Proof. intros e He. symmetry. exact (IZR_Zpower radix2 e He). Qed.

Lemma RN_format : forall x, generic_format radix2 (FLT_exp (-1074) 53) (RN x).
Proof. intros x. apply generic_format_round; [apply FLT_exp_valid; reflexivity|apply valid_rnd_N]. Qed.

Lemma RN_id : forall x, generic_format radix2 (FLT_exp (-1074) 53) x -> RN x = x.
Proof. intros x H. apply round_generic; [apply valid_rnd_N|exact H]. Qed.

Lemma RN_0 : RN 0 = 0.
Proof. apply round_0. apply valid_rnd_N. Qed.

Lemma format_bpow : forall e : Z, (-1074 <= e)%Z -> generic_format radix2 (FLT_exp (-1074) 53) (bpow radix2 e).
Proof. intros e He. apply generic_format_FLT_bpow; [reflexivity|exact He]. Qed.

(* |x| <= 2^e  ->  |RN x| <= 2^e *)
Lemma RN_abs_le_bpow : forall x (e : Z), (-1074 <= e)%Z -> Rabs x <= bpow radix2 e -> Rabs (RN x) <= bpow radix2 e.
Proof.
  intros x e He H. apply abs_round_le_generic; [apply FLT_exp_valid; reflexivity|apply valid_rnd_N|apply format_bpow; exact He|exact H].
Qed.
Lemma RN_abs_ge_bpow : forall x (e : Z), (-1074 <= e)%Z -> bpow radix2 e <= Rabs x -> bpow radix2 e <= Rabs (RN x).
Proof.
  intros x e He H. apply abs_round_ge_generic; [apply FLT_exp_valid; reflexivity|apply valid_rnd_N|apply format_bpow; exact He|exact H].
Qed.

(* integers up to 2^53 in magnitude are binary64 numbers *)
Lemma format_IZR : forall n : Z, (Z.abs n <= 2 ^ 53)%Z -> generic_format radix2 (FLT_exp (-1074) 53) (IZR n).
Proof.
  intros n Hn.
  destruct (Z.eq_dec (Z.abs n) (2 ^ 53)) as [He|He].
  - assert (Hb : generic_format radix2 (FLT_exp (-1074) 53) (IZR (2 ^ 53))).
    { rewrite <- bpow_IZR by lia. apply format_bpow. lia. }
    assert (E : (n = 2 ^ 53 \/ n = - 2 ^ 53)%Z) by lia.
    destruct E as [E|E]; rewrite E.
    + exact Hb.
    + rewrite opp_IZR. apply generic_format_opp. exact Hb.
  - apply generic_format_FLT. exists (Float radix2 n 0).
    + unfold F2R. cbn [Fnum Fexp bpow]. ring.
    + change (Z.abs n < 2 ^ 53)%Z. lia.
    + cbn [Fexp]. lia.
Qed.

Lemma F2R_exp0 : forall n : Z, F2R (Float radix2 n 0) = IZR n.
Proof. intros n. unfold F2R. cbn [Fnum Fexp bpow]. ring. Qed.

(* (double) of an int64: never overflows; exact up to 2^53 *)
Lemma b64_of_Z_RN : forall n : Z, (Z.abs n <= 2 ^ 64)%Z ->
  B2R (b64_of_Z n) = RN (IZR n) /\ is_finite (b64_of_Z n) = true.
Proof.
  intros n Hn. unfold b64_of_Z.
  pose proof (binary_normalize_correct 53 1024 b64_prec_gt_0 b64_prec_lt_emax mode_NE n 0 false) as H.
  cbv zeta in H. rewrite F2R_exp0 in H. rewrite b64_fexp in H. cbn [round_mode] in H. fold (RN (IZR n)) in H.
  rewrite Rlt_bool_true in H.
  - destruct H as [H1 [H2 _]]. split; assumption.
  - apply Rle_lt_trans with (bpow radix2 64).
    + apply RN_abs_le_bpow; [lia|]. rewrite <- abs_IZR, bpow_IZR by lia. apply IZR_le. exact Hn.
    + apply bpow_lt. reflexivity.
Qed.

Lemma b64_of_Z_exact : forall n : Z, (Z.abs n <= 2 ^ 53)%Z ->
  B2R (b64_of_Z n) = IZR n /\ is_finite (b64_of_Z n) = true.
Proof.
  intros n Hn. destruct (b64_of_Z_RN n) as [H1 H2]; [lia|]. split; [|exact H2].
  rewrite H1. apply RN_id. apply format_IZR. exact Hn.
Qed.

Lemma b64_div_RN : forall x y : b64, B2R y <> 0 -> is_finite x = true ->
  Rabs (B2R x / B2R y) <= bpow radix2 1023 ->
  B2R (b64_div x y) = RN (B2R x / B2R y) /\ is_finite (b64_div x y) = true.
Proof.
  intros x y Hy Hfx Hb. unfold b64_div.
  pose proof (Bdiv_correct 53 1024 b64_prec_gt_0 b64_prec_lt_emax mode_NE x y Hy) as H.
  rewrite b64_fexp in H. cbn [round_mode] in H. fold (RN (B2R x / B2R y)) in H.
  rewrite Rlt_bool_true in H.
  - destruct H as [H1 [H2 _]]. split; [exact H1|rewrite H2; exact Hfx].
  - apply Rle_lt_trans with (bpow radix2 1023).
    + apply RN_abs_le_bpow; [lia|exact Hb].
    + apply bpow_lt. reflexivity.
Qed.

Lemma b64_mul_RN : forall x y : b64, is_finite x = true -> is_finite y = true ->
  Rabs (B2R x * B2R y) <= bpow radix2 1023 ->
  B2R (b64_mul x y) = RN (B2R x * B2R y) /\ is_finite (b64_mul x y) = true.
Proof.
  intros x y Hfx Hfy Hb. unfold b64_mul.
  pose proof (Bmult_correct 53 1024 b64_prec_gt_0 b64_prec_lt_emax mode_NE x y) as H.
  rewrite b64_fexp in H. cbn [round_mode] in H. fold (RN (B2R x * B2R y)) in H.
  rewrite Rlt_bool_true in H.
  - destruct H as [H1 [H2 _]]. split; [exact H1|rewrite H2, Hfx, Hfy; reflexivity].
  - apply Rle_lt_trans with (bpow radix2 1023).
    + apply RN_abs_le_bpow; [lia|exact Hb].
    + apply bpow_lt. reflexivity.
Qed.

Lemma round_FIX0 : forall (rnd : R -> Z) (x : R), round radix2 (FIX_exp 0) rnd x = IZR (rnd x).
Proof.
  intros rnd x. unfold round, F2R, scaled_mantissa, cexp, FIX_exp. cbn [Fnum Fexp Z.opp bpow].
  rewrite !Rmult_1_r. reflexivity.
Qed.

(* (int64_t) round(x) of a finite double = round half away from zero of its value *)
Lemma b64_round_to_Z : forall x : b64, is_finite x = true ->
  is_finite (b64_round x) = true /\ Btrunc (b64_round x) = ZnearestA (B2R x).
Proof.
  intros x Hf. unfold b64_round.
  destruct (Bnearbyint_correct 53 1024 b64_prec_lt_emax mode_NA x) as [H1 [H2 _]].
  split; [rewrite H2; exact Hf|].
  apply eq_IZR. rewrite Btrunc_correct by exact b64_prec_lt_emax. rewrite H1.
  cbn [round_mode]. rewrite !round_FIX0. rewrite Ztrunc_IZR. reflexivity.
Qed.

Lemma b64_eq0_of_Z : forall n : Z, (Z.abs n <= 2 ^ 64)%Z -> b64_eq0 (b64_of_Z n) = (n =? 0)%Z.
Proof.
  intros n Hn. destruct (b64_of_Z_RN n Hn) as [H1 H2]. unfold b64_eq0.
  rewrite Beqb_correct by (exact H2 || reflexivity). rewrite H1. cbn [B2R].
  destruct (Z.eqb_spec n 0) as [E|E].
  - subst n. rewrite RN_0. apply Req_bool_true. reflexivity.
  - apply Req_bool_false. intro H0.
    assert (Hge : bpow radix2 0 <= Rabs (RN (IZR n))).
    { apply RN_abs_ge_bpow; [lia|]. rewrite <- abs_IZR. cbn [bpow]. apply IZR_le. lia. }
    rewrite H0, Rabs_R0 in Hge. cbn [bpow] in Hge. lra.
Qed.

(* ====================================================================================== *)
(* 4. rounding error of  RN (dk * RN (dt / ds))                                            *)
(* ====================================================================================== *)
(* unit roundoff of binary64 *)
Definition u64 : R := bpow radix2 (-53).

Lemma u64_val : u64 = / IZR (2 ^ 53).
Proof. unfold u64. change (-53)%Z with (Z.opp 53). rewrite bpow_opp, bpow_IZR by lia. reflexivity. Qed.

Lemma u64_pos : 0 < u64.
Proof. apply bpow_gt_0. Qed.

Lemma u64_lt : u64 < / 1000.
Proof. rewrite u64_val. apply Rinv_lt_contravar; [|apply IZR_lt; reflexivity]. apply Rmult_lt_0_compat; [lra|apply IZR_lt; reflexivity]. Qed.

Lemma u_ro_64 : u_ro radix2 53 = u64.
Proof.
  unfold u_ro, u64. change (-53)%Z with (-1 + (-53 + 1))%Z. rewrite (bpow_plus radix2 (-1)). reflexivity.
Qed.

(* standard model, with the sharp constant u/(1+u), for values that are not subnormal *)
Lemma RN_rel : forall x : R, bpow radix2 (-1022) <= Rabs x ->
  exists eps : R, Rabs eps <= u64 / (1 + u64) /\ RN x = x * (1 + eps).
Proof.
  intros x Hx. unfold RN. rewrite round_FLT_FLX by exact Hx.
  destruct (relative_error_N_FLX'_ex radix2 53 eq_refl (fun t => negb (Z.even t)) x) as [eps [H1 H2]].
  rewrite u_ro_64 in H1. exists eps. split; assumption.
Qed.

Lemma RN_rel0 : forall x : R, x = 0 \/ bpow radix2 (-1022) <= Rabs x ->
  exists eps : R, Rabs eps <= u64 / (1 + u64) /\ RN x = x * (1 + eps).
Proof.
  intros x [H|H].
  - exists 0. subst x. rewrite RN_0, Rabs_R0. split; [|ring].
    apply Rmult_le_pos; [apply Rlt_le, u64_pos|apply Rlt_le, Rinv_0_lt_compat; pose proof u64_pos; lra].
  - apply RN_rel. exact H.
Qed.

(* the relative error of the two roundings of interp_i64: rho64 = (1 + u/(1+u))^2 - 1 < 2^-52 *)
Definition rho64 : R := u64 / (1 + u64) * (2 + u64 / (1 + u64)).

Lemma rho64_lt : rho64 < bpow radix2 (-52).
Proof.
  unfold rho64. replace (bpow radix2 (-52)) with (2 * u64).
  - pose proof u64_pos as Hu. set (v := u64 / (1 + u64)).
    assert (Hv : v * (1 + u64) = u64) by (unfold v; field; lra).
    assert (Hv0 : 0 < v) by (unfold v; apply Rmult_lt_0_compat; [lra|apply Rinv_0_lt_compat; lra]).
    nra.
  - unfold u64. change (-52)%Z with (1 + -53)%Z. rewrite (bpow_plus radix2 1). reflexivity.
Qed.

Lemma rho64_pos : 0 < rho64.
Proof.
  unfold rho64. pose proof u64_pos as Hu.
  assert (Hv0 : 0 < u64 / (1 + u64)) by (apply Rmult_lt_0_compat; [lra|apply Rinv_0_lt_compat; lra]).
  apply Rmult_lt_0_compat; lra.
Qed.

Lemma two_roundings : forall e eps1 eps2 : R,
  Rabs eps1 <= u64 / (1 + u64) -> Rabs eps2 <= u64 / (1 + u64) ->
  Rabs (e * (1 + eps1) * (1 + eps2) - e) <= Rabs e * rho64.
Proof.
  intros e eps1 eps2 H1 H2.
  replace (e * (1 + eps1) * (1 + eps2) - e) with (e * (eps1 + eps2 + eps1 * eps2)) by ring.
  rewrite Rabs_mult. apply Rmult_le_compat_l; [apply Rabs_pos|].
  unfold rho64. set (v := u64 / (1 + u64)) in *.
  eapply Rle_trans; [apply Rabs_triang|]. rewrite Rabs_mult.
  eapply Rle_trans; [apply Rplus_le_compat_r, Rabs_triang|].
  pose proof (Rabs_pos eps1). pose proof (Rabs_pos eps2). nra.
Qed.

Lemma IZR_abs_ge1 : forall n : Z, n <> 0%Z -> 1 <= Rabs (IZR n).
Proof. intros n Hn. rewrite <- abs_IZR. apply IZR_le. lia. Qed.

Lemma IZR_abs_le : forall (n B : Z), (Z.abs n <= B)%Z -> Rabs (IZR n) <= IZR B.
Proof. intros n B Hn. rewrite <- abs_IZR. apply IZR_le. exact Hn. Qed.

(* the quotient of two integers of magnitude <= 2^53 is 0 or at least 2^-53: never subnormal *)
Lemma quot_bounds : forall dt ds : Z, (Z.abs dt <= 2 ^ 53)%Z -> (Z.abs ds <= 2 ^ 53)%Z -> ds <> 0%Z ->
  Rabs (IZR dt / IZR ds) <= IZR (2 ^ 53) /\ (dt <> 0%Z -> / IZR (2 ^ 53) <= Rabs (IZR dt / IZR ds)).
Proof.
  intros dt ds Ht Hs Hs0.
  pose proof (IZR_abs_le dt _ Ht) as Bt. pose proof (IZR_abs_le ds _ Hs) as Bs.
  pose proof (IZR_abs_ge1 ds Hs0) as Ls.
  assert (Hz : IZR ds <> 0) by (apply not_0_IZR; exact Hs0).
  unfold Rdiv. rewrite Rabs_mult, Rabs_inv.
  assert (P53 : 0 < IZR (2 ^ 53)) by (apply IZR_lt; reflexivity).
  assert (Hi : 0 < / Rabs (IZR ds) <= 1).
  { split; [apply Rinv_0_lt_compat; lra|]. rewrite <- Rinv_1. apply Rinv_le_contravar; lra. }
  split.
  - pose proof (Rabs_pos (IZR dt)). nra.
  - intros Ht0. pose proof (IZR_abs_ge1 dt Ht0) as Lt.
    assert (Hi2 : / IZR (2 ^ 53) <= / Rabs (IZR ds)) by (apply Rinv_le_contravar; lra).
    assert (0 < / IZR (2 ^ 53)) by (apply Rinv_0_lt_compat; exact P53).
    nra.
Qed.

Lemma bpow_m1022_le : bpow radix2 (-1022) <= / IZR (2 ^ 53) * / 2.
Proof.
  replace (/ IZR (2 ^ 53) * / 2) with (bpow radix2 (-54)).
  - apply bpow_le. lia.
  - change (-54)%Z with (-53 + -1)%Z. rewrite bpow_plus. fold u64. rewrite u64_val. reflexivity.
Qed.

(* the value the C computes before round(): c = RN (dk * RN (dt / ds)); exact value e = dk * dt / ds *)
Theorem fp_product_error : forall dk ds dt : Z,
  (Z.abs dk <= 2 ^ 53)%Z -> (Z.abs ds <= 2 ^ 53)%Z -> (Z.abs dt <= 2 ^ 53)%Z -> ds <> 0%Z ->
  let e := IZR dk * (IZR dt / IZR ds) in
  let c := RN (IZR dk * RN (IZR dt / IZR ds)) in
  Rabs (c - e) <= Rabs e * rho64.
Proof.
  intros dk ds dt Hk Hs Ht Hs0 e c.
  pose proof rho64_pos as Hrho.
  destruct (quot_bounds dt ds Ht Hs Hs0) as [Q1 Q2].
  destruct (Z.eq_dec dt 0) as [Zt|Zt].
  { subst dt. unfold c, e. unfold Rdiv. rewrite Rmult_0_l, RN_0, Rmult_0_r, RN_0, Rminus_0_r, Rabs_R0. lra. }
  destruct (Z.eq_dec dk 0) as [Zk|Zk].
  { subst dk. unfold c, e. rewrite !Rmult_0_l, RN_0, Rminus_0_r, Rabs_R0. lra. }
  specialize (Q2 Zt).
  pose proof bpow_m1022_le as Hm.
  assert (P53 : 0 < / IZR (2 ^ 53)) by (apply Rinv_0_lt_compat, IZR_lt; reflexivity).
  destruct (RN_rel (IZR dt / IZR ds)) as [eps1 [E1 R1]]; [lra|].
  pose proof (IZR_abs_ge1 dk Zk) as Lk.
  assert (Hv : u64 / (1 + u64) <= / 2).
  { pose proof u64_pos. pose proof u64_lt. apply Rmult_le_reg_r with (1 + u64); [lra|].
    unfold Rdiv. rewrite Rmult_assoc, Rinv_l by lra. lra. }
  assert (Hp : bpow radix2 (-1022) <= Rabs (IZR dk * RN (IZR dt / IZR ds))).
  { rewrite R1, Rabs_mult, Rabs_mult.
    assert (/ 2 <= Rabs (1 + eps1)).
    { apply Rabs_le_inv in E1. rewrite Rabs_pos_eq; lra. }
    assert (S1 : / IZR (2 ^ 53) * / 2 <= Rabs (IZR dt / IZR ds) * Rabs (1 + eps1)).
    { apply Rmult_le_compat; lra. }
    set (w := Rabs (IZR dt / IZR ds) * Rabs (1 + eps1)) in *.
    assert (0 <= w) by lra. nra. }
  destruct (RN_rel _ Hp) as [eps2 [E2 R2]].
  unfold c. rewrite R2, R1.
  replace (IZR dk * (IZR dt / IZR ds * (1 + eps1)) * (1 + eps2)) with (e * (1 + eps1) * (1 + eps2)) by (unfold e; ring).
  apply two_roundings; assumption.
Qed.

(* ====================================================================================== *)
(* 5. fp_interp_k against interp_k                                                        *)
(* ====================================================================================== *)
Lemma interp_k_R : forall dk ds dt : Z, ds <> 0%Z ->
  interp_k dk ds dt = ZnearestA (IZR dk * (IZR dt / IZR ds)).
Proof.
  intros dk ds dt Hs. unfold interp_k. rewrite Qround_haz_R. f_equal.
  rewrite Q2R_mult, Q2R_div, !Q2R_inject_Z; [reflexivity|].
  intro H. apply Hs. unfold Qeq, inject_Z in H. cbn [Qnum Qden] in H. lia.
Qed.

(* |dk * dt| <= B * |ds|  is  |dk * dt / ds| <= B *)
Lemma exact_bound_R : forall dk ds dt B : Z, ds <> 0%Z -> (Z.abs (dk * dt) <= B * Z.abs ds)%Z ->
  Rabs (IZR dk * (IZR dt / IZR ds)) <= IZR B.
Proof.
  intros dk ds dt B Hs H.
  assert (Hz : IZR ds <> 0) by (apply not_0_IZR; exact Hs).
  replace (IZR dk * (IZR dt / IZR ds)) with (IZR (dk * dt) / IZR ds) by (rewrite mult_IZR; field; exact Hz).
  unfold Rdiv. rewrite Rabs_mult, Rabs_inv, <- !abs_IZR.
  assert (Hp : 0 < IZR (Z.abs ds)) by (apply IZR_lt; lia).
  apply Rmult_le_reg_r with (IZR (Z.abs ds)); [exact Hp|].
  rewrite Rmult_assoc, Rinv_l by lra. rewrite Rmult_1_r, <- mult_IZR. apply IZR_le. exact H.
Qed.

Section InterpK.
Variables dk ds dt : Z.
Hypothesis Hk : (Z.abs dk <= 2 ^ 53)%Z.
Hypothesis Hs : (Z.abs ds <= 2 ^ 53)%Z.
Hypothesis Ht : (Z.abs dt <= 2 ^ 53)%Z.
Hypothesis Hs0 : ds <> 0%Z.
Hypothesis Hmag : (Z.abs (dk * dt) <= 2 ^ 51 * Z.abs ds)%Z.

Let e : R := IZR dk * (IZR dt / IZR ds).
Let c : R := RN (IZR dk * RN (IZR dt / IZR ds)).

Lemma ik_e_bound : Rabs e <= IZR (2 ^ 51).
Proof. apply exact_bound_R; assumption. Qed.

Lemma ik_err : Rabs (c - e) <= Rabs e * rho64.
Proof. apply fp_product_error; assumption. Qed.

Lemma ik_err_half : Rabs (c - e) < / 2.
Proof.
  pose proof ik_err as H. pose proof ik_e_bound as Hb. pose proof rho64_lt as Hr. pose proof rho64_pos as Hr0.
  assert (H52 : bpow radix2 (-52) * IZR (2 ^ 51) = / 2).
  { rewrite <- bpow_IZR by lia. rewrite <- bpow_plus. reflexivity. }
  destruct (Req_dec e 0) as [E0|E0].
  - rewrite E0 in H |- *. rewrite Rabs_R0, Rmult_0_l in H. lra.
  - assert (0 < Rabs e) by (apply Rabs_pos_lt; exact E0).
    assert (Rabs e * rho64 < Rabs e * bpow radix2 (-52)) by (apply Rmult_lt_compat_l; assumption).
    assert (Rabs e * bpow radix2 (-52) <= IZR (2 ^ 51) * bpow radix2 (-52)).
    { apply Rmult_le_compat_r; [apply bpow_ge_0|exact Hb]. }
    lra.
Qed.

(* what the floating-point operations deliver, with no fault *)
Lemma ik_value : fp_interp_k dk ds dt = TmOk (ZnearestA c).
Proof.
  unfold fp_interp_k.
  destruct (b64_of_Z_exact dk Hk) as [Vk Fk]. destruct (b64_of_Z_exact ds Hs) as [Vs Fs].
  destruct (b64_of_Z_exact dt Ht) as [Vt Ft].
  destruct (quot_bounds dt ds Ht Hs Hs0) as [Q1 _].
  assert (B53 : IZR (2 ^ 53) = bpow radix2 53) by (symmetry; apply bpow_IZR; lia).
  destruct (b64_div_RN (b64_of_Z dt) (b64_of_Z ds)) as [Vq Fq].
  { rewrite Vs. apply not_0_IZR. exact Hs0. }
  { exact Ft. }
  { rewrite Vt, Vs. eapply Rle_trans; [exact Q1|]. rewrite B53. apply bpow_le. lia. }
  rewrite Vt, Vs in Vq.
  assert (Bq : Rabs (RN (IZR dt / IZR ds)) <= bpow radix2 53).
  { apply RN_abs_le_bpow; [lia|]. rewrite <- B53. exact Q1. }
  destruct (b64_mul_RN (b64_of_Z dk) (b64_div (b64_of_Z dt) (b64_of_Z ds)) Fk Fq) as [Vp Fp].
  { rewrite Vk, Vq, Rabs_mult. apply Rle_trans with (bpow radix2 53 * bpow radix2 53).
    - apply Rmult_le_compat; try apply Rabs_pos; [|exact Bq]. rewrite <- B53. apply IZR_abs_le. exact Hk.
    - rewrite <- bpow_plus. apply bpow_le. lia. }
  rewrite Vk, Vq in Vp. fold c in Vp.
  destruct (b64_round_to_Z _ Fp) as [Fr Vr]. rewrite Vp in Vr.
  unfold b64_to_i64. rewrite Fr, Vr.
  replace (in64 (ZnearestA c)) with true; [reflexivity|].
  symmetry. apply in64_true.
  pose proof ik_err_half as He. pose proof ik_e_bound as Hb.
  pose proof (Znearest_half (Zle_bool 0) c) as Hn.
  apply Rabs_def2 in He. apply Rabs_le_inv in Hb. apply Rabs_le_inv in Hn.
  assert (H1 : IZR (- 2 ^ 51 - 1) < IZR (ZnearestA c) < IZR (2 ^ 51 + 1)).
  { rewrite minus_IZR, plus_IZR, opp_IZR. lra. }
  destruct H1 as [H1 H2]. apply lt_IZR in H1. apply lt_IZR in H2. lia.
Qed.

Lemma ik_within_one : (-1 <= ZnearestA c - interp_k dk ds dt <= 1)%Z.
Proof.
  rewrite interp_k_R by exact Hs0. fold e. apply ZnearestA_close.
  pose proof ik_err_half. lra.
Qed.

(* the distance of the returned integer to the exact value: 1/2 from round(), the rest from binary64 *)
Lemma ik_dist : Rabs (IZR (ZnearestA c) - e) <= / 2 + Rabs e * rho64.
Proof.
  pose proof ik_err as H. pose proof (Znearest_half (Zle_bool 0) c) as Hn.
  replace (IZR (ZnearestA c) - e) with (- (c - IZR (ZnearestA c)) + (c - e)) by ring.
  eapply Rle_trans; [apply Rabs_triang|]. rewrite Rabs_Ropp. lra.
Qed.

Lemma ik_dist_lt1 : Rabs (IZR (ZnearestA c) - e) < 1.
Proof.
  pose proof ik_err_half as H. pose proof (Znearest_half (Zle_bool 0) c) as Hn.
  replace (IZR (ZnearestA c) - e) with (- (c - IZR (ZnearestA c)) + (c - e)) by ring.
  eapply Rle_lt_trans; [apply Rabs_triang|]. rewrite Rabs_Ropp. lra.
Qed.

(* exact whenever the exact value is an integer (every anchor) *)
Lemma ik_exact_int : forall n : Z, (dk * dt = n * ds)%Z ->
  ZnearestA c = n /\ interp_k dk ds dt = n.
Proof.
  intros n Hn.
  assert (Hz : IZR ds <> 0) by (apply not_0_IZR; exact Hs0).
  assert (He : e = IZR n).
  { unfold e. replace (IZR dk * (IZR dt / IZR ds)) with (IZR (dk * dt) / IZR ds) by (rewrite mult_IZR; field; exact Hz).
    rewrite Hn, mult_IZR. field. exact Hz. }
  split.
  - apply ZnearestA_int. rewrite <- He. apply ik_err_half.
  - rewrite interp_k_R by exact Hs0. fold e. rewrite He. apply ZnearestA_int.
    rewrite Rminus_diag_eq by reflexivity. rewrite Rabs_R0. lra.
Qed.

(* equal to the exact model unless the exact value is within 2^-52 |e| of a half-integer *)
Lemma ik_equal_unless_near_half :
  (forall m : Z, Rabs e * bpow radix2 (-52) <= Rabs (e - (IZR m + / 2))) ->
  ZnearestA c = interp_k dk ds dt.
Proof.
  intros Hfar. rewrite interp_k_R by exact Hs0. fold e.
  destruct (Req_dec e 0) as [E0|E0].
  - pose proof ik_err as H. rewrite E0, Rabs_R0, Rmult_0_l in H.
    assert (c - 0 = 0) by (apply Rabs_eq_R0; pose proof (Rabs_pos (c - 0)); lra).
    rewrite E0. f_equal. lra.
  - apply ZnearestA_stable with (delta := Rabs e * rho64); [apply ik_err|].
    intros m. eapply Rlt_le_trans; [|apply Hfar].
    apply Rmult_lt_compat_l; [apply Rabs_pos_lt; exact E0|apply rho64_lt].
Qed.
End InterpK.

(* ====================================================================================== *)
(* 6. interp_i64 in binary64 against the exact model, one segment                          *)
(* ====================================================================================== *)
Local Open Scope Z_scope.

(* magnitude guard for the segment c the bisection selected and the query q:
   the three differences are exactly representable (<= 2^53), the exact product
   dk * dt / ds is at most 2^51 in magnitude, and the anchor leaves room in int64 *)
Definition fp_guard (xs ys : list Z) (c : nat) (q : Z) : Prop :=
  Z.abs (q - nth c xs 0) <= 2 ^ 53 /\
  Z.abs (nth (S c) xs 0 - nth c xs 0) <= 2 ^ 53 /\
  Z.abs (nth (S c) ys 0 - nth c ys 0) <= 2 ^ 53 /\
  Z.abs ((q - nth c xs 0) * (nth (S c) ys 0 - nth c ys 0)) <= 2 ^ 51 * Z.abs (nth (S c) xs 0 - nth c xs 0) /\
  Z.abs (nth c ys 0) <= 2 ^ 62.

Lemma in64_of_abs : forall v, Z.abs v <= 2 ^ 62 + 2 ^ 53 -> in64 v = true.
Proof. intros v H. apply in64_true. lia. Qed.

Lemma interp_k_bound : forall dk ds dt, ds <> 0 -> Z.abs (dk * dt) <= 2 ^ 51 * Z.abs ds ->
  Z.abs (interp_k dk ds dt) <= 2 ^ 51.
Proof.
  intros dk ds dt Hs H. rewrite interp_k_R by exact Hs.
  pose proof (exact_bound_R dk ds dt (2 ^ 51) Hs H) as Hb.
  set (e := (IZR dk * (IZR dt / IZR ds))%R) in *.
  pose proof (Znearest_half (Zle_bool 0) e) as Hn.
  apply Rabs_le_inv in Hb. apply Rabs_le_inv in Hn.
  (* |round e| <= 2^51 because 2^51 is an integer: round is monotone, round (2^51) = 2^51 *)
  assert (H1 : (IZR (- 2 ^ 51 - 1) < IZR (ZnearestA e) < IZR (2 ^ 51 + 1))%R).
  { rewrite minus_IZR, plus_IZR, opp_IZR. lra. }
  destruct H1 as [H1 H2]. apply lt_IZR in H1. apply lt_IZR in H2. lia.
Qed.

Lemma fp_interp_at_zero : forall xs ys c q, fp_guard xs ys c q ->
  nth (S c) xs 0 - nth c xs 0 = 0 ->
  interp_at xs ys c q = TmOk (nth c ys 0) /\ fp_interp_at xs ys c q = TmOk (nth c ys 0).
Proof.
  intros xs ys c q [G1 [G2 [G3 [G4 G5]]]] Hz. unfold interp_at, fp_interp_at. cbv zeta.
  rewrite !in64_of_abs by lia. cbn [andb negb].
  rewrite b64_eq0_of_Z by lia. rewrite Hz. cbn [Z.eqb]. split; reflexivity.
Qed.

Lemma fp_interp_at_value : forall xs ys c q, fp_guard xs ys c q ->
  nth (S c) xs 0 - nth c xs 0 <> 0 ->
  let dk := q - nth c xs 0 in
  let ds := nth (S c) xs 0 - nth c xs 0 in
  let dt := nth (S c) ys 0 - nth c ys 0 in
  interp_at xs ys c q = TmOk (nth c ys 0 + interp_k dk ds dt) /\
  fp_interp_at xs ys c q = TmOk (nth c ys 0 + ZnearestA (RN (IZR dk * RN (IZR dt / IZR ds)))).
Proof.
  intros xs ys c q [G1 [G2 [G3 [G4 G5]]]] Hnz dk ds dt.
  fold dk in G1, G4. fold ds in G2, G4, Hnz. fold dt in G3, G4.
  pose proof (interp_k_bound dk ds dt Hnz G4) as Kb.
  pose proof (ik_within_one dk ds dt G1 G2 G3 Hnz G4) as W.
  split.
  - unfold interp_at. cbv zeta. fold dk ds dt.
    rewrite !in64_of_abs by lia. cbn [andb negb].
    replace (ds =? 0) with false by (symmetry; apply Z.eqb_neq; exact Hnz).
    reflexivity.
  - unfold fp_interp_at. cbv zeta. fold dk ds dt.
    rewrite (in64_of_abs dk), (in64_of_abs ds), (in64_of_abs dt) by lia. cbn [andb negb].
    rewrite b64_eq0_of_Z by lia.
    replace (ds =? 0) with false by (symmetry; apply Z.eqb_neq; exact Hnz).
    rewrite (ik_value dk ds dt G1 G2 G3 Hnz G4).
    rewrite in64_of_abs by lia. reflexivity.
Qed.

(* the main comparison on one segment: no fault on either side, at most one unit apart, equal
   when the exact value is an integer *)
Theorem fp_interp_at_within_one : forall xs ys c q, fp_guard xs ys c q ->
  exists v v' : Z,
    interp_at xs ys c q = TmOk v /\ fp_interp_at xs ys c q = TmOk v' /\
    -1 <= v' - v <= 1 /\
    (forall n : Z, (q - nth c xs 0) * (nth (S c) ys 0 - nth c ys 0) = n * (nth (S c) xs 0 - nth c xs 0) ->
       nth (S c) xs 0 - nth c xs 0 <> 0 -> v' = nth c ys 0 + n /\ v = nth c ys 0 + n).
Proof.
  intros xs ys c q G.
  destruct (Z.eq_dec (nth (S c) xs 0 - nth c xs 0) 0) as [Hz|Hnz].
  - destruct (fp_interp_at_zero xs ys c q G Hz) as [A B].
    exists (nth c ys 0), (nth c ys 0). split; [exact A|]. split; [exact B|]. split; [lia|].
    intros n _ H. contradiction.
  - destruct (fp_interp_at_value xs ys c q G Hnz) as [A B].
    destruct G as [G1 [G2 [G3 [G4 G5]]]].
    eexists; eexists. split; [exact A|]. split; [exact B|]. split.
    + pose proof (ik_within_one _ _ _ G1 G2 G3 Hnz G4). lia.
    + intros n Hn _. destruct (ik_exact_int _ _ _ G1 G2 G3 Hnz G4 n Hn) as [E1 E2].
      rewrite E1, E2. split; reflexivity.
Qed.

(* ====================================================================================== *)
(* 7. statements over Q (the exact model's field)                                          *)
(* ====================================================================================== *)
Lemma Q2R_Qabs : forall x : Q, Q2R (Qabs x) = Rabs (Q2R x).
Proof.
  intros x. destruct (Qlt_le_dec x 0) as [H|H].
  - rewrite (Qeq_eqR _ _ (Qabs_neg x (Qlt_le_weak _ _ H))). rewrite Q2R_opp.
    apply Qlt_Rlt in H. rewrite RMicromega.Q2R_0 in H. rewrite Rabs_left by exact H. reflexivity.
  - rewrite (Qeq_eqR _ _ (Qabs_pos x H)).
    apply Qle_Rle in H. rewrite RMicromega.Q2R_0 in H. rewrite Rabs_pos_eq by exact H. reflexivity.
Qed.

Lemma Q2R_pow2_inv : forall n : positive, Q2R (1 # 2 ^ n) = bpow radix2 (- Zpos n).
Proof.
  intros n. rewrite Q2R_make. rewrite bpow_opp, bpow_IZR by lia.
  rewrite Pos2Z.inj_pow. unfold Rdiv. rewrite Rmult_1_l. reflexivity.
Qed.

Definition exactQ (dk ds dt : Z) : Q := (inject_Z dk * (inject_Z dt / inject_Z ds))%Q.

Lemma Q2R_exactQ : forall dk ds dt : Z, ds <> 0 -> Q2R (exactQ dk ds dt) = (IZR dk * (IZR dt / IZR ds))%R.
Proof.
  intros dk ds dt Hs. unfold exactQ. rewrite Q2R_mult, Q2R_div, !Q2R_inject_Z; [reflexivity|].
  intro H. apply Hs. unfold Qeq, inject_Z in H. cbn [Qnum Qden] in H. lia.
Qed.

(* the C's  k = (int64_t) round(dk * (dt / ds))  in binary64, against the exact model's k:
   this replaces the rounding hypothesis of TmapProofs.c_binary64_within_one_partial *)
Theorem fp_interp_k_within_one : forall dk ds dt : Z,
  Z.abs dk <= 2 ^ 53 -> Z.abs ds <= 2 ^ 53 -> Z.abs dt <= 2 ^ 53 -> ds <> 0 ->
  Z.abs (dk * dt) <= 2 ^ 51 * Z.abs ds ->
  exists kf : Z,
    fp_interp_k dk ds dt = TmOk kf /\
    -1 <= kf - interp_k dk ds dt <= 1 /\
    (Qabs (inject_Z kf - inject_Z dk * (inject_Z dt / inject_Z ds)) <=
       (1 # 2) + Qabs (inject_Z dk * (inject_Z dt / inject_Z ds)) * (1 # 2 ^ 52))%Q /\
    (Qabs (inject_Z kf - inject_Z dk * (inject_Z dt / inject_Z ds)) < 1)%Q /\
    (forall n : Z, dk * dt = n * ds -> kf = n /\ interp_k dk ds dt = n).
Proof.
  intros dk ds dt Hk Hs Ht Hs0 Hm.
  eexists. split; [exact (ik_value dk ds dt Hk Hs Ht Hs0 Hm)|].
  split; [exact (ik_within_one dk ds dt Hk Hs Ht Hs0 Hm)|].
  fold (exactQ dk ds dt).
  split; [|split].
  - apply Rle_Qle. rewrite Q2R_plus, Q2R_mult, !Q2R_Qabs, Q2R_minus, Q2R_inject_Z, Q2R_exactQ by exact Hs0.
    rewrite Q2R_pow2_inv. rewrite Q2R_make.
    pose proof (ik_dist dk ds dt Hk Hs Ht Hs0) as Hd. pose proof rho64_lt as Hr.
    set (e := (IZR dk * (IZR dt / IZR ds))%R) in *.
    assert (Rabs e * rho64 <= Rabs e * bpow radix2 (-52))%R.
    { apply Rmult_le_compat_l; [apply Rabs_pos|lra]. }
    change (- Z.pos 52) with (-52) in *. lra.
  - apply Rlt_Qlt. rewrite Q2R_Qabs, Q2R_minus, Q2R_inject_Z, Q2R_exactQ by exact Hs0.
    replace (Q2R 1) with 1%R by (unfold Q2R; cbn; lra).
    exact (ik_dist_lt1 dk ds dt Hk Hs Ht Hs0 Hm).
  - intros n Hn. exact (ik_exact_int dk ds dt Hk Hs Ht Hs0 Hm n Hn).
Qed.

(* equal to the exact model unless the exact value lies within 2^-52 |exact| of a half-integer *)
Theorem fp_interp_k_equal_unless_near_half : forall dk ds dt : Z,
  Z.abs dk <= 2 ^ 53 -> Z.abs ds <= 2 ^ 53 -> Z.abs dt <= 2 ^ 53 -> ds <> 0 ->
  Z.abs (dk * dt) <= 2 ^ 51 * Z.abs ds ->
  (forall m : Z,
     (Qabs (inject_Z dk * (inject_Z dt / inject_Z ds)) * (1 # 2 ^ 52) <=
      Qabs (inject_Z dk * (inject_Z dt / inject_Z ds) - (inject_Z m + (1 # 2))))%Q) ->
  fp_interp_k dk ds dt = TmOk (interp_k dk ds dt).
Proof.
  intros dk ds dt Hk Hs Ht Hs0 Hm Hfar.
  rewrite (ik_value dk ds dt Hk Hs Ht Hs0 Hm). f_equal.
  apply (ik_equal_unless_near_half dk ds dt Hk Hs Ht Hs0).
  intros m. specialize (Hfar m). fold (exactQ dk ds dt) in Hfar.
  apply Qle_Rle in Hfar.
  rewrite Q2R_mult, !Q2R_Qabs, Q2R_minus, Q2R_plus, Q2R_inject_Z, Q2R_exactQ in Hfar by exact Hs0.
  rewrite Q2R_pow2_inv in Hfar. rewrite Q2R_make in Hfar. change (- Z.pos 52) with (-52) in Hfar.
  replace (IZR 1 / IZR 2)%R with (/ 2)%R in Hfar by lra. exact Hfar.
Qed.

(* ====================================================================================== *)
(* 8. the whole conversion functions, two or more entries                                  *)
(* ====================================================================================== *)
Theorem fp_interp_within_one : forall xs ys q, (1 <= length xs)%nat ->
  (forall c, search xs q = TmOk c -> fp_guard xs ys c q) ->
  exists v v' : Z, interp xs ys q = TmOk v /\ fp_interp xs ys q = TmOk v' /\ -1 <= v' - v <= 1.
Proof.
  intros xs ys q Hl Hg. destruct (search_total xs q Hl) as [c [Hc _]].
  destruct (fp_interp_at_within_one xs ys c q (Hg c Hc)) as [v [v' [A [B [C _]]]]].
  exists v, v'. unfold interp, fp_interp. rewrite Hc. auto.
Qed.

Lemma tmap_multi : forall (rate : b64) (t : tmap) (q : Z), (2 <= length (tm_entries t))%nat ->
  tmap_sample_id_to_timestamp t q = qres_of (interp (ids t) (times t) q) /\
  fp_tmap_sample_id_to_timestamp rate t q = qres_of (fp_interp (ids t) (times t) q) /\
  tmap_timestamp_to_sample_id t q = qres_of (interp (times t) (ids t) q) /\
  fp_tmap_timestamp_to_sample_id rate t q = qres_of (fp_interp (times t) (ids t) q).
Proof.
  intros rate t q Hl.
  unfold tmap_sample_id_to_timestamp, fp_tmap_sample_id_to_timestamp,
    tmap_timestamp_to_sample_id, fp_tmap_timestamp_to_sample_id.
  destruct (tm_entries t) as [|[s0 u0] [|e2 r]] eqn:E; cbn [length] in Hl; try lia.
  repeat split; reflexivity.
Qed.

(* both directions, any query (interpolation or extrapolation), guard on the selected segment *)
Theorem fp_tmap_within_one : forall (rate : b64) (t : tmap) (q : Z), (2 <= length (tm_entries t))%nat ->
  ((forall c, search (ids t) q = TmOk c -> fp_guard (ids t) (times t) c q) ->
   exists v v' : Z, tmap_sample_id_to_timestamp t q = QVal v /\
     fp_tmap_sample_id_to_timestamp rate t q = QVal v' /\ -1 <= v' - v <= 1) /\
  ((forall c, search (times t) q = TmOk c -> fp_guard (times t) (ids t) c q) ->
   exists v v' : Z, tmap_timestamp_to_sample_id t q = QVal v /\
     fp_tmap_timestamp_to_sample_id rate t q = QVal v' /\ -1 <= v' - v <= 1).
Proof.
  intros rate t q Hl. destruct (tmap_multi rate t q Hl) as [E1 [E2 [E3 E4]]].
  split; intros Hg.
  - destruct (fp_interp_within_one (ids t) (times t) q) as [v [v' [A [B C]]]]; [rewrite ids_length; lia|exact Hg|].
    exists v, v'. rewrite E1, E2, A, B. cbn [qres_of]. auto.
  - destruct (fp_interp_within_one (times t) (ids t) q) as [v [v' [A [B C]]]]; [rewrite times_length; lia|exact Hg|].
    exists v, v'. rewrite E3, E4, A, B. cbn [qres_of]. auto.
Qed.

(* ---- queries between the first and the last anchor: the guard is a property of the map ---- *)
Definition fp_map_ok (xs ys : list Z) : Prop :=
  forall j, (j + 1 < length xs)%nat ->
    nth (S j) xs 0 - nth j xs 0 <= 2 ^ 53 /\
    0 <= nth (S j) ys 0 - nth j ys 0 <= 2 ^ 51 /\
    Z.abs (nth j ys 0) <= 2 ^ 62.

Lemma fp_guard_inside : forall xs ys q c, sorted_lt xs -> fp_map_ok xs ys ->
  nth 0 xs 0 <= q <= nth (length xs - 1) xs 0 -> seg_ok xs q c ->
  fp_guard xs ys c q /\ 0 <= q - nth c xs 0 <= nth (S c) xs 0 - nth c xs 0 /\
  0 < nth (S c) xs 0 - nth c xs 0 /\ 0 <= nth (S c) ys 0 - nth c ys 0.
Proof.
  intros xs ys q c Hsx Hm Hq [A1 [A2 A3]].
  destruct (Hm c ltac:(lia)) as [M1 [M2 M3]].
  pose proof (Hsx c (S c) ltac:(lia)) as Hds.
  assert (Hlo : nth c xs 0 <= q).
  { destruct c as [|c']; [lia|]. apply A2. lia. }
  assert (Hhi : q <= nth (S c) xs 0).
  { destruct (Nat.eq_dec (S c) (length xs - 1)) as [E|E].
    - rewrite E. lia.
    - pose proof (A3 (S c) ltac:(lia) ltac:(lia)). lia. }
  split; [|lia].
  unfold fp_guard. repeat split; try lia.
  rewrite Z.abs_eq by nia. rewrite (Z.abs_eq (nth (S c) xs 0 - nth c xs 0)) by lia. nia.
Qed.

Lemma e_range : forall dk ds dt : Z, 0 <= dk <= ds -> 0 < ds -> 0 <= dt ->
  (0 <= IZR dk * (IZR dt / IZR ds) <= IZR dt)%R.
Proof.
  intros dk ds dt Hk Hs Ht.
  assert (R1 : (0 <= IZR dk <= IZR ds)%R) by (split; apply IZR_le; lia).
  assert (R2 : (0 < IZR ds)%R) by (apply IZR_lt; lia).
  assert (R3 : (0 <= IZR dt)%R) by (apply IZR_le; lia).
  replace (IZR dk * (IZR dt / IZR ds))%R with (IZR dt * (IZR dk / IZR ds))%R by (field; lra).
  assert (R4 : (0 <= IZR dk / IZR ds <= 1)%R).
  { split.
    - apply Rmult_le_pos; [lra|apply Rlt_le, Rinv_0_lt_compat; lra].
    - apply Rmult_le_reg_r with (IZR ds); [lra|]. unfold Rdiv. rewrite Rmult_assoc, Rinv_l by lra. lra. }
  nra.
Qed.

Lemma Z_between : forall (k : Z) (e : R) (d : Z), (Rabs (IZR k - e) < 1)%R -> (0 <= e <= IZR d)%R -> 0 <= k <= d.
Proof.
  intros k e d H He. apply Rabs_def2 in H.
  assert (H1 : (IZR (-1) < IZR k < IZR (d + 1))%R) by (rewrite plus_IZR; lra).
  destruct H1 as [H1 H2]. apply lt_IZR in H1. apply lt_IZR in H2. lia.
Qed.

Lemma fp_map_ok_le : forall xs ys a b, fp_map_ok xs ys -> (a <= b)%nat -> (b < length xs)%nat ->
  nth a ys 0 <= nth b ys 0.
Proof.
  intros xs ys a b Hm Hab Hb. induction b as [|b IH].
  - replace a with 0%nat by lia. lia.
  - destruct (Nat.eq_dec a (S b)) as [->|Hne]; [lia|].
    pose proof (Hm b ltac:(lia)) as [_ [M2 _]]. specialize (IH ltac:(lia) ltac:(lia)). lia.
Qed.

(* explicit values on the selected segment, inside the anchors' range *)
Lemma fp_interp_inside_value : forall xs ys q c, sorted_lt xs -> (2 <= length xs)%nat -> fp_map_ok xs ys ->
  nth 0 xs 0 <= q <= nth (length xs - 1) xs 0 -> seg_ok xs q c ->
  let dk := q - nth c xs 0 in
  let ds := nth (S c) xs 0 - nth c xs 0 in
  let dt := nth (S c) ys 0 - nth c ys 0 in
  interp xs ys q = TmOk (nth c ys 0 + interp_k dk ds dt) /\
  fp_interp xs ys q = TmOk (nth c ys 0 + ZnearestA (RN (IZR dk * RN (IZR dt / IZR ds)))) /\
  0 <= interp_k dk ds dt <= dt /\
  0 <= ZnearestA (RN (IZR dk * RN (IZR dt / IZR ds))) <= dt.
Proof.
  intros xs ys q c Hsx Hl Hm Hq Hc dk ds dt.
  destruct (fp_guard_inside xs ys q c Hsx Hm Hq Hc) as [G [Hdk [Hds Hdt]]].
  fold dk ds in Hdk. fold ds in Hds. fold dt in Hdt.
  destruct (search_fixed_seg_ok xs q Hsx Hl) as [c' [Hs Hc']].
  assert (c' = c) by (eapply seg_ok_unique; eauto using sorted_lt_le). subst c'.
  destruct (fp_interp_at_value xs ys c q G ltac:(lia)) as [A B]. fold dk ds dt in A, B.
  unfold interp, fp_interp. rewrite Hs. split; [exact A|]. split; [exact B|].
  destruct G as [G1 [G2 [G3 [G4 G5]]]]. fold dk in G1, G4. fold ds in G2, G4. fold dt in G3, G4.
  pose proof (e_range dk ds dt Hdk Hds Hdt) as He.
  split.
  - apply Z_between with (e := (IZR dk * (IZR dt / IZR ds))%R); [|exact He].
    rewrite interp_k_R by lia.
    pose proof (Znearest_half (Zle_bool 0) (IZR dk * (IZR dt / IZR ds))%R) as Hn.
    rewrite Rabs_minus_sym. lra.
  - apply Z_between with (e := (IZR dk * (IZR dt / IZR ds))%R); [|exact He].
    exact (ik_dist_lt1 dk ds dt G1 G2 G3 ltac:(lia) G4).
Qed.

Theorem fp_interp_inside : forall xs ys q, sorted_lt xs -> (2 <= length xs)%nat -> fp_map_ok xs ys ->
  nth 0 xs 0 <= q <= nth (length xs - 1) xs 0 ->
  exists (c : nat) (v v' : Z),
    seg_ok xs q c /\ interp xs ys q = TmOk v /\ fp_interp xs ys q = TmOk v' /\
    -1 <= v' - v <= 1 /\
    nth c ys 0 <= v' <= nth (S c) ys 0 /\
    (forall i, (i < length xs)%nat -> q = nth i xs 0 -> v' = nth i ys 0 /\ v = nth i ys 0).
Proof.
  intros xs ys q Hsx Hl Hm Hq.
  destruct (search_fixed_seg_ok xs q Hsx Hl) as [c [Hs Hc]].
  destruct (fp_interp_inside_value xs ys q c Hsx Hl Hm Hq Hc) as [A [B [K1 K2]]].
  destruct (fp_guard_inside xs ys q c Hsx Hm Hq Hc) as [G [Hdk [Hds Hdt]]].
  destruct G as [G1 [G2 [G3 [G4 G5]]]].
  exists c. eexists. eexists. split; [exact Hc|]. split; [exact A|]. split; [exact B|].
  split.
  { pose proof (ik_within_one _ _ _ G1 G2 G3 ltac:(lia) G4). lia. }
  split; [lia|].
  intros i Hi Hqi.
  destruct Hc as [C1 _].
  assert (Hic : i = c \/ i = S c).
  { destruct (Nat.lt_trichotomy i c) as [H|[H|H]].
    - pose proof (Hsx i c ltac:(lia)). lia.
    - left; exact H.
    - destruct (Nat.eq_dec i (S c)) as [E|E]; [right; exact E|].
      pose proof (Hsx (S c) i ltac:(lia)). lia. }
  destruct Hic as [->| ->].
  - destruct (ik_exact_int _ _ _ G1 G2 G3 ltac:(lia) G4 0) as [E1 E2]; [rewrite Hqi; ring|].
    rewrite E1, E2. split; ring.
  - destruct (ik_exact_int _ _ _ G1 G2 G3 ltac:(lia) G4 (nth (S c) ys 0 - nth c ys 0)) as [E1 E2]; [rewrite Hqi; ring|].
    rewrite E1, E2. split; ring.
Qed.

(* the binary64 conversion is non-decreasing between the first and the last anchor *)
Theorem fp_interp_monotone_inside : forall xs ys q1 q2 v1 v2, sorted_lt xs -> (2 <= length xs)%nat -> fp_map_ok xs ys ->
  nth 0 xs 0 <= q1 -> q1 <= q2 -> q2 <= nth (length xs - 1) xs 0 ->
  fp_interp xs ys q1 = TmOk v1 -> fp_interp xs ys q2 = TmOk v2 -> v1 <= v2.
Proof.
  intros xs ys q1 q2 v1 v2 Hsx Hl Hm Hq1 Hq12 Hq2 H1 H2.
  destruct (search_fixed_seg_ok xs q1 Hsx Hl) as [c1 [_ Hc1]].
  destruct (search_fixed_seg_ok xs q2 Hsx Hl) as [c2 [_ Hc2]].
  destruct (fp_interp_inside_value xs ys q1 c1 Hsx Hl Hm ltac:(lia) Hc1) as [_ [B1 [_ K1]]].
  destruct (fp_interp_inside_value xs ys q2 c2 Hsx Hl Hm ltac:(lia) Hc2) as [_ [B2 [_ K2]]].
  rewrite B1 in H1. rewrite B2 in H2. inversion H1; subst v1. inversion H2; subst v2. clear H1 H2.
  pose proof (seg_mono xs q1 q2 c1 c2 Hq12 Hc1 Hc2) as Hcc.
  destruct (Nat.eq_dec c1 c2) as [E|E].
  - subst c2.
    assert (ZnearestA (RN (IZR (q1 - nth c1 xs 0) * RN (IZR (nth (S c1) ys 0 - nth c1 ys 0) / IZR (nth (S c1) xs 0 - nth c1 xs 0)))) <=
            ZnearestA (RN (IZR (q2 - nth c1 xs 0) * RN (IZR (nth (S c1) ys 0 - nth c1 ys 0) / IZR (nth (S c1) xs 0 - nth c1 xs 0))))); [|lia].
    destruct (fp_guard_inside xs ys q1 c1 Hsx Hm ltac:(lia) Hc1) as [_ [Hdk [Hds Hdt]]].
    apply (@Zrnd_le ZnearestA (valid_rnd_N _)).
    apply round_le; [apply FLT_exp_valid; reflexivity|apply valid_rnd_N|].
    apply Rmult_le_compat_r.
    + rewrite <- RN_0. apply round_le; [apply FLT_exp_valid; reflexivity|apply valid_rnd_N|].
      apply Rmult_le_pos; [apply IZR_le; lia|apply Rlt_le, Rinv_0_lt_compat, IZR_lt; lia].
    + apply IZR_le. lia.
  - destruct Hc2 as [C2 _].
    pose proof (fp_map_ok_le xs ys (S c1) c2 Hm ltac:(lia) ltac:(lia)). lia.
Qed.

(* ---- distance of the binary64 result to the exact (unrounded) rational value ---- *)
Theorem fp_interp_at_dist : forall xs ys c q, fp_guard xs ys c q ->
  exists v' : Z, fp_interp_at xs ys c q = TmOk v' /\
    (Qabs (inject_Z v' - exact_at xs ys c q) <=
       (1 # 2) + Qabs (exact_at xs ys c q - inject_Z (nth c ys 0%Z)) * (1 # 2 ^ 52))%Q /\
    (Qabs (inject_Z v' - exact_at xs ys c q) < 1)%Q.
Proof.
  intros xs ys c q G.
  destruct (Z.eq_dec (nth (S c) xs 0 - nth c xs 0) 0) as [Hz|Hnz].
  - destruct (fp_interp_at_zero xs ys c q G Hz) as [_ B].
    exists (nth c ys 0). split; [exact B|].
    assert (E : (exact_at xs ys c q == inject_Z (nth c ys 0%Z))%Q).
    { unfold exact_at. cbv zeta. rewrite Hz. unfold Qdiv. change (/ inject_Z 0%Z)%Q with 0%Q. ring. }
    rewrite E.
    assert (E0 : (inject_Z (nth c ys 0%Z) - inject_Z (nth c ys 0%Z) == 0)%Q) by ring.
    rewrite E0. change (Qabs 0) with 0%Q. rewrite Qmult_0_l. split; [discriminate|reflexivity].
  - destruct (fp_interp_at_value xs ys c q G Hnz) as [_ B].
    destruct G as [G1 [G2 [G3 [G4 G5]]]].
    destruct (fp_interp_k_within_one _ _ _ G1 G2 G3 Hnz G4) as [kf [K1 [_ [K3 [K4 _]]]]].
    rewrite (ik_value _ _ _ G1 G2 G3 Hnz G4) in K1. inversion K1 as [K1'].
    eexists. split; [exact B|]. rewrite K1'.
    set (E := (inject_Z (q - nth c xs 0%Z) * (inject_Z (nth (S c) ys 0%Z - nth c ys 0%Z) / inject_Z (nth (S c) xs 0%Z - nth c xs 0%Z)))%Q) in *.
    assert (E1 : (inject_Z (nth c ys 0%Z + kf) - exact_at xs ys c q == inject_Z kf - E)%Q).
    { unfold exact_at. cbv zeta. fold E. rewrite inject_Z_plus. ring. }
    assert (E2 : (exact_at xs ys c q - inject_Z (nth c ys 0%Z) == E)%Q).
    { unfold exact_at. cbv zeta. fold E. ring. }
    rewrite E1, E2. split; assumption.
Qed.

(* ====================================================================================== *)
(* 9. property theorems for jls_tmap_sample_id_to_timestamp / _timestamp_to_sample_id       *)
(* ====================================================================================== *)
(* any query; c = the segment the C selects; the binary64 result is less than one tick from the
   exact linear value (the exact model is within 1/2) *)
Theorem fp_tmap_within_one_tick : forall (rate : b64) (t : tmap) (q : Z) (c : nat),
  sorted_lt (ids t) -> (2 <= length (tm_entries t))%nat ->
  seg_ok (ids t) q c -> fp_guard (ids t) (times t) c q ->
  exists v' : Z, fp_tmap_sample_id_to_timestamp rate t q = QVal v' /\
    (Qabs (inject_Z v' - exact_at (ids t) (times t) c q) <=
       (1 # 2) + Qabs (exact_at (ids t) (times t) c q - inject_Z (nth c (times t) 0%Z)) * (1 # 2 ^ 52))%Q /\
    (Qabs (inject_Z v' - exact_at (ids t) (times t) c q) < 1)%Q.
Proof.
  intros rate t q c Hsx Hl Hc G.
  destruct (tmap_multi rate t q Hl) as [_ [E2 _]].
  assert (Hl' : (2 <= length (ids t))%nat) by (rewrite ids_length; exact Hl).
  destruct (search_fixed_seg_ok (ids t) q Hsx Hl') as [c' [Hs Hc']].
  assert (c' = c) by (eapply seg_ok_unique; eauto using sorted_lt_le). subst c'.
  destruct (fp_interp_at_dist _ _ _ _ G) as [v' [A [B C]]].
  exists v'. rewrite E2. unfold fp_interp. rewrite Hs, A. cbn [qres_of]. auto.
Qed.

(* queries between the first and the last anchor, sample id -> time *)
Theorem fp_tmap_inside : forall (rate : b64) (t : tmap) (q : Z),
  sorted_lt (ids t) -> (2 <= length (tm_entries t))%nat -> fp_map_ok (ids t) (times t) ->
  nth 0 (ids t) 0 <= q <= nth (length (tm_entries t) - 1) (ids t) 0 ->
  exists (c : nat) (v v' : Z),
    seg_ok (ids t) q c /\
    tmap_sample_id_to_timestamp t q = QVal v /\ fp_tmap_sample_id_to_timestamp rate t q = QVal v' /\
    -1 <= v' - v <= 1 /\
    nth c (times t) 0 <= v' <= nth (S c) (times t) 0 /\
    (Qabs (inject_Z v' - exact_at (ids t) (times t) c q) < 1)%Q /\
    (forall i, (i < length (tm_entries t))%nat -> q = nth i (ids t) 0 -> v' = nth i (times t) 0).
Proof.
  intros rate t q Hsx Hl Hm Hq.
  destruct (tmap_multi rate t q Hl) as [E1 [E2 _]].
  assert (Hl' : (2 <= length (ids t))%nat) by (rewrite ids_length; exact Hl).
  rewrite <- ids_length in Hq.
  destruct (fp_interp_inside (ids t) (times t) q Hsx Hl' Hm Hq) as [c [v [v' [Hc [A [B [W [R An]]]]]]]].
  exists c, v, v'. rewrite E1, E2, A, B. cbn [qres_of].
  split; [exact Hc|]. split; [reflexivity|]. split; [reflexivity|]. split; [exact W|]. split; [exact R|].
  split.
  - destruct (fp_guard_inside _ _ _ _ Hsx Hm Hq Hc) as [G _].
    destruct (fp_interp_at_dist _ _ _ _ G) as [v2 [A2 [_ C2]]].
    destruct (search_fixed_seg_ok (ids t) q Hsx Hl') as [c' [Hs Hc']].
    assert (c' = c) by (eapply seg_ok_unique; eauto using sorted_lt_le). subst c'.
    unfold fp_interp in B. rewrite Hs, A2 in B. inversion B; subst v2. exact C2.
  - intros i Hi Hqi. rewrite <- ids_length in Hi. exact (proj1 (An i Hi Hqi)).
Qed.

(* the same for time -> sample id (the roles of the two columns exchanged) *)
Theorem fp_tmap_inside_rev : forall (rate : b64) (t : tmap) (q : Z),
  sorted_lt (times t) -> (2 <= length (tm_entries t))%nat -> fp_map_ok (times t) (ids t) ->
  nth 0 (times t) 0 <= q <= nth (length (tm_entries t) - 1) (times t) 0 ->
  exists (c : nat) (v v' : Z),
    seg_ok (times t) q c /\
    tmap_timestamp_to_sample_id t q = QVal v /\ fp_tmap_timestamp_to_sample_id rate t q = QVal v' /\
    -1 <= v' - v <= 1 /\
    nth c (ids t) 0 <= v' <= nth (S c) (ids t) 0 /\
    (forall i, (i < length (tm_entries t))%nat -> q = nth i (times t) 0 -> v' = nth i (ids t) 0).
Proof.
  intros rate t q Hsx Hl Hm Hq.
  destruct (tmap_multi rate t q Hl) as [_ [_ [E3 E4]]].
  assert (Hl' : (2 <= length (times t))%nat) by (rewrite times_length; exact Hl).
  rewrite <- times_length in Hq.
  destruct (fp_interp_inside (times t) (ids t) q Hsx Hl' Hm Hq) as [c [v [v' [Hc [A [B [W [R An]]]]]]]].
  exists c, v, v'. rewrite E3, E4, A, B. cbn [qres_of].
  split; [exact Hc|]. split; [reflexivity|]. split; [reflexivity|]. split; [exact W|]. split; [exact R|].
  intros i Hi Hqi. rewrite <- times_length in Hi. exact (proj1 (An i Hi Hqi)).
Qed.

Theorem fp_tmap_monotone_inside : forall (rate : b64) (t : tmap) (q1 q2 v1 v2 : Z),
  sorted_lt (ids t) -> (2 <= length (tm_entries t))%nat -> fp_map_ok (ids t) (times t) ->
  nth 0 (ids t) 0 <= q1 -> q1 <= q2 -> q2 <= nth (length (tm_entries t) - 1) (ids t) 0 ->
  fp_tmap_sample_id_to_timestamp rate t q1 = QVal v1 -> fp_tmap_sample_id_to_timestamp rate t q2 = QVal v2 ->
  v1 <= v2.
Proof.
  intros rate t q1 q2 v1 v2 Hsx Hl Hm Hq1 Hq12 Hq2 H1 H2.
  destruct (tmap_multi rate t q1 Hl) as [_ [E1 _]]. destruct (tmap_multi rate t q2 Hl) as [_ [E2 _]].
  rewrite E1 in H1. rewrite E2 in H2. apply qres_of_val in H1. apply qres_of_val in H2.
  rewrite <- ids_length in Hq2.
  apply (fp_interp_monotone_inside (ids t) (times t) q1 q2 v1 v2 Hsx); try assumption.
  rewrite ids_length; exact Hl.
Qed.

Theorem fp_tmap_monotone_inside_rev : forall (rate : b64) (t : tmap) (q1 q2 v1 v2 : Z),
  sorted_lt (times t) -> (2 <= length (tm_entries t))%nat -> fp_map_ok (times t) (ids t) ->
  nth 0 (times t) 0 <= q1 -> q1 <= q2 -> q2 <= nth (length (tm_entries t) - 1) (times t) 0 ->
  fp_tmap_timestamp_to_sample_id rate t q1 = QVal v1 -> fp_tmap_timestamp_to_sample_id rate t q2 = QVal v2 ->
  v1 <= v2.
Proof.
  intros rate t q1 q2 v1 v2 Hsx Hl Hm Hq1 Hq12 Hq2 H1 H2.
  destruct (tmap_multi rate t q1 Hl) as [_ [_ [_ E1]]]. destruct (tmap_multi rate t q2 Hl) as [_ [_ [_ E2]]].
  rewrite E1 in H1. rewrite E2 in H2. apply qres_of_val in H1. apply qres_of_val in H2.
  rewrite <- times_length in Hq2.
  apply (fp_interp_monotone_inside (times t) (ids t) q1 q2 v1 v2 Hsx); try assumption.
  rewrite times_length; exact Hl.
Qed.

(* ====================================================================================== *)
(* 10. a realistic map: 1 MHz, one day of samples, three anchors, drifting clock            *)
(* ====================================================================================== *)
(* UTC ticks are 2^-30 s (jls/time.h: JLS_TIME_Q = 30); 2^58 ticks = 8.5 years after the epoch.
   One day = 86400 * 2^30 < 2^47 ticks and 8.64e10 < 2^37 samples: far inside the guards. *)
Definition fp_ex_map : tmap :=
  tmap_add_all (tmap_alloc (1000000 # 1))
    [(0, 2 ^ 58); (43200000000, 2 ^ 58 + 43200 * 2 ^ 30 + 617); (86400000000, 2 ^ 58 + 86400 * 2 ^ 30 + 1234)].
Definition fp_ex_rate : b64 := b64_of_Z 1000000.

Lemma fp_map_ok_b : forall xs ys,
  forallb (fun j => (nth (S j) xs 0 - nth j xs 0 <=? 2 ^ 53) && (0 <=? nth (S j) ys 0 - nth j ys 0) &&
                    (nth (S j) ys 0 - nth j ys 0 <=? 2 ^ 51) && (Z.abs (nth j ys 0) <=? 2 ^ 62))
          (seq 0 (length xs - 1)) = true ->
  fp_map_ok xs ys.
Proof.
  intros xs ys H j Hj. rewrite forallb_forall in H. specialize (H j). rewrite in_seq in H.
  specialize (H ltac:(lia)). lia.
Qed.

Lemma fp_ex_map_ok :
  sorted_lt (ids fp_ex_map) /\ sorted_lt (times fp_ex_map) /\ (2 <= length (tm_entries fp_ex_map))%nat /\
  fp_map_ok (ids fp_ex_map) (times fp_ex_map) /\ fp_map_ok (times fp_ex_map) (ids fp_ex_map) /\
  nth 0 (ids fp_ex_map) 0 = 0 /\ nth (length (tm_entries fp_ex_map) - 1) (ids fp_ex_map) 0 = 86400000000.
Proof.
  split; [apply incr_sorted_lt, incrb_incr; vm_compute; reflexivity|].
  split; [apply incr_sorted_lt, incrb_incr; vm_compute; reflexivity|].
  split; [apply Nat.leb_le; vm_compute; reflexivity|].
  split; [apply fp_map_ok_b; vm_compute; reflexivity|].
  split; [apply fp_map_ok_b; vm_compute; reflexivity|].
  split; vm_compute; reflexivity.
Qed.

(* values computed by the binary64 model itself (Flocq's operations run inside Coq) next to the
   exact model's: equal here; an extrapolation one hour past the last anchor satisfies fp_guard *)
Lemma fp_ex_values :
  fp_tmap_sample_id_to_timestamp fp_ex_rate fp_ex_map 12345678901 = QVal 288243632223493598 /\
  tmap_sample_id_to_timestamp fp_ex_map 12345678901 = QVal 288243632223493598 /\
  fp_tmap_sample_id_to_timestamp fp_ex_rate fp_ex_map 43200000000 = QVal (2 ^ 58 + 43200 * 2 ^ 30 + 617) /\
  fp_tmap_sample_id_to_timestamp fp_ex_rate fp_ex_map 86400000000 = QVal (2 ^ 58 + 86400 * 2 ^ 30 + 1234) /\
  fp_tmap_timestamp_to_sample_id fp_ex_rate fp_ex_map 288243632223493598 = QVal 12345678901 /\
  fp_tmap_sample_id_to_timestamp fp_ex_rate fp_ex_map 90000000000 = tmap_sample_id_to_timestamp fp_ex_map 90000000000 /\
  fp_guard (ids fp_ex_map) (times fp_ex_map) 1 90000000000.
Proof.
  split; [vm_compute; reflexivity|]. split; [vm_compute; reflexivity|].
  split; [vm_compute; reflexivity|]. split; [vm_compute; reflexivity|].
  split; [vm_compute; reflexivity|]. split; [vm_compute; reflexivity|].
  unfold fp_guard. repeat split; apply Z.leb_le; vm_compute; reflexivity.
Qed.

(* ====================================================================================== *)
(* 11. the exact model and the binary64 C do differ (inside the property's tolerance)       *)
(* ====================================================================================== *)
(* exact ties: 11 * 15 / 22 = 7.5 -> exact model 8 (half away from zero); binary64: RN(15/22) is
   below 15/22, 11 * RN(15/22) rounds to the double just below 7.5, round() gives 7.
   Confirmed on the real C (build/plain/jlsrun tmap): anchors (0,T) (22,T+15), query 11 -> T+7;
   anchors (0,T) (6,T+13), query 27 -> T+58 (exact model T+59). *)
Lemma fp_differs_at_tie :
  fp_interp_k 11 22 15 = TmOk 7 /\ interp_k 11 22 15 = 8 /\
  (inject_Z 11 * (inject_Z 15 / inject_Z 22) == 15 # 2)%Q /\
  fp_interp_k 27 6 13 = TmOk 58 /\ interp_k 27 6 13 = 59.
Proof. repeat split; vm_compute; reflexivity. Qed.

(* outputs of the real C (plain build, x86-64, /repo at the current commit) for inputs found by a
   random search: the first eight differ from the exact model by one, the others agree *)
Lemma fp_model_matches_C :
  forallb (fun x : Z * Z * Z * Z => let '(dk, ds, dt, c) := x in
             match fp_interp_k dk ds dt with TmOk k => k =? c | TmFault _ => false end)
    [(-2702412, 50763, 31470704053112, -1675370019139502);
     (8410402035874, 8196149, 1477498383, 1516121218438531);
     (-2114761432735677, 594928244050532, 266759288269035, -948235791957892);
     (1890282447264, 1511327761816, 426739686022814, 533741626681033);
     (2294767857133, 979514455592, 194824132157129, 456426297453474);
     (51290450455, 104870506030, 934118610657361, 456862144875214);
     (747256917992, 1044909499074, 412379833403586, 294909447779262);
     (1070689170541, 898868679952, 279868163245719, 333365505161882);
     (224504468, 1946121, 922121677, 106375932702);
     (3053, 4055, 109889063670, 82735218591);
     (202724910614, 239700272448, 524844981936072, 443884151497069);
     (1180394540610, 1020892035402, 222945267390174, 257777872053406)] = true.
Proof. vm_compute. reflexivity. Qed.

Lemma fp_product_error_rho : forall dk ds dt : Z,
  Z.abs dk <= 2 ^ 53 -> Z.abs ds <= 2 ^ 53 -> Z.abs dt <= 2 ^ 53 -> ds <> 0 ->
  (Rabs (RN (IZR dk * RN (IZR dt / IZR ds)) - IZR dk * (IZR dt / IZR ds)) <=
     Rabs (IZR dk * (IZR dt / IZR ds)) * (u64 / (1 + u64) * (2 + u64 / (1 + u64))))%R /\
  (u64 / (1 + u64) * (2 + u64 / (1 + u64)) < bpow radix2 (-52))%R.
Proof. intros dk ds dt Hk Hs Ht H0. split; [exact (fp_product_error dk ds dt Hk Hs Ht H0)|exact rho64_lt]. Qed.

(* ====================================================================================== *)
(* 12. a single entry: extrapolation with the sample rate                                  *)
(* ====================================================================================== *)
Local Open Scope R_scope.

Lemma Ztrunc_succ_le : forall x : R, (Ztrunc (x + 1) <= Ztrunc x + 1)%Z.
Proof.
  intros x. destruct (Rle_or_lt 0 x) as [H0|H0].
  - rewrite !Ztrunc_floor by lra. pose proof (Zfloor_lb x). pose proof (Zfloor_ub x).
    rewrite (Zfloor_imp (Zfloor x + 1)); [lia|]. rewrite !plus_IZR. lra.
  - rewrite (Ztrunc_ceil x) by lra. pose proof (Zceil_ub x) as Hu.
    assert (Hl : IZR (Zceil x) - 1 < x).
    { unfold Zceil. rewrite opp_IZR. pose proof (Zfloor_ub (- x)). lra. }
    destruct (Rle_or_lt 0 (x + 1)) as [H1|H1].
    + rewrite Ztrunc_floor by lra.
      assert (Hc : (-1 <= Zceil x)%Z) by (apply le_IZR; lra).
      assert (Hf : (Zfloor (x + 1) < 1)%Z).
      { apply lt_IZR. pose proof (Zfloor_lb (x + 1)). lra. }
      lia.
    + rewrite Ztrunc_ceil by lra.
      rewrite (Zceil_imp (Zceil x + 1)); [lia|]. rewrite minus_IZR, !plus_IZR. lra.
Qed.

Lemma Ztrunc_opp' : forall x : R, Ztrunc (- x) = (- Ztrunc x)%Z.
Proof. exact Ztrunc_opp. Qed.

Lemma Ztrunc_close : forall x y : R, Rabs (x - y) < 1 -> (-1 <= Ztrunc x - Ztrunc y <= 1)%Z.
Proof.
  intros x y H. apply Rabs_def2 in H. split.
  - pose proof (Ztrunc_le y (x + 1) ltac:(lra)). pose proof (Ztrunc_succ_le x). lia.
  - pose proof (Ztrunc_le x (y + 1) ltac:(lra)). pose proof (Ztrunc_succ_le y). lia.
Qed.

Lemma Ztrunc_dist : forall x : R, Rabs (IZR (Ztrunc x) - x) < 1.
Proof.
  intros x. destruct (Rle_or_lt 0 x) as [H0|H0].
  - rewrite Ztrunc_floor by lra. pose proof (Zfloor_lb x). pose proof (Zfloor_ub x). apply Rabs_def1; lra.
  - rewrite Ztrunc_ceil by lra. pose proof (Zceil_ub x).
    assert (IZR (Zceil x) - 1 < x) by (unfold Zceil; rewrite opp_IZR; pose proof (Zfloor_ub (- x)); lra).
    apply Rabs_def1; lra.
Qed.

Lemma Ztrunc_abs_le : forall (x : R) (B : Z), Rabs x <= IZR B -> (Z.abs (Ztrunc x) <= B)%Z.
Proof.
  intros x B H. apply Rabs_le_inv in H.
  pose proof (Ztrunc_le x (IZR B) ltac:(lra)) as H1. pose proof (Ztrunc_le (IZR (- B)) x ltac:(rewrite opp_IZR; lra)) as H2.
  rewrite Ztrunc_IZR in H1, H2. lia.
Qed.

(* the model's (int64_t) cast is truncation of the real value *)
Lemma Qtrunc_R : forall q : Q, Qtrunc q = Ztrunc (Q2R q).
Proof.
  intros [n d]. rewrite Q2R_make. unfold Qtrunc. cbn [Qnum Qden].
  assert (Hd : 0 < IZR (Zpos d)) by (apply IZR_lt; reflexivity).
  destruct (Z.le_gt_cases 0 n) as [Hn|Hn].
  - rewrite Ztrunc_floor.
    + rewrite Zfloor_div by lia. apply Z.quot_div_nonneg; lia.
    + apply Rmult_le_pos; [apply IZR_le; exact Hn|apply Rlt_le, Rinv_0_lt_compat; exact Hd].
  - rewrite Ztrunc_ceil.
    + unfold Zceil. replace (- (IZR n / IZR (Zpos d))) with (IZR (- n) / IZR (Zpos d)) by (rewrite opp_IZR; field; lra).
      rewrite Zfloor_div by lia.
      replace n with (- - n)%Z at 1 by lia. rewrite Z.quot_opp_l by lia.
      rewrite Z.quot_div_nonneg by lia. reflexivity.
    + assert (IZR n <= 0) by (apply IZR_le; lia).
      unfold Rdiv. rewrite <- (Rmult_0_l (/ IZR (Zpos d))).
      apply Rmult_le_compat_r; [apply Rlt_le, Rinv_0_lt_compat; exact Hd|assumption].
Qed.

(* integers up to 2^53 scaled by a power of two (no underflow below 2^-1074) are doubles *)
Lemma format_IZR_bpow : forall (n e : Z), (Z.abs n <= 2 ^ 53)%Z -> (-1074 <= e)%Z ->
  generic_format radix2 (FLT_exp (-1074) 53) (IZR n * bpow radix2 e).
Proof.
  intros n e Hn He.
  destruct (Z.eq_dec (Z.abs n) (2 ^ 53)) as [E|E].
  - assert (Hb : generic_format radix2 (FLT_exp (-1074) 53) (IZR (2 ^ 53) * bpow radix2 e)).
    { rewrite <- bpow_IZR by lia. rewrite <- bpow_plus. apply format_bpow. lia. }
    assert (E' : (n = 2 ^ 53 \/ n = - 2 ^ 53)%Z) by lia.
    destruct E' as [E'|E']; rewrite E'.
    + exact Hb.
    + rewrite opp_IZR, Ropp_mult_distr_l_reverse. apply generic_format_opp. exact Hb.
  - apply generic_format_FLT. exists (Float radix2 n e).
    + reflexivity.
    + change (Z.abs n < 2 ^ 53)%Z. lia.
    + exact He.
Qed.

(* a double times 2^e (e >= 0) is a double (no upper limit in the format; overflow is a guard) *)
Lemma format_scale : forall (x : R) (e : Z), (0 <= e)%Z ->
  generic_format radix2 (FLT_exp (-1074) 53) x -> generic_format radix2 (FLT_exp (-1074) 53) (x * bpow radix2 e).
Proof.
  intros x e He Fx. apply FLT_format_generic in Fx; [|reflexivity].
  destruct Fx as [f Hx Hm Hex]. apply generic_format_FLT. exists (Float radix2 (Fnum f) (Fexp f + e)).
  - rewrite Hx. unfold F2R. cbn [Fnum Fexp]. rewrite bpow_plus. ring.
  - exact Hm.
  - cbn [Fexp]. lia.
Qed.

Lemma b64_to_i64_trunc : forall x : b64, is_finite x = true -> Rabs (B2R x) <= IZR (2 ^ 62) ->
  b64_to_i64 x = TmOk (Ztrunc (B2R x)).
Proof.
  intros x Hf Hb. unfold b64_to_i64. rewrite Hf.
  assert (E : Btrunc x = Ztrunc (B2R x)).
  { apply eq_IZR. rewrite Btrunc_correct by exact b64_prec_lt_emax. rewrite round_FIX0. reflexivity. }
  rewrite E. replace (in64 (Ztrunc (B2R x))) with true; [reflexivity|].
  symmetry. apply in64_true. pose proof (Ztrunc_abs_le _ _ Hb). lia.
Qed.

Lemma b64_le0_pos : forall x : b64, is_finite x = true -> 0 < B2R x -> b64_le0 x = false.
Proof.
  intros x Hf Hp. unfold b64_le0. rewrite Bcompare_correct by (exact Hf || reflexivity).
  cbn [B2R]. rewrite Rcompare_Gt by exact Hp. reflexivity.
Qed.

Lemma Qabs_le_R : forall (x : Q) (B : Z), (Qabs x <= inject_Z B)%Q -> Rabs (Q2R x) <= IZR B.
Proof. intros x B H. apply Qle_Rle in H. rewrite Q2R_Qabs, Q2R_inject_Z in H. exact H. Qed.

(* one rounding with relative error u/(1+u) <= u, then truncation, against exact truncation *)
Lemma trunc_after_rounding : forall (E y eps : R), Rabs eps <= u64 -> y = E * (1 + eps) -> Rabs E <= IZR (2 ^ 52) ->
  (-1 <= Ztrunc y - Ztrunc E <= 1)%Z /\ Rabs (IZR (Ztrunc y) - E) < 1 + Rabs E * u64 /\ Rabs y <= IZR (2 ^ 53).
Proof.
  intros E y eps He Hy HE.
  assert (Hd : Rabs (y - E) <= Rabs E * u64).
  { rewrite Hy. replace (E * (1 + eps) - E) with (E * eps) by ring. rewrite Rabs_mult.
    apply Rmult_le_compat_l; [apply Rabs_pos|exact He]. }
  assert (H52 : IZR (2 ^ 52) * u64 = / 2).
  { rewrite u64_val. replace (IZR (2 ^ 53)) with (2 * IZR (2 ^ 52)) by (rewrite <- mult_IZR; reflexivity).
    field. apply not_0_IZR. discriminate. }
  pose proof u64_pos as Hu. pose proof (Rabs_pos E) as HE0.
  assert (Hd2 : Rabs (y - E) <= / 2) by nra.
  split; [apply Ztrunc_close; lra|]. split.
  - replace (IZR (Ztrunc y) - E) with ((IZR (Ztrunc y) - y) + (y - E)) by ring.
    eapply Rle_lt_trans; [apply Rabs_triang|]. pose proof (Ztrunc_dist y). lra.
  - replace y with (E + (y - E)) by ring. eapply Rle_trans; [apply Rabs_triang|].
    replace (IZR (2 ^ 53)) with (2 * IZR (2 ^ 52)) by (rewrite <- mult_IZR; reflexivity).
    assert (1 <= IZR (2 ^ 52)) by (apply IZR_le; lia). lra.
Qed.

Section Single.
Variables (rate : b64) (r : Q).
Hypothesis Hfin : is_finite rate = true.
Hypothesis Hrate : B2R rate = Q2R r.
Hypothesis Hr_lo : bpow radix2 (-900) <= Q2R r.
Hypothesis Hr_hi : Q2R r <= bpow radix2 1000.

Lemma single_rate_pos : 0 < Q2R r.
Proof. pose proof (bpow_gt_0 radix2 (-900)). lra. Qed.

Lemma single_r_nonzero : ~ (r == 0)%Q.
Proof. intro H. apply Qeq_eqR in H. rewrite RMicromega.Q2R_0 in H. pose proof single_rate_pos. lra. Qed.

(* ---- sample id -> time:  utc[0] + (int64_t) ((double)(q - s0) / rate * 2^30) ---- *)
Theorem fp_single_id_to_time_within_one : forall s0 u0 q : Z,
  (Z.abs (q - s0) <= 2 ^ 53)%Z -> (Z.abs u0 <= 2 ^ 62)%Z ->
  (Qabs ((inject_Z (q - s0) / r) * inject_Z (2 ^ 30)) <= inject_Z (2 ^ 52))%Q ->
  exists v v' : Z,
    single_id_to_time r s0 u0 q = TmOk v /\ fp_single_id_to_time rate s0 u0 q = TmOk v' /\
    (-1 <= v' - v <= 1)%Z /\
    (Qabs (inject_Z v' - (inject_Z u0 + (inject_Z (q - s0) / r) * inject_Z (2 ^ 30))) <
       1 + Qabs ((inject_Z (q - s0) / r) * inject_Z (2 ^ 30)) * (1 # 2 ^ 53))%Q.
Proof.
  intros s0 u0 q Hd Hu0 HE.
  pose proof single_rate_pos as Hrp. pose proof single_r_nonzero as Hr0.
  set (d := (q - s0)%Z) in *.
  set (EQ := ((inject_Z d / r) * inject_Z (2 ^ 30))%Q) in *.
  set (E := IZR d / Q2R r * IZR (2 ^ 30)).
  assert (HEQ : Q2R EQ = E).
  { unfold EQ, E. rewrite Q2R_mult, Q2R_div, !Q2R_inject_Z by exact Hr0. reflexivity. }
  pose proof (Qabs_le_R _ _ HE) as HEb. rewrite HEQ in HEb.
  assert (P30 : IZR (2 ^ 30) = bpow radix2 30) by (symmetry; apply bpow_IZR; lia).
  assert (P30p : 0 < IZR (2 ^ 30)) by (apply IZR_lt; reflexivity).
  (* the quotient d / rate *)
  destruct (b64_of_Z_exact d Hd) as [Vd Fd].
  assert (Hq : Rabs (IZR d / Q2R r) <= IZR (2 ^ 52)).
  { assert (Rabs E = Rabs (IZR d / Q2R r) * IZR (2 ^ 30)) by (unfold E; rewrite Rabs_mult, (Rabs_pos_eq (IZR (2 ^ 30))); lra).
    assert (1 <= IZR (2 ^ 30)) by (apply IZR_le; lia).
    pose proof (Rabs_pos (IZR d / Q2R r)). nra. }
  destruct (b64_div_RN (b64_of_Z d) rate) as [Vq Fq].
  { rewrite Hrate. lra. }
  { exact Fd. }
  { rewrite Vd, Hrate. eapply Rle_trans; [exact Hq|]. rewrite (bpow_IZR 1023) by lia. apply IZR_le. lia. }
  rewrite Vd, Hrate in Vq.
  (* relative error of that one rounding *)
  assert (Hrel : exists eps, Rabs eps <= u64 /\ RN (IZR d / Q2R r) = IZR d / Q2R r * (1 + eps)).
  { destruct (Z.eq_dec d 0) as [Z0|Z0].
    - exists 0. rewrite Z0. unfold Rdiv. rewrite Rmult_0_l, RN_0, Rabs_R0. split; [apply Rlt_le, u64_pos|ring].
    - destruct (RN_rel (IZR d / Q2R r)) as [eps [H1 H2]].
      + unfold Rdiv. rewrite Rabs_mult, Rabs_inv, (Rabs_pos_eq (Q2R r)) by lra.
        pose proof (IZR_abs_ge1 d Z0).
        assert (/ bpow radix2 1000 <= / Q2R r) by (apply Rinv_le_contravar; lra).
        rewrite <- bpow_opp in H0.
        assert (bpow radix2 (-1022) <= bpow radix2 (-1000)) by (apply bpow_le; lia).
        pose proof (bpow_gt_0 radix2 (-1000)). change (- (1000))%Z with (-1000)%Z in H0. nra.
      + exists eps. split; [|exact H2]. pose proof u64_pos.
        assert (u64 / (1 + u64) <= u64); [|lra].
        apply Rmult_le_reg_r with (1 + u64); [lra|]. unfold Rdiv. rewrite Rmult_assoc, Rinv_l by lra. nra. }
  destruct Hrel as [eps [Heps Hrn]].
  set (y := RN (IZR d / Q2R r) * IZR (2 ^ 30)).
  assert (Hy : y = E * (1 + eps)) by (unfold y, E; rewrite Hrn; ring).
  destruct (trunc_after_rounding E y eps Heps Hy HEb) as [T1 [T2 T3]].
  (* the scaling by 2^30 is exact *)
  destruct (b64_of_Z_exact (2 ^ 30) ltac:(lia)) as [V30 F30].
  destruct (b64_mul_RN (b64_div (b64_of_Z d) rate) (b64_of_Z (2 ^ 30)) Fq F30) as [Vp Fp].
  { rewrite Vq, V30. fold y. eapply Rle_trans; [exact T3|]. rewrite (bpow_IZR 1023) by lia. apply IZR_le. lia. }
  rewrite Vq, V30 in Vp. fold y in Vp.
  assert (Hyf : RN y = y).
  { apply RN_id. unfold y. rewrite P30. apply format_scale; [lia|apply RN_format]. }
  rewrite Hyf in Vp.
  assert (Hk' : (Z.abs (Ztrunc y) <= 2 ^ 53)%Z) by (apply Ztrunc_abs_le; exact T3).
  assert (Hk : (Z.abs (Ztrunc E) <= 2 ^ 52)%Z) by (apply Ztrunc_abs_le; exact HEb).
  exists (u0 + Ztrunc E)%Z, (u0 + Ztrunc y)%Z.
  split; [|split; [|split]].
  - unfold single_id_to_time. fold d. rewrite (in64_of_abs d) by lia. cbn [negb].
    change TMAP_TIME_SECOND with (2 ^ 30)%Z. fold EQ. rewrite Qtrunc_R, HEQ.
    rewrite (in64_of_abs (Ztrunc E)), (in64_of_abs (u0 + Ztrunc E)) by lia. reflexivity.
  - unfold fp_single_id_to_time. fold d. rewrite (in64_of_abs d) by lia. cbn [negb].
    change TMAP_TIME_SECOND with (2 ^ 30)%Z.
    rewrite b64_to_i64_trunc; [|exact Fp|].
    + rewrite Vp. rewrite (in64_of_abs (u0 + Ztrunc y)) by lia. reflexivity.
    + rewrite Vp. eapply Rle_trans; [exact T3|]. apply IZR_le. lia.
  - lia.
  - apply Rlt_Qlt. rewrite Q2R_Qabs, Q2R_minus, !Q2R_plus, Q2R_mult, Q2R_Qabs, !Q2R_inject_Z, HEQ.
    rewrite Q2R_pow2_inv. change (- Z.pos 53)%Z with (-53)%Z. fold u64.
    replace (Q2R 1) with 1 by (unfold Q2R; cbn; lra).
    rewrite plus_IZR. replace (IZR u0 + IZR (Ztrunc y) - (IZR u0 + E)) with (IZR (Ztrunc y) - E) by ring.
    exact T2.
Qed.

(* ---- time -> sample id:  sample_id[0] + (int64_t) ((double)(q - u0) * (1.0 / 2^30) * rate) ---- *)
Theorem fp_single_time_to_id_within_one : forall s0 u0 q : Z,
  (Z.abs (q - u0) <= 2 ^ 53)%Z -> (Z.abs s0 <= 2 ^ 62)%Z ->
  (Qabs ((inject_Z (q - u0) * (1 / inject_Z (2 ^ 30))) * r) <= inject_Z (2 ^ 52))%Q ->
  exists v v' : Z,
    single_time_to_id r s0 u0 q = TmOk v /\ fp_single_time_to_id rate s0 u0 q = TmOk v' /\
    (-1 <= v' - v <= 1)%Z /\
    (Qabs (inject_Z v' - (inject_Z s0 + (inject_Z (q - u0) * (1 / inject_Z (2 ^ 30))) * r)) <
       1 + Qabs ((inject_Z (q - u0) * (1 / inject_Z (2 ^ 30))) * r) * (1 # 2 ^ 53))%Q.
Proof.
  intros s0 u0 q Hd Hs0 HE.
  pose proof single_rate_pos as Hrp.
  set (d := (q - u0)%Z) in *.
  set (EQ := ((inject_Z d * (1 / inject_Z (2 ^ 30))) * r)%Q) in *.
  set (E := IZR d * bpow radix2 (-30) * Q2R r).
  assert (P30 : IZR (2 ^ 30) = bpow radix2 30) by (symmetry; apply bpow_IZR; lia).
  assert (HEQ : Q2R EQ = E).
  { unfold EQ, E. rewrite !Q2R_mult, Q2R_div, !Q2R_inject_Z.
    - replace (Q2R 1) with 1 by (unfold Q2R; cbn; lra). rewrite P30. unfold Rdiv. rewrite Rmult_1_l.
      rewrite <- bpow_opp. reflexivity.
    - intro H. unfold Qeq, inject_Z in H. cbn in H. lia. }
  pose proof (Qabs_le_R _ _ HE) as HEb. rewrite HEQ in HEb.
  destruct (b64_of_Z_exact d Hd) as [Vd Fd].
  destruct (b64_of_Z_exact 1 ltac:(lia)) as [V1 F1].
  destruct (b64_of_Z_exact (2 ^ 30) ltac:(lia)) as [V30 F30].
  (* 1.0 / 2^30 = 2^-30 exactly *)
  destruct (b64_div_RN (b64_of_Z 1) (b64_of_Z (2 ^ 30))) as [Vi Fi].
  { rewrite V30. apply not_0_IZR. discriminate. }
  { exact F1. }
  { rewrite V1, V30, P30. unfold Rdiv. rewrite Rmult_1_l, <- bpow_opp, Rabs_pos_eq by apply bpow_ge_0. apply bpow_le. lia. }
  rewrite V1, V30, P30 in Vi. unfold Rdiv in Vi. rewrite Rmult_1_l, <- bpow_opp in Vi.
  change (- (30))%Z with (-30)%Z in Vi.
  rewrite RN_id in Vi by (apply format_bpow; lia).
  (* d * 2^-30 exactly *)
  destruct (b64_mul_RN (b64_of_Z d) (b64_div (b64_of_Z 1) (b64_of_Z (2 ^ 30))) Fd Fi) as [V2 F2].
  { rewrite Vd, Vi, Rabs_mult, (Rabs_pos_eq (bpow radix2 (-30))) by apply bpow_ge_0.
    apply Rle_trans with (IZR (2 ^ 53) * bpow radix2 0).
    - apply Rmult_le_compat; [apply Rabs_pos|apply bpow_ge_0|apply IZR_abs_le; exact Hd|apply bpow_le; lia].
    - change (bpow radix2 0) with 1. rewrite Rmult_1_r, (bpow_IZR 1023) by lia. apply IZR_le. lia. }
  rewrite Vd, Vi in V2. rewrite RN_id in V2 by (apply format_IZR_bpow; [exact Hd|lia]).
  (* the product with the rate: one rounding *)
  assert (Hrel : exists eps, Rabs eps <= u64 /\ RN E = E * (1 + eps)).
  { destruct (Z.eq_dec d 0) as [Z0|Z0].
    - exists 0. unfold E. rewrite Z0, !Rmult_0_l, RN_0, Rabs_R0. split; [apply Rlt_le, u64_pos|ring].
    - destruct (RN_rel E) as [eps [H1 H2]].
      + unfold E. rewrite !Rabs_mult, (Rabs_pos_eq (bpow radix2 (-30))), (Rabs_pos_eq (Q2R r)) by (apply bpow_ge_0 || lra).
        pose proof (IZR_abs_ge1 d Z0).
        assert (bpow radix2 (-1022) <= bpow radix2 (-30) * bpow radix2 (-900)) by (rewrite <- bpow_plus; apply bpow_le; lia).
        pose proof (bpow_gt_0 radix2 (-30)). pose proof (bpow_gt_0 radix2 (-900)).
        assert (bpow radix2 (-30) * bpow radix2 (-900) <= bpow radix2 (-30) * Q2R r) by (apply Rmult_le_compat_l; lra).
        assert (0 <= bpow radix2 (-30) * Q2R r) by (apply Rmult_le_pos; lra).
        replace (Rabs (IZR d) * bpow radix2 (-30) * Q2R r) with (Rabs (IZR d) * (bpow radix2 (-30) * Q2R r)) by ring.
        nra.
      + exists eps. split; [|exact H2]. pose proof u64_pos.
        assert (u64 / (1 + u64) <= u64); [|lra].
        apply Rmult_le_reg_r with (1 + u64); [lra|]. unfold Rdiv. rewrite Rmult_assoc, Rinv_l by lra. nra. }
  destruct Hrel as [eps [Heps Hrn]].
  destruct (trunc_after_rounding E (RN E) eps Heps Hrn HEb) as [T1 [T2 T3]].
  destruct (b64_mul_RN (b64_mul (b64_of_Z d) (b64_div (b64_of_Z 1) (b64_of_Z (2 ^ 30)))) rate F2 Hfin) as [Vp Fp].
  { rewrite V2, Hrate. fold E. apply Rle_trans with (IZR (2 ^ 52)); [exact HEb|].
    rewrite (bpow_IZR 1023) by lia. apply IZR_le. lia. }
  rewrite V2, Hrate in Vp. fold E in Vp.
  assert (Hk' : (Z.abs (Ztrunc (RN E)) <= 2 ^ 53)%Z) by (apply Ztrunc_abs_le; exact T3).
  assert (Hk : (Z.abs (Ztrunc E) <= 2 ^ 52)%Z) by (apply Ztrunc_abs_le; exact HEb).
  exists (s0 + Ztrunc E)%Z, (s0 + Ztrunc (RN E))%Z.
  split; [|split; [|split]].
  - unfold single_time_to_id. fold d. rewrite (in64_of_abs d) by lia. cbn [negb].
    change TMAP_TIME_SECOND with (2 ^ 30)%Z. fold EQ. rewrite Qtrunc_R, HEQ.
    rewrite (in64_of_abs (Ztrunc E)), (in64_of_abs (s0 + Ztrunc E)) by lia. reflexivity.
  - unfold fp_single_time_to_id. fold d. rewrite (in64_of_abs d) by lia. cbn [negb].
    change TMAP_TIME_SECOND with (2 ^ 30)%Z.
    rewrite b64_to_i64_trunc; [|exact Fp|].
    + rewrite Vp. rewrite (in64_of_abs (s0 + Ztrunc (RN E))) by lia. reflexivity.
    + rewrite Vp. eapply Rle_trans; [exact T3|]. apply IZR_le. lia.
  - lia.
  - apply Rlt_Qlt. rewrite Q2R_Qabs, Q2R_minus, !Q2R_plus, Q2R_mult, Q2R_Qabs, !Q2R_inject_Z, HEQ.
    rewrite Q2R_pow2_inv. change (- Z.pos 53)%Z with (-53)%Z. fold u64.
    replace (Q2R 1) with 1 by (unfold Q2R; cbn; lra).
    rewrite plus_IZR. replace (IZR s0 + IZR (Ztrunc (RN E)) - (IZR s0 + E)) with (IZR (Ztrunc (RN E)) - E) by ring.
    exact T2.
Qed.
End Single.

(* the two conversion functions on a map holding a single entry *)
Theorem fp_tmap_single_within_one : forall (rate : b64) (t : tmap) (s0 u0 q : Z),
  tm_entries t = [(s0, u0)] ->
  is_finite rate = true -> B2R rate = Q2R (tm_rate t) ->
  bpow radix2 (-900) <= Q2R (tm_rate t) <= bpow radix2 1000 ->
  ((Z.abs (q - s0) <= 2 ^ 53)%Z -> (Z.abs u0 <= 2 ^ 62)%Z ->
   (Qabs ((inject_Z (q - s0) / tm_rate t) * inject_Z (2 ^ 30)) <= inject_Z (2 ^ 52))%Q ->
   exists v v' : Z,
     tmap_sample_id_to_timestamp t q = QVal v /\ fp_tmap_sample_id_to_timestamp rate t q = QVal v' /\
     (-1 <= v' - v <= 1)%Z /\
     (Qabs (inject_Z v' - (inject_Z u0 + (inject_Z (q - s0) / tm_rate t) * inject_Z (2 ^ 30))) <
        1 + Qabs ((inject_Z (q - s0) / tm_rate t) * inject_Z (2 ^ 30)) * (1 # 2 ^ 53))%Q) /\
  ((Z.abs (q - u0) <= 2 ^ 53)%Z -> (Z.abs s0 <= 2 ^ 62)%Z ->
   (Qabs ((inject_Z (q - u0) * (1 / inject_Z (2 ^ 30))) * tm_rate t) <= inject_Z (2 ^ 52))%Q ->
   exists v v' : Z,
     tmap_timestamp_to_sample_id t q = QVal v /\ fp_tmap_timestamp_to_sample_id rate t q = QVal v' /\
     (-1 <= v' - v <= 1)%Z /\
     (Qabs (inject_Z v' - (inject_Z s0 + (inject_Z (q - u0) * (1 / inject_Z (2 ^ 30))) * tm_rate t)) <
        1 + Qabs ((inject_Z (q - u0) * (1 / inject_Z (2 ^ 30))) * tm_rate t) * (1 # 2 ^ 53))%Q).
Proof.
  intros rate t s0 u0 q Hent Hfin Hrate [Hlo Hhi].
  assert (Hpos : 0 < Q2R (tm_rate t)) by (pose proof (bpow_gt_0 radix2 (-900)); lra).
  assert (Hrp : rate_positive (tm_rate t) = true).
  { apply rate_positive_iff. apply Rlt_Qlt. rewrite RMicromega.Q2R_0. exact Hpos. }
  assert (Hle0 : b64_le0 rate = false) by (apply b64_le0_pos; [exact Hfin|rewrite Hrate; exact Hpos]).
  unfold tmap_sample_id_to_timestamp, fp_tmap_sample_id_to_timestamp, tmap_timestamp_to_sample_id, fp_tmap_timestamp_to_sample_id.
  rewrite Hent, Hrp, Hle0.
  split; intros Hd Hb HE.
  - destruct (fp_single_id_to_time_within_one rate (tm_rate t) Hrate Hlo Hhi s0 u0 q Hd Hb HE) as [v [v' [A [B [C D]]]]].
    exists v, v'. rewrite A, B. cbn [qres_of]. auto.
  - destruct (fp_single_time_to_id_within_one rate (tm_rate t) Hfin Hrate Hlo s0 u0 q Hd Hb HE) as [v [v' [A [B [C D]]]]].
    exists v, v'. rewrite A, B. cbn [qres_of]. auto.
Qed.

(* a double given as num * 2^-sh (how the correspondence scripts name the sample rate) *)
Definition b64_of_scaled (num : Z) (sh : N) : b64 :=
  binary_normalize 53 1024 b64_prec_gt_0 b64_prec_lt_emax mode_NE num (- Z.of_N sh) false.

Lemma b64_of_scaled_exact : forall (num : Z) (sh : N), (Z.abs num <= 2 ^ 53)%Z -> (Z.of_N sh <= 1074)%Z ->
  is_finite (b64_of_scaled num sh) = true /\ B2R (b64_of_scaled num sh) = Q2R (tmap_rate num sh).
Proof.
  intros num sh Hn Hs. unfold b64_of_scaled.
  pose proof (binary_normalize_correct 53 1024 b64_prec_gt_0 b64_prec_lt_emax mode_NE num (- Z.of_N sh) false) as H.
  cbv zeta in H. rewrite b64_fexp in H. cbn [round_mode] in H.
  set (x := F2R (Float radix2 num (- Z.of_N sh))) in *. fold (RN x) in H.
  assert (Hx : x = IZR num * bpow radix2 (- Z.of_N sh)) by reflexivity.
  assert (Fx : generic_format radix2 (FLT_exp (-1074) 53) x) by (rewrite Hx; apply format_IZR_bpow; [exact Hn|lia]).
  rewrite (RN_id x Fx) in H.
  assert (Hb : Rabs x <= IZR (2 ^ 53)).
  { rewrite Hx, Rabs_mult, (Rabs_pos_eq (bpow _ _)) by apply bpow_ge_0.
    pose proof (IZR_abs_le num _ Hn). assert (bpow radix2 (- Z.of_N sh) <= bpow radix2 0) by (apply bpow_le; lia).
    change (bpow radix2 0) with 1 in H1. pose proof (bpow_ge_0 radix2 (- Z.of_N sh)). pose proof (Rabs_pos (IZR num)). nra. }
  rewrite Rlt_bool_true in H.
  - destruct H as [H1 [H2 _]]. split; [exact H2|]. rewrite H1, Hx.
    unfold tmap_rate. rewrite Q2R_make. rewrite bpow_opp. unfold Rdiv. f_equal. f_equal.
    rewrite bpow_IZR by lia. f_equal.
    destruct sh as [|p]; [reflexivity|].
    rewrite <- shift_pos_equiv. rewrite Zpower.shift_pos_correct. cbn [Z.of_N].
    rewrite Z.mul_1_r. reflexivity.
  - eapply Rle_lt_trans; [exact Hb|]. rewrite (bpow_IZR 1024) by lia. apply IZR_lt. reflexivity.
Qed.

(* the single-entry guards on realistic numbers: 1 MHz, one entry, a query one day later *)
Definition fp_ex_single : tmap := tmap_add_all (tmap_alloc (1000000 # 1)) [(0, 2 ^ 58)%Z].

Lemma fp_ex_single_ok :
  tm_entries fp_ex_single = [(0, 2 ^ 58)%Z] /\
  is_finite fp_ex_rate = true /\ B2R fp_ex_rate = Q2R (tm_rate fp_ex_single) /\
  bpow radix2 (-900) <= Q2R (tm_rate fp_ex_single) <= bpow radix2 1000 /\
  (Z.abs (86400000000 - 0) <= 2 ^ 53)%Z /\ (Z.abs (2 ^ 58) <= 2 ^ 62)%Z /\
  (Qabs ((inject_Z (86400000000 - 0) / tm_rate fp_ex_single) * inject_Z (2 ^ 30)) <= inject_Z (2 ^ 52))%Q /\
  fp_tmap_sample_id_to_timestamp fp_ex_rate fp_ex_single 86400000000 = QVal (2 ^ 58 + 86400 * 2 ^ 30)%Z /\
  fp_tmap_sample_id_to_timestamp fp_ex_rate fp_ex_single 12345678901 = tmap_sample_id_to_timestamp fp_ex_single 12345678901 /\
  fp_tmap_timestamp_to_sample_id fp_ex_rate fp_ex_single (2 ^ 58 + 86400 * 2 ^ 30)%Z = QVal 86400000000%Z.
Proof.
  split; [reflexivity|].
  destruct (b64_of_Z_exact 1000000 ltac:(lia)) as [V F].
  split; [exact F|].
  assert (E : Q2R (tm_rate fp_ex_single) = 1000000).
  { change (tm_rate fp_ex_single) with (1000000 # 1)%Q. unfold Q2R. cbn [Qnum Qden]. lra. }
  split; [rewrite E; exact V|]. rewrite E.
  split.
  { split.
    - apply Rle_trans with (bpow radix2 0); [apply bpow_le; lia|cbn; lra].
    - apply Rle_trans with (bpow radix2 20); [rewrite (bpow_IZR 20) by lia; apply IZR_le; lia|apply bpow_le; lia]. }
  split; [lia|]. split; [lia|].
  split; [vm_compute; discriminate|].
  split; [vm_compute; reflexivity|]. split; vm_compute; reflexivity.
Qed.

(* ====================================================================================== *)
(* 13. round trip in binary64: time -> id of (id -> time) is within one sample             *)
(* ====================================================================================== *)
Local Open Scope Z_scope.

Lemma sorted_lt_le_nth : forall l a b, sorted_lt l -> (a <= b)%nat -> (b < length l)%nat -> nth a l 0 <= nth b l 0.
Proof.
  intros l a b Hs Hab Hb. destruct (Nat.eq_dec a b) as [->|Hne]; [lia|].
  pose proof (Hs a b ltac:(lia)). lia.
Qed.

Theorem fp_interp_inverse_inside : forall xs ys q t' q'',
  sorted_lt xs -> sorted_lt ys -> length ys = length xs -> (2 <= length xs)%nat ->
  fp_map_ok xs ys -> fp_map_ok ys xs ->
  (forall j, (j + 1 < length xs)%nat -> nth (S j) xs 0 - nth j xs 0 <= nth (S j) ys 0 - nth j ys 0) ->
  nth 0 xs 0 <= q <= nth (length xs - 1) xs 0 ->
  fp_interp xs ys q = TmOk t' -> fp_interp ys xs t' = TmOk q'' ->
  -1 <= q'' - q <= 1.
Proof.
  intros xs ys q t' q'' Hsx Hsy Hlen Hl Hm Hm' Hslope Hq H1 H2.
  assert (Hl' : (2 <= length ys)%nat) by lia.
  destruct (search_fixed_seg_ok xs q Hsx Hl) as [c [_ Hc]].
  destruct (fp_interp_inside_value xs ys q c Hsx Hl Hm Hq Hc) as [_ [B [_ K]]].
  destruct (fp_guard_inside xs ys q c Hsx Hm Hq Hc) as [G [Hdk [Hds Hdt]]].
  destruct G as [G1 [G2 [G3 [G4 G5]]]].
  pose proof Hc as [C1 _].
  rewrite B in H1. inversion H1 as [Ht']. clear H1.
  set (dk := q - nth c xs 0) in *. set (ds := nth (S c) xs 0 - nth c xs 0) in *.
  set (dt := nth (S c) ys 0 - nth c ys 0) in *.
  set (kf := ZnearestA (RN (IZR dk * RN (IZR dt / IZR ds)))) in *.
  pose proof (ik_dist_lt1 dk ds dt G1 G2 G3 ltac:(lia) G4) as D1. fold kf in D1.
  pose proof (Hslope c ltac:(lia)) as Hsl. fold ds dt in Hsl.
  assert (Hdtpos : 0 < dt) by lia.
  assert (Rds : (0 < IZR ds)%R) by (apply IZR_lt; lia).
  assert (Rdt : (0 < IZR dt)%R) by (apply IZR_lt; lia).
  assert (Rsl : (IZR ds <= IZR dt)%R) by (apply IZR_le; lia).
  (* range of t' among the times *)
  assert (Hrange : nth 0 ys 0 <= t' <= nth (length ys - 1) ys 0).
  { pose proof (sorted_lt_le_nth ys 0 c Hsy ltac:(lia) ltac:(lia)).
    pose proof (sorted_lt_le_nth ys (S c) (length ys - 1) Hsy ltac:(lia) ltac:(lia)).
    subst t'. unfold dt in K. lia. }
  destruct (Z.eq_dec kf dt) as [Ekf|Nkf].
  - (* t' is the right anchor time: the result is the right anchor id, and q is that id *)
    destruct (fp_interp_inside ys xs t' Hsy Hl' Hm' Hrange) as [c' [v [v' [_ [_ [B' [_ [_ An]]]]]]]].
    rewrite B' in H2. inversion H2; subst v'.
    destruct (An (S c) ltac:(lia) ltac:(subst t'; rewrite Ekf; unfold dt; lia)) as [E1 _].
    rewrite E1.
    assert (dk = ds); [|unfold dk, ds in *; lia].
    rewrite Ekf in D1. apply Rabs_def2 in D1.
    (* dt - 1 < dk dt / ds  ->  (ds - dk) dt < ds <= dt  ->  ds - dk < 1 *)
    assert (H0 : (IZR (ds - dk) * IZR dt < IZR ds)%R).
    { rewrite minus_IZR.
      assert (E : (IZR dk * (IZR dt / IZR ds) = IZR dk * IZR dt / IZR ds)%R) by (field; lra).
      rewrite E in D1.
      assert ((IZR dt - 1) * IZR ds < IZR dk * IZR dt)%R.
      { apply Rmult_lt_reg_r with (/ IZR ds)%R; [apply Rinv_0_lt_compat; lra|].
        rewrite Rmult_assoc, Rinv_r by lra. unfold Rdiv in D1. lra. }
      nra. }
    assert (H3 : (IZR (ds - dk) < 1)%R).
    { assert (0 <= IZR (ds - dk))%R by (apply IZR_le; lia).
      destruct (Rlt_or_le (IZR (ds - dk)) 1) as [L|L]; [exact L|]. exfalso. nra. }
    apply lt_IZR in H3. lia.
  - (* y[c] <= t' < y[c+1]: the same segment is selected on the way back *)
    assert (Hc' : seg_ok ys t' c).
    { apply seg_ok_inside; [exact Hsy|lia|]. subst t'. unfold dt in *. lia. }
    destruct (fp_interp_inside_value ys xs t' c Hsy Hl' Hm' Hrange Hc') as [_ [B' [_ _]]].
    destruct (fp_guard_inside ys xs t' c Hsy Hm' Hrange Hc') as [[G1' [G2' [G3' [G4' G5']]]] _].
    rewrite B' in H2. inversion H2 as [Hq'']. clear H2.
    assert (Edk' : t' - nth c ys 0 = kf) by (subst t'; lia).
    rewrite Edk' in *. fold dt ds in G2', G3', G4', Hq'' |- *.
    set (kf2 := ZnearestA (RN (IZR kf * RN (IZR ds / IZR dt)))) in *.
    pose proof (ik_dist_lt1 kf dt ds G1' G2' G3' ltac:(lia) G4') as D2. fold kf2 in D2.
    assert (q'' - q = kf2 - dk) by (unfold dk; lia).
    assert (Hfin : (Rabs (IZR kf2 - IZR dk) < 2)%R).
    { replace (IZR kf2 - IZR dk)%R with ((IZR kf2 - IZR kf * (IZR ds / IZR dt)) + (IZR kf - IZR dk * (IZR dt / IZR ds)) * (IZR ds / IZR dt))%R by (field; lra).
      eapply Rle_lt_trans; [apply Rabs_triang|]. rewrite Rabs_mult.
      assert (0 < IZR ds / IZR dt <= 1)%R.
      { split; [apply Rmult_lt_0_compat; [lra|apply Rinv_0_lt_compat; lra]|].
        apply Rmult_le_reg_r with (IZR dt); [lra|]. unfold Rdiv. rewrite Rmult_assoc, Rinv_l by lra. lra. }
      rewrite (Rabs_pos_eq (IZR ds / IZR dt)) by lra.
      pose proof (Rabs_pos (IZR kf - IZR dk * (IZR dt / IZR ds))). nra. }
    apply Rabs_def2 in Hfin.
    assert (F : (IZR (-2) < IZR (kf2 - dk) < IZR 2)%R) by (rewrite minus_IZR; lra).
    destruct F as [F1 F2]. apply lt_IZR in F1. apply lt_IZR in F2. lia.
Qed.

Theorem fp_tmap_inverse_inside : forall (rate : b64) (t : tmap) (q tm q' : Z),
  sorted_lt (ids t) -> sorted_lt (times t) -> (2 <= length (tm_entries t))%nat ->
  fp_map_ok (ids t) (times t) -> fp_map_ok (times t) (ids t) ->
  (forall i, (i + 1 < length (tm_entries t))%nat ->
     nth (S i) (ids t) 0 - nth i (ids t) 0 <= nth (S i) (times t) 0 - nth i (times t) 0) ->
  nth 0 (ids t) 0 <= q <= nth (length (tm_entries t) - 1) (ids t) 0 ->
  fp_tmap_sample_id_to_timestamp rate t q = QVal tm ->
  fp_tmap_timestamp_to_sample_id rate t tm = QVal q' ->
  -1 <= q' - q <= 1.
Proof.
  intros rate t q tm q' Hsx Hsy Hl Hm Hm' Hslope Hq H1 H2.
  destruct (tmap_multi rate t q Hl) as [_ [E1 _]]. destruct (tmap_multi rate t tm Hl) as [_ [_ [_ E2]]].
  rewrite E1 in H1. rewrite E2 in H2. apply qres_of_val in H1. apply qres_of_val in H2.
  apply (fp_interp_inverse_inside (ids t) (times t) q tm q'); try assumption.
  - rewrite ids_length, times_length. reflexivity.
  - rewrite ids_length. exact Hl.
  - intros j Hj. apply Hslope. rewrite <- ids_length. exact Hj.
  - rewrite ids_length. exact Hq.
Qed.

Lemma fp_ex_map_slope : forall i, (i + 1 < length (tm_entries fp_ex_map))%nat ->
  nth (S i) (ids fp_ex_map) 0 - nth i (ids fp_ex_map) 0 <= nth (S i) (times fp_ex_map) 0 - nth i (times fp_ex_map) 0.
Proof.
  intros i Hi. change (length (tm_entries fp_ex_map)) with 3%nat in Hi.
  destruct i as [|[|i]]; [apply Z.leb_le; vm_compute; reflexivity|apply Z.leb_le; vm_compute; reflexivity|lia].
Qed.

(* ====================================================================================== *)
(* 14. without the exactness guards: any int64 differences, five roundings                  *)
(* ====================================================================================== *)
Local Open Scope R_scope.

Lemma uprime_le_u : u64 / (1 + u64) <= u64.
Proof.
  pose proof u64_pos as Hu. apply Rmult_le_reg_r with (1 + u64); [lra|].
  unfold Rdiv. rewrite Rmult_assoc, Rinv_l by lra. nra.
Qed.

(* (double) n for any 64-bit integer: relative error at most u (never subnormal, never overflows) *)
Lemma RN_IZR_rel : forall n : Z, exists eps, Rabs eps <= u64 /\ RN (IZR n) = IZR n * (1 + eps).
Proof.
  intros n. pose proof uprime_le_u as Hv.
  destruct (Z.eq_dec n 0) as [->|Hn].
  - exists 0. rewrite RN_0, Rabs_R0. split; [apply Rlt_le, u64_pos|ring].
  - destruct (RN_rel (IZR n)) as [eps [H1 H2]].
    + apply Rle_trans with (bpow radix2 0); [apply bpow_le; lia|]. cbn [bpow]. apply IZR_abs_ge1. exact Hn.
    + exists eps. split; [lra|exact H2].
Qed.

Lemma five_roundings : forall e1 e2 e3 e4 e5 : R,
  Rabs e1 <= u64 -> Rabs e2 <= u64 -> Rabs e3 <= u64 -> Rabs e4 <= u64 -> Rabs e5 <= u64 ->
  Rabs ((1 + e1) * (1 + e2) * (1 + e3) * (1 + e4) / (1 + e5) - 1) <= 6 * u64.
Proof.
  intros e1 e2 e3 e4 e5 H1 H2 H3 H4 H5.
  pose proof u64_pos as Hu. pose proof u64_lt as Hu1.
  apply Rabs_le_inv in H1. apply Rabs_le_inv in H2. apply Rabs_le_inv in H3. apply Rabs_le_inv in H4. apply Rabs_le_inv in H5.
  set (u := u64) in *.
  assert (A12u : (1 + e1) * (1 + e2) <= (1 + u) * (1 + u)) by (apply Rmult_le_compat; lra).
  assert (A12l : (1 - u) * (1 - u) <= (1 + e1) * (1 + e2)) by (apply Rmult_le_compat; lra).
  assert (A12p : 0 <= (1 + e1) * (1 + e2)) by (apply Rmult_le_pos; lra).
  assert (A123u : (1 + e1) * (1 + e2) * (1 + e3) <= (1 + u) * (1 + u) * (1 + u)) by (apply Rmult_le_compat; lra).
  assert (Q2 : 0 <= (1 - u) * (1 - u)) by (apply Rmult_le_pos; lra).
  assert (A123l : (1 - u) * (1 - u) * (1 - u) <= (1 + e1) * (1 + e2) * (1 + e3)) by (apply Rmult_le_compat; lra).
  assert (A123p : 0 <= (1 + e1) * (1 + e2) * (1 + e3)) by (apply Rmult_le_pos; lra).
  assert (Pu : (1 + e1) * (1 + e2) * (1 + e3) * (1 + e4) <= (1 + u) * (1 + u) * (1 + u) * (1 + u)) by (apply Rmult_le_compat; lra).
  assert (Q3 : 0 <= (1 - u) * (1 - u) * (1 - u)) by (apply Rmult_le_pos; lra).
  assert (Pl : (1 - u) * (1 - u) * (1 - u) * (1 - u) <= (1 + e1) * (1 + e2) * (1 + e3) * (1 + e4)) by (apply Rmult_le_compat; lra).
  set (P4 := (1 + e1) * (1 + e2) * (1 + e3) * (1 + e4)) in *.
  assert (U : (1 + u) * (1 + u) * (1 + u) * (1 + u) <= (1 + 6 * u) * (1 - u)) by nra.
  assert (L : (1 - 6 * u) * (1 + u) <= (1 - u) * (1 - u) * (1 - u) * (1 - u)) by nra.
  assert (D : 0 < 1 + e5) by lra.
  assert (Hup : P4 <= (1 + 6 * u) * (1 + e5)) by nra.
  assert (Hlo : (1 - 6 * u) * (1 + e5) <= P4) by nra.
  replace (P4 / (1 + e5) - 1) with ((P4 - (1 + e5)) / (1 + e5)) by (field; lra).
  apply Rabs_le. split.
  - apply Rmult_le_reg_r with (1 + e5); [exact D|]. unfold Rdiv. rewrite Rmult_assoc, Rinv_l by lra. lra.
  - apply Rmult_le_reg_r with (1 + e5); [exact D|]. unfold Rdiv. rewrite Rmult_assoc, Rinv_l by lra. lra.
Qed.

Section GeneralK.
Variables dk ds dt : Z.
Hypothesis Hk : (Z.abs dk <= 2 ^ 63)%Z.
Hypothesis Hs : (Z.abs ds <= 2 ^ 63)%Z.
Hypothesis Ht : (Z.abs dt <= 2 ^ 63)%Z.
Hypothesis Hs0 : ds <> 0%Z.
Hypothesis Hmag : (Z.abs (dk * dt) <= 2 ^ 49 * Z.abs ds)%Z.

Let e : R := IZR dk * (IZR dt / IZR ds).
(* the value before round(): the three conversions are rounded too *)
Let c : R := RN (RN (IZR dk) * RN (RN (IZR dt) / RN (IZR ds))).

Lemma RN_IZR_bounds : forall n : Z, (Z.abs n <= 2 ^ 63)%Z ->
  Rabs (RN (IZR n)) <= bpow radix2 63 /\ (n <> 0%Z -> 1 <= Rabs (RN (IZR n))).
Proof.
  intros n Hn. split.
  - apply RN_abs_le_bpow; [lia|]. rewrite (bpow_IZR 63) by lia. apply IZR_abs_le. exact Hn.
  - intros H0. change 1 with (bpow radix2 0). apply RN_abs_ge_bpow; [lia|]. cbn [bpow]. apply IZR_abs_ge1. exact H0.
Qed.

Lemma gk_err : Rabs (c - e) <= Rabs e * (6 * u64).
Proof.
  pose proof u64_pos as Hu. pose proof u64_lt as Hu1.
  destruct (Z.eq_dec dt 0) as [Zt|Zt].
  { unfold c, e. rewrite Zt. rewrite RN_0. unfold Rdiv. rewrite !Rmult_0_l, RN_0, Rmult_0_r, RN_0, Rmult_0_r, Rminus_0_r, Rabs_R0. lra. }
  destruct (Z.eq_dec dk 0) as [Zk|Zk].
  { unfold c, e. rewrite Zk. rewrite RN_0, !Rmult_0_l, RN_0, Rminus_0_r, Rabs_R0. lra. }
  destruct (RN_IZR_rel dk) as [ea [Ea Ra]]. destruct (RN_IZR_rel dt) as [et [Et Rt]]. destruct (RN_IZR_rel ds) as [es [Es Rs]].
  destruct (RN_IZR_bounds dk Hk) as [Bk Lk]. destruct (RN_IZR_bounds dt Ht) as [Bt Lt]. destruct (RN_IZR_bounds ds Hs) as [Bs Ls].
  specialize (Lk Zk). specialize (Lt Zt). specialize (Ls Hs0).
  assert (Hz : IZR ds <> 0) by (apply not_0_IZR; exact Hs0).
  assert (Hsz : RN (IZR ds) <> 0) by (intro H0; rewrite H0, Rabs_R0 in Ls; lra).
  (* the quotient is normal *)
  assert (P63 : 0 < bpow radix2 63) by apply bpow_gt_0.
  assert (Hq : bpow radix2 (-63) <= Rabs (RN (IZR dt) / RN (IZR ds))).
  { unfold Rdiv. rewrite Rabs_mult, Rabs_inv.
    assert (/ bpow radix2 63 <= / Rabs (RN (IZR ds))) by (apply Rinv_le_contravar; lra).
    change (-63)%Z with (Z.opp 63). rewrite bpow_opp.
    assert (0 < / bpow radix2 63) by (apply Rinv_0_lt_compat; exact P63). nra. }
  destruct (RN_rel (RN (IZR dt) / RN (IZR ds))) as [e1 [E1 R1]].
  { eapply Rle_trans; [|exact Hq]. apply bpow_le. lia. }
  pose proof uprime_le_u as Hv.
  assert (Hq2 : bpow radix2 (-64) <= Rabs (RN (RN (IZR dt) / RN (IZR ds)))).
  { apply RN_abs_ge_bpow; [lia|]. eapply Rle_trans; [|exact Hq]. apply bpow_le. lia. }
  assert (Hp : bpow radix2 (-1022) <= Rabs (RN (IZR dk) * RN (RN (IZR dt) / RN (IZR ds)))).
  { rewrite Rabs_mult. apply Rle_trans with (1 * bpow radix2 (-64)); [rewrite Rmult_1_l; apply bpow_le; lia|].
    apply Rmult_le_compat; [lra|apply bpow_ge_0|exact Lk|exact Hq2]. }
  destruct (RN_rel _ Hp) as [e2 [E2 R2]].
  unfold c. rewrite R2, R1, Ra, Rt, Rs.
  assert (Des : 0 < 1 + es) by (apply Rabs_le_inv in Es; lra).
  replace (IZR dk * (1 + ea) * (IZR dt * (1 + et) / (IZR ds * (1 + es)) * (1 + e1)) * (1 + e2) - e)
    with (e * ((1 + ea) * (1 + et) * (1 + e1) * (1 + e2) / (1 + es) - 1)) by (unfold e; field; split; lra).
  rewrite Rabs_mult. apply Rmult_le_compat_l; [apply Rabs_pos|].
  apply five_roundings; lra.
Qed.

Lemma gk_e_bound : Rabs e <= IZR (2 ^ 49).
Proof. apply exact_bound_R; assumption. Qed.

Lemma gk_err_38 : Rabs (c - e) <= 3 / 8.
Proof.
  pose proof gk_err as H. pose proof gk_e_bound as Hb. pose proof u64_pos as Hu.
  assert (E : IZR (2 ^ 49) * (6 * u64) = 3 / 8).
  { rewrite u64_val. replace (IZR (2 ^ 53)) with (16 * IZR (2 ^ 49)) by (rewrite <- mult_IZR; reflexivity).
    field. apply not_0_IZR. discriminate. }
  assert (Rabs e * (6 * u64) <= IZR (2 ^ 49) * (6 * u64)) by (apply Rmult_le_compat_r; lra).
  lra.
Qed.

Lemma gk_value : fp_interp_k dk ds dt = TmOk (ZnearestA c).
Proof.
  unfold fp_interp_k.
  destruct (b64_of_Z_RN dk ltac:(lia)) as [Vk Fk]. destruct (b64_of_Z_RN ds ltac:(lia)) as [Vs Fs].
  destruct (b64_of_Z_RN dt ltac:(lia)) as [Vt Ft].
  destruct (RN_IZR_bounds dk Hk) as [Bk _]. destruct (RN_IZR_bounds dt Ht) as [Bt _]. destruct (RN_IZR_bounds ds Hs) as [Bs Ls].
  specialize (Ls Hs0).
  assert (Hsz : RN (IZR ds) <> 0) by (intro H0; rewrite H0, Rabs_R0 in Ls; lra).
  assert (Bq : Rabs (RN (IZR dt) / RN (IZR ds)) <= bpow radix2 63).
  { unfold Rdiv. rewrite Rabs_mult, Rabs_inv.
    assert (0 < / Rabs (RN (IZR ds)) <= 1) by (split; [apply Rinv_0_lt_compat; lra|rewrite <- Rinv_1; apply Rinv_le_contravar; lra]).
    pose proof (Rabs_pos (RN (IZR dt))). nra. }
  destruct (b64_div_RN (b64_of_Z dt) (b64_of_Z ds)) as [Vq Fq].
  { rewrite Vs. exact Hsz. } { exact Ft. }
  { rewrite Vt, Vs. eapply Rle_trans; [exact Bq|]. apply bpow_le. lia. }
  rewrite Vt, Vs in Vq.
  assert (Bq2 : Rabs (RN (RN (IZR dt) / RN (IZR ds))) <= bpow radix2 63) by (apply RN_abs_le_bpow; [lia|exact Bq]).
  destruct (b64_mul_RN (b64_of_Z dk) (b64_div (b64_of_Z dt) (b64_of_Z ds)) Fk Fq) as [Vp Fp].
  { rewrite Vk, Vq, Rabs_mult. apply Rle_trans with (bpow radix2 63 * bpow radix2 63).
    - apply Rmult_le_compat; try apply Rabs_pos; assumption.
    - rewrite <- bpow_plus. apply bpow_le. lia. }
  rewrite Vk, Vq in Vp. fold c in Vp.
  destruct (b64_round_to_Z _ Fp) as [Fr Vr]. rewrite Vp in Vr.
  unfold b64_to_i64. rewrite Fr, Vr.
  replace (in64 (ZnearestA c)) with true; [reflexivity|].
  symmetry. apply in64_true.
  pose proof gk_err_38 as He. pose proof gk_e_bound as Hb.
  pose proof (Znearest_half (Zle_bool 0) c) as Hn.
  apply Rabs_le_inv in He. apply Rabs_le_inv in Hb. apply Rabs_le_inv in Hn.
  assert (H1 : IZR (- 2 ^ 49 - 1) < IZR (ZnearestA c) < IZR (2 ^ 49 + 1)).
  { rewrite minus_IZR, plus_IZR, opp_IZR. lra. }
  destruct H1 as [H1 H2]. apply lt_IZR in H1. apply lt_IZR in H2. lia.
Qed.

Lemma gk_within_one : (-1 <= ZnearestA c - interp_k dk ds dt <= 1)%Z.
Proof.
  rewrite interp_k_R by exact Hs0. fold e. apply ZnearestA_close.
  pose proof gk_err_38. lra.
Qed.

Lemma gk_dist_lt1 : Rabs (IZR (ZnearestA c) - e) < 1.
Proof.
  pose proof gk_err_38 as H. pose proof (Znearest_half (Zle_bool 0) c) as Hn.
  replace (IZR (ZnearestA c) - e) with (- (c - IZR (ZnearestA c)) + (c - e)) by ring.
  eapply Rle_lt_trans; [apply Rabs_triang|]. rewrite Rabs_Ropp. lra.
Qed.

Lemma gk_exact_int : forall n : Z, (dk * dt = n * ds)%Z -> ZnearestA c = n /\ interp_k dk ds dt = n.
Proof.
  intros n Hn.
  assert (Hz : IZR ds <> 0) by (apply not_0_IZR; exact Hs0).
  assert (He : e = IZR n).
  { unfold e. replace (IZR dk * (IZR dt / IZR ds)) with (IZR (dk * dt) / IZR ds) by (rewrite mult_IZR; field; exact Hz).
    rewrite Hn, mult_IZR. field. exact Hz. }
  split.
  - apply ZnearestA_int. rewrite <- He. pose proof gk_err_38. lra.
  - rewrite interp_k_R by exact Hs0. fold e. rewrite He. apply ZnearestA_int.
    rewrite Rminus_diag_eq by reflexivity. rewrite Rabs_R0. lra.
Qed.
End GeneralK.

(* any three int64 differences (their conversion to double may round): only the magnitude of the
   exact offset is guarded, at 2^49 *)
Theorem fp_interp_k_general : forall dk ds dt : Z,
  (Z.abs dk <= 2 ^ 63)%Z -> (Z.abs ds <= 2 ^ 63)%Z -> (Z.abs dt <= 2 ^ 63)%Z -> ds <> 0%Z ->
  (Z.abs (dk * dt) <= 2 ^ 49 * Z.abs ds)%Z ->
  exists kf : Z,
    fp_interp_k dk ds dt = TmOk kf /\
    (-1 <= kf - interp_k dk ds dt <= 1)%Z /\
    (Qabs (inject_Z kf - inject_Z dk * (inject_Z dt / inject_Z ds)) < 1)%Q /\
    (forall n : Z, (dk * dt = n * ds)%Z -> kf = n /\ interp_k dk ds dt = n).
Proof.
  intros dk ds dt Hk Hs Ht Hs0 Hm.
  eexists. split; [exact (gk_value dk ds dt Hk Hs Ht Hs0 Hm)|].
  split; [exact (gk_within_one dk ds dt Hk Hs Ht Hs0 Hm)|].
  split.
  - fold (exactQ dk ds dt). apply Rlt_Qlt. rewrite Q2R_Qabs, Q2R_minus, Q2R_inject_Z, Q2R_exactQ by exact Hs0.
    replace (Q2R 1) with 1 by (unfold Q2R; cbn; lra).
    exact (gk_dist_lt1 dk ds dt Hk Hs Ht Hs0 Hm).
  - intros n Hn. exact (gk_exact_int dk ds dt Hk Hs Ht Hs0 Hm n Hn).
Qed.

Local Open Scope Z_scope.

(* the guard without exactness: the three differences fit int64 (else the C itself is undefined),
   the exact offset is at most 2^49 in magnitude, the anchor leaves room *)
Definition fp_guard_general (xs ys : list Z) (c : nat) (q : Z) : Prop :=
  in64 (q - nth c xs 0) = true /\
  in64 (nth (S c) xs 0 - nth c xs 0) = true /\
  in64 (nth (S c) ys 0 - nth c ys 0) = true /\
  Z.abs ((q - nth c xs 0) * (nth (S c) ys 0 - nth c ys 0)) <= 2 ^ 49 * Z.abs (nth (S c) xs 0 - nth c xs 0) /\
  Z.abs (nth c ys 0) <= 2 ^ 62.

Lemma in64_abs : forall v, in64 v = true -> Z.abs v <= 2 ^ 63.
Proof. intros v H. apply in64_true in H. lia. Qed.

Theorem fp_interp_at_general : forall xs ys c q, fp_guard_general xs ys c q ->
  exists v v' : Z,
    interp_at xs ys c q = TmOk v /\ fp_interp_at xs ys c q = TmOk v' /\
    -1 <= v' - v <= 1 /\
    (forall n : Z, (q - nth c xs 0) * (nth (S c) ys 0 - nth c ys 0) = n * (nth (S c) xs 0 - nth c xs 0) ->
       nth (S c) xs 0 - nth c xs 0 <> 0 -> v' = nth c ys 0 + n /\ v = nth c ys 0 + n).
Proof.
  intros xs ys c q [G1 [G2 [G3 [G4 G5]]]].
  set (dk := q - nth c xs 0) in *. set (ds := nth (S c) xs 0 - nth c xs 0) in *. set (dt := nth (S c) ys 0 - nth c ys 0) in *.
  pose proof (in64_abs _ G1) as A1. pose proof (in64_abs _ G2) as A2. pose proof (in64_abs _ G3) as A3.
  destruct (Z.eq_dec ds 0) as [Hz|Hnz].
  - exists (nth c ys 0), (nth c ys 0).
    unfold interp_at, fp_interp_at. cbv zeta. fold dk ds dt. rewrite G1, G2, G3. cbn [andb negb].
    rewrite b64_eq0_of_Z by lia. rewrite Hz. cbn [Z.eqb].
    split; [reflexivity|]. split; [reflexivity|]. split; [lia|]. intros n _ H. contradiction.
  - pose proof (gk_within_one dk ds dt A1 A2 A3 Hnz G4) as W.
    assert (Kb : Z.abs (interp_k dk ds dt) <= 2 ^ 51).
    { apply interp_k_bound; [exact Hnz|]. lia. }
    eexists. eexists.
    split; [|split; [|split]].
    + unfold interp_at. cbv zeta. fold dk ds dt. rewrite G1, G2, G3. cbn [andb negb].
      replace (ds =? 0) with false by (symmetry; apply Z.eqb_neq; exact Hnz).
      rewrite (in64_of_abs (interp_k dk ds dt)), (in64_of_abs (nth c ys 0 + interp_k dk ds dt)) by lia. reflexivity.
    + unfold fp_interp_at. cbv zeta. fold dk ds dt. rewrite G1, G2, G3. cbn [andb negb].
      rewrite b64_eq0_of_Z by lia.
      replace (ds =? 0) with false by (symmetry; apply Z.eqb_neq; exact Hnz).
      rewrite (gk_value dk ds dt A1 A2 A3 Hnz G4).
      rewrite in64_of_abs by lia. reflexivity.
    + lia.
    + intros n Hn _. destruct (gk_exact_int dk ds dt A1 A2 A3 Hnz G4 n Hn) as [E1 E2].
      rewrite E1, E2. split; reflexivity.
Qed.

Theorem fp_tmap_within_one_general : forall (rate : b64) (t : tmap) (q : Z), (2 <= length (tm_entries t))%nat ->
  ((forall c, search (ids t) q = TmOk c -> fp_guard_general (ids t) (times t) c q) ->
   exists v v' : Z, tmap_sample_id_to_timestamp t q = QVal v /\
     fp_tmap_sample_id_to_timestamp rate t q = QVal v' /\ -1 <= v' - v <= 1) /\
  ((forall c, search (times t) q = TmOk c -> fp_guard_general (times t) (ids t) c q) ->
   exists v v' : Z, tmap_timestamp_to_sample_id t q = QVal v /\
     fp_tmap_timestamp_to_sample_id rate t q = QVal v' /\ -1 <= v' - v <= 1).
Proof.
  intros rate t q Hl. destruct (tmap_multi rate t q Hl) as [E1 [E2 [E3 E4]]].
  split; intros Hg.
  - destruct (search_total (ids t) q ltac:(rewrite ids_length; lia)) as [c [Hc _]].
    destruct (fp_interp_at_general _ _ _ _ (Hg c Hc)) as [v [v' [A [B [C _]]]]].
    exists v, v'. rewrite E1, E2. unfold interp, fp_interp. rewrite Hc, A, B. cbn [qres_of]. auto.
  - destruct (search_total (times t) q ltac:(rewrite times_length; lia)) as [c [Hc _]].
    destruct (fp_interp_at_general _ _ _ _ (Hg c Hc)) as [v [v' [A [B [C _]]]]].
    exists v, v'. rewrite E3, E4. unfold interp, fp_interp. rewrite Hc, A, B. cbn [qres_of]. auto.
Qed.

(* a segment whose time difference 2^60 + 12345 is not a double (it needs 61 bits): the general
   guard holds, fp_guard's exactness clause does not; C and exact model agree here *)
Lemma fp_ex_general :
  let xs := [0; 2 ^ 40] in let ys := [5; 5 + 2 ^ 60 + 12345] in
  fp_guard_general xs ys 0 1000003 /\ ~ fp_guard xs ys 0 1000003 /\
  fp_interp_at xs ys 0 1000003 = TmOk (5 + 1048579145728) /\ interp_at xs ys 0 1000003 = TmOk (5 + 1048579145728).
Proof.
  cbv zeta. split; [|split; [|split]].
  - unfold fp_guard_general. cbn [nth]. repeat split; try (vm_compute; reflexivity); apply Z.leb_le; vm_compute; reflexivity.
  - unfold fp_guard. cbn [nth]. intros [_ [_ [H _]]]. apply Z.leb_le in H. vm_compute in H. discriminate.
  - vm_compute. reflexivity.
  - vm_compute. reflexivity.
Qed.
