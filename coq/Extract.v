(* Extraction of the executable model.  ExtrOcamlBasic only: bool, option, list,
   prod, unit, sumbool map to OCaml natives; N, Z, positive, Q, nat stay inductive.
   No Extract Constant / Extract Inductive of our own.
   Monolithic extraction into jlsmodel_ext.ml; ocaml/Makefile fails the build if two
   top-level values of the extracted file share a name (definitions in different Coq
   files must have distinct names). *)
From Coq Require Import Extraction ExtrOcamlBasic NArith ZArith QArith Qreduction List.
From JLS Require Import Generated CrcDefs Spec StatsQ MrbModel TmapModel.
Extraction Language OCaml.
Extraction "jlsmodel_ext"
  BinInt.Z.add BinInt.Z.opp BinInt.Z.of_N BinInt.Z.to_N BinNat.N.add BinNat.N.mul BinNat.N.of_nat BinNat.N.to_nat
  CrcDefs.crc_spec CrcDefs.crc32c CrcDefs.crc_slice8 CrcDefs.crc_hw CrcDefs.crc_hdr_hw CrcDefs.crc_hdr_slice8
  Spec.wstep Spec.run_spec Spec.spec_of Spec.content0 Spec.rd_sources Spec.rd_signals Spec.rd_offset Spec.rd_length
  Spec.rd_window Spec.anno_seek_range Spec.utc_from Spec.find_sig Spec.str_read Spec.pack Spec.stats_windows
  Qreduction.Qred
  StatsQ.stats_reset StatsQ.stats_compute_f64 StatsQ.stats_compute_f32 StatsQ.stats_add StatsQ.stats_add_list
  StatsQ.stats_var StatsQ.stats_copy_store StatsQ.stats_combine_store StatsQ.stats_combine StatsQ.stats_of
  MrbModel.init MrbModel.alloc MrbModel.alloc_fixed MrbModel.fill_fast MrbModel.peek MrbModel.pop MrbModel.read_msg MrbModel.extents
  TmapModel.tmap_alloc TmapModel.tmap_add TmapModel.tmap_rate TmapModel.tmap_unchecked
  TmapModel.tmap_sample_id_to_timestamp TmapModel.tmap_timestamp_to_sample_id
  TmapModel.tmap_sample_id_to_timestamp_old TmapModel.tmap_timestamp_to_sample_id_old
  TmapModel.TMAP_ERROR_UNAVAILABLE TmapModel.TMAP_TIME_SECOND TmapModel.TMAP_CELL_BYTES
  Generated.JLS_ERROR_PARAMETER_INVALID Generated.SIZEOF_utc_summary_entry.
