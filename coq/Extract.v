(* Extraction of the executable model.  ExtrOcamlBasic only: bool, option, list,
   prod, unit, sumbool map to OCaml natives; N, Z, positive, Q, nat stay inductive.
   No Extract Constant / Extract Inductive of our own.
   Monolithic extraction into jlsmodel_ext.ml; ocaml/Makefile fails the build if two
   top-level values of the extracted file share a name (definitions in different Coq
   files must have distinct names). *)
From Coq Require Import Extraction ExtrOcamlBasic NArith ZArith QArith Qreduction List.
From JLS Require Import Generated CrcDefs Spec StatsQ MrbModel TmapModel BitCopyModel FsrPackModel Format Decode WriteOnce DefsModel PyramidModel SigDef SpecFast TsModel TwrModel WmRaw WmCore WmTs WmFsr WriterModel SummQ RepairRaw RepairModel ReaderModel TwrMsg.
Extraction Language OCaml.
Extraction "jlsmodel_ext"
  BinInt.Z.add BinInt.Z.opp BinInt.Z.of_N BinInt.Z.to_N BinNat.N.add BinNat.N.mul BinNat.N.of_nat BinNat.N.to_nat
  CrcDefs.crc_spec CrcDefs.crc32c CrcDefs.crc_slice8 CrcDefs.crc_hw CrcDefs.crc_hdr_hw CrcDefs.crc_hdr_slice8
  Spec.wstep Spec.run_spec Spec.spec_of Spec.content0 Spec.rd_sources Spec.rd_signals Spec.rd_offset Spec.rd_length
  Spec.rd_window Spec.anno_seek_range Spec.utc_from Spec.find_sig Spec.str_read Spec.pack Spec.stats_windows
  Qreduction.Qred
  StatsQ.stats_reset StatsQ.stats_compute_f64 StatsQ.stats_compute_f32 StatsQ.stats_add StatsQ.stats_add_list
  StatsQ.stats_var StatsQ.stats_copy_store StatsQ.stats_combine_store StatsQ.stats_combine StatsQ.stats_of
  MrbModel.init MrbModel.alloc MrbModel.alloc_fixed MrbModel.fill_fast MrbModel.peek MrbModel.pop MrbModel.read_msg MrbModel.extents
  TmapModel.tmap_alloc TmapModel.tmap_add TmapModel.tmap_rate TmapModel.tmap_unchecked
  TmapModel.tmap_sample_id_to_timestamp TmapModel.tmap_timestamp_to_sample_id
  TmapModel.tmap_sample_id_to_timestamp_old TmapModel.tmap_timestamp_to_sample_id_old
  TmapModel.TMAP_ERROR_UNAVAILABLE TmapModel.TMAP_TIME_SECOND TmapModel.TMAP_CELL_BYTES
  Generated.JLS_ERROR_PARAMETER_INVALID Generated.SIZEOF_utc_summary_entry
  BitCopyModel.bc_bit_copy BitCopyModel.bc_bit_copy_slow BitCopyModel.bc_bits
  FsrPackModel.fp_run FsrPackModel.fp_close FsrPackModel.fp_rd_blocks FsrPackModel.fp_fill_buf
  FsrPackModel.FP_FILL_BYTES Spec.fill_value
  Decode.dw_walk Decode.dw_walk_report Decode.dw_content_of Decode.dw_stream WriteOnce.wo_run WriteOnce.wo_st0
  WriteOnce.wo_check_log WriteOnce.wo_check_log_lenient WriteOnce.wo_file_after Format.fm_encode_file_header
  Format.fm_encode_chunk Format.fm_decode_chunk_header Format.fm_decode_file_header
  PyramidModel.py_srun PyramidModel.py_run PyramidModel.py_fsr_length PyramidModel.py_fsr_seek
  PyramidModel.py_rd_data0 PyramidModel.py_cache0 PyramidModel.py_step PyramidModel.py_cap
  PyramidModel.py_chunk_level PyramidModel.py_chunk_tag PyramidModel.py_consistentb
  Spec.source0 Spec.signal0 Spec.sp_align SpecFast.sf_wstep SpecFast.sf_run
  DefsModel.df_enc_str DefsModel.df_dec_str DefsModel.df_rd_str DefsModel.df_rd_skip DefsModel.df_rd_u8
  DefsModel.df_rd_u16 DefsModel.df_rd_u32 DefsModel.df_enc_source_def DefsModel.df_dec_source_def
  DefsModel.df_enc_signal_def DefsModel.df_dec_signal_def DefsModel.df_str_fitsb DefsModel.df_open
  DefsModel.df_step DefsModel.df_run DefsModel.df_scan DefsModel.df_rd_sources DefsModel.df_rd_signals
  DefsModel.df_rd_signal DefsModel.df_rd_user_data DefsModel.df_op_of
  SigDef.sd_define SigDef.sd_align_fast SigDef.sd_validate SigDef.sd_defaults SigDef.sample_size SigDef.consistent_clauses
  SigDef.consistentb SigDef.entry256b SigDef.sd_loop_args
  TsModel.ts_kv_writes TsModel.ts_kv_close TsModel.ts_kv_annotations TsModel.ts_kv_utc
  TwrModel.tw_init TwrModel.tw_step TwrModel.tw_tick TwrModel.tw_run TwrModel.tw_enabled TwrModel.tw_final
  TwrModel.tw_some_sleeping TwrModel.tw_deadlocked TwrModel.tw_EBUSY TwrModel.tw_ETIMEDOUT TwrModel.tw_processed
  TwrModel.tw_acc_msgs TwrModel.tw_unprocessed
  WriterModel.wm_run WriterModel.wm_run_full WriterModel.wm_step WriterModel.wm_step_rc
  WriterModel.wm_api_open WriterModel.wm_api_close WriterModel.wm_st_log WriterModel.wm_st_fault WriterModel.wm_find_sig
  SummQ.sq_levels SummQ.sq_level1 SummQ.sq_level_next SummQ.sq_summary1 SummQ.sq_summaryN
  SummQ.sq_rd_statistics SummQ.sq_wr_blocks SummQ.sq_reconstruct
  RepairModel.rp_open RepairModel.rp_scan RepairModel.rp_apply_log RepairModel.rp_ends_with_end RepairModel.rp_links_forward
  RepairRaw.rp_signal_validate
  ReaderModel.rdm_open ReaderModel.rdm_fsr_length ReaderModel.rdm_fsr ReaderModel.rdm_annotations
  ReaderModel.rdm_user_data ReaderModel.rdm_utc ReaderModel.rdm_set_tr ReaderModel.rdm_flt ReaderModel.rdm_def ReaderModel.rdm_sig
  TwrMsg.tm_encode TwrMsg.tm_decode TwrMsg.tm_norm.
