(* Extraction of the executable model.  ExtrOcamlBasic only: bool, option, list,
   prod, unit, sumbool map to OCaml natives; N, Z, positive, Q, nat stay inductive.
   No Extract Constant / Extract Inductive of our own.
   Run from /verif/ocaml:  coqc -Q ../coq JLS ../coq/Extract.v   (writes jlsmodel_ext.ml{,i} there) *)
From Coq Require Import Extraction ExtrOcamlBasic NArith ZArith List.
From JLS Require Import Generated CrcDefs.
Extraction Language OCaml.
Extraction "jlsmodel_ext"
  BinInt.Z.add BinInt.Z.opp BinInt.Z.of_N BinInt.Z.to_N BinNat.N.add BinNat.N.mul BinNat.N.of_nat BinNat.N.to_nat
  CrcDefs.crc_spec CrcDefs.crc32c CrcDefs.crc_slice8 CrcDefs.crc_hw CrcDefs.crc_hdr_hw CrcDefs.crc_hdr_slice8.
