(* Round-trip and alignment lemmas for Format.v *)
From Coq Require Import NArith ZArith List Bool Lia Arith.
From Coq Require Import ZifyBool ZifyN ZifyNat.
From JLS Require Import Generated CrcDefs CrcProofs Format.
Import ListNotations.
Local Open Scope N_scope.
Ltac Zify.zify_post_hook ::= Z.div_mod_to_equations.

(* ---------------------------------------------------------------- integers *)
Lemma fm_enc_length : forall n x, length (fm_enc n x) = n.
Proof. induction n as [|n IH]; intros x; cbn [fm_enc length]; [reflexivity|]. now rewrite IH. Qed.

Lemma fm_enc_bytes_ok : forall n x, bytes_ok (fm_enc n x).
Proof.
  induction n as [|n IH]; intros x; cbn [fm_enc]; [constructor|].
  constructor; [|apply IH]. apply N.mod_lt. discriminate.
Qed.

Lemma fm_dec_enc : forall n x, x < 256 ^ N.of_nat n -> fm_dec (fm_enc n x) = x.
Proof.
  induction n as [|n IH]; intros x Hx.
  - cbn in *. lia.
  - cbn [fm_enc fm_dec]. rewrite IH.
    + pose proof (N.div_mod x 256). lia.
    + rewrite Nat2N.inj_succ, N.pow_succ_r' in Hx.
      apply N.div_lt_upper_bound; lia.
Qed.

Lemma fm_dec_app : forall a b, fm_dec (a ++ b) = fm_dec a + 256 ^ N.of_nat (length a) * fm_dec b.
Proof.
  induction a as [|x a IH]; intros b.
  - cbn [app fm_dec length N.of_nat]. change (256 ^ 0) with 1. lia.
  - cbn [app fm_dec length]. rewrite IH, Nat2N.inj_succ, N.pow_succ_r'. ring.
Qed.

Lemma fm_dec_lt : forall l, bytes_ok l -> fm_dec l < 256 ^ N.of_nat (length l).
Proof.
  induction l as [|x l IH]; intros H.
  - cbn. lia.
  - inversion H as [|? ? Hx Hl]; subst. specialize (IH Hl).
    cbn [fm_dec length]. rewrite Nat2N.inj_succ, N.pow_succ_r'. lia.
Qed.

Lemma firstn_app_exact : forall (A : Type) (a r : list A) n, length a = n -> firstn n (a ++ r) = a.
Proof.
  intros A a r n <-. rewrite firstn_app, Nat.sub_diag, firstn_all. cbn. now rewrite app_nil_r.
Qed.
Lemma skipn_app_exact : forall (A : Type) (a r : list A) n, length a = n -> skipn n (a ++ r) = r.
Proof.
  intros A a r n <-. rewrite skipn_app, Nat.sub_diag, skipn_all. reflexivity.
Qed.

Lemma fm_dec_u8_enc : forall x r, x < 256 -> fm_dec_u8 (fm_enc_u8 x ++ r) = x.
Proof. intros x r H. unfold fm_dec_u8, fm_enc_u8. rewrite firstn_app_exact by apply fm_enc_length. now apply fm_dec_enc. Qed.
Lemma fm_dec_u16_enc : forall x r, x < 65536 -> fm_dec_u16 (fm_enc_u16 x ++ r) = x.
Proof. intros x r H. unfold fm_dec_u16, fm_enc_u16. rewrite firstn_app_exact by apply fm_enc_length. now apply fm_dec_enc. Qed.
Lemma fm_dec_u32_enc : forall x r, x < 4294967296 -> fm_dec_u32 (fm_enc_u32 x ++ r) = x.
Proof. intros x r H. unfold fm_dec_u32, fm_enc_u32. rewrite firstn_app_exact by apply fm_enc_length. now apply fm_dec_enc. Qed.
Lemma fm_dec_u64_enc : forall x r, x < fm_two64 -> fm_dec_u64 (fm_enc_u64 x ++ r) = x.
Proof. intros x r H. unfold fm_dec_u64, fm_enc_u64. rewrite firstn_app_exact by apply fm_enc_length. now apply fm_dec_enc. Qed.

(* the forms asked for: dec (enc x) = x for in-range x *)
Lemma fm_u8_roundtrip : forall x, x < 256 -> fm_dec_u8 (fm_enc_u8 x) = x.
Proof. intros x H. rewrite <- (app_nil_r (fm_enc_u8 x)). now apply fm_dec_u8_enc. Qed.
Lemma fm_u16_roundtrip : forall x, x < 65536 -> fm_dec_u16 (fm_enc_u16 x) = x.
Proof. intros x H. rewrite <- (app_nil_r (fm_enc_u16 x)). now apply fm_dec_u16_enc. Qed.
Lemma fm_u32_roundtrip : forall x, x < 4294967296 -> fm_dec_u32 (fm_enc_u32 x) = x.
Proof. intros x H. rewrite <- (app_nil_r (fm_enc_u32 x)). now apply fm_dec_u32_enc. Qed.
Lemma fm_u64_roundtrip : forall x, x < fm_two64 -> fm_dec_u64 (fm_enc_u64 x) = x.
Proof. intros x H. rewrite <- (app_nil_r (fm_enc_u64 x)). now apply fm_dec_u64_enc. Qed.

Lemma fm_dec_i64_enc : forall z r, (- Z.of_N fm_two63 <= z < Z.of_N fm_two63)%Z -> fm_dec_i64 (fm_enc_i64 z ++ r) = z.
Proof.
  intros z r Hz. unfold fm_dec_i64, fm_enc_i64.
  change (fm_enc 8) with fm_enc_u64.
  assert (Hm : (0 <= z mod Z.of_N fm_two64 < Z.of_N fm_two64)%Z) by (apply Z.mod_pos_bound; reflexivity).
  unfold fm_two63 in Hz. change (Z.of_N 9223372036854775808) with 9223372036854775808%Z in Hz.
  rewrite fm_dec_u64_enc.
  2:{ unfold fm_two64 in *. change (Z.of_N 18446744073709551616) with 18446744073709551616%Z in *. lia. }
  unfold fm_i64_of_u64, fm_two63, fm_two64 in *.
  change (Z.of_N 18446744073709551616) with 18446744073709551616%Z in *.
  destruct (Z.to_N (z mod 18446744073709551616) <? 9223372036854775808) eqn:E; lia.
Qed.
Lemma fm_i64_roundtrip : forall z, (- Z.of_N fm_two63 <= z < Z.of_N fm_two63)%Z -> fm_dec_i64 (fm_enc_i64 z) = z.
Proof. intros z H. rewrite <- (app_nil_r (fm_enc_i64 z)). now apply fm_dec_i64_enc. Qed.
Lemma fm_enc_i64_length : forall z, length (fm_enc_i64 z) = 8%nat.
Proof. intros. apply fm_enc_length. Qed.

Lemma fm_list_eqb_eq : forall a b, fm_list_eqb a b = true <-> a = b.
Proof.
  induction a as [|x a IH]; destruct b as [|y b]; cbn; split; intro H; try reflexivity; try discriminate.
  - apply andb_true_iff in H as [H1 H2]. apply N.eqb_eq in H1. apply IH in H2. now subst.
  - inversion H; subst. rewrite N.eqb_refl. cbn. now apply IH.
Qed.

Lemma fm_has_true : forall n l, fm_has n l = true <-> (n <= length l)%nat.
Proof.
  intros n l. unfold fm_has. rewrite Nat.eqb_eq, firstn_length. lia.
Qed.

Lemma fm_all_zero_repeat : forall n, fm_all_zero (repeat 0 n) = true.
Proof. induction n; cbn; auto. Qed.
Lemma fm_all_zero_spec : forall l, fm_all_zero l = true <-> Forall (fun b => b = 0) l.
Proof.
  intros l. unfold fm_all_zero. rewrite forallb_forall, Forall_forall.
  split; intros H x Hx; specialize (H x Hx).
  - apply N.eqb_eq in H. now subst.
  - subst. reflexivity.
Qed.

(* ---------------------------------------------------------------- CRC range (no hypothesis on the bytes) *)
Lemma fm_tbl0_lt : forall i, tbl 0 i < 2 ^ 32.
Proof.
  intros i. destruct (N.ltb_spec i 256) as [H|H].
  - rewrite tables_ok by (auto; lia). apply U_lt. change (2 ^ 32) with 4294967296. lia.
  - unfold tbl. rewrite nth_overflow; [reflexivity|].
    cbn [nth crc_tables]. assert (length crc_table_o32 = 256%nat) by reflexivity. lia.
Qed.

Lemma fm_tstep_lt : forall c b, c < 2 ^ 32 -> tstep c b < 2 ^ 32.
Proof.
  intros c b Hc. unfold tstep. apply lxor_lt_pow2; [apply fm_tbl0_lt|].
  apply N.lt_le_trans with (2 ^ 24); [|now vm_compute].
  apply shiftr_lt_pow2. exact Hc.
Qed.

Lemma fm_crc_table_raw_lt : forall l c, c < 2 ^ 32 -> crc_table_raw c l < 2 ^ 32.
Proof.
  induction l as [|b l IH]; intros c Hc; cbn; [exact Hc|].
  apply IH. now apply fm_tstep_lt.
Qed.

Lemma fm_crc32c_lt : forall l, crc32c l < 4294967296.
Proof.
  intros l. unfold crc32c. change 4294967296 with (2 ^ 32).
  apply lxor_lt_pow2; [|now vm_compute].
  apply fm_crc_table_raw_lt. now vm_compute.
Qed.

(* ---------------------------------------------------------------- destructing a list of known length *)
Ltac fm_explode l H :=
  let rec go := lazymatch type of H with
    | length l = O => destruct l; [clear H | discriminate H]
    | length l = S _ => destruct l as [|? l]; [discriminate H | cbn [length] in H; apply eq_add_S in H; go]
    end in go.

(* ---------------------------------------------------------------- chunk header *)
Lemma fm_ch_fields_app : forall l1 l2 l3 l4 l5 l6 l7 l8 r,
  length l1 = 8%nat -> length l2 = 8%nat -> length l3 = 1%nat -> length l4 = 1%nat -> length l5 = 2%nat ->
  length l6 = 4%nat -> length l7 = 4%nat -> length l8 = 4%nat ->
  let l := (l1 ++ l2 ++ l3 ++ l4 ++ l5 ++ l6 ++ l7) ++ l8 ++ r in
  fm_ch_fields l = {| fm_item_next := fm_dec l1; fm_item_prev := fm_dec l2; fm_tag := fm_dec l3; fm_rsv0 := fm_dec l4;
                      fm_chunk_meta := fm_dec l5; fm_payload_length := fm_dec l6; fm_payload_prev_length := fm_dec l7 |}
  /\ firstn (N.to_nat OFFSETOF_chunk_crc32) l = l1 ++ l2 ++ l3 ++ l4 ++ l5 ++ l6 ++ l7
  /\ fm_u32_at OFFSETOF_chunk_crc32 l = fm_dec l8
  /\ fm_ch_complete l = true.
Proof.
  intros l1 l2 l3 l4 l5 l6 l7 l8 r H1 H2 H3 H4 H5 H6 H7 H8.
  fm_explode l1 H1. fm_explode l2 H2. fm_explode l3 H3. fm_explode l4 H4.
  fm_explode l5 H5. fm_explode l6 H6. fm_explode l7 H7. fm_explode l8 H8.
  repeat split; reflexivity.
Qed.

Theorem fm_chunk_header_roundtrip : forall h r, fm_chunk_header_wf h ->
  fm_decode_chunk_header (fm_encode_chunk_header h ++ r) = Some h.
Proof.
  intros h r (Hn & Hp & Ht & Hr & Hm & Hl & Hq).
  unfold fm_encode_chunk_header, fm_chunk_header_body. rewrite <- app_assoc.
  set (c := crc32c _).
  edestruct (fm_ch_fields_app (fm_enc_u64 (fm_item_next h)) (fm_enc_u64 (fm_item_prev h)) (fm_enc_u8 (fm_tag h))
               (fm_enc_u8 (fm_rsv0 h)) (fm_enc_u16 (fm_chunk_meta h)) (fm_enc_u32 (fm_payload_length h))
               (fm_enc_u32 (fm_payload_prev_length h)) (fm_enc_u32 c) r) as (Hf & Hb & Hc & Hk);
    try apply fm_enc_length.
  unfold fm_decode_chunk_header, fm_ch_crc_ok. rewrite Hk, Hb, Hc, Hf.
  unfold fm_enc_u64, fm_enc_u8, fm_enc_u16, fm_enc_u32.
  rewrite (fm_dec_enc 4 c) by (subst c; apply fm_crc32c_lt).
  subst c. rewrite N.eqb_refl. cbn [andb].
  rewrite (fm_dec_enc 8 (fm_item_next h)) by exact Hn.
  rewrite (fm_dec_enc 8 (fm_item_prev h)) by exact Hp.
  rewrite (fm_dec_enc 1 (fm_tag h)) by exact Ht.
  rewrite (fm_dec_enc 1 (fm_rsv0 h)) by exact Hr.
  rewrite (fm_dec_enc 2 (fm_chunk_meta h)) by exact Hm.
  rewrite (fm_dec_enc 4 (fm_payload_length h)) by exact Hl.
  rewrite (fm_dec_enc 4 (fm_payload_prev_length h)) by exact Hq.
  destruct h; reflexivity.
Qed.

Corollary fm_chunk_header_roundtrip0 : forall h, fm_chunk_header_wf h ->
  fm_decode_chunk_header (fm_encode_chunk_header h) = Some h.
Proof. intros h H. rewrite <- (app_nil_r (fm_encode_chunk_header h)). now apply fm_chunk_header_roundtrip. Qed.

Lemma fm_encode_chunk_header_length : forall h, length (fm_encode_chunk_header h) = 32%nat.
Proof.
  intros h. unfold fm_encode_chunk_header, fm_chunk_header_body, fm_enc_u64, fm_enc_u32, fm_enc_u16, fm_enc_u8.
  rewrite !app_length, !fm_enc_length. reflexivity.
Qed.

(* a decoded header is what the bytes say, has a valid CRC (w.r.t. the bit-serial definition) and 32 bytes *)
Lemma fm_decode_chunk_header_some : forall l h, fm_decode_chunk_header l = Some h ->
  (32 <= length l)%nat /\ h = fm_ch_fields l /\ fm_u32_at OFFSETOF_chunk_crc32 l = crc32c (firstn 28 l).
Proof.
  intros l h H. unfold fm_decode_chunk_header in H.
  destruct (fm_ch_complete l) eqn:E1; [|discriminate]. destruct (fm_ch_crc_ok l) eqn:E2; [|discriminate].
  cbn in H. inversion H; subst. unfold fm_ch_complete in E1. apply fm_has_true in E1.
  unfold fm_ch_crc_ok in E2. apply N.eqb_eq in E2.
  repeat split; assumption.
Qed.

Lemma fm_decode_chunk_header_firstn : forall l, fm_decode_chunk_header (firstn 32 l) = fm_decode_chunk_header l.
Proof.
  intros l. unfold fm_decode_chunk_header, fm_ch_complete, fm_ch_crc_ok, fm_ch_fields, fm_has,
    fm_u64_at, fm_u32_at, fm_u16_at, fm_u8_at, fm_dec_u64, fm_dec_u32, fm_dec_u16, fm_dec_u8.
  change (N.to_nat SIZEOF_chunk_header) with 32%nat.
  change (N.to_nat OFFSETOF_chunk_crc32) with 28%nat. change (N.to_nat OFFSETOF_chunk_item_next) with 0%nat.
  change (N.to_nat OFFSETOF_chunk_item_prev) with 8%nat. change (N.to_nat OFFSETOF_chunk_tag) with 16%nat.
  change (N.to_nat OFFSETOF_chunk_rsv0) with 17%nat. change (N.to_nat OFFSETOF_chunk_meta) with 18%nat.
  change (N.to_nat OFFSETOF_chunk_payload_length) with 20%nat. change (N.to_nat OFFSETOF_chunk_payload_prev_length) with 24%nat.
  rewrite (firstn_firstn l 32 32), (firstn_firstn l 28 32). change (Nat.min 32 32) with 32%nat. change (Nat.min 28 32) with 28%nat.
  assert (K : forall a b, (a + b <= 32)%nat -> firstn b (skipn a (firstn 32 l)) = firstn b (skipn a l)).
  { intros a b Hab. rewrite skipn_firstn_comm, firstn_firstn. f_equal. lia. }
  rewrite !K by lia. reflexivity.
Qed.

(* ---------------------------------------------------------------- file header *)
Lemma fm_fh_fields_app : forall l1 l2 l3 l4 r,
  length l1 = 16%nat -> length l2 = 8%nat -> length l3 = 4%nat -> length l4 = 4%nat ->
  let l := (l1 ++ l2 ++ l3) ++ l4 ++ r in
  fm_u64_at OFFSETOF_file_header_length l = fm_dec l2 /\ fm_u32_at OFFSETOF_file_header_version l = fm_dec l3
  /\ firstn (N.to_nat OFFSETOF_file_header_crc32) l = l1 ++ l2 ++ l3
  /\ fm_u32_at OFFSETOF_file_header_crc32 l = fm_dec l4 /\ fm_fh_complete l = true
  /\ firstn 16 l = l1.
Proof.
  intros l1 l2 l3 l4 r H1 H2 H3 H4.
  fm_explode l1 H1. fm_explode l2 H2. fm_explode l3 H3. fm_explode l4 H4.
  repeat split; reflexivity.
Qed.

Theorem fm_file_header_roundtrip : forall h r, fm_fh_length h < fm_two64 -> fm_fh_version h < 4294967296 ->
  fm_decode_file_header (fm_encode_file_header h ++ r) = Some h.
Proof.
  intros h r Hl Hv.
  unfold fm_encode_file_header, fm_file_header_body. rewrite <- app_assoc.
  set (c := crc32c _).
  edestruct (fm_fh_fields_app JLS_HEADER_IDENTIFICATION (fm_enc_u64 (fm_fh_length h)) (fm_enc_u32 (fm_fh_version h)) (fm_enc_u32 c) r)
    as (Hf1 & Hf2 & Hb & Hc & Hk & Hi); try apply fm_enc_length; try reflexivity.
  unfold fm_decode_file_header, fm_fh_crc_ok, fm_fh_ident_ok.
  change (length JLS_HEADER_IDENTIFICATION) with 16%nat.
  rewrite Hk, Hb, Hc, Hf1, Hf2, Hi.
  unfold fm_enc_u64, fm_enc_u32.
  rewrite (fm_dec_enc 4 c) by (subst c; apply fm_crc32c_lt).
  subst c. rewrite N.eqb_refl.
  rewrite (fm_dec_enc 8 (fm_fh_length h)) by exact Hl.
  rewrite (fm_dec_enc 4 (fm_fh_version h)) by exact Hv.
  replace (fm_list_eqb JLS_HEADER_IDENTIFICATION JLS_HEADER_IDENTIFICATION) with true by (symmetry; now apply fm_list_eqb_eq).
  cbn [andb]. destruct h; reflexivity.
Qed.

Corollary fm_file_header_roundtrip0 : forall h, fm_fh_length h < fm_two64 -> fm_fh_version h < 4294967296 ->
  fm_decode_file_header (fm_encode_file_header h) = Some h.
Proof. intros h H1 H2. rewrite <- (app_nil_r (fm_encode_file_header h)). now apply fm_file_header_roundtrip. Qed.

Lemma fm_encode_file_header_length : forall h, length (fm_encode_file_header h) = 32%nat.
Proof.
  intros h. unfold fm_encode_file_header, fm_file_header_body, fm_enc_u64, fm_enc_u32.
  rewrite !app_length, !fm_enc_length. reflexivity.
Qed.

(* ---------------------------------------------------------------- payload framing *)
Lemma fm_pad_len_lt : forall pl, fm_pad_len pl < 8.
Proof. intros pl. unfold fm_pad_len, RAW_HEADER_ALIGN, RAW_CRC_SIZE. lia. Qed.

Lemma fm_disk_len_mod8 : forall pl, fm_disk_len pl mod 8 = 0.
Proof.
  intros pl. unfold fm_disk_len, fm_pad_len, RAW_HEADER_ALIGN, RAW_CRC_SIZE.
  destruct (pl =? 0) eqn:E; lia.
Qed.

Lemma fm_chunk_size_mod8 : forall pl, fm_chunk_size pl mod 8 = 0.
Proof.
  intros pl. unfold fm_chunk_size, SIZEOF_chunk_header. pose proof (fm_disk_len_mod8 pl). lia.
Qed.

Lemma fm_chunk_size_ge : forall pl, 32 <= fm_chunk_size pl.
Proof. intros pl. unfold fm_chunk_size, SIZEOF_chunk_header. lia. Qed.

Lemma fm_frame_length : forall p, N.of_nat (length (fm_frame p)) = fm_disk_len (N.of_nat (length p)).
Proof.
  intros p. unfold fm_frame, fm_disk_len. destruct p as [|b p]; [reflexivity|].
  set (q := b :: p). assert (Hq : N.of_nat (length q) <> 0) by (subst q; cbn [length]; lia).
  apply N.eqb_neq in Hq. rewrite Hq.
  rewrite !app_length, repeat_length. unfold fm_enc_u32. rewrite fm_enc_length. unfold RAW_CRC_SIZE. lia.
Qed.

Theorem fm_unframe_frame_r : forall p rest, fm_unframe_r (N.of_nat (length p)) (fm_frame p ++ rest) = FmPayload p rest.
Proof.
  intros p rest. unfold fm_unframe_r, fm_frame. destruct p as [|b p]; [reflexivity|].
  set (q := b :: p). assert (Hq : N.of_nat (length q) <> 0) by (subst q; cbn [length]; lia).
  apply N.eqb_neq in Hq. rewrite Hq. rewrite Nat2N.id.
  rewrite <- !app_assoc.
  rewrite (firstn_app_exact _ q) by reflexivity. rewrite (skipn_app_exact _ q) by reflexivity.
  set (k := N.to_nat (fm_pad_len (N.of_nat (length q)))).
  rewrite (firstn_app_exact _ (repeat 0 k)) by apply repeat_length.
  rewrite (skipn_app_exact _ (repeat 0 k)) by apply repeat_length.
  rewrite repeat_length, !Nat.eqb_refl.
  replace (fm_has 4 (fm_enc_u32 (crc32c q) ++ rest)) with true
    by (symmetry; apply fm_has_true; rewrite app_length; unfold fm_enc_u32; rewrite fm_enc_length; lia).
  cbn [andb negb]. rewrite fm_all_zero_repeat. cbn [negb].
  rewrite fm_dec_u32_enc by apply fm_crc32c_lt. rewrite N.eqb_refl. cbn [negb].
  rewrite (skipn_app_exact _ (fm_enc_u32 (crc32c q))) by apply fm_enc_length. reflexivity.
Qed.

Theorem fm_unframe_frame : forall p, fm_unframe (N.of_nat (length p)) (fm_frame p) = Some p.
Proof.
  intros p. unfold fm_unframe. rewrite <- (app_nil_r (fm_frame p)). now rewrite fm_unframe_frame_r.
Qed.

(* 8-byte alignment is preserved by construction: a header followed by a framed payload is a multiple of 8 long *)
Theorem fm_chunk_aligned : forall h p, (length (fm_encode_chunk_header h ++ fm_frame p) mod 8 = 0)%nat.
Proof.
  intros h p. rewrite app_length, fm_encode_chunk_header_length.
  pose proof (fm_frame_length p) as H. pose proof (fm_disk_len_mod8 (N.of_nat (length p))) as H8.
  rewrite <- H in H8. lia.
Qed.

Lemma fm_encode_chunk_length : forall h p, N.of_nat (length (fm_encode_chunk h p)) = fm_chunk_size (N.of_nat (length p)).
Proof.
  intros h p. unfold fm_encode_chunk, fm_chunk_size, SIZEOF_chunk_header.
  rewrite app_length, fm_encode_chunk_header_length, Nat2N.inj_add, fm_frame_length. reflexivity.
Qed.

(* what a successful unframe says about the bytes *)
Lemma fm_unframe_r_payload : forall pl l p rest, fm_unframe_r pl l = FmPayload p rest ->
  l = firstn (N.to_nat (fm_disk_len pl)) l ++ rest /\ N.of_nat (length l) = fm_disk_len pl + N.of_nat (length rest) /\
  N.of_nat (length p) = pl /\ p = firstn (N.to_nat pl) l /\
  (pl <> 0 -> Forall (fun b => b = 0) (firstn (N.to_nat (fm_pad_len pl)) (skipn (N.to_nat pl) l)) /\
              fm_dec_u32 (skipn (N.to_nat (pl + fm_pad_len pl)) l) = crc32c p).
Proof.
  intros pl l p rest H. unfold fm_unframe_r in H. unfold fm_disk_len.
  destruct (pl =? 0) eqn:E0.
  - inversion H; subst. apply N.eqb_eq in E0. subst. cbn. repeat split; try reflexivity; try lia.
  - apply N.eqb_neq in E0.
    set (n := N.to_nat pl) in *. set (padn := N.to_nat (fm_pad_len pl)) in *.
    destruct (Nat.eqb (length (firstn n l)) n) eqn:E1; cbn [andb negb] in H; [|discriminate].
    destruct (Nat.eqb (length (firstn padn (skipn n l))) padn) eqn:E2; cbn [andb negb] in H; [|discriminate].
    destruct (fm_has 4 (skipn padn (skipn n l))) eqn:E3; cbn [andb negb] in H; [|discriminate].
    destruct (fm_all_zero (firstn padn (skipn n l))) eqn:E4; cbn [negb] in H; [|discriminate].
    destruct (fm_dec_u32 (skipn padn (skipn n l)) =? crc32c (firstn n l)) eqn:E5; cbn [negb] in H; [|discriminate].
    assert (H' : p = firstn n l /\ rest = skipn (n + padn + 4) l).
    { rewrite !skipn_add. inversion H; subst; split; reflexivity. }
    clear H. destruct H' as [-> ->].
    apply Nat.eqb_eq in E1, E2. apply fm_has_true in E3. apply fm_all_zero_spec in E4. apply N.eqb_eq in E5.
    rewrite firstn_length in E1. rewrite firstn_length, skipn_length in E2. rewrite !skipn_length in E3.
    rewrite <- skipn_add in E5. unfold RAW_CRC_SIZE.
    replace (N.to_nat (pl + fm_pad_len pl + 4)) with (n + padn + 4)%nat by (subst n padn; lia).
    repeat split.
    + now rewrite firstn_skipn.
    + rewrite skipn_length. subst n padn. lia.
    + rewrite firstn_length. subst n. lia.
    + exact E4.
    + replace (N.to_nat (pl + fm_pad_len pl)) with (n + padn)%nat by (subst n padn; lia). exact E5.
Qed.

(* ---------------------------------------------------------------- payload header *)
Theorem fm_payload_header_roundtrip : forall h r, fm_payload_header_wf h ->
  fm_decode_payload_header (fm_encode_payload_header h ++ r) = Some h.
Proof.
  intros h r (Ht & Hc & Hs & Hr).
  unfold fm_encode_payload_header, fm_decode_payload_header.
  set (l := (_ ++ _) ++ r).
  assert (Hl : fm_has (N.to_nat SIZEOF_payload_header) l = true).
  { apply fm_has_true. subst l. rewrite !app_length, fm_enc_i64_length.
    unfold fm_enc_u32, fm_enc_u16. rewrite !fm_enc_length. change (N.to_nat SIZEOF_payload_header) with 16%nat. lia. }
  rewrite Hl. f_equal.
  unfold fm_i64_at, fm_u32_at, fm_u16_at.
  change (N.to_nat 0) with 0%nat. change (N.to_nat OFFSETOF_payload_entry_count) with 8%nat.
  change (N.to_nat OFFSETOF_payload_entry_size_bits) with 12%nat. change (N.to_nat (OFFSETOF_payload_entry_size_bits + 2)) with 14%nat.
  subst l. rewrite <- !app_assoc. rewrite (skipn_O (fm_enc_i64 _ ++ _)).
  rewrite fm_dec_i64_enc by assumption.
  rewrite (skipn_app_exact _ (fm_enc_i64 _)) by apply fm_enc_i64_length.
  rewrite fm_dec_u32_enc by assumption.
  change 12%nat with (8 + 4)%nat. rewrite skipn_add.
  rewrite (skipn_app_exact _ (fm_enc_i64 _)) by apply fm_enc_i64_length.
  rewrite (skipn_app_exact _ (fm_enc_u32 _)) by apply fm_enc_length.
  rewrite fm_dec_u16_enc by assumption.
  change (S (S (8 + 4))) with (8 + (4 + 2))%nat. rewrite !skipn_add.
  rewrite (skipn_app_exact _ (fm_enc_i64 _)) by apply fm_enc_i64_length.
  rewrite (skipn_app_exact _ (fm_enc_u32 _)) by apply fm_enc_length.
  rewrite (skipn_app_exact _ (fm_enc_u16 _)) by apply fm_enc_length.
  rewrite fm_dec_u16_enc by assumption.
  destruct h; reflexivity.
Qed.

(* ---------------------------------------------------------------- tags and chunk_meta *)
Lemma fm_track_tag_roundtrip : forall tt ck, tt < 4 -> ck <= JLS_TRACK_CHUNK_SUMMARY ->
  fm_is_track_tag (fm_track_tag tt ck) = true /\ fm_tag_track_type (fm_track_tag tt ck) = tt /\
  fm_tag_chunk_kind (fm_track_tag tt ck) = ck /\ fm_track_tag tt ck < 256.
Proof.
  intros tt ck Ht Hc.
  assert (K : forallb (fun t => forallb (fun c =>
      fm_is_track_tag (fm_track_tag t c) && (fm_tag_track_type (fm_track_tag t c) =? t) &&
      (fm_tag_chunk_kind (fm_track_tag t c) =? c) && (fm_track_tag t c <? 256)) [0;1;2;3;4]) [0;1;2;3] = true) by now vm_compute.
  rewrite forallb_forall in K.
  assert (Ht' : In tt [0;1;2;3]) by (unfold JLS_TRACK_CHUNK_SUMMARY in *; cbn; lia).
  specialize (K tt Ht'). rewrite forallb_forall in K.
  assert (Hc' : In ck [0;1;2;3;4]) by (unfold JLS_TRACK_CHUNK_SUMMARY in *; cbn; lia).
  specialize (K ck Hc').
  apply andb_true_iff in K as [K K4]. apply andb_true_iff in K as [K K3]. apply andb_true_iff in K as [K1 K2].
  apply N.eqb_eq in K2, K3. apply N.ltb_lt in K4. repeat split; assumption.
Qed.

(* the named tags of enum jls_tag_e are the packings *)
Lemma fm_named_track_tags :
  map (fun p => fm_track_tag (fst p) (snd p))
    (flat_map (fun t => map (fun c => (t, c)) [JLS_TRACK_CHUNK_DEF; JLS_TRACK_CHUNK_HEAD; JLS_TRACK_CHUNK_DATA; JLS_TRACK_CHUNK_INDEX; JLS_TRACK_CHUNK_SUMMARY])
       [JLS_TRACK_TYPE_FSR; JLS_TRACK_TYPE_VSR; JLS_TRACK_TYPE_ANNOTATION; JLS_TRACK_TYPE_UTC])
  = [JLS_TAG_TRACK_FSR_DEF; JLS_TAG_TRACK_FSR_HEAD; JLS_TAG_TRACK_FSR_DATA; JLS_TAG_TRACK_FSR_INDEX; JLS_TAG_TRACK_FSR_SUMMARY;
     JLS_TAG_TRACK_VSR_DEF; JLS_TAG_TRACK_VSR_HEAD; JLS_TAG_TRACK_VSR_DATA; JLS_TAG_TRACK_VSR_INDEX; JLS_TAG_TRACK_VSR_SUMMARY;
     JLS_TAG_TRACK_ANNOTATION_DEF; JLS_TAG_TRACK_ANNOTATION_HEAD; JLS_TAG_TRACK_ANNOTATION_DATA; JLS_TAG_TRACK_ANNOTATION_INDEX; JLS_TAG_TRACK_ANNOTATION_SUMMARY;
     JLS_TAG_TRACK_UTC_DEF; JLS_TAG_TRACK_UTC_HEAD; JLS_TAG_TRACK_UTC_DATA; JLS_TAG_TRACK_UTC_INDEX; JLS_TAG_TRACK_UTC_SUMMARY].
Proof. reflexivity. Qed.

(* the non-track tags are not track tags *)
Lemma fm_other_tags_not_track :
  forallb (fun t => negb (fm_is_track_tag t)) [JLS_TAG_INVALID; JLS_TAG_SOURCE_DEF; JLS_TAG_SIGNAL_DEF; JLS_TAG_USER_DATA; JLS_TAG_END] = true.
Proof. reflexivity. Qed.

Lemma fm_meta_track_roundtrip : forall s l, s < 256 -> l < 16 ->
  fm_meta_signal (fm_meta_track s l) = s /\ fm_meta_level (fm_meta_track s l) = l /\ fm_meta_rsv (fm_meta_track s l) = 0 /\
  fm_meta_track s l < 65536.
Proof.
  intros s l Hs Hl.
  unfold fm_meta_signal, fm_meta_level, fm_meta_rsv, fm_meta_track.
  replace (N.land s 255) with s by (symmetry; change 255 with (N.ones 8); rewrite N.land_ones; apply N.mod_small; exact Hs).
  replace (N.land l 15) with l by (symmetry; change 15 with (N.ones 4); rewrite N.land_ones; apply N.mod_small; exact Hl).
  assert (Hs0 : forall k, 8 <= k -> N.testbit s k = false).
  { intros k Hk. destruct (N.eq_dec s 0) as [->|Hne]; [apply N.bits_0|].
    apply N.bits_above_log2. apply N.log2_lt_pow2; [lia|].
    apply N.lt_le_trans with (2 ^ 8); [exact Hs|]. apply N.pow_le_mono_r; lia. }
  assert (Hl0 : forall k, 4 <= k -> N.testbit l k = false).
  { intros k Hk. destruct (N.eq_dec l 0) as [->|Hne]; [apply N.bits_0|].
    apply N.bits_above_log2. apply N.log2_lt_pow2; [lia|].
    apply N.lt_le_trans with (2 ^ 4); [exact Hl|]. apply N.pow_le_mono_r; lia. }
  repeat split.
  - apply N.bits_inj. intros k. rewrite N.land_spec, N.lor_spec.
    destruct (N.ltb_spec k 8) as [Hk|Hk].
    + rewrite N.shiftl_spec_low by lia. change 255 with (N.ones 8). rewrite N.ones_spec_low by lia.
      now rewrite orb_false_r, andb_true_r.
    + change 255 with (N.ones 8). rewrite N.ones_spec_high by lia. rewrite andb_false_r. symmetry. apply Hs0. lia.
  - apply N.bits_inj. intros k. rewrite N.shiftr_spec', N.lor_spec.
    rewrite Hs0 by lia. cbn [orb]. rewrite N.shiftl_spec_high' by lia. f_equal. lia.
  - apply N.bits_inj. intros k. rewrite N.bits_0, N.land_spec, N.shiftr_spec', N.lor_spec.
    rewrite Hs0 by lia. cbn [orb].
    destruct (N.ltb_spec k 4) as [Hk|Hk].
    + rewrite N.shiftl_spec_low by lia. reflexivity.
    + change 15 with (N.ones 4). rewrite N.ones_spec_high by lia. apply andb_false_r.
  - change 65536 with (2 ^ 16). apply lt_pow2_bits. intros k Hk.
    rewrite N.lor_spec, Hs0 by lia. cbn [orb]. rewrite N.shiftl_spec_high' by lia. apply Hl0. lia.
Qed.

(* ---------------------------------------------------------------- stored strings *)
Lemma fm_decode_str_encode : forall s rest, Forall (fun b => b <> 0) s ->
  fm_decode_str (fm_encode_str s ++ rest) = Some (s, rest).
Proof.
  induction s as [|b s IH]; intros rest H.
  - reflexivity.
  - inversion H as [|? ? Hb Hs]; subst. unfold fm_encode_str in *. cbn [app fm_decode_str].
    apply N.eqb_neq in Hb. rewrite Hb. rewrite IH by assumption. reflexivity.
Qed.

Lemma fm_decode_str_length : forall l s r, fm_decode_str l = Some (s, r) -> (length r + 2 <= length l)%nat.
Proof.
  induction l as [|b l IH]; intros s r H; cbn in H; [discriminate|].
  destruct (b =? 0).
  - destruct l as [|t l']; [discriminate|]. destruct (t =? 31); [|discriminate]. inversion H; subst. cbn. lia.
  - destruct (fm_decode_str l) as [[s' r']|] eqn:E; [|discriminate]. inversion H; subst.
    specialize (IH _ _ eq_refl). cbn. lia.
Qed.
