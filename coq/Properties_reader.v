(* Reader data paths at byte level (C01 / C04 / C19 for the reader, on the model of ReaderModel.v).

   Model: ReaderModel.v = jls_rd_open (no repair) / jls_rd_fsr_length / jls_rd_fsr / jls_rd_annotations / jls_rd_utc /
   jls_rd_user_data of /repo/src/core.c + reader.c in the C's control flow, over the bytes of the file, on top of
   RepairRaw.v (jls_core_rd_chunk = rp_rd_chunk, jls_raw_rd_header, jls_raw_chunk_seek).  Tie: tools/props/RDM.py.
   A state st : rdm_st holds the file bytes (rp_file (rdm_io st)), the raw state, the CONTENT of core->buf / rd_index /
   rd_summary, the head tables, and two ghost fields:
     rdm_tr st     every successful jls_core_rd_chunk so far: (offset, header, payload), newest first
     rdm_stale st  some buffer read went beyond the bytes of the current payload (the C checks neither entry_count nor
                   data_size against the payload length and then returns what earlier reads left in the buffer)
   rdm_flt st = sticky fault code (0 = none; RpF_fuel = 1 = non-termination; RpF_buf = 2 = access outside the 1 MiB
   buffer; RpF_big = 4; RpF_param = 7; RdmF_div = 20 = SIGFPE; RdmF_ovf = 21; RdmF_cast = 22; RdmF_dst = 23).
   fm_sub off n f = the bytes [off, off + n) of f that exist.  All statements are for EVERY byte string f, every state
   satisfying the stated invariant, every request and every oracle (recon = construct_f32 / construct_f64, f32_of_f64).

   (a) provenance: Reader_open, Reader_frame (every event of the trace is a chunk of the file whose header CRC and
       payload CRC are valid, by RawReadProofs.rr_rd_chunk_ok), Reader_user_data_provenance, Reader_annotations_provenance,
       Reader_utc_provenance, Reader_fsr_provenance (guard rdm_stale = false; without it the statement is false:
       DESIGN / final report, heap over-read of jls_core_fsr / jls_core_utc on entry counts that lie).
   (b) no write path: the model's functions have no log (type rp_io) and Reader_frame shows rp_file is constant.
   (c) termination: Reader_fsr_never_out_of_fuel, Reader_fsr_length_never_out_of_fuel, Reader_ts_seek_never_out_of_fuel
       (all byte strings); the three chain walks: Reader_*_out_of_fuel_is_a_cycle, and Reader_termination_refuted
       (a CRC-valid file whose user-data chain points to itself: the C hangs; replay in tools/props/RDM.py, class
       crafted_cycle_user_data).
   (d) partial: Reader_fsr_loop_window_partial - the copy loop of jls_core_fsr, at byte level, returns the window's samples
       (Spec.pack of the slice of the stream) PROVIDED jls_core_rd_fsr_data0 delivers the block holding each sample id
       (hypothesis; its proof from a well-formedness predicate on the INDEX chunks is what is missing).
   Reader_open also gives rp_fend = the file length.
   Proofs: ReaderProofs.v .. ReaderProofs5.v. *)
From Coq Require Import NArith ZArith List Bool.
From JLS Require Import Generated CrcDefs Spec Format WmRaw WmCore WmFsr WriterModel RepairRaw RepairModel BitCopyModel
  FsrPackModel RawReadProofs ReaderModel ReaderProofs ReaderProofs2 ReaderProofs3 ReaderProofs4 ReaderProofs5 ReaderProofs6.
Import ListNotations.
Local Open Scope N_scope.

(* the state after a successful open of a closed file: the file is f, nothing is cached wrongly, the trace is empty *)
Theorem Reader_open : forall (f : list N) (st : rdm_st), rdm_open f = RdmOpened st ->
  rp_file (rdm_io st) = f /\
  (rp_flen (rdm_io st) = rp_len (rp_file (rdm_io st)) /\
   (rp_r_valid (rp_r (rdm_io st)) = true ->
      length (fm_sub (rp_offset (rp_r (rdm_io st))) 32 (rp_file (rdm_io st))) = 32%nat /\
      fm_ch_crc_ok (fm_sub (rp_offset (rp_r (rdm_io st))) 32 (rp_file (rdm_io st))) = true /\
      rp_hdr (rp_r (rdm_io st)) = fm_ch_fields (fm_sub (rp_offset (rp_r (rdm_io st))) 32 (rp_file (rdm_io st))))) /\
  rdm_tr st = [] /\ rdm_stale st = false /\ rp_fend (rp_r (rdm_io st)) = rp_len f.
Proof. exact rdm_open_inv_flat. Qed.
Print Assumptions Reader_open.

(* rdm_open is jls_rd_open as modelled by RepairModel.rp_open (tools/props/RP.py) on files that need no repair: same
   return code, no backend event, file untouched *)
Theorem Reader_open_is_rp_open : forall summ1 summN (f : list N),
  match rdm_open f with
  | RdmOpened st => rp_rc (rp_open summ1 summN f) = 0 /\ rp_did (rp_open summ1 summN f) = false /\
                    rp_events (rp_open summ1 summN f) = [] /\ rp_after (rp_open summ1 summN f) = rp_file (rdm_io st) /\
                    rp_fault (rp_open summ1 summN f) = rdm_flt st
  | RdmOpenErr rc flt => rp_rc (rp_open summ1 summN f) = rc /\ rp_did (rp_open summ1 summN f) = false /\
                         rp_events (rp_open summ1 summN f) = [] /\ rp_fault (rp_open summ1 summN f) = flt
  | RdmNeedsRepair => exists c, rp_scan f = inr c /\ rp_open summ1 summN f = rp_repair summ1 summN c
  end.
Proof. exact rdm_open_rp_open. Qed.
Print Assumptions Reader_open_is_rp_open.

(* (a) + (b): EV e = "e is a chunk of f with valid header CRC and valid payload CRC, and its payload is the file's
   bytes"; INV st = "the file is f, the cached header is genuine, every traced chunk satisfies EV".  Every reader
   call keeps INV (so rp_file stays f: nothing is written), only extends the trace, and never lowers the ghost flag /
   replaces a fault. *)
Theorem Reader_frame : forall (recon : bool -> bool -> Z -> N -> N -> N -> list N) (f32_of_f64 : N -> N) (f : list N),
  let EV := fun e : rdm_ev =>
    (length (fm_sub (rdm_ev_off e) 32 f) = 32%nat /\ fm_ch_crc_ok (fm_sub (rdm_ev_off e) 32 f) = true /\
     rdm_ev_hdr e = fm_ch_fields (fm_sub (rdm_ev_off e) 32 f)) /\
    rdm_ev_pay e = fm_sub (rdm_ev_off e + 32) (fm_payload_length (rdm_ev_hdr e)) f /\
    length (rdm_ev_pay e) = N.to_nat (fm_payload_length (rdm_ev_hdr e)) /\
    (fm_payload_length (rdm_ev_hdr e) <> 0 ->
       rdm_ev_off e + 32 + fm_disk_len (fm_payload_length (rdm_ev_hdr e)) <= N.of_nat (length f) /\
       crc32c (rdm_ev_pay e) = fm_dec (fm_sub (rdm_ev_off e + 32 + fm_disk_len (fm_payload_length (rdm_ev_hdr e)) - 4) 4 f)) in
  let INV := fun st : rdm_st =>
    rp_file (rdm_io st) = f /\
    (rp_flen (rdm_io st) = rp_len (rp_file (rdm_io st)) /\
     (rp_r_valid (rp_r (rdm_io st)) = true ->
        length (fm_sub (rp_offset (rp_r (rdm_io st))) 32 (rp_file (rdm_io st))) = 32%nat /\
        fm_ch_crc_ok (fm_sub (rp_offset (rp_r (rdm_io st))) 32 (rp_file (rdm_io st))) = true /\
        rp_hdr (rp_r (rdm_io st)) = fm_ch_fields (fm_sub (rp_offset (rp_r (rdm_io st))) 32 (rp_file (rdm_io st))))) /\
    Forall EV (rdm_tr st) in
  let EXT := fun st st' : rdm_st =>
    (exists l, rdm_tr st' = l ++ rdm_tr st) /\ (rdm_stale st = true -> rdm_stale st' = true) /\
    (rdm_flt st <> 0 -> rdm_flt st' = rdm_flt st) /\ rp_fend (rp_r (rdm_io st')) = rp_fend (rp_r (rdm_io st)) in
  (forall st id, INV st -> INV (fst (fst (rdm_fsr_length st id))) /\ EXT st (fst (fst (rdm_fsr_length st id)))) /\
  (forall st id start len dst, INV st -> INV (fst (fst (fst (rdm_fsr recon f32_of_f64 st id start len dst)))) /\
                                         EXT st (fst (fst (fst (rdm_fsr recon f32_of_f64 st id start len dst))))) /\
  (forall st id ts stopf, INV st -> INV (fst (fst (rdm_annotations st id ts stopf))) /\ EXT st (fst (fst (rdm_annotations st id ts stopf)))) /\
  (forall st id sid stopf, INV st -> INV (fst (fst (rdm_utc st id sid stopf))) /\ EXT st (fst (fst (rdm_utc st id sid stopf)))) /\
  (forall st stopf, INV st -> INV (fst (fst (rdm_user_data st stopf))) /\ EXT st (fst (fst (rdm_user_data st stopf)))).
Proof. exact rdm_frame_all. Qed.
Print Assumptions Reader_frame.

(* (a) jls_rd_user_data: every item handed to the callback is the complete payload of a USER_DATA chunk of the file
   whose header CRC and payload CRC are valid (EV e) *)
Theorem Reader_user_data_provenance : forall (f : list N) (st : rdm_st) stopf st' rc items,
  let EV := (fun e : rdm_ev =>
    (length (fm_sub (rdm_ev_off e) 32 f) = 32%nat /\ fm_ch_crc_ok (fm_sub (rdm_ev_off e) 32 f) = true /\
     rdm_ev_hdr e = fm_ch_fields (fm_sub (rdm_ev_off e) 32 f)) /\
    rdm_ev_pay e = fm_sub (rdm_ev_off e + 32) (fm_payload_length (rdm_ev_hdr e)) f /\
    length (rdm_ev_pay e) = N.to_nat (fm_payload_length (rdm_ev_hdr e)) /\
    (fm_payload_length (rdm_ev_hdr e) <> 0 ->
       rdm_ev_off e + 32 + fm_disk_len (fm_payload_length (rdm_ev_hdr e)) <= N.of_nat (length f) /\
       crc32c (rdm_ev_pay e) = fm_dec (fm_sub (rdm_ev_off e + 32 + fm_disk_len (fm_payload_length (rdm_ev_hdr e)) - 4) 4 f))) in
  let INV := (fun st : rdm_st =>
    rp_file (rdm_io st) = f /\
    (rp_flen (rdm_io st) = rp_len (rp_file (rdm_io st)) /\
     (rp_r_valid (rp_r (rdm_io st)) = true ->
        length (fm_sub (rp_offset (rp_r (rdm_io st))) 32 (rp_file (rdm_io st))) = 32%nat /\
        fm_ch_crc_ok (fm_sub (rp_offset (rp_r (rdm_io st))) 32 (rp_file (rdm_io st))) = true /\
        rp_hdr (rp_r (rdm_io st)) = fm_ch_fields (fm_sub (rp_offset (rp_r (rdm_io st))) 32 (rp_file (rdm_io st))))) /\
    Forall EV (rdm_tr st)) in
  INV st -> rdm_user_data st stopf = (st', rc, items) ->
  INV st' /\ rp_file (rdm_io st') = f /\
  Forall (fun it => exists e, In e (rdm_tr st') /\ EV e /\ fm_tag (rdm_ev_hdr e) = JLS_TAG_USER_DATA /\
                    rdm_ud_data it = rdm_ev_pay e /\
                    rdm_ud_meta it = N.land (fm_chunk_meta (rdm_ev_hdr e)) 4095 /\
                    rdm_ud_stype it = N.land (N.shiftr (fm_chunk_meta (rdm_ev_hdr e)) 12) 15) items.
Proof. exact rdm_user_data_prov. Qed.
Print Assumptions Reader_user_data_provenance.

(* (a) jls_rd_annotations, when no read went beyond a payload: every annotation is the decoding (rdm_anno_of_payload:
   timestamp minus the signal's first sample id, type, storage type, group, y, data_size, data = the data_size bytes
   from offset 28) of the payload of an ANNOTATION DATA chunk with valid CRCs, and the data lies inside that payload *)
Theorem Reader_annotations_provenance : forall (f : list N) (st : rdm_st) id ts stopf st' rc items,
  let EV := (fun e : rdm_ev =>
    (length (fm_sub (rdm_ev_off e) 32 f) = 32%nat /\ fm_ch_crc_ok (fm_sub (rdm_ev_off e) 32 f) = true /\
     rdm_ev_hdr e = fm_ch_fields (fm_sub (rdm_ev_off e) 32 f)) /\
    rdm_ev_pay e = fm_sub (rdm_ev_off e + 32) (fm_payload_length (rdm_ev_hdr e)) f /\
    length (rdm_ev_pay e) = N.to_nat (fm_payload_length (rdm_ev_hdr e)) /\
    (fm_payload_length (rdm_ev_hdr e) <> 0 ->
       rdm_ev_off e + 32 + fm_disk_len (fm_payload_length (rdm_ev_hdr e)) <= N.of_nat (length f) /\
       crc32c (rdm_ev_pay e) = fm_dec (fm_sub (rdm_ev_off e + 32 + fm_disk_len (fm_payload_length (rdm_ev_hdr e)) - 4) 4 f))) in
  let INV := (fun st : rdm_st =>
    rp_file (rdm_io st) = f /\
    (rp_flen (rdm_io st) = rp_len (rp_file (rdm_io st)) /\
     (rp_r_valid (rp_r (rdm_io st)) = true ->
        length (fm_sub (rp_offset (rp_r (rdm_io st))) 32 (rp_file (rdm_io st))) = 32%nat /\
        fm_ch_crc_ok (fm_sub (rp_offset (rp_r (rdm_io st))) 32 (rp_file (rdm_io st))) = true /\
        rp_hdr (rp_r (rdm_io st)) = fm_ch_fields (fm_sub (rp_offset (rp_r (rdm_io st))) 32 (rp_file (rdm_io st))))) /\
    Forall EV (rdm_tr st)) in
  INV st -> rdm_annotations st id ts stopf = (st', rc, items) -> rdm_stale st' = false ->
  INV st' /\ rp_file (rdm_io st') = f /\
  Forall (fun it => exists e, In e (rdm_tr st') /\ EV e /\ fm_tag (rdm_ev_hdr e) = JLS_TAG_TRACK_ANNOTATION_DATA /\
                    it = rdm_anno_of_payload (rdm_sid0 st id) (rdm_ev_pay e) /\
                    rdm_anno_data_off + rdm_an_size it <= N.of_nat (length (rdm_ev_pay e))) items.
Proof. exact rdm_annotations_prov. Qed.
Print Assumptions Reader_annotations_provenance.

(* (a) jls_rd_utc, when no read went beyond a payload: the entries are the concatenation of batches, each the single
   entry of a chunk read after a UTC DATA header (rdm_utc_data_of) or the entries of a UTC SUMMARY chunk from the first
   one at or after the requested sample id on (rdm_utc_summary_of), all from chunks with valid CRCs *)
Theorem Reader_utc_provenance : forall (f : list N) (st : rdm_st) id sample_id stopf st' rc items,
  let EV := (fun e : rdm_ev =>
    (length (fm_sub (rdm_ev_off e) 32 f) = 32%nat /\ fm_ch_crc_ok (fm_sub (rdm_ev_off e) 32 f) = true /\
     rdm_ev_hdr e = fm_ch_fields (fm_sub (rdm_ev_off e) 32 f)) /\
    rdm_ev_pay e = fm_sub (rdm_ev_off e + 32) (fm_payload_length (rdm_ev_hdr e)) f /\
    length (rdm_ev_pay e) = N.to_nat (fm_payload_length (rdm_ev_hdr e)) /\
    (fm_payload_length (rdm_ev_hdr e) <> 0 ->
       rdm_ev_off e + 32 + fm_disk_len (fm_payload_length (rdm_ev_hdr e)) <= N.of_nat (length f) /\
       crc32c (rdm_ev_pay e) = fm_dec (fm_sub (rdm_ev_off e + 32 + fm_disk_len (fm_payload_length (rdm_ev_hdr e)) - 4) 4 f))) in
  let INV := (fun st : rdm_st =>
    rp_file (rdm_io st) = f /\
    (rp_flen (rdm_io st) = rp_len (rp_file (rdm_io st)) /\
     (rp_r_valid (rp_r (rdm_io st)) = true ->
        length (fm_sub (rp_offset (rp_r (rdm_io st))) 32 (rp_file (rdm_io st))) = 32%nat /\
        fm_ch_crc_ok (fm_sub (rp_offset (rp_r (rdm_io st))) 32 (rp_file (rdm_io st))) = true /\
        rp_hdr (rp_r (rdm_io st)) = fm_ch_fields (fm_sub (rp_offset (rp_r (rdm_io st))) 32 (rp_file (rdm_io st))))) /\
    Forall EV (rdm_tr st)) in
  INV st -> rdm_utc st id sample_id stopf = (st', rc, items) -> rdm_stale st' = false ->
  INV st' /\ rp_file (rdm_io st') = f /\
  exists batches, items = concat batches /\
    Forall (fun batch => exists e, In e (rdm_tr st') /\ EV e /\
              (batch = [rdm_utc_data_of (rdm_sid0 st id) (rdm_ev_pay e)] \/
               (fm_tag (rdm_ev_hdr e) = JLS_TAG_TRACK_UTC_SUMMARY /\
                batch = rdm_utc_summary_of (rdm_sid0 st id) (rdm_add_saturate sample_id (rdm_sid0 st id)) (rdm_ev_pay e)))) batches.
Proof. exact rdm_utc_prov. Qed.
Print Assumptions Reader_utc_provenance.

(* (a) jls_rd_fsr, when no read went beyond a payload: the caller's buffer is the initial buffer with the pieces
   applied in order (each piece = one call of jls_bit_copy: rdm_apply_pieces), and the source bytes of every piece that
   does not come from a reconstructed (omitted) block are a byte range, after the 16-byte payload header, of the payload
   of a chunk with valid CRCs.  (The C does not check the tag of that chunk: it only logs a mismatch.) *)
Theorem Reader_fsr_provenance : forall recon f32_of_f64 (f : list N) (st : rdm_st) id start dl dst st' rc out pcs,
  let EV := (fun e : rdm_ev =>
    (length (fm_sub (rdm_ev_off e) 32 f) = 32%nat /\ fm_ch_crc_ok (fm_sub (rdm_ev_off e) 32 f) = true /\
     rdm_ev_hdr e = fm_ch_fields (fm_sub (rdm_ev_off e) 32 f)) /\
    rdm_ev_pay e = fm_sub (rdm_ev_off e + 32) (fm_payload_length (rdm_ev_hdr e)) f /\
    length (rdm_ev_pay e) = N.to_nat (fm_payload_length (rdm_ev_hdr e)) /\
    (fm_payload_length (rdm_ev_hdr e) <> 0 ->
       rdm_ev_off e + 32 + fm_disk_len (fm_payload_length (rdm_ev_hdr e)) <= N.of_nat (length f) /\
       crc32c (rdm_ev_pay e) = fm_dec (fm_sub (rdm_ev_off e + 32 + fm_disk_len (fm_payload_length (rdm_ev_hdr e)) - 4) 4 f))) in
  let INV := (fun st : rdm_st =>
    rp_file (rdm_io st) = f /\
    (rp_flen (rdm_io st) = rp_len (rp_file (rdm_io st)) /\
     (rp_r_valid (rp_r (rdm_io st)) = true ->
        length (fm_sub (rp_offset (rp_r (rdm_io st))) 32 (rp_file (rdm_io st))) = 32%nat /\
        fm_ch_crc_ok (fm_sub (rp_offset (rp_r (rdm_io st))) 32 (rp_file (rdm_io st))) = true /\
        rp_hdr (rp_r (rdm_io st)) = fm_ch_fields (fm_sub (rp_offset (rp_r (rdm_io st))) 32 (rp_file (rdm_io st))))) /\
    Forall EV (rdm_tr st)) in
  INV st -> rdm_fsr recon f32_of_f64 st id start dl dst = (st', rc, out, pcs) -> rdm_stale st' = false ->
  INV st' /\ rp_file (rdm_io st') = f /\
  rdm_apply_pieces dst pcs = Some out /\
  Forall (fun pc => rdm_pc_omit pc = false ->
            exists e o, In e (rdm_tr st') /\ EV e /\
                        rdm_pc_src pc = fm_sub (SIZEOF_payload_header + o) (rp_len (rdm_pc_src pc)) (rdm_ev_pay e) /\
                        SIZEOF_payload_header + o + rp_len (rdm_pc_src pc) <= N.of_nat (length (rdm_ev_pay e))) pcs.
Proof. exact rdm_fsr_prov. Qed.
Print Assumptions Reader_fsr_provenance.

(* (d) partial.  blocks = the DATA blocks (first sample id, entry count, sample bytes) of one signal with w-bit samples,
   of the shape Properties_C01_bits.blocks_stream proves for the writer (block k starts at first + k * spd, full except
   the last, ceil(cnt * w / 8) bytes), holding the sample stream `stream`.  P = any predicate on reader states that
   ignores the ghost flag / fault code (first hypothesis) such that jls_core_rd_fsr_data0, from a P-state, for a sample
   id inside a block, returns 0 without reconstruction, flag or fault, in a P-state, with that block's DATA payload in
   core->buf (second hypothesis: timestamp, entry_count, entry_size_bits = w at offsets 0, 8, 12, the sample bytes
   from offset 16).  Then the loop that jls_core_fsr runs for the in-range window [start, start + len) (file sample id
   start + first, fuel S (8 * length dst) as in rdm_fsr) returns 0, raises nothing, and the caller's buffer holds the
   window: its first len * w bits are the samples' bits, the rest is untouched, and a zeroed buffer of the documented
   size becomes Spec.pack of the slice - the bytes of Spec.rd_window. *)
Theorem Reader_fsr_loop_window_partial :
  forall (recon : bool -> bool -> Z -> N -> N -> N -> list N) (f32_of_f64 : N -> N) (id w : N)
         (blocks : list (Z * N * list N)) (P : rdm_st -> Prop),
  (forall st st' : rdm_st, P st ->
     ((rp_buf (rdm_io st') = rp_buf (rdm_io st) /\ rp_buf_len (rdm_io st') = rp_buf_len (rdm_io st) /\
       rp_cur (rdm_io st') = rp_cur (rdm_io st) /\ rp_r (rdm_io st') = rp_r (rdm_io st) /\ rdm_tr st' = rdm_tr st /\
       rdm_c st' = rp_rd_set_io (rdm_c st) (rdm_io st')) /\
      rdm_len st' = rdm_len st /\ rdm_ick st' = rdm_ick st /\ rdm_ibuf st' = rdm_ibuf st /\ rdm_ilen st' = rdm_ilen st /\
      rdm_sck st' = rdm_sck st /\ rdm_sbuf st' = rdm_sbuf st /\ rdm_slen st' = rdm_slen st) -> P st') ->
  (forall (st : rdm_st) (sid ts : Z) (cnt : N) (payload : list N), P st ->
     fp_find_block blocks sid = Some (ts, cnt, payload) ->
     exists st' : rdm_st,
       rdm_rd_fsr_data0 recon f32_of_f64 st id sid = (st', 0, false) /\ P st' /\
       rdm_stale st' = rdm_stale st /\ rdm_flt st' = rdm_flt st /\
       (length (rp_payload (rdm_io st')) = N.to_nat (rp_buf_len (rdm_io st')) /\
        rp_buf_len (rdm_io st') = SIZEOF_payload_header + rp_len payload /\
        rp_buf_len (rdm_io st') <= JLS_BUF_DEFAULT_SIZE /\
        fm_i64_of_u64 (fm_dec (fm_sub 0 8 (rp_payload (rdm_io st')))) = ts /\
        fm_dec (fm_sub OFFSETOF_payload_entry_count 4 (rp_payload (rdm_io st'))) = cnt /\
        fm_dec (fm_sub OFFSETOF_payload_entry_size_bits 2 (rp_payload (rdm_io st'))) = w /\
        fm_sub SIZEOF_payload_header (rp_len payload) (rp_payload (rdm_io st')) = payload)) ->
  (forall (ts : Z) (cnt : N) (p : list N), In (ts, cnt, p) blocks ->
     (- rdm_two63 <= ts)%Z /\ (ts + Z.of_N cnt < rdm_two63)%Z /\ cnt < rdm_two32 /\ N.of_nat (length p) = (cnt * w + 7) / 8) ->
  0 < w ->
  forall (spd : N) (first : Z) (stream : list N) (st : rdm_st) (start len : Z) (dst : list N),
  P st -> 0 < spd ->
  (forall (k : nat) (ts : Z) (cnt : N) (p : list N), nth_error blocks k = Some (ts, cnt, p) ->
     ts = (first + Z.of_nat k * Z.of_N spd)%Z /\ 0 < cnt <= spd /\ ((S k < length blocks)%nat -> cnt = spd) /\
     N.of_nat (length p) = (cnt * w + 7) / 8 /\ Forall (fun b : N => b < 256) p) ->
  flat_map (fun '(_, cnt, p) => firstn (N.to_nat (cnt * w)) (bc_bits p)) blocks = flat_map (bits_of (N.to_nat w)) stream ->
  (0 <= start)%Z -> (0 < len)%Z -> (start + len <= Z.of_nat (length stream))%Z ->
  Z.to_N len * w <= 8 * N.of_nat (length dst) ->
  exists (st' : rdm_st) (pcs' : list rdm_piece) (out : list N),
    rdm_fsr_loop recon f32_of_f64 (S (8 * length dst)) st id w (start + first)%Z len dst 0 [] = (st', 0, out, pcs') /\
    P st' /\ rdm_stale st' = rdm_stale st /\ rdm_flt st' = rdm_flt st /\ length out = length dst /\
    firstn (N.to_nat (Z.to_N len * w)) (bc_bits out) =
      flat_map (bits_of (N.to_nat w)) (firstn (Z.to_nat len) (skipn (Z.to_nat start) stream)) /\
    skipn (N.to_nat (Z.to_N len * w)) (bc_bits out) = skipn (N.to_nat (Z.to_N len * w)) (bc_bits dst) /\
    (dst = repeat 0 (N.to_nat ((Z.to_N len * w + 7) / 8)) ->
     out = pack w (firstn (Z.to_nat len) (skipn (Z.to_nat start) stream))).
Proof. exact rdm_fsr_loop_window. Qed.
Print Assumptions Reader_fsr_loop_window_partial.

(* (c) jls_rd_fsr_length, jls_rd_fsr, jls_core_ts_seek never exhaust their fuel: from ANY state (no invariant needed),
   on any bytes, any request, any oracle.  (rdm_fsr takes S (8 * length dst) iterations at most.) *)
Theorem Reader_fsr_length_never_out_of_fuel : forall (st : rdm_st) id,
  rdm_flt (fst (fst (rdm_fsr_length st id))) = RpF_fuel -> rdm_flt st = RpF_fuel.
Proof. exact rdm_fsr_length_nofuel. Qed.
Print Assumptions Reader_fsr_length_never_out_of_fuel.
Theorem Reader_fsr_never_out_of_fuel : forall recon f32_of_f64 (st : rdm_st) id start dl dst,
  rdm_flt (fst (fst (fst (rdm_fsr recon f32_of_f64 st id start dl dst)))) = RpF_fuel -> rdm_flt st = RpF_fuel.
Proof. exact rdm_fsr_nofuel. Qed.
Print Assumptions Reader_fsr_never_out_of_fuel.
Theorem Reader_ts_seek_never_out_of_fuel : forall (st : rdm_st) id level tt t,
  rdm_flt (fst (rdm_ts_seek st id level tt t)) = RpF_fuel -> rdm_flt st = RpF_fuel.
Proof. exact rdm_ts_seek_nofuel. Qed.
Print Assumptions Reader_ts_seek_never_out_of_fuel.

(* (c) the chain walks get S (S (length f)) iterations; each iteration reads a chunk successfully.  Running out means:
   among the chunks the walk read (all inside the file, CRCs valid) some offset occurs twice - the chain is cyclic *)
Theorem Reader_user_data_out_of_fuel_is_a_cycle : forall (f : list N) (st : rdm_st) stopf st' rc items,
  let EV := (fun e : rdm_ev =>
    (length (fm_sub (rdm_ev_off e) 32 f) = 32%nat /\ fm_ch_crc_ok (fm_sub (rdm_ev_off e) 32 f) = true /\
     rdm_ev_hdr e = fm_ch_fields (fm_sub (rdm_ev_off e) 32 f)) /\
    rdm_ev_pay e = fm_sub (rdm_ev_off e + 32) (fm_payload_length (rdm_ev_hdr e)) f /\
    length (rdm_ev_pay e) = N.to_nat (fm_payload_length (rdm_ev_hdr e)) /\
    (fm_payload_length (rdm_ev_hdr e) <> 0 ->
       rdm_ev_off e + 32 + fm_disk_len (fm_payload_length (rdm_ev_hdr e)) <= N.of_nat (length f) /\
       crc32c (rdm_ev_pay e) = fm_dec (fm_sub (rdm_ev_off e + 32 + fm_disk_len (fm_payload_length (rdm_ev_hdr e)) - 4) 4 f))) in
  let INV := (fun st : rdm_st =>
    rp_file (rdm_io st) = f /\
    (rp_flen (rdm_io st) = rp_len (rp_file (rdm_io st)) /\
     (rp_r_valid (rp_r (rdm_io st)) = true ->
        length (fm_sub (rp_offset (rp_r (rdm_io st))) 32 (rp_file (rdm_io st))) = 32%nat /\
        fm_ch_crc_ok (fm_sub (rp_offset (rp_r (rdm_io st))) 32 (rp_file (rdm_io st))) = true /\
        rp_hdr (rp_r (rdm_io st)) = fm_ch_fields (fm_sub (rp_offset (rp_r (rdm_io st))) 32 (rp_file (rdm_io st))))) /\
    Forall EV (rdm_tr st)) in
  INV st -> rdm_flt st <> RpF_fuel -> rdm_user_data st stopf = (st', rc, items) -> rdm_flt st' = RpF_fuel ->
  exists walk, rdm_tr st' = walk ++ rdm_tr st /\ Forall EV walk /\ ~ NoDup (map rdm_ev_off walk).
Proof. exact rdm_user_data_fuel_cycle. Qed.
Print Assumptions Reader_user_data_out_of_fuel_is_a_cycle.
Theorem Reader_annotations_out_of_fuel_is_a_cycle : forall (f : list N) (st : rdm_st) id ts stopf st' rc items,
  let EV := (fun e : rdm_ev =>
    (length (fm_sub (rdm_ev_off e) 32 f) = 32%nat /\ fm_ch_crc_ok (fm_sub (rdm_ev_off e) 32 f) = true /\
     rdm_ev_hdr e = fm_ch_fields (fm_sub (rdm_ev_off e) 32 f)) /\
    rdm_ev_pay e = fm_sub (rdm_ev_off e + 32) (fm_payload_length (rdm_ev_hdr e)) f /\
    length (rdm_ev_pay e) = N.to_nat (fm_payload_length (rdm_ev_hdr e)) /\
    (fm_payload_length (rdm_ev_hdr e) <> 0 ->
       rdm_ev_off e + 32 + fm_disk_len (fm_payload_length (rdm_ev_hdr e)) <= N.of_nat (length f) /\
       crc32c (rdm_ev_pay e) = fm_dec (fm_sub (rdm_ev_off e + 32 + fm_disk_len (fm_payload_length (rdm_ev_hdr e)) - 4) 4 f))) in
  let INV := (fun st : rdm_st =>
    rp_file (rdm_io st) = f /\
    (rp_flen (rdm_io st) = rp_len (rp_file (rdm_io st)) /\
     (rp_r_valid (rp_r (rdm_io st)) = true ->
        length (fm_sub (rp_offset (rp_r (rdm_io st))) 32 (rp_file (rdm_io st))) = 32%nat /\
        fm_ch_crc_ok (fm_sub (rp_offset (rp_r (rdm_io st))) 32 (rp_file (rdm_io st))) = true /\
        rp_hdr (rp_r (rdm_io st)) = fm_ch_fields (fm_sub (rp_offset (rp_r (rdm_io st))) 32 (rp_file (rdm_io st))))) /\
    Forall EV (rdm_tr st)) in
  INV st -> rdm_flt st <> RpF_fuel -> rdm_annotations st id ts stopf = (st', rc, items) -> rdm_flt st' = RpF_fuel ->
  exists walk rest, rdm_tr st' = walk ++ rest ++ rdm_tr st /\ Forall EV walk /\ ~ NoDup (map rdm_ev_off walk).
Proof. exact rdm_annotations_fuel_cycle. Qed.
Print Assumptions Reader_annotations_out_of_fuel_is_a_cycle.
Theorem Reader_utc_out_of_fuel_is_a_cycle : forall (f : list N) (st : rdm_st) id sample_id stopf st' rc items,
  let EV := (fun e : rdm_ev =>
    (length (fm_sub (rdm_ev_off e) 32 f) = 32%nat /\ fm_ch_crc_ok (fm_sub (rdm_ev_off e) 32 f) = true /\
     rdm_ev_hdr e = fm_ch_fields (fm_sub (rdm_ev_off e) 32 f)) /\
    rdm_ev_pay e = fm_sub (rdm_ev_off e + 32) (fm_payload_length (rdm_ev_hdr e)) f /\
    length (rdm_ev_pay e) = N.to_nat (fm_payload_length (rdm_ev_hdr e)) /\
    (fm_payload_length (rdm_ev_hdr e) <> 0 ->
       rdm_ev_off e + 32 + fm_disk_len (fm_payload_length (rdm_ev_hdr e)) <= N.of_nat (length f) /\
       crc32c (rdm_ev_pay e) = fm_dec (fm_sub (rdm_ev_off e + 32 + fm_disk_len (fm_payload_length (rdm_ev_hdr e)) - 4) 4 f))) in
  let INV := (fun st : rdm_st =>
    rp_file (rdm_io st) = f /\
    (rp_flen (rdm_io st) = rp_len (rp_file (rdm_io st)) /\
     (rp_r_valid (rp_r (rdm_io st)) = true ->
        length (fm_sub (rp_offset (rp_r (rdm_io st))) 32 (rp_file (rdm_io st))) = 32%nat /\
        fm_ch_crc_ok (fm_sub (rp_offset (rp_r (rdm_io st))) 32 (rp_file (rdm_io st))) = true /\
        rp_hdr (rp_r (rdm_io st)) = fm_ch_fields (fm_sub (rp_offset (rp_r (rdm_io st))) 32 (rp_file (rdm_io st))))) /\
    Forall EV (rdm_tr st)) in
  INV st -> rdm_flt st <> RpF_fuel -> rdm_utc st id sample_id stopf = (st', rc, items) -> rdm_flt st' = RpF_fuel ->
  exists walk rest, rdm_tr st' = walk ++ rest ++ rdm_tr st /\ Forall EV walk /\ ~ NoDup (map rdm_ev_off walk).
Proof. exact rdm_utc_fuel_cycle. Qed.
Print Assumptions Reader_utc_out_of_fuel_is_a_cycle.

(* (c) refuted for the chain walks: rdm_ex_cycle (832 bytes: the file of wopen;wclose with item_next of the chunk at
   offset 32 set to 32, header CRC recomputed) opens without fault, and jls_rd_user_data reads the chunk at offset 32
   until the fuel is gone, delivering nothing.  The C loops forever on this file. *)
Theorem Reader_termination_refuted :
  exists (f : list N) (st : rdm_st), rdm_open f = RdmOpened st /\ rdm_flt st = 0 /\
    let '(st1, rc, items) := rdm_user_data st (fun _ => false) in
    rdm_flt st1 = RpF_fuel /\ items = [] /\
    length (rdm_tr st1) = rdm_chain_fuel st /\ forallb (fun e => rdm_ev_off e =? 32) (rdm_tr st1) = true.
Proof. exact rdm_termination_refuted. Qed.
Print Assumptions Reader_termination_refuted.

(* the hypotheses are satisfiable: rdm_ex_file (2704 bytes written by the C writer: one u8 signal with 70 samples, an
   annotation, two UTC entries, one user-data item) opens, satisfies the invariant, and the five calls succeed with
   nothing stale and no fault; jls_rd_fsr(1, 3, 40) returns the ramp 6..45 from two DATA chunks *)
Theorem Reader_example :
  let f := rdm_ex_file in
  let EV := (fun e : rdm_ev =>
    (length (fm_sub (rdm_ev_off e) 32 f) = 32%nat /\ fm_ch_crc_ok (fm_sub (rdm_ev_off e) 32 f) = true /\
     rdm_ev_hdr e = fm_ch_fields (fm_sub (rdm_ev_off e) 32 f)) /\
    rdm_ev_pay e = fm_sub (rdm_ev_off e + 32) (fm_payload_length (rdm_ev_hdr e)) f /\
    length (rdm_ev_pay e) = N.to_nat (fm_payload_length (rdm_ev_hdr e)) /\
    (fm_payload_length (rdm_ev_hdr e) <> 0 ->
       rdm_ev_off e + 32 + fm_disk_len (fm_payload_length (rdm_ev_hdr e)) <= N.of_nat (length f) /\
       crc32c (rdm_ev_pay e) = fm_dec (fm_sub (rdm_ev_off e + 32 + fm_disk_len (fm_payload_length (rdm_ev_hdr e)) - 4) 4 f))) in
  let INV := (fun st : rdm_st =>
    rp_file (rdm_io st) = f /\
    (rp_flen (rdm_io st) = rp_len (rp_file (rdm_io st)) /\
     (rp_r_valid (rp_r (rdm_io st)) = true ->
        length (fm_sub (rp_offset (rp_r (rdm_io st))) 32 (rp_file (rdm_io st))) = 32%nat /\
        fm_ch_crc_ok (fm_sub (rp_offset (rp_r (rdm_io st))) 32 (rp_file (rdm_io st))) = true /\
        rp_hdr (rp_r (rdm_io st)) = fm_ch_fields (fm_sub (rp_offset (rp_r (rdm_io st))) 32 (rp_file (rdm_io st))))) /\
    Forall EV (rdm_tr st)) in
  rdm_open rdm_ex_file = RdmOpened rdm_ex_st /\ rdm_flt rdm_ex_st = 0 /\
  INV rdm_ex_st /\ rdm_stale rdm_ex_st = false /\
  (let '(st1, rc1, len) := rdm_fsr_length rdm_ex_st 1 in
   let '(st2, rc2, out, pcs) := rdm_fsr rdm_ex_recon rdm_ex_f32 st1 1 3 40 (repeat 165 40) in
   rc1 = 0 /\ len = 70%Z /\ rc2 = 0 /\ out = map N.of_nat (seq 6 40) /\ length pcs = 2%nat /\
   map rdm_pc_omit pcs = [false; false] /\ rdm_stale st2 = false /\ rdm_flt st2 = 0 /\
   map rdm_ev_off (rdm_tr st2) = [1784; 1696; 2264; 2184; 2120; 2264; 2184]) /\
  (let '(st1, rc1, annos) := rdm_annotations rdm_ex_st 1 (-1000) rdm_ex_never in
   let '(st2, rc2, utcs) := rdm_utc st1 1 (-1000) rdm_ex_never in
   let '(st3, rc3, uds) := rdm_user_data st2 rdm_ex_never in
   rc1 = 0 /\ map rdm_an_ts annos = [1%Z] /\ map rdm_an_data annos = [[34; 64; 105; 0]] /\
   rc2 = 0 /\ utcs = [(0, 1000000000000); (10, 1000001048576)]%Z /\
   rc3 = 0 /\ map rdm_ud_meta uds = [17] /\ map (fun u => length (rdm_ud_data u)) uds = [5%nat] /\
   rdm_stale st3 = false /\ rdm_flt st3 = 0).
Proof. exact rdm_example_all. Qed.
Print Assumptions Reader_example.
