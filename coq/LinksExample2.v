(* The example program of Properties_e2e.v (E2eExample): the guards that Properties_links adds for K2 / K3 hold, by computation. *)
From Coq Require Import NArith ZArith List Bool.
From JLS Require Import Generated CrcDefs Spec Format WriteOnce WmRaw WmCore WmTs WmFsr WriterModel WmProofs WmWriteOnce WmWriteOnce4
  RefineLog RepairRaw ComposeExamples E2eLog E2eModel E2eTop E2eExample LinksCore LinksTop LinksRead LinksOpen LinksFold.
Import ListNotations.
Local Open Scope N_scope.

(* the signal list of the example file, as jls_core_scan_signals reads it *)
Definition lk_ex_R2 : list lk_ck :=
  let p := cx_p1 ++ WSig cx_sig :: cx_p2 in
  let f := e2_file wm_zero_summ1 wm_zero_summN p in
  map (lk_rl1 f) (filter (fun c => lk_key (rc_tag c) =? 2) (rf_chunks (wm_st_log (fst (wm_run_full wm_zero_summ1 wm_zero_summN p))))).

Lemma lk_Forall_b : forall (A : Type) (P : A -> bool) l, forallb (fun t => negb (P t)) l = true -> Forall (fun t => P t = false) l.
Proof.
  intros A P l H. apply Forall_forall. intros x Hx. rewrite forallb_forall in H. specialize (H x Hx). apply negb_true_iff in H. exact H.
Qed.

Lemma lk_ex_guards :
  let p := cx_p1 ++ WSig cx_sig :: cx_p2 in
  let csA := rf_chunks (wm_st_log (fst (wm_run_full wm_zero_summ1 wm_zero_summN p))) in
  let sid := sg_id cx_d in
  e2t_bigb (filter (fun c => negb (lk_key (rc_tag c) =? 0)) csA) = true /\
  forallb (fun c => (JLS_SOURCE_COUNT <=? rc_meta c) || (rp_source_parse (rc_pay c) =? 0))
          (filter (fun c => lk_key (rc_tag c) =? 1) csA) = true /\
  sg_dtype cx_d < 4294967296 /\ sg_rate cx_d < 4294967296 /\ sg_sdf cx_d < 4294967296 /\ sg_eps cx_d < 4294967296 /\
  sg_sumdf cx_d < 4294967296 /\ sg_adf cx_d < 4294967296 /\ sg_udf cx_d < 4294967296 /\
  (exists A tdef B thead C, lk_ex_R2 = A ++ tdef :: B ++ thead :: C /\
     Forall (fun t => lk_hit sid t = false) A /\ Forall (fun t => lk_hit sid t = false) B /\ Forall (fun t => lk_touch sid t = false) C /\
     fm_tag (lk_ck_hdr tdef) = JLS_TAG_SIGNAL_DEF /\ fm_chunk_meta (lk_ck_hdr tdef) = sid /\ lk_ck_pay tdef = wm_signal_payload cx_d /\
     fm_tag (lk_ck_hdr thead) = JLS_TAG_TRACK_FSR_HEAD /\ N.land (fm_chunk_meta (lk_ck_hdr thead)) CORE_SIGNAL_MASK = sid) /\
  Forall (fun t => lk_fsrhead_other sid t = true -> fm_dec_u64 (lk_ck_pay t) = 0) lk_ex_R2.
Proof.
  cbv zeta.
  split; [vm_compute; reflexivity|]. split; [vm_compute; reflexivity|].
  do 7 (split; [vm_compute; reflexivity|]).
  split.
  - exists (firstn 10 lk_ex_R2), (nth 10 lk_ex_R2 (0, wm_hdr0, [])), [nth 11 lk_ex_R2 (0, wm_hdr0, [])],
           (nth 12 lk_ex_R2 (0, wm_hdr0, [])), (skipn 13 lk_ex_R2).
    split; [vm_compute; reflexivity|].
    split; [apply lk_Forall_b; vm_compute; reflexivity|].
    split; [apply lk_Forall_b; vm_compute; reflexivity|].
    split; [apply lk_Forall_b; vm_compute; reflexivity|].
    vm_compute. repeat split.
  - assert (H : Forall (fun t => lk_fsrhead_other (sg_id cx_d) t = false) lk_ex_R2) by (apply lk_Forall_b; vm_compute; reflexivity).
    eapply Forall_impl; [|exact H]. intros t Ht Hc. rewrite Ht in Hc. discriminate.
Qed.


Lemma lk_ex_R2_eq : lk_ex_R2 =
  let p := cx_p1 ++ WSig cx_sig :: cx_p2 in
  let f := e2_file wm_zero_summ1 wm_zero_summN p in
  map (lk_rl1 f) (filter (fun c => lk_key (rc_tag c) =? 2) (rf_chunks (wm_st_log (fst (wm_run_full wm_zero_summ1 wm_zero_summN p))))).
Proof. reflexivity. Qed.

Lemma lk_ex_guards_v2 :
  let p := cx_p1 ++ WSig cx_sig :: cx_p2 in
  let csA := rf_chunks (wm_st_log (fst (wm_run_full wm_zero_summ1 wm_zero_summN p))) in
  let sid := sg_id cx_d in
  e2t_bigb (filter (fun c => negb (lk_key (rc_tag c) =? 0)) csA) = true /\
  forallb (fun c => (JLS_SOURCE_COUNT <=? rc_meta c) || (rp_source_parse (rc_pay c) =? 0))
          (filter (fun c => lk_key (rc_tag c) =? 1) csA) = true /\
  sg_dtype cx_d < 4294967296 /\ sg_rate cx_d < 4294967296 /\ sg_sdf cx_d < 4294967296 /\ sg_eps cx_d < 4294967296 /\
  sg_sumdf cx_d < 4294967296 /\ sg_adf cx_d < 4294967296 /\ sg_udf cx_d < 4294967296 /\
  (exists A tdef B thead C, lk_ex_R2 = A ++ tdef :: B ++ thead :: C /\
     Forall (fun t => lk_hit sid t = false) A /\ Forall (fun t => lk_hit sid t = false) B /\ Forall (fun t => lk_touch sid t = false) C /\
     fm_tag (lk_ck_hdr tdef) = JLS_TAG_SIGNAL_DEF /\ fm_chunk_meta (lk_ck_hdr tdef) = sid /\
     fm_tag (lk_ck_hdr thead) = JLS_TAG_TRACK_FSR_HEAD /\ N.land (fm_chunk_meta (lk_ck_hdr thead)) CORE_SIGNAL_MASK = sid) /\
  Forall (fun t => lk_fsrhead_other sid t = true -> fm_dec_u64 (lk_ck_pay t) = 0) lk_ex_R2.
Proof.
  destruct lk_ex_guards as (G1 & G2 & B1 & B2 & B4 & B5 & B6 & B7 & B8 & (A & tdef & B & thead & C & E & HA & HB & HC & Td & Md & _ & Th & Mh) & G4).
  cbv zeta. repeat (split; [assumption|]). split; [|exact G4].
  exists A, tdef, B, thead, C. auto 12.
Qed.
