(* Refinement glue, layer 0: the CHUNK VIEW of the byte-exact writer model's backend log.

   rf_scan log    a deterministic parser of a backend log (newest entry first, as WmRaw keeps it) into the
                  chunks APPENDED to the file: a 32-byte write at the current end of file (not offset 0) is a
                  chunk header; its tag, chunk_meta and payload_length are decoded from the bytes
                  (Format.fm_ch_fields); when payload_length <> 0 the next write (at offset + 32) is the payload.
                  Everything else (pad + CRC footers, in-place rewrites of item_next links and of TRACK_*_HEAD
                  tables, the file header at offset 0, fsync, truncate) is not a chunk.
   rf_chunks log  the chunks, oldest first.

   The lemmas below say what each operation of WmRaw / WmCore contributes to that view, under the
   invariant rf_rok (the writer is positioned at the end of the file, no fault, ghost header map consistent):
     rf_append_link      jls_raw_wr + jls_core_update_item_head  = exactly one more chunk
     rf_tbl_rewrite      the in-place head-table rewrite          = no chunk
     rf_core_wr_data / _index / _summary, rf_track_wr_def, rf_track_wr_head_first, rf_core_wr_end
   Definitions + proofs (glue file; nothing here changes a model). *)
From Coq Require Import NArith ZArith List Bool Lia.
From Coq Require Import ZifyBool ZifyN ZifyNat.
From JLS Require Import Generated CrcDefs Format FormatProofs WmRaw WmCore WmProofs.
Import ListNotations.
Local Open Scope N_scope.

(* ------------------------------------------------------------------ the parser *)
Record rf_chunk := { rc_off : N; rc_tag : N; rc_meta : N; rc_pay : list N }.

Record rf_pst := {
  rp_end : N;                          (* end of file so far *)
  rp_pend : option (N * N * N);        (* a header expecting its payload: offset, tag, meta *)
  rp_out : list rf_chunk }.            (* chunks, newest first *)

Definition rf_pst0 : rf_pst := {| rp_end := 0; rp_pend := None; rp_out := [] |}.

Definition rf_len (b : list N) : N := N.of_nat (length b).

Definition rf_step (s : rf_pst) (e : wm_entry) : rf_pst :=
  match e with
  | WmTrunc n => {| rp_end := n; rp_pend := None; rp_out := rp_out s |}
  | WmSync => s
  | WmWrite off b =>
    let e' := N.max (rp_end s) (off + rf_len b) in
    match rp_pend s with
    | Some (o, tag, meta) =>
      if off =? o + 32
      then {| rp_end := e'; rp_pend := None;
              rp_out := {| rc_off := o; rc_tag := tag; rc_meta := meta; rc_pay := b |} :: rp_out s |}
      else {| rp_end := e'; rp_pend := None; rp_out := rp_out s |}
    | None =>
      if (off =? rp_end s) && negb (off =? 0) && (rf_len b =? 32)
      then let h := fm_ch_fields b in
           if fm_payload_length h =? 0
           then {| rp_end := e'; rp_pend := None;
                   rp_out := {| rc_off := off; rc_tag := fm_tag h; rc_meta := fm_chunk_meta h; rc_pay := [] |} :: rp_out s |}
           else {| rp_end := e'; rp_pend := Some (off, fm_tag h, fm_chunk_meta h); rp_out := rp_out s |}
      else {| rp_end := e'; rp_pend := None; rp_out := rp_out s |}
    end
  end.

(* log: newest first *)
Fixpoint rf_scan (log : wm_log) : rf_pst :=
  match log with
  | [] => rf_pst0
  | e :: l => rf_step (rf_scan l) e
  end.

Definition rf_chunks (log : wm_log) : list rf_chunk := rev (rp_out (rf_scan log)).

(* ------------------------------------------------------------------ header fields back from the bytes *)
Lemma rf_fields_enc : forall h,
  fm_tag h < 256 -> fm_chunk_meta h < 65536 -> fm_payload_length h < 4294967296 ->
  let f := fm_ch_fields (fm_encode_chunk_header h) in
  fm_tag f = fm_tag h /\ fm_chunk_meta f = fm_chunk_meta h /\ fm_payload_length f = fm_payload_length h.
Proof.
  intros h Ht Hm Hl.
  unfold fm_encode_chunk_header, fm_chunk_header_body.
  set (c := crc32c _).
  rewrite <- (app_nil_r (fm_enc_u32 c)).
  edestruct (fm_ch_fields_app (fm_enc_u64 (fm_item_next h)) (fm_enc_u64 (fm_item_prev h)) (fm_enc_u8 (fm_tag h))
               (fm_enc_u8 (fm_rsv0 h)) (fm_enc_u16 (fm_chunk_meta h)) (fm_enc_u32 (fm_payload_length h))
               (fm_enc_u32 (fm_payload_prev_length h)) (fm_enc_u32 c) []) as (Hf & _);
    try apply fm_enc_length.
  cbv zeta. rewrite Hf. cbn [fm_tag fm_chunk_meta fm_payload_length].
  unfold fm_enc_u8, fm_enc_u16, fm_enc_u32.
  rewrite (fm_dec_enc 1) by exact Ht. rewrite (fm_dec_enc 2) by exact Hm. rewrite (fm_dec_enc 4) by exact Hl.
  repeat split.
Qed.

(* ------------------------------------------------------------------ the invariant of the raw layer *)
Definition rf_disk_ok (fend : N) (disk : list (N * fm_chunk_header)) : Prop :=
  forall o h, In (o, h) disk ->
    o <> 0 /\ o + fm_chunk_size (fm_payload_length h) <= fend /\ fm_tag h <> JLS_TAG_INVALID /\
    forall h', In (o, h') disk -> fm_payload_length h' = fm_payload_length h.

Definition rf_rok (r : wm_raw) : Prop :=
  wm_appending r /\ 32 <= wm_fend r /\
  rp_end (rf_scan (wm_rlog r)) = wm_fend r /\ rp_pend (rf_scan (wm_rlog r)) = None /\
  rf_disk_ok (wm_fend r) (wm_disk r).

(* a cached chunk (offset + header) of a list head: absent, or a header written at that offset *)
Definition rf_ref (r : wm_raw) (c : wm_chunk) : Prop :=
  wm_ck_offset c = 0 \/ In (wm_ck_offset c, wm_ck_hdr c) (wm_disk r).

(* r' extends r: more file, more headers, chunks only added *)
Definition rf_ext (r r' : wm_raw) : Prop :=
  wm_fend r <= wm_fend r' /\ incl (wm_disk r) (wm_disk r') /\
  exists new, rp_out (rf_scan (wm_rlog r')) = new ++ rp_out (rf_scan (wm_rlog r)).

Lemma rf_ext_refl : forall r, rf_ext r r.
Proof. intro r. split; [lia|]. split; [apply incl_refl|]. exists []. reflexivity. Qed.
Lemma rf_ext_trans : forall a b c, rf_ext a b -> rf_ext b c -> rf_ext a c.
Proof.
  intros a b c (H1 & H2 & n1 & H3) (H4 & H5 & n2 & H6). split; [lia|]. split; [eapply incl_tran; eauto|].
  exists (n2 ++ n1). rewrite H6, H3. apply app_assoc.
Qed.
Lemma rf_ref_ext : forall r r' c, rf_ext r r' -> rf_ref r c -> rf_ref r' c.
Proof. intros r r' c (_ & Hi & _) [H|H]; [left; exact H | right; apply Hi; exact H]. Qed.
Lemma rf_ref0 : forall r, rf_ref r wm_chunk0.
Proof. intro r. left. reflexivity. Qed.

Lemma rf_disk_get_in : forall d o h, wm_disk_get d o = Some h -> In (o, h) d.
Proof.
  induction d as [|[o' h'] d IH]; intros o h H; cbn in H; [discriminate|].
  destruct (N.eqb_spec o' o) as [->|Hne].
  - inversion H; subst. left. reflexivity.
  - right. apply IH. exact H.
Qed.
Lemma rf_disk_in_get : forall d o h, In (o, h) d -> exists h', wm_disk_get d o = Some h'.
Proof.
  induction d as [|[o' h'] d IH]; intros o h H; [destruct H|].
  cbn. destruct (N.eqb_spec o' o) as [->|Hne]; [eexists; reflexivity|].
  destruct H as [H|H]; [inversion H; subst; congruence|]. eapply IH; eauto.
Qed.

Lemma rf_chunk_size_pos : forall n, 32 <= fm_chunk_size n.
Proof. intro n. unfold fm_chunk_size, SIZEOF_chunk_header. lia. Qed.

(* ------------------------------------------------------------------ one chunk append *)
Lemma rf_mk_raw_eta : forall r, r = wm_mk_raw (wm_fpos r) (wm_fend r) (wm_offset r) (wm_hdr r) (wm_last_pl r) (wm_disk r) (wm_rlog r) (wm_fault r).
Proof. destruct r; reflexivity. Qed.

Lemma rf_scan_cons : forall e l, rf_scan (e :: l) = rf_step (rf_scan l) e.
Proof. reflexivity. Qed.

Lemma rf_footer_len : forall n c, rf_len (wm_footer n c) = fm_pad_len n + 4.
Proof. intros. unfold rf_len. apply wm_footer_length. Qed.

Lemma rf_disk_ok_put : forall fend fend' disk o h,
  rf_disk_ok fend disk -> fend <= fend' -> o <> 0 -> o + fm_chunk_size (fm_payload_length h) <= fend' ->
  fm_tag h <> JLS_TAG_INVALID ->
  (forall h', In (o, h') disk -> fm_payload_length h' = fm_payload_length h) ->
  rf_disk_ok fend' ((o, h) :: disk).
Proof.
  intros fend fend' disk o h Hd Hle Ho Hsz Ht Hag o1 h1 [Hin|Hin].
  - inversion Hin; subst o1 h1. split; [exact Ho|]. split; [exact Hsz|]. split; [exact Ht|].
    intros h' [H|H]; [inversion H; reflexivity | apply Hag; exact H].
  - destruct (Hd o1 h1 Hin) as (A & B & C & D). split; [exact A|]. split; [lia|]. split; [exact C|].
    intros h' [H|H]; [|apply D; exact H].
    inversion H; subst o1 h'. symmetry. apply Hag. exact Hin.
Qed.

(* the parser's step on the four kinds of write *)
Lemma rf_step_hdr : forall s off b,
  rp_pend s = None -> rp_end s = off -> off <> 0 -> length b = 32%nat ->
  rf_step s (WmWrite off b) =
  (let h := fm_ch_fields b in
   if fm_payload_length h =? 0
   then {| rp_end := off + 32; rp_pend := None;
           rp_out := {| rc_off := off; rc_tag := fm_tag h; rc_meta := fm_chunk_meta h; rc_pay := [] |} :: rp_out s |}
   else {| rp_end := off + 32; rp_pend := Some (off, fm_tag h, fm_chunk_meta h); rp_out := rp_out s |}).
Proof.
  intros s off b Hp He Ho Hl. unfold rf_step. rewrite Hp, He. unfold rf_len. rewrite Hl. change (N.of_nat 32) with 32.
  rewrite N.eqb_refl. destruct (N.eqb_spec off 0); [contradiction|]. cbn [negb andb N.eqb Pos.eqb].
  replace (N.max off (off + 32)) with (off + 32) by lia. reflexivity.
Qed.
Lemma rf_step_pay : forall s o tag meta b,
  rp_pend s = Some (o, tag, meta) -> rp_end s = o + 32 ->
  rf_step s (WmWrite (o + 32) b) =
  {| rp_end := o + 32 + rf_len b; rp_pend := None;
     rp_out := {| rc_off := o; rc_tag := tag; rc_meta := meta; rc_pay := b |} :: rp_out s |}.
Proof.
  intros s o tag meta b Hp He. unfold rf_step. rewrite Hp, He, N.eqb_refl. f_equal. lia.
Qed.
Lemma rf_step_skip : forall s off b,
  rp_pend s = None -> (off <> rp_end s \/ length b <> 32%nat) ->
  rf_step s (WmWrite off b) = {| rp_end := N.max (rp_end s) (off + rf_len b); rp_pend := None; rp_out := rp_out s |}.
Proof.
  intros s off b Hp Hc. unfold rf_step. rewrite Hp.
  destruct ((off =? rp_end s) && negb (off =? 0) && (rf_len b =? 32)) eqn:E; [|reflexivity].
  apply andb_true_iff in E as [E1 E3]. apply andb_true_iff in E1 as [E1 _].
  apply N.eqb_eq in E1, E3. unfold rf_len in E3. destruct Hc as [Hc|Hc]; [contradiction | lia].
Qed.

Lemma rf_raw_wr_chunk : forall r h payload,
  rf_rok r -> fm_tag h <> JLS_TAG_INVALID -> fm_tag h < 256 -> fm_chunk_meta h < 65536 ->
  fm_payload_length h = rf_len payload -> rf_len payload < 4294967296 ->
  let off := wm_fend r in
  let r1 := fst (wm_raw_wr r h payload) in
  let h1 := snd (wm_raw_wr r h payload) in
  rf_rok r1 /\ wm_fend r1 = off + fm_chunk_size (rf_len payload) /\
  rp_out (rf_scan (wm_rlog r1)) =
    {| rc_off := off; rc_tag := fm_tag h; rc_meta := fm_chunk_meta h; rc_pay := payload |} :: rp_out (rf_scan (wm_rlog r)) /\
  wm_disk r1 = (off, h1) :: wm_disk r /\
  h1 = wm_hdr_set_ppl h (wm_last_pl r).
Proof.
  intros r h payload (Ha & H32 & Hend & Hpend & Hdisk) Htag Ht Hm Hpl Hlen off r1 h1.
  assert (Hfpos : wm_fpos r = wm_fend r) by (destruct Ha as (_ & E & _); symmetry; exact E).
  set (hs := wm_hdr_set_ppl h (wm_last_pl r)).
  assert (Hf : let f := fm_ch_fields (fm_encode_chunk_header hs) in
               fm_tag f = fm_tag h /\ fm_chunk_meta f = fm_chunk_meta h /\ fm_payload_length f = rf_len payload).
  { pose proof (rf_fields_enc hs) as X. cbv zeta in X |- *.
    replace (fm_tag h) with (fm_tag hs) by reflexivity. replace (fm_chunk_meta h) with (fm_chunk_meta hs) by reflexivity.
    rewrite <- Hpl. replace (fm_payload_length h) with (fm_payload_length hs) by reflexivity.
    apply X; subst hs; cbn [fm_tag fm_chunk_meta fm_payload_length wm_hdr_set_ppl]; [exact Ht | exact Hm | rewrite Hpl; exact Hlen]. }
  cbv zeta in Hf. destruct Hf as (Hf1 & Hf2 & Hf3).
  assert (Hoff0 : off <> 0) by (subst off; lia).
  assert (Hnew : forall h', In (off, h') (wm_disk r) -> False).
  { intros h' Hin. destruct (Hdisk _ _ Hin) as (_ & B & _). pose proof (rf_chunk_size_pos (fm_payload_length h')). subst off. lia. }
  assert (S1 : rf_step (rf_scan (wm_rlog r)) (WmWrite off (fm_encode_chunk_header hs)) =
               if rf_len payload =? 0
               then {| rp_end := off + 32; rp_pend := None;
                       rp_out := {| rc_off := off; rc_tag := fm_tag h; rc_meta := fm_chunk_meta h; rc_pay := [] |} :: rp_out (rf_scan (wm_rlog r)) |}
               else {| rp_end := off + 32; rp_pend := Some (off, fm_tag h, fm_chunk_meta h); rp_out := rp_out (rf_scan (wm_rlog r)) |}).
  { rewrite (rf_step_hdr _ off _ Hpend Hend Hoff0 (fm_encode_chunk_header_length hs)). cbv zeta. rewrite Hf1, Hf2, Hf3. reflexivity. }
  destruct payload as [|b0 p'].
  - (* empty payload *)
    assert (Hpl0 : fm_payload_length h = 0) by (rewrite Hpl; reflexivity).
    pose proof (wm_raw_wr_append_empty r h Ha Hpl0 Htag) as Hw. cbv zeta in Hw.
    subst r1 h1. rewrite Hw. cbv [fst snd]. rewrite Hfpos in *. fold off. fold hs.
    unfold wm_mk_raw. change (rf_len []) with 0 in *. cbn [N.eqb] in S1.
    assert (Hscan : rf_scan (WmWrite off (fm_encode_chunk hs []) :: wm_rlog r) =
                    {| rp_end := off + 32; rp_pend := None;
                       rp_out := {| rc_off := off; rc_tag := fm_tag h; rc_meta := fm_chunk_meta h; rc_pay := [] |} :: rp_out (rf_scan (wm_rlog r)) |}).
    { rewrite rf_scan_cons. unfold fm_encode_chunk. cbn [fm_frame]. rewrite app_nil_r. exact S1. }
    assert (Hcs0 : fm_chunk_size 0 = 32) by reflexivity.
    assert (Hd' : rf_disk_ok (off + 32) ((off, hs) :: wm_disk r)).
    { apply rf_disk_ok_put with (fend := off); [exact Hdisk | lia | exact Hoff0 | | exact Htag | intros h' Hin; destruct (Hnew h' Hin)].
      subst hs. cbn [fm_payload_length wm_hdr_set_ppl]. rewrite Hpl0, Hcs0. lia. }
    unfold rf_rok, wm_appending. cbn [wm_fpos wm_fend wm_offset wm_fault wm_rlog wm_disk]. rewrite Hscan, Hcs0.
    cbn [rp_end rp_pend rp_out].
    split; [|split; [reflexivity|split; [reflexivity|split; reflexivity]]].
    split; [split; [reflexivity|split; reflexivity]|]. split; [lia|]. split; [reflexivity|]. split; [reflexivity|exact Hd'].
  - (* non-empty payload *)
    set (p := b0 :: p') in *.
    assert (Hne : p <> []) by discriminate.
    assert (Hpl' : fm_payload_length h = N.of_nat (length p)) by exact Hpl.
    destruct (wm_raw_wr_append_nonempty r h p Ha Hpl' Hne Htag) as [Hw _]. cbv zeta in Hw.
    subst r1 h1. rewrite Hw. cbv [fst snd]. rewrite Hfpos in *. fold off. fold hs.
    change (N.of_nat (length p)) with (rf_len p) in *.
    assert (Hlp : rf_len p <> 0) by (unfold rf_len; subst p; cbn [length]; lia).
    assert (Hsz : fm_chunk_size (rf_len p) = 32 + rf_len p + (fm_pad_len (rf_len p) + 4)).
    { unfold fm_chunk_size, fm_disk_len. destruct (N.eqb_spec (rf_len p) 0); [contradiction|].
      unfold SIZEOF_chunk_header, RAW_CRC_SIZE. lia. }
    destruct (N.eqb_spec (rf_len p) 0) as [|_]; [contradiction|].
    assert (Hscan : rf_scan (WmWrite (off + 32 + rf_len p) (wm_footer (rf_len p) (crc32c p))
                             :: WmWrite (off + 32) p :: WmWrite off (fm_encode_chunk_header hs) :: wm_rlog r)
                    = {| rp_end := off + fm_chunk_size (rf_len p); rp_pend := None;
                         rp_out := {| rc_off := off; rc_tag := fm_tag h; rc_meta := fm_chunk_meta h; rc_pay := p |}
                                   :: rp_out (rf_scan (wm_rlog r)) |}).
    { rewrite 3 rf_scan_cons. rewrite S1.
      rewrite (rf_step_pay {| rp_end := off + 32; rp_pend := Some (off, fm_tag h, fm_chunk_meta h); rp_out := rp_out (rf_scan (wm_rlog r)) |} off (fm_tag h) (fm_chunk_meta h) p eq_refl eq_refl).
      rewrite rf_step_skip; cbn [rp_pend rp_end rp_out].
      - rewrite rf_footer_len. f_equal. rewrite Hsz. lia.
      - reflexivity.
      - right. pose proof (rf_footer_len (rf_len p) (crc32c p)) as X. unfold rf_len at 1 in X.
        pose proof (fm_pad_len_lt (rf_len p)). lia. }
    unfold wm_mk_raw.
    assert (Hd' : rf_disk_ok (off + fm_chunk_size (rf_len p)) ((off, hs) :: wm_disk r)).
    { apply rf_disk_ok_put with (fend := off); [exact Hdisk | pose proof (rf_chunk_size_pos (rf_len p)); lia | exact Hoff0 | | exact Htag | intros h' Hin; destruct (Hnew h' Hin)].
      subst hs. cbn [fm_payload_length wm_hdr_set_ppl]. rewrite Hpl. lia. }
    unfold rf_rok, wm_appending. cbn [wm_fpos wm_fend wm_offset wm_fault wm_rlog wm_disk]. rewrite Hscan.
    cbn [rp_end rp_pend rp_out].
    split; [|split; [reflexivity|split; [reflexivity|split; reflexivity]]].
    split; [split; [reflexivity|split; reflexivity]|]. split; [pose proof (rf_chunk_size_pos (rf_len p)); lia|].
    split; [reflexivity|]. split; [reflexivity|exact Hd'].
Qed.

(* ------------------------------------------------------------------ the link rewrite *)
Lemma rf_chunk_seek_eq : forall fpos fend off hdr lpl disk log flt o, o <> 0 ->
  wm_raw_chunk_seek (wm_mk_raw fpos fend off hdr lpl disk log flt) o =
  wm_mk_raw o fend o (wm_hdr_set_tag hdr JLS_TAG_INVALID) lpl disk log flt.
Proof.
  intros. unfold wm_raw_chunk_seek. destruct (N.eqb_spec o 0); [contradiction|]. reflexivity.
Qed.
Lemma rf_wr_header_rewrite_eq : forall o fend hdr lpl disk log flt h, o < fend ->
  wm_raw_wr_header (wm_mk_raw o fend o hdr lpl disk log flt) h =
  (wm_mk_raw (o + 32) (N.max fend (o + 32)) o h lpl ((o, h) :: disk) (WmWrite o (fm_encode_chunk_header h) :: log) flt, h).
Proof.
  intros. unfold wm_raw_wr_header, wm_mk_raw. cbn [wm_fpos wm_fend wm_offset wm_hdr wm_last_pl wm_disk wm_rlog wm_fault].
  destruct (N.leb_spec fend o); [lia|]. rewrite N.eqb_refl.
  unfold wm_bk_fwrite, wm_disk_put, wm_set_hdr. cbn [wm_fpos wm_fend wm_offset wm_hdr wm_last_pl wm_disk wm_rlog wm_fault].
  rewrite fm_encode_chunk_header_length. reflexivity.
Qed.

Lemma rf_update_item_head : forall r head next,
  rf_rok r -> rf_ref r head ->
  let r2 := fst (wm_update_item_head r head next) in
  rf_rok r2 /\ wm_fend r2 = wm_fend r /\ rp_out (rf_scan (wm_rlog r2)) = rp_out (rf_scan (wm_rlog r)) /\
  incl (wm_disk r) (wm_disk r2) /\ snd (wm_update_item_head r head next) = next.
Proof.
  intros r head next Hok Href r2. subst r2. unfold wm_update_item_head.
  destruct (N.eqb_spec (wm_ck_offset head) 0) as [E0|Hne].
  - cbn [fst snd]. split; [exact Hok|]. split; [reflexivity|]. split; [reflexivity|]. split; [apply incl_refl|reflexivity].
  - destruct Href as [E|Hin]; [contradiction|].
    destruct Hok as (Ha & H32 & Hend & Hpend & Hdisk).
    destruct (Hdisk _ _ Hin) as (_ & Hsz & Htag & Hag).
    set (o := wm_ck_offset head) in *.
    pose proof (rf_chunk_size_pos (fm_payload_length (wm_ck_hdr head))) as Hcs.
    rewrite (wm_appending_inv r Ha). unfold wm_raw_chunk_tell.
    change (wm_offset (wm_mk_raw (wm_fpos r) (wm_fpos r) (wm_fpos r) (wm_hdr r) (wm_last_pl r) (wm_disk r) (wm_rlog r) false)) with (wm_fpos r).
    destruct Ha as (Hoff & Hfe & Hflt). rewrite Hfe in *.
    set (a := wm_fpos r) in *.
    rewrite rf_chunk_seek_eq by exact Hne.
    rewrite rf_wr_header_rewrite_eq by lia. cbv beta iota.
    rewrite rf_chunk_seek_eq by lia. cbn [fst snd].
    replace (N.max a (o + 32)) with a by lia.
    assert (Hscan : rf_scan (WmWrite o (fm_encode_chunk_header (wm_hdr_set_next (wm_ck_hdr head) (wm_ck_offset next))) :: wm_rlog r)
                    = rf_scan (wm_rlog r)).
    { rewrite rf_scan_cons. rewrite rf_step_skip; [|exact Hpend|left; rewrite Hend; lia].
      unfold rf_len. rewrite fm_encode_chunk_header_length. change (N.of_nat 32) with 32. rewrite Hend.
      replace (N.max a (o + 32)) with a by lia.
      destruct (rf_scan (wm_rlog r)) as [e p out]. cbn [rp_end rp_pend rp_out] in *. subst. reflexivity. }
    unfold rf_rok, wm_appending, wm_mk_raw. cbn [wm_fpos wm_fend wm_offset wm_hdr wm_last_pl wm_disk wm_rlog wm_fault]. rewrite Hscan.
    split; [|split; [reflexivity|split; [reflexivity|split; [apply incl_tl, incl_refl|reflexivity]]]].
    split; [split; [reflexivity|split; reflexivity]|]. split; [lia|]. split; [exact Hend|]. split; [exact Hpend|].
    apply rf_disk_ok_put with (fend := a); [exact Hdisk | lia | exact Hne | exact Hsz | exact Htag | exact Hag].
Qed.

(* jls_raw_wr of a fresh header followed by the link update of its list *)
Lemma rf_append_link : forall r head prev tag meta payload,
  rf_rok r -> rf_ref r head ->
  tag <> JLS_TAG_INVALID -> tag < 256 -> meta < 65536 -> rf_len payload < 4294967296 ->
  let off := wm_raw_chunk_tell r in
  let h := wm_mk_hdr prev tag meta (rf_len payload) in
  let r1 := fst (wm_raw_wr r h payload) in
  let h1 := snd (wm_raw_wr r h payload) in
  let r2 := fst (wm_update_item_head r1 head {| wm_ck_offset := off; wm_ck_hdr := h1 |}) in
  rf_rok r2 /\ off = wm_fend r /\ wm_fend r2 = wm_fend r + fm_chunk_size (rf_len payload) /\
  rp_out (rf_scan (wm_rlog r2)) = {| rc_off := off; rc_tag := tag; rc_meta := meta; rc_pay := payload |} :: rp_out (rf_scan (wm_rlog r)) /\
  snd (wm_update_item_head r1 head {| wm_ck_offset := off; wm_ck_hdr := h1 |}) = {| wm_ck_offset := off; wm_ck_hdr := h1 |} /\
  In (off, h1) (wm_disk r2) /\ fm_payload_length h1 = rf_len payload /\ incl (wm_disk r) (wm_disk r2).
Proof.
  intros r head prev tag meta payload Hok Href Htag Ht Hm Hlen off h r1 h1 r2.
  assert (Hoff : off = wm_fend r).
  { subst off. unfold wm_raw_chunk_tell. destruct Hok as ((A & B & _) & _). congruence. }
  destruct (rf_raw_wr_chunk r h payload Hok) as (Hok1 & Hfe1 & Hout1 & Hd1 & Hh1);
    try (subst h; cbn [wm_mk_hdr fm_tag fm_chunk_meta fm_payload_length]; first [assumption | reflexivity]).
  fold r1 in Hok1, Hfe1, Hout1, Hd1. fold h1 in Hd1, Hh1. rewrite <- Hoff in *.
  assert (Href1 : rf_ref r1 head).
  { destruct Href as [E|Hin]; [left; exact E | right; rewrite Hd1; right; exact Hin]. }
  destruct (rf_update_item_head r1 head {| wm_ck_offset := off; wm_ck_hdr := h1 |} Hok1 Href1) as (Hok2 & Hfe2 & Hout2 & Hi2 & Hs2).
  fold r2 in Hok2, Hfe2, Hout2, Hi2.
  split; [exact Hok2|]. split; [reflexivity|]. split; [rewrite Hfe2, Hfe1; reflexivity|].
  split; [rewrite Hout2, Hout1; subst h; reflexivity|]. split; [exact Hs2|].
  split; [apply Hi2; rewrite Hd1; left; reflexivity|].
  split; [rewrite Hh1; subst h; reflexivity|].
  eapply incl_tran; [|exact Hi2]. rewrite Hd1. apply incl_tl, incl_refl.
Qed.

(* ------------------------------------------------------------------ the in-place rewrite of a TRACK_*_HEAD table *)
Lemma rf_pad_128 : fm_pad_len 128 = 4.
Proof. reflexivity. Qed.

Lemma rf_tbl_rewrite : forall r o h payload,
  rf_rok r -> o <> 0 -> In (o, h) (wm_disk r) -> fm_payload_length h = 128 -> length payload = 128%nat ->
  let r' := wm_raw_chunk_seek (wm_raw_wr_payload (wm_raw_chunk_seek r o) SIZEOF_track_head payload) (wm_raw_chunk_tell r) in
  rf_rok r' /\ wm_fend r' = wm_fend r /\ rp_out (rf_scan (wm_rlog r')) = rp_out (rf_scan (wm_rlog r)) /\
  wm_disk r' = wm_disk r.
Proof.
  intros r o h payload (Ha & H32 & Hend & Hpend & Hdisk) Ho Hin Hpl Hlen r'. subst r'.
  destruct (Hdisk _ _ Hin) as (_ & Hsz & Htag & Hag).
  destruct (rf_disk_in_get _ _ _ Hin) as (h' & Hget).
  pose proof (rf_disk_get_in _ _ _ Hget) as Hin'.
  assert (Hpl' : fm_payload_length h' = 128) by (rewrite (Hag _ Hin'); exact Hpl).
  destruct (Hdisk _ _ Hin') as (_ & _ & Htag' & _).
  assert (Hcs : fm_chunk_size 128 = 168) by reflexivity.
  rewrite Hpl, Hcs in Hsz.
  rewrite (wm_appending_inv r Ha). unfold wm_raw_chunk_tell.
  change (wm_offset (wm_mk_raw (wm_fpos r) (wm_fpos r) (wm_fpos r) (wm_hdr r) (wm_last_pl r) (wm_disk r) (wm_rlog r) false)) with (wm_fpos r).
  destruct Ha as (Hoff & Hfe & Hflt). rewrite Hfe in *.
  set (a := wm_fpos r) in *.
  rewrite rf_chunk_seek_eq by exact Ho.
  assert (Hw : wm_raw_wr_payload (wm_mk_raw o a o (wm_hdr_set_tag (wm_hdr r) JLS_TAG_INVALID) (wm_last_pl r) (wm_disk r) (wm_rlog r) false)
                                 SIZEOF_track_head payload
               = wm_mk_raw (o + 168) a o h' (if a <=? o + 168 then 128 else wm_last_pl r) (wm_disk r)
                           (WmWrite (o + 160) (wm_footer 128 (crc32c payload)) :: WmWrite (o + 32) payload :: wm_rlog r) false).
  { unfold wm_raw_wr_payload, wm_raw_rd_header, wm_hdr_valid, wm_mk_raw.
    cbn [wm_fpos wm_fend wm_offset wm_hdr wm_last_pl wm_disk wm_rlog wm_fault fm_tag wm_hdr_set_tag].
    change (JLS_TAG_INVALID =? JLS_TAG_INVALID) with true. cbn [negb].
    destruct (N.leb_spec a o); [lia|]. rewrite N.eqb_refl.
    unfold wm_set_offset. cbn [wm_fpos wm_fend wm_offset wm_hdr wm_last_pl wm_disk wm_rlog wm_fault].
    rewrite Hget.
    unfold wm_set_fpos, wm_set_hdr. cbn [wm_fpos wm_fend wm_offset wm_hdr wm_last_pl wm_disk wm_rlog wm_fault].
    change (SIZEOF_track_head =? 0) with false. cbv iota.
    rewrite Hpl'. rewrite Hlen. change (N.of_nat 128 <? 128) with false. cbv iota.
    change (N.to_nat 128) with 128%nat. rewrite (firstn_all2 payload) by lia.
    unfold wm_bk_fwrite. cbn [wm_fpos wm_fend wm_offset wm_hdr wm_last_pl wm_disk wm_rlog wm_fault].
    rewrite Hlen.
    assert (Hfl : N.of_nat (length (wm_footer 128 (crc32c payload))) = 8) by (rewrite wm_footer_length; reflexivity).
    rewrite Hfl. change (SIZEOF_chunk_header) with 32. change (N.of_nat 128) with 128.
    replace (o + 32 + 128) with (o + 160) by lia. replace (o + 160 + 8) with (o + 168) by lia.
    replace (N.max (N.max a (o + 160)) (o + 168)) with a by lia.
    unfold wm_set_last_pl. cbn [wm_fpos wm_fend wm_offset wm_hdr wm_last_pl wm_disk wm_rlog wm_fault].
    change SIZEOF_track_head with 128.
    destruct (a <=? o + 168); reflexivity. }
  rewrite Hw. rewrite rf_chunk_seek_eq by lia.
  assert (Hscan : rf_scan (WmWrite (o + 160) (wm_footer 128 (crc32c payload)) :: WmWrite (o + 32) payload :: wm_rlog r) = rf_scan (wm_rlog r)).
  { rewrite 2 rf_scan_cons.
    assert (S1 : rf_step (rf_scan (wm_rlog r)) (WmWrite (o + 32) payload) = rf_scan (wm_rlog r)).
    { rewrite rf_step_skip; [|exact Hpend|left; rewrite Hend; lia].
      unfold rf_len. rewrite Hlen, Hend. change (N.of_nat 128) with 128. replace (N.max a (o + 32 + 128)) with a by lia.
      destruct (rf_scan (wm_rlog r)) as [e p out]. cbn [rp_end rp_pend rp_out] in *. subst. reflexivity. }
    rewrite S1. rewrite rf_step_skip; [|exact Hpend|left; rewrite Hend; lia].
    rewrite rf_footer_len, rf_pad_128, Hend. replace (N.max a (o + 160 + (4 + 4))) with a by lia.
    destruct (rf_scan (wm_rlog r)) as [e p out]. cbn [rp_end rp_pend rp_out] in *. subst. reflexivity. }
  unfold rf_rok, wm_appending, wm_mk_raw. cbn [wm_fpos wm_fend wm_offset wm_hdr wm_last_pl wm_disk wm_rlog wm_fault]. rewrite Hscan.
  split; [|split; [reflexivity|split; reflexivity]].
  split; [split; [reflexivity|split; reflexivity]|]. split; [exact H32|]. split; [exact Hend|]. split; [exact Hpend|exact Hdisk].
Qed.

(* ------------------------------------------------------------------ WmCore: base, tracks *)
Definition rf_bok (b : wm_base) : Prop :=
  rf_rok (wm_b_raw b) /\ rf_ref (wm_b_raw b) (wm_b_source_head b) /\ rf_ref (wm_b_raw b) (wm_b_signal_head b) /\
  rf_ref (wm_b_raw b) (wm_b_ud_head b).

(* a track whose TRACK_*_HEAD chunk exists (after jls_wr_signal_def) *)
Definition rf_tok (r : wm_raw) (t : wm_track) : Prop :=
  rf_ref r (wm_tk_data_head t) /\ Forall (rf_ref r) (wm_tk_index_head t) /\ Forall (rf_ref r) (wm_tk_summary_head t) /\
  length (wm_tk_offsets t) = 16%nat /\ wm_tk_type t < 4 /\
  wm_ck_offset (wm_tk_head t) <> 0 /\ In (wm_ck_offset (wm_tk_head t), wm_ck_hdr (wm_tk_head t)) (wm_disk r) /\
  fm_payload_length (wm_ck_hdr (wm_tk_head t)) = 128.

Lemma rf_tok_ext : forall r r' t, rf_ext r r' -> rf_tok r t -> rf_tok r' t.
Proof.
  intros r r' t He (A & B & C & D & E & F & G & H).
  split; [eapply rf_ref_ext; eauto|]. split; [eapply Forall_impl; [|exact B]; intros; eapply rf_ref_ext; eauto|].
  split; [eapply Forall_impl; [|exact C]; intros; eapply rf_ref_ext; eauto|].
  split; [exact D|]. split; [exact E|]. split; [exact F|]. split; [|exact H]. destruct He as (_ & Hi & _). apply Hi. exact G.
Qed.

Lemma rf_Forall_upd : forall (A : Type) (P : A -> Prop) n x l, Forall P l -> P x -> Forall P (wm_upd n x l).
Proof.
  intros A P n x l H Hx. revert n. induction H as [|y l Hy Hl IH]; intros n; [destruct n; constructor|].
  cbn [wm_upd]. destruct n; constructor; auto.
Qed.
Lemma rf_upd_length : forall (A : Type) n (x : A) l, length (wm_upd n x l) = length l.
Proof. intros A n x l. revert n. induction l as [|y l IH]; intros n; [destruct n; reflexivity|]. destruct n; cbn [wm_upd length]; auto. Qed.
Lemma rf_Forall_get : forall r l level, Forall (rf_ref r) l -> rf_ref r (wm_get_chunk l level).
Proof.
  intros r l level H. unfold wm_get_chunk.
  destruct (nth_in_or_default (N.to_nat level) l wm_chunk0) as [Hin|E]; [|rewrite E; apply rf_ref0].
  rewrite Forall_forall in H. apply H. exact Hin.
Qed.
Lemma rf_nth_upd_eq : forall (A : Type) n (x d : A) l, (n < length l)%nat -> nth n (wm_upd n x l) d = x.
Proof. intros A n x d l. revert n. induction l as [|y l IH]; intros n H; cbn [length] in H; [lia|]. destruct n; cbn [wm_upd nth]; [reflexivity|]. apply IH. lia. Qed.
Lemma rf_nth_upd_neq : forall (A : Type) n m (x d : A) l, n <> m -> nth m (wm_upd n x l) d = nth m l d.
Proof.
  intros A n m x d l. revert n m. induction l as [|y l IH]; intros n m H; [destruct n; reflexivity|].
  destruct n, m; cbn [wm_upd nth]; try reflexivity; try congruence. apply IH. congruence.
Qed.

Lemma rf_track_tag_ok : forall ty k, ty < 4 -> k <= JLS_TRACK_CHUNK_SUMMARY ->
  fm_track_tag ty k <> JLS_TAG_INVALID /\ fm_track_tag ty k < 256.
Proof.
  intros ty k Hty Hk. unfold JLS_TRACK_CHUNK_SUMMARY in Hk.
  assert (Ety : ty = 0 \/ ty = 1 \/ ty = 2 \/ ty = 3) by lia.
  assert (Ek : k = 0 \/ k = 1 \/ k = 2 \/ k = 3 \/ k = 4) by lia.
  destruct Ety as [-> | [-> | [-> | ->]]]; destruct Ek as [-> | [-> | [-> | [-> | ->]]]]; vm_compute; split; congruence.
Qed.
Lemma rf_meta_lt : forall id level, wm_meta id level < 65536.
Proof. intros. unfold wm_meta. apply N.mod_lt. discriminate. Qed.

Lemma rf_head_payload_length : forall l, length l = 16%nat -> length (wm_head_payload l) = 128%nat.
Proof.
  intros l H. unfold wm_head_payload.
  do 16 (destruct l as [|? l]; [discriminate H|]). destruct l; [|discriminate H].
  cbn [flat_map]. rewrite !app_length. unfold fm_enc_u64. rewrite !fm_enc_length. reflexivity.
Qed.

(* jls_track_wr_head on a track whose HEAD chunk exists: a rewrite in place, no chunk *)
Lemma rf_track_wr_head_rewrite : forall b sid t,
  rf_bok b -> rf_tok (wm_b_raw b) t ->
  let b' := fst (wm_track_wr_head b sid t) in
  snd (wm_track_wr_head b sid t) = t /\
  rf_bok b' /\ wm_fend (wm_b_raw b') = wm_fend (wm_b_raw b) /\
  rp_out (rf_scan (wm_rlog (wm_b_raw b'))) = rp_out (rf_scan (wm_rlog (wm_b_raw b))) /\
  wm_disk (wm_b_raw b') = wm_disk (wm_b_raw b) /\
  wm_b_source_head b' = wm_b_source_head b /\ wm_b_signal_head b' = wm_b_signal_head b /\ wm_b_ud_head b' = wm_b_ud_head b.
Proof.
  intros b sid t (Hr & H1 & H2 & H3) (A & B & C & D & E & F & G & H) b'. subst b'.
  unfold wm_track_wr_head. destruct (N.eqb_spec (wm_ck_offset (wm_tk_head t)) 0) as [E0|_]; [contradiction|].
  cbn [fst snd].
  destruct (rf_tbl_rewrite (wm_b_raw b) _ _ (wm_head_payload (wm_tk_offsets t)) Hr F G H (rf_head_payload_length _ D))
    as (Hr' & Hfe & Hout & Hd).
  split; [reflexivity|].
  split. { unfold rf_bok, rf_ref. cbn [wm_b_raw wm_b_set_raw wm_b_source_head wm_b_signal_head wm_b_ud_head].
           rewrite Hd. split; [exact Hr'|]. split; [exact H1|]. split; [exact H2|exact H3]. }
  cbn [wm_b_raw wm_b_set_raw wm_b_source_head wm_b_signal_head wm_b_ud_head].
  split; [exact Hfe|]. split; [exact Hout|]. split; [exact Hd|]. split; [reflexivity|]. split; reflexivity.
Qed.

Lemma rf_ext_of : forall r r' new, wm_fend r <= wm_fend r' -> incl (wm_disk r) (wm_disk r') ->
  rp_out (rf_scan (wm_rlog r')) = new ++ rp_out (rf_scan (wm_rlog r)) -> rf_ext r r'.
Proof. intros r r' new A B C. split; [exact A|]. split; [exact B|]. exists new. exact C. Qed.

(* jls_core_wr_data *)
Lemma rf_core_wr_data : forall b sid t payload,
  rf_bok b -> rf_tok (wm_b_raw b) t -> rf_len payload < 4294967296 ->
  let off := wm_fend (wm_b_raw b) in
  let b' := fst (wm_core_wr_data b sid t payload (rf_len payload)) in
  let t' := snd (wm_core_wr_data b sid t payload (rf_len payload)) in
  rf_bok b' /\ rf_tok (wm_b_raw b') t' /\ rf_ext (wm_b_raw b) (wm_b_raw b') /\
  wm_raw_chunk_tell (wm_b_raw b) = off /\
  wm_fend (wm_b_raw b') = off + fm_chunk_size (rf_len payload) /\
  rp_out (rf_scan (wm_rlog (wm_b_raw b'))) =
    {| rc_off := off; rc_tag := fm_track_tag (wm_tk_type t) JLS_TRACK_CHUNK_DATA; rc_meta := wm_meta sid 0; rc_pay := payload |}
    :: rp_out (rf_scan (wm_rlog (wm_b_raw b))) /\
  wm_ck_offset (wm_tk_data_head t') = off /\
  wm_tk_offsets t' = (if wm_get_off (wm_tk_offsets t) 0 =? 0 then wm_upd 0 off (wm_tk_offsets t) else wm_tk_offsets t) /\
  wm_tk_index_head t' = wm_tk_index_head t /\ wm_tk_summary_head t' = wm_tk_summary_head t /\
  wm_tk_head t' = wm_tk_head t /\ wm_tk_type t' = wm_tk_type t /\
  wm_b_source_head b' = wm_b_source_head b /\ wm_b_signal_head b' = wm_b_signal_head b /\ wm_b_ud_head b' = wm_b_ud_head b.
Proof.
  intros b sid t payload Hb Ht Hlen off b' t'.
  destruct Hb as (Hr & H1 & H2 & H3). pose proof Ht as (A & B & C & D & E & F & G & H).
  destruct (rf_track_tag_ok (wm_tk_type t) JLS_TRACK_CHUNK_DATA E) as (Htag0 & Htag); [unfold JLS_TRACK_CHUNK_DATA, JLS_TRACK_CHUNK_SUMMARY; lia|].
  pose proof (rf_append_link (wm_b_raw b) (wm_tk_data_head t) (wm_ck_offset (wm_tk_data_head t))
                (fm_track_tag (wm_tk_type t) JLS_TRACK_CHUNK_DATA) (wm_meta sid 0) payload Hr A Htag0 Htag (rf_meta_lt _ _) Hlen) as X.
  cbv zeta in X. destruct X as (Hr2 & Hoff & Hfe2 & Hout2 & Hnh & Hin2 & Hpl2 & Hi2).
  subst b' t'. unfold wm_core_wr_data.
  destruct (wm_raw_wr (wm_b_raw b) _ payload) as [r1 h1] eqn:Ew. cbn [fst snd] in *.
  destruct (wm_update_item_head r1 (wm_tk_data_head t) _) as [r2 dh] eqn:Eu. cbn [fst snd] in *. subst dh.
  fold off in Hoff. rewrite Hoff in *.
  set (t1 := wm_tk_set_data_head t {| wm_ck_offset := off; wm_ck_hdr := h1 |}).
  set (b1 := wm_b_set_raw b r2).
  assert (Hext1 : rf_ext (wm_b_raw b) r2).
  { eapply rf_ext_of with (new := [_]); [pose proof (rf_chunk_size_pos (rf_len payload)); lia | exact Hi2 | exact Hout2]. }
  assert (Hb1 : rf_bok b1).
  { subst b1. unfold rf_bok. cbn [wm_b_raw wm_b_set_raw wm_b_source_head wm_b_signal_head wm_b_ud_head].
    split; [exact Hr2|]. split; [eapply rf_ref_ext; eauto|]. split; eapply rf_ref_ext; eauto. }
  assert (Ht1 : forall offs, length offs = 16%nat -> rf_tok r2 (wm_tk_set_offsets t1 offs)).
  { intros offs Hl. pose proof (rf_tok_ext _ _ _ Hext1 Ht) as (A' & B' & C' & D' & E' & F' & G' & H').
    subst t1. unfold rf_tok. cbn [wm_tk_set_offsets wm_tk_set_data_head wm_tk_data_head wm_tk_index_head wm_tk_summary_head wm_tk_offsets wm_tk_type wm_tk_head].
    split; [right; exact Hin2|]. repeat (split; [assumption|]). assumption. }
  fold t1. fold b1.
  assert (Eo : wm_tk_offsets t1 = wm_tk_offsets t) by reflexivity. rewrite Eo.
  destruct (N.eqb_spec (wm_get_off (wm_tk_offsets t) 0) 0) as [E0|En0].
  - pose proof (Ht1 (wm_upd 0 off (wm_tk_offsets t)) ltac:(rewrite rf_upd_length; exact D)) as Ht1'.
    destruct (rf_track_wr_head_rewrite b1 sid _ Hb1 Ht1') as (Hs & Hb' & Hfe' & Hout' & Hd' & Hh1 & Hh2 & Hh3).
    destruct (wm_track_wr_head b1 sid (wm_tk_set_offsets t1 (wm_upd 0 off (wm_tk_offsets t)))) as [b3 t3] eqn:E3.
    cbn [fst snd] in *. subst t3.
    assert (Hext3 : rf_ext r2 (wm_b_raw b3)).
    { eapply rf_ext_of with (new := []); [subst b1; cbn [wm_b_raw wm_b_set_raw] in Hfe'; lia | subst b1; cbn [wm_b_raw wm_b_set_raw] in Hd'; rewrite Hd'; apply incl_refl | exact Hout']. }
    split; [exact Hb'|]. split; [eapply rf_tok_ext; [exact Hext3|exact Ht1']|].
    split; [eapply rf_ext_trans; eauto|].
    split; [unfold wm_raw_chunk_tell; destruct Hr as ((X1 & X2 & _) & _); subst off; congruence|].
    split; [subst b1; cbn [wm_b_raw wm_b_set_raw] in Hfe'; rewrite Hfe'; exact Hfe2|].
    split; [subst b1; cbn [wm_b_raw wm_b_set_raw] in Hout'; rewrite Hout'; exact Hout2|].
    subst t1 b1. cbn [wm_tk_set_offsets wm_tk_set_data_head wm_tk_data_head wm_tk_index_head wm_tk_summary_head wm_tk_offsets wm_tk_type wm_tk_head wm_ck_offset
                       wm_b_set_raw wm_b_source_head wm_b_signal_head wm_b_ud_head] in *.
    repeat split; assumption.
  - cbn [fst snd].
    split; [exact Hb1|].
    split; [replace t1 with (wm_tk_set_offsets t1 (wm_tk_offsets t1)) by (subst t1; destruct t; reflexivity); apply Ht1; subst t1; exact D|].
    split; [exact Hext1|].
    split; [unfold wm_raw_chunk_tell; destruct Hr as ((X1 & X2 & _) & _); subst off; congruence|].
    split; [exact Hfe2|]. split; [exact Hout2|].
    subst t1 b1. cbn. repeat split; reflexivity.
Qed.

(* jls_core_wr_summary *)
Lemma rf_core_wr_summary : forall b sid t level payload,
  rf_bok b -> rf_tok (wm_b_raw b) t -> rf_len payload < 4294967296 ->
  let off := wm_fend (wm_b_raw b) in
  let b' := fst (wm_core_wr_summary b sid t level payload (rf_len payload)) in
  let t' := snd (wm_core_wr_summary b sid t level payload (rf_len payload)) in
  rf_bok b' /\ rf_tok (wm_b_raw b') t' /\ rf_ext (wm_b_raw b) (wm_b_raw b') /\
  wm_raw_chunk_tell (wm_b_raw b) = off /\
  wm_fend (wm_b_raw b') = off + fm_chunk_size (rf_len payload) /\
  rp_out (rf_scan (wm_rlog (wm_b_raw b'))) =
    {| rc_off := off; rc_tag := fm_track_tag (wm_tk_type t) JLS_TRACK_CHUNK_SUMMARY; rc_meta := wm_meta sid level; rc_pay := payload |}
    :: rp_out (rf_scan (wm_rlog (wm_b_raw b))) /\
  wm_tk_offsets t' = wm_tk_offsets t /\ wm_tk_data_head t' = wm_tk_data_head t /\
  wm_tk_index_head t' = wm_tk_index_head t /\
  wm_tk_head t' = wm_tk_head t /\ wm_tk_type t' = wm_tk_type t /\
  wm_b_source_head b' = wm_b_source_head b /\ wm_b_signal_head b' = wm_b_signal_head b /\ wm_b_ud_head b' = wm_b_ud_head b.
Proof.
  intros b sid t level payload Hb Ht Hlen off b' t'.
  destruct Hb as (Hr & H1 & H2 & H3). pose proof Ht as (A & B & C & D & E & F & G & H).
  destruct (rf_track_tag_ok (wm_tk_type t) JLS_TRACK_CHUNK_SUMMARY E) as (Htag0 & Htag); [lia|].
  pose proof (rf_Forall_get _ _ level C) as Hhead.
  pose proof (rf_append_link (wm_b_raw b) (wm_get_chunk (wm_tk_summary_head t) level) (wm_ck_offset (wm_get_chunk (wm_tk_summary_head t) level))
                (fm_track_tag (wm_tk_type t) JLS_TRACK_CHUNK_SUMMARY) (wm_meta sid level) payload Hr Hhead Htag0 Htag (rf_meta_lt _ _) Hlen) as X.
  cbv zeta in X. destruct X as (Hr2 & Hoff & Hfe2 & Hout2 & Hnh & Hin2 & Hpl2 & Hi2).
  subst b' t'. unfold wm_core_wr_summary.
  destruct (wm_raw_wr (wm_b_raw b) _ payload) as [r1 h1] eqn:Ew. cbn [fst snd] in *.
  destruct (wm_update_item_head r1 _ _) as [r2 nh] eqn:Eu. cbn [fst snd] in *. subst nh.
  fold off in Hoff. rewrite Hoff in *.
  assert (Hext1 : rf_ext (wm_b_raw b) r2).
  { eapply rf_ext_of with (new := [_]); [pose proof (rf_chunk_size_pos (rf_len payload)); lia | exact Hi2 | exact Hout2]. }
  pose proof (rf_tok_ext _ _ _ Hext1 Ht) as (A' & B' & C' & D' & E' & F' & G' & H').
  split. { unfold rf_bok. cbn [wm_b_raw wm_b_set_raw wm_b_source_head wm_b_signal_head wm_b_ud_head].
           split; [exact Hr2|]. split; [eapply rf_ref_ext; eauto|]. split; eapply rf_ref_ext; eauto. }
  cbn [wm_b_raw wm_b_set_raw wm_b_source_head wm_b_signal_head wm_b_ud_head].
  split. { unfold rf_tok. cbn [wm_tk_set_summary_head wm_tk_data_head wm_tk_index_head wm_tk_summary_head wm_tk_offsets wm_tk_type wm_tk_head].
           split; [exact A'|]. split; [exact B'|]. split; [apply rf_Forall_upd; [exact C'|right; exact Hin2]|].
           repeat (split; [assumption|]). assumption. }
  split; [exact Hext1|].
  split; [unfold wm_raw_chunk_tell; destruct Hr as ((X1 & X2 & _) & _); subst off; congruence|].
  split; [exact Hfe2|]. split; [exact Hout2|].
  cbn. repeat split; reflexivity.
Qed.

(* jls_core_wr_index *)
Lemma rf_core_wr_index : forall b sid t level payload,
  rf_bok b -> rf_tok (wm_b_raw b) t -> rf_len payload < 4294967296 ->
  let off := wm_fend (wm_b_raw b) in
  let b' := fst (wm_core_wr_index b sid t level payload (rf_len payload)) in
  let t' := snd (wm_core_wr_index b sid t level payload (rf_len payload)) in
  rf_bok b' /\ rf_tok (wm_b_raw b') t' /\ rf_ext (wm_b_raw b) (wm_b_raw b') /\
  wm_raw_chunk_tell (wm_b_raw b) = off /\
  wm_fend (wm_b_raw b') = off + fm_chunk_size (rf_len payload) /\
  rp_out (rf_scan (wm_rlog (wm_b_raw b'))) =
    {| rc_off := off; rc_tag := fm_track_tag (wm_tk_type t) JLS_TRACK_CHUNK_INDEX; rc_meta := wm_meta sid level; rc_pay := payload |}
    :: rp_out (rf_scan (wm_rlog (wm_b_raw b))) /\
  wm_tk_offsets t' = (if wm_get_off (wm_tk_offsets t) level =? 0 then wm_upd (N.to_nat level) off (wm_tk_offsets t) else wm_tk_offsets t) /\
  wm_tk_data_head t' = wm_tk_data_head t /\ wm_tk_summary_head t' = wm_tk_summary_head t /\
  wm_tk_head t' = wm_tk_head t /\ wm_tk_type t' = wm_tk_type t /\
  wm_b_source_head b' = wm_b_source_head b /\ wm_b_signal_head b' = wm_b_signal_head b /\ wm_b_ud_head b' = wm_b_ud_head b.
Proof.
  intros b sid t level payload Hb Ht Hlen off b' t'.
  destruct Hb as (Hr & H1 & H2 & H3). pose proof Ht as (A & B & C & D & E & F & G & H).
  destruct (rf_track_tag_ok (wm_tk_type t) JLS_TRACK_CHUNK_INDEX E) as (Htag0 & Htag); [unfold JLS_TRACK_CHUNK_INDEX, JLS_TRACK_CHUNK_SUMMARY; lia|].
  pose proof (rf_Forall_get _ _ level B) as Hhead.
  pose proof (rf_append_link (wm_b_raw b) (wm_get_chunk (wm_tk_index_head t) level) (wm_ck_offset (wm_get_chunk (wm_tk_index_head t) level))
                (fm_track_tag (wm_tk_type t) JLS_TRACK_CHUNK_INDEX) (wm_meta sid level) payload Hr Hhead Htag0 Htag (rf_meta_lt _ _) Hlen) as X.
  cbv zeta in X. destruct X as (Hr2 & Hoff & Hfe2 & Hout2 & Hnh & Hin2 & Hpl2 & Hi2).
  subst b' t'. unfold wm_core_wr_index.
  destruct (wm_raw_wr (wm_b_raw b) _ payload) as [r1 h1] eqn:Ew. cbn [fst snd] in *.
  destruct (wm_update_item_head r1 _ _) as [r2 nh] eqn:Eu. cbn [fst snd] in *. subst nh.
  fold off in Hoff. rewrite Hoff in *.
  set (t1 := wm_tk_set_index_head t _).
  set (b1 := wm_b_set_raw b r2).
  assert (Hext1 : rf_ext (wm_b_raw b) r2).
  { eapply rf_ext_of with (new := [_]); [pose proof (rf_chunk_size_pos (rf_len payload)); lia | exact Hi2 | exact Hout2]. }
  assert (Hb1 : rf_bok b1).
  { subst b1. unfold rf_bok. cbn [wm_b_raw wm_b_set_raw wm_b_source_head wm_b_signal_head wm_b_ud_head].
    split; [exact Hr2|]. split; [eapply rf_ref_ext; eauto|]. split; eapply rf_ref_ext; eauto. }
  assert (Ht1 : forall offs, length offs = 16%nat -> rf_tok r2 (wm_tk_set_offsets t1 offs)).
  { intros offs Hl. pose proof (rf_tok_ext _ _ _ Hext1 Ht) as (A' & B' & C' & D' & E' & F' & G' & H').
    subst t1. unfold rf_tok. cbn [wm_tk_set_offsets wm_tk_set_index_head wm_tk_data_head wm_tk_index_head wm_tk_summary_head wm_tk_offsets wm_tk_type wm_tk_head].
    split; [exact A'|]. split; [apply rf_Forall_upd; [exact B'|right; exact Hin2]|].
    repeat (split; [assumption|]). assumption. }
  unfold wm_track_update.
  assert (Eo : wm_tk_offsets t1 = wm_tk_offsets t) by reflexivity. rewrite Eo.
  destruct (N.eqb_spec (wm_get_off (wm_tk_offsets t) level) 0) as [E0|En0].
  - pose proof (Ht1 (wm_upd (N.to_nat level) off (wm_tk_offsets t)) ltac:(rewrite rf_upd_length; exact D)) as Ht1'.
    destruct (rf_track_wr_head_rewrite b1 sid _ Hb1 Ht1') as (Hs & Hb' & Hfe' & Hout' & Hd' & Hh1 & Hh2 & Hh3).
    destruct (wm_track_wr_head b1 sid (wm_tk_set_offsets t1 (wm_upd (N.to_nat level) off (wm_tk_offsets t)))) as [b3 t3] eqn:E3.
    cbn [fst snd] in *. subst t3.
    assert (Hext3 : rf_ext r2 (wm_b_raw b3)).
    { eapply rf_ext_of with (new := []); [subst b1; cbn [wm_b_raw wm_b_set_raw] in Hfe'; lia | subst b1; cbn [wm_b_raw wm_b_set_raw] in Hd'; rewrite Hd'; apply incl_refl | exact Hout']. }
    split; [exact Hb'|]. split; [eapply rf_tok_ext; [exact Hext3|exact Ht1']|].
    split; [eapply rf_ext_trans; eauto|].
    split; [unfold wm_raw_chunk_tell; destruct Hr as ((X1 & X2 & _) & _); subst off; congruence|].
    split; [subst b1; cbn [wm_b_raw wm_b_set_raw] in Hfe'; rewrite Hfe'; exact Hfe2|].
    split; [subst b1; cbn [wm_b_raw wm_b_set_raw] in Hout'; rewrite Hout'; exact Hout2|].
    subst t1 b1. cbn [wm_tk_set_offsets wm_tk_set_index_head wm_tk_data_head wm_tk_index_head wm_tk_summary_head wm_tk_offsets wm_tk_type wm_tk_head wm_ck_offset
                       wm_b_set_raw wm_b_source_head wm_b_signal_head wm_b_ud_head] in *.
    repeat split; assumption.
  - cbn [fst snd].
    split; [exact Hb1|].
    split; [replace t1 with (wm_tk_set_offsets t1 (wm_tk_offsets t1)) by (subst t1; destruct t; reflexivity); apply Ht1; subst t1; exact D|].
    split; [exact Hext1|].
    split; [unfold wm_raw_chunk_tell; destruct Hr as ((X1 & X2 & _) & _); subst off; congruence|].
    split; [exact Hfe2|]. split; [exact Hout2|].
    subst t1 b1. cbn. repeat split; reflexivity.
Qed.

(* jls_track_update on a track whose HEAD chunk exists *)
Lemma rf_track_update : forall b sid t level pos,
  rf_bok b -> rf_tok (wm_b_raw b) t ->
  let b' := fst (wm_track_update b sid t level pos) in
  let t' := snd (wm_track_update b sid t level pos) in
  rf_bok b' /\ rf_tok (wm_b_raw b') t' /\ wm_fend (wm_b_raw b') = wm_fend (wm_b_raw b) /\
  rp_out (rf_scan (wm_rlog (wm_b_raw b'))) = rp_out (rf_scan (wm_rlog (wm_b_raw b))) /\
  wm_disk (wm_b_raw b') = wm_disk (wm_b_raw b) /\
  wm_tk_offsets t' = (if wm_get_off (wm_tk_offsets t) level =? 0 then wm_upd (N.to_nat level) pos (wm_tk_offsets t) else wm_tk_offsets t) /\
  wm_tk_data_head t' = wm_tk_data_head t /\ wm_tk_index_head t' = wm_tk_index_head t /\ wm_tk_summary_head t' = wm_tk_summary_head t /\
  wm_tk_head t' = wm_tk_head t /\ wm_tk_type t' = wm_tk_type t /\
  wm_b_source_head b' = wm_b_source_head b /\ wm_b_signal_head b' = wm_b_signal_head b /\ wm_b_ud_head b' = wm_b_ud_head b.
Proof.
  intros b sid t level pos Hb Ht b' t'. subst b' t'. unfold wm_track_update.
  destruct (N.eqb_spec (wm_get_off (wm_tk_offsets t) level) 0) as [E0|En0].
  - pose proof Ht as (A & B & C & D & E & F & G & H).
    assert (Ht1 : rf_tok (wm_b_raw b) (wm_tk_set_offsets t (wm_upd (N.to_nat level) pos (wm_tk_offsets t)))).
    { unfold rf_tok. cbn [wm_tk_set_offsets wm_tk_data_head wm_tk_index_head wm_tk_summary_head wm_tk_offsets wm_tk_type wm_tk_head].
      split; [exact A|]. split; [exact B|]. split; [exact C|]. split; [rewrite rf_upd_length; exact D|].
      split; [exact E|]. split; [exact F|]. split; [exact G|exact H]. }
    destruct (rf_track_wr_head_rewrite b sid _ Hb Ht1) as (Hs & Hb' & Hfe' & Hout' & Hd' & Hh1 & Hh2 & Hh3).
    rewrite Hs. split; [exact Hb'|].
    split. { eapply rf_tok_ext; [|exact Ht1]. eapply rf_ext_of with (new := []); [lia|rewrite Hd'; apply incl_refl|exact Hout']. }
    split; [exact Hfe'|]. split; [exact Hout'|]. split; [exact Hd'|].
    cbn [wm_tk_set_offsets wm_tk_data_head wm_tk_index_head wm_tk_summary_head wm_tk_offsets wm_tk_type wm_tk_head].
    repeat split; assumption.
  - cbn [fst snd]. split; [exact Hb|]. split; [exact Ht|]. repeat split; reflexivity.
Qed.

(* a chunk appended to one of the three global lists (source / signal / user data) *)
Lemma rf_base_append : forall b head prev tag meta payload,
  rf_bok b -> rf_ref (wm_b_raw b) head ->
  tag <> JLS_TAG_INVALID -> tag < 256 -> meta < 65536 -> rf_len payload < 4294967296 ->
  let r := wm_b_raw b in
  let off := wm_raw_chunk_tell r in
  let h := wm_mk_hdr prev tag meta (rf_len payload) in
  let r1 := fst (wm_raw_wr r h payload) in
  let h1 := snd (wm_raw_wr r h payload) in
  let r2 := fst (wm_update_item_head r1 head {| wm_ck_offset := off; wm_ck_hdr := h1 |}) in
  let c := snd (wm_update_item_head r1 head {| wm_ck_offset := off; wm_ck_hdr := h1 |}) in
  rf_rok r2 /\ rf_ext r r2 /\ off = wm_fend r /\
  rp_out (rf_scan (wm_rlog r2)) = {| rc_off := off; rc_tag := tag; rc_meta := meta; rc_pay := payload |} :: rp_out (rf_scan (wm_rlog r)) /\
  rf_ref r2 c /\ wm_ck_offset c = off /\ fm_payload_length (wm_ck_hdr c) = rf_len payload /\
  In (wm_ck_offset c, wm_ck_hdr c) (wm_disk r2) /\
  rf_ref r2 (wm_b_source_head b) /\ rf_ref r2 (wm_b_signal_head b) /\ rf_ref r2 (wm_b_ud_head b) /\
  c = {| wm_ck_offset := off; wm_ck_hdr := h1 |}.
Proof.
  intros b head prev tag meta payload (Hr & H1 & H2 & H3) Href Htag Ht Hm Hlen r off h r1 h1 r2 c.
  pose proof (rf_append_link r head prev tag meta payload Hr Href Htag Ht Hm Hlen) as X. cbv zeta in X.
  fold off h r1 h1 r2 in X. destruct X as (Hr2 & Hoff & Hfe2 & Hout2 & Hnh & Hin2 & Hpl2 & Hi2). fold c in Hnh.
  assert (Hext : rf_ext r r2).
  { eapply rf_ext_of with (new := [_]); [pose proof (rf_chunk_size_pos (rf_len payload)); lia|exact Hi2|exact Hout2]. }
  split; [exact Hr2|]. split; [exact Hext|]. split; [exact Hoff|]. split; [exact Hout2|].
  rewrite Hnh. cbn [wm_ck_offset wm_ck_hdr].
  split; [right; exact Hin2|]. split; [reflexivity|]. split; [exact Hpl2|]. split; [exact Hin2|].
  split; [eapply rf_ref_ext; eauto|]. split; [eapply rf_ref_ext; eauto|]. split; [eapply rf_ref_ext; eauto|reflexivity].
Qed.

(* ------------------------------------------------------------------ boolean checkers (for concrete states) *)
Definition rf_hdr_eqb (a b : fm_chunk_header) : bool :=
  (fm_item_next a =? fm_item_next b) && (fm_item_prev a =? fm_item_prev b) && (fm_tag a =? fm_tag b) && (fm_rsv0 a =? fm_rsv0 b) &&
  (fm_chunk_meta a =? fm_chunk_meta b) && (fm_payload_length a =? fm_payload_length b) && (fm_payload_prev_length a =? fm_payload_prev_length b).
Lemma rf_hdr_eqb_eq : forall a b, rf_hdr_eqb a b = true -> a = b.
Proof.
  intros [a1 a2 a3 a4 a5 a6 a7] [b1 b2 b3 b4 b5 b6 b7] H. unfold rf_hdr_eqb in H. cbn in H.
  repeat (apply andb_true_iff in H; destruct H as [H ?]).
  repeat match goal with E : (_ =? _) = true |- _ => apply N.eqb_eq in E end. subst. reflexivity.
Qed.

Definition rf_disk_okb (fend : N) (disk : list (N * fm_chunk_header)) : bool :=
  forallb (fun oh => negb (fst oh =? 0) && (fst oh + fm_chunk_size (fm_payload_length (snd oh)) <=? fend) &&
                     negb (fm_tag (snd oh) =? JLS_TAG_INVALID) &&
                     forallb (fun oh' => negb (fst oh' =? fst oh) || (fm_payload_length (snd oh') =? fm_payload_length (snd oh))) disk) disk.
Lemma rf_disk_okb_ok : forall fend disk, rf_disk_okb fend disk = true -> rf_disk_ok fend disk.
Proof.
  intros fend disk H o h Hin. unfold rf_disk_okb in H. rewrite forallb_forall in H. specialize (H (o, h) Hin). cbn [fst snd] in H.
  apply andb_true_iff in H as [H H4]. apply andb_true_iff in H as [H H3]. apply andb_true_iff in H as [H1 H2].
  split; [apply N.eqb_neq; destruct (o =? 0); [discriminate|reflexivity]|].
  split; [apply N.leb_le; exact H2|]. split; [apply N.eqb_neq; destruct (fm_tag h =? JLS_TAG_INVALID); [discriminate|reflexivity]|].
  intros h' Hin'. rewrite forallb_forall in H4. specialize (H4 (o, h') Hin'). cbn [fst snd] in H4.
  rewrite N.eqb_refl in H4. cbn [negb orb] in H4. apply N.eqb_eq. exact H4.
Qed.

Definition rf_rokb (r : wm_raw) : bool :=
  (wm_offset r =? wm_fpos r) && (wm_fend r =? wm_fpos r) && negb (wm_fault r) && (32 <=? wm_fend r) &&
  (rp_end (rf_scan (wm_rlog r)) =? wm_fend r) && (match rp_pend (rf_scan (wm_rlog r)) with None => true | Some _ => false end) &&
  rf_disk_okb (wm_fend r) (wm_disk r).
Lemma rf_rokb_ok : forall r, rf_rokb r = true -> rf_rok r.
Proof.
  intros r H. unfold rf_rokb in H.
  apply andb_true_iff in H as [H H7]. apply andb_true_iff in H as [H H6]. apply andb_true_iff in H as [H H5].
  apply andb_true_iff in H as [H H4]. apply andb_true_iff in H as [H H3]. apply andb_true_iff in H as [H1 H2].
  apply N.eqb_eq in H1, H2, H5. apply N.leb_le in H4.
  split; [split; [exact H1|split; [exact H2|destruct (wm_fault r); [discriminate|reflexivity]]]|].
  split; [exact H4|]. split; [exact H5|].
  split; [destruct (rp_pend (rf_scan (wm_rlog r))); [discriminate|reflexivity]|]. apply rf_disk_okb_ok. exact H7.
Qed.

Definition rf_refb (r : wm_raw) (c : wm_chunk) : bool :=
  (wm_ck_offset c =? 0) || existsb (fun oh => (fst oh =? wm_ck_offset c) && rf_hdr_eqb (snd oh) (wm_ck_hdr c)) (wm_disk r).
Lemma rf_refb_ok : forall r c, rf_refb r c = true -> rf_ref r c.
Proof.
  intros r c H. unfold rf_refb in H. apply orb_true_iff in H. destruct H as [H|H]; [left; apply N.eqb_eq; exact H|].
  right. apply existsb_exists in H. destruct H as ([o h] & Hin & H). cbn [fst snd] in H. apply andb_true_iff in H. destruct H as [H1 H2].
  apply N.eqb_eq in H1. apply rf_hdr_eqb_eq in H2. subst. exact Hin.
Qed.

Definition rf_bokb (b : wm_base) : bool :=
  rf_rokb (wm_b_raw b) && rf_refb (wm_b_raw b) (wm_b_source_head b) && rf_refb (wm_b_raw b) (wm_b_signal_head b) && rf_refb (wm_b_raw b) (wm_b_ud_head b).
Lemma rf_bokb_ok : forall b, rf_bokb b = true -> rf_bok b.
Proof.
  intros b H. unfold rf_bokb in H.
  apply andb_true_iff in H as [H H4]. apply andb_true_iff in H as [H H3]. apply andb_true_iff in H as [H1 H2].
  split; [apply rf_rokb_ok; exact H1|]. split; [apply rf_refb_ok; exact H2|]. split; apply rf_refb_ok; assumption.
Qed.

Definition rf_tokb (r : wm_raw) (t : wm_track) : bool :=
  rf_refb r (wm_tk_data_head t) && forallb (rf_refb r) (wm_tk_index_head t) && forallb (rf_refb r) (wm_tk_summary_head t) &&
  Nat.eqb (length (wm_tk_offsets t)) 16 && (wm_tk_type t <? 4) && negb (wm_ck_offset (wm_tk_head t) =? 0) &&
  existsb (fun oh => (fst oh =? wm_ck_offset (wm_tk_head t)) && rf_hdr_eqb (snd oh) (wm_ck_hdr (wm_tk_head t))) (wm_disk r) &&
  (fm_payload_length (wm_ck_hdr (wm_tk_head t)) =? 128).
Lemma rf_tokb_ok : forall r t, rf_tokb r t = true -> rf_tok r t.
Proof.
  intros r t H. unfold rf_tokb in H.
  apply andb_true_iff in H as [H H8]. apply andb_true_iff in H as [H H7]. apply andb_true_iff in H as [H H6].
  apply andb_true_iff in H as [H H5]. apply andb_true_iff in H as [H H4]. apply andb_true_iff in H as [H H3].
  apply andb_true_iff in H as [H1 H2].
  split; [apply rf_refb_ok; exact H1|].
  split; [apply Forall_forall; intros c Hc; apply rf_refb_ok; rewrite forallb_forall in H2; apply H2; exact Hc|].
  split; [apply Forall_forall; intros c Hc; apply rf_refb_ok; rewrite forallb_forall in H3; apply H3; exact Hc|].
  split; [apply Nat.eqb_eq; exact H4|]. split; [apply N.ltb_lt; exact H5|].
  split; [apply N.eqb_neq; destruct (wm_ck_offset (wm_tk_head t) =? 0); [discriminate|reflexivity]|].
  split; [|apply N.eqb_eq; exact H8].
  apply existsb_exists in H7. destruct H7 as ([o h] & Hin & E). cbn [fst snd] in E.
  apply andb_true_iff in E as [E1 E2]. apply N.eqb_eq in E1. apply rf_hdr_eqb_eq in E2. subst. exact Hin.
Qed.

(* ------------------------------------------------------------------ a new track: jls_track_wr_def + jls_track_wr_head *)
Lemma rf_rok_ext_bok : forall b r2, rf_bok b -> rf_rok r2 -> rf_ext (wm_b_raw b) r2 -> rf_bok (wm_b_set_raw b r2).
Proof.
  intros b r2 (Hr & H1 & H2 & H3) Hr2 He. unfold rf_bok. cbn [wm_b_raw wm_b_set_raw wm_b_source_head wm_b_signal_head wm_b_ud_head].
  split; [exact Hr2|]. split; [eapply rf_ref_ext; eauto|]. split; eapply rf_ref_ext; eauto.
Qed.

(* jls_track_wr_def: an empty chunk on the signal list *)
Lemma rf_track_wr_def : forall b sid ty, rf_bok b -> sid < 65536 -> ty < 4 ->
  let b' := wm_track_wr_def b sid ty in
  rf_bok b' /\ rf_ext (wm_b_raw b) (wm_b_raw b') /\
  rp_out (rf_scan (wm_rlog (wm_b_raw b'))) =
    {| rc_off := wm_fend (wm_b_raw b); rc_tag := fm_track_tag ty JLS_TRACK_CHUNK_DEF; rc_meta := sid; rc_pay := [] |}
    :: rp_out (rf_scan (wm_rlog (wm_b_raw b))) /\
  wm_b_source_head b' = wm_b_source_head b /\ wm_b_ud_head b' = wm_b_ud_head b.
Proof.
  intros b sid ty Hb Hsid Hty b'. pose proof Hb as (Hr & H1 & H2 & H3).
  destruct (rf_track_tag_ok ty JLS_TRACK_CHUNK_DEF Hty) as (Htag0 & Htag); [unfold JLS_TRACK_CHUNK_DEF, JLS_TRACK_CHUNK_SUMMARY; lia|].
  pose proof (rf_base_append b (wm_b_signal_head b) (wm_ck_offset (wm_b_signal_head b)) (fm_track_tag ty JLS_TRACK_CHUNK_DEF) sid [] Hb H2 Htag0 Htag Hsid
                ltac:(cbv; reflexivity)) as X.
  cbv zeta in X. change (rf_len []) with 0 in X.
  subst b'. unfold wm_track_wr_def.
  destruct (wm_raw_wr (wm_b_raw b) _ []) as [r1 h1]. cbn [fst snd] in X.
  destruct (wm_update_item_head r1 (wm_b_signal_head b) _) as [r2 sh]. cbn [fst snd] in X.
  destruct X as (Hr2 & Hext & Hoff & Hout & Hrefc & Hoffc & Hplc & Hinc & R1 & R2 & R3 & _).
  split. { unfold rf_bok. cbn [wm_b_raw wm_b_set_raw wm_b_set_signal_head wm_b_source_head wm_b_signal_head wm_b_ud_head].
           split; [exact Hr2|]. split; [exact R1|]. split; [exact Hrefc|exact R3]. }
  cbn [wm_b_raw wm_b_set_raw wm_b_set_signal_head wm_b_source_head wm_b_ud_head].
  split; [exact Hext|]. split; [rewrite Hout, Hoff; reflexivity|]. split; reflexivity.
Qed.

(* jls_track_wr_head of a new track (no HEAD chunk yet): a 128-byte chunk on the signal list *)
Lemma rf_track_wr_head_first : forall b sid ty, rf_bok b -> sid < 65536 -> ty < 4 ->
  let b' := fst (wm_track_wr_head b sid (wm_track0 ty)) in
  let t' := snd (wm_track_wr_head b sid (wm_track0 ty)) in
  rf_bok b' /\ rf_tok (wm_b_raw b') t' /\ rf_ext (wm_b_raw b) (wm_b_raw b') /\
  rp_out (rf_scan (wm_rlog (wm_b_raw b'))) =
    {| rc_off := wm_fend (wm_b_raw b); rc_tag := fm_track_tag ty JLS_TRACK_CHUNK_HEAD; rc_meta := sid;
       rc_pay := wm_head_payload (repeat 0 16) |} :: rp_out (rf_scan (wm_rlog (wm_b_raw b))) /\
  wm_tk_type t' = ty /\ wm_tk_offsets t' = repeat 0 16 /\ wm_tk_data_head t' = wm_chunk0 /\
  wm_b_source_head b' = wm_b_source_head b /\ wm_b_ud_head b' = wm_b_ud_head b.
Proof.
  intros b sid ty Hb Hsid Hty b' t'. pose proof Hb as (Hr & H1 & H2 & H3).
  destruct (rf_track_tag_ok ty JLS_TRACK_CHUNK_HEAD Hty) as (Htag0 & Htag); [unfold JLS_TRACK_CHUNK_HEAD, JLS_TRACK_CHUNK_SUMMARY; lia|].
  assert (Hpl : rf_len (wm_head_payload (repeat 0 16)) = SIZEOF_track_head) by reflexivity.
  pose proof (rf_base_append b (wm_b_signal_head b) (wm_ck_offset (wm_b_signal_head b)) (fm_track_tag ty JLS_TRACK_CHUNK_HEAD) sid
                (wm_head_payload (repeat 0 16)) Hb H2 Htag0 Htag Hsid ltac:(rewrite Hpl; reflexivity)) as X.
  cbv zeta in X. rewrite Hpl in X.
  subst b' t'. unfold wm_track_wr_head. change (wm_ck_offset (wm_tk_head (wm_track0 ty)) =? 0) with true. cbv iota.
  change (wm_tk_offsets (wm_track0 ty)) with (repeat 0 16). change (wm_tk_type (wm_track0 ty)) with ty.
  destruct (wm_raw_wr (wm_b_raw b) _ (wm_head_payload (repeat 0 16))) as [r1 h1]. cbn [fst snd] in X.
  destruct (wm_update_item_head r1 (wm_b_signal_head b) _) as [r2 sh]. cbn [fst snd] in X |- *.
  destruct X as (Hr2 & Hext & Hoff & Hout & Hrefc & Hoffc & Hplc & Hinc & R1 & R2 & R3 & Esh).
  subst sh. cbn [wm_ck_offset wm_ck_hdr] in *.
  assert (Hoffnz : wm_raw_chunk_tell (wm_b_raw b) <> 0) by (rewrite Hoff; destruct Hr as (_ & H32 & _); lia).
  split. { unfold rf_bok. cbn [wm_b_raw wm_b_set_raw wm_b_set_signal_head wm_b_source_head wm_b_signal_head wm_b_ud_head].
           split; [exact Hr2|]. split; [exact R1|]. split; [exact Hrefc|exact R3]. }
  cbn [wm_b_raw wm_b_set_raw wm_b_set_signal_head wm_b_source_head wm_b_ud_head].
  split. { unfold rf_tok, wm_track0, wm_level_count. cbn [wm_tk_set_head wm_tk_data_head wm_tk_index_head wm_tk_summary_head wm_tk_offsets wm_tk_type wm_tk_head wm_ck_offset wm_ck_hdr].
           split; [apply rf_ref0|]. split; [apply Forall_forall; intros c Hc; apply repeat_spec in Hc; subst c; apply rf_ref0|].
           split; [apply Forall_forall; intros c Hc; apply repeat_spec in Hc; subst c; apply rf_ref0|].
           split; [reflexivity|]. split; [exact Hty|]. split; [exact Hoffnz|].
           split; [exact Hinc|exact Hplc]. }
  split; [exact Hext|]. split; [rewrite Hout, Hoff; reflexivity|].
  repeat split.
Qed.
