(* Tie between the C16 model (SigDef.sd_align, the current code of jls_core_signal_def_align)
   and the intended normalisation Spec.sp_align used by the file-level models:
   whenever sd_align accepts a definition, the six stored parameters are exactly those of
   sp_align.  (sp_align has no rejection: for definitions that sd_align rejects nothing is
   claimed.)  Kept in its own file so that changes to Spec.v cannot break Properties_C16. *)
From Coq Require Import NArith ZArith List Bool Lia ZifyBool ZifyN ZifyNat.
From JLS Require Import Generated SigDef SigDefProofs.
From JLS Require Spec.
Import ListNotations.
Local Open Scope N_scope.
Ltac Zify.zify_post_hook ::= Z.div_mod_to_equations.

Definition sd_of_spec (D : Spec.sigdef) : sd_sigdef :=
  mkSigDef (Spec.sg_spd D) (Spec.sg_sdf D) (Spec.sg_eps D) (Spec.sg_sumdf D) (Spec.sg_adf D) (Spec.sg_udf D).

Lemma sp_fit_agrees : forall fuel e epd k,
  LargestDiv e epd k -> (N.to_nat epd <= fuel)%nat -> Spec.sp_fit_epd fuel e epd = k.
Proof.
  induction fuel as [|f IH]; intros e epd k (K1 & K2 & K3 & K4) Hf; cbn [Spec.sp_fit_epd].
  - lia.
  - destruct (epd =? 0) eqn:E0; [apply N.eqb_eq in E0; lia|].
    destruct (e mod epd =? 0) eqn:Em.
    + apply N.eqb_eq in Em. assert (epd <= k) by (apply K4; try assumption; lia). lia.
    + apply N.eqb_neq in Em. apply IH; [|lia].
      assert (k <> epd) by (intros ->; contradiction).
      repeat split; try assumption; try lia.
      intros j J1 J2 J3. apply K4; try assumption. lia.
Qed.

Lemma dflt_agree : forall w d, In w sd_widths ->
  Spec.sp_dflt w 0 (spd d) = spd (sd_defaults w d) /\
  Spec.sp_dflt w 1 (sdf d) = sdf (sd_defaults w d) /\
  Spec.sp_dflt w 2 (eps d) = eps (sd_defaults w d) /\
  Spec.sp_dflt w 3 (sumdf d) = sumdf (sd_defaults w d) /\
  N.max (if sd_anno d =? 0 then DEF32_annotation_decimate_factor else sd_anno d) SUMMARY_DECIMATE_FACTOR_MIN
     = sd_anno (sd_defaults w d) /\
  N.max (if sd_utc d =? 0 then DEF32_utc_decimate_factor else sd_utc d) SUMMARY_DECIMATE_FACTOR_MIN
     = sd_utc (sd_defaults w d).
Proof.
  intros w d H. cbn [In sd_widths] in H.
  destruct H as [H|[H|[H|[H|[H|[H|[H|H]]]]]]]; [subst w ..|contradiction];
  repeat split; reflexivity.
Qed.

Theorem sp_align_agrees : forall D d',
  In (Spec.dt_bits (Spec.sg_dtype D)) sd_widths ->
  sd_align (Spec.dt_bits (Spec.sg_dtype D)) (sd_of_spec D) = SdOk d' ->
  sd_of_spec (Spec.sp_align D) = d'.
Proof.
  intros D d' Hw Hal.
  set (w := Spec.dt_bits (Spec.sg_dtype D)) in *. set (d := sd_of_spec D) in *.
  destruct (align_exact w d Hw) as [((A1 & A2 & _) & Hal2)|(_ & Hal2)]; rewrite Hal2 in Hal; [|discriminate].
  injection Hal as <-.
  assert (He : sd_eps1 w d < U32) by (clear - A2; unfold U32MAX, U32 in *; lia).
  destruct (normal_facts w d Hw He) as (_ & _ & _ & _ & _ & _ & _ & Hepd & HL & _).
  destruct (dflt_agree w d Hw) as (Q1 & Q2 & Q3 & Q4 & Q5 & Q6).
  assert (Hfit : Spec.sp_fit_epd (N.to_nat (sd_spd1 w d / sd_sdf1 w d)) (sd_eps1 w d) (sd_spd1 w d / sd_sdf1 w d) = sd_k w d)
    by (apply sp_fit_agrees; [exact HL|lia]).
  unfold sd_of_spec at 1. unfold Spec.sp_align.
  cbn [Spec.sg_spd Spec.sg_sdf Spec.sg_eps Spec.sg_sumdf Spec.sg_adf Spec.sg_udf].
  fold w.
  change (Spec.sg_spd D) with (spd d). change (Spec.sg_sdf D) with (sdf d).
  change (Spec.sg_eps D) with (eps d). change (Spec.sg_sumdf D) with (sumdf d).
  change (Spec.sg_adf D) with (sd_anno d). change (Spec.sg_udf D) with (sd_utc d).
  rewrite Q1, Q2, Q3, Q4, Q5, Q6.
  unfold Spec.sp_round_up.
  fold (sd_multiple w). fold (sd_sdf0 w d) (sd_spd0 w d) (sd_eps0 w d) (sd_sumdf1 w d).
  fold (sd_sdf1 w d). fold (sd_eps1 w d). fold (sd_spd1 w d).
  rewrite Hfit. reflexivity.
Qed.
Print Assumptions sp_align_agrees.
