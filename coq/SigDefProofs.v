(* C16: proofs about the model in SigDef.v *)
From Coq Require Import NArith ZArith List Bool Lia ZifyBool ZifyN ZifyNat.
From JLS Require Import Generated SigDef.
Import ListNotations.
Local Open Scope N_scope.
Ltac Zify.zify_post_hook ::= Z.div_mod_to_equations.

(* ------------------------------------------------------------------ *)
(* arithmetic helpers                                                  *)

Lemma u32_small : forall x, x < U32 -> u32 x = x.
Proof. intros x H. unfold u32. apply N.mod_small. exact H. Qed.

Lemma div_mul_le : forall x m, x / m * m <= x.
Proof.
  intros x m. destruct (N.eq_dec m 0) as [->|Hm].
  - rewrite N.mul_0_r. apply N.le_0_l.
  - rewrite N.mul_comm. apply N.mul_div_le. exact Hm.
Qed.

(* exact multiples are fixed by rounding up *)
Lemma round_multiple : forall x m, m <> 0 -> x mod m = 0 -> (x + m - 1) / m * m = x.
Proof.
  intros x m Hm Hx.
  apply N.div_exact in Hx; [|exact Hm].
  set (q := x / m) in *.
  replace (x + m - 1) with (q * m + (m - 1)) by (rewrite Hx; lia).
  rewrite N.div_add_l by exact Hm.
  rewrite (N.div_small (m - 1) m) by lia.
  rewrite N.add_0_r. rewrite Hx. apply N.mul_comm.
Qed.

(* rounding up: result is a multiple, >= x, < x + m *)
Lemma round_spec : forall x m, m <> 0 ->
  let r := (x + m - 1) / m * m in
  r mod m = 0 /\ x <= r /\ r <= x + m - 1.
Proof.
  intros x m Hm r. subst r.
  split; [apply N.mod_mul; exact Hm|].
  split; [|apply div_mul_le].
  pose proof (N.div_mod (x + m - 1) m Hm) as E.
  pose proof (N.mod_upper_bound (x + m - 1) m Hm) as B.
  rewrite (N.mul_comm m) in E. lia.
Qed.

Lemma is_div_iff : forall e k, k <> 0 -> (sd_is_div e k = true <-> e mod k = 0).
Proof.
  intros e k Hk. unfold sd_is_div. rewrite N.eqb_eq.
  pose proof (N.div_mod e k Hk) as E.
  pose proof (N.mod_upper_bound e k Hk) as B.
  rewrite (N.mul_comm k) in E. split; intro H; lia.
Qed.

Lemma mod0_le : forall e j, e <> 0 -> j <> 0 -> e mod j = 0 -> j <= e.
Proof.
  intros e j He Hj H.
  destruct (N.le_gt_cases j e) as [L|G]; [exact L|].
  rewrite N.mod_small in H by exact G. contradiction.
Qed.

(* ------------------------------------------------------------------ *)
(* the loop                                                            *)

(* k is the largest divisor of e that is <= epd *)
Definition LargestDiv (e epd k : N) : Prop :=
  1 <= k /\ k <= epd /\ e mod k = 0 /\ forall j, 1 <= j -> j <= epd -> e mod j = 0 -> j <= k.

Lemma LargestDiv_unique : forall e epd k1 k2, LargestDiv e epd k1 -> LargestDiv e epd k2 -> k1 = k2.
Proof.
  intros e epd k1 k2 (A1 & B1 & C1 & D1) (A2 & B2 & C2 & D2).
  pose proof (D1 k2 A2 B2 C2). pose proof (D2 k1 A1 B1 C1). lia.
Qed.

Lemma fit_loop_spec : forall fuel e epd k,
  sd_fit_loop fuel e epd = SdOk k -> LargestDiv e epd k.
Proof.
  induction fuel as [|f IH]; intros e epd k H; cbn [sd_fit_loop] in H.
  - destruct (epd =? 0) eqn:E0; [discriminate|].
    destruct (sd_is_div e epd) eqn:Ed; [|discriminate].
    injection H as <-. apply N.eqb_neq in E0. apply is_div_iff in Ed; [|exact E0].
    repeat split; lia.
  - destruct (epd =? 0) eqn:E0; [discriminate|].
    apply N.eqb_neq in E0.
    destruct (sd_is_div e epd) eqn:Ed.
    + injection H as <-. apply is_div_iff in Ed; [|exact E0].
      repeat split; lia.
    + apply IH in H. destruct H as (A & B & C & D).
      repeat split; try lia.
      intros j J1 J2 J3.
      destruct (N.eq_dec j epd) as [->|Hne].
      * apply is_div_iff in J3; [|exact E0]. congruence.
      * apply D; lia.
Qed.

(* termination: fuel = entries_per_data is enough *)
Lemma fit_loop_terminates : forall fuel e epd,
  1 <= epd -> (N.to_nat epd <= S fuel)%nat -> exists k, sd_fit_loop fuel e epd = SdOk k.
Proof.
  induction fuel as [|f IH]; intros e epd H1 Hf; cbn [sd_fit_loop].
  - assert (epd = 1) as -> by lia.
    cbn. unfold sd_is_div. rewrite N.div_1_r, N.mul_1_r, N.eqb_refl. eauto.
  - destruct (epd =? 0) eqn:E0; [apply N.eqb_eq in E0; lia|].
    destruct (sd_is_div e epd) eqn:Ed; [eauto|].
    destruct (N.eq_dec epd 1) as [->|Hne].
    + unfold sd_is_div in Ed. rewrite N.div_1_r, N.mul_1_r, N.eqb_refl in Ed. discriminate.
    + apply IH; lia.
Qed.

Lemma fit_loop_zero : forall fuel e, sd_fit_loop fuel e 0 = SdFault SdDivZero.
Proof. destruct fuel; reflexivity. Qed.

Lemma fit_loop_total : forall e epd, 1 <= epd ->
  exists k, sd_fit_loop (N.to_nat epd) e epd = SdOk k /\ LargestDiv e epd k.
Proof.
  intros e epd H.
  destruct (fit_loop_terminates (N.to_nat epd) e epd H) as [k Hk]; [lia|].
  exists k. split; [exact Hk|]. eapply fit_loop_spec; exact Hk.
Qed.

(* the C loop never reports non-termination, whatever the inputs *)
Lemma fit_loop_never_nonterm : forall e epd, sd_fit_loop (N.to_nat epd) e epd <> SdFault SdNonterm.
Proof.
  intros e epd. destruct (N.eq_dec epd 0) as [->|Hne].
  - cbn. discriminate.
  - destruct (fit_loop_total e epd) as [k [Hk _]]; [lia|]. rewrite Hk. discriminate.
Qed.

(* ------------------------------------------------------------------ *)
(* the fast evaluation of the loop is the loop                         *)

Definition ScanInv (e epd best : N) : Prop :=
  best = 0 \/ (1 <= best /\ best <= epd /\ e mod best = 0).

Lemma ScanInv_max : forall e epd a b, ScanInv e epd a -> ScanInv e epd b -> ScanInv e epd (N.max a b).
Proof.
  intros e epd a b Ha Hb. destruct (N.max_spec a b) as [[_ ->]|[_ ->]]; assumption.
Qed.

Lemma pair_small : forall e i j, j <> 0 -> e mod j = 0 -> e < i * i -> j < i \/ e / j < i.
Proof.
  intros e i j Hj Hm Hlt.
  destruct (N.lt_ge_cases j i) as [L|G]; [left; exact L|]. right.
  destruct (N.lt_ge_cases (e / j) i) as [L2|G2]; [exact L2|].
  exfalso.
  assert (i * i <= j * (e / j)) as P by (apply N.mul_le_mono; assumption).
  apply N.div_exact in Hm; [|exact Hj]. lia.
Qed.

Lemma fit_scan_spec : forall fuel e epd i best,
  e <> 0 -> 1 <= i ->
  ScanInv e epd best ->
  (forall j, 1 <= j -> j <= epd -> e mod j = 0 -> (j < i \/ e / j < i) -> j <= best) ->
  e < (i + N.of_nat fuel) * (i + N.of_nat fuel) ->
  ScanInv e epd (sd_fit_scan fuel e epd i best) /\
  (forall j, 1 <= j -> j <= epd -> e mod j = 0 -> j <= sd_fit_scan fuel e epd i best).
Proof.
  induction fuel as [|f IH]; intros e epd i best He Hi Hinv Hdone Hfuel; cbn [sd_fit_scan].
  - split; [exact Hinv|].
    intros j J1 J2 J3. apply Hdone; try assumption.
    replace (i + N.of_nat 0) with i in Hfuel by lia.
    apply pair_small; try assumption; lia.
  - destruct (e <? i * i) eqn:Elt.
    + apply N.ltb_lt in Elt. split; [exact Hinv|].
      intros j J1 J2 J3. apply Hdone; try assumption.
      apply pair_small; try assumption; lia.
    + apply N.ltb_ge in Elt.
      assert (Hi0 : i <> 0) by lia.
      set (best1 := if sd_is_div e i
                    then N.max best (N.max (if i <=? epd then i else 0) (if e / i <=? epd then e / i else 0))
                    else best).
      assert (Hmono : best <= best1).
      { subst best1. destruct (sd_is_div e i); [apply N.le_max_l|apply N.le_refl]. }
      assert (Hinv1 : ScanInv e epd best1).
      { subst best1. destruct (sd_is_div e i) eqn:Ed; [|exact Hinv].
        apply is_div_iff in Ed; [|exact Hi0].
        apply ScanInv_max; [exact Hinv|]. apply ScanInv_max.
        - destruct (i <=? epd) eqn:Ei; [|left; reflexivity].
          apply N.leb_le in Ei. right. repeat split; assumption.
        - destruct (e / i <=? epd) eqn:Ec; [|left; reflexivity].
          apply N.leb_le in Ec. right.
          assert (E : e = i * (e / i)) by (apply N.div_exact; assumption).
          remember (e / i) as c eqn:Hc.
          assert (c <> 0) by (intros ->; lia).
          repeat split; try lia.
          rewrite E. apply N.mod_mul. assumption. }
      apply IH; try assumption; try lia.
      * intros j J1 J2 J3 J4.
        assert (Hj0 : j <> 0) by lia.
        destruct (N.lt_ge_cases j i) as [L|G]; [specialize (Hdone j J1 J2 J3 (or_introl L)); lia|].
        destruct (N.lt_ge_cases (e / j) i) as [L2|G2]; [specialize (Hdone j J1 J2 J3 (or_intror L2)); lia|].
        assert (E : e = j * (e / j)) by (apply N.div_exact; assumption).
        destruct J4 as [J4|J4].
        -- assert (j = i) as -> by lia.
           assert (Ed : sd_is_div e i = true) by (apply is_div_iff; assumption).
           subst best1. rewrite Ed.
           assert (Ei : (i <=? epd) = true) by (apply N.leb_le; exact J2). rewrite Ei.
           pose proof (N.le_max_r best (N.max i (if e / i <=? epd then e / i else 0))).
           pose proof (N.le_max_l i (if e / i <=? epd then e / i else 0)). lia.
        -- assert (Hq : e / j = i) by lia.
           rewrite Hq in E.
           assert (Em : e mod i = 0) by (rewrite E; apply N.mod_mul; exact Hi0).
           assert (Eq : e / i = j) by (rewrite E; apply N.div_mul; exact Hi0).
           assert (Ed : sd_is_div e i = true) by (apply is_div_iff; assumption).
           subst best1. rewrite Ed, Eq.
           assert (Ej : (j <=? epd) = true) by (apply N.leb_le; exact J2). rewrite Ej.
           pose proof (N.le_max_r best (N.max (if i <=? epd then i else 0) j)).
           pose proof (N.le_max_r (if i <=? epd then i else 0) j). lia.
Qed.

Lemma fit_scan_largest : forall e epd, e <> 0 -> e < U32 -> 1 <= epd ->
  LargestDiv e epd (sd_fit_scan (N.to_nat 65537) e epd 1 0).
Proof.
  intros e epd He Hr Hepd.
  destruct (fit_scan_spec (N.to_nat 65537) e epd 1 0) as [Hinv Hmax]; try assumption; try lia.
  - left; reflexivity.
  - intros j J1 J2 J3 [J4|J4]; [lia|].
    assert (Hj0 : j <> 0) by lia.
    assert (E : e = j * (e / j)) by (apply N.div_exact; assumption).
    assert (e / j = 0) as Z by lia. rewrite Z in E. lia.
  - rewrite N2Nat.id. unfold U32 in Hr. lia.
  - assert (H1 : 1 <= sd_fit_scan (N.to_nat 65537) e epd 1 0).
    { apply Hmax; lia. }
    destruct Hinv as [Hz|(A & B & C)]; [lia|].
    repeat split; assumption.
Qed.

Lemma fit_fast_largest : forall e epd, e < U32 -> 1 <= epd -> LargestDiv e epd (sd_fit_fast e epd).
Proof.
  intros e epd Hr Hepd. unfold sd_fit_fast.
  destruct (e =? 0) eqn:E0.
  - apply N.eqb_eq in E0. subst e.
    repeat split; lia.
  - apply N.eqb_neq in E0.
    destruct (e <=? epd) eqn:E1.
    + apply N.leb_le in E1.
      assert (M : e mod e = 0) by (apply N.mod_same; exact E0).
      assert (D : forall j, 1 <= j -> j <= epd -> e mod j = 0 -> j <= e).
      { intros j J1 J2 J3. apply mod0_le; try assumption. lia. }
      repeat split; try assumption; lia.
    + destruct (sd_fit_loop 256 e epd) as [k|f] eqn:El.
      * eapply fit_loop_spec. exact El.
      * apply fit_scan_largest; assumption.
Qed.

Lemma fit_fast_eq : forall e epd, e < U32 -> 1 <= epd ->
  sd_fit_loop (N.to_nat epd) e epd = SdOk (sd_fit_fast e epd).
Proof.
  intros e epd Hr Hepd.
  destruct (fit_loop_total e epd Hepd) as [k [Hk HL]].
  rewrite Hk. f_equal.
  eapply LargestDiv_unique; [exact HL|]. apply fit_fast_largest; assumption.
Qed.

Lemma fit_eq : forall e epd, e < U32 -> sd_fit_loop (N.to_nat epd) e epd = sd_fit e epd.
Proof.
  intros e epd Hr. unfold sd_fit. destruct (epd =? 0) eqn:E0.
  - apply N.eqb_eq in E0. subst epd. reflexivity.
  - apply N.eqb_neq in E0. apply fit_fast_eq; [exact Hr|lia].
Qed.

(* ------------------------------------------------------------------ *)
(* rounding with and without wrap-around                               *)

Lemma round_up_lt : forall x m r, sd_round_up x m = SdOk r -> r < U32.
Proof.
  intros x m r H. unfold sd_round_up in H. destruct (m =? 0); [discriminate|].
  injection H as <-. unfold u32. apply N.mod_upper_bound. discriminate.
Qed.

Lemma round_up_exact : forall x m, m <> 0 -> 1 <= x + m -> x + m - 1 < U32 ->
  sd_round_up x m = SdOk ((x + m - 1) / m * m).
Proof.
  intros x m Hm H1 Hlt. unfold sd_round_up.
  destruct (m =? 0) eqn:E; [apply N.eqb_eq in E; contradiction|].
  f_equal.
  assert (E1 : u32 (x + m + (U32 - 1)) = x + m - 1).
  { unfold u32, U32 in *. lia. }
  rewrite E1. apply u32_small.
  pose proof (div_mul_le (x + m - 1) m). lia.
Qed.

Lemma round_up_wraps : forall x m, m <> 0 -> x < U32 -> m < U32 -> U32 <= x + m - 1 ->
  sd_round_up x m = SdOk 0.
Proof.
  intros x m Hm Hx Hmr Hge. unfold sd_round_up.
  destruct (m =? 0) eqn:E; [apply N.eqb_eq in E; contradiction|].
  f_equal.
  assert (E1 : u32 (x + m + (U32 - 1)) = x + m - 1 - U32).
  { unfold u32, U32 in *. lia. }
  rewrite E1. rewrite N.div_small by lia. reflexivity.
Qed.

(* ------------------------------------------------------------------ *)
(* widths, defaults                                                    *)

Ltac unfold_consts :=
  unfold SAMPLE_DECIMATE_FACTOR_MIN, SAMPLES_PER_DATA_MIN, ENTRIES_PER_SUMMARY_MIN,
         SUMMARY_DECIMATE_FACTOR_MIN in *.

Lemma width_facts : forall w, In w sd_widths ->
  w <> 0 /\ sd_multiple w <> 0 /\ sd_multiple w <= 256 /\
  (forall s, s mod sd_multiple w = 0 ->
     (s * w) mod 8 = 0 /\
     ((SAMPLE_SIZE_BYTES_MAX * 8) mod w = 0 -> (s * w) mod (SAMPLE_SIZE_BYTES_MAX * 8) = 0) /\
     (w <> 24 -> (s * w) mod (SAMPLE_SIZE_BYTES_MAX * 8) = 0)) /\
  (forall s, w <> 24 ->
     ((SAMPLE_SIZE_BYTES_MAX * 8) mod w = 0 -> (s * w) mod (SAMPLE_SIZE_BYTES_MAX * 8) = 0) ->
     s mod sd_multiple w = 0).
Proof.
  intros w H.
  cbn [In sd_widths] in H.
  destruct H as [H|[H|[H|[H|[H|[H|[H|H]]]]]]]; [subst w ..|contradiction];
  (split; [discriminate|]);
  (split; [discriminate|]);
  (split; [vm_compute; discriminate|]);
  split; intros s; change (SAMPLE_SIZE_BYTES_MAX * 8) with 256;
  match goal with |- context [sd_multiple ?w] =>
     let v := eval vm_compute in (sd_multiple w) in change (sd_multiple w) with v end;
  match goal with |- context [256 mod ?w] =>
     let v := eval vm_compute in (256 mod w) in change (256 mod w) with v end;
  intros; try lia.
Qed.

Lemma table_some_or_24 : forall w, In w sd_widths ->
  w = 24 \/ exists t, sd_table w = Some t /\
    spd t <> 0 /\ sdf t <> 0 /\ eps t <> 0 /\ sumdf t <> 0 /\ anno t <> 0 /\ utc t <> 0 /\
    spd t < U32 /\ sdf t < U32 /\ eps t < U32 /\ sumdf t < U32 /\ anno t < U32 /\ utc t < U32.
Proof.
  intros w H. cbn [In sd_widths] in H.
  destruct H as [H|[H|[H|[H|[H|[H|[H|H]]]]]]]; [subst w ..|contradiction];
  try (left; reflexivity);
  right; eexists; (split; [reflexivity|]); vm_compute; repeat split; try discriminate; reflexivity.
Qed.

Lemma take_nz : forall x t, x <> 0 -> sd_take x t = x.
Proof. intros x t H. unfold sd_take. destruct (x =? 0) eqn:E; [apply N.eqb_eq in E; contradiction|reflexivity]. Qed.

Lemma take_cases : forall x t, (x = 0 /\ sd_take x t = t) \/ (x <> 0 /\ sd_take x t = x).
Proof.
  intros x t. unfold sd_take. destruct (x =? 0) eqn:E.
  - left. apply N.eqb_eq in E. auto.
  - right. apply N.eqb_neq in E. auto.
Qed.

Lemma defaults_in_range : forall w d, In w sd_widths -> in_range d -> in_range (sd_defaults w d).
Proof.
  intros w d Hw (A & B & C & D & E & F).
  destruct (table_some_or_24 w Hw) as [->|(t & Ht & _ & _ & _ & _ & _ & _ & T1 & T2 & T3 & T4 & T5 & T6)].
  - cbn. repeat split; assumption.
  - unfold sd_defaults. rewrite Ht. unfold in_range. cbn [spd sdf eps sumdf anno utc].
    repeat split;
    match goal with |- sd_take ?x ?y < _ => destruct (take_cases x y) as [[_ ->]|[_ ->]]; assumption end.
Qed.

Lemma defaults_fixed : forall w d,
  spd d <> 0 -> sdf d <> 0 -> eps d <> 0 -> sumdf d <> 0 -> anno d <> 0 -> utc d <> 0 ->
  sd_defaults w d = d.
Proof.
  intros w d A B C D E F. unfold sd_defaults. destruct (sd_table w) as [t|]; [|reflexivity].
  rewrite !take_nz by assumption. destruct d; reflexivity.
Qed.

Lemma defaults_idem : forall w d, In w sd_widths -> sd_defaults w (sd_defaults w d) = sd_defaults w d.
Proof.
  intros w d Hw.
  destruct (table_some_or_24 w Hw) as [->|(t & Ht & N1 & N2 & N3 & N4 & N5 & N6 & _)].
  - reflexivity.
  - apply defaults_fixed; unfold sd_defaults; rewrite Ht; cbn [spd sdf eps sumdf anno utc];
    match goal with |- sd_take ?x ?y <> 0 => destruct (take_cases x y) as [[_ ->]|[? ->]]; assumption end.
Qed.

Lemma align_depends_on_defaults : forall w d1 d2,
  sd_defaults w d1 = sd_defaults w d2 -> sd_align w d1 = sd_align w d2.
Proof. intros w d1 d2 H. unfold sd_align. rewrite H. reflexivity. Qed.

(* ------------------------------------------------------------------ *)
(* sd_align_fast = sd_align (the extracted function is the model)     *)

Lemma align_fast_eq : forall w d, sd_align_fast w d = sd_align w d.
Proof.
  intros w d. unfold sd_align_fast, sd_align_fast_info, sd_align.
  destruct (w =? 0); [reflexivity|].
  destruct (sd_round_up (N.max (sdf (sd_defaults w d)) SAMPLE_DECIMATE_FACTOR_MIN) (sd_multiple w)) as [sdf1|f]; [|reflexivity].
  cbn [sd_bind].
  destruct (sd_round_up (N.max (eps (sd_defaults w d)) ENTRIES_PER_SUMMARY_MIN)
                        (N.max (sumdf (sd_defaults w d)) SUMMARY_DECIMATE_FACTOR_MIN)) as [eps1|f] eqn:Ee; [|reflexivity].
  cbn [sd_bind].
  destruct (sd_round_up (N.max (spd (sd_defaults w d)) SAMPLES_PER_DATA_MIN) sdf1) as [spd1|f]; [|reflexivity].
  cbn [sd_bind].
  destruct (sdf1 =? 0); [reflexivity|].
  rewrite fit_eq by (eapply round_up_lt; exact Ee).
  destruct (sd_fit eps1 (spd1 / sdf1)) as [k|f]; reflexivity.
Qed.

(* ------------------------------------------------------------------ *)
(* the guarded normal form                                             *)

Definition sd_eps1 (w : N) (d : sigdef) : N :=
  (sd_eps0 w d + sd_sumdf1 w d - 1) / sd_sumdf1 w d * sd_sumdf1 w d.
Definition sd_spd1 (w : N) (d : sigdef) : N :=
  (sd_spd0 w d + sd_sdf1 w d - 1) / sd_sdf1 w d * sd_sdf1 w d.

Lemma mins : forall w d,
  10 <= sd_sdf0 w d /\ 10 <= sd_spd0 w d /\ 10 <= sd_eps0 w d /\ 10 <= sd_sumdf1 w d.
Proof. intros. unfold sd_sdf0, sd_spd0, sd_eps0, sd_sumdf1. unfold_consts. lia. Qed.

Lemma align_guarded_form : forall w d, In w sd_widths ->
  guard_sdf w d -> guard_spd w d -> guard_eps w d ->
  exists k, LargestDiv (sd_eps1 w d) (sd_spd1 w d / sd_sdf1 w d) k /\
    sd_spd1 w d mod sd_sdf1 w d = 0 /\ sd_sdf1 w d * k <= sd_spd1 w d /\ sd_spd1 w d < U32 /\
    sd_align w d = SdOk (mkSigDef (sd_sdf1 w d * k) (sd_sdf1 w d) (sd_eps1 w d) (sd_sumdf1 w d)
                                   (anno (sd_defaults w d)) (utc (sd_defaults w d))).
Proof.
  intros w d Hw G1 G2 G3.
  destruct (width_facts w Hw) as (Hw0 & Hm0 & Hm256 & _ & _).
  destruct (mins w d) as (M1 & M2 & M3 & M4).
  unfold guard_sdf, guard_spd, guard_eps in *.
  pose proof (round_spec (sd_sdf0 w d) (sd_multiple w) Hm0) as (R1 & R2 & R3).
  fold (sd_sdf1 w d) in R1, R2, R3.
  assert (Hs0 : sd_sdf1 w d <> 0) by lia.
  assert (Hu0 : sd_sumdf1 w d <> 0) by lia.
  pose proof (round_spec (sd_spd0 w d) (sd_sdf1 w d) Hs0) as (S1 & S2 & S3).
  fold (sd_spd1 w d) in S1, S2, S3.
  pose proof (round_spec (sd_eps0 w d) (sd_sumdf1 w d) Hu0) as (E1 & E2 & E3).
  fold (sd_eps1 w d) in E1, E2, E3.
  assert (Hdiv : sd_spd1 w d = sd_sdf1 w d * (sd_spd1 w d / sd_sdf1 w d)) by (apply N.div_exact; assumption).
  assert (Hepd : 1 <= sd_spd1 w d / sd_sdf1 w d).
  { destruct (N.eq_dec (sd_spd1 w d / sd_sdf1 w d) 0) as [Z|Z]; [rewrite Z in Hdiv; lia|lia]. }
  destruct (fit_loop_total (sd_eps1 w d) (sd_spd1 w d / sd_sdf1 w d) Hepd) as (k & Hk & HL).
  exists k. split; [exact HL|]. split; [exact S1|].
  assert (Hle : sd_sdf1 w d * k <= sd_spd1 w d).
  { eapply N.le_trans; [|apply N.eq_le_incl; symmetry; exact Hdiv].
    apply N.mul_le_mono_l. destruct HL as (_ & B & _). exact B. }
  split; [exact Hle|]. split; [lia|].
  unfold sd_align.
  destruct (w =? 0) eqn:Ew; [apply N.eqb_eq in Ew; contradiction|].
  fold (sd_sdf0 w d) (sd_spd0 w d) (sd_eps0 w d) (sd_sumdf1 w d).
  rewrite (round_up_exact (sd_sdf0 w d) (sd_multiple w)) by (try assumption; lia).
  fold (sd_sdf1 w d). cbn [sd_bind].
  rewrite (round_up_exact (sd_eps0 w d) (sd_sumdf1 w d)) by (try assumption; lia).
  fold (sd_eps1 w d). cbn [sd_bind].
  rewrite (round_up_exact (sd_spd0 w d) (sd_sdf1 w d)) by (try assumption; lia).
  fold (sd_spd1 w d). cbn [sd_bind].
  destruct (sd_sdf1 w d =? 0) eqn:Es; [apply N.eqb_eq in Es; contradiction|].
  rewrite Hk. cbn [sd_bind].
  rewrite u32_small by lia. reflexivity.
Qed.

(* ------------------------------------------------------------------ *)
(* align_ok_partial                                                    *)

Lemma align_ok_partial : forall w d, In w sd_widths -> sd_guard w d ->
  exists d', sd_align w d = SdOk d' /\ Consistent w d' /\
             (w <> 24 -> Entry256 w d') /\
             sdf d' mod sd_multiple w = 0 /\ spd d' < U32 /\ sdf d' < U32 /\ eps d' < U32.
Proof.
  intros w d Hw (G1 & G2 & G3 & G4a & G4b).
  destruct (align_guarded_form w d Hw G1 G2 G3) as (k & (K1 & K2 & K3 & K4) & S1 & Hle & Hlt & Hal).
  destruct (width_facts w Hw) as (Hw0 & Hm0 & Hm256 & WF & _).
  destruct (mins w d) as (M1 & M2 & M3 & M4).
  unfold guard_sdf, guard_spd, guard_eps in *.
  pose proof (round_spec (sd_sdf0 w d) (sd_multiple w) Hm0) as (R1 & R2 & R3).
  fold (sd_sdf1 w d) in R1, R2, R3.
  assert (Hs0 : sd_sdf1 w d <> 0) by lia.
  assert (Hu0 : sd_sumdf1 w d <> 0) by lia.
  pose proof (round_spec (sd_eps0 w d) (sd_sumdf1 w d) Hu0) as (E1 & E2 & E3).
  fold (sd_eps1 w d) in E1, E2, E3.
  destruct (WF (sd_sdf1 w d) R1) as (W1 & W2 & W3).
  assert (Hk0 : k <> 0) by lia.
  assert (Hq : sd_sdf1 w d * k / sd_sdf1 w d = k) by (rewrite N.mul_comm; apply N.div_mul; exact Hs0).
  assert (Hr : (sd_sdf1 w d * k) mod sd_sdf1 w d = 0) by (rewrite N.mul_comm; apply N.mod_mul; exact Hs0).
  assert (Hge : sd_sdf1 w d * 1 <= sd_sdf1 w d * k) by (apply N.mul_le_mono_l; exact K1).
  eexists. split; [exact Hal|].
  cbn [spd sdf eps sumdf anno utc].
  split.
  { unfold Consistent. cbn [spd sdf eps sumdf anno utc]. rewrite Hq. unfold_consts.
    split; [exact W1|]. split; [exact W2|].
    split; [split; [exact Hs0|exact Hr]|].
    split; [split; [exact Hk0|exact K3]|].
    split; [split; [exact Hu0|exact E1]|].
    split; [clear - Hge R2 M1; lia|]. split; [clear - R2 M1; lia|].
    split; [clear - E2 M3; lia|]. split; [clear - M4; lia|].
    split; [clear - G4a; lia|clear - G4b; lia]. }
  split; [exact W3|].
  split; [exact R1|].
  split; [clear - Hle Hlt; lia|]. split; [clear - R3 G1; lia|clear - E3 G3; lia].
Qed.

(* ------------------------------------------------------------------ *)
(* tightness: outside the guard the C faults or stores inconsistent    *)
(* parameters                                                          *)

Lemma align_guard_necessary : forall w d d', In w sd_widths -> in_range d ->
  sd_align w d = SdOk d' -> Consistent w d' -> sd_guard w d.
Proof.
  intros w d d' Hw Hr Hal Hc.
  destruct (width_facts w Hw) as (Hw0 & Hm0 & Hm256 & _ & _).
  destruct (mins w d) as (M1 & M2 & M3 & M4).
  pose proof (defaults_in_range w d Hw Hr) as (D1 & D2 & D3 & D4 & D5 & D6).
  assert (B1 : sd_sdf0 w d < U32) by (unfold sd_sdf0, U32 in *; unfold_consts; lia).
  assert (B2 : sd_spd0 w d < U32) by (unfold sd_spd0, U32 in *; unfold_consts; lia).
  assert (B3 : sd_eps0 w d < U32) by (unfold sd_eps0, U32 in *; unfold_consts; lia).
  assert (B4 : sd_sumdf1 w d < U32) by (unfold sd_sumdf1, U32 in *; unfold_consts; lia).
  assert (Hu0 : sd_sumdf1 w d <> 0) by lia.
  assert (Ew : (w =? 0) = false) by (apply N.eqb_neq; exact Hw0).
  (* 1: the rounding of sample_decimate_factor *)
  destruct (N.lt_ge_cases (sd_sdf0 w d + sd_multiple w - 1) U32) as [G1|G1].
  2:{ exfalso. unfold sd_align in Hal. rewrite Ew in Hal.
      fold (sd_sdf0 w d) (sd_spd0 w d) (sd_eps0 w d) (sd_sumdf1 w d) in Hal.
      rewrite (round_up_wraps (sd_sdf0 w d) (sd_multiple w)) in Hal by (unfold U32 in *; try assumption; lia).
      cbn [sd_bind] in Hal.
      destruct (sd_round_up (sd_eps0 w d) (sd_sumdf1 w d)); cbn in Hal; discriminate. }
  pose proof (round_spec (sd_sdf0 w d) (sd_multiple w) Hm0) as (R1 & R2 & R3).
  fold (sd_sdf1 w d) in R1, R2, R3.
  assert (Hs0 : sd_sdf1 w d <> 0) by lia.
  assert (Es : (sd_sdf1 w d =? 0) = false) by (apply N.eqb_neq; exact Hs0).
  (* 2: the rounding of samples_per_data *)
  destruct (N.lt_ge_cases (sd_spd0 w d + sd_sdf1 w d - 1) U32) as [G2|G2].
  2:{ exfalso. unfold sd_align in Hal. rewrite Ew in Hal.
      fold (sd_sdf0 w d) (sd_spd0 w d) (sd_eps0 w d) (sd_sumdf1 w d) in Hal.
      rewrite (round_up_exact (sd_sdf0 w d) (sd_multiple w)) in Hal by (try assumption; lia).
      fold (sd_sdf1 w d) in Hal. cbn [sd_bind] in Hal.
      destruct (sd_round_up (sd_eps0 w d) (sd_sumdf1 w d)); [|cbn in Hal; discriminate].
      cbn [sd_bind] in Hal.
      rewrite (round_up_wraps (sd_spd0 w d) (sd_sdf1 w d)) in Hal by (try assumption; lia).
      cbn [sd_bind] in Hal. rewrite Es in Hal.
      rewrite N.div_0_l in Hal by exact Hs0. cbn in Hal. discriminate. }
  (* 3: the rounding of entries_per_summary *)
  destruct (N.lt_ge_cases (sd_eps0 w d + sd_sumdf1 w d - 1) U32) as [G3|G3].
  2:{ exfalso. unfold sd_align in Hal. rewrite Ew in Hal.
      fold (sd_sdf0 w d) (sd_spd0 w d) (sd_eps0 w d) (sd_sumdf1 w d) in Hal.
      rewrite (round_up_exact (sd_sdf0 w d) (sd_multiple w)) in Hal by (try assumption; lia).
      fold (sd_sdf1 w d) in Hal. cbn [sd_bind] in Hal.
      rewrite (round_up_wraps (sd_eps0 w d) (sd_sumdf1 w d)) in Hal by (try assumption; lia).
      cbn [sd_bind] in Hal.
      destruct (sd_round_up (sd_spd0 w d) (sd_sdf1 w d)); [|cbn in Hal; discriminate].
      cbn [sd_bind] in Hal. rewrite Es in Hal.
      destruct (sd_fit_loop _ 0 _); [|cbn in Hal; discriminate].
      cbn [sd_bind] in Hal. injection Hal as <-.
      destruct Hc as (_ & _ & _ & _ & _ & _ & _ & C8 & _). cbn [eps] in C8.
      unfold_consts. lia. }
  (* 4: annotation / utc factors *)
  destruct (align_guarded_form w d Hw G1 G2 G3) as (k & _ & _ & _ & _ & Hal').
  rewrite Hal' in Hal. injection Hal as <-.
  destruct Hc as (_ & _ & _ & _ & _ & _ & _ & _ & _ & C10 & C11). cbn [anno utc] in C10, C11.
  repeat split; try assumption; lia.
Qed.

Theorem align_ok_iff : forall w d, In w sd_widths -> in_range d ->
  ((exists d', sd_align w d = SdOk d' /\ Consistent w d') <-> sd_guard w d).
Proof.
  intros w d Hw Hr. split.
  - intros (d' & Hal & Hc). eapply align_guard_necessary; eassumption.
  - intros G. destruct (align_ok_partial w d Hw G) as (d' & Hal & Hc & _). eauto.
Qed.

(* ------------------------------------------------------------------ *)
(* idempotence                                                         *)

Lemma align_idem : forall w d, In w sd_widths -> Consistent w d ->
  sdf d mod sd_multiple w = 0 ->
  spd d + sdf d - 1 < U32 -> eps d + sumdf d - 1 < U32 ->
  sd_align w d = SdOk d.
Proof.
  intros w d Hw Hc Hm G2 G3.
  destruct Hc as (_ & _ & (C3a & C3b) & (C4a & C4b) & (C5a & C5b) & C6 & C7 & C8 & C9 & C10 & C11).
  destruct (width_facts w Hw) as (Hw0 & Hm0 & Hm256 & _ & _).
  unfold_consts.
  assert (N1 : spd d <> 0) by (clear - C6; lia).
  assert (N3 : eps d <> 0) by (clear - C8; lia).
  assert (N5 : anno d <> 0) by (clear - C10; lia).
  assert (N6 : utc d <> 0) by (clear - C11; lia).
  assert (Hd : sd_defaults w d = d) by (apply defaults_fixed; assumption).
  assert (E0 : sd_sdf0 w d = sdf d) by (unfold sd_sdf0; rewrite Hd; unfold_consts; clear - C7; lia).
  assert (E1 : sd_sdf1 w d = sdf d) by (unfold sd_sdf1; rewrite E0; apply round_multiple; assumption).
  assert (E2 : sd_spd0 w d = spd d) by (unfold sd_spd0; rewrite Hd; unfold_consts; clear - C6; lia).
  assert (E3 : sd_eps0 w d = eps d) by (unfold sd_eps0; rewrite Hd; unfold_consts; clear - C8; lia).
  assert (E4 : sd_sumdf1 w d = sumdf d) by (unfold sd_sumdf1; rewrite Hd; unfold_consts; clear - C9; lia).
  assert (E5 : sd_eps1 w d = eps d) by (unfold sd_eps1; rewrite E3, E4; apply round_multiple; assumption).
  assert (E6 : sd_spd1 w d = spd d) by (unfold sd_spd1; rewrite E2, E1; apply round_multiple; assumption).
  assert (L1 : sd_multiple w <= sdf d) by (apply mod0_le; assumption).
  assert (L2 : sdf d <= spd d) by (apply mod0_le; assumption).
  assert (G1 : guard_sdf w d) by (unfold guard_sdf; rewrite E0; clear - L1 L2 G2; lia).
  assert (G2' : guard_spd w d) by (unfold guard_spd; rewrite E2, E1; exact G2).
  assert (G3' : guard_eps w d) by (unfold guard_eps; rewrite E3, E4; exact G3).
  destruct (align_guarded_form w d Hw G1 G2' G3') as (k & HL & _ & _ & _ & Hal).
  rewrite Hal, E1, E4, E5, Hd. rewrite E5, E6, E1 in HL.
  assert (HL' : LargestDiv (eps d) (spd d / sdf d) (spd d / sdf d)).
  { generalize dependent (spd d / sdf d). intros q C4a C4b _. repeat split; try assumption; clear - C4a; lia. }
  rewrite (LargestDiv_unique _ _ _ _ HL HL').
  assert (Hx : sdf d * (spd d / sdf d) = spd d) by (symmetry; apply N.div_exact; assumption).
  rewrite Hx. destruct d; reflexivity.
Qed.

(* normalising twice: the second pass is the identity as soon as its own two roundings
   do not wrap (they can: see align_twice_refuted) *)
Lemma align_twice : forall w d d', In w sd_widths -> sd_guard w d -> sd_align w d = SdOk d' ->
  spd d' + sdf d' - 1 < U32 -> eps d' + sumdf d' - 1 < U32 ->
  sd_align w d' = SdOk d'.
Proof.
  intros w d d' Hw G Hal G2 G3.
  destruct (align_ok_partial w d Hw G) as (d2 & Hal2 & Hc & _ & Hm & _).
  rewrite Hal in Hal2. injection Hal2 as <-.
  apply align_idem; assumption.
Qed.

(* ------------------------------------------------------------------ *)
(* defaults                                                            *)

Lemma align_defaults : forall w d, In w sd_widths -> w <> 24 ->
  exists t, sd_table w = Some t /\
    (spd t <> 0 /\ sdf t <> 0 /\ eps t <> 0 /\ sumdf t <> 0 /\ anno t <> 0 /\ utc t <> 0) /\
    let d1 := mkSigDef (if spd d =? 0 then spd t else spd d) (if sdf d =? 0 then sdf t else sdf d)
                       (if eps d =? 0 then eps t else eps d) (if sumdf d =? 0 then sumdf t else sumdf d)
                       (if anno d =? 0 then anno t else anno d) (if utc d =? 0 then utc t else utc d) in
    sd_defaults w d = d1 /\ sd_defaults w d1 = d1 /\ sd_align w d = sd_align w d1.
Proof.
  intros w d Hw H24.
  destruct (table_some_or_24 w Hw) as [->|(t & Ht & N1 & N2 & N3 & N4 & N5 & N6 & _)]; [contradiction|].
  exists t. split; [exact Ht|]. split; [repeat split; assumption|].
  assert (E : sd_defaults w d =
              mkSigDef (if spd d =? 0 then spd t else spd d) (if sdf d =? 0 then sdf t else sdf d)
                       (if eps d =? 0 then eps t else eps d) (if sumdf d =? 0 then sumdf t else sumdf d)
                       (if anno d =? 0 then anno t else anno d) (if utc d =? 0 then utc t else utc d)).
  { unfold sd_defaults. rewrite Ht. reflexivity. }
  cbv zeta. rewrite <- E.
  split; [reflexivity|]. split; [apply defaults_idem; exact Hw|].
  apply align_depends_on_defaults. symmetry. apply defaults_idem. exact Hw.
Qed.

Lemma defaults_24_nothing : forall d, sd_defaults 24 d = d.
Proof. reflexivity. Qed.

(* ------------------------------------------------------------------ *)
(* the executable predicates reflect the propositions                  *)

Lemma consistentb_iff : forall w d, consistentb w d = true <-> Consistent w d.
Proof.
  intros w d. unfold consistentb, consistent_clauses, Consistent. cbn [forallb].
  rewrite !andb_true_iff, !orb_true_iff, !negb_true_iff, !N.eqb_eq, !N.eqb_neq, !N.leb_le.
  destruct (N.eq_dec ((SAMPLE_SIZE_BYTES_MAX * 8) mod w) 0) as [Z|Z]; tauto.
Qed.

Lemma entry256b_iff : forall w d, entry256b w d = true <-> Entry256 w d.
Proof. intros w d. unfold entry256b, Entry256. apply N.eqb_eq. Qed.

Lemma guardb_iff : forall w d, sd_guardb w d = true <-> sd_guard w d.
Proof.
  intros w d. unfold sd_guardb, guard_bits, sd_guard, guard_sdf, guard_spd, guard_eps, guard_ts. cbn [forallb].
  rewrite !andb_true_iff, !negb_true_iff, !N.eqb_neq, !N.ltb_lt. tauto.
Qed.

(* for 24-bit samples the stored entry is a multiple of 256 bits exactly when the
   rounded factor happens to be a multiple of 32 *)
Lemma entry256_24 : forall d, Entry256 24 d <-> sdf d mod 32 = 0.
Proof.
  intros d. unfold Entry256. change (SAMPLE_SIZE_BYTES_MAX * 8) with 256.
  generalize (sdf d). intro s. lia.
Qed.

(* ------------------------------------------------------------------ *)
(* validate                                                            *)

Lemma sample_size_arith : forall dt, sample_size dt = (dt / 256) mod 256.
Proof.
  intros dt. unfold sample_size. change 255 with (N.ones 8).
  rewrite N.land_ones, N.shiftr_div_pow2. reflexivity.
Qed.

Lemma validate_ok_width : forall sid src ty dt,
  sd_validate sid src ty dt = 0 -> In (sample_size dt) sd_widths.
Proof.
  intros sid src ty dt H. unfold sd_validate in H.
  destruct (JLS_SIGNAL_COUNT <=? sid); [discriminate|].
  destruct (JLS_SOURCE_COUNT <=? src); [discriminate|].
  destruct (negb (ty =? JLS_SIGNAL_TYPE_FSR) && negb (ty =? JLS_SIGNAL_TYPE_VSR)); [discriminate|].
  destruct (existsb (N.eqb (N.land dt 65535)) sd_datatypes) eqn:Ex; [|discriminate].
  clear H. apply existsb_exists in Ex. destruct Ex as (x & Hin & Hx).
  apply N.eqb_eq in Hx. change 65535 with (N.ones 16) in Hx. rewrite N.land_ones in Hx.
  change (2 ^ 16) with 65536 in Hx.
  rewrite sample_size_arith.
  cbn [In sd_datatypes] in Hin.
  repeat (destruct Hin as [Hin|Hin];
    [rewrite <- Hin in Hx; clear Hin;
     match type of Hx with _ = ?c => let v := eval vm_compute in c in change c with v in Hx end;
     cbn [In sd_widths]; clear - Hx; lia|]).
  contradiction.
Qed.

(* ------------------------------------------------------------------ *)
(* concrete instances: hypotheses are satisfiable, defaults are fine,  *)
(* and the witnesses that refute the unguarded statement               *)

Definition sd_zero : sigdef := mkSigDef 0 0 0 0 0 0.

Lemma in_range_b : forall d,
  (spd d <? U32) && (sdf d <? U32) && (eps d <? U32) && (sumdf d <? U32) && (anno d <? U32) && (utc d <? U32) = true ->
  in_range d.
Proof.
  intros d H. rewrite !andb_true_iff, !N.ltb_lt in H. unfold in_range. tauto.
Qed.

(* every all-defaults definition (all six fields zero) meets the guard; for 24-bit
   samples it does not (no defaults: annotation/utc factors stay zero) *)
Lemma defaults_meet_guard : forall w, In w sd_widths -> w <> 24 -> sd_guard w sd_zero.
Proof.
  intros w Hw H24. cbn [In sd_widths] in Hw.
  destruct Hw as [H|[H|[H|[H|[H|[H|[H|H]]]]]]]; [subst w ..|contradiction];
  try contradiction; apply guardb_iff; vm_compute; reflexivity.
Qed.

Lemma defaults_24_fail_guard : ~ sd_guard 24 sd_zero.
Proof. intro H. apply guardb_iff in H. vm_compute in H. discriminate. Qed.

Lemma defaults_normal_forms :
  sd_align 1 sd_zero = SdOk (mkSigDef DEF1_samples_per_data DEF1_sample_decimate_factor DEF1_entries_per_summary DEF1_summary_decimate_factor DEF32_annotation_decimate_factor DEF32_utc_decimate_factor) /\
  sd_align 4 sd_zero = SdOk (mkSigDef DEF4_samples_per_data DEF4_sample_decimate_factor DEF4_entries_per_summary DEF4_summary_decimate_factor DEF32_annotation_decimate_factor DEF32_utc_decimate_factor) /\
  sd_align 8 sd_zero = SdOk (mkSigDef DEF8_samples_per_data DEF8_sample_decimate_factor DEF8_entries_per_summary DEF8_summary_decimate_factor DEF32_annotation_decimate_factor DEF32_utc_decimate_factor) /\
  sd_align 16 sd_zero = SdOk (mkSigDef DEF16_samples_per_data DEF16_sample_decimate_factor DEF16_entries_per_summary DEF16_summary_decimate_factor DEF32_annotation_decimate_factor DEF32_utc_decimate_factor) /\
  sd_align 32 sd_zero = SdOk (mkSigDef DEF32_samples_per_data DEF32_sample_decimate_factor DEF32_entries_per_summary DEF32_summary_decimate_factor DEF32_annotation_decimate_factor DEF32_utc_decimate_factor) /\
  sd_align 64 sd_zero = SdOk (mkSigDef DEF64_samples_per_data DEF64_sample_decimate_factor DEF64_entries_per_summary DEF64_summary_decimate_factor DEF32_annotation_decimate_factor DEF32_utc_decimate_factor).
Proof. vm_compute. repeat split; reflexivity. Qed.

(* a non-trivial guarded definition: f32, (1000, 100, 33, 17, 3, 3) -> (208, 104, 34, 17, 3, 3) *)
Lemma guard_example :
  sd_guard 32 (mkSigDef 1000 100 33 17 3 3) /\
  sd_align 32 (mkSigDef 1000 100 33 17 3 3) = SdOk (mkSigDef 208 104 34 17 3 3).
Proof. split; [apply guardb_iff; vm_compute; reflexivity|vm_compute; reflexivity]. Qed.

Lemma guard_example_24 :
  sd_guard 24 (mkSigDef 100 11 100 10 5 5) /\
  sd_align 24 (mkSigDef 100 11 100 10 5 5) = SdOk (mkSigDef 100 20 100 10 5 5).
Proof. split; [apply guardb_iff; vm_compute; reflexivity|vm_compute; reflexivity]. Qed.

Lemma idem_example :
  let d := mkSigDef 8192 128 640 20 100 100 in
  In 32 sd_widths /\ Consistent 32 d /\ sdf d mod sd_multiple 32 = 0 /\
  spd d + sdf d - 1 < U32 /\ eps d + sumdf d - 1 < U32.
Proof.
  cbv zeta. split; [cbn; tauto|]. split; [apply consistentb_iff; vm_compute; reflexivity|].
  vm_compute. repeat split; reflexivity.
Qed.

(* --- witnesses --- *)

(* u64, sample_decimate_factor = 2^32-6: rounds to 2^32-4 without wrapping, then the
   rounding of samples_per_data wraps to 0, entries_per_data = 0, SIGFPE in the loop test *)
Lemma refuted_divzero_spd :
  sd_validate 1 1 JLS_SIGNAL_TYPE_FSR JLS_DATATYPE_U64 = 0 /\
  in_range (mkSigDef 0 4294967290 0 0 0 0) /\
  sd_align (sample_size JLS_DATATYPE_U64) (mkSigDef 0 4294967290 0 0 0 0) = SdFault SdDivZero.
Proof. split; [reflexivity|]. split; [apply in_range_b; reflexivity|vm_compute; reflexivity]. Qed.

(* f32, sample_decimate_factor = 2^32-1: the rounding itself wraps to 0, SIGFPE in
   round_up_to_multiple(samples_per_data, 0) *)
Lemma refuted_divzero_sdf :
  sd_validate 1 1 JLS_SIGNAL_TYPE_FSR JLS_DATATYPE_F32 = 0 /\
  in_range (mkSigDef 0 4294967295 0 0 0 0) /\
  sd_align (sample_size JLS_DATATYPE_F32) (mkSigDef 0 4294967295 0 0 0 0) = SdFault SdDivZero.
Proof. split; [reflexivity|]. split; [apply in_range_b; reflexivity|vm_compute; reflexivity]. Qed.

(* f32, entries_per_summary = 2^32-1: rounds (wraps) to 0 and is stored as 0 *)
Lemma refuted_eps_zero :
  sd_validate 1 1 JLS_SIGNAL_TYPE_FSR JLS_DATATYPE_F32 = 0 /\
  in_range (mkSigDef 0 0 4294967295 0 0 0) /\
  sd_align (sample_size JLS_DATATYPE_F32) (mkSigDef 0 0 4294967295 0 0 0) = SdOk (mkSigDef 8192 128 0 20 100 100) /\
  ~ Consistent (sample_size JLS_DATATYPE_F32) (mkSigDef 8192 128 0 20 100 100).
Proof.
  split; [reflexivity|]. split; [apply in_range_b; reflexivity|]. split; [vm_compute; reflexivity|].
  intro H. apply consistentb_iff in H. vm_compute in H. discriminate.
Qed.

(* i24, everything zero: no defaults at all; annotation/utc factors stay 0 and the
   level-1 entry covers 240 bits *)
Lemma refuted_24bit :
  sd_validate 1 1 JLS_SIGNAL_TYPE_FSR JLS_DATATYPE_I24 = 0 /\
  sd_align (sample_size JLS_DATATYPE_I24) sd_zero = SdOk (mkSigDef 10 10 10 10 0 0) /\
  ~ Consistent (sample_size JLS_DATATYPE_I24) (mkSigDef 10 10 10 10 0 0) /\
  ~ Entry256 (sample_size JLS_DATATYPE_I24) (mkSigDef 10 10 10 10 0 0).
Proof.
  split; [reflexivity|]. split; [vm_compute; reflexivity|]. split.
  - intro H. apply consistentb_iff in H. vm_compute in H. discriminate.
  - intro H. apply entry256b_iff in H. vm_compute in H. discriminate.
Qed.

(* u24 with non-zero annotation/utc factors: everything holds except "multiple of 256 bits" *)
Lemma refuted_24bit_entry256 :
  sd_guard 24 (mkSigDef 100 11 100 10 5 5) /\
  sd_align 24 (mkSigDef 100 11 100 10 5 5) = SdOk (mkSigDef 100 20 100 10 5 5) /\
  Consistent 24 (mkSigDef 100 20 100 10 5 5) /\ ~ Entry256 24 (mkSigDef 100 20 100 10 5 5).
Proof.
  split; [apply guardb_iff; vm_compute; reflexivity|]. split; [vm_compute; reflexivity|]. split.
  - apply consistentb_iff. vm_compute. reflexivity.
  - intro H. apply entry256b_iff in H. vm_compute in H. discriminate.
Qed.

(* stored parameters that satisfy every relation and fit in 32 bits, yet normalising
   them again divides by zero: u64 (3*2^30, 3*2^30, 10, 10, 100, 100) *)
Lemma refuted_idem_consistent_only :
  let d := mkSigDef 3221225472 3221225472 10 10 100 100 in
  Consistent 64 d /\ in_range d /\ sdf d mod sd_multiple 64 = 0 /\ sd_align 64 d = SdFault SdDivZero.
Proof.
  cbv zeta. split; [apply consistentb_iff; vm_compute; reflexivity|].
  split; [apply in_range_b; reflexivity|]. split; vm_compute; reflexivity.
Qed.

(* a definition inside the guard whose normal form is outside it: the second file faults *)
Lemma refuted_twice_divzero :
  let d := mkSigDef 10 3221225472 10 10 0 0 in
  let d' := mkSigDef 3221225472 3221225472 10 10 100 100 in
  sd_guard 64 d /\ sd_align 64 d = SdOk d' /\ Consistent 64 d' /\ sd_align 64 d' = SdFault SdDivZero.
Proof.
  cbv zeta. split; [apply guardb_iff; vm_compute; reflexivity|]. split; [vm_compute; reflexivity|].
  split; [apply consistentb_iff; vm_compute; reflexivity|vm_compute; reflexivity].
Qed.

(* the same through entries_per_summary: f32, summary_decimate_factor = 2^31+1; the second
   pass stores entries_per_summary = 0 *)
Lemma refuted_twice_changes :
  let d := mkSigDef 0 0 10 2147483649 0 0 in
  let d' := mkSigDef 384 128 2147483649 2147483649 100 100 in
  sd_guard 32 d /\ sd_align 32 d = SdOk d' /\ Consistent 32 d' /\
  sd_align 32 d' = SdOk (mkSigDef 384 128 0 2147483649 100 100).
Proof.
  cbv zeta. split; [apply guardb_iff; vm_compute; reflexivity|]. split; [vm_compute; reflexivity|].
  split; [apply consistentb_iff; vm_compute; reflexivity|vm_compute; reflexivity].
Qed.
