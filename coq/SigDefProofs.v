(* C16: proofs about the model in SigDef.v (current code, /repo at 9149f75; the old_ lemmas at the end document
   the behaviour before the fixes) *)
From Coq Require Import NArith ZArith List Bool Lia ZifyBool ZifyN ZifyNat.
From JLS Require Import Generated SigDef.
Import ListNotations.
Local Open Scope N_scope.
Ltac Zify.zify_post_hook ::= Z.div_mod_to_equations.

(* ------------------------------------------------------------------ *)
(* arithmetic helpers                                                  *)

Lemma u32_small : forall x, x < U32 -> u32 x = x.
Proof. intros x H. unfold u32. apply N.mod_small. exact H. Qed.

Lemma div_mul_le : forall x m, x / m * m <= x.
Proof.
  intros x m. destruct (N.eq_dec m 0) as [->|Hm].
  - rewrite N.mul_0_r. apply N.le_0_l.
  - rewrite N.mul_comm. apply N.mul_div_le. exact Hm.
Qed.

(* exact multiples are fixed by rounding up *)
Lemma round_multiple : forall x m, m <> 0 -> x mod m = 0 -> (x + m - 1) / m * m = x.
Proof.
  intros x m Hm Hx.
  apply N.div_exact in Hx; [|exact Hm].
  set (q := x / m) in *.
  replace (x + m - 1) with (q * m + (m - 1)) by (rewrite Hx; lia).
  rewrite N.div_add_l by exact Hm.
  rewrite (N.div_small (m - 1) m) by lia.
  rewrite N.add_0_r. rewrite Hx. apply N.mul_comm.
Qed.

(* rounding up: result is a multiple, >= x, < x + m *)
Lemma round_spec : forall x m, m <> 0 ->
  let r := (x + m - 1) / m * m in
  r mod m = 0 /\ x <= r /\ r <= x + m - 1.
Proof.
  intros x m Hm r. subst r.
  split; [apply N.mod_mul; exact Hm|].
  split; [|apply div_mul_le].
  pose proof (N.div_mod (x + m - 1) m Hm) as E.
  pose proof (N.mod_upper_bound (x + m - 1) m Hm) as B.
  rewrite (N.mul_comm m) in E. lia.
Qed.

Lemma is_div_iff : forall e k, k <> 0 -> (sd_is_div e k = true <-> e mod k = 0).
Proof.
  intros e k Hk. unfold sd_is_div. rewrite N.eqb_eq.
  pose proof (N.div_mod e k Hk) as E.
  pose proof (N.mod_upper_bound e k Hk) as B.
  rewrite (N.mul_comm k) in E. split; intro H; lia.
Qed.

Lemma mod0_le : forall e j, e <> 0 -> j <> 0 -> e mod j = 0 -> j <= e.
Proof.
  intros e j He Hj H.
  destruct (N.le_gt_cases j e) as [L|G]; [exact L|].
  rewrite N.mod_small in H by exact G. contradiction.
Qed.

(* ------------------------------------------------------------------ *)
(* the loop                                                            *)

(* k is the largest divisor of e that is <= epd *)
Definition LargestDiv (e epd k : N) : Prop :=
  1 <= k /\ k <= epd /\ e mod k = 0 /\ forall j, 1 <= j -> j <= epd -> e mod j = 0 -> j <= k.

Lemma LargestDiv_unique : forall e epd k1 k2, LargestDiv e epd k1 -> LargestDiv e epd k2 -> k1 = k2.
Proof.
  intros e epd k1 k2 (A1 & B1 & C1 & D1) (A2 & B2 & C2 & D2).
  pose proof (D1 k2 A2 B2 C2). pose proof (D2 k1 A1 B1 C1). lia.
Qed.

Lemma fit_loop_spec : forall fuel e epd k,
  sd_fit_loop fuel e epd = SdOk k -> LargestDiv e epd k.
Proof.
  induction fuel as [|f IH]; intros e epd k H; cbn [sd_fit_loop] in H.
  - destruct (epd =? 0) eqn:E0; [discriminate|].
    destruct (sd_is_div e epd) eqn:Ed; [|discriminate].
    injection H as <-. apply N.eqb_neq in E0. apply is_div_iff in Ed; [|exact E0].
    repeat split; lia.
  - destruct (epd =? 0) eqn:E0; [discriminate|].
    apply N.eqb_neq in E0.
    destruct (sd_is_div e epd) eqn:Ed.
    + injection H as <-. apply is_div_iff in Ed; [|exact E0].
      repeat split; lia.
    + apply IH in H. destruct H as (A & B & C & D).
      repeat split; try lia.
      intros j J1 J2 J3.
      destruct (N.eq_dec j epd) as [->|Hne].
      * apply is_div_iff in J3; [|exact E0]. congruence.
      * apply D; lia.
Qed.

(* termination: fuel = entries_per_data is enough *)
Lemma fit_loop_terminates : forall fuel e epd,
  1 <= epd -> (N.to_nat epd <= S fuel)%nat -> exists k, sd_fit_loop fuel e epd = SdOk k.
Proof.
  induction fuel as [|f IH]; intros e epd H1 Hf; cbn [sd_fit_loop].
  - assert (epd = 1) as -> by lia.
    cbn. unfold sd_is_div. rewrite N.div_1_r, N.mul_1_r, N.eqb_refl. eauto.
  - destruct (epd =? 0) eqn:E0; [apply N.eqb_eq in E0; lia|].
    destruct (sd_is_div e epd) eqn:Ed; [eauto|].
    destruct (N.eq_dec epd 1) as [->|Hne].
    + unfold sd_is_div in Ed. rewrite N.div_1_r, N.mul_1_r, N.eqb_refl in Ed. discriminate.
    + apply IH; lia.
Qed.

Lemma fit_loop_zero : forall fuel e, sd_fit_loop fuel e 0 = SdFault SdDivZero.
Proof. destruct fuel; reflexivity. Qed.

Lemma fit_loop_total : forall e epd, 1 <= epd ->
  exists k, sd_fit_loop (N.to_nat epd) e epd = SdOk k /\ LargestDiv e epd k.
Proof.
  intros e epd H.
  destruct (fit_loop_terminates (N.to_nat epd) e epd H) as [k Hk]; [lia|].
  exists k. split; [exact Hk|]. eapply fit_loop_spec; exact Hk.
Qed.

(* the C loop never reports non-termination, whatever the inputs *)
Lemma fit_loop_never_nonterm : forall e epd, sd_fit_loop (N.to_nat epd) e epd <> SdFault SdNonterm.
Proof.
  intros e epd. destruct (N.eq_dec epd 0) as [->|Hne].
  - cbn. discriminate.
  - destruct (fit_loop_total e epd) as [k [Hk _]]; [lia|]. rewrite Hk. discriminate.
Qed.

(* ------------------------------------------------------------------ *)
(* the fast evaluation of the loop is the loop                         *)

Definition ScanInv (e epd best : N) : Prop :=
  best = 0 \/ (1 <= best /\ best <= epd /\ e mod best = 0).

Lemma ScanInv_max : forall e epd a b, ScanInv e epd a -> ScanInv e epd b -> ScanInv e epd (N.max a b).
Proof.
  intros e epd a b Ha Hb. destruct (N.max_spec a b) as [[_ ->]|[_ ->]]; assumption.
Qed.

Lemma pair_small : forall e i j, j <> 0 -> e mod j = 0 -> e < i * i -> j < i \/ e / j < i.
Proof.
  intros e i j Hj Hm Hlt.
  destruct (N.lt_ge_cases j i) as [L|G]; [left; exact L|]. right.
  destruct (N.lt_ge_cases (e / j) i) as [L2|G2]; [exact L2|].
  exfalso.
  assert (i * i <= j * (e / j)) as P by (apply N.mul_le_mono; assumption).
  apply N.div_exact in Hm; [|exact Hj]. lia.
Qed.

Lemma fit_scan_spec : forall fuel e epd i best,
  e <> 0 -> 1 <= i ->
  ScanInv e epd best ->
  (forall j, 1 <= j -> j <= epd -> e mod j = 0 -> (j < i \/ e / j < i) -> j <= best) ->
  e < (i + N.of_nat fuel) * (i + N.of_nat fuel) ->
  ScanInv e epd (sd_fit_scan fuel e epd i best) /\
  (forall j, 1 <= j -> j <= epd -> e mod j = 0 -> j <= sd_fit_scan fuel e epd i best).
Proof.
  induction fuel as [|f IH]; intros e epd i best He Hi Hinv Hdone Hfuel; cbn [sd_fit_scan].
  - split; [exact Hinv|].
    intros j J1 J2 J3. apply Hdone; try assumption.
    replace (i + N.of_nat 0) with i in Hfuel by lia.
    apply pair_small; try assumption; lia.
  - destruct (e <? i * i) eqn:Elt.
    + apply N.ltb_lt in Elt. split; [exact Hinv|].
      intros j J1 J2 J3. apply Hdone; try assumption.
      apply pair_small; try assumption; lia.
    + apply N.ltb_ge in Elt.
      assert (Hi0 : i <> 0) by lia.
      set (best1 := if sd_is_div e i
                    then N.max best (N.max (if i <=? epd then i else 0) (if e / i <=? epd then e / i else 0))
                    else best).
      assert (Hmono : best <= best1).
      { subst best1. destruct (sd_is_div e i); [apply N.le_max_l|apply N.le_refl]. }
      assert (Hinv1 : ScanInv e epd best1).
      { subst best1. destruct (sd_is_div e i) eqn:Ed; [|exact Hinv].
        apply is_div_iff in Ed; [|exact Hi0].
        apply ScanInv_max; [exact Hinv|]. apply ScanInv_max.
        - destruct (i <=? epd) eqn:Ei; [|left; reflexivity].
          apply N.leb_le in Ei. right. repeat split; assumption.
        - destruct (e / i <=? epd) eqn:Ec; [|left; reflexivity].
          apply N.leb_le in Ec. right.
          assert (E : e = i * (e / i)) by (apply N.div_exact; assumption).
          remember (e / i) as c eqn:Hc.
          assert (c <> 0) by (intros ->; lia).
          repeat split; try lia.
          rewrite E. apply N.mod_mul. assumption. }
      apply IH; try assumption; try lia.
      * intros j J1 J2 J3 J4.
        assert (Hj0 : j <> 0) by lia.
        destruct (N.lt_ge_cases j i) as [L|G]; [specialize (Hdone j J1 J2 J3 (or_introl L)); lia|].
        destruct (N.lt_ge_cases (e / j) i) as [L2|G2]; [specialize (Hdone j J1 J2 J3 (or_intror L2)); lia|].
        assert (E : e = j * (e / j)) by (apply N.div_exact; assumption).
        destruct J4 as [J4|J4].
        -- assert (j = i) as -> by lia.
           assert (Ed : sd_is_div e i = true) by (apply is_div_iff; assumption).
           subst best1. rewrite Ed.
           assert (Ei : (i <=? epd) = true) by (apply N.leb_le; exact J2). rewrite Ei.
           pose proof (N.le_max_r best (N.max i (if e / i <=? epd then e / i else 0))).
           pose proof (N.le_max_l i (if e / i <=? epd then e / i else 0)). lia.
        -- assert (Hq : e / j = i) by lia.
           rewrite Hq in E.
           assert (Em : e mod i = 0) by (rewrite E; apply N.mod_mul; exact Hi0).
           assert (Eq : e / i = j) by (rewrite E; apply N.div_mul; exact Hi0).
           assert (Ed : sd_is_div e i = true) by (apply is_div_iff; assumption).
           subst best1. rewrite Ed, Eq.
           assert (Ej : (j <=? epd) = true) by (apply N.leb_le; exact J2). rewrite Ej.
           pose proof (N.le_max_r best (N.max (if i <=? epd then i else 0) j)).
           pose proof (N.le_max_r (if i <=? epd then i else 0) j). lia.
Qed.

Lemma fit_scan_largest : forall e epd, e <> 0 -> e < U32 -> 1 <= epd ->
  LargestDiv e epd (sd_fit_scan (N.to_nat 65537) e epd 1 0).
Proof.
  intros e epd He Hr Hepd.
  destruct (fit_scan_spec (N.to_nat 65537) e epd 1 0) as [Hinv Hmax]; try assumption; try lia.
  - left; reflexivity.
  - intros j J1 J2 J3 [J4|J4]; [lia|].
    assert (Hj0 : j <> 0) by lia.
    assert (E : e = j * (e / j)) by (apply N.div_exact; assumption).
    assert (e / j = 0) as Z by lia. rewrite Z in E. lia.
  - rewrite N2Nat.id. unfold U32 in Hr. lia.
  - assert (H1 : 1 <= sd_fit_scan (N.to_nat 65537) e epd 1 0).
    { apply Hmax; lia. }
    destruct Hinv as [Hz|(A & B & C)]; [lia|].
    repeat split; assumption.
Qed.

Lemma fit_fast_largest : forall e epd, e < U32 -> 1 <= epd -> LargestDiv e epd (sd_fit_fast e epd).
Proof.
  intros e epd Hr Hepd. unfold sd_fit_fast.
  destruct (e =? 0) eqn:E0.
  - apply N.eqb_eq in E0. subst e.
    repeat split; lia.
  - apply N.eqb_neq in E0.
    destruct (e <=? epd) eqn:E1.
    + apply N.leb_le in E1.
      assert (M : e mod e = 0) by (apply N.mod_same; exact E0).
      assert (D : forall j, 1 <= j -> j <= epd -> e mod j = 0 -> j <= e).
      { intros j J1 J2 J3. apply mod0_le; try assumption. lia. }
      repeat split; try assumption; lia.
    + destruct (sd_fit_loop 256 e epd) as [k|rc|f] eqn:El.
      * eapply fit_loop_spec. exact El.
      * apply fit_scan_largest; assumption.
      * apply fit_scan_largest; assumption.
Qed.

Lemma fit_fast_eq : forall e epd, e < U32 -> 1 <= epd ->
  sd_fit_loop (N.to_nat epd) e epd = SdOk (sd_fit_fast e epd).
Proof.
  intros e epd Hr Hepd.
  destruct (fit_loop_total e epd Hepd) as [k [Hk HL]].
  rewrite Hk. f_equal.
  eapply LargestDiv_unique; [exact HL|]. apply fit_fast_largest; assumption.
Qed.

Lemma fit_eq : forall e epd, e < U32 -> sd_fit_loop (N.to_nat epd) e epd = sd_fit e epd.
Proof.
  intros e epd Hr. unfold sd_fit. destruct (epd =? 0) eqn:E0.
  - apply N.eqb_eq in E0. subst epd. reflexivity.
  - apply N.eqb_neq in E0. apply fit_fast_eq; [exact Hr|lia].
Qed.


(* ------------------------------------------------------------------ *)
(* rounding (current code: 64-bit, error when the result exceeds UINT32_MAX) *)

Lemma round_up_ok : forall x m, m <> 0 -> (x + m - 1) / m * m <= U32MAX ->
  sd_round_up x m = SdOk ((x + m - 1) / m * m).
Proof.
  intros x m Hm H. unfold sd_round_up.
  destruct (m =? 0) eqn:E; [apply N.eqb_eq in E; contradiction|].
  cbv zeta. destruct (U32MAX <? (x + m - 1) / m * m) eqn:L; [apply N.ltb_lt in L; lia|reflexivity].
Qed.

Lemma round_up_err : forall x m, m <> 0 -> U32MAX < (x + m - 1) / m * m ->
  sd_round_up x m = SdErr JLS_ERROR_PARAMETER_INVALID.
Proof.
  intros x m Hm H. unfold sd_round_up.
  destruct (m =? 0) eqn:E; [apply N.eqb_eq in E; contradiction|].
  cbv zeta. destruct (U32MAX <? (x + m - 1) / m * m) eqn:L; [reflexivity|apply N.ltb_ge in L; lia].
Qed.

Lemma round_up_lt : forall x m r, sd_round_up x m = SdOk r -> r < U32.
Proof.
  intros x m r H. unfold sd_round_up in H. destruct (m =? 0); [discriminate|].
  cbv zeta in H. destruct (U32MAX <? (x + m - 1) / m * m) eqn:L; [discriminate|].
  injection H as <-. apply N.ltb_ge in L. unfold U32MAX, U32 in *. lia.
Qed.

(* ------------------------------------------------------------------ *)
(* widths, defaults                                                    *)

Ltac unfold_consts :=
  unfold SAMPLE_DECIMATE_FACTOR_MIN, SAMPLES_PER_DATA_MIN, ENTRIES_PER_SUMMARY_MIN,
         SUMMARY_DECIMATE_FACTOR_MIN in *.

Lemma width_facts : forall w, In w sd_widths ->
  w <> 0 /\ sd_multiple w <> 0 /\
  (forall s, s mod sd_multiple w = 0 <-> (s * w) mod (SAMPLE_SIZE_BYTES_MAX * 8) = 0) /\
  (forall s, (s * w) mod (SAMPLE_SIZE_BYTES_MAX * 8) = 0 -> (s * w) mod 8 = 0).
Proof.
  intros w H.
  cbn [In sd_widths] in H.
  destruct H as [H|[H|[H|[H|[H|[H|[H|H]]]]]]]; [subst w ..|contradiction];
  (split; [discriminate|]);
  (split; [vm_compute; discriminate|]);
  split; intros s; change (SAMPLE_SIZE_BYTES_MAX * 8) with 256;
  try match goal with |- context [sd_multiple ?w] =>
     let v := eval vm_compute in (sd_multiple w) in change (sd_multiple w) with v end;
  lia.
Qed.

Lemma table_some : forall w, In w sd_widths ->
  exists t, sd_table w = Some t /\
    spd t <> 0 /\ sdf t <> 0 /\ eps t <> 0 /\ sumdf t <> 0 /\ sd_anno t <> 0 /\ sd_utc t <> 0 /\
    spd t < U32 /\ sdf t < U32 /\ eps t < U32 /\ sumdf t < U32 /\ sd_anno t < U32 /\ sd_utc t < U32.
Proof.
  intros w H. cbn [In sd_widths] in H.
  destruct H as [H|[H|[H|[H|[H|[H|[H|H]]]]]]]; [subst w ..|contradiction];
  eexists; (split; [reflexivity|]); vm_compute; repeat split; try discriminate; reflexivity.
Qed.

Lemma take_nz : forall x t, x <> 0 -> sd_take x t = x.
Proof. intros x t H. unfold sd_take. destruct (x =? 0) eqn:E; [apply N.eqb_eq in E; contradiction|reflexivity]. Qed.

Lemma take_cases : forall x t, (x = 0 /\ sd_take x t = t) \/ (x <> 0 /\ sd_take x t = x).
Proof.
  intros x t. unfold sd_take. destruct (x =? 0) eqn:E.
  - left. apply N.eqb_eq in E. auto.
  - right. apply N.eqb_neq in E. auto.
Qed.

Lemma defaults_in_range : forall w d, In w sd_widths -> in_range d -> in_range (sd_defaults w d).
Proof.
  intros w d Hw (A & B & C & D & E & F).
  destruct (table_some w Hw) as (t & Ht & _ & _ & _ & _ & _ & _ & T1 & T2 & T3 & T4 & T5 & T6).
  unfold sd_defaults, sd_defaults_with. rewrite Ht. unfold in_range. cbn [spd sdf eps sumdf sd_anno sd_utc].
  repeat split;
  match goal with
  | |- sd_take ?x ?y < _ => destruct (take_cases x y) as [[_ ->]|[_ ->]]; assumption
  | |- N.max (sd_take ?x ?y) _ < _ =>
      destruct (take_cases x y) as [[_ ->]|[_ ->]]; unfold_consts; unfold U32 in *; lia
  end.
Qed.

Lemma defaults_nonzero : forall w d, In w sd_widths ->
  let d1 := sd_defaults w d in
  spd d1 <> 0 /\ sdf d1 <> 0 /\ eps d1 <> 0 /\ sumdf d1 <> 0 /\
  SUMMARY_DECIMATE_FACTOR_MIN <= sd_anno d1 /\ SUMMARY_DECIMATE_FACTOR_MIN <= sd_utc d1.
Proof.
  intros w d Hw.
  destruct (table_some w Hw) as (t & Ht & N1 & N2 & N3 & N4 & N5 & N6 & _).
  unfold sd_defaults, sd_defaults_with. rewrite Ht. cbn [spd sdf eps sumdf sd_anno sd_utc].
  repeat split;
  match goal with
  | |- sd_take ?x ?y <> 0 => destruct (take_cases x y) as [[_ ->]|[? ->]]; assumption
  | |- _ <= N.max _ _ => apply N.le_max_r
  end.
Qed.

Lemma defaults_fixed : forall w d,
  spd d <> 0 -> sdf d <> 0 -> eps d <> 0 -> sumdf d <> 0 ->
  SUMMARY_DECIMATE_FACTOR_MIN <= sd_anno d -> SUMMARY_DECIMATE_FACTOR_MIN <= sd_utc d ->
  sd_defaults w d = d.
Proof.
  intros w d A B C D E F. unfold sd_defaults, sd_defaults_with. destruct (sd_table w) as [t|]; [|reflexivity].
  cbn [spd sdf eps sumdf sd_anno sd_utc].
  assert (sd_anno d <> 0) by (unfold_consts; lia). assert (sd_utc d <> 0) by (unfold_consts; lia).
  rewrite !take_nz by assumption.
  rewrite (N.max_l (sd_anno d)) by exact E. rewrite (N.max_l (sd_utc d)) by exact F.
  destruct d; reflexivity.
Qed.

Lemma defaults_idem : forall w d, In w sd_widths -> sd_defaults w (sd_defaults w d) = sd_defaults w d.
Proof.
  intros w d Hw. destruct (defaults_nonzero w d Hw) as (A & B & C & D & E & F).
  apply defaults_fixed; assumption.
Qed.

Lemma align_depends_on_defaults : forall w d1 d2,
  sd_defaults w d1 = sd_defaults w d2 -> sd_align w d1 = sd_align w d2.
Proof. intros w d1 d2 H. unfold sd_align. rewrite H. reflexivity. Qed.

(* ------------------------------------------------------------------ *)
(* sd_align_fast = sd_align (the extracted function is the model)     *)

Lemma align_fast_eq : forall w d, sd_align_fast w d = sd_align w d.
Proof.
  intros w d. unfold sd_align_fast, sd_align_fast_info, sd_align.
  destruct (w =? 0); [reflexivity|].
  destruct (sd_round_up (N.max (sdf (sd_defaults w d)) SAMPLE_DECIMATE_FACTOR_MIN) (sd_multiple w)) as [sdf1|rc|f]; [|reflexivity..].
  cbn [sd_bind].
  destruct (sd_round_up (N.max (eps (sd_defaults w d)) ENTRIES_PER_SUMMARY_MIN)
                        (N.max (sumdf (sd_defaults w d)) SUMMARY_DECIMATE_FACTOR_MIN)) as [eps1|rc|f] eqn:Ee; [|reflexivity..].
  cbn [sd_bind].
  destruct (sd_round_up (N.max (spd (sd_defaults w d)) SAMPLES_PER_DATA_MIN) sdf1) as [spd1|rc|f]; [|reflexivity..].
  cbn [sd_bind].
  destruct (sdf1 =? 0); [reflexivity|].
  rewrite fit_eq by (eapply round_up_lt; exact Ee).
  destruct (sd_fit eps1 (spd1 / sdf1)) as [k|rc|f]; [|reflexivity..].
  cbn [sd_bind].
  destruct (sd_block_too_big w (u32 (sdf1 * k))); [reflexivity|].
  destruct (sd_summary_too_big eps1); reflexivity.
Qed.

(* ------------------------------------------------------------------ *)
(* the exact behaviour of sd_align                                     *)

Definition sd_sdf0 (w : N) (d : sd_sigdef) : N := N.max (sdf (sd_defaults w d)) SAMPLE_DECIMATE_FACTOR_MIN.
Definition sd_sdf1 (w : N) (d : sd_sigdef) : N :=
  (sd_sdf0 w d + sd_multiple w - 1) / sd_multiple w * sd_multiple w.
Definition sd_spd0 (w : N) (d : sd_sigdef) : N := N.max (spd (sd_defaults w d)) SAMPLES_PER_DATA_MIN.
Definition sd_eps0 (w : N) (d : sd_sigdef) : N := N.max (eps (sd_defaults w d)) ENTRIES_PER_SUMMARY_MIN.
Definition sd_sumdf1 (w : N) (d : sd_sigdef) : N := N.max (sumdf (sd_defaults w d)) SUMMARY_DECIMATE_FACTOR_MIN.
Definition sd_eps1 (w : N) (d : sd_sigdef) : N :=
  (sd_eps0 w d + sd_sumdf1 w d - 1) / sd_sumdf1 w d * sd_sumdf1 w d.
Definition sd_spd1 (w : N) (d : sd_sigdef) : N :=
  (sd_spd0 w d + sd_sdf1 w d - 1) / sd_sdf1 w d * sd_sdf1 w d.
Definition sd_k (w : N) (d : sd_sigdef) : N := sd_fit_fast (sd_eps1 w d) (sd_spd1 w d / sd_sdf1 w d).
Definition sd_spd2 (w : N) (d : sd_sigdef) : N := sd_sdf1 w d * sd_k w d.

(* exactly the definitions the current code accepts *)
Definition sd_accepts (w : N) (d : sd_sigdef) : Prop :=
  sd_sdf1 w d <= U32MAX /\ sd_eps1 w d <= U32MAX /\ sd_spd1 w d <= U32MAX /\
  sd_spd2 w d * w / 8 <= U32MAX / 2 /\
  sd_eps1 w d * JLS_SUMMARY_FSR_COUNT * SD_SIZEOF_DOUBLE <= U32MAX / 2.

Definition sd_normal (w : N) (d : sd_sigdef) : sd_sigdef :=
  mkSigDef (sd_spd2 w d) (sd_sdf1 w d) (sd_eps1 w d) (sd_sumdf1 w d)
           (sd_anno (sd_defaults w d)) (sd_utc (sd_defaults w d)).

Lemma mins : forall w d,
  10 <= sd_sdf0 w d /\ 10 <= sd_spd0 w d /\ 10 <= sd_eps0 w d /\ 10 <= sd_sumdf1 w d.
Proof. intros. unfold sd_sdf0, sd_spd0, sd_eps0, sd_sumdf1. unfold_consts. lia. Qed.

(* facts about the intermediate values, independent of acceptance *)
Lemma normal_facts : forall w d, In w sd_widths -> sd_eps1 w d < U32 ->
  sd_sdf1 w d mod sd_multiple w = 0 /\ 10 <= sd_sdf1 w d /\
  sd_eps1 w d mod sd_sumdf1 w d = 0 /\ 10 <= sd_eps1 w d /\ 10 <= sd_sumdf1 w d /\
  sd_spd1 w d mod sd_sdf1 w d = 0 /\ 10 <= sd_spd1 w d /\
  1 <= sd_spd1 w d / sd_sdf1 w d /\
  LargestDiv (sd_eps1 w d) (sd_spd1 w d / sd_sdf1 w d) (sd_k w d) /\
  sd_spd2 w d <= sd_spd1 w d.
Proof.
  intros w d Hw He.
  destruct (width_facts w Hw) as (Hw0 & Hm0 & _ & _).
  destruct (mins w d) as (M1 & M2 & M3 & M4).
  pose proof (round_spec (sd_sdf0 w d) (sd_multiple w) Hm0) as (R1 & R2 & R3).
  fold (sd_sdf1 w d) in R1, R2, R3.
  assert (Hs0 : sd_sdf1 w d <> 0) by (clear - R2 M1; lia).
  assert (Hu0 : sd_sumdf1 w d <> 0) by (clear - M4; lia).
  pose proof (round_spec (sd_spd0 w d) (sd_sdf1 w d) Hs0) as (S1 & S2 & S3).
  fold (sd_spd1 w d) in S1, S2, S3.
  pose proof (round_spec (sd_eps0 w d) (sd_sumdf1 w d) Hu0) as (E1 & E2 & E3).
  fold (sd_eps1 w d) in E1, E2, E3.
  assert (Hdiv : sd_spd1 w d = sd_sdf1 w d * (sd_spd1 w d / sd_sdf1 w d)) by (apply N.div_exact; assumption).
  assert (Hepd : 1 <= sd_spd1 w d / sd_sdf1 w d).
  { destruct (N.eq_dec (sd_spd1 w d / sd_sdf1 w d) 0) as [Z|Z]; [rewrite Z in Hdiv; clear - Hdiv S2 M2; lia|clear - Z; destruct (sd_spd1 w d / sd_sdf1 w d); [contradiction|lia]]. }
  pose proof (fit_fast_largest (sd_eps1 w d) (sd_spd1 w d / sd_sdf1 w d) He Hepd) as HL.
  fold (sd_k w d) in HL.
  assert (Hle : sd_spd2 w d <= sd_spd1 w d).
  { unfold sd_spd2. eapply N.le_trans; [|apply N.eq_le_incl; symmetry; exact Hdiv].
    apply N.mul_le_mono_l. destruct HL as (_ & B & _). exact B. }
  repeat split; try assumption.
  - clear - R2 M1; lia.
  - clear - E2 M3; lia.
  - clear - S2 M2; lia.
  - destruct HL as (A & _); exact A.
  - destruct HL as (_ & B & _); exact B.
  - destruct HL as (_ & _ & C & _); exact C.
  - destruct HL as (_ & _ & _ & D); exact D.
Qed.

Theorem align_exact : forall w d, In w sd_widths ->
  (sd_accepts w d /\ sd_align w d = SdOk (sd_normal w d)) \/
  (~ sd_accepts w d /\ sd_align w d = SdErr JLS_ERROR_PARAMETER_INVALID).
Proof.
  intros w d Hw.
  destruct (width_facts w Hw) as (Hw0 & Hm0 & _ & _).
  destruct (mins w d) as (M1 & M2 & M3 & M4).
  assert (Hu0 : sd_sumdf1 w d <> 0) by (clear - M4; lia).
  pose proof (round_spec (sd_sdf0 w d) (sd_multiple w) Hm0) as (_ & R2 & _).
  fold (sd_sdf1 w d) in R2.
  assert (Hs0 : sd_sdf1 w d <> 0) by (clear - R2 M1; lia).
  unfold sd_align, sd_accepts, sd_normal.
  destruct (w =? 0) eqn:Ew; [apply N.eqb_eq in Ew; contradiction|].
  fold (sd_sdf0 w d) (sd_spd0 w d) (sd_eps0 w d) (sd_sumdf1 w d).
  destruct (N.le_gt_cases (sd_sdf1 w d) U32MAX) as [A1|A1].
  2:{ right. split; [intros (X & _); clear - X A1; lia|].
      rewrite (round_up_err (sd_sdf0 w d) (sd_multiple w)) by assumption. reflexivity. }
  rewrite (round_up_ok (sd_sdf0 w d) (sd_multiple w)) by assumption.
  fold (sd_sdf1 w d). cbn [sd_bind].
  destruct (N.le_gt_cases (sd_eps1 w d) U32MAX) as [A2|A2].
  2:{ right. split; [intros (_ & X & _); clear - X A2; lia|].
      rewrite (round_up_err (sd_eps0 w d) (sd_sumdf1 w d)) by assumption. reflexivity. }
  rewrite (round_up_ok (sd_eps0 w d) (sd_sumdf1 w d)) by assumption.
  fold (sd_eps1 w d). cbn [sd_bind].
  destruct (N.le_gt_cases (sd_spd1 w d) U32MAX) as [A3|A3].
  2:{ right. split; [intros (_ & _ & X & _); clear - X A3; lia|].
      rewrite (round_up_err (sd_spd0 w d) (sd_sdf1 w d)) by assumption. reflexivity. }
  rewrite (round_up_ok (sd_spd0 w d) (sd_sdf1 w d)) by assumption.
  fold (sd_spd1 w d). cbn [sd_bind].
  destruct (sd_sdf1 w d =? 0) eqn:Es; [apply N.eqb_eq in Es; contradiction|].
  assert (He : sd_eps1 w d < U32) by (clear - A2; unfold U32MAX, U32 in *; lia).
  destruct (normal_facts w d Hw He) as (_ & _ & _ & _ & _ & _ & _ & Hepd & _ & Hle).
  rewrite fit_fast_eq by assumption. fold (sd_k w d). cbn [sd_bind].
  fold (sd_spd2 w d).
  rewrite u32_small by (clear - Hle A3; unfold U32MAX, U32 in *; lia).
  unfold sd_block_too_big, sd_summary_too_big.
  destruct (U32MAX / 2 <? sd_spd2 w d * w / 8) eqn:B1.
  { right. apply N.ltb_lt in B1. split; [intros (_ & _ & _ & X & _); clear - X B1; lia|reflexivity]. }
  destruct (U32MAX / 2 <? sd_eps1 w d * JLS_SUMMARY_FSR_COUNT * SD_SIZEOF_DOUBLE) eqn:B2.
  { right. apply N.ltb_lt in B2. split; [intros (_ & _ & _ & _ & X); clear - X B2; lia|reflexivity]. }
  apply N.ltb_ge in B1. apply N.ltb_ge in B2.
  left. split; [repeat split; assumption|reflexivity].
Qed.

(* what is stored is consistent *)
Lemma normal_consistent : forall w d, In w sd_widths -> sd_eps1 w d < U32 -> Consistent w (sd_normal w d).
Proof.
  intros w d Hw He.
  destruct (normal_facts w d Hw He) as (F1 & F2 & F3 & F4 & F5 & F6 & F7 & F8 & (K1 & K2 & K3 & K4) & F10).
  destruct (width_facts w Hw) as (Hw0 & Hm0 & WF & WB).
  destruct (defaults_nonzero w d Hw) as (_ & _ & _ & _ & N5 & N6).
  assert (Hs0 : sd_sdf1 w d <> 0) by (clear - F2; lia).
  assert (Hk0 : sd_k w d <> 0) by (clear - K1; lia).
  assert (Hq : sd_spd2 w d / sd_sdf1 w d = sd_k w d) by (unfold sd_spd2; rewrite N.mul_comm; apply N.div_mul; exact Hs0).
  assert (Hr : sd_spd2 w d mod sd_sdf1 w d = 0) by (unfold sd_spd2; rewrite N.mul_comm; apply N.mod_mul; exact Hs0).
  assert (Hge : sd_sdf1 w d * 1 <= sd_spd2 w d) by (unfold sd_spd2; apply N.mul_le_mono_l; exact K1).
  assert (W2 : (sd_sdf1 w d * w) mod (SAMPLE_SIZE_BYTES_MAX * 8) = 0) by (apply WF; exact F1).
  unfold Consistent, sd_normal. cbn [spd sdf eps sumdf sd_anno sd_utc]. rewrite Hq. unfold_consts.
  split; [apply WB; exact W2|]. split; [exact W2|].
  split; [split; [exact Hs0|exact Hr]|].
  split; [split; [exact Hk0|exact K3]|].
  split; [split; [clear - F5; lia|exact F3]|].
  split; [clear - Hge F2; lia|]. split; [exact F2|]. split; [exact F4|]. split; [exact F5|].
  split; [exact N5|exact N6].
Qed.

(* ------------------------------------------------------------------ *)
(* align_total: the full property                                      *)

Definition sizes_ok (w : N) (d : sd_sigdef) : Prop :=
  spd d * w / 8 <= U32MAX / 2 /\ eps d * JLS_SUMMARY_FSR_COUNT * SD_SIZEOF_DOUBLE <= U32MAX / 2.

Theorem align_total : forall w d, In w sd_widths -> in_range d ->
  (exists d', sd_align w d = SdOk d' /\ Consistent w d' /\ in_range d' /\ sizes_ok w d') \/
  sd_align w d = SdErr JLS_ERROR_PARAMETER_INVALID.
Proof.
  intros w d Hw Hr.
  destruct (align_exact w d Hw) as [((A1 & A2 & A3 & A4 & A5) & Hal)|(_ & Hal)]; [left|right; exact Hal].
  assert (He : sd_eps1 w d < U32) by (clear - A2; unfold U32MAX, U32 in *; lia).
  exists (sd_normal w d). split; [exact Hal|]. split; [apply normal_consistent; assumption|].
  destruct (normal_facts w d Hw He) as (_ & _ & F3 & F4 & F5 & _ & _ & _ & _ & F10).
  pose proof (defaults_in_range w d Hw Hr) as (_ & _ & _ & _ & D5 & D6).
  assert (Hsum : sd_sumdf1 w d <= sd_eps1 w d) by (apply mod0_le; [clear - F4; lia|clear - F5; lia|exact F3]).
  split.
  - unfold in_range, sd_normal. cbn [spd sdf eps sumdf sd_anno sd_utc].
    repeat split; try assumption; unfold U32MAX, U32 in *.
    + clear - F10 A3; lia.
    + clear - A1; lia.
    + clear - Hsum A2; lia.
  - unfold sizes_ok, sd_normal. cbn [spd eps]. split; assumption.
Qed.

(* ------------------------------------------------------------------ *)
(* idempotence, unguarded                                              *)

Lemma fit_loop_hit : forall fuel e epd, epd <> 0 -> e mod epd = 0 -> sd_fit_loop fuel e epd = SdOk epd.
Proof.
  intros fuel e epd H0 Hm.
  assert (Ed : sd_is_div e epd = true) by (apply is_div_iff; assumption).
  assert (E0 : (epd =? 0) = false) by (apply N.eqb_neq; exact H0).
  destruct fuel; cbn [sd_fit_loop]; rewrite E0, Ed; reflexivity.
Qed.

(* every consistent definition that fits 32 bits and the buffer-size limits is a fixed point *)
Lemma align_idem_consistent : forall w d, In w sd_widths -> Consistent w d ->
  spd d < U32 -> eps d < U32 -> sizes_ok w d ->
  sd_align w d = SdOk d.
Proof.
  intros w d Hw Hc Hspd Heps (Z1 & Z2).
  destruct Hc as (_ & C2 & (C3a & C3b) & (C4a & C4b) & (C5a & C5b) & C6 & C7 & C8 & C9 & C10 & C11).
  destruct (width_facts w Hw) as (Hw0 & Hm0 & WF & _).
  unfold_consts.
  assert (N1 : spd d <> 0) by (clear - C6; lia).
  assert (N3 : eps d <> 0) by (clear - C8; lia).
  assert (Hd : sd_defaults w d = d) by (apply defaults_fixed; unfold_consts; assumption).
  assert (Hm : sdf d mod sd_multiple w = 0) by (apply WF; exact C2).
  assert (L2 : sdf d <= spd d) by (apply mod0_le; assumption).
  assert (L3 : sumdf d <= eps d) by (apply mod0_le; assumption).
  unfold sd_align. rewrite Hd.
  destruct (w =? 0) eqn:Ew; [apply N.eqb_eq in Ew; contradiction|].
  replace (N.max (sdf d) SAMPLE_DECIMATE_FACTOR_MIN) with (sdf d) by (unfold_consts; clear - C7; lia).
  replace (N.max (spd d) SAMPLES_PER_DATA_MIN) with (spd d) by (unfold_consts; clear - C6; lia).
  replace (N.max (eps d) ENTRIES_PER_SUMMARY_MIN) with (eps d) by (unfold_consts; clear - C8; lia).
  replace (N.max (sumdf d) SUMMARY_DECIMATE_FACTOR_MIN) with (sumdf d) by (unfold_consts; clear - C9; lia).
  rewrite (round_up_ok (sdf d) (sd_multiple w)) by
    (try assumption; rewrite round_multiple by assumption; clear - L2 Hspd; unfold U32MAX, U32 in *; lia).
  rewrite round_multiple by assumption. cbn [sd_bind].
  rewrite (round_up_ok (eps d) (sumdf d)) by
    (try assumption; rewrite round_multiple by assumption; clear - Heps; unfold U32MAX, U32 in *; lia).
  rewrite round_multiple by assumption. cbn [sd_bind].
  rewrite (round_up_ok (spd d) (sdf d)) by
    (try assumption; rewrite round_multiple by assumption; clear - Hspd; unfold U32MAX, U32 in *; lia).
  rewrite round_multiple by assumption. cbn [sd_bind].
  destruct (sdf d =? 0) eqn:Es; [apply N.eqb_eq in Es; contradiction|].
  rewrite fit_loop_hit by assumption. cbn [sd_bind].
  assert (Hx : sdf d * (spd d / sdf d) = spd d) by (symmetry; apply N.div_exact; assumption).
  rewrite Hx. rewrite u32_small by exact Hspd.
  unfold sd_block_too_big, sd_summary_too_big.
  destruct (U32MAX / 2 <? spd d * w / 8) eqn:B1; [apply N.ltb_lt in B1; clear - B1 Z1; lia|].
  destruct (U32MAX / 2 <? eps d * JLS_SUMMARY_FSR_COUNT * SD_SIZEOF_DOUBLE) eqn:B2; [apply N.ltb_lt in B2; clear - B2 Z2; lia|].
  destruct d; reflexivity.
Qed.

(* align (align d) = align d: whatever the code stores, it stores again unchanged *)
Theorem align_idem : forall w d d', In w sd_widths -> sd_align w d = SdOk d' -> sd_align w d' = SdOk d'.
Proof.
  intros w d d' Hw Hal.
  destruct (align_exact w d Hw) as [((A1 & A2 & A3 & A4 & A5) & Hal2)|(_ & Hal2)];
    rewrite Hal2 in Hal; [|discriminate].
  injection Hal as <-.
  assert (He : sd_eps1 w d < U32) by (clear - A2; unfold U32MAX, U32 in *; lia).
  destruct (normal_facts w d Hw He) as (_ & _ & _ & _ & _ & _ & _ & _ & _ & F10).
  apply align_idem_consistent; try assumption.
  - apply normal_consistent; assumption.
  - unfold sd_normal; cbn [spd]. clear - F10 A3; unfold U32MAX, U32 in *; lia.
  - unfold sizes_ok, sd_normal. cbn [spd eps]. split; assumption.
Qed.


(* ------------------------------------------------------------------ *)
(* defaults                                                            *)

Lemma align_defaults : forall w d, In w sd_widths ->
  exists t, sd_table w = Some t /\
    (spd t <> 0 /\ sdf t <> 0 /\ eps t <> 0 /\ sumdf t <> 0 /\ sd_anno t <> 0 /\ sd_utc t <> 0) /\
    let d1 := mkSigDef (if spd d =? 0 then spd t else spd d) (if sdf d =? 0 then sdf t else sdf d)
                       (if eps d =? 0 then eps t else eps d) (if sumdf d =? 0 then sumdf t else sumdf d)
                       (N.max (if sd_anno d =? 0 then sd_anno t else sd_anno d) SUMMARY_DECIMATE_FACTOR_MIN)
                       (N.max (if sd_utc d =? 0 then sd_utc t else sd_utc d) SUMMARY_DECIMATE_FACTOR_MIN) in
    sd_defaults w d = d1 /\ sd_defaults w d1 = d1 /\ sd_align w d = sd_align w d1.
Proof.
  intros w d Hw.
  destruct (table_some w Hw) as (t & Ht & N1 & N2 & N3 & N4 & N5 & N6 & _).
  exists t. split; [exact Ht|]. split; [repeat split; assumption|].
  assert (E : sd_defaults w d =
              mkSigDef (if spd d =? 0 then spd t else spd d) (if sdf d =? 0 then sdf t else sdf d)
                       (if eps d =? 0 then eps t else eps d) (if sumdf d =? 0 then sumdf t else sumdf d)
                       (N.max (if sd_anno d =? 0 then sd_anno t else sd_anno d) SUMMARY_DECIMATE_FACTOR_MIN)
                       (N.max (if sd_utc d =? 0 then sd_utc t else sd_utc d) SUMMARY_DECIMATE_FACTOR_MIN)).
  { unfold sd_defaults, sd_defaults_with. rewrite Ht. reflexivity. }
  cbv zeta. rewrite <- E.
  split; [reflexivity|]. split; [apply defaults_idem; exact Hw|].
  apply align_depends_on_defaults. symmetry. apply defaults_idem. exact Hw.
Qed.

(* ------------------------------------------------------------------ *)
(* the executable predicates reflect the propositions                  *)

Lemma consistentb_iff : forall w d, consistentb w d = true <-> Consistent w d.
Proof.
  intros w d. unfold consistentb, consistent_clauses, Consistent. cbn [forallb].
  rewrite !andb_true_iff, !negb_true_iff, !N.eqb_eq, !N.eqb_neq, !N.leb_le. tauto.
Qed.

Lemma entry256b_iff : forall w d, entry256b w d = true <-> Entry256 w d.
Proof. intros w d. unfold entry256b, Entry256. apply N.eqb_eq. Qed.
(* ------------------------------------------------------------------ *)
(* validate                                                            *)

Lemma sample_size_arith : forall dt, sample_size dt = (dt / 256) mod 256.
Proof.
  intros dt. unfold sample_size. change 255 with (N.ones 8).
  rewrite N.land_ones, N.shiftr_div_pow2. reflexivity.
Qed.

Lemma validate_ok_width : forall sid src ty dt,
  sd_validate sid src ty dt = 0 -> In (sample_size dt) sd_widths.
Proof.
  intros sid src ty dt H. unfold sd_validate in H.
  destruct (JLS_SIGNAL_COUNT <=? sid); [discriminate|].
  destruct (JLS_SOURCE_COUNT <=? src); [discriminate|].
  destruct (negb (ty =? JLS_SIGNAL_TYPE_FSR) && negb (ty =? JLS_SIGNAL_TYPE_VSR)); [discriminate|].
  destruct (existsb (N.eqb (N.land dt 65535)) sd_datatypes) eqn:Ex; [|discriminate].
  clear H. apply existsb_exists in Ex. destruct Ex as (x & Hin & Hx).
  apply N.eqb_eq in Hx. change 65535 with (N.ones 16) in Hx. rewrite N.land_ones in Hx.
  change (2 ^ 16) with 65536 in Hx.
  rewrite sample_size_arith.
  cbn [In sd_datatypes] in Hin.
  repeat (destruct Hin as [Hin|Hin];
    [rewrite <- Hin in Hx; clear Hin;
     match type of Hx with _ = ?c => let v := eval vm_compute in c in change c with v in Hx end;
     cbn [In sd_widths]; clear - Hx; lia|]).
  contradiction.
Qed.


(* ------------------------------------------------------------------ *)
(* the Err branch of align_total is not the whole story: every definition with *)
(* moderate parameters is accepted                                      *)

Lemma table_small : forall w, In w sd_widths ->
  exists t, sd_table w = Some t /\ spd t <= 65536 /\ sdf t <= 65536 /\ eps t <= 65536 /\ sumdf t <= 65536.
Proof.
  intros w H. cbn [In sd_widths] in H.
  destruct H as [H|[H|[H|[H|[H|[H|[H|H]]]]]]]; [subst w ..|contradiction];
  eexists; (split; [reflexivity|]); vm_compute; repeat split; discriminate.
Qed.

Lemma align_accepts_moderate : forall w d, In w sd_widths ->
  spd d <= 16777216 -> sdf d <= 16777216 -> eps d <= 16777216 -> sumdf d <= 16777216 ->
  exists d', sd_align w d = SdOk d'.
Proof.
  intros w d Hw B1 B2 B3 B4.
  destruct (align_exact w d Hw) as [(_ & Hal)|(Hn & _)]; [eauto|exfalso; apply Hn; clear Hn].
  destruct (table_small w Hw) as (t & Ht & T1 & T2 & T3 & T4).
  destruct (width_facts w Hw) as (Hw0 & Hm0 & _ & _).
  destruct (mins w d) as (M1 & M2 & M3 & M4).
  assert (D1 : spd (sd_defaults w d) <= 16777216 /\ sdf (sd_defaults w d) <= 16777216 /\
               eps (sd_defaults w d) <= 16777216 /\ sumdf (sd_defaults w d) <= 16777216).
  { unfold sd_defaults, sd_defaults_with. rewrite Ht. cbn [spd sdf eps sumdf].
    repeat split;
    match goal with |- sd_take ?x ?y <= _ => destruct (take_cases x y) as [[_ ->]|[_ ->]]; lia end. }
  destruct D1 as (D1 & D2 & D3 & D4).
  assert (S0 : sd_sdf0 w d <= 16777216) by (unfold sd_sdf0; unfold_consts; clear - D2; lia).
  assert (P0 : sd_spd0 w d <= 16777216) by (unfold sd_spd0; unfold_consts; clear - D1; lia).
  assert (E0 : sd_eps0 w d <= 16777216) by (unfold sd_eps0; unfold_consts; clear - D3; lia).
  assert (U0 : sd_sumdf1 w d <= 16777216) by (unfold sd_sumdf1; unfold_consts; clear - D4; lia).
  pose proof (round_spec (sd_sdf0 w d) (sd_multiple w) Hm0) as (_ & R2 & R3).
  fold (sd_sdf1 w d) in R2, R3.
  assert (Hs0 : sd_sdf1 w d <> 0) by (clear - R2 M1; lia).
  assert (Hu0 : sd_sumdf1 w d <> 0) by (clear - M4; lia).
  pose proof (round_spec (sd_spd0 w d) (sd_sdf1 w d) Hs0) as (_ & _ & S3).
  fold (sd_spd1 w d) in S3.
  pose proof (round_spec (sd_eps0 w d) (sd_sumdf1 w d) Hu0) as (_ & _ & E3).
  fold (sd_eps1 w d) in E3.
  assert (Mw : sd_multiple w <= 256 /\ w <= 64).
  { clear - Hw. cbn [In sd_widths] in Hw.
    destruct Hw as [H|[H|[H|[H|[H|[H|[H|H]]]]]]]; [subst w ..|contradiction]; vm_compute; split; discriminate. }
  destruct Mw as (Mm & Mw).
  assert (A1 : sd_sdf1 w d <= 16777471) by (clear - R3 S0 Mm; lia).
  assert (A2 : sd_eps1 w d <= 33554431) by (clear - E3 E0 U0; lia).
  assert (A3 : sd_spd1 w d <= 33554686) by (clear - S3 P0 A1; lia).
  assert (He : sd_eps1 w d < U32) by (clear - A2; unfold U32; lia).
  destruct (normal_facts w d Hw He) as (_ & _ & _ & _ & _ & _ & _ & _ & _ & F10).
  assert (A4 : sd_spd2 w d * w <= 33554686 * 64).
  { apply N.mul_le_mono; [clear - F10 A3; lia|exact Mw]. }
  unfold sd_accepts, U32MAX, U32, SD_SIZEOF_DOUBLE.
  change JLS_SUMMARY_FSR_COUNT with 4.
  split; [clear - A1; lia|]. split; [clear - A2; lia|]. split; [clear - A3; lia|].
  split; [|clear - A2; lia].
  clear - A4. generalize dependent (sd_spd2 w d * w). intros x A4. lia.
Qed.

(* ------------------------------------------------------------------ *)
(* concrete instances                                                  *)

Definition sd_zero : sd_sigdef := mkSigDef 0 0 0 0 0 0.

Lemma in_range_b : forall d,
  (spd d <? U32) && (sdf d <? U32) && (eps d <? U32) && (sumdf d <? U32) && (sd_anno d <? U32) && (sd_utc d <? U32) = true ->
  in_range d.
Proof.
  intros d H. rewrite !andb_true_iff, !N.ltb_lt in H. unfold in_range. tauto.
Qed.

(* all-defaults definitions (all six fields zero) normalise to the tables, 24-bit included *)
Lemma defaults_normal_forms :
  sd_align 1 sd_zero = SdOk (mkSigDef DEF1_samples_per_data DEF1_sample_decimate_factor DEF1_entries_per_summary DEF1_summary_decimate_factor DEF32_annotation_decimate_factor DEF32_utc_decimate_factor) /\
  sd_align 4 sd_zero = SdOk (mkSigDef DEF4_samples_per_data DEF4_sample_decimate_factor DEF4_entries_per_summary DEF4_summary_decimate_factor DEF32_annotation_decimate_factor DEF32_utc_decimate_factor) /\
  sd_align 8 sd_zero = SdOk (mkSigDef DEF8_samples_per_data DEF8_sample_decimate_factor DEF8_entries_per_summary DEF8_summary_decimate_factor DEF32_annotation_decimate_factor DEF32_utc_decimate_factor) /\
  sd_align 16 sd_zero = SdOk (mkSigDef DEF16_samples_per_data DEF16_sample_decimate_factor DEF16_entries_per_summary DEF16_summary_decimate_factor DEF32_annotation_decimate_factor DEF32_utc_decimate_factor) /\
  sd_align 24 sd_zero = SdOk (mkSigDef DEF32_samples_per_data DEF32_sample_decimate_factor DEF32_entries_per_summary DEF32_summary_decimate_factor DEF32_annotation_decimate_factor DEF32_utc_decimate_factor) /\
  sd_align 32 sd_zero = SdOk (mkSigDef DEF32_samples_per_data DEF32_sample_decimate_factor DEF32_entries_per_summary DEF32_summary_decimate_factor DEF32_annotation_decimate_factor DEF32_utc_decimate_factor) /\
  sd_align 64 sd_zero = SdOk (mkSigDef DEF64_samples_per_data DEF64_sample_decimate_factor DEF64_entries_per_summary DEF64_summary_decimate_factor DEF32_annotation_decimate_factor DEF32_utc_decimate_factor).
Proof. vm_compute. repeat split; reflexivity. Qed.

(* non-trivial accepted definitions: f32 (1000, 100, 33, 17, 3, 3) and u24 (100, 11, 100, 10, 5, 5);
   annotation/sd_utc factors below 10 are raised to 10 *)
Lemma align_examples :
  sd_align 32 (mkSigDef 1000 100 33 17 3 3) = SdOk (mkSigDef 208 104 34 17 10 10) /\
  sd_align 24 (mkSigDef 100 11 100 10 5 5) = SdOk (mkSigDef 128 32 100 10 10 10) /\
  Consistent 24 (mkSigDef 128 32 100 10 10 10).
Proof. split; [vm_compute; reflexivity|]. split; [vm_compute; reflexivity|apply consistentb_iff; vm_compute; reflexivity]. Qed.

(* rejected definitions: a rounding result that does not fit, and a block buffer that does not fit *)
Lemma reject_examples :
  sd_align 32 (mkSigDef 0 4294967295 0 0 0 0) = SdErr JLS_ERROR_PARAMETER_INVALID /\
  sd_align 64 (mkSigDef 536870912 128 4194304 16 0 0) = SdErr JLS_ERROR_PARAMETER_INVALID /\
  sd_align 32 (mkSigDef 0 0 70000000 0 0 0) = SdErr JLS_ERROR_PARAMETER_INVALID.
Proof. vm_compute. repeat split; reflexivity. Qed.

Lemma idem_example :
  let d := mkSigDef 8192 128 640 20 100 100 in
  In 32 sd_widths /\ Consistent 32 d /\ spd d < U32 /\ eps d < U32 /\ sizes_ok 32 d.
Proof.
  cbv zeta. split; [cbn; tauto|]. split; [apply consistentb_iff; vm_compute; reflexivity|].
  vm_compute. repeat split; try reflexivity; discriminate.
Qed.

(* ------------------------------------------------------------------ *)
(* documentation of the five defect classes fixed in /repo (591c3d3, e7caa59): *)
(* what the code did before (sd_align_old) and what it does now (sd_align)      *)

(* 1. sd_sigdef-overflow-divzero: u64, sample_decimate_factor = 2^32-6 rounded to 2^32-4, then the
   rounding of samples_per_data wrapped to 0, entries_per_data = 0, SIGFPE in the loop test;
   f32, sample_decimate_factor = 2^32-1: its own rounding wrapped to 0, SIGFPE in the next rounding *)
Lemma old_divzero :
  sd_validate 1 1 JLS_SIGNAL_TYPE_FSR JLS_DATATYPE_U64 = 0 /\
  sd_align_old (sample_size JLS_DATATYPE_U64) (mkSigDef 0 4294967290 0 0 0 0) = SdFault SdDivZero /\
  sd_align (sample_size JLS_DATATYPE_U64) (mkSigDef 0 4294967290 0 0 0 0) = SdErr JLS_ERROR_PARAMETER_INVALID /\
  sd_align_old (sample_size JLS_DATATYPE_F32) (mkSigDef 0 4294967295 0 0 0 0) = SdFault SdDivZero /\
  sd_align (sample_size JLS_DATATYPE_F32) (mkSigDef 0 4294967295 0 0 0 0) = SdErr JLS_ERROR_PARAMETER_INVALID.
Proof. vm_compute. repeat split; reflexivity. Qed.

(* 2. sd_sigdef-overflow-inconsistent: f32, entries_per_summary = 2^32-1 wrapped to 0 and was stored as 0 *)
Lemma old_eps_zero :
  sd_align_old 32 (mkSigDef 0 0 4294967295 0 0 0) = SdOk (mkSigDef 8192 128 0 20 100 100) /\
  ~ Consistent 32 (mkSigDef 8192 128 0 20 100 100) /\
  sd_align 32 (mkSigDef 0 0 4294967295 0 0 0) = SdErr JLS_ERROR_PARAMETER_INVALID.
Proof.
  split; [vm_compute; reflexivity|]. split; [|vm_compute; reflexivity].
  intro H. apply consistentb_iff in H. vm_compute in H. discriminate.
Qed.

(* 3. sd_sigdef-24bit-zero-ts-factors and 4. sd_sigdef-24bit-not-256-multiple: i24 took no defaults at all
   (annotation/sd_utc factors stayed 0) and rounded to multiples of 10 samples = 240 bits *)
Lemma old_24bit :
  sd_align_old 24 sd_zero = SdOk (mkSigDef 10 10 10 10 0 0) /\
  ~ (SUMMARY_DECIMATE_FACTOR_MIN <= sd_anno (mkSigDef 10 10 10 10 0 0)) /\ ~ Entry256 24 (mkSigDef 10 10 10 10 0 0) /\
  sd_align_old 24 (mkSigDef 100 11 100 10 5 5) = SdOk (mkSigDef 100 20 100 10 5 5) /\
  ~ Entry256 24 (mkSigDef 100 20 100 10 5 5) /\
  sd_align 24 sd_zero = SdOk (mkSigDef 8192 128 640 20 100 100) /\
  sd_align 24 (mkSigDef 100 11 100 10 5 5) = SdOk (mkSigDef 128 32 100 10 10 10).
Proof.
  split; [vm_compute; reflexivity|]. split; [vm_compute; intro H; apply H; reflexivity|].
  split; [intro H; apply entry256b_iff in H; vm_compute in H; discriminate|].
  split; [vm_compute; reflexivity|].
  split; [intro H; apply entry256b_iff in H; vm_compute in H; discriminate|].
  split; vm_compute; reflexivity.
Qed.

(* 5. sd_sigdef-renormalise-overflow: a definition whose stored form was consistent but faulted, or was
   stored differently, when a signal was defined from it again (second file) *)
Lemma old_renormalise :
  sd_align_old 64 (mkSigDef 10 3221225472 10 10 0 0) = SdOk (mkSigDef 3221225472 3221225472 10 10 100 100) /\
  Consistent 64 (mkSigDef 3221225472 3221225472 10 10 100 100) /\
  sd_align_old 64 (mkSigDef 3221225472 3221225472 10 10 100 100) = SdFault SdDivZero /\
  sd_align_old 32 (mkSigDef 0 0 10 2147483649 0 0) = SdOk (mkSigDef 384 128 2147483649 2147483649 100 100) /\
  Consistent 32 (mkSigDef 384 128 2147483649 2147483649 100 100) /\
  sd_align_old 32 (mkSigDef 384 128 2147483649 2147483649 100 100) = SdOk (mkSigDef 384 128 0 2147483649 100 100) /\
  sd_align 64 (mkSigDef 10 3221225472 10 10 0 0) = SdErr JLS_ERROR_PARAMETER_INVALID /\
  sd_align 32 (mkSigDef 0 0 10 2147483649 0 0) = SdErr JLS_ERROR_PARAMETER_INVALID.
Proof.
  split; [vm_compute; reflexivity|]. split; [apply consistentb_iff; vm_compute; reflexivity|].
  split; [vm_compute; reflexivity|]. split; [vm_compute; reflexivity|].
  split; [apply consistentb_iff; vm_compute; reflexivity|].
  split; [vm_compute; reflexivity|]. split; vm_compute; reflexivity.
Qed.
