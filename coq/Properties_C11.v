(* Property C11 at the level of chunks and index entries (slice ts): "For every signal and
   any number of annotations written with non-decreasing timestamps, a closed file returns each
   annotation exactly as written in write order.  Iterating from a timestamp t delivers a
   contiguous tail of that sequence which contains every annotation whose timestamp is >= t,
   including all that share the same timestamp, and at most one annotation earlier than t; a
   callback that asks to stop ends the iteration."

   All theorems are about coq/TsModel.v, the model of /repo/src/wr_ts.c (jls_wr_ts_anno,
   jls_wr_ts_utc, commit in NORMAL and CLOSE mode, jls_wr_ts_close), the DATA-chunk part of
   jls_wr_annotation / jls_wr_utc, jls_core_ts_seek (with the repaired rule for equal timestamps
   at upper levels) and jls_core_annotations.  They hold for EVERY record count n, EVERY decimate
   factor d >= 2 with n < d^15, EVERY non-decreasing timestamp sequence (runs of equal
   timestamps of any length anywhere, in particular across index chunks of every level) and
   EVERY seek timestamp, by induction over the writes and over the index levels (arbitrary depth).

   The guard n < d^15 is not a proof artefact: commit(15, NORMAL) needs level 16, alloc fails,
   jls_wr_annotation returns PARAMETER_INVALID without resetting the entry counts and the next
   annotation is stored past the end of the level-1 array (d = 2: the 32768th annotation returns 5,
   the next one is a heap overflow - observed with ASan on the C before /repo commit 9149f75).
   d = 1 hits the same path at the first annotation, d = 0 (24-bit signals took no defaults)
   stores into a zero-sized array: C11_ts_decimate_0_faults, C11_ts_decimate_1_faults.  Since
   9149f75 the writer clamps both factors to >= 10 (C11_ts_factor_ok), so d >= 2 always holds
   and d^15 >= 10^15 records are out of reach.

   Vocabulary: disk = the track's chunks in write order, offset of the k-th chunk = k+1;
   ts_datas D = the (offset, record) of the DATA chunks; ts_idxs L D = the (offset, entries) of
   the level-L INDEX chunks; ts_cs L D = one (first timestamp, offset) entry per level-L chunk
   (level 0 = DATA); ts_R D e s = entry e points to the DATA chunk of a record r with timestamp
   fst e and s is the summary entry of r. *)
From Coq Require Import ZArith NArith List Bool Arith Sorted.
From JLS Require Import Generated Spec TsModel TsProofs.
Import ListNotations.

(* ---- 1. the structure of a closed track ---- *)
Theorem C11_ts_inv : forall (A SE : Type) (key : A -> Z) (summ : A -> SE) (d : nat) (recs : list A),
  2 <= d -> length recs < d ^ 15 ->
  let w := ts_file A SE key summ d recs in
  let D := tw_disk w in
  let T := length (tw_lv w) in
  tw_st w = TsOk /\
  map snd (ts_datas A SE D) = recs /\
  T < 16 /\ (T = 0 <-> recs = []) /\
  (forall L, 1 <= L <= T -> concat (map snd (ts_idxs A SE L D)) = ts_cs A SE key (L - 1) D) /\
  (1 <= T -> length (ts_idxs A SE T D) = 1) /\
  (forall L, T < L -> ts_idxs A SE L D = []) /\
  (forall k L es, nth_error D k = Some (TsIndex L es) ->
     1 <= L /\ es <> [] /\ length es <= d /\
     exists ss, nth_error D (S k) = Some (TsSummary L ss) /\ (L = 1 -> Forall2 (ts_R A SE key summ D) es ss)) /\
  (forall L o es e, In (o, es) (ts_idxs A SE L D) -> In e es ->
     (L = 1 /\ exists r, ts_rd A SE D (snd e) = Some (TsData r) /\ fst e = key r) \/
     (2 <= L /\ exists es', ts_rd A SE D (snd e) = Some (TsIndex (L - 1) es') /\ es' <> [] /\ fst e = fst (hd (0%Z, 0) es'))) /\
  tw_head w 0 = ts_first_off (ts_datas A SE D) /\
  (forall L, 1 <= L -> tw_head w L = ts_first_off (ts_idxs A SE L D)).
Proof. exact ts_inv_all. Qed.
Print Assumptions C11_ts_inv.

Example C11_ts_inv_example :
  let w := ts_anno_file 3 (map ts_mk_anno [1; 2; 2; 2; 2; 2; 2; 2; 9; 10]%Z) in
  2 <= 3 /\ 10 < 3 ^ 15 /\ tw_st w = TsOk /\ length (tw_lv w) = 3 /\ length (tw_disk w) = 24 /\
  map (tw_head w) [0; 1; 2; 3; 4] = [1; 4; 16; 23; 0] /\
  nth_error (tw_disk w) 22 = Some (TsIndex 3 [(1%Z, 16); (10%Z, 21)]).
Proof.
  split; [repeat constructor|].
  split; [apply Nat.lt_le_trans with (3 ^ 3); [cbn; repeat constructor|apply Nat.pow_le_mono_r; [discriminate|repeat constructor]]|].
  vm_compute. repeat split; auto.
Qed.

(* ---- 2. round trip ---- *)
Theorem C11_anno_roundtrip : forall (d : nat) (s : sigstate) (t : Z),
  2 <= d -> length (ss_annos s) < d ^ 15 -> StronglySorted Z.le (map an_ts (ss_annos s)) ->
  (forall a, In a (ss_annos s) -> (t <= an_ts a)%Z) ->
  ts_anno_read true d (ss_annos s) t (fun _ _ => false) = (ss_annos s, true).
Proof. exact ts_spec_anno_roundtrip. Qed.
Print Assumptions C11_anno_roundtrip.

(* ---- 3. seek: the delivered list is annos[j..] with j in Spec.anno_seek_range ---- *)
Theorem C11_anno_seek : forall (d : nat) (s : sigstate) (t : Z),
  2 <= d -> length (ss_annos s) < d ^ 15 -> StronglySorted Z.le (map an_ts (ss_annos s)) ->
  exists j,
    (forall stop, ts_anno_read true d (ss_annos s) t stop = (ts_take_stop anno stop 0 (skipn j (ss_annos s)), true)) /\
    fst (anno_seek_range s t) <= j <= snd (anno_seek_range s t) /\
    (forall a, In a (ss_annos s) -> (t <= an_ts a)%Z -> In a (skipn j (ss_annos s))) /\
    Forall (fun a => (t <= an_ts a)%Z) (skipn 1 (skipn j (ss_annos s))).
Proof. exact ts_spec_anno_seek. Qed.
Print Assumptions C11_anno_seek.

(* the same for any record type *)
Theorem C11_ts_seek_generic : forall (A SE : Type) (key : A -> Z) (summ : A -> SE) (d : nat) (recs : list A) (t : Z),
  2 <= d -> length recs < d ^ 15 -> StronglySorted Z.le (map key recs) ->
  let w := ts_file A SE key summ d recs in
  exists j,
    (forall stop, ts_annotations_from A SE (tw_disk w) (tw_head w) t stop = (ts_take_stop A stop 0 (skipn j recs), true)) /\
    Nat.pred (ts_fge t (map key recs)) <= j <= ts_fge t (map key recs) /\
    (forall r, In r recs -> (t <= key r)%Z -> In r (skipn j recs)) /\
    Forall (fun r => (t <= key r)%Z) (skipn 1 (skipn j recs)).
Proof. exact ts_anno_seek_all. Qed.
Print Assumptions C11_ts_seek_generic.

Theorem C11_anno_stop : forall (d : nat) (s : sigstate) (t : Z) (k : nat),
  2 <= d -> length (ss_annos s) < d ^ 15 -> StronglySorted Z.le (map an_ts (ss_annos s)) -> 1 <= k ->
  exists j, fst (anno_seek_range s t) <= j <= snd (anno_seek_range s t) /\
    ts_anno_read true d (ss_annos s) t (fun _ _ => false) = (skipn j (ss_annos s), true) /\
    ts_anno_read true d (ss_annos s) t (fun i _ => k <=? S i) = (firstn k (skipn j (ss_annos s)), true).
Proof. exact ts_spec_anno_stop. Qed.
Print Assumptions C11_anno_stop.

(* the hypotheses are satisfiable by a non-trivial value: the 30-annotation witness of the
   repaired defect (23 annotations at timestamp 100 across three index chunks), factor 10 *)
Example C11_anno_seek_example :
  2 <= 10 /\ length (ss_annos ts_witness_sig) < 10 ^ 15 /\ StronglySorted Z.le (map an_ts (ss_annos ts_witness_sig)) /\
  anno_seek_range ts_witness_sig 100 = (6, 7) /\
  fst (ts_anno_read true 10 (ss_annos ts_witness_sig) 100 (fun _ _ => false)) = skipn 7 (ss_annos ts_witness_sig) /\
  fst (ts_anno_read true 10 (ss_annos ts_witness_sig) 100 (fun i _ => 3 <=? S i)) = firstn 3 (skipn 7 (ss_annos ts_witness_sig)).
Proof.
  split; [repeat constructor|].
  split; [apply Nat.lt_le_trans with (10 ^ 2); [vm_compute; repeat constructor|apply Nat.pow_le_mono_r; [discriminate|repeat constructor]]|].
  split; [exact ts_witness_sorted|]. repeat split; vm_compute; reflexivity.
Qed.

(* ---- the previous seek rule (first exact match at every level) violates statement 3 ---- *)
Theorem C11_anno_seek_old_refuted :
  exists (d : nat) (s : sigstate) (t : Z),
    d = 10 /\ length (ss_annos s) = 30 /\ StronglySorted Z.le (map an_ts (ss_annos s)) /\
    length (filter (fun a => (an_ts a >=? t)%Z) (ss_annos s)) = 23 /\
    length (fst (ts_anno_read false d (ss_annos s) t (fun _ _ => false))) = 20 /\
    ~ (exists j, fst (anno_seek_range s t) <= j <= snd (anno_seek_range s t) /\
                 fst (ts_anno_read false d (ss_annos s) t (fun _ _ => false)) = skipn j (ss_annos s)).
Proof. exact ts_anno_seek_old_refuted_lemma. Qed.
Print Assumptions C11_anno_seek_old_refuted.

(* ---- the hypothesis 2 <= d holds for every stored signal definition: Spec.sp_align (the model of
   jls_core_signal_def_align, property C16) clamps both factors to SUMMARY_DECIMATE_FACTOR_MIN ---- *)
Theorem C11_ts_factor_ok : forall sd : sigdef,
  2 <= N.to_nat (sg_adf (sp_align sd)) /\ 2 <= N.to_nat (sg_udf (sp_align sd)).
Proof. exact ts_spec_factor_ok. Qed.
Print Assumptions C11_ts_factor_ok.

(* ---- decimate factors 0 and 1: what the C of wr_ts.c does when handed such a factor (excluded above by 2 <= d;
   reachable before /repo commit 9149f75, which clamps the factors when the definition is normalised) ---- *)
Theorem C11_ts_decimate_0_faults : forall (A SE : Type) (key : A -> Z) (summ : A -> SE) (r : A) (recs : list A),
  tw_st (ts_file A SE key summ 0 (r :: recs)) = TsFault.
Proof. exact ts_d0_faults. Qed.
Print Assumptions C11_ts_decimate_0_faults.

Theorem C11_ts_decimate_1_faults : forall (A SE : Type) (key : A -> Z) (summ : A -> SE) (r : A),
  tw_st (ts_write A SE key summ 1 ts_wr0 r) = TsErr /\
  length (tw_disk (ts_write A SE key summ 1 ts_wr0 r)) = 29 /\
  tw_st (ts_file A SE key summ 1 [r]) = TsFault /\
  forall r2, tw_st (ts_write A SE key summ 1 (ts_write A SE key summ 1 ts_wr0 r) r2) = TsFault.
Proof. exact ts_d1_first_write_err. Qed.
Print Assumptions C11_ts_decimate_1_faults.
