(* C04 (structural part): every chunk the reader's raw layer hands out passed its CRC checks, and a protected
   region hit by an error of the class of Properties_C04_alg.C04_detects is never accepted.

   Model: RepairRaw.v (byte-level model of the read side of /repo/src/raw.c and jls_core_rd_chunk of core.c):
     rp_read_verify      read_verify (file header)          rp_raw_rd_header    jls_raw_rd_header
     rp_raw_rd_payload   jls_raw_rd_payload                 rp_rd_chunk         jls_core_rd_chunk
   A state s : rp_io holds the file bytes (rp_file s), the raw state (rp_r s: position, chunk offset, cached
   header; tag = JLS_TAG_INVALID = nothing cached), core->buf (rp_buf / rp_buf_len) and chunk_cur (rp_cur).
   fm_sub off n f = the bytes [off, off + n) of f that exist.  rp_payload s = the first rp_buf_len bytes of the
   buffer = what every caller of jls_core_rd_chunk reads.

   Protected regions: file header [0,32) (CRC over [0,28) at [28,32)); chunk header [off, off+32) (same
   layout); payload [off+32, off+32+pl) with its CRC in the last 4 bytes of the fm_disk_len pl bytes that
   follow the header.  The 0..7 pad bytes between payload and CRC are outside every CRC: C04s_pad_irrelevant
   shows that neither the return code nor the payload bytes handed out depend on them.

   Hypothesis "cached header" (the second hypothesis of C04s_rd_chunk_checked): when a header is cached it is
   the decoding of the 32 bytes at the chunk offset and their CRC matched.  C04s_cached_header_invariant shows
   that it holds after open and is kept by every raw-layer read / seek operation.
   Proofs are in RawReadProofs.v; the algebra is Properties_C04_alg.v. *)
From Coq Require Import NArith List.
From JLS Require Import Generated CrcDefs CrcProofs CrcAlg Format WmRaw WmCore RepairRaw RawReadProofs.
Import ListNotations.
Local Open Scope N_scope.

(* (a) jls_core_rd_chunk returned 0  ==>  header CRC valid, payload CRC valid, the caller sees the file's bytes *)
Theorem C04s_rd_chunk_checked : forall s s',
  rp_flen s = rp_len (rp_file s) ->
  (rp_r_valid (rp_r s) = true ->
     length (fm_sub (rp_offset (rp_r s)) 32 (rp_file s)) = 32%nat /\
     fm_ch_crc_ok (fm_sub (rp_offset (rp_r s)) 32 (rp_file s)) = true /\
     rp_hdr (rp_r s) = fm_ch_fields (fm_sub (rp_offset (rp_r s)) 32 (rp_file s))) ->
  rp_rd_chunk s = (s', 0) ->
  let f := rp_file s in
  let off := rp_offset (rp_r s) in
  let h := wm_ck_hdr (rp_cur s') in
  let pl := fm_payload_length h in
  rp_file s' = f /\ rp_flt s' = rp_flt s /\ wm_ck_offset (rp_cur s') = off /\
  length (fm_sub off 32 f) = 32%nat /\
  fm_decode_chunk_header (fm_sub off 32 f) = Some h /\
  fm_u32_at 28 (fm_sub off 32 f) = crc32c (firstn 28 (fm_sub off 32 f)) /\
  rp_payload s' = fm_sub (off + 32) pl f /\
  length (rp_payload s') = N.to_nat pl /\
  (pl <> 0 ->
     fm_disk_len pl <= JLS_BUF_DEFAULT_SIZE /\
     off + 32 + fm_disk_len pl <= N.of_nat (length f) /\
     crc32c (rp_payload s') = fm_dec (fm_sub (off + 32 + fm_disk_len pl - 4) 4 f)) /\
  (bytes_ok f ->
     fm_u32_at 28 (fm_sub off 32 f) = crc_spec (firstn 28 (fm_sub off 32 f)) /\
     (pl <> 0 -> crc_spec (rp_payload s') = fm_dec (fm_sub (off + 32 + fm_disk_len pl - 4) 4 f))).
Proof. exact rr_C04_rd_chunk. Qed.
Print Assumptions C04s_rd_chunk_checked.

(* (a) read_verify returned 0  ==>  identification, version, CRC over the first 28 bytes, non-zero length *)
Theorem C04s_read_verify_checked : forall s s' ver,
  rp_flen s = rp_len (rp_file s) -> rp_read_verify s = (s', 0, ver) ->
  let b := fm_sub (rp_fpos (rp_r s)) 32 (rp_file s) in
  length b = 32%nat /\
  fm_u32_at 28 b = crc32c (firstn 28 b) /\
  (bytes_ok (rp_file s) -> fm_u32_at 28 b = crc_spec (firstn 28 b)) /\
  firstn 16 b = JLS_HEADER_IDENTIFICATION /\
  fm_version_major (fm_u32_at 24 b) <= fm_version_major JLS_FORMAT_VERSION_U32 /\
  ver = fm_u32_at 24 b /\
  fm_u64_at 16 b <> 0 /\
  rp_file s' = rp_file s /\ rp_flt s' = rp_flt s /\ rp_fend (rp_r s') = rp_len (rp_file s).
Proof. exact rr_C04_read_verify. Qed.
Print Assumptions C04s_read_verify_checked.

(* the cached-header hypothesis holds after open and is kept by every read / seek of the raw layer *)
Theorem C04s_cached_header_invariant :
  let P := fun s : rp_io =>
    rp_flen s = rp_len (rp_file s) /\
    (rp_r_valid (rp_r s) = true ->
       length (fm_sub (rp_offset (rp_r s)) 32 (rp_file s)) = 32%nat /\
       fm_ch_crc_ok (fm_sub (rp_offset (rp_r s)) 32 (rp_file s)) = true /\
       rp_hdr (rp_r s) = fm_ch_fields (fm_sub (rp_offset (rp_r s)) 32 (rp_file s))) in
  (forall f append, P (fst (rp_raw_open (rp_io0 f) append))) /\
  (forall s, P s -> P (fst (rp_raw_rd_header s))) /\
  (forall s max, P s -> P (fst (rp_raw_rd_payload s max))) /\
  (forall s, P s -> P (fst (rp_rd_chunk s))) /\
  (forall s o, P s -> P (fst (rp_chunk_seek s o))) /\
  (forall s, P s -> P (rp_seek_end s)).
Proof. exact rr_C04_invariant. Qed.
Print Assumptions C04s_cached_header_invariant.

(* (b) chunk header: file t = file s with the error pattern e (32 bytes) xor-ed onto the 32 header bytes at the
   chunk offset; e non-zero with at most 3 one bits, or one burst of at most 32 bits.  If the header read
   succeeds on s it returns JLS_ERROR_MESSAGE_INTEGRITY on t. *)
Theorem C04s_header_corruption_detected : forall (s t : rp_io) (e : list N),
  rp_flen s = rp_len (rp_file s) -> rp_flen t = rp_len (rp_file t) ->
  rp_r t = rp_r s -> rp_r_valid (rp_r s) = false ->
  bytes_ok (rp_file s) -> bytes_ok e -> length e = 32%nat ->
  rp_file t = firstn (N.to_nat (rp_offset (rp_r s))) (rp_file s)
              ++ xor_bytes (firstn 32 (skipn (N.to_nat (rp_offset (rp_r s))) (rp_file s))) e
              ++ skipn (N.to_nat (rp_offset (rp_r s)) + 32) (rp_file s) ->
  le e <> 0 ->
  ((weight (le e) <= 3)%nat \/
   (exists (v : N) (k : nat), 0 < v /\ v < 2 ^ 32 /\ (k <= 256)%nat /\ le e = N.shiftl v (N.of_nat k))) ->
  snd (rp_raw_rd_header s) = 0 ->
  snd (rp_raw_rd_header t) = JLS_ERROR_MESSAGE_INTEGRITY.
Proof. exact rr_header_corruption_detected. Qed.
Print Assumptions C04s_header_corruption_detected.

(* (b) payload + stored CRC: e on the pl payload bytes, esb on the 4 CRC bytes, the pad bytes replaced by ANY
   bytes pad'.  Region (pl + 4) * 8 <= 2^31 - 1 bits.  If the payload read succeeds on s it returns
   JLS_ERROR_MESSAGE_INTEGRITY on t. *)
Theorem C04s_payload_corruption_detected : forall (s t : rp_io) (max : N) (e esb pad' : list N),
  rp_flen s = rp_len (rp_file s) -> rp_flen t = rp_len (rp_file t) ->
  rp_r t = rp_r s -> rp_r_valid (rp_r s) = true ->
  let pl := fm_payload_length (rp_hdr (rp_r s)) in
  let dl := fm_disk_len pl in
  let p := rp_offset (rp_r s) + 32 in
  pl <> 0 ->
  bytes_ok (rp_file s) -> bytes_ok e -> bytes_ok esb ->
  length e = N.to_nat pl -> length esb = 4%nat -> length pad' = N.to_nat (dl - pl - 4) ->
  rp_file t = firstn (N.to_nat p) (rp_file s)
              ++ xor_bytes (firstn (N.to_nat pl) (skipn (N.to_nat p) (rp_file s))) e
              ++ pad'
              ++ xor_bytes (firstn 4 (skipn (N.to_nat (p + dl - 4)) (rp_file s))) esb
              ++ skipn (N.to_nat (p + dl)) (rp_file s) ->
  N.of_nat (8 * length (e ++ esb)) <= 2147483647 ->
  le (e ++ esb) <> 0 ->
  ((weight (le (e ++ esb)) <= 3)%nat \/
   (exists (v : N) (k : nat), 0 < v /\ v < 2 ^ 32 /\ (k <= 8 * length (e ++ esb))%nat /\
      le (e ++ esb) = N.shiftl v (N.of_nat k))) ->
  snd (rp_raw_rd_payload s max) = 0 ->
  snd (rp_raw_rd_payload t max) = JLS_ERROR_MESSAGE_INTEGRITY.
Proof. exact rr_payload_corruption_detected. Qed.
Print Assumptions C04s_payload_corruption_detected.

(* (b) file header: read_verify does not return 0 on t: JLS_ERROR_TRUNCATED when the (corrupted) length field
   reads 0 (the reader then treats the file as not closed: repair path), else JLS_ERROR_UNSUPPORTED_FILE;
   the version handed out is 0 and fend is not set. *)
Theorem C04s_file_header_corruption_detected : forall (s t : rp_io) (e : list N),
  rp_flen s = rp_len (rp_file s) -> rp_flen t = rp_len (rp_file t) ->
  rp_r t = rp_r s -> rp_fpos (rp_r s) = 0 ->
  bytes_ok (rp_file s) -> bytes_ok e -> length e = 32%nat ->
  rp_file t = xor_bytes (firstn 32 (rp_file s)) e ++ skipn 32 (rp_file s) ->
  le e <> 0 ->
  ((weight (le e) <= 3)%nat \/
   (exists (v : N) (k : nat), 0 < v /\ v < 2 ^ 32 /\ (k <= 256)%nat /\ le e = N.shiftl v (N.of_nat k))) ->
  snd (fst (rp_read_verify s)) = 0 ->
  (snd (fst (rp_read_verify t)) = JLS_ERROR_TRUNCATED \/ snd (fst (rp_read_verify t)) = JLS_ERROR_UNSUPPORTED_FILE) /\
  snd (rp_read_verify t) = 0 /\
  rp_fend (rp_r (fst (fst (rp_read_verify t)))) = rp_fend (rp_r t).
Proof. exact rr_file_header_corruption_detected. Qed.
Print Assumptions C04s_file_header_corruption_detected.

(* (b) a whole chunk read: "a corrupted chunk is never silently accepted".  s, t: same reader state on files
   that differ only inside the header of the chunk at the current offset, or only inside its
   payload / pad / CRC, by an error of the class; both satisfy the cached-header hypothesis. *)
Theorem C04s_chunk_corruption_not_accepted : forall (s t s' : rp_io),
  rp_flen s = rp_len (rp_file s) ->
  (rp_r_valid (rp_r s) = true ->
     length (fm_sub (rp_offset (rp_r s)) 32 (rp_file s)) = 32%nat /\
     fm_ch_crc_ok (fm_sub (rp_offset (rp_r s)) 32 (rp_file s)) = true /\
     rp_hdr (rp_r s) = fm_ch_fields (fm_sub (rp_offset (rp_r s)) 32 (rp_file s))) ->
  rp_flen t = rp_len (rp_file t) ->
  (rp_r_valid (rp_r t) = true ->
     length (fm_sub (rp_offset (rp_r t)) 32 (rp_file t)) = 32%nat /\
     fm_ch_crc_ok (fm_sub (rp_offset (rp_r t)) 32 (rp_file t)) = true /\
     rp_hdr (rp_r t) = fm_ch_fields (fm_sub (rp_offset (rp_r t)) 32 (rp_file t))) ->
  rp_r t = rp_r s -> bytes_ok (rp_file s) ->
  rp_rd_chunk s = (s', 0) ->
  let off := rp_offset (rp_r s) in
  let pl := fm_payload_length (wm_ck_hdr (rp_cur s')) in
  let dl := fm_disk_len pl in
  let p := off + 32 in
  ((exists e, bytes_ok e /\ length e = 32%nat /\ le e <> 0 /\
      ((weight (le e) <= 3)%nat \/
       (exists (v : N) (k : nat), 0 < v /\ v < 2 ^ 32 /\ (k <= 256)%nat /\ le e = N.shiftl v (N.of_nat k))) /\
      rp_file t = firstn (N.to_nat off) (rp_file s)
                  ++ xor_bytes (firstn 32 (skipn (N.to_nat off) (rp_file s))) e
                  ++ skipn (N.to_nat off + 32) (rp_file s))
   \/
   (exists e esb pad', pl <> 0 /\ bytes_ok e /\ bytes_ok esb /\
      length e = N.to_nat pl /\ length esb = 4%nat /\ length pad' = N.to_nat (dl - pl - 4) /\
      N.of_nat (8 * length (e ++ esb)) <= 2147483647 /\ le (e ++ esb) <> 0 /\
      ((weight (le (e ++ esb)) <= 3)%nat \/
       (exists (v : N) (k : nat), 0 < v /\ v < 2 ^ 32 /\ (k <= 8 * length (e ++ esb))%nat /\
          le (e ++ esb) = N.shiftl v (N.of_nat k))) /\
      rp_file t = firstn (N.to_nat p) (rp_file s)
                  ++ xor_bytes (firstn (N.to_nat pl) (skipn (N.to_nat p) (rp_file s))) e
                  ++ pad'
                  ++ xor_bytes (firstn 4 (skipn (N.to_nat (p + dl - 4)) (rp_file s))) esb
                  ++ skipn (N.to_nat (p + dl)) (rp_file s))) ->
  snd (rp_rd_chunk t) <> 0.
Proof. exact rr_C04_chunk_corruption. Qed.
Print Assumptions C04s_chunk_corruption_not_accepted.

(* the same with the return code: JLS_ERROR_MESSAGE_INTEGRITY.  Header case: *)
Theorem C04s_chunk_header_corruption_code : forall (s t s' : rp_io) (e : list N),
  rp_flen s = rp_len (rp_file s) ->
  (rp_r_valid (rp_r s) = true ->
     length (fm_sub (rp_offset (rp_r s)) 32 (rp_file s)) = 32%nat /\
     fm_ch_crc_ok (fm_sub (rp_offset (rp_r s)) 32 (rp_file s)) = true /\
     rp_hdr (rp_r s) = fm_ch_fields (fm_sub (rp_offset (rp_r s)) 32 (rp_file s))) ->
  rp_flen t = rp_len (rp_file t) ->
  (rp_r_valid (rp_r t) = true ->
     length (fm_sub (rp_offset (rp_r t)) 32 (rp_file t)) = 32%nat /\
     fm_ch_crc_ok (fm_sub (rp_offset (rp_r t)) 32 (rp_file t)) = true /\
     rp_hdr (rp_r t) = fm_ch_fields (fm_sub (rp_offset (rp_r t)) 32 (rp_file t))) ->
  rp_r t = rp_r s -> bytes_ok (rp_file s) ->
  rp_rd_chunk s = (s', 0) ->
  bytes_ok e -> length e = 32%nat -> le e <> 0 ->
  ((weight (le e) <= 3)%nat \/
   (exists (v : N) (k : nat), 0 < v /\ v < 2 ^ 32 /\ (k <= 256)%nat /\ le e = N.shiftl v (N.of_nat k))) ->
  rp_file t = firstn (N.to_nat (rp_offset (rp_r s))) (rp_file s)
              ++ xor_bytes (firstn 32 (skipn (N.to_nat (rp_offset (rp_r s))) (rp_file s))) e
              ++ skipn (N.to_nat (rp_offset (rp_r s)) + 32) (rp_file s) ->
  snd (rp_rd_chunk t) = JLS_ERROR_MESSAGE_INTEGRITY.
Proof. exact rr_C04_chunk_header_code. Qed.
Print Assumptions C04s_chunk_header_corruption_code.

(* payload case (for a chunk whose tag is not JLS_TAG_INVALID = 0: the writer never produces tag 0) *)
Theorem C04s_chunk_payload_corruption_code : forall (s t s' : rp_io) (e esb pad' : list N),
  rp_flen s = rp_len (rp_file s) ->
  (rp_r_valid (rp_r s) = true ->
     length (fm_sub (rp_offset (rp_r s)) 32 (rp_file s)) = 32%nat /\
     fm_ch_crc_ok (fm_sub (rp_offset (rp_r s)) 32 (rp_file s)) = true /\
     rp_hdr (rp_r s) = fm_ch_fields (fm_sub (rp_offset (rp_r s)) 32 (rp_file s))) ->
  rp_flen t = rp_len (rp_file t) ->
  (rp_r_valid (rp_r t) = true ->
     length (fm_sub (rp_offset (rp_r t)) 32 (rp_file t)) = 32%nat /\
     fm_ch_crc_ok (fm_sub (rp_offset (rp_r t)) 32 (rp_file t)) = true /\
     rp_hdr (rp_r t) = fm_ch_fields (fm_sub (rp_offset (rp_r t)) 32 (rp_file t))) ->
  rp_r t = rp_r s -> bytes_ok (rp_file s) ->
  rp_rd_chunk s = (s', 0) ->
  let off := rp_offset (rp_r s) in
  let pl := fm_payload_length (wm_ck_hdr (rp_cur s')) in
  let dl := fm_disk_len pl in
  let p := off + 32 in
  fm_tag (wm_ck_hdr (rp_cur s')) <> JLS_TAG_INVALID -> pl <> 0 ->
  bytes_ok e -> bytes_ok esb ->
  length e = N.to_nat pl -> length esb = 4%nat -> length pad' = N.to_nat (dl - pl - 4) ->
  N.of_nat (8 * length (e ++ esb)) <= 2147483647 -> le (e ++ esb) <> 0 ->
  ((weight (le (e ++ esb)) <= 3)%nat \/
   (exists (v : N) (k : nat), 0 < v /\ v < 2 ^ 32 /\ (k <= 8 * length (e ++ esb))%nat /\
      le (e ++ esb) = N.shiftl v (N.of_nat k))) ->
  rp_file t = firstn (N.to_nat p) (rp_file s)
              ++ xor_bytes (firstn (N.to_nat pl) (skipn (N.to_nat p) (rp_file s))) e
              ++ pad'
              ++ xor_bytes (firstn 4 (skipn (N.to_nat (p + dl - 4)) (rp_file s))) esb
              ++ skipn (N.to_nat (p + dl)) (rp_file s) ->
  snd (rp_rd_chunk t) = JLS_ERROR_MESSAGE_INTEGRITY.
Proof. exact rr_C04_chunk_payload_code. Qed.
Print Assumptions C04s_chunk_payload_corruption_code.

(* the pad bytes: replaced by arbitrary bytes, the payload read gives the same return code and the same
   payload bytes in the buffer (no reader function returns pad bytes; they are outside every CRC) *)
Theorem C04s_pad_irrelevant : forall (s t : rp_io) (max : N) (pad' : list N),
  rp_flen s = rp_len (rp_file s) -> rp_flen t = rp_len (rp_file t) ->
  rp_r t = rp_r s -> rp_buf t = rp_buf s -> rp_r_valid (rp_r s) = true ->
  let pl := fm_payload_length (rp_hdr (rp_r s)) in
  let dl := fm_disk_len pl in
  let p := rp_offset (rp_r s) + 32 in
  pl <> 0 -> p + dl <= rp_len (rp_file s) ->
  length pad' = N.to_nat (dl - pl - 4) ->
  rp_file t = firstn (N.to_nat (p + pl)) (rp_file s) ++ pad' ++ skipn (N.to_nat (p + dl - 4)) (rp_file s) ->
  snd (rp_raw_rd_payload t max) = snd (rp_raw_rd_payload s max) /\
  firstn (N.to_nat pl) (rp_buf (fst (rp_raw_rd_payload t max))) = firstn (N.to_nat pl) (rp_buf (fst (rp_raw_rd_payload s max))).
Proof. exact rr_pad_irrelevant. Qed.
Print Assumptions C04s_pad_irrelevant.

(* the hypotheses are satisfiable: an 80-byte file (file header + one USER_DATA chunk with 5 payload bytes) *)
Theorem C04s_example_accepted :
  rr_inv (rr_ex_io rr_ex_file) /\
  snd (rp_rd_chunk (rr_ex_io rr_ex_file)) = 0 /\
  rp_payload (fst (rp_rd_chunk (rr_ex_io rr_ex_file))) = [1; 2; 3; 4; 5] /\
  wm_ck_hdr (rp_cur (fst (rp_rd_chunk (rr_ex_io rr_ex_file)))) = rr_ex_hdr.
Proof. exact rr_ex_chunk_accepted. Qed.
Print Assumptions C04s_example_accepted.

Theorem C04s_example_header_corruption :
  let s := rr_ex_io rr_ex_file in
  let f' := firstn 32 rr_ex_file ++ xor_bytes (firstn 32 (skipn 32 rr_ex_file)) rr_ex_e32 ++ skipn 64 rr_ex_file in
  let t := rr_ex_io f' in
  rr_inv s /\ rr_inv t /\ rp_r t = rp_r s /\ rp_r_valid (rp_r s) = false /\ bytes_ok rr_ex_e32 /\ length rr_ex_e32 = 32%nat /\
  le rr_ex_e32 <> 0 /\ (weight (le rr_ex_e32) <= 3)%nat /\
  snd (rp_raw_rd_header s) = 0 /\
  snd (rp_raw_rd_header t) = JLS_ERROR_MESSAGE_INTEGRITY /\ snd (rp_rd_chunk t) = JLS_ERROR_MESSAGE_INTEGRITY.
Proof. exact rr_ex_header_corruption. Qed.
Print Assumptions C04s_example_header_corruption.

Theorem C04s_example_payload_corruption :
  let s := rr_ex_io_hdr rr_ex_file in
  let e := [0; 0; 0; 0; 128] in let esb := [0; 0; 1; 0] in let pad' := [9; 9; 9; 9; 9; 9; 9] in
  let f' := firstn 64 rr_ex_file ++ xor_bytes (firstn 5 (skipn 64 rr_ex_file)) e ++ pad'
            ++ xor_bytes (firstn 4 (skipn 76 rr_ex_file)) esb ++ skipn 80 rr_ex_file in
  let t := rr_ex_io_hdr f' in
  rp_flen s = rp_len (rp_file s) /\ rp_flen t = rp_len (rp_file t) /\ rp_r t = rp_r s /\ rp_r_valid (rp_r s) = true /\
  fm_payload_length (rp_hdr (rp_r s)) = 5 /\ fm_disk_len 5 = 16 /\ rp_offset (rp_r s) + 32 = 64 /\
  bytes_ok e /\ bytes_ok esb /\ le (e ++ esb) <> 0 /\ (weight (le (e ++ esb)) <= 3)%nat /\
  snd (rp_raw_rd_payload s JLS_BUF_DEFAULT_SIZE) = 0 /\
  snd (rp_raw_rd_payload t JLS_BUF_DEFAULT_SIZE) = JLS_ERROR_MESSAGE_INTEGRITY.
Proof. exact rr_ex_payload_corruption. Qed.
Print Assumptions C04s_example_payload_corruption.

Theorem C04s_example_file_header :
  let s := rp_io0 rr_ex_file in
  let f' := xor_bytes (firstn 32 rr_ex_file) rr_ex_e32 ++ skipn 32 rr_ex_file in
  let t := rp_io0 f' in
  rp_flen s = rp_len (rp_file s) /\ rp_flen t = rp_len (rp_file t) /\ rp_r t = rp_r s /\ rp_fpos (rp_r s) = 0 /\
  snd (fst (rp_read_verify s)) = 0 /\ snd (rp_raw_open s false) = 0 /\
  snd (fst (rp_read_verify t)) = JLS_ERROR_UNSUPPORTED_FILE /\ snd (rp_raw_open t false) = JLS_ERROR_UNSUPPORTED_FILE.
Proof. exact rr_ex_file_header. Qed.
Print Assumptions C04s_example_file_header.
