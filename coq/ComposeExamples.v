(* COMPOSITION, examples: the hypotheses of the composed theorems are satisfiable by concrete non-trivial values, and
   the conclusions evaluate as stated (vm_compute). *)
From Coq Require Import NArith ZArith List Bool Lia Arith Sorted.
From JLS Require Import Generated CrcDefs Spec Format WmRaw WmCore WmTs WmFsr WriterModel WmProofs DefsModel DefsProofs
  BitCopyModel FsrPackModel FsrPackProofs PyramidModel PyramidProofs TsModel TsProofs
  RefineLog RefineFsr RefinePyr RefinePyr2 RefineBits2 RefineTs RefineProg RefineExamples ComposeFsr ComposeC01.
Import ListNotations.
Local Open Scope N_scope.

(* a u16 signal (no automatic omission), samples_per_data 64, index capacity 5; the program: user data, a source, a VSR
   signal, a rejected jls_wr_fsr (signal not yet defined), the definition, 150 samples from id 1000, other calls, 80
   samples from id 1100 (50 of them overlap: first written wins), a rejected duplicate definition, 700 samples from id
   1400 (a gap of 220 samples: filled), a rejected duplicate source.  18 blocks, 28 FSR chunks of the signal among 51
   chunks, two index levels. *)
Definition cx_sig : sigdef :=
  {| sg_id := 5; sg_src := 3; sg_type := JLS_SIGNAL_TYPE_FSR; sg_dtype := JLS_DATATYPE_U16; sg_rate := 1000; sg_spd := 64; sg_sdf := 16;
     sg_eps := 20; sg_sumdf := 10; sg_adf := 10; sg_udf := 10; sg_name := SBytes [120]; sg_units := SNull |}.
Definition cx_d : sigdef := match wm_sig_align cx_sig with Some d => d | None => cx_sig end.
Definition cx_p1 : list wop := [WUd rpx_ud; WSrc rpx_src; WSig rpx_vsr; WFsr 5 0%Z [1; 2]].
Definition cx_p2 : list wop :=
  [WFsr 5 1000%Z (map (fun k => N.of_nat (3 * k + 7)) (seq 0 150)); WUd rpx_ud; WOmit 7 1; WFlush;
   WFsr 5 1100%Z (map (fun k => N.of_nat (1000 + k)) (seq 0 80)); WSig cx_sig;
   WFsr 5 1400%Z (map (fun k => N.of_nat (5000 + 11 * k)) (seq 0 700)); WSrc rpx_src].
Definition cx_p : list wop := cx_p1 ++ WSig cx_sig :: cx_p2.
Definition cx_ops : list rf_op := rp_proj (sg_id cx_d) cx_p2.
Definition cx_g : sigstate := fold_left (fun g c => fsr_write g (fst c) (snd c)) (rf_calls cx_ops) (new_sig cx_d).
Definition cx_log : wm_log := wm_st_log (fst (wm_run_full wm_zero_summ1 wm_zero_summN cx_p)).
Definition cx_offs : list N := map rc_off (filter (rf_mine cx_d) (rf_chunks cx_log)).

Lemma cmp_c01_example :
  (0 < 1)%Z /\ sg_id cx_d < 256 /\ sg_id cx_d <> 0 /\ sg_type cx_d = JLS_SIGNAL_TYPE_FSR /\ 0 < sg_spd cx_d /\
  (dt_bits (sg_dtype cx_d) < 8 \/ dt_bits (sg_dtype cx_d) mod 8 = 0) /\ 0 < dt_bits (sg_dtype cx_d) /\
  0 < wm_fill_buf_samples (sg_dtype cx_d) /\ wm_fill_sample (sg_dtype cx_d) = fill_value (sg_dtype cx_d) /\
  32 * sg_eps cx_d + 16 < 4294967296 /\ 8 * sg_sumdf cx_d + 16 < 4294967296 /\
  16 + (sg_spd cx_d * dt_bits (sg_dtype cx_d) + 7) / 8 < 4294967296 /\
  py_consistent (rf_pd cx_d) /\
  Forall (rp_ok (sg_id cx_d)) cx_p /\
  Forall (fun o => match o with WSig d' => sg_id d' <> sg_id cx_d | _ => True end) cx_p1 /\
  snd (wm_api_signal_def (fst (wm_steps wm_zero_summ1 wm_zero_summN wm_api_open cx_p1 [])) cx_sig) = 0 /\
  wm_sig_align cx_sig = Some cx_d /\
  df_prog_ok cx_p /\
  cmp_no_omit cx_ops /\
  exists stf, py_srun (rf_pd cx_d) (dt_bits (sg_dtype cx_d) <=? 8) (rf_t0 cx_ops) 1 (rf_script cx_d rf_bs0 cx_ops) = PyOk stf /\
    length (pw_disk stf) = 28%nat /\ pw_heads stf = [1; 6; 27]%Z /\
    snd (wm_run_full wm_zero_summ1 wm_zero_summN cx_p) = [0; 0; 0; 16; 0; 0; 0; 3; 0; 0; 17; 0; 17] /\
    length (rf_chunks cx_log) = 51%nat /\
    rd_length cx_g = 1100 /\ rd_offset cx_g = 1000%Z /\ rf_t0 cx_ops = 1000%Z /\
    py_fsr_length (rf_pd cx_d) (pw_disk stf) (pw_heads stf) = PyOk 1100%Z /\
    (* sample position 777 (inside the third call, block 12): the level-1 seek, the DATA chunk in the log, a window of 5 *)
    py_fsr_seek (rf_pd cx_d) (pw_disk stf) (pw_heads stf) 1 1777 = PyOk 20%Z /\ rf_psi cx_offs 1 20 = 6048 /\
    (exists cd c, fst (py_rd_data0 (rf_pd cx_d) (pw_disk stf) (pw_heads stf) 5 py_cache0 1777) = PyOk (PyStored cd) /\
       pc_off cd = 17%Z /\ pc_ts cd = 1768%Z /\ pc_count cd = 64%Z /\
       find (fun c => rc_off c =? rf_psi cx_offs 1 (pc_off cd)) (rf_chunks cx_log) = Some c /\
       rc_off c = 5496 /\ rc_tag c = JLS_TAG_TRACK_FSR_DATA /\ rc_meta c = 5 /\ length (rc_pay c) = 144%nat /\
       rd_window cx_g 777 5 = Some [187; 35; 198; 35; 209; 35; 220; 35; 231; 35] /\
       fp_rd_blocks 16 1768 [(1768%Z, 64, skipn 16 (rc_pay c))] 9 5 (repeat 0 10) = RD_ok [187; 35; 198; 35; 209; 35; 220; 35; 231; 35]).
Proof.
  split; [reflexivity|]. split; [vm_compute; reflexivity|]. split; [vm_compute; discriminate|]. split; [vm_compute; reflexivity|].
  split; [vm_compute; reflexivity|]. split; [right; vm_compute; reflexivity|]. split; [vm_compute; reflexivity|].
  split; [vm_compute; reflexivity|]. split; [vm_compute; reflexivity|].
  split; [vm_compute; reflexivity|]. split; [vm_compute; reflexivity|]. split; [vm_compute; reflexivity|].
  split; [apply py_consistentb_ok; vm_compute; reflexivity|].
  split. { repeat constructor. }
  split. { repeat constructor. vm_compute. discriminate. }
  split; [vm_compute; reflexivity|]. split; [vm_compute; reflexivity|].
  split.
  { unfold df_prog_ok, cx_p, cx_p1, cx_p2. cbn [app]. repeat (apply Forall_cons; [cbn [df_wop_ok]|]); [..|apply Forall_nil].
    all: try exact I.
    all: try solve [unfold df_src_nonul; repeat split; nonul_tac].
    all: try solve [split; [split; nonul_tac
                           |split; [unfold df_sig_ranges; repeat split; vm_compute; reflexivity|vm_compute; reflexivity]]].
    all: intros [H|H]; discriminate H. }
  split. { unfold cmp_no_omit. vm_compute. repeat constructor. }
  eexists. split; [vm_compute; reflexivity|]. split; [vm_compute; reflexivity|]. split; [vm_compute; reflexivity|].
  split; [vm_compute; reflexivity|]. split; [vm_compute; reflexivity|]. split; [vm_compute; reflexivity|].
  split; [vm_compute; reflexivity|]. split; [vm_compute; reflexivity|]. split; [vm_compute; reflexivity|].
  split; [vm_compute; reflexivity|]. split; [vm_compute; reflexivity|].
  eexists. eexists. split; [vm_compute; reflexivity|]. split; [reflexivity|]. split; [reflexivity|]. split; [reflexivity|].
  split; [vm_compute; reflexivity|]. do 5 (split; [vm_compute; reflexivity|]). vm_compute. reflexivity.
Qed.

(* component level (refine_fsr_pyramid's example: u8, 15 blocks, automatic omission of the constant blocks) *)
Lemma cmp_comp_example :
  (0 < 1)%Z /\ sg_id rx_d < 256 /\ 0 < sg_spd rx_d /\ (dt_bits (sg_dtype rx_d) < 8 \/ dt_bits (sg_dtype rx_d) mod 8 = 0) /\
  0 < wm_fill_buf_samples (sg_dtype rx_d) /\ 32 * sg_eps rx_d + 16 < 4294967296 /\ 8 * sg_sumdf rx_d + 16 < 4294967296 /\
  16 + (sg_spd rx_d * dt_bits (sg_dtype rx_d) + 7) / 8 < 4294967296 /\
  py_consistent (rf_pd rx_d) /\
  rf_fresh rx_x0 /\ wm_fx_fsr rx_x0 = wm_fsr_open /\
  exists st, py_srun (rf_pd rx_d) (dt_bits (sg_dtype rx_d) <=? 8) (rf_t0 rx_ops) 1 (rf_script rx_d rf_bs0 rx_ops) = PyOk st /\
    length (pw_disk st) = 10%nat /\
    map (fun L => wm_get_off (wm_tk_offsets (wm_fx_tk (wm_fsr_close wm_zero_summ1 wm_zero_summN rx_d
                                (fold_left (rf_do wm_zero_summ1 wm_zero_summN rx_d) rx_ops rx_x0)))) (N.of_nat L)) [0; 1; 2; 3]%nat =
    map (rf_psi (map rc_off (rev (filter (rf_mine rx_d) (rf_out (wm_fsr_close wm_zero_summ1 wm_zero_summN rx_d
                                (fold_left (rf_do wm_zero_summ1 wm_zero_summN rx_d) rx_ops rx_x0)))))) 1) [1; 4; 9; 0]%Z.
Proof.
  destruct rx_fsr_example as (A1 & A2 & A3 & A4 & A5 & A6 & A7 & A8 & A9 & A10 & _).
  split; [exact A1|]. split; [exact A2|]. split; [exact A3|]. split; [exact A4|]. split; [exact A5|]. split; [exact A6|].
  split; [exact A7|]. split; [exact A8|]. split; [apply py_consistentb_ok; vm_compute; reflexivity|]. split; [exact A9|]. split; [exact A10|].
  eexists. split; [vm_compute; reflexivity|]. split; [vm_compute; reflexivity|]. vm_compute. reflexivity.
Qed.

(* annotation track, component level: refine_ts_track's example (25 annotations, decimate factor 10, timestamps k / 3).
   refine_ts_track asks for a payload codec whose output is shorter than 2^32 bytes for EVERY record of the type, which
   wm_anno_payload is not (the annotation data is an unbounded list); the instance below uses the codec that agrees with
   wm_anno_payload on every annotation that fits (all of rx_annos) *)
Definition cmp_anno_enc (a : anno) : list N := if rf_len (wm_anno_payload a) <? 4294967296 then wm_anno_payload a else [].

Lemma cmp_ts_example :
  JLS_TRACK_TYPE_ANNOTATION < 4 /\ (forall s, length (rt_anno_encS s) = 16%nat) /\ (2 <= 10)%nat /\
  16 + 16 * N.of_nat 10 < 4294967296 /\
  (forall a, rf_len (cmp_anno_enc a) < 4294967296) /\ map cmp_anno_enc rx_annos = map wm_anno_payload rx_annos /\
  rt_fresh JLS_TRACK_TYPE_ANNOTATION 10 rx_tx0 /\ (length rx_annos < 10 ^ 15)%nat /\
  StronglySorted Z.le (map an_ts rx_annos) /\
  length (tw_disk (ts_file anno ts_anno_sum an_ts ts_anno_summ 10 rx_annos)) = 33%nat /\
  fst (ts_annotations_from anno ts_anno_sum (tw_disk (ts_file anno ts_anno_sum an_ts ts_anno_summ 10 rx_annos))
         (tw_head (ts_file anno ts_anno_sum an_ts ts_anno_summ 10 rx_annos)) 5 (fun _ _ => false)) = skipn 15 rx_annos.
Proof.
  destruct rx_ts_example as (B1 & _ & B3 & _ & B5).
  split; [reflexivity|]. split; [exact rt_anno_encS_len|]. split; [repeat constructor|]. split; [reflexivity|].
  split. { intro a. unfold cmp_anno_enc. destruct (N.ltb_spec (rf_len (wm_anno_payload a)) 4294967296) as [H|H]; [exact H|reflexivity]. }
  split. { apply map_ext_in. intros a Ha. unfold cmp_anno_enc. rewrite Forall_forall in B3. specialize (B3 a Ha).
           apply N.ltb_lt in B3. rewrite B3. reflexivity. }
  split; [exact B1|].
  split. { apply Nat.lt_le_trans with (10 ^ 2)%nat; [vm_compute; repeat constructor|apply Nat.pow_le_mono_r; [discriminate|repeat constructor]]. }
  split. { vm_compute. repeat (constructor; [|repeat constructor; discriminate]). constructor. }
  split; [exact B5|]. vm_compute. reflexivity.
Qed.

(* the extra hypotheses of the whole-window theorem on the same program, and a window spanning blocks 0 and 1 *)
Lemma cmp_c01_whole_example :
  sg_eps cx_d * sg_sdf cx_d < 4294967296 /\
  In (sg_dtype cx_d) fp_dt_list /\ 8 < dt_bits (sg_dtype cx_d) /\ cmp_no_omit cx_ops /\
  sg_spd cx_d * dt_bits (sg_dtype cx_d) + 7 < 4294967296 /\
  Forall (fun c => N.of_nat (length (snd c)) < 4294967296) (rf_calls cx_ops) /\
  length (rb_fp_blocks 16 64 1000 0 (rf_blocks cx_d rf_bs0 cx_ops)) = 18%nat /\
  rd_window cx_g 60 6 = Some [187; 0; 190; 0; 193; 0; 196; 0; 199; 0; 202; 0] /\
  fp_rd_blocks 16 1000 (rb_fp_blocks 16 64 1000 0 (rf_blocks cx_d rf_bs0 cx_ops)) 60 6 (repeat 0 12) =
    RD_ok [187; 0; 190; 0; 193; 0; 196; 0; 199; 0; 202; 0].
Proof.
  split; [vm_compute; reflexivity|]. split; [vm_compute; tauto|]. split; [vm_compute; reflexivity|].
  split; [vm_compute; repeat constructor|]. split; [vm_compute; reflexivity|].
  split.
  { assert (H : forallb (fun c : Z * list N => N.of_nat (length (snd c)) <? 4294967296) (rf_calls cx_ops) = true) by (vm_compute; reflexivity).
    rewrite forallb_forall in H. apply Forall_forall. intros c Hc. apply N.ltb_lt. exact (H c Hc). }
  split; [vm_compute; reflexivity|]. split; vm_compute; reflexivity.
Qed.
