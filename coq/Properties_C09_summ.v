(* C09, last clause - "summaries treat gap samples of float signals as absent" (slice `summ`).
   Model: SummQ.v (sq_summary1 = jls_core_fsr_summary1, sq_summaryN = SUMMARYN_BODY_TEMPLATE of
   /repo/src/wr_fsr.c as of commit 358343b: BOTH loops of summaryN skip a child whose mean is not
   finite; None = NaN, the fill value of float signals).  Proofs: SummQProofs.v.
   sq_finite xs = the written (finite) samples of xs in order.
   Result: TRUE at level 1; at level >= 2 a child lying wholly in a gap is absent and NaN does not
   propagate, and the entry is EXACTLY the statistics of the written samples whenever the gaps are
   aligned to the windows of the level below.  One deviation remains (inherent in the file format, which
   stores no count per entry): a child that lies PARTLY in a gap is weighted like a full one
   (gap_levelN_unweighted_refuted; known finding, signature summaryN-partial-gap-unweighted-mean,
   observed on real files by tools/props/C02_summ.py). *)
From Coq Require Import NArith ZArith QArith List.
From JLS Require Import StatsQ StatsQProofs SummQ SummQProofs.
Import ListNotations.
Local Open Scope Q_scope.

(* level 1: the isfinite filter.  The entry is the exact statistics of the written samples of its
   group; a group that lies wholly in the gap gives the all-NaN entry. *)
Theorem gap_absent_level1 : forall xs : list (option Q),
  stats_in_range dbl_max (sq_finite xs) ->
  (sq_finite xs = [] -> sq_summary1 xs = mkSqEnt None None None None) /\
  (sq_finite xs <> [] ->
   exists m v lo hi, sq_summary1 xs = mkSqEnt (Some m) (Some v) (Some lo) (Some hi) /\
     m == mean_of (sq_finite xs) /\ v == ssq_of (sq_finite xs) / qlen (sq_finite xs) /\
     lo == min_of (sq_finite xs) /\ hi == max_of (sq_finite xs)).
Proof. exact sq_C09_gap_absent_level1. Qed.
Print Assumptions gap_absent_level1.

(* level >= 2 (a): children whose mean is NaN are absent - the entry is the entry of the remaining children *)
Theorem gap_levelN_children_absent : forall cs : list sq_ent,
  sq_summaryN cs = sq_summaryN (filter (fun c => match se_mean c with Some _ => true | None => false end) cs).
Proof. exact sq_C09_gap_children_absent. Qed.
Print Assumptions gap_levelN_children_absent.

(* (b) no NaN propagation: one child with a finite mean, and every finite-mean child has finite
   std / min / max: all four fields of the entry are finite *)
Theorem gap_levelN_no_nan : forall cs : list sq_ent,
  (exists c, In c cs /\ se_mean c <> None) ->
  (forall c, In c cs -> se_mean c <> None -> se_var c <> None /\ se_min c <> None /\ se_max c <> None) ->
  exists m v lo hi, sq_summaryN cs = mkSqEnt (Some m) (Some v) (Some lo) (Some hi).
Proof. exact sq_C09_gap_levelN_no_nan. Qed.
Print Assumptions gap_levelN_no_nan.

(* (c) children that are each either the NaN entry (window wholly in a gap) or the exact statistics of n
   written samples: the entry is exactly the statistics of all written samples - the NaN entry if there
   are none *)
Theorem gap_absent_levelN_children : forall (cs : list sq_ent) (ws : list (list Q)) (n : nat),
  (0 < n)%nat ->
  Forall2 (fun e w =>
             (w = [] /\ e = mkSqEnt None None None None) \/
             (length w = n /\ exists m v lo hi, e = mkSqEnt (Some m) (Some v) (Some lo) (Some hi) /\
                m == mean_of w /\ v == ssq_of w / qlen w /\ lo == min_of w /\ hi == max_of w)) cs ws ->
  stats_in_range dbl_max (concat ws) ->
  (concat ws = [] -> sq_summaryN cs = mkSqEnt None None None None) /\
  (concat ws <> [] ->
   exists m v lo hi, sq_summaryN cs = mkSqEnt (Some m) (Some v) (Some lo) (Some hi) /\
     m == mean_of (concat ws) /\ v == ssq_of (concat ws) / qlen (concat ws) /\
     lo == min_of (concat ws) /\ hi == max_of (concat ws)).
Proof. exact sq_C09_gap_absent_levelN_children. Qed.
Print Assumptions gap_absent_levelN_children.

(* every level, any stream (gaps anywhere): an entry whose window lies wholly in a gap is the NaN entry,
   an entry whose window contains no gap is exact - whatever the rest of the stream looks like *)
Theorem gap_levels_local : forall (d sumdf : nat) (xs : list (option Q)) (L k : nat) (e : sq_ent),
  (1 <= d)%nat -> (1 <= sumdf)%nat -> (1 <= L)%nat ->
  stats_in_range dbl_max (sq_finite xs) ->
  nth_error (sq_levels d sumdf xs L) k = Some e ->
  let n := (d * sumdf ^ (L - 1))%nat in
  let g := firstn n (skipn (k * n) xs) in
  length g = n /\
  (Forall (fun o => o = None) g -> e = mkSqEnt None None None None) /\
  (Forall (fun o => o <> None) g ->
   exists m v lo hi, e = mkSqEnt (Some m) (Some v) (Some lo) (Some hi) /\
     m == mean_of (sq_finite g) /\ v == ssq_of (sq_finite g) / qlen (sq_finite g) /\
     lo == min_of (sq_finite g) /\ hi == max_of (sq_finite g)).
Proof. exact sq_C09_gap_levels_local. Qed.
Print Assumptions gap_levels_local.

(* the stream statement: gaps aligned to the windows of level L-1 (every such window is wholly gap or
   wholly written; e.g. L = 2: gaps start and end on multiples of sample_decimate_factor).  Every entry
   of level L is exactly the statistics of the written samples of its window, the NaN entry if none. *)
Theorem gap_absent_levelN_aligned : forall (d sumdf : nat) (xs : list (option Q)) (L k : nat) (e : sq_ent),
  (1 <= d)%nat -> (1 <= sumdf)%nat -> (2 <= L)%nat ->
  stats_in_range dbl_max (sq_finite xs) ->
  (forall g, In g (sq_chunks (d * sumdf ^ (L - 2)) xs) -> Forall (fun o => o = None) g \/ Forall (fun o => o <> None) g) ->
  nth_error (sq_levels d sumdf xs L) k = Some e ->
  let n := (d * sumdf ^ (L - 1))%nat in
  let w := sq_finite (firstn n (skipn (k * n) xs)) in
  ((k + 1) * n <= length xs)%nat /\
  (w = [] -> e = mkSqEnt None None None None) /\
  (w <> [] ->
   exists m v lo hi, e = mkSqEnt (Some m) (Some v) (Some lo) (Some hi) /\
     m == mean_of w /\ v == ssq_of w / qlen w /\ lo == min_of w /\ hi == max_of w).
Proof. exact sq_C09_gap_absent_levelN_aligned. Qed.
Print Assumptions gap_absent_levelN_aligned.

(* children of ANY numbers of written samples (gaps inside children): all fields finite, min / max are the
   extremes of all written samples, variance >= 0, the mean is the UNWEIGHTED mean of the children's means *)
Theorem gap_absent_levelN_guarded : forall (cs : list sq_ent) (gs : list (list Q)),
  cs <> [] ->
  Forall2 (fun e w => exists m v lo hi, e = mkSqEnt (Some m) (Some v) (Some lo) (Some hi) /\
             m == mean_of w /\ v == ssq_of w / qlen w /\ lo == min_of w /\ hi == max_of w) cs gs ->
  Forall (fun g => g <> []) gs ->
  stats_in_range dbl_max (concat gs) ->
  exists m v lo hi, sq_summaryN cs = mkSqEnt (Some m) (Some v) (Some lo) (Some hi) /\
    m == qsum (map mean_of gs) / inject_Z (Z.of_nat (length gs)) /\ 0 <= v /\
    lo == min_of (concat gs) /\ hi == max_of (concat gs).
Proof. exact sq_C09_gap_levelN_guarded. Qed.
Print Assumptions gap_absent_levelN_guarded.

(* ... and that unweighted mean is not the mean of the written samples when a gap covers PART of a
   child: samples 0 NaN 6 6 (d = 2, sumdf = 2) give the level-2 mean 3, the written samples have mean 4 *)
Theorem gap_levelN_unweighted_refuted :
  exists (d sumdf : nat) (xs : list (option Q)) (m : Q) v lo hi,
    sq_levels d sumdf xs 2 = [mkSqEnt (Some m) v lo hi] /\ ~ m == mean_of (sq_finite xs).
Proof. exact sq_C09_gap_levelN_unweighted_refuted. Qed.
Print Assumptions gap_levelN_unweighted_refuted.

(* ---- non-vacuity ---- *)
Example gap_level1_example :
  sq_level1 4 [Some 1; None; Some 3; Some 5; None; None; None; None; Some 2; Some 2; None; Some 2] =
  [mkSqEnt (Some 3) (Some (8 # 3)) (Some 1) (Some 5); mkSqEnt None None None None; mkSqEnt (Some 2) (Some 0) (Some 2) (Some 2)].
Proof. vm_compute. reflexivity. Qed.
Print Assumptions gap_level1_example.

(* d = 2, sumdf = 2, three levels; samples 1 3 | NaN NaN | 5 7 | 9 11 | NaN x 8.  The hypothesis of
   gap_absent_levelN_aligned holds for L = 2: level 2 = exact statistics of [1;3] and of [5;7;9;11], then two
   NaN entries, no NaN std anywhere.  It does not hold for L = 3 (the level-2 window 1 3 NaN NaN is partly
   gap): the level-3 entry weights its two children equally (mean (2+8)/2 = 5, the written samples have
   mean 6) - the remaining known finding - but min, max are exact and the variance is finite. *)
Example gap_levelN_example :
  let xs := [Some 1; Some 3; None; None; Some 5; Some 7; Some 9; Some 11] ++ repeat None 8 in
  (forall g, In g (sq_chunks 2 xs) -> Forall (fun o => o = None) g \/ Forall (fun o => o <> None) g) /\
  sq_levels 2 2 xs 2 = [mkSqEnt (Some 2) (Some 1) (Some 1) (Some 3); mkSqEnt (Some 8) (Some 5) (Some 5) (Some 11);
                        mkSqEnt None None None None; mkSqEnt None None None None] /\
  sq_levels 2 2 xs 3 = [mkSqEnt (Some 5) (Some 12) (Some 1) (Some 11); mkSqEnt None None None None].
Proof.
  cbv zeta. split; [|vm_compute; split; reflexivity].
  intros g Hg. vm_compute in Hg.
  repeat (destruct Hg as [<-|Hg]; [first [left; repeat constructor; fail | right; repeat constructor; discriminate]|]).
  destruct Hg.
Qed.
Print Assumptions gap_levelN_example.
