(* Binary64 / binary32 rounding of the numeric properties C12, C20, C02: what was "measured, not
   proved" in Properties_C12_tmap.v, Properties_C20.v and Properties_C02.v, now proved with Flocq
   (From Flocq Require Import Core Relative Plus_error BinarySingleNaN) under explicit magnitude guards.

   Models: coq/FloatTmap.v  - /repo/src/tmap.c evaluated with Flocq's IEEE-754 binary64 operations
                              (b64 = binary_float 53 1024; conversions int64 -> double, /, *, round(),
                              (int64_t) cast, == 0.0), computable inside Coq (the examples run them);
           coq/FloatStats.v - /repo/src/statistics.c jls_statistics_add and the two-pass mean of
                              jls_statistics_compute_f64 / jls_core_fsr_summary1 on the reals with
                              RN = round-to-nearest-even into binary64 after every operation;
           coq/FloatSumm.v  - the (float) cast of /repo/src/wr_fsr.c summary_entry_add as RN32.
   Notation used in the statements:
     RN x    = round radix2 (FLT_exp (-1074) 53) ZnearestE x     (FloatTmap.RN)
     RN32 x  = round radix2 (FLT_exp (-149) 24) ZnearestE x      (FloatSumm.RN32)
     u64 = 2^-53, u32 = 2^-24 (unit roundoffs), eta32 = 2^-150;  generic_format ... x = "x is a double".
   Every theorem is closed; Print Assumptions lists the classical real-number axioms of the Coq
   standard library that Flocq is built on, nothing else. *)
From Coq Require Import ZArith Reals QArith Qreals Qabs List Bool.
From Flocq Require Import Core BinarySingleNaN.
From JLS Require Import Generated TmapModel StatsQ SummQ FloatTmap FloatStats FloatSumm.
Import ListNotations.
Local Open Scope Z_scope.

(* ====================================================================================== *)
(* C12 - interp_i64 in binary64                                                           *)
(* ====================================================================================== *)

(* ---- the floating-point expression  k = (int64_t) round((double) dk * ((double) dt / (double) ds))
   against the exact model's interp_k (round-half-away of the rational dk * dt / ds).
   Guards: the three differences are at most 2^53 in magnitude (their conversion to double is
   exact) and the exact product is at most 2^51 in magnitude.  Then the C value is defined (no NaN,
   no infinity, inside int64), differs from the exact model's by at most one, is less than one
   away from the exact rational value (1/2 from round() plus 2^-52 relative from binary64), and is
   EQUAL to the exact model's whenever the exact value is an integer.
   This replaces the rounding HYPOTHESIS of C12_tmap_binary64_within_one_partial by Flocq's
   binary64 operations. ---- *)
Theorem C12_fp_binary64_within_one : forall dk ds dt : Z,
  Z.abs dk <= 2 ^ 53 -> Z.abs ds <= 2 ^ 53 -> Z.abs dt <= 2 ^ 53 -> ds <> 0 ->
  Z.abs (dk * dt) <= 2 ^ 51 * Z.abs ds ->
  exists kf : Z,
    fp_interp_k dk ds dt = TmOk kf /\
    -1 <= kf - interp_k dk ds dt <= 1 /\
    (Qabs (inject_Z kf - inject_Z dk * (inject_Z dt / inject_Z ds)) <=
       (1 # 2) + Qabs (inject_Z dk * (inject_Z dt / inject_Z ds)) * (1 # 2 ^ 52))%Q /\
    (Qabs (inject_Z kf - inject_Z dk * (inject_Z dt / inject_Z ds)) < 1)%Q /\
    (forall n : Z, dk * dt = n * ds -> kf = n /\ interp_k dk ds dt = n).
Proof. exact fp_interp_k_within_one. Qed.
Print Assumptions C12_fp_binary64_within_one.

(* the binary64 value before round() is within the relative distance rho64 < 2^-52 of the exact
   rational value (two roundings, each of relative error at most u/(1+u), u = 2^-53) *)
Theorem C12_fp_product_error : forall dk ds dt : Z,
  Z.abs dk <= 2 ^ 53 -> Z.abs ds <= 2 ^ 53 -> Z.abs dt <= 2 ^ 53 -> ds <> 0 ->
  (Rabs (RN (IZR dk * RN (IZR dt / IZR ds)) - IZR dk * (IZR dt / IZR ds)) <=
     Rabs (IZR dk * (IZR dt / IZR ds)) * (u64 / (1 + u64) * (2 + u64 / (1 + u64))))%R /\
  (u64 / (1 + u64) * (2 + u64 / (1 + u64)) < bpow radix2 (-52))%R.
Proof. exact fp_product_error_rho. Qed.
Print Assumptions C12_fp_product_error.

(* the C returns exactly the exact model's value unless the exact product lies within 2^-52 of its
   own magnitude of a half-integer m + 1/2 *)
Theorem C12_fp_equal_unless_near_half : forall dk ds dt : Z,
  Z.abs dk <= 2 ^ 53 -> Z.abs ds <= 2 ^ 53 -> Z.abs dt <= 2 ^ 53 -> ds <> 0 ->
  Z.abs (dk * dt) <= 2 ^ 51 * Z.abs ds ->
  (forall m : Z,
     (Qabs (inject_Z dk * (inject_Z dt / inject_Z ds)) * (1 # 2 ^ 52) <=
      Qabs (inject_Z dk * (inject_Z dt / inject_Z ds) - (inject_Z m + (1 # 2))))%Q) ->
  fp_interp_k dk ds dt = TmOk (interp_k dk ds dt).
Proof. exact fp_interp_k_equal_unless_near_half. Qed.
Print Assumptions C12_fp_equal_unless_near_half.

(* FINDING (expected gap, inside the property's tolerance): at exact ties the C and the exact
   model differ.  Anchors (0, T) and (22, T + 15), query sample 11: the exact value is 7.5, the exact
   model returns T + 8 (half away from zero), binary64 computes 11 * RN(15/22) = 7.499999999999999...
   and the C returns T + 7.  Replayed on the real C:
     echo 'f4240 0 E 2 0 400000000000000 16 40000000000000f Q sb' | build/plain/jlsrun tmap
     -> 0:400000000000007   (build/jlsmodel tmap -> 0:400000000000008) *)
Theorem C12_fp_differs_at_tie :
  fp_interp_k 11 22 15 = TmOk 7 /\ interp_k 11 22 15 = 8 /\
  (inject_Z 11 * (inject_Z 15 / inject_Z 22) == 15 # 2)%Q /\
  fp_interp_k 27 6 13 = TmOk 58 /\ interp_k 27 6 13 = 59.
Proof. exact fp_differs_at_tie. Qed.
Print Assumptions C12_fp_differs_at_tie.

(* the binary64 model returns what the real C returned (plain build, x86-64) on inputs where C and
   exact model differ (first eight) and agree (last four); (dk, ds, dt, value printed by the C) *)
Example C12_fp_model_matches_C :
  forallb (fun x : Z * Z * Z * Z => let '(dk, ds, dt, c) := x in
             match fp_interp_k dk ds dt with TmOk k => k =? c | TmFault _ => false end)
    [(-2702412, 50763, 31470704053112, -1675370019139502);
     (8410402035874, 8196149, 1477498383, 1516121218438531);
     (-2114761432735677, 594928244050532, 266759288269035, -948235791957892);
     (1890282447264, 1511327761816, 426739686022814, 533741626681033);
     (2294767857133, 979514455592, 194824132157129, 456426297453474);
     (51290450455, 104870506030, 934118610657361, 456862144875214);
     (747256917992, 1044909499074, 412379833403586, 294909447779262);
     (1070689170541, 898868679952, 279868163245719, 333365505161882);
     (224504468, 1946121, 922121677, 106375932702);
     (3053, 4055, 109889063670, 82735218591);
     (202724910614, 239700272448, 524844981936072, 443884151497069);
     (1180394540610, 1020892035402, 222945267390174, 257777872053406)] = true.
Proof. exact fp_model_matches_C. Qed.
Print Assumptions C12_fp_model_matches_C.

(* ---- the whole functions, two or more entries, any query (interpolation or extrapolation).
   The guard concerns the segment c the bisection selects (search is the integer code shared with
   the exact model): |q - x[c]|, |x[c+1] - x[c]|, |y[c+1] - y[c]| <= 2^53, the exact offset
   |(q - x[c]) * (y[c+1] - y[c]) / (x[c+1] - x[c])| <= 2^51, |y[c]| <= 2^62.  Then both the exact
   model and the binary64 evaluation return a value (no fault) and the two differ by at most one.
   `rate` (the sample rate as a double) is not used with two or more entries.
   The theorems below transfer each statement of Properties_C12_tmap.v to the binary64 C:
   anchors exact, monotone, between the anchors, within one tick, round trip within one sample. ---- *)
Theorem C12_fp_tmap_within_one : forall (rate : b64) (t : tmap) (q : Z), (2 <= length (tm_entries t))%nat ->
  ((forall c, search (ids t) q = TmOk c ->
      Z.abs (q - nth c (ids t) 0) <= 2 ^ 53 /\
      Z.abs (nth (S c) (ids t) 0 - nth c (ids t) 0) <= 2 ^ 53 /\
      Z.abs (nth (S c) (times t) 0 - nth c (times t) 0) <= 2 ^ 53 /\
      Z.abs ((q - nth c (ids t) 0) * (nth (S c) (times t) 0 - nth c (times t) 0)) <= 2 ^ 51 * Z.abs (nth (S c) (ids t) 0 - nth c (ids t) 0) /\
      Z.abs (nth c (times t) 0) <= 2 ^ 62) ->
   exists v v' : Z, tmap_sample_id_to_timestamp t q = QVal v /\
     fp_tmap_sample_id_to_timestamp rate t q = QVal v' /\ -1 <= v' - v <= 1) /\
  ((forall c, search (times t) q = TmOk c ->
      Z.abs (q - nth c (times t) 0) <= 2 ^ 53 /\
      Z.abs (nth (S c) (times t) 0 - nth c (times t) 0) <= 2 ^ 53 /\
      Z.abs (nth (S c) (ids t) 0 - nth c (ids t) 0) <= 2 ^ 53 /\
      Z.abs ((q - nth c (times t) 0) * (nth (S c) (ids t) 0 - nth c (ids t) 0)) <= 2 ^ 51 * Z.abs (nth (S c) (times t) 0 - nth c (times t) 0) /\
      Z.abs (nth c (ids t) 0) <= 2 ^ 62) ->
   exists v v' : Z, tmap_timestamp_to_sample_id t q = QVal v /\
     fp_tmap_timestamp_to_sample_id rate t q = QVal v' /\ -1 <= v' - v <= 1).
Proof. exact fp_tmap_within_one. Qed.
Print Assumptions C12_fp_tmap_within_one.

(* ---- the same WITHOUT the exactness guards: the three differences are any int64 values (their
   conversion to double may round: five roundings in all, relative error at most 6 * 2^-53); the only
   magnitude guard left is on the exact offset, 2^49 (6 days of ticks).  Still: no fault, at most one
   from the exact model, less than one from the exact rational value, exact at integers. ---- *)
Theorem C12_fp_binary64_general : forall dk ds dt : Z,
  Z.abs dk <= 2 ^ 63 -> Z.abs ds <= 2 ^ 63 -> Z.abs dt <= 2 ^ 63 -> ds <> 0 ->
  Z.abs (dk * dt) <= 2 ^ 49 * Z.abs ds ->
  exists kf : Z,
    fp_interp_k dk ds dt = TmOk kf /\
    -1 <= kf - interp_k dk ds dt <= 1 /\
    (Qabs (inject_Z kf - inject_Z dk * (inject_Z dt / inject_Z ds)) < 1)%Q /\
    (forall n : Z, dk * dt = n * ds -> kf = n /\ interp_k dk ds dt = n).
Proof. exact fp_interp_k_general. Qed.
Print Assumptions C12_fp_binary64_general.

Theorem C12_fp_tmap_within_one_general : forall (rate : b64) (t : tmap) (q : Z), (2 <= length (tm_entries t))%nat ->
  ((forall c, search (ids t) q = TmOk c ->
      in64 (q - nth c (ids t) 0) = true /\
      in64 (nth (S c) (ids t) 0 - nth c (ids t) 0) = true /\
      in64 (nth (S c) (times t) 0 - nth c (times t) 0) = true /\
      Z.abs ((q - nth c (ids t) 0) * (nth (S c) (times t) 0 - nth c (times t) 0)) <= 2 ^ 49 * Z.abs (nth (S c) (ids t) 0 - nth c (ids t) 0) /\
      Z.abs (nth c (times t) 0) <= 2 ^ 62) ->
   exists v v' : Z, tmap_sample_id_to_timestamp t q = QVal v /\
     fp_tmap_sample_id_to_timestamp rate t q = QVal v' /\ -1 <= v' - v <= 1) /\
  ((forall c, search (times t) q = TmOk c ->
      in64 (q - nth c (times t) 0) = true /\
      in64 (nth (S c) (times t) 0 - nth c (times t) 0) = true /\
      in64 (nth (S c) (ids t) 0 - nth c (ids t) 0) = true /\
      Z.abs ((q - nth c (times t) 0) * (nth (S c) (ids t) 0 - nth c (ids t) 0)) <= 2 ^ 49 * Z.abs (nth (S c) (times t) 0 - nth c (times t) 0) /\
      Z.abs (nth c (ids t) 0) <= 2 ^ 62) ->
   exists v v' : Z, tmap_timestamp_to_sample_id t q = QVal v /\
     fp_tmap_timestamp_to_sample_id rate t q = QVal v' /\ -1 <= v' - v <= 1).
Proof. exact fp_tmap_within_one_general. Qed.
Print Assumptions C12_fp_tmap_within_one_general.

(* a segment whose time difference 2^60 + 12345 is not a double: the general guard holds, the exactness
   guard does not; values computed by the binary64 model and by the exact model *)
Example C12_fp_example_general :
  let xs := [0; 2 ^ 40] in let ys := [5; 5 + 2 ^ 60 + 12345] in
  (in64 (1000003 - nth 0 xs 0) = true /\ in64 (nth 1 xs 0 - nth 0 xs 0) = true /\ in64 (nth 1 ys 0 - nth 0 ys 0) = true /\
   Z.abs ((1000003 - nth 0 xs 0) * (nth 1 ys 0 - nth 0 ys 0)) <= 2 ^ 49 * Z.abs (nth 1 xs 0 - nth 0 xs 0) /\
   Z.abs (nth 0 ys 0) <= 2 ^ 62) /\
  ~ (Z.abs (1000003 - nth 0 xs 0) <= 2 ^ 53 /\ Z.abs (nth 1 xs 0 - nth 0 xs 0) <= 2 ^ 53 /\ Z.abs (nth 1 ys 0 - nth 0 ys 0) <= 2 ^ 53 /\
     Z.abs ((1000003 - nth 0 xs 0) * (nth 1 ys 0 - nth 0 ys 0)) <= 2 ^ 51 * Z.abs (nth 1 xs 0 - nth 0 xs 0) /\
     Z.abs (nth 0 ys 0) <= 2 ^ 62) /\
  fp_interp_at xs ys 0 1000003 = TmOk (5 + 1048579145728) /\ interp_at xs ys 0 1000003 = TmOk (5 + 1048579145728).
Proof. exact fp_ex_general. Qed.
Print Assumptions C12_fp_example_general.

(* "to within one time tick of the exact value", for the binary64 C: on the segment c the property
   prescribes (x[c] <= q unless c is the first segment, q < x[c+1] unless c is the last), under the
   same guard, the returned time is LESS THAN ONE tick from the exact rational value
   y[c] + (q - x[c]) * (y[c+1] - y[c]) / (x[c+1] - x[c])  (the exact model: at most 1/2) *)
Theorem C12_fp_tmap_within_one_tick : forall (rate : b64) (t : tmap) (q : Z) (c : nat),
  (forall i k, (i < k < length (ids t))%nat -> nth i (ids t) 0 < nth k (ids t) 0) ->
  (2 <= length (tm_entries t))%nat ->
  ((c + 2 <= length (ids t))%nat /\
   (forall i, (0 < i <= c)%nat -> nth i (ids t) 0 <= q) /\
   (forall i, (c < i)%nat -> (i + 1 < length (ids t))%nat -> q < nth i (ids t) 0)) ->
  (Z.abs (q - nth c (ids t) 0) <= 2 ^ 53 /\
   Z.abs (nth (S c) (ids t) 0 - nth c (ids t) 0) <= 2 ^ 53 /\
   Z.abs (nth (S c) (times t) 0 - nth c (times t) 0) <= 2 ^ 53 /\
   Z.abs ((q - nth c (ids t) 0) * (nth (S c) (times t) 0 - nth c (times t) 0)) <= 2 ^ 51 * Z.abs (nth (S c) (ids t) 0 - nth c (ids t) 0) /\
   Z.abs (nth c (times t) 0) <= 2 ^ 62) ->
  exists v' : Z, fp_tmap_sample_id_to_timestamp rate t q = QVal v' /\
    (Qabs (inject_Z v' - (inject_Z (nth c (times t) 0%Z) + inject_Z (q - nth c (ids t) 0%Z) * (inject_Z (nth (S c) (times t) 0%Z - nth c (times t) 0%Z) / inject_Z (nth (S c) (ids t) 0%Z - nth c (ids t) 0%Z)))) <=
       (1 # 2) + Qabs ((inject_Z (nth c (times t) 0%Z) + inject_Z (q - nth c (ids t) 0%Z) * (inject_Z (nth (S c) (times t) 0%Z - nth c (times t) 0%Z) / inject_Z (nth (S c) (ids t) 0%Z - nth c (ids t) 0%Z))) - inject_Z (nth c (times t) 0%Z)) * (1 # 2 ^ 52))%Q /\
    (Qabs (inject_Z v' - (inject_Z (nth c (times t) 0%Z) + inject_Z (q - nth c (ids t) 0%Z) * (inject_Z (nth (S c) (times t) 0%Z - nth c (times t) 0%Z) / inject_Z (nth (S c) (ids t) 0%Z - nth c (ids t) 0%Z)))) < 1)%Q.
Proof. exact fp_tmap_within_one_tick. Qed.
Print Assumptions C12_fp_tmap_within_one_tick.

(* ---- queries between the first and the last anchor: the guard is a property of the MAP alone
   (every segment: at most 2^53 samples, between 0 and 2^51 ticks, anchor times within 2^62).
   The binary64 C then: is within one tick of the exact model, stays between the two anchor times
   of the segment, is less than one tick from the exact rational value, and reproduces EVERY STORED
   PAIR EXACTLY. ---- *)
Theorem C12_fp_tmap_inside : forall (rate : b64) (t : tmap) (q : Z),
  (forall i k, (i < k < length (ids t))%nat -> nth i (ids t) 0 < nth k (ids t) 0) ->
  (2 <= length (tm_entries t))%nat ->
  (forall j, (j + 1 < length (ids t))%nat ->
     nth (S j) (ids t) 0 - nth j (ids t) 0 <= 2 ^ 53 /\
     0 <= nth (S j) (times t) 0 - nth j (times t) 0 <= 2 ^ 51 /\
     Z.abs (nth j (times t) 0) <= 2 ^ 62) ->
  nth 0 (ids t) 0 <= q <= nth (length (tm_entries t) - 1) (ids t) 0 ->
  exists (c : nat) (v v' : Z),
    ((c + 2 <= length (ids t))%nat /\
     (forall i, (0 < i <= c)%nat -> nth i (ids t) 0 <= q) /\
     (forall i, (c < i)%nat -> (i + 1 < length (ids t))%nat -> q < nth i (ids t) 0)) /\
    tmap_sample_id_to_timestamp t q = QVal v /\ fp_tmap_sample_id_to_timestamp rate t q = QVal v' /\
    -1 <= v' - v <= 1 /\
    nth c (times t) 0 <= v' <= nth (S c) (times t) 0 /\
    (Qabs (inject_Z v' - (inject_Z (nth c (times t) 0%Z) + inject_Z (q - nth c (ids t) 0%Z) * (inject_Z (nth (S c) (times t) 0%Z - nth c (times t) 0%Z) / inject_Z (nth (S c) (ids t) 0%Z - nth c (ids t) 0%Z)))) < 1)%Q /\
    (forall i, (i < length (tm_entries t))%nat -> q = nth i (ids t) 0 -> v' = nth i (times t) 0).
Proof. exact fp_tmap_inside. Qed.
Print Assumptions C12_fp_tmap_inside.

(* time -> sample id, same shape (times strictly increasing; every segment at most 2^53 ticks and
   between 0 and 2^51 samples) *)
Theorem C12_fp_tmap_inside_time_to_id : forall (rate : b64) (t : tmap) (q : Z),
  (forall i k, (i < k < length (times t))%nat -> nth i (times t) 0 < nth k (times t) 0) ->
  (2 <= length (tm_entries t))%nat ->
  (forall j, (j + 1 < length (times t))%nat ->
     nth (S j) (times t) 0 - nth j (times t) 0 <= 2 ^ 53 /\
     0 <= nth (S j) (ids t) 0 - nth j (ids t) 0 <= 2 ^ 51 /\
     Z.abs (nth j (ids t) 0) <= 2 ^ 62) ->
  nth 0 (times t) 0 <= q <= nth (length (tm_entries t) - 1) (times t) 0 ->
  exists (c : nat) (v v' : Z),
    ((c + 2 <= length (times t))%nat /\
     (forall i, (0 < i <= c)%nat -> nth i (times t) 0 <= q) /\
     (forall i, (c < i)%nat -> (i + 1 < length (times t))%nat -> q < nth i (times t) 0)) /\
    tmap_timestamp_to_sample_id t q = QVal v /\ fp_tmap_timestamp_to_sample_id rate t q = QVal v' /\
    -1 <= v' - v <= 1 /\
    nth c (ids t) 0 <= v' <= nth (S c) (ids t) 0 /\
    (forall i, (i < length (tm_entries t))%nat -> q = nth i (times t) 0 -> v' = nth i (ids t) 0).
Proof. exact fp_tmap_inside_rev. Qed.
Print Assumptions C12_fp_tmap_inside_time_to_id.

(* the binary64 conversions themselves are non-decreasing between the first and the last anchor *)
Theorem C12_fp_tmap_monotone_inside : forall (rate : b64) (t : tmap) (q1 q2 v1 v2 : Z),
  (forall i k, (i < k < length (ids t))%nat -> nth i (ids t) 0 < nth k (ids t) 0) ->
  (2 <= length (tm_entries t))%nat ->
  (forall j, (j + 1 < length (ids t))%nat ->
     nth (S j) (ids t) 0 - nth j (ids t) 0 <= 2 ^ 53 /\
     0 <= nth (S j) (times t) 0 - nth j (times t) 0 <= 2 ^ 51 /\
     Z.abs (nth j (times t) 0) <= 2 ^ 62) ->
  nth 0 (ids t) 0 <= q1 -> q1 <= q2 -> q2 <= nth (length (tm_entries t) - 1) (ids t) 0 ->
  fp_tmap_sample_id_to_timestamp rate t q1 = QVal v1 -> fp_tmap_sample_id_to_timestamp rate t q2 = QVal v2 ->
  v1 <= v2.
Proof. exact fp_tmap_monotone_inside. Qed.
Print Assumptions C12_fp_tmap_monotone_inside.

Theorem C12_fp_tmap_monotone_inside_time_to_id : forall (rate : b64) (t : tmap) (q1 q2 v1 v2 : Z),
  (forall i k, (i < k < length (times t))%nat -> nth i (times t) 0 < nth k (times t) 0) ->
  (2 <= length (tm_entries t))%nat ->
  (forall j, (j + 1 < length (times t))%nat ->
     nth (S j) (times t) 0 - nth j (times t) 0 <= 2 ^ 53 /\
     0 <= nth (S j) (ids t) 0 - nth j (ids t) 0 <= 2 ^ 51 /\
     Z.abs (nth j (ids t) 0) <= 2 ^ 62) ->
  nth 0 (times t) 0 <= q1 -> q1 <= q2 -> q2 <= nth (length (tm_entries t) - 1) (times t) 0 ->
  fp_tmap_timestamp_to_sample_id rate t q1 = QVal v1 -> fp_tmap_timestamp_to_sample_id rate t q2 = QVal v2 ->
  v1 <= v2.
Proof. exact fp_tmap_monotone_inside_rev. Qed.
Print Assumptions C12_fp_tmap_monotone_inside_time_to_id.

(* "converting that time back returns the original sample id to within one sample", entirely in
   binary64 (both conversions as the C computes them), for queries between the first and the last
   anchor, when every segment has at least one tick per sample (the property's rate bound) *)
Theorem C12_fp_tmap_inverse_within_one_sample : forall (rate : b64) (t : tmap) (q tm q' : Z),
  (forall i k, (i < k < length (ids t))%nat -> nth i (ids t) 0 < nth k (ids t) 0) ->
  (forall i k, (i < k < length (times t))%nat -> nth i (times t) 0 < nth k (times t) 0) ->
  (2 <= length (tm_entries t))%nat ->
  (forall j, (j + 1 < length (ids t))%nat ->
     nth (S j) (ids t) 0 - nth j (ids t) 0 <= 2 ^ 53 /\
     0 <= nth (S j) (times t) 0 - nth j (times t) 0 <= 2 ^ 51 /\
     Z.abs (nth j (times t) 0) <= 2 ^ 62) ->
  (forall j, (j + 1 < length (times t))%nat ->
     nth (S j) (times t) 0 - nth j (times t) 0 <= 2 ^ 53 /\
     0 <= nth (S j) (ids t) 0 - nth j (ids t) 0 <= 2 ^ 51 /\
     Z.abs (nth j (ids t) 0) <= 2 ^ 62) ->
  (forall i, (i + 1 < length (tm_entries t))%nat ->
     nth (S i) (ids t) 0 - nth i (ids t) 0 <= nth (S i) (times t) 0 - nth i (times t) 0) ->
  nth 0 (ids t) 0 <= q <= nth (length (tm_entries t) - 1) (ids t) 0 ->
  fp_tmap_sample_id_to_timestamp rate t q = QVal tm ->
  fp_tmap_timestamp_to_sample_id rate t tm = QVal q' ->
  -1 <= q' - q <= 1.
Proof. exact fp_tmap_inverse_inside. Qed.
Print Assumptions C12_fp_tmap_inverse_within_one_sample.

(* ---- the guards hold for realistic numbers: 1 MHz sample rate, one day of samples (8.64e10 < 2^37),
   UTC ticks of 2^-30 s (jls/time.h), anchors at 0 h, 12 h, 24 h with a drifting clock, UTC near 2^58.
   One day is 86400 * 2^30 < 2^47 ticks: four binary orders of magnitude inside the 2^51 guard, which
   is reached after 2^21 s = 24.3 days between two anchors (or of extrapolation). ---- *)
Example C12_fp_example_guards :
  let t := tmap_add_all (tmap_alloc (1000000 # 1))
             [(0, 2 ^ 58); (43200000000, 2 ^ 58 + 43200 * 2 ^ 30 + 617); (86400000000, 2 ^ 58 + 86400 * 2 ^ 30 + 1234)] in
  (forall i k, (i < k < length (ids t))%nat -> nth i (ids t) 0 < nth k (ids t) 0) /\
  (forall i k, (i < k < length (times t))%nat -> nth i (times t) 0 < nth k (times t) 0) /\
  (2 <= length (tm_entries t))%nat /\
  (forall j, (j + 1 < length (ids t))%nat ->
     nth (S j) (ids t) 0 - nth j (ids t) 0 <= 2 ^ 53 /\
     0 <= nth (S j) (times t) 0 - nth j (times t) 0 <= 2 ^ 51 /\
     Z.abs (nth j (times t) 0) <= 2 ^ 62) /\
  (forall j, (j + 1 < length (times t))%nat ->
     nth (S j) (times t) 0 - nth j (times t) 0 <= 2 ^ 53 /\
     0 <= nth (S j) (ids t) 0 - nth j (ids t) 0 <= 2 ^ 51 /\
     Z.abs (nth j (ids t) 0) <= 2 ^ 62) /\
  nth 0 (ids t) 0 = 0 /\ nth (length (tm_entries t) - 1) (ids t) 0 = 86400000000.
Proof. exact fp_ex_map_ok. Qed.
Print Assumptions C12_fp_example_guards.

Example C12_fp_example_slope :
  let t := tmap_add_all (tmap_alloc (1000000 # 1))
             [(0, 2 ^ 58); (43200000000, 2 ^ 58 + 43200 * 2 ^ 30 + 617); (86400000000, 2 ^ 58 + 86400 * 2 ^ 30 + 1234)] in
  forall i, (i + 1 < length (tm_entries t))%nat ->
    nth (S i) (ids t) 0 - nth i (ids t) 0 <= nth (S i) (times t) 0 - nth i (times t) 0.
Proof. exact fp_ex_map_slope. Qed.
Print Assumptions C12_fp_example_slope.

(* values of the binary64 model on that map (Flocq's operations evaluated by vm_compute), next to the
   exact model; an extrapolation one hour past the last anchor satisfies the selected-segment guard *)
Example C12_fp_example_values :
  let t := tmap_add_all (tmap_alloc (1000000 # 1))
             [(0, 2 ^ 58); (43200000000, 2 ^ 58 + 43200 * 2 ^ 30 + 617); (86400000000, 2 ^ 58 + 86400 * 2 ^ 30 + 1234)] in
  let rate := b64_of_Z 1000000 in
  fp_tmap_sample_id_to_timestamp rate t 12345678901 = QVal 288243632223493598 /\
  tmap_sample_id_to_timestamp t 12345678901 = QVal 288243632223493598 /\
  fp_tmap_sample_id_to_timestamp rate t 43200000000 = QVal (2 ^ 58 + 43200 * 2 ^ 30 + 617) /\
  fp_tmap_sample_id_to_timestamp rate t 86400000000 = QVal (2 ^ 58 + 86400 * 2 ^ 30 + 1234) /\
  fp_tmap_timestamp_to_sample_id rate t 288243632223493598 = QVal 12345678901 /\
  fp_tmap_sample_id_to_timestamp rate t 90000000000 = tmap_sample_id_to_timestamp t 90000000000 /\
  (Z.abs (90000000000 - nth 1 (ids t) 0) <= 2 ^ 53 /\
   Z.abs (nth 2 (ids t) 0 - nth 1 (ids t) 0) <= 2 ^ 53 /\
   Z.abs (nth 2 (times t) 0 - nth 1 (times t) 0) <= 2 ^ 53 /\
   Z.abs ((90000000000 - nth 1 (ids t) 0) * (nth 2 (times t) 0 - nth 1 (times t) 0)) <= 2 ^ 51 * Z.abs (nth 2 (ids t) 0 - nth 1 (ids t) 0) /\
   Z.abs (nth 1 (times t) 0) <= 2 ^ 62).
Proof. exact fp_ex_values. Qed.
Print Assumptions C12_fp_example_values.

(* ---- a single entry: extrapolation with the sample rate, in binary64.
     id -> time:  utc[0] + (int64_t) ((double)(q - s0) / sample_rate * 2^30)   (one rounding: the scaling by 2^30 is exact)
     time -> id:  sample_id[0] + (int64_t) ((double)(q - u0) * (1.0 / 2^30) * sample_rate)   (one rounding)
   `rate` is the C's double sample_rate; its value is the model's rational tm_rate t.
   Guards: |q - s0| <= 2^53 (exact conversion), the exact offset at most 2^52 in magnitude, the rate
   between 2^-900 and 2^1000 (no underflow / overflow of the quotient), the anchor within 2^62.
   Then: no fault, at most one unit from the exact model (truncation toward zero is discontinuous at
   every integer: a difference of one happens when the exact offset is within 2^-53 relative of an
   integer), and less than 1 + 2^-53 |offset| from the exact rational value (exact model: less than 1). ---- *)
Theorem C12_fp_tmap_single_within_one : forall (rate : b64) (t : tmap) (s0 u0 q : Z),
  tm_entries t = [(s0, u0)] ->
  is_finite rate = true -> B2R rate = Q2R (tm_rate t) ->
  (bpow radix2 (-900) <= Q2R (tm_rate t) <= bpow radix2 1000)%R ->
  (Z.abs (q - s0) <= 2 ^ 53 -> Z.abs u0 <= 2 ^ 62 ->
   (Qabs ((inject_Z (q - s0) / tm_rate t) * inject_Z (2 ^ 30)) <= inject_Z (2 ^ 52))%Q ->
   exists v v' : Z,
     tmap_sample_id_to_timestamp t q = QVal v /\ fp_tmap_sample_id_to_timestamp rate t q = QVal v' /\
     -1 <= v' - v <= 1 /\
     (Qabs (inject_Z v' - (inject_Z u0 + (inject_Z (q - s0) / tm_rate t) * inject_Z (2 ^ 30))) <
        1 + Qabs ((inject_Z (q - s0) / tm_rate t) * inject_Z (2 ^ 30)) * (1 # 2 ^ 53))%Q) /\
  (Z.abs (q - u0) <= 2 ^ 53 -> Z.abs s0 <= 2 ^ 62 ->
   (Qabs ((inject_Z (q - u0) * (1 / inject_Z (2 ^ 30))) * tm_rate t) <= inject_Z (2 ^ 52))%Q ->
   exists v v' : Z,
     tmap_timestamp_to_sample_id t q = QVal v /\ fp_tmap_timestamp_to_sample_id rate t q = QVal v' /\
     -1 <= v' - v <= 1 /\
     (Qabs (inject_Z v' - (inject_Z s0 + (inject_Z (q - u0) * (1 / inject_Z (2 ^ 30))) * tm_rate t)) <
        1 + Qabs ((inject_Z (q - u0) * (1 / inject_Z (2 ^ 30))) * tm_rate t) * (1 # 2 ^ 53))%Q).
Proof. exact fp_tmap_single_within_one. Qed.
Print Assumptions C12_fp_tmap_single_within_one.

(* a rate given as num * 2^-sh (the notation of the correspondence scripts) is such a `rate` *)
Theorem C12_fp_rate_of_scaled : forall (num : Z) (sh : N), Z.abs num <= 2 ^ 53 -> Z.of_N sh <= 1074 ->
  is_finite (b64_of_scaled num sh) = true /\ B2R (b64_of_scaled num sh) = Q2R (tmap_rate num sh).
Proof. exact b64_of_scaled_exact. Qed.
Print Assumptions C12_fp_rate_of_scaled.

(* the single-entry guards hold for 1 MHz and a query one day after the only anchor *)
Example C12_fp_example_single :
  let t := tmap_add_all (tmap_alloc (1000000 # 1)) [(0, 2 ^ 58)] in
  let rate := b64_of_Z 1000000 in
  tm_entries t = [(0, 2 ^ 58)] /\
  is_finite rate = true /\ B2R rate = Q2R (tm_rate t) /\
  (bpow radix2 (-900) <= Q2R (tm_rate t) <= bpow radix2 1000)%R /\
  Z.abs (86400000000 - 0) <= 2 ^ 53 /\ Z.abs (2 ^ 58) <= 2 ^ 62 /\
  (Qabs ((inject_Z (86400000000 - 0) / tm_rate t) * inject_Z (2 ^ 30)) <= inject_Z (2 ^ 52))%Q /\
  fp_tmap_sample_id_to_timestamp rate t 86400000000 = QVal (2 ^ 58 + 86400 * 2 ^ 30) /\
  fp_tmap_sample_id_to_timestamp rate t 12345678901 = tmap_sample_id_to_timestamp t 12345678901 /\
  fp_tmap_timestamp_to_sample_id rate t (2 ^ 58 + 86400 * 2 ^ 30) = QVal 86400000000.
Proof. exact fp_ex_single_ok. Qed.
Print Assumptions C12_fp_example_single.

(* ====================================================================================== *)
(* C20 - jls_statistics_add / the two-pass mean in binary64                               *)
(* ====================================================================================== *)
Local Open Scope R_scope.

(* Forward error of the running mean after n calls of jls_statistics_add (Welford update
   m += (x - m) / k, three binary64 operations per call), samples = n doubles of magnitude at most M:
     |mean_fp - mean_exact| <= 5 * n * 2^-53 * M
   (proved constant per call: (2 + u)^2 u M with u = 2^-53, i.e. 4.0000000000000009 u M).
   Guards: n <= 2^52 (the count converts exactly to double and the recurrence is contracting),
   M >= 2^-1022 (M is only an upper bound; this absorbs the absolute error 2^-1075 of a division
   that underflows - underflow itself is covered).  No overflow: all intermediate values are bounded
   by 10 M, so M <= 2^1019 suffices for IEEE arithmetic to agree with the model RN (C20_fp_add_mean_bounded).
   mean_of is the exact mean of StatsQ.v, the mean field of C20_add_fold. *)
Theorem C20_fp_add_mean_error : forall (M : R) (xs : list Q), bpow radix2 (-1022) <= M -> xs <> [] ->
  Forall (fun x => generic_format radix2 (FLT_exp (-1074) 53) (Q2R x) /\ Rabs (Q2R x) <= M) xs ->
  (Z.of_nat (length xs) <= 2 ^ 52)%Z ->
  Rabs (f_mean (fp_stats_add_list (map Q2R xs)) - Q2R (mean_of xs)) <= 5 * INR (length xs) * u64 * M.
Proof. exact fp_mean_error_Q. Qed.
Print Assumptions C20_fp_add_mean_error.

(* the same with the exact per-call constant, any M >= 0 (the underflow term 2^-1075 explicit):
   cstep M = (1 + u) ((2 u + u^2) M + 2^-1075) + u M *)
Theorem C20_fp_add_mean_error_sharp : forall (M : R) (xs : list R), 0 <= M -> xs <> [] ->
  Forall (fun x => generic_format radix2 (FLT_exp (-1074) 53) x /\ Rabs x <= M) xs ->
  (Z.of_nat (length xs) <= 2 ^ 52)%Z ->
  Rabs (f_mean (fp_stats_add_list xs) - rsum xs / INR (length xs)) <=
    INR (length xs) * ((1 + u64) * ((2 * u64 + u64 * u64) * M + bpow radix2 (-1075)) + u64 * M).
Proof. exact fp_mean_error. Qed.
Print Assumptions C20_fp_add_mean_error_sharp.

(* the two-pass mean of jls_statistics_compute_f64 (and of jls_core_fsr_summary1):
   v_mean = 0; v_mean += x[i] (n binary64 additions); v_mean /= n:
     |mean_fp - mean_exact| <= M ((1 + u)^(n+1) - 1) + 2^-1075         for n <= 2^53,
                            <= (n + 3) * 2^-53 * M                     for n + 1 <= 2^26, M >= 2^-1022 *)
Theorem C20_fp_compute_mean_error : forall (M : R) (xs : list R), 0 <= M -> xs <> [] ->
  Forall (fun x => generic_format radix2 (FLT_exp (-1074) 53) x /\ Rabs x <= M) xs ->
  (Z.of_nat (length xs) <= 2 ^ 53)%Z ->
  Rabs (fp_mean2 xs - rsum xs / INR (length xs)) <= M * ((1 + u64) ^ S (length xs) - 1) + bpow radix2 (-1075).
Proof. exact fp_mean2_error. Qed.
Print Assumptions C20_fp_compute_mean_error.

Theorem C20_fp_compute_mean_error_simple : forall (M : R) (xs : list Q), bpow radix2 (-1022) <= M -> xs <> [] ->
  Forall (fun x => generic_format radix2 (FLT_exp (-1074) 53) (Q2R x) /\ Rabs (Q2R x) <= M) xs ->
  (Z.of_nat (length xs) + 1 <= 2 ^ 26)%Z ->
  Rabs (fp_mean2 (map Q2R xs) - Q2R (mean_of xs)) <= (INR (length xs) + 3) * u64 * M.
Proof. exact fp_mean2_error_Q. Qed.
Print Assumptions C20_fp_compute_mean_error_simple.

(* the summation alone: |sum_fp - sum_exact| <= n M ((1 + u)^n - 1) *)
Theorem C20_fp_sum_error : forall (M : R) (xs : list R), 0 <= M ->
  Forall (fun x => generic_format radix2 (FLT_exp (-1074) 53) x /\ Rabs x <= M) xs ->
  Rabs (fp_sum xs - rsum xs) <= INR (length xs) * M * ((1 + u64) ^ length xs - 1).
Proof. exact fp_sum_error. Qed.
Print Assumptions C20_fp_sum_error.

(* no overflow in the mean update of jls_statistics_add: the exact results of x - m, (..) / k and
   m + (..) are at most 10 M in magnitude *)
Theorem C20_fp_add_mean_bounded : forall (M : R) (xs : list R) (x : R), bpow radix2 (-1022) <= M ->
  Forall (fun x => generic_format radix2 (FLT_exp (-1074) 53) x /\ Rabs x <= M) xs ->
  generic_format radix2 (FLT_exp (-1074) 53) x -> Rabs x <= M ->
  (Z.of_nat (S (length xs)) <= 2 ^ 52)%Z ->
  let mh := f_mean (fp_stats_add_list xs) in
  let K := INR (S (length xs)) in
  Rabs (x - mh) <= 10 * M /\ Rabs (RN (x - mh) / K) <= 10 * M /\ Rabs (mh + RN (RN (x - mh) / K)) <= 10 * M.
Proof. exact fp_add_mean_bounded. Qed.
Print Assumptions C20_fp_add_mean_bounded.

(* the hypotheses are satisfiable: five doubles (dyadic rationals) of magnitude at most 7 *)
Example C20_fp_example_hyps :
  let xs := [3 # 2; -(5 # 4); 7; 7; 1 # 1024]%Q in
  bpow radix2 (-1022) <= 7 /\ xs <> [] /\
  Forall (fun x => generic_format radix2 (FLT_exp (-1074) 53) (Q2R x) /\ Rabs (Q2R x) <= 7) xs /\
  (Z.of_nat (length xs) <= 2 ^ 52)%Z /\ (Z.of_nat (length xs) + 1 <= 2 ^ 26)%Z.
Proof. exact fp_stats_example_hyps. Qed.
Print Assumptions C20_fp_example_hyps.

(* Forward error of s = the sum of squared deviations accumulated by jls_statistics_add
   (s += (x - m_old) * (x - m_new): two subtractions, a product, an addition per call):
     |s_fp - s_exact| <= (21 n + 14) * n * 2^-53 * M^2        (<= 35 n^2 2^-53 M^2)
   for n <= 2^32 samples (doubles) of magnitude at most M, M >= 2^-511 (M^2 >= 2^-1022 absorbs the
   2^-1075 absolute error of an underflowing product).  The bound is quadratic in n because the
   worst-case bound of the running mean grows linearly with n and enters every later term; it is an
   absolute bound in units of M^2, not relative to s (when s << n M^2 - large offset, small spread -
   binary64 does lose the relative accuracy of s: this is the cancellation of DESIGN section 14, C02c).
   ssq_of is the exact value of StatsQ.v, the s field of C20_add_fold. *)
Theorem C20_fp_add_s_error : forall (M : R) (xs : list Q), bpow radix2 (-511) <= M -> xs <> [] ->
  Forall (fun x => generic_format radix2 (FLT_exp (-1074) 53) (Q2R x) /\ Rabs (Q2R x) <= M) xs ->
  (Z.of_nat (length xs) <= 2 ^ 32)%Z ->
  Rabs (f_s (fp_stats_add_list (map Q2R xs)) - Q2R (ssq_of xs)) <=
    (21 * INR (length xs) + 14) * INR (length xs) * u64 * (M * M).
Proof. exact fp_s_error_Q. Qed.
Print Assumptions C20_fp_add_s_error.

(* the general form: n <= 2^52, any M >= 0, explicit constants
     eps   = n * cstep M                        (bound of the mean errors, C20_fp_add_mean_error_sharp)
     delta = eps (1 + u) + 2 u M                (error of x - m_old and of x - m_new)
     pi    = (1 + u) delta (4 M + delta) + 4 u M^2 + 2^-1075      (error of the rounded product)
     |s_fp - s_exact| <= n (1 + 2 n u) ((1 + u) pi + 4 u n M^2) *)
Theorem C20_fp_add_s_error_general : forall (M : R) (xs : list R), 0 <= M ->
  Forall (fun x => generic_format radix2 (FLT_exp (-1074) 53) x /\ Rabs x <= M) xs ->
  (Z.of_nat (length xs) <= 2 ^ 52)%Z ->
  let n := INR (length xs) in
  let eps := n * ((1 + u64) * ((2 * u64 + u64 * u64) * M + bpow radix2 (-1075)) + u64 * M) in
  let delta := eps * (1 + u64) + 2 * u64 * M in
  let pi := (1 + u64) * (delta * (4 * M + delta)) + 4 * u64 * (M * M) + bpow radix2 (-1075) in
  Rabs (f_s (fp_stats_add_list xs) - rsum (map (fun x => (x - rsum xs / n) * (x - rsum xs / n)) xs)) <=
    n * ((1 + 2 * n * u64) * ((1 + u64) * pi + 4 * u64 * n * (M * M))).
Proof. exact fp_s_error. Qed.
Print Assumptions C20_fp_add_s_error_general.

(* ---- the same two bounds for the IEEE-754 computation itself: jls_statistics_add written with
   Flocq's binary64 operations (Bminus, Bdiv, Bplus, Bmult of BinarySingleNaN, round to nearest
   even, no fused multiply-add), started from jls_statistics_reset.
   Guards: n <= 2^32 finite doubles of magnitude at most M with 2^-511 <= M <= 2^480.
   Then no operation overflows (every result is finite), the count is n, and
     |mean - exact mean| <= 5 n 2^-53 M,    |s - exact s| <= (21 n + 14) n 2^-53 M^2. ---- *)
Theorem C20_fp_b64_add_error : forall (M : R) (xs : list b64),
  bpow radix2 (-511) <= M <= bpow radix2 480 -> xs <> [] ->
  Forall (fun x => is_finite x = true /\ Rabs (B2R x) <= M) xs -> (Z.of_nat (length xs) <= 2 ^ 32)%Z ->
  let st := b64_stats_add_list xs in
  is_finite (b_mean st) = true /\ is_finite (b_s st) = true /\ b_k st = Z.of_nat (length xs) /\
  Rabs (B2R (b_mean st) - rsum (map B2R xs) / INR (length (map B2R xs))) <= 5 * INR (length xs) * u64 * M /\
  Rabs (B2R (b_s st) - rsum (map (fun x => (x - rsum (map B2R xs) / INR (length (map B2R xs))) * (x - rsum (map B2R xs) / INR (length (map B2R xs)))) (map B2R xs))) <=
    (21 * INR (length xs) + 14) * INR (length xs) * u64 * (M * M).
Proof. exact b64_stats_add_error. Qed.
Print Assumptions C20_fp_b64_add_error.

(* under those guards the IEEE computation is the model on the reals used above (RN after every
   operation): same mean, same s, same count *)
Theorem C20_fp_b64_refines : forall (M : R) (xs : list b64),
  bpow radix2 (-511) <= M <= bpow radix2 480 ->
  Forall (fun x => is_finite x = true /\ Rabs (B2R x) <= M) xs -> (Z.of_nat (length xs) <= 2 ^ 32)%Z ->
  let st := b64_stats_add_list xs in
  is_finite (b_mean st) = true /\ is_finite (b_s st) = true /\ b_k st = Z.of_nat (length xs) /\
  fp_stats_add_list (map B2R xs) = mkFstats (length xs) (B2R (b_mean st)) (B2R (b_s st)).
Proof. exact b64_stats_add_list_refines. Qed.
Print Assumptions C20_fp_b64_refines.

(* the binary64 model returns bit for bit what the real C printed for mean and s
   (echo '1 5 3p-1 -5p-2 7p0 7p0 1p-10 R 0 A 0 0 5 P 0' | build/plain/jlsrun stats
    -> mean=4006cd3333333333 s=404e98e33999999a; second sequence: large offset, small spread);
   doubles written as (mantissa, exponent) *)
Example C20_fp_model_matches_C :
  (let st := b64_stats_add_list (map b64_mk [(3, -1); (-5, -2); (7, 0); (7, 0); (1, -10)]%Z) in
   Beqb (b_mean st) (b64_mk (6418069273654067, -51)%Z) && Beqb (b_s st) (b64_mk (8612350992685466, -47)%Z)) = true /\
  (let st := b64_stats_add_list (map b64_mk [(4503599627370497, -12); (4503599627370499, -12); (4503599627370498, -12); (-1, -20); (1, 30); (3, 0)]%Z) in
   Beqb (b_mean st) (b64_mk (4505065642878295, -13)%Z) && Beqb (b_s st) (b64_mk (6751004973671767, 28)%Z)) = true.
Proof. exact fp_stats_matches_C. Qed.
Print Assumptions C20_fp_model_matches_C.

Example C20_fp_b64_example_hyps :
  let xs := map b64_mk [(3, -1); (-5, -2); (7, 0); (7, 0); (1, -10)]%Z in
  bpow radix2 (-511) <= 7 <= bpow radix2 480 /\ xs <> [] /\
  Forall (fun x => is_finite x = true /\ Rabs (B2R x) <= 7) xs /\ (Z.of_nat (length xs) <= 2 ^ 32)%Z.
Proof. exact b64_stats_example_hyps. Qed.
Print Assumptions C20_fp_b64_example_hyps.

(* ---- the second pass of jls_statistics_compute_f64 (s = sum of (x[i] - v_mean)^2, v_mean = the
   binary64 mean of the first pass): the error is RELATIVE to the exact sum of squared deviations
   (a sum of non-negative terms does not cancel), plus second-order terms:
     |s_fp - s| <= (n + 4) 2^-53 s + 2 n ((n + 3) 2^-53 M)^2 + 2 n 2^-1075
   for n + 4 <= 2^26 doubles of magnitude at most M >= 2^-1022.  (Contrast with the one-pass update of
   jls_statistics_add above, whose worst-case bound is absolute, of order n^2 2^-53 M^2.) ---- *)
Theorem C20_fp_compute_s_error : forall (M : R) (xs : list R), bpow radix2 (-1022) <= M -> xs <> [] ->
  Forall (fun x => generic_format radix2 (FLT_exp (-1074) 53) x /\ Rabs x <= M) xs ->
  (Z.of_nat (length xs) + 4 <= 2 ^ 26)%Z ->
  let n := INR (length xs) in
  let s := rsum (map (fun x => (x - rsum xs / n) * (x - rsum xs / n)) xs) in
  Rabs (fp_ssq2 xs - s) <=
    (n + 4) * u64 * s + 2 * n * (((n + 3) * u64 * M) * ((n + 3) * u64 * M)) + 2 * n * bpow radix2 (-1075).
Proof. exact fp_ssq2_error. Qed.
Print Assumptions C20_fp_compute_s_error.

(* ====================================================================================== *)
(* C02 - "up to the precision of the stored summaries"                                     *)
(* ====================================================================================== *)

(* (float) x of summary_entry_add: relative perturbation 2^-24 in the normal range of float,
   2^-24 relative + 2^-150 absolute for any x, no overflow for |x| <= FLT_MAX, order preserved *)
Theorem C02_f32_store_rel : forall x : R, bpow radix2 (-126) <= Rabs x ->
  Rabs (RN32 x - x) <= u32 * Rabs x.
Proof. exact f32_store_rel. Qed.
Print Assumptions C02_f32_store_rel.

Theorem C02_f32_store_gen : forall x : R, Rabs (RN32 x - x) <= u32 * Rabs x + eta32.
Proof. exact f32_store_gen. Qed.
Print Assumptions C02_f32_store_gen.

Theorem C02_f32_store_no_overflow : forall x : R,
  Rabs x <= IZR ((2 ^ 24 - 1) * 2 ^ 104) -> Rabs (RN32 x) <= IZR ((2 ^ 24 - 1) * 2 ^ 104).
Proof. exact f32_store_no_overflow. Qed.
Print Assumptions C02_f32_store_no_overflow.

Theorem C02_f32_store_monotone : forall x y : R, x <= y -> RN32 x <= RN32 y.
Proof. exact f32_store_monotone. Qed.
Print Assumptions C02_f32_store_monotone.

(* the level-1 mean the C writes, against the exact entry of Properties_C02.summary_exact:
   entry k of level 1 has the exact mean m of its d = sample_decimate_factor samples w; the C computes
   the binary64 two-pass mean fp_mean2 w and stores (float) of it (sample types up to 32 bits) or the
   double itself (64-bit types):
     |stored_f32 - m| <= 2^-24 |m| + (1 + 2^-24) (d + 3) 2^-53 M + 2^-150
     |stored_f64 - m| <= (d + 3) 2^-53 M
   Guards: samples are doubles of magnitude at most M, M >= 2^-1022, d + 1 <= 2^26. *)
Theorem C02_fp_level1_mean : forall (d sumdf : nat) (xs : list Q) (k : nat) (e : sq_ent) (M : R),
  (1 <= d)%nat -> (1 <= sumdf)%nat -> (Z.of_nat d + 1 <= 2 ^ 26)%Z ->
  stats_in_range dbl_max xs ->
  bpow radix2 (-1022) <= M ->
  Forall (fun x => generic_format radix2 (FLT_exp (-1074) 53) (Q2R x) /\ Rabs (Q2R x) <= M) xs ->
  nth_error (sq_levels d sumdf (map Some xs) 1) k = Some e ->
  let w := firstn d (skipn (k * d) xs) in
  exists m : Q, se_mean e = Some m /\ (m == mean_of w)%Q /\
    Rabs (RN32 (fp_mean2 (map Q2R w)) - Q2R m) <=
      u32 * Rabs (Q2R m) + (1 + u32) * ((INR d + 3) * u64 * M) + eta32 /\
    Rabs (fp_mean2 (map Q2R w) - Q2R m) <= (INR d + 3) * u64 * M.
Proof. exact fp_level1_mean_f32. Qed.
Print Assumptions C02_fp_level1_mean.

(* non-vacuity: d = 4, ramp 0..11: entry 1 has the exact mean 11/2; hypotheses hold with M = 11 *)
Example C02_fp_level1_example :
  let xs := map (fun i => inject_Z (Z.of_nat i)) (seq 0 12) in
  nth_error (sq_levels 4 2 (map Some xs) 1) 1 = Some (mkSqEnt (Some (11 # 2)) (Some (5 # 4)) (Some 4%Q) (Some 7%Q)) /\
  stats_in_range dbl_max xs /\ bpow radix2 (-1022) <= 11 /\
  Forall (fun x => generic_format radix2 (FLT_exp (-1074) 53) (Q2R x) /\ Rabs (Q2R x) <= 11) xs.
Proof. exact fp_level1_example. Qed.
Print Assumptions C02_fp_level1_example.

(* the VARIANCE of a level-1 entry as the C computes it in binary64 (two passes over the entry's d
   samples, then v_var /= count), against the exact population variance v of Properties_C02.summary_exact:
     |var_fp - v| <= (d + 6) 2^-53 v + 3 ((d + 3) 2^-53 M)^2 + 4 * 2^-1075
   i.e. relative to v up to second-order terms.  What the file holds is (float) sqrt(var_fp) (or the
   double sqrt(var_fp)): the correctly rounded square root and the cast add relative 2^-53 and 2^-24;
   that last step is NOT composed here (SummQ keeps sqrt symbolic as well). *)
Theorem C02_fp_level1_var_partial : forall (d sumdf : nat) (xs : list Q) (k : nat) (e : sq_ent) (M : R),
  (1 <= d)%nat -> (1 <= sumdf)%nat -> (Z.of_nat d + 4 <= 2 ^ 26)%Z ->
  stats_in_range dbl_max xs ->
  bpow radix2 (-1022) <= M ->
  Forall (fun x => generic_format radix2 (FLT_exp (-1074) 53) (Q2R x) /\ Rabs (Q2R x) <= M) xs ->
  nth_error (sq_levels d sumdf (map Some xs) 1) k = Some e ->
  let w := firstn d (skipn (k * d) xs) in
  exists v : Q, se_var e = Some v /\ (v == ssq_of w / qlen w)%Q /\
    Rabs (fp_var1 (map Q2R w) - Q2R v) <=
      (INR d + 6) * u64 * Q2R v + 3 * (((INR d + 3) * u64 * M) * ((INR d + 3) * u64 * M)) + 4 * bpow radix2 (-1075).
Proof. exact fp_level1_var. Qed.
Print Assumptions C02_fp_level1_var_partial.

(* min and max of a level-1 entry are samples (no arithmetic): stored exactly in a 64-bit entry, within
   2^-24 relative (+ 2^-150) in a 32-bit entry, and the stored min is not above the stored max *)
Theorem C02_fp_level1_minmax : forall (d sumdf : nat) (xs : list Q) (k : nat) (e : sq_ent),
  (1 <= d)%nat -> (1 <= sumdf)%nat -> stats_in_range dbl_max xs ->
  nth_error (sq_levels d sumdf (map Some xs) 1) k = Some e ->
  let w := firstn d (skipn (k * d) xs) in
  exists lo hi : Q, se_min e = Some lo /\ se_max e = Some hi /\ (lo == min_of w)%Q /\ (hi == max_of w)%Q /\
    Rabs (RN32 (Q2R lo) - Q2R lo) <= u32 * Rabs (Q2R lo) + eta32 /\
    Rabs (RN32 (Q2R hi) - Q2R hi) <= u32 * Rabs (Q2R hi) + eta32 /\
    RN32 (Q2R lo) <= RN32 (Q2R hi).
Proof. exact fp_level1_minmax_f32. Qed.
Print Assumptions C02_fp_level1_minmax.

(* float samples: a value that is a binary32 number is stored unchanged *)
Theorem C02_f32_store_exact : forall x : R, generic_format radix2 (FLT_exp (-149) 24) x -> RN32 x = x.
Proof. exact f32_store_exact. Qed.
Print Assumptions C02_f32_store_exact.
