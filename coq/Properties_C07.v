(* C07: flush/close semantics of the threaded writer hold and nothing deadlocks.
   Same model and quantification as Properties_C06.v (TwrModel.v / TwrProofs.v).
   The protocol as it is in /repo (fx = false) violates "close returns": C07_close_hang_refuted is the
   concrete schedule.  The theorems below hold for both variants where fx is universally quantified;
   freedom from deadlock is for the repaired protocol (fx = true: jls_twr_close repeats
   msg_send(CLOSE) until the message is queued). *)
From Coq Require Import NArith List Bool.
From JLS Require Import MrbModel TwrModel TwrProofs.
Import ListNotations.
Local Open Scope N_scope.

(* close_post: once jls_twr_close has called jls_wr_close (its last action before returning), the writer
   thread has ended, all producers are finished, the queue is empty, every accepted message has been
   handed to the writer, and the close (END chunk + header length) is the last writer operation *)
Theorem C07_close_post :
  forall (fx : bool) (cap : N) (progs : list (list tw_call)) (s : tw_state),
  tw_wf cap progs -> tw_wf_close progs -> tw_reach fx cap progs s -> In TwAEnd (tw_applied s) ->
  tw_cpc s = TwCDone /\ tw_final s = true /\ mrb_abs (tw_q s) = [] /\ tw_held s = None /\
  tw_msgs_of (tw_applied s) = tw_acc_msgs s /\
  exists l, tw_applied s = l ++ [TwAEnd] /\ ~ In TwAEnd l.
Proof. exact tw_close_post. Qed.
Print Assumptions C07_close_post.

(* the protocol as it is in /repo: jls_twr_close ignores a failed msg_send(CLOSE) and joins a writer thread
   that waits for the event forever.  Capacity 128, one producer [user_data; user_data; close]: after
   tw_hang_sched (producer fills the queue, 5001 ms pass while the consumer is not scheduled, the consumer
   then drains the queue and waits) no thread can take a step, nobody sleeps, the threads are not
   finished, both accepted messages have been processed but the file is never closed *)
Theorem C07_close_hang_refuted :
  exists s : tw_state,
  tw_wf 128 tw_hang_prog /\ tw_wf_close tw_hang_prog /\
  tw_run false (tw_init 128 tw_hang_prog) tw_hang_sched = Some s /\ tw_reach false 128 tw_hang_prog s /\
  (forall t, tw_step false s t = None) /\ tw_some_sleeping s = false /\ tw_final s = false /\ tw_fault s = None /\
  map tw_pt_pc (tw_prods s) = [TwPJoin] /\ tw_cpc s = TwCWaitReacq /\ tw_signalled s = false /\
  length (tw_acc_msgs s) = 2%nat /\ tw_processed s = tw_acc_msgs s /\ ~ In TwAEnd (tw_applied s).
Proof. exact tw_close_hang. Qed.
Print Assumptions C07_close_hang_refuted.

(* the same decisions up to the point where the CLOSE send times out, on the repaired protocol: producer 0
   is sending CLOSE again instead of joining, and some thread can run *)
Theorem C07_close_hang_repaired : tw_hang_repaired_check = true.
Proof. exact tw_hang_repaired_check_true. Qed.
Print Assumptions C07_close_hang_repaired.

(* flush_post, all schedules, both protocol variants: when jls_twr_flush (call idx of thread t) has returned 0
   (ghost event TwEvFlushed, logged in the step in which the call returns) and its ticket was taken when
   `mark` messages had been accepted (ghost event TwEvTicket, logged in the step that takes the ticket under
   msg_mutex), then the first `mark` accepted messages have all been handed to the writer, in order, and a
   FLUSH message (jls_wr_flush = fsync) was processed after the last of them.  Holds in the state in which
   the flush returns and ever after.  Premise: fewer than 2^64 tickets taken so far (uint64 ticket counter). *)
Theorem C07_flush_post :
  forall (fx : bool) (cap : N) (progs : list (list tw_call)) (s : tw_state) (t : tw_tid) (idx mark : nat),
  tw_wf cap progs -> tw_wf_close progs -> tw_reach fx cap progs s ->
  N.of_nat (tw_ntickets s) < 18446744073709551616 ->
  In (TwEvFlushed t idx mark) (tw_trace s) ->
  (exists id, In (TwEvTicket t idx id mark) (tw_trace s)) /\
  firstn mark (tw_acc_msgs s) = firstn mark (tw_processed s) /\
  exists k m, (mark <= k)%nat /\ nth_error (tw_processed s) k = Some m /\ tw_kind_of m = 1.
Proof. exact tw_flush_post. Qed.
Print Assumptions C07_flush_post.

(* satisfiable: the second flush of producer 0 in the example run returned 0 with three messages accepted before its ticket *)
Example C07_flush_post_hyps :
  exists s : tw_state,
  tw_wf 128 tw_ex_prog /\ tw_wf_close tw_ex_prog /\ tw_reach false 128 tw_ex_prog s /\
  N.of_nat (tw_ntickets s) < 18446744073709551616 /\ In (TwEvFlushed (TwTProd 0) 2 3) (tw_trace s).
Proof. exact tw_ex_flush. Qed.
Print Assumptions C07_flush_post_hyps.

(* no_deadlock, repaired close (fx = true), all schedules, any number of producers, any capacity >= 48:
   in every reachable state either all threads have finished, or some thread sleeps (virtual time will
   wake it: retry and flush polling loops), or some thread can take a step.  tw_wf_live: producer 0 exists
   and its last call is jls_twr_close.  (The same statement is false for the protocol as it is in /repo:
   C07_close_hang_refuted; tw_hang_prog satisfies all three well-formedness conditions.) *)
Theorem C07_no_deadlock :
  forall (cap : N) (progs : list (list tw_call)) (s : tw_state),
  tw_wf cap progs -> tw_wf_close progs -> tw_wf_live progs -> tw_reach true cap progs s ->
  tw_final s = true \/ tw_some_sleeping s = true \/ exists t, tw_step true s t <> None.
Proof. exact tw_no_deadlock. Qed.
Print Assumptions C07_no_deadlock.

Example C07_no_deadlock_hyps : tw_wf_live tw_ex_prog /\ tw_wf_live tw_hang_prog.
Proof. exact tw_ex_wf_live. Qed.
Print Assumptions C07_no_deadlock_hyps.

Example C07_example_run :
  forall fx : bool, exists s : tw_state,
  tw_wf 128 tw_ex_prog /\ tw_wf_close tw_ex_prog /\ tw_reach fx 128 tw_ex_prog s /\
  In TwAEnd (tw_applied s) /\ tw_final s = true.
Proof. exact tw_ex_run. Qed.
Print Assumptions C07_example_run.
