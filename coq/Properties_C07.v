(* C07: flush/close semantics of the threaded writer hold and nothing deadlocks.
   Same model and quantification as Properties_C06.v (TwrModel.v / TwrProofs.v).
   The protocol as it is in /repo (fx = false) violates "close returns": C07_close_hang_refuted is the
   concrete schedule.  The theorems below hold for both variants where fx is universally quantified;
   freedom from deadlock is for the repaired protocol (fx = true: jls_twr_close repeats
   msg_send(CLOSE) until the message is queued). *)
From Coq Require Import NArith List Bool.
From JLS Require Import MrbModel TwrModel TwrProofs.
Import ListNotations.
Local Open Scope N_scope.

(* close_post: once jls_twr_close has called jls_wr_close (its last action before returning), the writer
   thread has ended, all producers are finished, the queue is empty, every accepted message has been
   handed to the writer, and the close (END chunk + header length) is the last writer operation *)
Theorem C07_close_post :
  forall (fx : bool) (cap : N) (progs : list (list tw_call)) (s : tw_state),
  tw_wf cap progs -> tw_wf_close progs -> tw_reach fx cap progs s -> In TwAEnd (tw_applied s) ->
  tw_cpc s = TwCDone /\ tw_final s = true /\ abs (tw_q s) = [] /\ tw_held s = None /\
  tw_msgs_of (tw_applied s) = tw_acc_msgs s /\
  exists l, tw_applied s = l ++ [TwAEnd] /\ ~ In TwAEnd l.
Proof. exact tw_close_post. Qed.
Print Assumptions C07_close_post.

(* the protocol as it is in /repo: jls_twr_close ignores a failed msg_send(CLOSE) and joins a writer thread
   that waits for the event forever.  Capacity 128, one producer [user_data; user_data; close]: after
   tw_hang_sched (producer fills the queue, 5001 ms pass while the consumer is not scheduled, the consumer
   then drains the queue and waits) no thread can take a step, nobody sleeps, the threads are not
   finished, both accepted messages have been processed but the file is never closed *)
Theorem C07_close_hang_refuted :
  exists s : tw_state,
  tw_wf 128 tw_hang_prog /\ tw_wf_close tw_hang_prog /\
  tw_run false (tw_init 128 tw_hang_prog) tw_hang_sched = Some s /\ tw_reach false 128 tw_hang_prog s /\
  (forall t, tw_step false s t = None) /\ tw_some_sleeping s = false /\ tw_final s = false /\ tw_fault s = None /\
  map tw_pt_pc (tw_prods s) = [TwPJoin] /\ tw_cpc s = TwCWaitReacq /\ tw_signalled s = false /\
  length (tw_acc_msgs s) = 2%nat /\ tw_processed s = tw_acc_msgs s /\ ~ In TwAEnd (tw_applied s).
Proof. exact tw_close_hang. Qed.
Print Assumptions C07_close_hang_refuted.

(* the same decisions up to the point where the CLOSE send times out, on the repaired protocol: producer 0
   is sending CLOSE again instead of joining, and some thread can run *)
Theorem C07_close_hang_repaired : tw_hang_repaired_check = true.
Proof. exact tw_hang_repaired_check_true. Qed.
Print Assumptions C07_close_hang_repaired.

Example C07_example_run :
  forall fx : bool, exists s : tw_state,
  tw_wf 128 tw_ex_prog /\ tw_wf_close tw_ex_prog /\ tw_reach fx 128 tw_ex_prog s /\
  In TwAEnd (tw_applied s) /\ tw_final s = true.
Proof. exact tw_ex_run. Qed.
Print Assumptions C07_example_run.
