(* The GENERATED step-size computation of jls_core_fsr_seek (/repo/src/core.c; GenCore.v is written by
   tools/c2gallina.py from the current source: the statements
       int64_t step_size = signal_def->samples_per_data;
       if (lvl > 1) step_size *= entries_per_summary / (samples_per_data / sample_decimate_factor);
       for (int k = 3; k <= lvl; ++k) step_size *= summary_decimate_factor;            )
   against the hand-written PyramidModel.py_step, which computes in Z.

   The C multiplies in int64_t (overflow is undefined: Fault Signed_overflow in the generated model)
   and divides (Fault Div_zero).  gen_step_sound: whenever the generated fragment returns, it returns
   py_step.  gen_step_total: it does return when the divisors are non-zero and every intermediate
   product fits int64 (`step_fits`), for levels 0..15 and any fuel of at least 16. *)
From Coq Require Import NArith ZArith List Bool Arith Lia.
From Coq Require Import ZifyBool ZifyN ZifyNat.
From JLS Require Import GenLib GenCore PyramidModel.
Local Open Scope Z_scope.
Ltac Zify.zify_post_hook ::= Z.div_mod_to_equations.

Definition dpy (g : jls_signal_def_s) : py_def :=
  {| py_spd := Z.of_N g.(jls_signal_def_s_samples_per_data);
     py_sdf := Z.of_N g.(jls_signal_def_s_sample_decimate_factor);
     py_eps := Z.of_N g.(jls_signal_def_s_entries_per_summary);
     py_sumdf := Z.of_N g.(jls_signal_def_s_summary_decimate_factor) |}.

Lemma sint_ok : forall w z v, sint w z = Ok v -> v = z.
Proof. intros w z v H. unfold sint in H. destruct (in_sint w z); inversion H; reflexivity. Qed.
Lemma sint_fits : forall z, - 2 ^ 63 <= z < 2 ^ 63 -> sint 64 z = Ok z.
Proof.
  intros z H. unfold sint, in_sint. change (2 ^ (64 - 1)) with (2 ^ 63).
  destruct ((- 2 ^ 63 <=? z) && (z <? 2 ^ 63)) eqn:E; [reflexivity | lia].
Qed.

(* the for loop *)
Lemma gen_mul_loop_sound : forall f g lvl acc k v k',
  jls_core_fsr_seek'step_size'loop1 f g lvl acc k = Ok (v, k') ->
  v = py_mul_loop (Z.to_nat (lvl + 1 - k)) (py_sumdf (dpy g)) acc.
Proof.
  induction f as [|f IH]; intros g lvl acc k v k' H; [discriminate|].
  cbn [jls_core_fsr_seek'step_size'loop1] in H.
  destruct (k <=? lvl) eqn:E.
  - destruct (sint 64 (acc * Z.of_N (jls_signal_def_s_summary_decimate_factor g))) as [a1|] eqn:E1; [|discriminate].
    cbn [bind] in H. destruct (sint 32 (k + 1)) as [k1|] eqn:E2; [|discriminate]. cbn [bind] in H.
    apply sint_ok in E1, E2. subst a1 k1. rewrite (IH _ _ _ _ _ _ H).
    replace (Z.to_nat (lvl + 1 - k)) with (S (Z.to_nat (lvl + 1 - (k + 1)))) by lia. reflexivity.
  - injection H as Hv Hk. subst v. replace (Z.to_nat (lvl + 1 - k)) with 0%nat by lia. reflexivity.
Qed.

Theorem gen_step_sound : forall (fuel : nat) (g : jls_signal_def_s) (lvl v : Z), 0 <= lvl ->
  jls_core_fsr_seek'step_size fuel g lvl = Ok v -> v = py_step (dpy g) (Z.to_nat lvl).
Proof.
  intros fuel g lvl v Hl H. unfold jls_core_fsr_seek'step_size in H. cbv zeta in H. unfold py_step.
  cbn [py_spd py_sdf py_eps py_sumdf dpy]. cbv zeta.
  set (spd := jls_signal_def_s_samples_per_data g) in *. set (sdf := jls_signal_def_s_sample_decimate_factor g) in *.
  set (eps := jls_signal_def_s_entries_per_summary g) in *.
  assert ((1 <? Z.to_nat lvl)%nat = (1 <? lvl)) as -> by lia.
  replace (Z.to_nat lvl - 2)%nat with (Z.to_nat (lvl + 1 - 3)) by lia.
  destruct (1 <? lvl) eqn:E.
  - unfold udiv in H. destruct (sdf =? 0)%N eqn:E0; [discriminate|]. cbn [bind] in H.
    destruct (spd / sdf =? 0)%N eqn:E1; [discriminate|]. cbn [bind] in H.
    destruct (sint 64 (Z.of_N spd * Z.of_N (eps / (spd / sdf)))) as [s1|] eqn:E2; [|discriminate]. cbn [bind] in H.
    apply sint_ok in E2. subst s1.
    destruct (jls_core_fsr_seek'step_size'loop1 fuel g lvl _ 3) as [[v1 k1]|] eqn:EL; [|discriminate].
    cbn [bind] in H. inversion H; subst v1. rewrite (gen_mul_loop_sound _ _ _ _ _ _ _ EL).
    rewrite !N2Z.inj_div. reflexivity.
  - cbn [bind] in H.
    destruct (jls_core_fsr_seek'step_size'loop1 fuel g lvl _ 3) as [[v1 k1]|] eqn:EL; [|discriminate].
    cbn [bind] in H. inversion H; subst v1. apply (gen_mul_loop_sound _ _ _ _ _ _ _ EL).
Qed.

(* every intermediate value of the computation fits int64 *)
Definition step_fits (d : py_def) (lvl : nat) : Prop :=
  let s1 := if (1 <? lvl)%nat then py_spd d * (py_eps d / (py_spd d / py_sdf d)) else py_spd d in
  forall n, (n <= lvl - 2)%nat -> py_mul_loop n (py_sumdf d) s1 < 2 ^ 63.

Lemma mul_loop_nonneg : forall n m acc, 0 <= m -> 0 <= acc -> 0 <= py_mul_loop n m acc.
Proof. induction n as [|n IH]; intros m acc Hm Ha; cbn [py_mul_loop]; [exact Ha | apply IH; nia]. Qed.

Lemma gen_mul_loop_total : forall n f g lvl acc k,
  (n < f)%nat -> Z.to_nat (lvl + 1 - k) = n -> 0 <= k -> lvl < 2 ^ 31 - 1 -> 0 <= acc ->
  (forall i, (i <= n)%nat -> py_mul_loop i (py_sumdf (dpy g)) acc < 2 ^ 63) ->
  exists k', jls_core_fsr_seek'step_size'loop1 f g lvl acc k = Ok (py_mul_loop n (py_sumdf (dpy g)) acc, k').
Proof.
  induction n as [|n IH]; intros f g lvl acc k Hf Hn Hk Hl Ha Hfit; (destruct f as [|f]; [lia|]);
    cbn [jls_core_fsr_seek'step_size'loop1].
  - assert ((k <=? lvl) = false) as -> by lia. eexists. reflexivity.
  - assert ((k <=? lvl) = true) as -> by lia.
    pose proof (Hfit 1%nat ltac:(lia)) as H1. cbn [py_mul_loop dpy py_sumdf] in H1.
    rewrite sint_fits by (split; [nia | exact H1]). cbn [bind].
    assert (S2 : sint 32 (k + 1) = Ok (k + 1)).
    { unfold sint, in_sint. change (2 ^ (32 - 1)) with (2 ^ 31).
      destruct ((- 2 ^ 31 <=? k + 1) && (k + 1 <? 2 ^ 31)) eqn:E; [reflexivity | lia]. }
    rewrite S2. cbn [bind py_mul_loop].
    assert (A1 : 0 <= acc * Z.of_N (jls_signal_def_s_summary_decimate_factor g)) by (apply Z.mul_nonneg_nonneg; lia).
    assert (A2 : forall i, (i <= n)%nat ->
                 py_mul_loop i (py_sumdf (dpy g)) (acc * Z.of_N (jls_signal_def_s_summary_decimate_factor g)) < 2 ^ 63).
    { intros i Hi. exact (Hfit (S i) ltac:(lia)). }
    apply (IH f g lvl _ (k + 1) ltac:(lia) ltac:(lia) ltac:(lia) Hl A1 A2).
Qed.

Theorem gen_step_total : forall (fuel : nat) (g : jls_signal_def_s) (lvl : Z),
  0 <= lvl < 16 -> (16 <= fuel)%nat ->
  jls_signal_def_s_sample_decimate_factor g <> 0%N ->
  (jls_signal_def_s_samples_per_data g / jls_signal_def_s_sample_decimate_factor g)%N <> 0%N ->
  step_fits (dpy g) (Z.to_nat lvl) ->
  jls_core_fsr_seek'step_size fuel g lvl = Ok (py_step (dpy g) (Z.to_nat lvl)).
Proof.
  intros fuel g lvl Hl Hf H0 H1 Hfit. unfold jls_core_fsr_seek'step_size, py_step, step_fits in *. cbv zeta in *.
  cbn [py_spd py_sdf py_eps py_sumdf dpy] in *.
  set (spd := jls_signal_def_s_samples_per_data g) in *. set (sdf := jls_signal_def_s_sample_decimate_factor g) in *.
  set (eps := jls_signal_def_s_entries_per_summary g) in *.
  assert (EQ : (1 <? Z.to_nat lvl)%nat = (1 <? lvl)) by lia. rewrite EQ in *.
  set (s1 := if 1 <? lvl then Z.of_N spd * (Z.of_N eps / (Z.of_N spd / Z.of_N sdf)) else Z.of_N spd) in *.
  assert (Hs1 : 0 <= s1).
  { unfold s1. destruct (1 <? lvl); [|lia]. apply Z.mul_nonneg_nonneg; [lia|].
    apply Z.div_pos; [lia|]. rewrite <- N2Z.inj_div. clear - H1. apply N.neq_0_lt_0 in H1. apply N2Z.inj_lt in H1. exact H1. }
  pose proof (Hfit 0%nat ltac:(lia)) as F0. cbn [py_mul_loop] in F0.
  assert (E1 : (if 1 <? lvl
                then bind (udiv spd sdf) (fun t1 => bind (udiv eps t1) (fun t2 =>
                     bind (sint 64 (Z.of_N spd * Z.of_N t2)) (fun step_size => Ok step_size)))
                else Ok (Z.of_N spd)) = Ok s1).
  { unfold s1 in *. destruct (1 <? lvl); [|reflexivity].
    unfold udiv. assert ((sdf =? 0)%N = false) as -> by lia. cbn [bind].
    assert ((spd / sdf =? 0)%N = false) as -> by lia. cbn [bind].
    rewrite !N2Z.inj_div. rewrite sint_fits by lia. reflexivity. }
  rewrite E1. cbn [bind].
  destruct (gen_mul_loop_total (Z.to_nat lvl - 2)%nat fuel g lvl s1 3 ltac:(lia) ltac:(lia) ltac:(lia) ltac:(lia) Hs1 Hfit) as [k' EL].
  cbn [dpy py_sumdf] in EL. rewrite EL. reflexivity.
Qed.

(* the hypotheses are satisfiable, and the generated fragment computes: the 32-bit defaults *)
Lemma gen_step_ex :
  let g := mk_jls_signal_def_s 1 1 0 0 0 1000 8192 128 640 20 100 100 0 Null Null in
  step_fits (dpy g) 10 /\
  jls_core_fsr_seek'step_size 16 g 1 = Ok 8192 /\ jls_core_fsr_seek'step_size 16 g 2 = Ok 81920 /\
  jls_core_fsr_seek'step_size 16 g 4 = Ok 32768000 /\
  jls_core_fsr_seek'step_size 16 g 15 = Fault Signed_overflow.
Proof.
  cbv zeta. split; [|repeat split; vm_compute; reflexivity].
  unfold step_fits. cbv zeta. intros n Hn.
  assert (n = 0 \/ n = 1 \/ n = 2 \/ n = 3 \/ n = 4 \/ n = 5 \/ n = 6 \/ n = 7 \/ n = 8)%nat as C by lia.
  repeat (destruct C as [->|C]; [vm_compute; reflexivity|]). subst n. vm_compute. reflexivity.
Qed.
