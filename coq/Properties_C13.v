(* C13 - Definitions and user data round-trip; identity rules are enforced.

   Model: DefsModel.v -
     byte codecs   df_enc_str / df_rd_str / df_dec_str (jls_buf_wr_str, jls_buf_rd_str with the 1 MiB string
                   blocks), df_u8/u16/u32, df_rd_u8/u16/u32/skip, df_enc_source_def / df_dec_source_def,
                   df_enc_signal_def / df_dec_signal_def (exact payload layouts, little endian);
     writer        df_wr_source, df_wr_signal, df_wr_user_data, the gates of the data calls, df_open
                   (source_info[]/signal_info[] as tables of slots, the definition log = the SOURCE_DEF,
                   SIGNAL_DEF, track DEF/HEAD and USER_DATA chunks in write order);
     reader        df_scan (jls_core_scan_sources, jls_core_scan_signals), df_rd_sources, df_rd_signals,
                   df_rd_signal, df_rd_user_data.
   Specification: Spec.v (wstep, spec_of, rd_sources, rd_signals, c_udata).

   Everything below holds for ALL byte strings, ALL ids, ALL orders of calls interleaved with any other
   call, ALL user data.  The guard df_prog_ok p and what it excludes:
     - definition strings are C strings (no NUL byte inside).  ANY length: strings that do not fit a string
       block (length + 1 > JLS_BUF_STRING_SIZE - 1) are refused with TOO_BIG by the writer and rejected by
       Spec.wstep alike, nothing is written (also C13_unfit_source_rejected);
     - signal definitions pass jls_core_signal_def_align (df_align_ok: no rounding result above UINT32_MAX, buffer
       sizes within UINT32_MAX / 2; the writer refuses the others and writes nothing - C13_oversize_signal_rejected -
       while Spec.wstep does not model that refusal), and the stored parameters Spec.sp_align d fit their uint32
       fields (kept as a hypothesis: that it follows from df_align_ok for uint32 inputs is C16's arithmetic and
       is not re-proved here);
     - STRING/JSON user data is given as a C string with its terminator.
   History: before /repo commit 48f541e a user-data chunk with storage type INVALID (accepted by the writer at
   any time) ended the reader's walk with an error and hid every later item (the theorem then needed the
   guard "no such call"); now such a chunk is a placeholder that the reader skips and Spec.wstep stores no
   item for it, and C13_user_data_roundtrip holds without that guard (C13_ud_placeholder_example).  Before
   741edba jls_buf_rd_str looked at the byte after the payload; the decoders no longer depend on it. *)
From Coq Require Import NArith List Bool.
From JLS Require Import Generated Spec DefsModel DefsProofs.
Import ListNotations.
Local Open Scope N_scope.

(* ---- the vocabulary, written out ---- *)
Theorem C13_vocabulary_is :
  (forall l, df_nonul l <-> forall b, In b l -> b <> 0) /\
  (forall l, df_str_fits l <-> N.of_nat (length l) + 1 <= JLS_BUF_STRING_SIZE - 1) /\
  (forall d, df_src_fits d <->
     df_str_fits (df_cstr (str_read (so_name d))) /\ df_str_fits (df_cstr (str_read (so_vendor d))) /\
     df_str_fits (df_cstr (str_read (so_model d))) /\ df_str_fits (df_cstr (str_read (so_version d))) /\
     df_str_fits (df_cstr (str_read (so_serial d)))) /\
  (forall d, df_sig_fits d <->
     df_str_fits (df_cstr (str_read (sg_name d))) /\ df_str_fits (df_cstr (str_read (sg_units d)))) /\
  (forall d, df_sig_ranges d <->
     sg_src d < 65536 /\ sg_type d < 256 /\ sg_dtype d < 4294967296 /\ sg_rate d < 4294967296 /\
     sg_spd d < 4294967296 /\ sg_sdf d < 4294967296 /\ sg_eps d < 4294967296 /\ sg_sumdf d < 4294967296 /\
     sg_adf d < 4294967296 /\ sg_udf d < 4294967296) /\
  (forall d, df_align_ok d = true <->
     (sg_sdf (sp_align d) <=? 4294967295) && (sg_eps (sp_align d) <=? 4294967295)
     && (sp_round_up (N.max (sp_dflt (dt_bits (sg_dtype d)) 0 (sg_spd d)) SAMPLES_PER_DATA_MIN) (sg_sdf (sp_align d)) <=? 4294967295)
     && (sg_spd (sp_align d) * dt_bits (sg_dtype d) / 8 <=? 2147483647)
     && (sg_eps (sp_align d) * (JLS_SUMMARY_FSR_COUNT * 8) <=? 2147483647) = true) /\
  (forall d, df_src_nonul d <->
     df_nonul (str_read (so_name d)) /\ df_nonul (str_read (so_vendor d)) /\ df_nonul (str_read (so_model d)) /\
     df_nonul (str_read (so_version d)) /\ df_nonul (str_read (so_serial d))) /\
  (forall p, df_prog_ok p <->
     Forall (fun o => match o with
                      | WSrc d => df_src_nonul d
                      | WSig d => (df_nonul (str_read (sg_name d)) /\ df_nonul (str_read (sg_units d))) /\
                                  df_sig_ranges (sp_align d) /\ df_align_ok d = true
                      | WUd u => (ud_stype u = JLS_STORAGE_TYPE_STRING \/ ud_stype u = JLS_STORAGE_TYPE_JSON) ->
                                 exists s, ud_data u = s ++ [0] /\ df_nonul s
                      | _ => True
                      end) p).
Proof.
  repeat (split; [intros x; split; exact (fun h => h)|]). intros x; split; exact (fun h => h).
Qed.
Print Assumptions C13_vocabulary_is.

(* ---- 1. strings ---- *)
Theorem C13_str_roundtrip : forall s rest, df_nonul (str_read s) -> df_str_fits (str_read s) ->
  df_dec_str (df_enc_str s ++ rest) = Some (str_read s, rest).
Proof. exact str_roundtrip. Qed.
Print Assumptions C13_str_roundtrip.

(* any byte list, including NUL and 0x1f bytes anywhere: what comes back is the C string df_cstr (the bytes
   before the first NUL - strlen), and exactly the encoding is consumed *)
Theorem C13_str_roundtrip_any : forall s rest, df_str_fits (df_cstr (str_read s)) ->
  df_rd_str (df_enc_str s ++ rest) = DfOk (df_cstr (str_read s), rest) /\
  df_dec_str (df_enc_str s ++ rest) = Some (df_cstr (str_read s), rest).
Proof. exact (fun s rest H => conj (rd_str_enc s rest H) (str_roundtrip_any s rest H)). Qed.
Print Assumptions C13_str_roundtrip_any.

Theorem C13_str_too_big_rejected : forall s rest, ~ df_str_fits (df_cstr (str_read s)) ->
  df_dec_str (df_enc_str s ++ rest) = None /\ df_save_ok (SBytes (str_read s)) = false.
Proof. exact str_too_big_rejected. Qed.
Print Assumptions C13_str_too_big_rejected.

Theorem C13_str_nul_truncates : forall a b, df_nonul a -> df_enc_str (SBytes (a ++ 0 :: b)) = df_enc_str (SBytes a).
Proof. exact enc_str_truncates. Qed.
Print Assumptions C13_str_nul_truncates.

Example C13_str_examples :
  df_dec_str (df_enc_str (SBytes [65; 31; 31]) ++ [31; 7]) = Some ([65; 31; 31], [31; 7]) /\
  (df_enc_str SNull = [0; 31] /\ df_dec_str (df_enc_str SNull ++ [9]) = Some ([], [9])) /\
  df_enc_str (SBytes [65; 0; 66]) = [65; 0; 31] /\
  df_dec_str [65; 0; 66; 0; 31] = Some ([65], [66; 0; 31]) /\
  (df_nonul [206; 169; 31] /\ df_str_fits [206; 169; 31]).
Proof. exact (conj ex_str_1f (conj ex_str_null (conj ex_str_nul_inside (conj ex_str_no_sep ex_str_hyp)))). Qed.
Print Assumptions C13_str_examples.

(* ---- 2. definition payloads ---- *)
Theorem C13_source_def_roundtrip : forall d, df_src_fits d ->
  df_dec_source_def (so_id d) (df_enc_source_def d) = DfOk (df_src_read d).
Proof. exact source_def_roundtrip. Qed.
Print Assumptions C13_source_def_roundtrip.

Theorem C13_signal_def_roundtrip : forall d, df_sig_ranges d -> df_sig_fits d ->
  df_dec_signal_def (sg_id d) (df_enc_signal_def d) = DfOk (df_sig_read d).
Proof. exact signal_def_roundtrip. Qed.
Print Assumptions C13_signal_def_roundtrip.

(* absent strings read back as empty; strings without NUL read back unchanged *)
Theorem C13_str_out_is : forall s,
  df_str_out SNull = SBytes [] /\ (df_nonul (str_read s) -> df_str_out s = SBytes (str_read s)).
Proof. exact (fun s => conj eq_refl (fun H => f_equal SBytes (cstr_nonul (str_read s) H))). Qed.
Print Assumptions C13_str_out_is.

Example C13_def_examples :
  (df_src_fits df_ex_src /\
   df_enc_source_def df_ex_src = repeat 0 64 ++ [206; 169; 0; 31; 0; 31; 0; 31; 49; 31; 0; 31; 45; 0; 31] /\
   df_dec_source_def 7 (df_enc_source_def df_ex_src) = DfOk (df_src_read df_ex_src)) /\
  (df_sig_ranges (sp_align df_ex_sig) /\ df_sig_fits (sp_align df_ex_sig) /\
   (sg_spd (sp_align df_ex_sig), sg_sdf (sp_align df_ex_sig), sg_eps (sp_align df_ex_sig)) = (1024, 128, 640) /\
   df_dec_signal_def 5 (df_enc_signal_def (sp_align df_ex_sig)) = DfOk (df_sig_read (sp_align df_ex_sig))).
Proof. exact (conj ex_source_def ex_signal_def). Qed.
Print Assumptions C13_def_examples.

(* ---- 3. tables: the model refines Spec.wstep, and the reader returns what Spec.v demands ---- *)
Theorem C13_refines_spec : forall p, df_prog_ok p ->
  let w := fst (df_run_prog p) in
  let c := spec_of p in
  map df_accepted (snd (df_run_prog p)) = snd (run_spec content0 p) /\
  (forall id, df_is_defd (dfw_src w id) = match find_src c id with Some _ => true | None => false end) /\
  (forall id, match dfw_sig w id with
              | DfDefd d => option_map ss_def (find_sig c id) = Some d
              | _ => find_sig c id = None
              end) /\
  df_log_src (dfw_log w) = map (fun d => (so_id d, df_enc_source_def d)) (c_sources c) /\
  df_log_sig (dfw_log w) = map (fun s => (sg_id (ss_def s), df_enc_signal_def (ss_def s))) (c_signals c) /\
  (exists r, df_log_ud (dfw_log w) = (0, []) :: r /\ df_ud_walk r = (c_udata c, 0)).
Proof. exact refines_spec. Qed.
Print Assumptions C13_refines_spec.

Theorem C13_defs_roundtrip : forall p, df_prog_ok p ->
  exists r, df_scan (dfw_log (fst (df_run_prog p))) = DfOk r /\
    df_rd_sources r = map df_src_read (rd_sources (spec_of p)) /\
    df_rd_signals r = map df_sig_read (map ss_def (rd_signals (spec_of p))) /\
    (forall id, df_rd_signal r id =
                match find_sig (spec_of p) id with
                | Some s => DfOk (df_sig_read (ss_def s))
                | None => DfErr (if JLS_SIGNAL_COUNT <=? id then JLS_ERROR_PARAMETER_INVALID else JLS_ERROR_NOT_FOUND)
                end) /\
    (exists rs, rd_sources (spec_of p) = source0 :: rs) /\
    (exists rg, map ss_def (rd_signals (spec_of p)) = signal0 :: rg) /\
    map df_accepted (snd (df_run_prog p)) = snd (run_spec content0 p).
Proof. exact defs_roundtrip. Qed.
Print Assumptions C13_defs_roundtrip.

Theorem C13_unfit_source_rejected : forall w d, so_id d < JLS_SOURCE_COUNT -> df_is_defd (dfw_src w (so_id d)) = false ->
  ~ df_src_fits d ->
  snd (df_step w (DfSrc d)) = DfRc JLS_ERROR_TOO_BIG /\
  dfw_log (fst (df_step w (DfSrc d))) = dfw_log w /\
  df_is_defd (dfw_src (fst (df_step w (DfSrc d))) (so_id d)) = false.
Proof. exact unfit_source_rejected. Qed.
Print Assumptions C13_unfit_source_rejected.

Theorem C13_oversize_signal_rejected : forall w d, df_align_ok d = false ->
  exists rc, rc <> 0 /\ snd (df_step w (DfSig d)) = DfRc rc /\ dfw_log (fst (df_step w (DfSig d))) = dfw_log w /\
             (df_is_defd (dfw_sig w (sg_id d)) = false -> df_is_defd (dfw_sig (fst (df_step w (DfSig d))) (sg_id d)) = false).
Proof. exact oversize_signal_rejected. Qed.
Print Assumptions C13_oversize_signal_rejected.

(* ---- 4. identity rules: error code AND unchanged state (tables, log, data trace) ---- *)
Theorem C13_dup_source_rejected : forall w d ops d',
  snd (df_step w (DfSrc d)) = DfRc 0 -> so_id d' = so_id d ->
  let w2 := fst (df_run (fst (df_step w (DfSrc d))) ops) in
  df_step w2 (DfSrc d') = (w2, DfRc JLS_ERROR_ALREADY_EXISTS).
Proof. exact dup_source_rejected. Qed.
Print Assumptions C13_dup_source_rejected.

Theorem C13_dup_signal_rejected : forall w d ops d',
  snd (df_step w (DfSig d)) = DfRc 0 -> sg_id d' = sg_id d ->
  let w2 := fst (df_run (fst (df_step w (DfSig d))) ops) in
  exists rc, rc <> 0 /\ df_step w2 (DfSig d') = (w2, DfRc rc) /\
             (sg_src d' < JLS_SOURCE_COUNT -> df_is_defd (dfw_src w2 (sg_src d')) = true -> rc = JLS_ERROR_ALREADY_EXISTS).
Proof. exact dup_signal_rejected. Qed.
Print Assumptions C13_dup_signal_rejected.

Theorem C13_signal_without_source_rejected : forall w d, df_is_defd (dfw_src w (sg_src d)) = false ->
  exists rc, rc <> 0 /\ df_step w (DfSig d) = (w, DfRc rc).
Proof. exact signal_without_source_rejected. Qed.
Print Assumptions C13_signal_without_source_rejected.

Theorem C13_undefined_signal_data_rejected : forall w sig o, df_is_defd (dfw_sig w sig) = false ->
  (o = DfFsr sig \/ o = DfOmit sig \/ o = DfUtc sig \/ exists atype stype, o = DfAnno sig atype stype) ->
  exists rc, rc <> 0 /\ df_step w o = (w, DfRc rc).
Proof. exact undefined_signal_data_rejected. Qed.
Print Assumptions C13_undefined_signal_data_rejected.

(* no modelled writer call crashes, whatever the arguments and the state (the model has explicit fault results) *)
Theorem C13_step_never_faults : forall w o, snd (df_step w o) <> DfFault.
Proof. exact step_never_faults. Qed.
Print Assumptions C13_step_never_faults.

(* ---- 5. user data ---- *)
Theorem C13_user_data_roundtrip : forall p, df_prog_ok p ->
  exists r, df_scan (dfw_log (fst (df_run_prog p))) = DfOk r /\
            df_rd_user_data r = (c_udata (spec_of p), 0).
Proof. exact user_data_roundtrip. Qed.
Print Assumptions C13_user_data_roundtrip.

(* what Spec.v stores per accepted call: tag land 0xfff, storage type, the bytes (for STRING/JSON the C
   string with its terminator: size strlen + 1), appended in call order; storage type INVALID: accepted,
   no item *)
Theorem C13_user_data_item : forall c u, stype_ok_ud (ud_stype u) = true ->
  c_udata (fst (wstep c (WUd u))) =
  if ud_stype u =? 0 then c_udata c
  else c_udata c ++ [{| ud_meta := N.land (ud_meta u) 4095; ud_stype := ud_stype u; ud_data := ud_data u |}].
Proof. exact user_data_item. Qed.
Print Assumptions C13_user_data_item.

(* the former refutation witness: a placeholder between two items is a chunk in the file and both items
   come back *)
Example C13_ud_placeholder_example :
  df_prog_ok df_ud_placeholder_prog /\
  map df_accepted (snd (df_run_prog df_ud_placeholder_prog)) = [true; true; true] /\
  df_log_ud (dfw_log (fst (df_run_prog df_ud_placeholder_prog))) = [(0, []); (4097, [7]); (1, []); (4098, [5])] /\
  match df_scan (dfw_log (fst (df_run_prog df_ud_placeholder_prog))) with
  | DfOk r => df_rd_user_data r = ([{| ud_meta := 1; ud_stype := 1; ud_data := [7] |};
                                    {| ud_meta := 2; ud_stype := 1; ud_data := [5] |}], 0)
  | _ => False
  end.
Proof. exact ex_ud_placeholder. Qed.
Print Assumptions C13_ud_placeholder_example.

(* outside the property (payloads not made by the writer): a string whose NUL is the last payload byte -
   nothing after the payload is looked at *)
Theorem C13_foreign_payload_no_overrun :
  df_dec_source_def 0 (repeat 0 64 ++ [65; 0]) = DfErr JLS_ERROR_EMPTY /\
  df_rd_str [65; 0] = DfOk ([65], []).
Proof. exact foreign_payload_no_overrun. Qed.
Print Assumptions C13_foreign_payload_no_overrun.

(* the hypotheses are satisfiable by a non-trivial program, and the conclusions computed on it *)
Example C13_program_example :
  df_prog_ok df_ex_prog /\
  snd (df_run_prog df_ex_prog) =
    [DfRc 0; DfRc JLS_ERROR_NOT_FOUND; DfRc 0; DfRc JLS_ERROR_NOT_FOUND; DfRc 0; DfRc 0; DfRc 0;
     DfRc JLS_ERROR_ALREADY_EXISTS; DfRc JLS_ERROR_ALREADY_EXISTS; DfRc 0; DfRc 0] /\
  match df_scan (dfw_log (fst (df_run_prog df_ex_prog))) with
  | DfOk r => map so_id (df_rd_sources r) = [0; 3; 7] /\ map sg_id (df_rd_signals r) = [0; 2; 5] /\
              df_rd_user_data r = ([{| ud_meta := 4095; ud_stype := 2; ud_data := [104; 105; 0] |};
                                    {| ud_meta := 5; ud_stype := 1; ud_data := [] |}], 0) /\
              df_rd_signal r 9 = DfErr JLS_ERROR_NOT_FOUND
  | _ => False
  end.
Proof. exact ex_prog. Qed.
Print Assumptions C13_program_example.
