(* END-TO-END THEOREMS at BYTE level: the byte-level READER model (RepairRaw / ReaderModel: jls_raw_chunk_seek,
   jls_core_rd_chunk, jls_rd_open, jls_core_fsr_length, jls_core_fsr = jls_rd_fsr) run on the FILE that the byte-exact
   WRITER model (WmRaw .. WriterModel: wm_run_full) produces, i.e. on wo_file_after of its complete backend log
   (E2eModel.e2_file), returns what the abstract specification says (Spec.rd_length / Spec.rd_window).
   Proofs in E2eLog / E2eNoTrunc / E2eRead / E2eModel (layers 1, 2), E2eFsr / E2eFsr2 / E2eDisk / E2eProg / E2eTop /
   E2eOpen / E2eCodec / E2eMain (layers 4, 3), E2eExample.  No new model; new definitions are the predicates of the statements,
   restated in the three vocabulary theorems below.

   LAYER 1 (chunks), ANY program: the bytes at every chunk of the chunk view of the complete log (RefineLog.rf_chunks)
     decode to a header with a valid CRC, the payload follows, its CRC is valid (e2_chunk_at), the chunks tile the file
     from offset 32 (e2_layout); hence jls_raw_chunk_seek + jls_core_rd_chunk succeed on each and return (header, payload).
   LAYER 2 (file header, END, head tables), ANY program: the first 32 bytes are the file header with the final length, the
     last chunk is the END chunk, the payload of every TRACK HEAD chunk is the head_offsets table the writer model holds
     at close.
   LAYER 4 (FSR read path): ReaderModel's seek / level-1 cache / data0 / fsr_length / fsr simulate PyramidModel's abstract
     reader whenever "the abstract disk is in the file" (e2_env); the disk PyramidModel's writer leaves at close IS in the
     writer model's file (E2eDisk, from the refinement rf_chunk_rel + layer 1); for the program class of
     Properties_compose (one data-carrying FSR signal sid, anything else interleaved) with every block stored (sample
     width above 8 bits, no jls_wr_fsr_omit_data(enable)): from every reader state satisfying the invariant e2_P,
     jls_fsr_length returns Spec.rd_length and jls_rd_fsr returns Spec.rd_window for EVERY window inside the length, for
     any earlier reads (e2_P is preserved); return code 0, no model fault, no stale flag.
   LAYER 3 (definitions): PROVED only: (a) the state jls_rd_open hands out satisfies e2_P as soon as its tables for the
     signal are the writer's (e2_R0); (b) the byte codecs: what the reader decodes from a TRACK HEAD payload, the fixed
     fields of a SIGNAL_DEF payload and the first 8 bytes of a DATA payload is what the writer model encoded.  NOT proved: that the scans of jls_rd_open recover those tables for every program of the
     class (this needs the item_next chains of the writer model's file, which no theorem of the development provides:
     Properties_C03_shape lists the same gap).  For the example program the tables are checked by computation, which
     closes the chain with no hypothesis (e2e_example_end_to_end).

   GUARDS of the program-level theorem (why _partial), all decidable on a run:
     wmw_bounded            the writer model stayed inside uint32 / uint64 (Properties_C14_writer);
     e2t_adjb cs = true     G_adj: in the list cs of the signal's FSR chunks, the chunk after an INDEX chunk (its SUMMARY) starts
                            where the INDEX chunk ends (the C writes them by consecutive backend writes; the refinement
                            theorems export only the filtered chunk list, so file adjacency is not derivable from them);
     e2t_bigb cs = true     G_big: every payload with pad and CRC fits the 1 MiB core->buf (ReaderModel has no realloc);
     rf_len f < 2^63, samples_per_data < 2^32, first sample id >= -2^61, first id + length + samples_per_data <= 2^61
                            (no int64 expression of the reader overflows), step sizes of the existing levels < 2^63;
     8 < w, cmp_no_omit, rd_length <> 0   every block stored, the signal not empty (omitted blocks are reconstructed from
                            summaries, whose values come from the summary oracles - for f32 / f64 through floating
                            point - and are not covered; the LENGTH theorem e2e_C01_fsr_length_partial does cover them).
   No disagreement between the writer model and the reader model was found (no byte the two disagree about). *)
From Coq Require Import NArith ZArith List Bool.
From JLS Require Import Generated CrcDefs Spec Format WriteOnce WriteOnceProofs WmRaw WmCore WmTs WmFsr WriterModel WmProofs WmWriteOnce WmWriteOnce2 WmWriteOnce3 WmWriteOnce4
  BitCopyModel FsrPackModel PyramidModel PyramidProofs RefineLog RefineFsr RefinePyr RefinePyr2 RefineBits2 RefineProg
  RepairRaw RepairModel ReaderModel ComposeFsr ComposeExamples
  E2eLog E2eNoTrunc E2eRead E2eModel E2eFsr E2eFsr2 E2eProg E2eDisk E2eTop E2eOpen E2eMain E2eExample E2eCodec.
Import ListNotations.
Local Open Scope N_scope.

(* ================================================================ vocabulary *)
Theorem e2e_vocabulary :
  (forall f o pl, e2_crc_ok f o pl <->
     (pl = 0 \/ (o + 32 + fm_disk_len pl <= rf_len f /\
                 fm_dec (fm_sub (o + 32 + fm_disk_len pl - 4) 4 f) = crc32c (fm_sub (o + 32) pl f)))) /\
  (forall f o h p, e2_chunk_at f o h p <->
     (fm_decode_chunk_header (skipn (N.to_nat o) f) = Some h /\ rf_len p = fm_payload_length h /\
      fm_sub (o + 32) (rf_len p) f = p /\ e2_crc_ok f o (rf_len p) /\ 32 <= o /\ o + fm_chunk_size (rf_len p) <= rf_len f)) /\
  (forall s f, e2_rdr s f <-> (rp_file s = f /\ rp_flen s = rp_len f /\ rp_fend (rp_r s) = rp_len f)) /\
  (forall s f o, e2_pos s f o <->
     (rp_file s = f /\ rp_flen s = rp_len f /\ rp_fend (rp_r s) = rp_len f /\ rp_r_valid (rp_r s) = false /\
      rp_offset (rp_r s) = o /\ rp_fpos (rp_r s) = o)) /\
  (forall f c, e2_chunk_ok f c <->
     exists h p, e2_chunk_at f (rc_off c) h p /\ fm_tag h = rc_tag c /\ fm_chunk_meta h = rc_meta c /\
                 rf_len p = rf_len (rc_pay c) /\ (fm_is_head_tag (rc_tag c) = false -> p = rc_pay c)) /\
  (forall a, e2_layout [] a a) /\
  (forall c r a z, e2_layout (c :: r) a z <-> (rc_off c = a /\ e2_layout r (a + fm_chunk_size (rf_len (rc_pay c))) z)) /\
  (forall f cs, e2_wf_file f cs <->
     (fm_sub 0 32 f = wm_file_header_bytes (rf_len f) /\ 64 <= rf_len f /\ rf_len f < fm_two64 /\
      e2_layout cs 32 (rf_len f) /\ Forall (e2_chunk_ok f) cs /\
      exists cs0, cs = cs0 ++ [{| rc_off := rf_len f - 32; rc_tag := JLS_TAG_END; rc_meta := 0; rc_pay := [] |}])) /\
  e2_tsb = (2 ^ 61)%Z /\
  (forall summ1 summN p, e2_file summ1 summN p = wo_file_after (wmw_evs (wm_st_log (fst (wm_run_full summ1 summN p))))) /\
  (forall summ1 summN p, e2_pre_end summ1 summN p =
     fold_left (wm_close_signal summ1 summN) wm_signal_ids (fst (wm_steps summ1 summN wm_api_open p []))).
Proof. exact e2m_vocabulary. Qed.
Print Assumptions e2e_vocabulary.

Theorem e2e_vocabulary_reader :
  (forall d psi pc p, e2_pc_pay d psi pc p <->
     match pc_kind pc with
     | PyData => exists data, p = wm_fsr_data_payload (pc_ts pc) (Z.to_N (pc_count pc)) (dt_bits (sg_dtype d)) data
     | PyIndex L => p = wm_fsr_index_payload (pc_ts pc) (Z.to_N (pc_count pc)) (map psi (pc_entries pc)) /\
                    Z.of_nat (length (pc_entries pc)) = pc_count pc
     | PySummary L => exists entries, p = wm_fsr_summary_payload (sg_dtype d) (pc_ts pc) (Z.to_N (pc_count pc)) entries
     end) /\
  (forall f d psi pc, e2_pc_ok f d psi pc <->
     ((0 < pc_off pc)%Z /\ 32 <= psi (pc_off pc) /\ psi (pc_off pc) < rp_two63 /\
      match pc_kind pc with PySummary _ => True | _ => (- e2_tsb <= pc_ts pc < e2_tsb)%Z end /\
      (0 <= pc_count pc < 4294967296)%Z /\ e2_pc_level (pc_kind pc) < 16 /\
      exists h p, e2_chunk_at f (psi (pc_off pc)) h p /\ fm_tag h = e2_pc_tag (pc_kind pc) /\
                  fm_chunk_meta h = wm_meta (sg_id d) (e2_pc_level (pc_kind pc)) /\
                  fm_disk_len (rf_len p) <= JLS_BUF_DEFAULT_SIZE /\ e2_pc_pay d psi pc p)) /\
  (forall k, e2_pc_tag k = match k with PyData => JLS_TAG_TRACK_FSR_DATA | PyIndex _ => JLS_TAG_TRACK_FSR_INDEX | PySummary _ => JLS_TAG_TRACK_FSR_SUMMARY end) /\
  (forall k, e2_pc_level k = match k with PyData => 0 | PyIndex L => N.of_nat L | PySummary L => N.of_nat L end) /\
  (forall disk p, e2_valid_pos disk p <-> (p = 0%Z \/ exists c, In c disk /\ pc_off c = p)) /\
  (forall d cc, e2_cache_valid d cc <-> (cc_meta cc = (4096 + Z.of_N (sg_id d))%Z /\ cc_off cc <> 0%Z)) /\
  (forall d disk heads cc, e2_reach d disk heads cc <->
     exists cache0 starts, (cc_meta cache0 <> (4096 + Z.of_N (sg_id d))%Z \/ cc_off cache0 = 0%Z) /\
                           cc = py_reads (rf_pd d) disk heads (Z.of_N (sg_id d)) cache0 starts) /\
  (forall d st len, e2_len_ok d st len <->
     (length (rdm_len st) = 256%nat /\ (rdm_get_len st (sg_id d) = (-1)%Z \/ rdm_get_len st (sg_id d) = len))) /\
  (forall f d disk heads psi T0 total st, e2_P f d disk heads psi T0 total st <->
     exists cc, e2_R0 f d heads psi T0 st /\ e2_CR d disk psi st cc /\ e2_reach d disk heads cc /\ e2_len_ok d st total) /\
  (forall f d heads psi T0 st, e2_R0 f d heads psi T0 st <->
     (e2_rdr (rdm_io st) f /\ rp_signal_validate (rdm_c st) (sg_id d) = 0 /\
      sg_type (rdm_def st (sg_id d)) = JLS_SIGNAL_TYPE_FSR /\ sg_spd (rdm_def st (sg_id d)) = sg_spd d /\
      sg_sdf (rdm_def st (sg_id d)) = sg_sdf d /\ sg_eps (rdm_def st (sg_id d)) = sg_eps d /\
      sg_sumdf (rdm_def st (sg_id d)) = sg_sumdf d /\ sg_dtype (rdm_def st (sg_id d)) = sg_dtype d /\
      rdm_sid0 st (sg_id d) = T0 /\ (0 < length (rp_sg_tk (rdm_sig st (sg_id d))))%nat /\
      forall L, (L < 16)%nat -> wm_get_off (rdm_offsets st (sg_id d) JLS_TRACK_TYPE_FSR) (N.of_nat L) = psi (nth L heads 0%Z))) /\
  (forall d disk psi st cc, e2_CR d disk psi st cc <->
     (Z.of_N (fm_chunk_meta (wm_ck_hdr (rdm_ick st))) = cc_meta cc /\ wm_ck_offset (rdm_ick st) = psi (cc_off cc) /\
      e2_valid_pos disk (cc_off cc) /\
      (e2_cache_valid d cc ->
       (exists L, pc_kind (cc_index cc) = PyIndex L) /\
       py_find disk (cc_off cc) = Some (cc_index cc, Some (cc_summary cc)) /\
       exists pI pS, e2_pc_pay d psi (cc_index cc) pI /\ rdm_ilen st = rf_len pI /\ rp_take (rdm_ilen st) (rdm_ibuf st) = pI /\
                     rf_len pI <= JLS_BUF_DEFAULT_SIZE /\
                     e2_pc_pay d psi (cc_summary cc) pS /\ rdm_slen st = rf_len pS /\ rp_take (rdm_slen st) (rdm_sbuf st) = pS /\
                     rf_len pS <= JLS_BUF_DEFAULT_SIZE))).
Proof. exact e2m_vocabulary_reader. Qed.
Print Assumptions e2e_vocabulary_reader.

Theorem e2e_vocabulary_env : forall f d disk heads psi T0 Ktop, e2_env f d disk heads psi T0 Ktop <->
  (sg_id d < 256 /\ 0 < dt_bits (sg_dtype d) < 65536 /\ py_div_ok (rf_pd d) = true /\ (1 <= py_sumdf (rf_pd d))%Z /\
   psi 0%Z = 0 /\ Forall (e2_pc_ok f d psi) disk /\ NoDup (map pc_off disk) /\
   (forall pc L e, In pc disk -> pc_kind pc = PyIndex L -> In e (pc_entries pc) -> e = 0%Z \/ exists c, In c disk /\ pc_off c = e) /\
   (forall L, nth L heads 0%Z = 0%Z \/ exists c, In c disk /\ pc_off c = nth L heads 0%Z) /\
   (forall pc nx L, py_find disk (pc_off pc) = Some (pc, Some nx) -> pc_kind pc = PyIndex L ->
      psi (pc_off nx) = psi (pc_off pc) + fm_chunk_size (SIZEOF_payload_header + 8 * Z.to_N (pc_count pc))) /\
   (forall L, (Ktop < L)%nat -> nth L heads 0%Z = 0%Z) /\
   (forall k, (1 <= k <= Ktop)%nat -> (0 < py_step (rf_pd d) k < rdm_two63)%Z) /\
   (- e2_tsb <= T0 < e2_tsb)%Z /\
   (forall L c, (1 <= L)%nat -> In c disk -> pc_off c = nth L heads 0%Z -> pc_kind c = PyIndex L) /\
   (forall pc L e c, In pc disk -> pc_kind pc = PyIndex (S (S L)) -> In e (pc_entries pc) -> In c disk -> pc_off c = e ->
      pc_kind c = PyIndex (S L)) /\
   (forall pc L, In pc disk -> pc_kind pc = PyIndex L -> (1 <= pc_count pc)%Z) /\
   py_sample_id_offset disk heads = T0 /\
   (forall pc nx L, py_find disk (pc_off pc) = Some (pc, Some nx) -> pc_kind pc = PyIndex L -> (- e2_tsb <= pc_ts nx < e2_tsb)%Z) /\
   (forall pc e c, In pc disk -> pc_kind pc = PyIndex 1 -> In e (pc_entries pc) -> In c disk -> pc_off c = e -> pc_kind c = PyData) /\
   (forall c, In c disk -> pc_off c = nth 0 heads 0%Z -> pc_kind c = PyData)).
Proof. exact e2m_vocabulary_env. Qed.
Print Assumptions e2e_vocabulary_env.

(* the boolean forms of G_adj and G_big *)
Theorem e2e_guard_adj_decidable : forall cs, e2t_adjb cs = true ->
  forall i c c', nth_error cs i = Some c -> rc_tag c = JLS_TAG_TRACK_FSR_INDEX -> nth_error cs (S i) = Some c' ->
    rc_off c' = rc_off c + fm_chunk_size (rf_len (rc_pay c)).
Proof. exact e2t_adjb_sound. Qed.
Print Assumptions e2e_guard_adj_decidable.

Theorem e2e_guard_big_decidable : forall cs, e2t_bigb cs = true -> Forall (fun c => fm_disk_len (rf_len (rc_pay c)) <= JLS_BUF_DEFAULT_SIZE) cs.
Proof. exact e2t_bigb_sound. Qed.
Print Assumptions e2e_guard_big_decidable.

(* ================================================================ LAYER 1 *)
(* reader side: a complete chunk at offset o is read by jls_core_rd_chunk (guard: fits the 1 MiB buffer) *)
Theorem e2e_L1_reader_reads_complete_chunk : forall s f o h p, e2_pos s f o -> e2_chunk_at f o h p -> fm_tag h <> JLS_TAG_INVALID ->
  fm_disk_len (rf_len p) <= JLS_BUF_DEFAULT_SIZE ->
  exists s', rp_rd_chunk s = (s', 0) /\ e2_pos s' f (o + fm_chunk_size (rf_len p)) /\
             rp_cur s' = {| wm_ck_offset := o; wm_ck_hdr := h |} /\ rp_buf_len s' = rf_len p /\ rp_payload s' = p /\
             rp_buf s' = rp_buf_put (rp_buf s) (fm_sub (o + 32) (fm_disk_len (rf_len p)) f) /\ rp_flt s' = rp_flt s.
Proof. exact e2_rd_chunk. Qed.
Print Assumptions e2e_L1_reader_reads_complete_chunk.

(* writer side, ANY log the strict write-once checker accepts, in which O_TRUNC occurs at most as the first call: the invariant e2_J (every chunk of the chunk view stands complete in the file after the log) *)
Theorem e2e_L1_log_chunk_view : forall log s,
  wo_run false wo_st0 0 (wmw_evs log) = inl s -> e2_trunc_first log ->
  e2_J s (rf_scan log) (wo_file_after (wmw_evs log)).
Proof. exact e2_log_J. Qed.
Print Assumptions e2e_L1_log_chunk_view.

(* the writer model truncates only as its first backend call, for every program *)
Theorem e2e_L1_model_truncates_only_first : forall summ1 summN p,
  e2_trunc_first (wm_st_log (fst (wm_run_full summ1 summN p))).
Proof. exact e2_run_trunc_first. Qed.
Print Assumptions e2e_L1_model_truncates_only_first.

(* both sides, ANY program (guards: no model fault, bounded log; per chunk: fits the buffer, offset below 2^63) *)
Theorem e2e_L1_any_program_chunk_read_partial : forall (summ1 : N -> list N -> wm_sentry) (summN : bool -> list wm_sentry -> wm_sentry) (p : list wop),
  let stF := fst (wm_run_full summ1 summN p) in
  wm_st_fault stF = false -> wmw_bounded (wm_st_log stF) ->
  let f := e2_file summ1 summN p in
  forall c, In c (rf_chunks (wm_st_log stF)) -> rc_tag c <> JLS_TAG_INVALID -> rc_off c < rp_two63 ->
    fm_disk_len (rf_len (rc_pay c)) <= JLS_BUF_DEFAULT_SIZE ->
  forall s, e2_rdr s f ->
  exists s1 s2 h pl,
    rp_chunk_seek s (rc_off c) = (s1, 0) /\ rp_rd_chunk s1 = (s2, 0) /\
    rp_cur s2 = {| wm_ck_offset := rc_off c; wm_ck_hdr := h |} /\ fm_tag h = rc_tag c /\ fm_chunk_meta h = rc_meta c /\
    fm_payload_length h = rf_len (rc_pay c) /\
    rp_payload s2 = pl /\ rf_len pl = rf_len (rc_pay c) /\ (fm_is_head_tag (rc_tag c) = false -> pl = rc_pay c) /\
    e2_pos s2 f (rc_off c + fm_chunk_size (rf_len (rc_pay c))) /\ rp_flt s2 = rp_flt s.
Proof. exact e2m_chunk_read. Qed.
Print Assumptions e2e_L1_any_program_chunk_read_partial.

(* ================================================================ LAYERS 1 + 2 *)
(* ANY program: the file is well formed (file header with the final length, chunks tiling it from 32, each complete, END chunk last), the chunk view of the complete log is the view before close plus one chunk, and every TRACK HEAD chunk carries the head_offsets the writer model holds at close *)
Theorem e2e_L1_L2_model_file_partial : forall summ1 summN p,
  let stF := fst (wm_run_full summ1 summN p) in
  wm_st_fault stF = false -> wmw_bounded (wm_st_log stF) ->
  let f := e2_file summ1 summN p in
  e2_wf_file f (rf_chunks (wm_st_log stF)) /\
  (exists cs0, rf_chunks (wm_st_log stF) = rf_chunks (wm_st_log (e2_pre_end summ1 summN p)) ++ cs0 /\ length cs0 = 1%nat) /\
  forall g ty, In g (wm_st_sigs (e2_pre_end summ1 summN p)) -> ty < 4 -> wmw_head_off (wmw_tk g ty) <> 0 ->
    exists h, e2_chunk_at f (wmw_head_off (wmw_tk g ty)) h (wm_head_payload (wm_tk_offsets (wmw_tk g ty))) /\
              fm_tag h = fm_track_tag ty JLS_TRACK_CHUNK_HEAD /\ fm_chunk_meta h = wm_sig_id g.
Proof. exact e2_model_file. Qed.
Print Assumptions e2e_L1_L2_model_file_partial.

(* ================================================================ LAYER 4, abstract: the byte-level reader simulates PyramidModel *)
Theorem e2e_L4_fsr_length_simulation : forall f d disk heads psi T0 Ktop st cc len,
  e2_env f d disk heads psi T0 Ktop ->
  e2_R0 f d heads psi T0 st -> e2_CR d disk psi st cc -> e2_len_ok d st len -> (0 <= len)%Z ->
  py_fsr_length (rf_pd d) disk heads = PyOk len ->
  exists st', rdm_fsr_length st (sg_id d) = (st', 0, len) /\ e2_R0 f d heads psi T0 st' /\ e2_CR d disk psi st' cc /\ e2_len_ok d st' len /\
              rdm_stale st' = rdm_stale st /\ rdm_flt st' = rdm_flt st.
Proof. exact e2_env_fsr_length. Qed.
Print Assumptions e2e_L4_fsr_length_simulation.

Theorem e2e_L4_fsr_window_simulation : forall f d disk heads psi T0 Ktop recon f32_of_f64 blocks stream total,
  e2_env f d disk heads psi T0 Ktop ->
  py_fsr_length (rf_pd d) disk heads = PyOk total -> total = Z.of_nat (length stream) -> (T0 + total < e2_tsb)%Z ->
  (forall cc t ts cnt payload, e2_reach d disk heads cc -> fp_find_block blocks t = Some (ts, cnt, payload) ->
     (forall off, py_fsr_seek (rf_pd d) disk heads 1 t = PyOk off -> exists c, In c disk /\ pc_off c = off /\ pc_kind c = PyIndex 1) /\
     exists cd, fst (py_rd_data0 (rf_pd d) disk heads (Z.of_N (sg_id d)) cc t) = PyOk (PyStored cd) /\ pc_kind cd = PyData /\
                pc_ts cd = ts /\ Z.to_N (pc_count cd) = cnt /\
                forall h data, e2_chunk_at f (psi (pc_off cd)) h (wm_fsr_data_payload ts cnt (dt_bits (sg_dtype d)) data) -> data = payload) ->
  (forall ts cnt p, In (ts, cnt, p) blocks ->
     (- e2_tsb <= ts)%Z /\ (ts + Z.of_N cnt < e2_tsb)%Z /\ cnt < rdm_two32 /\ N.of_nat (length p) = (cnt * dt_bits (sg_dtype d) + 7) / 8) ->
  (forall k ts cnt p, nth_error blocks k = Some (ts, cnt, p) ->
     ts = (T0 + Z.of_nat k * Z.of_N (sg_spd d))%Z /\ 0 < cnt <= sg_spd d /\ ((S k < length blocks)%nat -> cnt = sg_spd d) /\
     N.of_nat (length p) = (cnt * dt_bits (sg_dtype d) + 7) / 8 /\ Forall (fun b => b < 256) p) ->
  flat_map (fun b => let '(_, cnt, p) := b in firstn (N.to_nat (cnt * dt_bits (sg_dtype d))) (bc_bits p)) blocks
    = flat_map (bits_of (N.to_nat (dt_bits (sg_dtype d)))) stream ->
  forall st start len dst, e2_P f d disk heads psi T0 total st ->
  (0 <= start)%Z -> (0 < len)%Z -> (start + len <= total)%Z -> Z.to_N len * dt_bits (sg_dtype d) <= 8 * N.of_nat (length dst) ->
  exists st' pcs out,
    rdm_fsr recon f32_of_f64 st (sg_id d) start len dst = (st', 0, out, pcs) /\ e2_P f d disk heads psi T0 total st' /\
    rdm_stale st' = rdm_stale st /\ rdm_flt st' = rdm_flt st /\ length out = length dst /\
    firstn (N.to_nat (Z.to_N len * dt_bits (sg_dtype d))) (bc_bits out) =
      flat_map (bits_of (N.to_nat (dt_bits (sg_dtype d)))) (firstn (Z.to_nat len) (skipn (Z.to_nat start) stream)) /\
    skipn (N.to_nat (Z.to_N len * dt_bits (sg_dtype d))) (bc_bits out) = skipn (N.to_nat (Z.to_N len * dt_bits (sg_dtype d))) (bc_bits dst) /\
    (dst = repeat 0 (N.to_nat ((Z.to_N len * dt_bits (sg_dtype d) + 7) / 8)) ->
     out = pack (dt_bits (sg_dtype d)) (firstn (Z.to_nat len) (skipn (Z.to_nat start) stream))).
Proof. exact e2_env_fsr. Qed.
Print Assumptions e2e_L4_fsr_window_simulation.

(* the disk PyramidModel's writer leaves at close (FinInv) is in the file, given the refinement relation to the chunks cs of the log, that every chunk of cs stands complete in the file, and the guards G_adj, G_big, sizes *)
Theorem e2e_L4_disk_in_file : forall (f : list N) (d : sigdef) (pos0 t0 : Z) (cs : list rf_chunk) (blks : list (list N)) (st : py_wr)
    (pb : list (Z * bool)) (T : nat),
  py_consistent (rf_pd d) -> PyramidProofs.FinInv (rf_pd d) t0 st pb T ->
  Forall2 (rf_chunk_rel d pos0 t0 (map rc_off cs) blks) cs (pw_disk st) ->
  Forall (fun c => exists h, e2_chunk_at f (rc_off c) h (rc_pay c) /\ fm_tag h = rc_tag c /\ fm_chunk_meta h = rc_meta c) cs ->
  Forall (fun c => fm_disk_len (rf_len (rc_pay c)) <= JLS_BUF_DEFAULT_SIZE) cs ->
  rf_len f < rp_two63 ->
  (forall i c c', nth_error cs i = Some c -> rc_tag c = JLS_TAG_TRACK_FSR_INDEX -> nth_error cs (S i) = Some c' ->
     rc_off c' = rc_off c + fm_chunk_size (rf_len (rc_pay c))) ->
  sg_id d < 256 -> 0 < dt_bits (sg_dtype d) -> sg_spd d < 4294967296 ->
  (- e2_tsb <= t0)%Z /\ (t0 + Z.of_nat (length pb) * py_spd (rf_pd d) <= e2_tsb)%Z ->
  (forall k, (1 <= k <= T)%nat -> (py_step (rf_pd d) k < rdm_two63)%Z) ->
  e2_env f d (pw_disk st) (pw_heads st) (rf_psi (map rc_off cs) pos0) t0 T.
Proof. exact e2m_disk_in_file. Qed.
Print Assumptions e2e_L4_disk_in_file.

(* ================================================================ LAYER 4, program level *)
(* the head offsets of the FSR track at close (the part Properties_compose reported missing for whole programs) *)
Theorem e2e_prog_head_offsets_partial : forall summ1 summN d0 d pos0 p1 p2 stf,
  (0 < pos0)%Z -> sg_id d < 256 -> sg_id d <> 0 -> sg_type d = JLS_SIGNAL_TYPE_FSR -> 0 < sg_spd d ->
  (dt_bits (sg_dtype d) < 8 \/ dt_bits (sg_dtype d) mod 8 = 0) ->
  0 < wm_fill_buf_samples (sg_dtype d) ->
  32 * sg_eps d + 16 < 4294967296 -> 8 * sg_sumdf d + 16 < 4294967296 ->
  16 + (sg_spd d * dt_bits (sg_dtype d) + 7) / 8 < 4294967296 ->
  let sid := sg_id d in
  let p := p1 ++ WSig d0 :: p2 in
  Forall (rp_ok sid) p ->
  Forall (fun o => match o with WSig d' => sg_id d' <> sid | _ => True end) p1 ->
  snd (wm_api_signal_def (fst (wm_steps summ1 summN wm_api_open p1 [])) d0) = 0 -> wm_sig_align d0 = Some d ->
  let ops := rp_proj sid p2 in
  py_srun (rf_pd d) (dt_bits (sg_dtype d) <=? 8) (rf_t0 ops) pos0 (rf_script d rf_bs0 ops) = PyOk stf ->
  let st1 := e2_pre_end summ1 summN p in
  exists cs s3, filter (rf_mine d) (rf_chunks (wm_st_log st1)) = cs /\
    Forall2 (rf_chunk_rel d pos0 (rf_t0 ops) (map rc_off cs) (rf_blocks d rf_bs0 ops)) cs (pw_disk stf) /\
    In s3 (wm_st_sigs st1) /\ wm_sig_id s3 = sid /\ wm_ck_offset (wm_tk_head (wm_sg_tk_fsr s3)) <> 0 /\
    (forall L, (L < 16)%nat ->
       wm_get_off (wm_tk_offsets (wm_sg_tk_fsr s3)) (N.of_nat L) = rf_psi (map rc_off cs) pos0 (py_head_get stf L)).
Proof. exact e2_prog_fsr_heads. Qed.
Print Assumptions e2e_prog_head_offsets_partial.

(* THE END-TO-END THEOREM (layers 1, 2, 4 + the proved part of layer 3) *)
Theorem e2e_C01_fsr_read_partial : forall (summ1 : N -> list N -> wm_sentry) (summN : bool -> list wm_sentry -> wm_sentry)
    (d0 d : sigdef) (pos0 : Z) (p1 p2 : list wop) (stf : py_wr),
  (0 < pos0)%Z -> sg_id d <> 0 -> sg_type d = JLS_SIGNAL_TYPE_FSR -> sg_eps d * sg_sdf d < 4294967296 ->
  let sid := sg_id d in
  let w := dt_bits (sg_dtype d) in
  let pd := rf_pd d in
  let p := p1 ++ WSig d0 :: p2 in
  Forall (rp_ok sid) p ->
  Forall (fun o => match o with WSig d' => sg_id d' <> sid | _ => True end) p1 ->
  snd (wm_api_signal_def (fst (wm_steps summ1 summN wm_api_open p1 [])) d0) = 0 -> wm_sig_align d0 = Some d ->
  let ops := rp_proj sid p2 in
  py_srun pd (w <=? 8) (rf_t0 ops) pos0 (rf_script d rf_bs0 ops) = PyOk stf ->
  wm_fill_sample (sg_dtype d) = fill_value (sg_dtype d) ->
  8 < w -> cmp_no_omit ops ->
  let g := fold_left (fun g c => fsr_write g (fst c) (snd c)) (rf_calls ops) (new_sig d) in
  rd_length g <> 0 ->
  let stF := fst (wm_run_full summ1 summN p) in
  wmw_bounded (wm_st_log stF) ->
  let f := e2_file summ1 summN p in
  let cs := filter (rf_mine d) (rf_chunks (wm_st_log stF)) in
  e2t_adjb cs = true -> e2t_bigb cs = true ->
  rf_len f < rp_two63 -> sg_spd d < 4294967296 ->
  (- e2_tsb <= rf_t0 ops)%Z /\ (rf_t0 ops + Z.of_N (rd_length g) + Z.of_N (sg_spd d) <= e2_tsb)%Z ->
  (forall k, (1 <= k)%nat -> nth k (pw_heads stf) 0%Z <> 0%Z -> (py_step pd k < rdm_two63)%Z) ->
  let psi := rf_psi (map rc_off cs) pos0 in
  let P := e2_P f d (pw_disk stf) (pw_heads stf) psi (rf_t0 ops) (Z.of_N (rd_length g)) in
  wm_st_fault stF = false /\
  (forall st, rdm_open f = RdmOpened st -> e2_R0 f d (pw_heads stf) psi (rf_t0 ops) st -> P st) /\
  forall st, P st ->
    (exists st', rdm_fsr_length st sid = (st', 0, Z.of_N (rd_length g)) /\ P st' /\
                 rdm_stale st' = rdm_stale st /\ rdm_flt st' = rdm_flt st) /\
    forall recon f32_of_f64 start len dst,
      (0 <= start)%Z -> (0 < len)%Z -> (start + len <= Z.of_N (rd_length g))%Z -> Z.to_N len * w <= 8 * N.of_nat (length dst) ->
      exists st' pcs out,
        rdm_fsr recon f32_of_f64 st sid start len dst = (st', 0, out, pcs) /\ P st' /\
        rdm_stale st' = rdm_stale st /\ rdm_flt st' = rdm_flt st /\ length out = length dst /\
        firstn (N.to_nat (Z.to_N len * w)) (bc_bits out) =
          flat_map (bits_of (N.to_nat w)) (firstn (Z.to_nat len) (skipn (Z.to_nat start) (ss_samples g))) /\
        skipn (N.to_nat (Z.to_N len * w)) (bc_bits out) = skipn (N.to_nat (Z.to_N len * w)) (bc_bits dst) /\
        (dst = repeat 0 (N.to_nat ((Z.to_N len * w + 7) / 8)) -> rd_window g (Z.to_N start) (Z.to_N len) = Some out).
Proof. exact e2m_fsr_read. Qed.
Print Assumptions e2e_C01_fsr_read_partial.

(* jls_fsr_length alone, under the exact condition of compose_C01_model_end_to_end_partial (w <= 8, or no omission requested, or the length a multiple of sample_decimate_factor): blocks may be omitted here *)
Theorem e2e_C01_fsr_length_partial : forall (summ1 : N -> list N -> wm_sentry) (summN : bool -> list wm_sentry -> wm_sentry)
    (d0 d : sigdef) (pos0 : Z) (p1 p2 : list wop) (stf : py_wr),
  (0 < pos0)%Z -> sg_id d <> 0 -> sg_type d = JLS_SIGNAL_TYPE_FSR -> sg_eps d * sg_sdf d < 4294967296 ->
  let sid := sg_id d in
  let w := dt_bits (sg_dtype d) in
  let pd := rf_pd d in
  let p := p1 ++ WSig d0 :: p2 in
  Forall (rp_ok sid) p ->
  Forall (fun o => match o with WSig d' => sg_id d' <> sid | _ => True end) p1 ->
  snd (wm_api_signal_def (fst (wm_steps summ1 summN wm_api_open p1 [])) d0) = 0 -> wm_sig_align d0 = Some d ->
  let ops := rp_proj sid p2 in
  py_srun pd (w <=? 8) (rf_t0 ops) pos0 (rf_script d rf_bs0 ops) = PyOk stf ->
  wm_fill_sample (sg_dtype d) = fill_value (sg_dtype d) ->
  let g := fold_left (fun g c => fsr_write g (fst c) (snd c)) (rf_calls ops) (new_sig d) in
  rd_length g <> 0 ->
  (w <= 8 \/ cmp_no_omit ops \/ rd_length g mod sg_sdf d = 0) ->
  let stF := fst (wm_run_full summ1 summN p) in
  wmw_bounded (wm_st_log stF) ->
  let f := e2_file summ1 summN p in
  let cs := filter (rf_mine d) (rf_chunks (wm_st_log stF)) in
  e2t_adjb cs = true -> e2t_bigb cs = true ->
  rf_len f < rp_two63 -> sg_spd d < 4294967296 ->
  (- e2_tsb <= rf_t0 ops)%Z /\ (rf_t0 ops + Z.of_N (rd_length g) + Z.of_N (sg_spd d) <= e2_tsb)%Z ->
  (forall k, (1 <= k)%nat -> nth k (pw_heads stf) 0%Z <> 0%Z -> (py_step pd k < rdm_two63)%Z) ->
  let psi := rf_psi (map rc_off cs) pos0 in
  let P := e2_P f d (pw_disk stf) (pw_heads stf) psi (rf_t0 ops) (Z.of_N (rd_length g)) in
  (forall st, rdm_open f = RdmOpened st -> e2_R0 f d (pw_heads stf) psi (rf_t0 ops) st -> P st) /\
  forall st, P st ->
    exists st', rdm_fsr_length st sid = (st', 0, Z.of_N (rd_length g)) /\ P st' /\
                rdm_stale st' = rdm_stale st /\ rdm_flt st' = rdm_flt st.
Proof. exact e2m_fsr_length. Qed.
Print Assumptions e2e_C01_fsr_length_partial.

(* ================================================================ LAYER 3 (the proved part) *)
Theorem e2e_L3_opened_state_partial : forall f d disk heads psi T0 total st,
  rdm_open f = RdmOpened st -> e2_R0 f d heads psi T0 st -> psi 0%Z = 0 -> sg_id d < 256 ->
  e2_P f d disk heads psi T0 total st.
Proof. exact e2o_opened_P. Qed.
Print Assumptions e2e_L3_opened_state_partial.

(* the byte codecs jls_rd_open relies on: the reader model decodes what the writer model encoded *)
Theorem e2e_L3_codec_head_table : forall offs, length offs = 16%nat -> Forall (fun x => x < fm_two64) offs ->
  rp_dec_u64s wm_level_count (wm_head_payload offs) = offs /\ rf_len (wm_head_payload offs) = SIZEOF_track_head.
Proof. exact e2c_head_table. Qed.
Print Assumptions e2e_L3_codec_head_table.

Theorem e2e_L3_codec_first_sample_id : forall ts n w data, e2_i64 ts -> n < 4294967296 -> w < 65536 ->
  fm_dec_i64 (rp_take 8 (wm_fsr_data_payload ts n w data)) = ts.
Proof. exact e2c_first_sample_id. Qed.
Print Assumptions e2e_L3_codec_first_sample_id.

Theorem e2e_L3_codec_signal_def_fields : forall d old,
  sg_src d < 65536 -> sg_type d < 256 -> sg_dtype d < 4294967296 -> sg_rate d < 4294967296 ->
  sg_spd d < 4294967296 -> sg_sdf d < 4294967296 -> sg_eps d < 4294967296 -> sg_sumdf d < 4294967296 ->
  sg_adf d < 4294967296 -> sg_udf d < 4294967296 ->
  let p := wm_signal_payload d in
  let len := rp_len p in
  fm_signal_fixed + fm_signal_reserved <= len /\
  rp_field p len 0 2 old = sg_src d /\ rp_field p len 2 1 old = sg_type d /\ rp_field p len 4 4 old = sg_dtype d /\
  rp_field p len 8 4 old = sg_rate d /\ rp_field p len 12 4 old = sg_spd d /\ rp_field p len 16 4 old = sg_sdf d /\
  rp_field p len 20 4 old = sg_eps d /\ rp_field p len 24 4 old = sg_sumdf d /\ rp_field p len 28 4 old = sg_adf d /\
  rp_field p len 32 4 old = sg_udf d.
Proof. exact e2c_signal_fields. Qed.
Print Assumptions e2e_L3_codec_signal_def_fields.

(* ================================================================ example: all hypotheses hold, the chain is closed by computation *)
Theorem e2e_example_hypotheses :
  (0 < 1)%Z /\ sg_id cx_d <> 0 /\ sg_type cx_d = JLS_SIGNAL_TYPE_FSR /\ sg_eps cx_d * sg_sdf cx_d < 4294967296 /\
  Forall (rp_ok (sg_id cx_d)) (cx_p1 ++ WSig cx_sig :: cx_p2) /\
  Forall (fun o => match o with WSig d' => sg_id d' <> sg_id cx_d | _ => True end) cx_p1 /\
  snd (wm_api_signal_def (fst (wm_steps wm_zero_summ1 wm_zero_summN wm_api_open cx_p1 [])) cx_sig) = 0 /\
  wm_sig_align cx_sig = Some cx_d /\
  wm_fill_sample (sg_dtype cx_d) = fill_value (sg_dtype cx_d) /\
  8 < dt_bits (sg_dtype cx_d) /\ cmp_no_omit ex_ops /\ rd_length ex_g <> 0 /\
  wmw_bounded ex_log /\
  e2t_adjb ex_cs = true /\ e2t_bigb ex_cs = true /\
  rf_len ex_f < rp_two63 /\ sg_spd cx_d < 4294967296 /\
  ((- e2_tsb <= rf_t0 ex_ops)%Z /\ (rf_t0 ex_ops + Z.of_N (rd_length ex_g) + Z.of_N (sg_spd cx_d) <= e2_tsb)%Z) /\
  (forall k, (1 <= k)%nat -> nth k (pw_heads ex_stf) 0%Z <> 0%Z -> (py_step (rf_pd cx_d) k < rdm_two63)%Z).
Proof. exact ex_hyps. Qed.
Print Assumptions e2e_example_hypotheses.

Theorem e2e_example_end_to_end :
  rdm_open ex_f = RdmOpened ex_st /\
  e2_P ex_f cx_d (pw_disk ex_stf) (pw_heads ex_stf) ex_psi (rf_t0 ex_ops) ex_total ex_st /\
  rd_length ex_g = 1100 /\
  forall st, e2_P ex_f cx_d (pw_disk ex_stf) (pw_heads ex_stf) ex_psi (rf_t0 ex_ops) ex_total st ->
    (exists st', rdm_fsr_length st (sg_id cx_d) = (st', 0, 1100%Z) /\
                 e2_P ex_f cx_d (pw_disk ex_stf) (pw_heads ex_stf) ex_psi (rf_t0 ex_ops) ex_total st' /\
                 rdm_stale st' = rdm_stale st /\ rdm_flt st' = rdm_flt st) /\
    forall recon f32_of_f64 start len, (0 <= start)%Z -> (0 < len)%Z -> (start + len <= 1100)%Z ->
      exists st' pcs out,
        rdm_fsr recon f32_of_f64 st (sg_id cx_d) start len (repeat 0 (N.to_nat ((Z.to_N len * 16 + 7) / 8))) = (st', 0, out, pcs) /\
        rd_window ex_g (Z.to_N start) (Z.to_N len) = Some out /\
        e2_P ex_f cx_d (pw_disk ex_stf) (pw_heads ex_stf) ex_psi (rf_t0 ex_ops) ex_total st' /\
        rdm_stale st' = rdm_stale st /\ rdm_flt st' = rdm_flt st.
Proof. exact ex_end_to_end. Qed.
Print Assumptions e2e_example_end_to_end.
