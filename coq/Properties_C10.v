(* C10: API misuse yields error codes, never crashes, hangs or stray memory access - what is PROVED, on the
   models (the tie of each model to /repo is the correspondence run named beside it; memory safety of the C
   itself is not provable here and rests on the ASan/UBSan runs of tools/props/C10.py).
   Proofs: SafeProofs.v .. SafeProofs5.v (writer), RawReadProofs.v (reader raw layer), and the proof files of
   the component models.

   (a) THE SYNCHRONOUS WRITER (WmRaw/WmCore/WmTs/WmFsr/WriterModel.v, byte-exact against the C: tools/props/WM.py).
       The sticky flag wm_st_fault = "the C would dereference NULL, index level[16], read past the caller's
       buffer, loop forever (fuel exhausted), or leave the modelled domain".
       C10_sync_writer_never_faults: for ALL programs p (any sequence of jls_wr_source_def / signal_def / fsr /
       fsr_omit_data / annotation / utc / user_data / flush calls between jls_wr_open and jls_wr_close, with
       ARBITRARY arguments: ids and definition parameters are unbounded N - 0, 1, 2^32-1 and beyond -, any
       strings, any data, any sample ids, zero-length and long sample lists, calls after rejected calls,
       undefined / duplicate / wrong-type ids), for all summary oracles summ1 / summN (the floating point
       values never matter), the flag is false after jls_wr_close, and also after the calls without close.
       Guards - both are MODELLING LIMITS, neither is an API precondition:
         G1  fewer than 10^15 calls.  Needed only for the annotation / UTC index pyramids: with the minimum
             decimate factor 10, 10^15 entries of one signal reach commit(15, NORMAL), where the C's alloc(16)
             returns JLS_ERROR_PARAMETER_INVALID (an error code, not a crash); the model counts leaving its
             domain as a fault.
         G2  the sample ids of all jls_wr_fsr calls lie in one window [lo, lo + 10^15).  With the minimum
             factors (sample_decimate_factor >= 10, summary_decimate_factor >= 10) 10^15 samples of one signal
             (written or gap-filled) put a summary entry on level 15; wr_summary(15) then evaluates
             self->level[16], one past the array (C10_level16_fault_outside_guard: the model's fault; a latent
             defect of wr_fsr.c, not reachable by a replay: >= 1.6 * 10^15 samples).  Inside one window the
             model's sample ids are unbounded Z; the C computes in int64, and int64 overflow (undefined
             behaviour) is OUTSIDE the model.  It is reachable: sample ids near INT64_MAX overflow
             `timestamp + entry_count` (wr_fsr.c:513; also lines 519, 530).  Replayed on the ASan/UBSan build:
               wopen;src 1 e e e e e;sig 3 1 0 8196 1000 0 0 0 0 0 0 e e;fsr 3 9223372036854775800 16 0 0;fsr 3 9223372036854775804 16 0 0;wclose
               -> FAULT EXIT1, "wr_fsr.c:513:13: runtime error: signed integer overflow" 
       Built into the representation (documented API preconditions): the caller's sample buffer holds exactly
       the samples passed (a list), user data / annotation data hold exactly `size` bytes (a list), strings are
       NUL-terminated or NULL (strv), pointers are valid.  Not modelled: I/O errors, allocation failure.
       No input allowed by the documented API makes the model fault inside G1/G2, so no `_refuted` theorem is
       stated.  But G2 also hides a genuine C10 finding that the model cannot express as a fault (its fuel is
       proportional to the gap, so the model "terminates"): jls_wr_fsr_data gap-fills sample_id - sample_id_next
       samples with no upper limit and no error code, so a far-future sample id makes the call run for centuries
       while the file grows.  Replayed on the C (prog kind):
         wopen;src 1 e e e e e;sig 3 1 0 259 1000 0 0 0 0 0 0 e e;fsr 3 0 8 0 0;fsr 3 4611686018427387904 8 0 0;wclose
         -> wopen 0;src 0;sig 0;fsr 0;FAULT TIMEOUT      (a gap of 2*10^9 takes 5.4 s: linear in the gap)
   (b) component models: ring buffer, signal-definition normalisation, tmap, jls_bit_copy, definition decoders,
       index-pyramid seek.
   (c) the reader's raw layer (RepairRaw.v) on ARBITRARY file bytes and states. *)
From Coq Require Import NArith ZArith QArith List.
From JLS Require Import Generated CrcDefs Spec Format WmRaw WmCore WmTs WmFsr WriterModel WmProofs
                        SafeProofs3 SafeProofs5 RepairRaw RawReadProofs.
From JLS Require MrbModel MrbProofs SigDef SigDefProofs TmapModel TmapProofs BitCopyModel BitCopyProofs DefsModel DefsProofs
                 PyramidModel PyramidProofs.
Import ListNotations.
Local Open Scope N_scope.

(* ================================================================ (a) *)
Theorem C10_sync_writer_never_faults :
  forall (summ1 : N -> list N -> wm_sentry) (summN : bool -> list wm_sentry -> wm_sentry) (p : list wop) (lo : Z),
  N.of_nat (length p) < 1000000000000000 ->
  (forall sig sid samples, In (WFsr sig sid samples) p ->
     (lo <= sid /\ sid + Z.of_nat (length samples) < lo + 1000000000000000)%Z) ->
  wm_st_fault (fst (wm_run_full summ1 summN p)) = false /\
  wm_st_fault (fst (wm_steps summ1 summN wm_api_open p [])) = false.
Proof. exact sf_C10_writer. Qed.
Print Assumptions C10_sync_writer_never_faults.

(* the guards are satisfiable by a program made of misuse (48 calls; return codes as the C's) *)
Theorem C10_sync_writer_example :
  N.of_nat (length sf_ex_prog) < 1000000000000000 /\
  (forall sig sid samples, In (WFsr sig sid samples) sf_ex_prog ->
     ((-5) <= sid /\ sid + Z.of_nat (length samples) < (-5) + 1000000000000000)%Z) /\
  wm_st_fault (fst (wm_run_full wm_zero_summ1 wm_zero_summN sf_ex_prog)) = false /\
  snd (wm_run_full wm_zero_summ1 wm_zero_summN sf_ex_prog) =
    [16; 5; 5; 3; 16; 3; 3; 5; 16; 0; 0; 5; 5; 5; 16; 0; 17; 5; 0; 0; 0;
     17; 0; 17; 5; 5; 5; 5; 5; 0; 0; 0; 0; 0; 0; 0; 0; 3; 0; 0; 0; 0; 0;
     0; 0; 5; 0; 16].
Proof. exact sf_ex_prog_in_guard. Qed.
Print Assumptions C10_sync_writer_example.

(* outside G2: with a summary entry on level 15 (an FSR state the guard makes unreachable) wr_summary(15) faults *)
Theorem C10_level16_fault_outside_guard :
  sf_def_ok sf_ex_def /\
  wm_fault (wm_b_raw (wm_fx_base sf_ex_fx15)) = false /\
  wm_fault (wm_b_raw (wm_fx_base (wm_fsr_wr_summary wm_zero_summN wm_level_count sf_ex_def 15 sf_ex_fx15))) = true.
Proof. exact sf_level16_fault_outside_guard. Qed.
Print Assumptions C10_level16_fault_outside_guard.

(* ================================================================ (b) *)
(* ring buffer (jls_mrb_*; MrbModel.alloc_fixed = jls_mrb_alloc as it is in /repo): every byte access of every
   operation sequence from jls_mrb_init is inside [0, size) - the run never yields Fault (OOB_read / OOB_write) - *)
Theorem C10_mrb_never_faults : forall (B : N) (ops : list MrbModel.op), B <= 2147483648 ->
  exists s outs, MrbModel.run MrbModel.alloc_fixed (MrbModel.init B) ops = MrbModel.Ok (s, outs).
Proof. exact sf_C10_mrb_never_faults. Qed.
Print Assumptions C10_mrb_never_faults.

(* ... and the region handed to the caller, with its 4-byte length prefix, lies inside the buffer and does not
   meet any message still queued *)
Theorem C10_mrb_alloc_in_bounds : forall (s : MrbModel.mrb) (sz : N) (s' : MrbModel.mrb) (p : N),
  MrbModel.MInv s -> MrbModel.alloc_fixed s sz = MrbModel.Ok (s', Some p) ->
  4 <= p /\ p + sz <= MrbModel.size s /\ MrbModel.size s' = MrbModel.size s /\ MrbModel.disjoint_from_live s p sz.
Proof. exact sf_C10_mrb_alloc_in_bounds. Qed.
Print Assumptions C10_mrb_alloc_in_bounds.

(* jls_core_signal_def_align: for every sample width and all uint32 parameters (incl. 0, 1, 2^32-1): accepted or
   rejected, never a division by zero, never an endless loop *)
Theorem C10_sigdef_never_faults : forall (w : N) (d : SigDef.sd_sigdef), In w [1; 4; 8; 16; 24; 32; 64] ->
  (SigDef.spd d < 2 ^ 32 /\ SigDef.sdf d < 2 ^ 32 /\ SigDef.eps d < 2 ^ 32 /\ SigDef.sumdf d < 2 ^ 32 /\
   SigDef.sd_anno d < 2 ^ 32 /\ SigDef.sd_utc d < 2 ^ 32) ->
  forall f, SigDef.sd_align w d <> SigDef.SdFault f.
Proof. exact sf_C10_sigdef_never_faults. Qed.
Print Assumptions C10_sigdef_never_faults.

Theorem C10_sigdef_loop_terminates : forall e epd,
  SigDef.sd_fit_loop (N.to_nat epd) e epd <> SigDef.SdFault SigDef.SdNonterm.
Proof. exact SigDefProofs.fit_loop_never_nonterm. Qed.
Print Assumptions C10_sigdef_loop_terminates.

(* tmap: the bisection reads only valid indices and terminates, whatever the map; the only fault a conversion can
   report is int64 overflow (astronomically distant queries: undefined behaviour in C) *)
Theorem C10_tmap_search_in_bounds : forall (xs : list Z) (x0 : Z), (1 <= length xs)%nat ->
  exists c, TmapModel.search xs x0 = TmapModel.TmOk c /\ (c < length xs)%nat /\ (2 <= length xs -> c + 2 <= length xs)%nat.
Proof. exact TmapProofs.search_total. Qed.
Print Assumptions C10_tmap_search_in_bounds.

Theorem C10_tmap_no_oob_no_hang : forall (t : TmapModel.tmap) (q : Z) (f : TmapModel.tm_fault),
  TmapModel.tmap_sample_id_to_timestamp t q = TmapModel.QFault f \/ TmapModel.tmap_timestamp_to_sample_id t q = TmapModel.QFault f ->
  f = TmapModel.Tm_Int_overflow.
Proof. exact TmapProofs.tmap_total. Qed.
Print Assumptions C10_tmap_no_oob_no_hang.

(* jls_bit_copy: source and destination buffers of exactly the documented size (the bit ranges fit) are never
   left (no BC_oob), the loop terminates (no BC_nonterm), the destination keeps its length *)
Theorem C10_bit_copy_in_bounds : forall (dst : list N) (dst_bit : N) (src : list N) (src_bit n : N),
  dst_bit + n <= 8 * N.of_nat (length dst) -> src_bit + n <= 8 * N.of_nat (length src) ->
  exists dst', BitCopyModel.bc_bit_copy dst dst_bit src src_bit n = BitCopyModel.BC_ok dst' /\ length dst' = length dst.
Proof. exact sf_C10_bit_copy_in_bounds. Qed.
Print Assumptions C10_bit_copy_in_bounds.

(* jls_buf_rd_skip / u8 / u16 / u32 / str: what is consumed is a prefix of the remaining payload (the cursor
   never passes the end), and a string that is accepted fits a string block of JLS_BUF_STRING_SIZE bytes *)
Theorem C10_defs_decoders_in_bounds :
  (forall n c r, DefsModel.df_rd_skip n c = DefsModel.DfOk r -> exists pre, c = pre ++ r /\ length pre = n) /\
  (forall c v r, DefsModel.df_rd_u8 c = DefsModel.DfOk (v, r) -> exists pre, c = pre ++ r /\ length pre = 1%nat) /\
  (forall c v r, DefsModel.df_rd_u16 c = DefsModel.DfOk (v, r) -> exists pre, c = pre ++ r /\ length pre = 2%nat) /\
  (forall c v r, DefsModel.df_rd_u32 c = DefsModel.DfOk (v, r) -> exists pre, c = pre ++ r /\ length pre = 4%nat) /\
  (forall c s r, DefsModel.df_rd_str c = DefsModel.DfOk (s, r) ->
     (exists pre, c = pre ++ r /\ (length s < length pre)%nat) /\ N.of_nat (length s) + 1 <= JLS_BUF_STRING_SIZE - 1).
Proof. exact sf_C10_defs_decoders_in_bounds. Qed.
Print Assumptions C10_defs_decoders_in_bounds.

(* the definition / user-data calls of the writer (DefsModel): no call crashes, whatever the arguments and state *)
Theorem C10_defs_step_never_faults : forall w o, snd (DefsModel.df_step w o) <> DefsModel.DfFault.
Proof. exact DefsProofs.step_never_faults. Qed.
Print Assumptions C10_defs_step_never_faults.

(* jls_core_fsr_seek over an ARBITRARY set of chunks (also a corrupt index): the descent is a structural
   recursion on the level (it terminates) and never divides by zero, for every consistent definition *)
Theorem C10_pyramid_seek_never_faults : forall d disk heads level sid f, PyramidModel.py_consistent d ->
  PyramidModel.py_fsr_seek d disk heads level sid <> PyramidModel.PyErr (PyramidModel.PE_Fault f).
Proof. exact sf_C10_pyramid_seek_never_faults. Qed.
Print Assumptions C10_pyramid_seek_never_faults.

(* ================================================================ (c) *)
(* "in bounds" for the reader model: every read is rp_file_read, which yields nothing or exactly the bytes of
   the file at the requested position (fm_sub = firstn / skipn of the file): no other byte can be seen *)
Theorem C10_raw_read_in_bounds : forall f flen off n,
  rp_file_read f flen off n = [] \/ rp_file_read f flen off n = fm_sub off n f.
Proof. exact rr_file_read_in_bounds. Qed.
Print Assumptions C10_raw_read_in_bounds.

(* jls_raw_rd_header / jls_raw_rd_payload on ANY state and ANY bytes: no fault, the file is not touched *)
Theorem C10_raw_rd_header_no_fault : forall s,
  rp_flt (fst (rp_raw_rd_header s)) = rp_flt s /\ rp_file (fst (rp_raw_rd_header s)) = rp_file s /\
  rp_flen (fst (rp_raw_rd_header s)) = rp_flen s.
Proof. exact rr_rd_header_no_fault. Qed.
Print Assumptions C10_raw_rd_header_no_fault.

Theorem C10_raw_rd_payload_no_fault : forall s max,
  rp_flt (fst (rp_raw_rd_payload s max)) = rp_flt s /\ rp_file (fst (rp_raw_rd_payload s max)) = rp_file s /\
  rp_flen (fst (rp_raw_rd_payload s max)) = rp_flen s.
Proof. exact rr_rd_payload_no_fault. Qed.
Print Assumptions C10_raw_rd_payload_no_fault.

(* jls_core_rd_chunk on ANY state and ANY bytes: the only fault is the stated modelling limit RpF_big (a
   CRC-valid header announcing more than the initial 1 MiB buffer: the jls_buf_realloc path is not modelled),
   reported together with JLS_ERROR_NOT_ENOUGH_MEMORY *)
Theorem C10_rd_chunk_only_modelling_limit : forall s,
  rp_file (fst (rp_rd_chunk s)) = rp_file s /\ rp_flen (fst (rp_rd_chunk s)) = rp_flen s /\
  (rp_flt (fst (rp_rd_chunk s)) = rp_flt s \/
   (rp_flt s = 0 /\ rp_flt (fst (rp_rd_chunk s)) = RpF_big /\ snd (rp_rd_chunk s) = JLS_ERROR_NOT_ENOUGH_MEMORY)).
Proof. exact rr_rd_chunk_no_fault. Qed.
Print Assumptions C10_rd_chunk_only_modelling_limit.

(* read_verify (file header) on ANY bytes: the only fault is RpF_short (fewer than 24 bytes could be read) *)
Theorem C10_read_verify_only_modelling_limit : forall s,
  rp_file (fst (fst (rp_read_verify s))) = rp_file s /\
  (rp_flt (fst (fst (rp_read_verify s))) = rp_flt s \/
   (rp_flt s = 0 /\ rp_flt (fst (fst (rp_read_verify s))) = RpF_short /\
    rp_len (rp_file_read (rp_file s) (rp_flen s) (rp_fpos (rp_r s)) 32) < 24)).
Proof. exact rr_read_verify_no_fault. Qed.
Print Assumptions C10_read_verify_only_modelling_limit.
