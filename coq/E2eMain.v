(* END TO END, the statement for Properties_e2e.v: E2eTop (length, windows) + E2eOpen (the opened state), one theorem. *)
From Coq Require Import NArith ZArith List Bool Lia Arith.
From JLS Require Import Generated CrcDefs Spec Format WriteOnce WmRaw WmCore WmTs WmFsr WriterModel WmProofs WmWriteOnce
  BitCopyModel PyramidModel RefineLog RefineFsr RefinePyr RefinePyr2 RefineBits2 RefineProg RepairRaw RepairModel ReaderModel
  ComposeFsr E2eLog E2eRead E2eModel E2eFsr E2eFsr2 E2eDisk E2eTop E2eOpen.
Import ListNotations.
Local Open Scope N_scope.

Theorem e2m_fsr_read : forall (summ1 : N -> list N -> wm_sentry) (summN : bool -> list wm_sentry -> wm_sentry)
    (d0 d : sigdef) (pos0 : Z) (p1 p2 : list wop) (stf : py_wr),
  (0 < pos0)%Z -> sg_id d <> 0 -> sg_type d = JLS_SIGNAL_TYPE_FSR -> sg_eps d * sg_sdf d < 4294967296 ->
  let sid := sg_id d in
  let w := dt_bits (sg_dtype d) in
  let pd := rf_pd d in
  let p := p1 ++ WSig d0 :: p2 in
  Forall (rp_ok sid) p ->
  Forall (fun o => match o with WSig d' => sg_id d' <> sid | _ => True end) p1 ->
  snd (wm_api_signal_def (fst (wm_steps summ1 summN wm_api_open p1 [])) d0) = 0 -> wm_sig_align d0 = Some d ->
  let ops := rp_proj sid p2 in
  py_srun pd (w <=? 8) (rf_t0 ops) pos0 (rf_script d rf_bs0 ops) = PyOk stf ->
  wm_fill_sample (sg_dtype d) = fill_value (sg_dtype d) ->
  8 < w -> cmp_no_omit ops ->
  let g := fold_left (fun g c => fsr_write g (fst c) (snd c)) (rf_calls ops) (new_sig d) in
  rd_length g <> 0 ->
  let stF := fst (wm_run_full summ1 summN p) in
  wmw_bounded (wm_st_log stF) ->
  let f := e2_file summ1 summN p in
  let cs := filter (rf_mine d) (rf_chunks (wm_st_log stF)) in
  e2t_adjb cs = true -> e2t_bigb cs = true ->
  rf_len f < rp_two63 -> sg_spd d < 4294967296 ->
  (- e2_tsb <= rf_t0 ops)%Z /\ (rf_t0 ops + Z.of_N (rd_length g) + Z.of_N (sg_spd d) <= e2_tsb)%Z ->
  (forall k, (1 <= k)%nat -> nth k (pw_heads stf) 0%Z <> 0%Z -> (py_step pd k < rdm_two63)%Z) ->
  let psi := rf_psi (map rc_off cs) pos0 in
  let P := e2_P f d (pw_disk stf) (pw_heads stf) psi (rf_t0 ops) (Z.of_N (rd_length g)) in
  wm_st_fault stF = false /\
  (forall st, rdm_open f = RdmOpened st -> e2_R0 f d (pw_heads stf) psi (rf_t0 ops) st -> P st) /\
  forall st, P st ->
    (exists st', rdm_fsr_length st sid = (st', 0, Z.of_N (rd_length g)) /\ P st' /\
                 rdm_stale st' = rdm_stale st /\ rdm_flt st' = rdm_flt st) /\
    forall recon f32_of_f64 start len dst,
      (0 <= start)%Z -> (0 < len)%Z -> (start + len <= Z.of_N (rd_length g))%Z -> Z.to_N len * w <= 8 * N.of_nat (length dst) ->
      exists st' pcs out,
        rdm_fsr recon f32_of_f64 st sid start len dst = (st', 0, out, pcs) /\ P st' /\
        rdm_stale st' = rdm_stale st /\ rdm_flt st' = rdm_flt st /\ length out = length dst /\
        firstn (N.to_nat (Z.to_N len * w)) (bc_bits out) =
          flat_map (bits_of (N.to_nat w)) (firstn (Z.to_nat len) (skipn (Z.to_nat start) (ss_samples g))) /\
        skipn (N.to_nat (Z.to_N len * w)) (bc_bits out) = skipn (N.to_nat (Z.to_N len * w)) (bc_bits dst) /\
        (dst = repeat 0 (N.to_nat ((Z.to_N len * w + 7) / 8)) -> rd_window g (Z.to_N start) (Z.to_N len) = Some out).
Proof.
  intros summ1 summN d0 d pos0 p1 p2 stf Hpos0 Hsid0 Hty Hprod sid w pd p Hok Hns Hrc Hal ops Hpy Hfillv Hw8 Hno g Hne stF Hbnd f cs
         Hadj Hbig Gflen Gspd Gts Gstep psi P.
  pose proof (e2t_adjb_sound _ Hadj) as Gadj. pose proof (e2t_bigb_sound _ Hbig) as Gbig.
  split.
  { exact (proj1 (e2t_env summ1 summN d0 d pos0 p1 p2 stf Hpos0 Hsid0 Hty Hprod Hok Hns Hrc Hal Hpy Hfillv Hne Hbnd Gadj Gbig Gflen Gspd Gts Gstep)). }
  split.
  { intros st Hopen R. apply (e2o_opened_P f d (pw_disk stf) (pw_heads stf) psi (rf_t0 ops) (Z.of_N (rd_length g)) st Hopen R); [reflexivity|].
    destruct (ComposeTop.cmp_top_guards summ1 summN d0 d p1 Hprod Hrc Hal) as (A1 & _). exact A1. }
  intros st HP. split.
  - exact (e2t_fsr_length summ1 summN d0 d pos0 p1 p2 stf Hpos0 Hsid0 Hty Hprod Hok Hns Hrc Hal Hpy Hfillv Hne Hbnd Gadj Gbig Gflen Gspd Gts Gstep Hno st HP).
  - intros recon f32_of_f64 start len dst Hs Hl He Hc.
    exact (e2t_fsr_window summ1 summN d0 d pos0 p1 p2 stf Hpos0 Hsid0 Hty Hprod Hok Hns Hrc Hal Hpy Hfillv Hne Hbnd Gadj Gbig Gflen Gspd Gts Gstep Hw8 Hno
             recon f32_of_f64 st start len dst HP Hs Hl He Hc).
Qed.

(* jls_fsr_length alone, under the exact condition of Properties_compose (the omit-partial-last-block finding): sample width
   at most 8 bits, or no omission requested, or the length a multiple of sample_decimate_factor; blocks may be omitted *)
Theorem e2m_fsr_length : forall (summ1 : N -> list N -> wm_sentry) (summN : bool -> list wm_sentry -> wm_sentry)
    (d0 d : sigdef) (pos0 : Z) (p1 p2 : list wop) (stf : py_wr),
  (0 < pos0)%Z -> sg_id d <> 0 -> sg_type d = JLS_SIGNAL_TYPE_FSR -> sg_eps d * sg_sdf d < 4294967296 ->
  let sid := sg_id d in
  let w := dt_bits (sg_dtype d) in
  let pd := rf_pd d in
  let p := p1 ++ WSig d0 :: p2 in
  Forall (rp_ok sid) p ->
  Forall (fun o => match o with WSig d' => sg_id d' <> sid | _ => True end) p1 ->
  snd (wm_api_signal_def (fst (wm_steps summ1 summN wm_api_open p1 [])) d0) = 0 -> wm_sig_align d0 = Some d ->
  let ops := rp_proj sid p2 in
  py_srun pd (w <=? 8) (rf_t0 ops) pos0 (rf_script d rf_bs0 ops) = PyOk stf ->
  wm_fill_sample (sg_dtype d) = fill_value (sg_dtype d) ->
  let g := fold_left (fun g c => fsr_write g (fst c) (snd c)) (rf_calls ops) (new_sig d) in
  rd_length g <> 0 ->
  (w <= 8 \/ cmp_no_omit ops \/ rd_length g mod sg_sdf d = 0) ->
  let stF := fst (wm_run_full summ1 summN p) in
  wmw_bounded (wm_st_log stF) ->
  let f := e2_file summ1 summN p in
  let cs := filter (rf_mine d) (rf_chunks (wm_st_log stF)) in
  e2t_adjb cs = true -> e2t_bigb cs = true ->
  rf_len f < rp_two63 -> sg_spd d < 4294967296 ->
  (- e2_tsb <= rf_t0 ops)%Z /\ (rf_t0 ops + Z.of_N (rd_length g) + Z.of_N (sg_spd d) <= e2_tsb)%Z ->
  (forall k, (1 <= k)%nat -> nth k (pw_heads stf) 0%Z <> 0%Z -> (py_step pd k < rdm_two63)%Z) ->
  let psi := rf_psi (map rc_off cs) pos0 in
  let P := e2_P f d (pw_disk stf) (pw_heads stf) psi (rf_t0 ops) (Z.of_N (rd_length g)) in
  (forall st, rdm_open f = RdmOpened st -> e2_R0 f d (pw_heads stf) psi (rf_t0 ops) st -> P st) /\
  forall st, P st ->
    exists st', rdm_fsr_length st sid = (st', 0, Z.of_N (rd_length g)) /\ P st' /\
                rdm_stale st' = rdm_stale st /\ rdm_flt st' = rdm_flt st.
Proof.
  intros summ1 summN d0 d pos0 p1 p2 stf Hpos0 Hsid0 Hty Hprod sid w pd p Hok Hns Hrc Hal ops Hpy Hfillv g Hne Hcond stF Hbnd f cs
         Hadj Hbig Gflen Gspd Gts Gstep psi P.
  pose proof (e2t_adjb_sound _ Hadj) as Gadj. pose proof (e2t_bigb_sound _ Hbig) as Gbig.
  split.
  { intros st Hopen R. apply (e2o_opened_P f d (pw_disk stf) (pw_heads stf) psi (rf_t0 ops) (Z.of_N (rd_length g)) st Hopen R); [reflexivity|].
    destruct (ComposeTop.cmp_top_guards summ1 summN d0 d p1 Hprod Hrc Hal) as (A1 & _). exact A1. }
  intros st HP.
  exact (e2t_fsr_length_gen summ1 summN d0 d pos0 p1 p2 stf Hpos0 Hsid0 Hty Hprod Hok Hns Hrc Hal Hpy Hfillv Hne Hbnd Gadj Gbig Gflen Gspd Gts Gstep Hcond st HP).
Qed.

(* layer 1, both sides, for ANY program: every chunk of the chunk view of the complete backend log is read back by
   jls_raw_chunk_seek + jls_core_rd_chunk from the file the log produces: return codes 0, header with the chunk's tag and
   chunk_meta, payload = the chunk's payload (for a TRACK HEAD chunk, whose payload is rewritten in place: a payload of
   the same length; its final content is the third part of E2eModel.e2_model_file) *)
Theorem e2m_chunk_read : forall (summ1 : N -> list N -> wm_sentry) (summN : bool -> list wm_sentry -> wm_sentry) (p : list wop),
  let stF := fst (wm_run_full summ1 summN p) in
  wm_st_fault stF = false -> wmw_bounded (wm_st_log stF) ->
  let f := e2_file summ1 summN p in
  forall c, In c (rf_chunks (wm_st_log stF)) -> rc_tag c <> JLS_TAG_INVALID -> rc_off c < rp_two63 ->
    fm_disk_len (rf_len (rc_pay c)) <= JLS_BUF_DEFAULT_SIZE ->
  forall s, e2_rdr s f ->
  exists s1 s2 h pl,
    rp_chunk_seek s (rc_off c) = (s1, 0) /\ rp_rd_chunk s1 = (s2, 0) /\
    rp_cur s2 = {| wm_ck_offset := rc_off c; wm_ck_hdr := h |} /\ fm_tag h = rc_tag c /\ fm_chunk_meta h = rc_meta c /\
    fm_payload_length h = rf_len (rc_pay c) /\
    rp_payload s2 = pl /\ rf_len pl = rf_len (rc_pay c) /\ (fm_is_head_tag (rc_tag c) = false -> pl = rc_pay c) /\
    e2_pos s2 f (rc_off c + fm_chunk_size (rf_len (rc_pay c))) /\ rp_flt s2 = rp_flt s.
Proof.
  intros summ1 summN p stF Hflt Hbnd f c Hc Htag Hoff Hbig s Hs.
  destruct (e2_model_file summ1 summN p Hflt Hbnd) as ((_ & _ & _ & _ & Hall & _) & _).
  rewrite Forall_forall in Hall. destruct (Hall c Hc) as (h & p' & Hat & Ht & Hm & Hlen & Hp).
  pose proof Hat as (_ & Hpl & _ & _ & Hlo & _).
  destruct (e2_seek s f (rc_off c) Hs ltac:(intro E; rewrite E in Hlo; destruct Hlo; reflexivity) Hoff) as (s1 & E1 & P1 & _ & _ & _ & F1).
  assert (Ht' : fm_tag h <> JLS_TAG_INVALID) by (rewrite Ht; exact Htag).
  assert (Hbig' : fm_disk_len (rf_len p') <= JLS_BUF_DEFAULT_SIZE) by (rewrite Hlen; exact Hbig).
  destruct (e2_rd_chunk s1 f (rc_off c) h p' P1 Hat Ht' Hbig') as (s2 & E2 & P2 & C2 & _ & Pay2 & _ & F2).
  exists s1, s2, h, p'. split; [exact E1|]. split; [exact E2|]. split; [exact C2|]. split; [exact Ht|]. split; [exact Hm|].
  split; [rewrite <- Hpl; exact Hlen|]. split; [exact Pay2|]. split; [exact Hlen|]. split; [exact Hp|].
  split; [rewrite <- Hlen; exact P2|]. rewrite F2. exact F1.
Qed.

(* ================================================================ the vocabulary of the statements, for Properties_e2e.v *)
Theorem e2m_vocabulary :
  (forall f o pl, e2_crc_ok f o pl <->
     (pl = 0 \/ (o + 32 + fm_disk_len pl <= rf_len f /\
                 fm_dec (fm_sub (o + 32 + fm_disk_len pl - 4) 4 f) = crc32c (fm_sub (o + 32) pl f)))) /\
  (forall f o h p, e2_chunk_at f o h p <->
     (fm_decode_chunk_header (skipn (N.to_nat o) f) = Some h /\ rf_len p = fm_payload_length h /\
      fm_sub (o + 32) (rf_len p) f = p /\ e2_crc_ok f o (rf_len p) /\ 32 <= o /\ o + fm_chunk_size (rf_len p) <= rf_len f)) /\
  (forall s f, e2_rdr s f <-> (rp_file s = f /\ rp_flen s = rp_len f /\ rp_fend (rp_r s) = rp_len f)) /\
  (forall s f o, e2_pos s f o <->
     (rp_file s = f /\ rp_flen s = rp_len f /\ rp_fend (rp_r s) = rp_len f /\ rp_r_valid (rp_r s) = false /\
      rp_offset (rp_r s) = o /\ rp_fpos (rp_r s) = o)) /\
  (forall f c, e2_chunk_ok f c <->
     exists h p, e2_chunk_at f (rc_off c) h p /\ fm_tag h = rc_tag c /\ fm_chunk_meta h = rc_meta c /\
                 rf_len p = rf_len (rc_pay c) /\ (fm_is_head_tag (rc_tag c) = false -> p = rc_pay c)) /\
  (forall a, e2_layout [] a a) /\
  (forall c r a z, e2_layout (c :: r) a z <-> (rc_off c = a /\ e2_layout r (a + fm_chunk_size (rf_len (rc_pay c))) z)) /\
  (forall f cs, e2_wf_file f cs <->
     (fm_sub 0 32 f = wm_file_header_bytes (rf_len f) /\ 64 <= rf_len f /\ rf_len f < fm_two64 /\
      e2_layout cs 32 (rf_len f) /\ Forall (e2_chunk_ok f) cs /\
      exists cs0, cs = cs0 ++ [{| rc_off := rf_len f - 32; rc_tag := JLS_TAG_END; rc_meta := 0; rc_pay := [] |}])) /\
  e2_tsb = (2 ^ 61)%Z /\
  (forall summ1 summN p, e2_file summ1 summN p = wo_file_after (wmw_evs (wm_st_log (fst (wm_run_full summ1 summN p))))) /\
  (forall summ1 summN p, e2_pre_end summ1 summN p =
     fold_left (wm_close_signal summ1 summN) wm_signal_ids (fst (wm_steps summ1 summN wm_api_open p []))).
Proof.
  split; [intros; reflexivity|]. split; [intros; reflexivity|]. split; [intros; reflexivity|]. split; [intros; reflexivity|].
  split; [intros; reflexivity|]. split; [intros; constructor|].
  split. { intros c r a z. split; [intro H; inversion H; subst; split; [reflexivity|assumption]|intros (A & B); constructor; assumption]. }
  split; [intros; reflexivity|]. split; [reflexivity|]. split; intros; reflexivity.
Qed.

Theorem e2m_vocabulary_reader :
  (forall d psi pc p, e2_pc_pay d psi pc p <->
     match pc_kind pc with
     | PyData => exists data, p = wm_fsr_data_payload (pc_ts pc) (Z.to_N (pc_count pc)) (dt_bits (sg_dtype d)) data
     | PyIndex L => p = wm_fsr_index_payload (pc_ts pc) (Z.to_N (pc_count pc)) (map psi (pc_entries pc)) /\
                    Z.of_nat (length (pc_entries pc)) = pc_count pc
     | PySummary L => exists entries, p = wm_fsr_summary_payload (sg_dtype d) (pc_ts pc) (Z.to_N (pc_count pc)) entries
     end) /\
  (forall f d psi pc, e2_pc_ok f d psi pc <->
     ((0 < pc_off pc)%Z /\ 32 <= psi (pc_off pc) /\ psi (pc_off pc) < rp_two63 /\
      match pc_kind pc with PySummary _ => True | _ => (- e2_tsb <= pc_ts pc < e2_tsb)%Z end /\
      (0 <= pc_count pc < 4294967296)%Z /\ e2_pc_level (pc_kind pc) < 16 /\
      exists h p, e2_chunk_at f (psi (pc_off pc)) h p /\ fm_tag h = e2_pc_tag (pc_kind pc) /\
                  fm_chunk_meta h = wm_meta (sg_id d) (e2_pc_level (pc_kind pc)) /\
                  fm_disk_len (rf_len p) <= JLS_BUF_DEFAULT_SIZE /\ e2_pc_pay d psi pc p)) /\
  (forall k, e2_pc_tag k = match k with PyData => JLS_TAG_TRACK_FSR_DATA | PyIndex _ => JLS_TAG_TRACK_FSR_INDEX | PySummary _ => JLS_TAG_TRACK_FSR_SUMMARY end) /\
  (forall k, e2_pc_level k = match k with PyData => 0 | PyIndex L => N.of_nat L | PySummary L => N.of_nat L end) /\
  (forall disk p, e2_valid_pos disk p <-> (p = 0%Z \/ exists c, In c disk /\ pc_off c = p)) /\
  (forall d cc, e2_cache_valid d cc <-> (cc_meta cc = (4096 + Z.of_N (sg_id d))%Z /\ cc_off cc <> 0%Z)) /\
  (forall d disk heads cc, e2_reach d disk heads cc <->
     exists cache0 starts, (cc_meta cache0 <> (4096 + Z.of_N (sg_id d))%Z \/ cc_off cache0 = 0%Z) /\
                           cc = py_reads (rf_pd d) disk heads (Z.of_N (sg_id d)) cache0 starts) /\
  (forall d st len, e2_len_ok d st len <->
     (length (rdm_len st) = 256%nat /\ (rdm_get_len st (sg_id d) = (-1)%Z \/ rdm_get_len st (sg_id d) = len))) /\
  (forall f d disk heads psi T0 total st, e2_P f d disk heads psi T0 total st <->
     exists cc, e2_R0 f d heads psi T0 st /\ e2_CR d disk psi st cc /\ e2_reach d disk heads cc /\ e2_len_ok d st total) /\
  (forall f d heads psi T0 st, e2_R0 f d heads psi T0 st <->
     (e2_rdr (rdm_io st) f /\ rp_signal_validate (rdm_c st) (sg_id d) = 0 /\
      sg_type (rdm_def st (sg_id d)) = JLS_SIGNAL_TYPE_FSR /\ sg_spd (rdm_def st (sg_id d)) = sg_spd d /\
      sg_sdf (rdm_def st (sg_id d)) = sg_sdf d /\ sg_eps (rdm_def st (sg_id d)) = sg_eps d /\
      sg_sumdf (rdm_def st (sg_id d)) = sg_sumdf d /\ sg_dtype (rdm_def st (sg_id d)) = sg_dtype d /\
      rdm_sid0 st (sg_id d) = T0 /\ (0 < length (rp_sg_tk (rdm_sig st (sg_id d))))%nat /\
      forall L, (L < 16)%nat -> wm_get_off (rdm_offsets st (sg_id d) JLS_TRACK_TYPE_FSR) (N.of_nat L) = psi (nth L heads 0%Z))) /\
  (forall d disk psi st cc, e2_CR d disk psi st cc <->
     (Z.of_N (fm_chunk_meta (wm_ck_hdr (rdm_ick st))) = cc_meta cc /\ wm_ck_offset (rdm_ick st) = psi (cc_off cc) /\
      e2_valid_pos disk (cc_off cc) /\
      (e2_cache_valid d cc ->
       (exists L, pc_kind (cc_index cc) = PyIndex L) /\
       py_find disk (cc_off cc) = Some (cc_index cc, Some (cc_summary cc)) /\
       exists pI pS, e2_pc_pay d psi (cc_index cc) pI /\ rdm_ilen st = rf_len pI /\ rp_take (rdm_ilen st) (rdm_ibuf st) = pI /\
                     rf_len pI <= JLS_BUF_DEFAULT_SIZE /\
                     e2_pc_pay d psi (cc_summary cc) pS /\ rdm_slen st = rf_len pS /\ rp_take (rdm_slen st) (rdm_sbuf st) = pS /\
                     rf_len pS <= JLS_BUF_DEFAULT_SIZE))).
Proof.
  split; [intros; reflexivity|]. split; [intros; reflexivity|]. split; [intros; reflexivity|]. split; [intros; reflexivity|].
  split; [intros; reflexivity|]. split; [intros; reflexivity|]. split; [intros; reflexivity|]. split; [intros; reflexivity|].
  split; [intros; reflexivity|].
  split. { intros. split; [intros [A B C D E F G H I J K]; repeat (split; [assumption|]); exact K
                          |intros (A & B & C & D & E & F & G & H & I & J & K); constructor; assumption]. }
  intros. split; [intros [A B C D]; repeat (split; [assumption|]); exact D|intros (A & B & C & D); constructor; assumption].
Qed.

Theorem e2m_vocabulary_env : forall f d disk heads psi T0 Ktop, e2_env f d disk heads psi T0 Ktop <->
  (sg_id d < 256 /\ 0 < dt_bits (sg_dtype d) < 65536 /\ py_div_ok (rf_pd d) = true /\ (1 <= py_sumdf (rf_pd d))%Z /\
   psi 0%Z = 0 /\ Forall (e2_pc_ok f d psi) disk /\ NoDup (map pc_off disk) /\
   (forall pc L e, In pc disk -> pc_kind pc = PyIndex L -> In e (pc_entries pc) -> e = 0%Z \/ exists c, In c disk /\ pc_off c = e) /\
   (forall L, nth L heads 0%Z = 0%Z \/ exists c, In c disk /\ pc_off c = nth L heads 0%Z) /\
   (forall pc nx L, py_find disk (pc_off pc) = Some (pc, Some nx) -> pc_kind pc = PyIndex L ->
      psi (pc_off nx) = psi (pc_off pc) + fm_chunk_size (SIZEOF_payload_header + 8 * Z.to_N (pc_count pc))) /\
   (forall L, (Ktop < L)%nat -> nth L heads 0%Z = 0%Z) /\
   (forall k, (1 <= k <= Ktop)%nat -> (0 < py_step (rf_pd d) k < rdm_two63)%Z) /\
   (- e2_tsb <= T0 < e2_tsb)%Z /\
   (forall L c, (1 <= L)%nat -> In c disk -> pc_off c = nth L heads 0%Z -> pc_kind c = PyIndex L) /\
   (forall pc L e c, In pc disk -> pc_kind pc = PyIndex (S (S L)) -> In e (pc_entries pc) -> In c disk -> pc_off c = e ->
      pc_kind c = PyIndex (S L)) /\
   (forall pc L, In pc disk -> pc_kind pc = PyIndex L -> (1 <= pc_count pc)%Z) /\
   py_sample_id_offset disk heads = T0 /\
   (forall pc nx L, py_find disk (pc_off pc) = Some (pc, Some nx) -> pc_kind pc = PyIndex L -> (- e2_tsb <= pc_ts nx < e2_tsb)%Z) /\
   (forall pc e c, In pc disk -> pc_kind pc = PyIndex 1 -> In e (pc_entries pc) -> In c disk -> pc_off c = e -> pc_kind c = PyData) /\
   (forall c, In c disk -> pc_off c = nth 0 heads 0%Z -> pc_kind c = PyData)).
Proof.
  intros. split.
  - intros [A1 A2 A3 A4 A5 A6 A7 A8 A9 A10 A11 A12 A13 A14 A15 A16 A17 A18 A19 A20]. repeat (split; [assumption|]). exact A20.
  - intros (A1 & A2 & A3 & A4 & A5 & A6 & A7 & A8 & A9 & A10 & A11 & A12 & A13 & A14 & A15 & A16 & A17 & A18 & A19 & A20).
    constructor; assumption.
Qed.

(* E2eDisk.e2d_env, written out (the section of E2eDisk closed) *)
Theorem e2m_disk_in_file : forall (f : list N) (d : sigdef) (pos0 t0 : Z) (cs : list rf_chunk) (blks : list (list N)) (st : py_wr)
    (pb : list (Z * bool)) (T : nat),
  py_consistent (rf_pd d) -> PyramidProofs.FinInv (rf_pd d) t0 st pb T ->
  Forall2 (rf_chunk_rel d pos0 t0 (map rc_off cs) blks) cs (pw_disk st) ->
  Forall (fun c => exists h, e2_chunk_at f (rc_off c) h (rc_pay c) /\ fm_tag h = rc_tag c /\ fm_chunk_meta h = rc_meta c) cs ->
  Forall (fun c => fm_disk_len (rf_len (rc_pay c)) <= JLS_BUF_DEFAULT_SIZE) cs ->
  rf_len f < rp_two63 ->
  (forall i c c', nth_error cs i = Some c -> rc_tag c = JLS_TAG_TRACK_FSR_INDEX -> nth_error cs (S i) = Some c' ->
     rc_off c' = rc_off c + fm_chunk_size (rf_len (rc_pay c))) ->
  sg_id d < 256 -> 0 < dt_bits (sg_dtype d) -> sg_spd d < 4294967296 ->
  (- e2_tsb <= t0)%Z /\ (t0 + Z.of_nat (length pb) * py_spd (rf_pd d) <= e2_tsb)%Z ->
  (forall k, (1 <= k <= T)%nat -> (py_step (rf_pd d) k < rdm_two63)%Z) ->
  e2_env f d (pw_disk st) (pw_heads st) (rf_psi (map rc_off cs) pos0) t0 T.
Proof. exact E2eDisk.e2d_env. Qed.
