(* C10, part 4: the synchronous writer API (WriterModel.v) never faults - the state invariant between API
   calls, its preservation by every call, jls_wr_open and jls_wr_close, and the main theorem sf_writer_never_faults.

   Guards of the main theorem (both are modelling limits, see Properties_C10.v):
     - fewer than 10^15 API calls (an annotation / UTC index pyramid that needs level 16);
     - all sample ids of jls_wr_fsr calls lie in one window of 10^15 samples (an FSR summary pyramid that needs
       level 16: the C would index self->level[16]).
   Every top-level name starts with sf_. *)
From Coq Require Import NArith ZArith List Bool Lia Arith.
From Coq Require Import ZifyBool ZifyN ZifyNat.
From JLS Require Import Generated CrcDefs Spec Format FormatProofs WmRaw WmCore WmTs WmFsr WriterModel WmProofs
                        SafeProofs SafeProofs2 SafeProofs3.
Import ListNotations.
Local Open Scope N_scope.
Ltac Zify.zify_post_hook ::= Z.div_mod_to_equations.

Local Opaque crc32c.

(* ================================================================ the aligned definition *)
Lemma sf_dt_bits_arith : forall dt, dt_bits dt = (dt / 256) mod 256.
Proof.
  intro dt. unfold dt_bits. change 255 with (N.ones 8). rewrite N.land_ones, N.shiftr_div_pow2. reflexivity.
Qed.

Lemma sf_dt_valid_bits : forall dt, wm_dt_valid dt = true ->
  let w := dt_bits dt in w = 1 \/ w = 4 \/ w = 8 \/ w = 16 \/ w = 24 \/ w = 32 \/ w = 64.
Proof.
  intros dt H. cbv zeta. unfold wm_dt_valid in H. apply andb_true_iff in H. destruct H as [H _].
  apply existsb_exists in H. destruct H as (c & Hin & Heq). apply N.eqb_eq in Heq.
  rewrite sf_dt_bits_arith.
  assert (Hk : N.land dt 65535 = dt mod 65536) by (change 65535 with (N.ones 16); apply N.land_ones).
  rewrite Hk in Heq.
  unfold JLS_DATATYPE_I4, JLS_DATATYPE_I8, JLS_DATATYPE_I16, JLS_DATATYPE_I24, JLS_DATATYPE_I32, JLS_DATATYPE_I64,
         JLS_DATATYPE_U1, JLS_DATATYPE_U4, JLS_DATATYPE_U8, JLS_DATATYPE_U16, JLS_DATATYPE_U24, JLS_DATATYPE_U32,
         JLS_DATATYPE_U64, JLS_DATATYPE_F32, JLS_DATATYPE_F64 in Hin.
  cbn [In] in Hin.
  repeat (destruct Hin as [Hc|Hin]; [subst c; lia|]). destruct Hin.
Qed.

Lemma sf_dt_valid_wok : forall dt, wm_dt_valid dt = true -> sf_wok (dt_bits dt).
Proof.
  intros dt H. pose proof (sf_dt_valid_bits dt H) as Hw. cbv zeta in Hw. unfold sf_wok.
  destruct Hw as [Hw|[Hw|[Hw|[Hw|[Hw|[Hw|Hw]]]]]]; rewrite Hw; (split; [lia|]; split; [|lia]); try (left; lia); right; reflexivity.
Qed.

Lemma sf_fit_epd_pos : forall fuel eps epd, 1 <= wm_fit_epd fuel eps epd.
Proof.
  induction fuel as [|f IH]; intros eps epd; cbn [wm_fit_epd]; [lia|].
  destruct (epd =? 0) eqn:E0; [lia|]. apply N.eqb_neq in E0. destruct (eps mod epd =? 0); [lia | apply IH].
Qed.

Lemma sf_round_up_ge : forall x m r, 0 < m -> wm_round_up x m = Some r -> x <= r.
Proof.
  intros x m r Hm H. unfold wm_round_up in H.
  destruct (wm_u32_max <? (x + m - 1) / m * m); inversion H; subst r.
  pose proof (N.div_mod (x + m - 1) m ltac:(lia)) as Hdm. pose proof (N.mod_lt (x + m - 1) m ltac:(lia)) as Hlt.
  rewrite (N.mul_comm ((x + m - 1) / m) m). lia.
Qed.

Lemma sf_align_ok : forall d0 d, wm_dt_valid (sg_dtype d0) = true -> wm_sig_align d0 = Some d ->
  sf_def_ok d /\ sg_dtype d = sg_dtype d0 /\ sg_id d = sg_id d0 /\ sg_type d = sg_type d0.
Proof.
  intros d0 d Hv H. pose proof (sf_dt_valid_wok _ Hv) as Hwok. pose proof (sf_dt_valid_bits _ Hv) as Hw. cbv zeta in Hw.
  unfold wm_sig_align in H. set (w := dt_bits (sg_dtype d0)) in *.
  assert (Hdef : wm_has_defaults w = true).
  { unfold wm_has_defaults. destruct Hw as [Hw|[Hw|[Hw|[Hw|[Hw|[Hw|Hw]]]]]]; rewrite Hw; reflexivity. }
  rewrite Hdef in H.
  set (mult := if w =? 24 then 32 else SAMPLE_SIZE_BYTES_MAX * 8 / w) in H.
  assert (Hmult : 0 < mult).
  { subst mult. unfold SAMPLE_SIZE_BYTES_MAX. destruct Hw as [Hw|[Hw|[Hw|[Hw|[Hw|[Hw|Hw]]]]]]; rewrite Hw; reflexivity. }
  destruct (wm_round_up (N.max (wm_dflt w (sg_sdf d0) (wm_default_of w 1)) SAMPLE_DECIMATE_FACTOR_MIN) mult) as [sdf|] eqn:E1; [|discriminate].
  destruct (wm_round_up (N.max (wm_dflt w (sg_eps d0) (wm_default_of w 2)) ENTRIES_PER_SUMMARY_MIN)
                        (N.max (wm_dflt w (sg_sumdf d0) (wm_default_of w 3)) SUMMARY_DECIMATE_FACTOR_MIN)) as [eps|] eqn:E2; [|discriminate].
  destruct (wm_round_up (N.max (wm_dflt w (sg_spd d0) (wm_default_of w 0)) SAMPLES_PER_DATA_MIN) sdf) as [spd2|] eqn:E3; [|discriminate].
  cbv zeta in H.
  match type of H with (if ?c then _ else _) = _ => destruct c end; [discriminate|].
  match type of H with (if ?c then _ else _) = _ => destruct c end; [discriminate|].
  inversion H; subst d; clear H.
  pose proof (sf_round_up_ge _ _ _ Hmult E1) as Hsdf. unfold SAMPLE_DECIMATE_FACTOR_MIN in Hsdf.
  split; [|repeat split].
  unfold sf_def_ok. cbn [sg_sdf sg_sumdf sg_spd sg_adf sg_udf sg_dtype].
  split; [lia|]. split; [unfold SUMMARY_DECIMATE_FACTOR_MIN; lia|].
  split.
  { match goal with |- 1 <= sdf * ?e => pose proof (sf_fit_epd_pos (N.to_nat (N.min (spd2 / sdf) eps)) eps (N.min (spd2 / sdf) eps)) as He; set (epd := e) in * end.
    change (1 <= epd) in He. nia. }
  split; [unfold SUMMARY_DECIMATE_FACTOR_MIN; lia|]. split; [unfold SUMMARY_DECIMATE_FACTOR_MIN; lia|]. exact Hwok.
Qed.

(* ================================================================ the state invariant *)
Definition sf_B : Z := 1000000000000000%Z.      (* 10^15: window of sample ids *)
Definition sf_K : N := 1000000000000000.         (* 10^15: number of API calls *)

Lemma sf_lim_ge : forall d, sf_def_ok d -> sf_K <= sf_lim d.
Proof.
  intros d (H1 & H2 & _). unfold sf_lim, sf_K.
  assert (H14 : 10 ^ 14 <= sg_sumdf d ^ 14) by (apply N.pow_le_mono_l; exact H2).
  change 1000000000000000 with (10 * 10 ^ 14). apply N.mul_le_mono; assumption.
Qed.

Lemma sf_pow15_ge : forall dec, 10 <= dec -> sf_K <= dec ^ 15.
Proof. intros dec H. change sf_K with (10 ^ 15). apply N.pow_le_mono_l. exact H. Qed.

Definition sf_sig_ok (dsk : list (N * fm_chunk_header)) (lo : Z) (k : N) (s : wm_signal) : Prop :=
  sf_def_ok (wm_sg_def s) /\
  sf_tk dsk (wm_sg_tk_fsr s) /\ wm_get_off (wm_tk_offsets (wm_sg_tk_fsr s)) 15 = 0 /\
  sf_tk dsk (wm_sg_tk_vsr s) /\ sf_tk dsk (wm_sg_tk_anno s) /\ sf_tk dsk (wm_sg_tk_utc s) /\
  (forall f, wm_sg_fsr s = Some f ->
     sf_fsr_inv (wm_sg_def s) f /\ (wm_f_alloc f = true -> (lo <= wm_f_sid0 f /\ sf_pos f < lo + sf_B)%Z)) /\
  (forall ts, wm_sg_anno s = Some ts -> sf_ts_ok ts /\ 10 <= wm_ts_dec ts /\ sf_ts_w ts 1 <= wm_ts_dec ts * k) /\
  (forall ts, wm_sg_utc s = Some ts -> sf_ts_ok ts /\ 10 <= wm_ts_dec ts /\ sf_ts_w ts 1 <= wm_ts_dec ts * k).

(* the tracks a call may use are open (true until jls_wr_close) *)
Definition sf_sig_open (s : wm_signal) : Prop :=
  wm_sg_anno s <> None /\
  (sg_type (wm_sg_def s) = JLS_SIGNAL_TYPE_FSR -> wm_sg_fsr s <> None /\ wm_sg_utc s <> None).

Definition sf_st_ok (lo : Z) (k : N) (st : wm_state) : Prop :=
  sf_base_ok (wm_st_base st) /\ Forall (sf_sig_ok (sf_bdisk (wm_st_base st)) lo k) (wm_st_sigs st).
Definition sf_st_open (st : wm_state) : Prop := Forall sf_sig_open (wm_st_sigs st).

Lemma sf_sig_ok_mono : forall dsk dsk' lo k k' s, incl dsk dsk' -> k <= k' -> sf_sig_ok dsk lo k s -> sf_sig_ok dsk' lo k' s.
Proof.
  intros dsk dsk' lo k k' s Hi Hk (H1 & H2 & H3 & H4 & H5 & H6 & H7 & H8 & H9).
  split; [exact H1|]. split; [eapply sf_tk_incl; eassumption|]. split; [exact H3|].
  split; [eapply sf_tk_incl; eassumption|]. split; [eapply sf_tk_incl; eassumption|]. split; [eapply sf_tk_incl; eassumption|].
  split; [exact H7|].
  split; intros ts Hts; [destruct (H8 ts Hts) as (A & B & C) | destruct (H9 ts Hts) as (A & B & C)];
    (split; [exact A|]; split; [exact B|]; eapply N.le_trans; [exact C | apply N.mul_le_mono_l; exact Hk]).
Qed.

Lemma sf_Forall_sig_mono : forall dsk dsk' lo k k' l, incl dsk dsk' -> k <= k' ->
  Forall (sf_sig_ok dsk lo k) l -> Forall (sf_sig_ok dsk' lo k') l.
Proof. intros. eapply Forall_impl; [|eassumption]. intros s Hs. eapply sf_sig_ok_mono; eassumption. Qed.

Lemma sf_find_sig_in : forall st id s, wm_find_sig st id = Some s -> In s (wm_st_sigs st) /\ wm_sig_id s = id.
Proof.
  intros st id s H. unfold wm_find_sig in H. apply find_some in H. destruct H as [Hin Heq]. apply N.eqb_eq in Heq. auto.
Qed.

Lemma sf_put_sig_Forall : forall (P : wm_signal -> Prop) st b s, Forall P (wm_st_sigs st) -> P s -> Forall P (wm_st_sigs (wm_put_sig st b s)).
Proof.
  intros P st b s Hf Hs. unfold wm_put_sig. cbn [wm_st_sigs]. apply Forall_forall. intros y Hy.
  apply in_map_iff in Hy. destruct Hy as (x & Hx & Hin). destruct (wm_sig_id x =? wm_sig_id s); subst y; [exact Hs|].
  rewrite Forall_forall in Hf. now apply Hf.
Qed.

(* a call that worked on signal s: new base b', new signal state s' *)
Lemma sf_put_sig_ok : forall lo k k' st b' s',
  sf_st_ok lo k st -> sf_base_ok b' -> sf_bext (wm_st_base st) b' -> k <= k' ->
  sf_sig_ok (sf_bdisk b') lo k' s' -> sf_st_ok lo k' (wm_put_sig st b' s').
Proof.
  intros lo k k' st b' s' [Hb Hs] Hb' He Hk Hs'. split; [exact Hb'|].
  change (sf_bdisk (wm_st_base (wm_put_sig st b' s'))) with (sf_bdisk b').
  apply sf_put_sig_Forall; [|exact Hs']. eapply sf_Forall_sig_mono; eassumption.
Qed.

Lemma sf_st_ok_base : forall lo k k' st b', sf_st_ok lo k st -> sf_base_ok b' -> sf_bext (wm_st_base st) b' -> k <= k' ->
  sf_st_ok lo k' {| wm_st_base := b'; wm_st_srcs := wm_st_srcs st; wm_st_sigs := wm_st_sigs st |}.
Proof.
  intros lo k k' st b' [Hb Hs] Hb' He Hk. split; [exact Hb'|]. cbn [wm_st_base wm_st_sigs]. eapply sf_Forall_sig_mono; eassumption.
Qed.

(* ================================================================ calls that only append to a global list *)
Lemma sf_base_append : forall b head prev tag meta plen payload r1 h1 r2 c,
  sf_base_ok b -> sf_ck (sf_bdisk b) head -> tag <> JLS_TAG_INVALID -> plen <= N.of_nat (length payload) ->
  wm_raw_wr (wm_b_raw b) (wm_mk_hdr prev tag meta plen) payload = (r1, h1) ->
  wm_update_item_head r1 head {| wm_ck_offset := wm_raw_chunk_tell (wm_b_raw b); wm_ck_hdr := h1 |} = (r2, c) ->
  sf_base_ok (wm_b_set_raw b r2) /\ sf_bext b (wm_b_set_raw b r2) /\ sf_ck (wm_disk r2) c.
Proof.
  intros. destruct (sf_core_append _ _ _ _ _ _ _ _ _ _ _ H H0 H1 H2 H3 H4) as (A & B & C & _). auto.
Qed.

Lemma sf_api_user_data_ok : forall lo k st u, sf_st_ok lo k st ->
  sf_st_ok lo k (fst (wm_api_user_data st u)) /\ wm_st_sigs (fst (wm_api_user_data st u)) = wm_st_sigs st.
Proof.
  intros lo k st u Hst. unfold wm_api_user_data.
  destruct (3 <? ud_stype u); [split; [exact Hst | reflexivity]|].
  set (data := if ud_stype u =? JLS_STORAGE_TYPE_INVALID then [] else if ud_stype u =? JLS_STORAGE_TYPE_BINARY then ud_data u else wm_cstr (ud_data u) ++ [0]).
  destruct (wm_raw_wr (wm_b_raw (wm_st_base st)) _ data) as [r1 h1] eqn:Ew.
  destruct (wm_update_item_head r1 (wm_b_ud_head (wm_st_base st)) _) as [r2 uh] eqn:Eu.
  cbn [fst]. pose proof Hst as [Hb Hs]. pose proof Hb as (_ & _ & _ & Hud).
  assert (Htag : JLS_TAG_USER_DATA <> JLS_TAG_INVALID) by discriminate.
  destruct (sf_base_append _ _ _ _ _ _ _ _ _ _ _ Hb Hud Htag (N.le_refl _) Ew Eu) as (Hb2 & He2 & Hc).
  split; [|reflexivity].
  unfold wm_st_set_base. apply (sf_st_ok_base lo k k st); [exact Hst | | | apply N.le_refl].
  - destruct Hb2 as (K0 & K1 & K2 & K3). unfold sf_base_ok, sf_bdisk in *.
    cbn [wm_b_set_ud_head wm_b_set_raw wm_b_raw wm_b_source_head wm_b_signal_head wm_b_ud_head] in *.
    split; [exact K0|]. split; [exact K1|]. split; [exact K2 | exact Hc].
  - exact He2.
Qed.

Lemma sf_api_source_def_ok : forall lo k st d, sf_st_ok lo k st ->
  sf_st_ok lo k (fst (wm_api_source_def st d)) /\ wm_st_sigs (fst (wm_api_source_def st d)) = wm_st_sigs st.
Proof.
  intros lo k st d Hst. unfold wm_api_source_def.
  destruct (JLS_SOURCE_COUNT <=? so_id d); [split; [exact Hst | reflexivity]|].
  destruct (existsb (N.eqb (so_id d)) (wm_st_srcs st)); [split; [exact Hst | reflexivity]|].
  match goal with |- context [if negb ?c then _ else _] => destruct c end; cbn [negb]; [|split; [exact Hst | reflexivity]].
  destruct (wm_raw_wr (wm_b_raw (wm_st_base st)) _ (wm_source_payload d)) as [r1 h1] eqn:Ew.
  destruct (wm_update_item_head r1 (wm_b_source_head (wm_st_base st)) _) as [r2 sh] eqn:Eu.
  cbn [fst]. pose proof Hst as [Hb Hs]. pose proof Hb as (_ & Hsrc & _ & _).
  assert (Htag : JLS_TAG_SOURCE_DEF <> JLS_TAG_INVALID) by discriminate.
  destruct (sf_base_append _ _ _ _ _ _ _ _ _ _ _ Hb Hsrc Htag (N.le_refl _) Ew Eu) as (Hb2 & He2 & Hc).
  split; [|reflexivity].
  destruct Hst as [_ Hsg]. split.
  - destruct Hb2 as (K0 & K1 & K2 & K3). unfold sf_base_ok, sf_bdisk in *.
    cbn [wm_st_base wm_b_set_source_head wm_b_set_raw wm_b_raw wm_b_source_head wm_b_signal_head wm_b_ud_head] in *.
    split; [exact K0|]. split; [exact Hc|]. split; [exact K2 | exact K3].
  - cbn [wm_st_base wm_st_sigs]. eapply sf_Forall_sig_mono; [exact He2 | apply N.le_refl | exact Hsg].
Qed.

Lemma sf_api_flush_ok : forall lo k st, sf_st_ok lo k st ->
  sf_st_ok lo k (fst (wm_api_flush st)) /\ wm_st_sigs (fst (wm_api_flush st)) = wm_st_sigs st.
Proof.
  intros lo k st Hst. unfold wm_api_flush. cbn [fst]. split; [|reflexivity].
  unfold wm_st_set_base. apply (sf_st_ok_base lo k k st); [exact Hst | | apply incl_refl | apply N.le_refl].
  destruct Hst as [(Hr & H1 & H2 & H3) _]. split; [|split; [exact H1|split; [exact H2 | exact H3]]].
  destruct Hr as (R1 & R2 & R3 & R4 & R5 & R6). unfold sf_raw_ok.
  cbn [wm_b_raw wm_b_set_raw wm_raw_flush wm_bk_fflush wm_log_add wm_fault wm_offset wm_fpos wm_fend wm_disk].
  do 5 (split; [assumption|]). assumption.
Qed.

(* ================================================================ jls_wr_signal_def *)
Lemma sf_def_track : forall b sid ty b' t, sf_base_ok b -> wm_def_track b sid ty = (b', t) ->
  sf_base_ok b' /\ sf_bext b b' /\ sf_tk (sf_bdisk b') t /\ wm_get_off (wm_tk_offsets t) 15 = 0.
Proof.
  intros b sid ty b' t Hb H. unfold wm_def_track in H.
  destruct (sf_track_wr_def b sid ty Hb) as [Hb1 He1].
  destruct (sf_track_wr_head _ _ _ _ _ Hb1 (sf_tk0 _ ty) H) as (K1 & K2 & K3 & K4 & _).
  split; [exact K1|]. split; [eapply sf_bext_trans; eassumption|]. split; [exact K3|]. rewrite K4. reflexivity.
Qed.

Lemma sf_in_skipn1 : forall (A : Type) (o : A) l, In o (skipn 1 l) -> In o l.
Proof. intros A o l H. rewrite <- (firstn_skipn 1 l). apply in_or_app. now right. Qed.

Lemma sf_ts_open_sig : forall dec k, 10 <= dec ->
  sf_ts_ok (wm_ts_open dec) /\ 10 <= wm_ts_dec (wm_ts_open dec) /\ sf_ts_w (wm_ts_open dec) 1 <= wm_ts_dec (wm_ts_open dec) * k.
Proof.
  intros dec k H. destruct (sf_ts_open_ok dec ltac:(lia)) as [A _]. split; [exact A|]. split; [exact H|].
  unfold sf_ts_w. cbn [wm_ts_open wm_ts_levels wm_ts_dec]. rewrite sf_lw_zero; [lia|].
  intros o Ho. apply sf_in_skipn1 in Ho. apply repeat_spec in Ho. subst. reflexivity.
Qed.

Lemma sf_fsr_open_inv : forall d, sf_fsr_inv d wm_fsr_open.
Proof.
  intro d. unfold sf_fsr_inv, wm_fsr_open. cbn [wm_f_alloc].
  split; [split; [reflexivity | apply Forall_forall; intros o Ho; apply repeat_spec in Ho; subst; exact I]|].
  split; [discriminate|]. intros _. unfold sf_f_w. cbn [wm_f_levels]. apply sf_lw_zero.
  intros o Ho. apply sf_in_skipn1 in Ho. apply repeat_spec in Ho. subst. reflexivity.
Qed.

Lemma sf_app_sig_ok : forall lo k st b' s,
  sf_st_ok lo k st -> sf_base_ok b' -> sf_bext (wm_st_base st) b' -> sf_sig_ok (sf_bdisk b') lo k s ->
  sf_st_ok lo k {| wm_st_base := b'; wm_st_srcs := wm_st_srcs st; wm_st_sigs := wm_st_sigs st ++ [s] |}.
Proof.
  intros lo k st b' s [Hb Hs] Hb' He Hs'. split; [exact Hb'|]. cbn [wm_st_base wm_st_sigs].
  apply Forall_app. split; [eapply sf_Forall_sig_mono; [exact He | apply N.le_refl | exact Hs] | constructor; [exact Hs' | constructor]].
Qed.

Lemma sf_api_signal_def_ok : forall lo k st d0, sf_st_ok lo k st -> sf_st_open st ->
  sf_st_ok lo k (fst (wm_api_signal_def st d0)) /\ sf_st_open (fst (wm_api_signal_def st d0)).
Proof.
  intros lo k st d0 Hst Hop. unfold wm_api_signal_def.
  destruct (JLS_SIGNAL_COUNT <=? sg_id d0); [split; assumption|].
  destruct (JLS_SOURCE_COUNT <=? sg_src d0); [split; assumption|].
  destruct (negb (existsb (N.eqb (sg_src d0)) (wm_st_srcs st))); [split; assumption|].
  destruct (wm_find_sig st (sg_id d0)); [split; assumption|].
  destruct (negb ((sg_type d0 =? JLS_SIGNAL_TYPE_FSR) || (sg_type d0 =? JLS_SIGNAL_TYPE_VSR))); [split; assumption|].
  destruct (negb (wm_str_fits (sg_name d0) && wm_str_fits (sg_units d0))); [split; assumption|].
  destruct (negb (wm_dt_valid (sg_dtype d0))) eqn:Edt; [split; assumption|]. apply negb_false_iff in Edt.
  destruct (wm_sig_align d0) as [d|] eqn:Eal; [|split; assumption].
  destruct (sf_align_ok d0 d Edt Eal) as (Hd & _).
  destruct ((sg_type d =? JLS_SIGNAL_TYPE_FSR) && (sg_rate d =? 0)); [split; assumption|].
  destruct (wm_raw_wr (wm_b_raw (wm_st_base st)) _ (wm_signal_payload d)) as [r1 h1] eqn:Ew.
  destruct (wm_update_item_head r1 (wm_b_signal_head (wm_st_base st)) _) as [r2 sh] eqn:Eu.
  pose proof Hst as [Hb Hs]. pose proof Hb as (_ & _ & Hsg & _).
  assert (Htag : JLS_TAG_SIGNAL_DEF <> JLS_TAG_INVALID) by discriminate.
  destruct (sf_base_append _ _ _ _ _ _ _ _ _ _ _ Hb Hsg Htag (N.le_refl _) Ew Eu) as (Hb2 & He2 & Hc).
  set (b1 := wm_b_set_signal_head (wm_b_set_raw (wm_st_base st) r2) sh).
  assert (Hb1 : sf_base_ok b1 /\ sf_bext (wm_st_base st) b1).
  { split; [|exact He2]. destruct Hb2 as (K0 & K1 & K2 & K3). unfold sf_base_ok, sf_bdisk, b1 in *.
    cbn [wm_b_set_signal_head wm_b_set_raw wm_b_raw wm_b_source_head wm_b_signal_head wm_b_ud_head] in *.
    split; [exact K0|]. split; [exact K1|]. split; [exact Hc | exact K3]. }
  destruct Hb1 as [Hb1 He1].
  assert (Hadf : 2 <= sg_adf d /\ 10 <= sg_adf d) by (destruct Hd as (_ & _ & _ & A & _); lia).
  assert (Hudf : 2 <= sg_udf d /\ 10 <= sg_udf d) by (destruct Hd as (_ & _ & _ & _ & A & _); lia).
  destruct (sg_type d =? JLS_SIGNAL_TYPE_FSR) eqn:Ety.
  - destruct (wm_def_track b1 (sg_id d) JLS_TRACK_TYPE_FSR) as [b2 tf] eqn:E2.
    destruct (wm_def_track b2 (sg_id d) JLS_TRACK_TYPE_ANNOTATION) as [b3 ta] eqn:E3.
    destruct (wm_def_track b3 (sg_id d) JLS_TRACK_TYPE_UTC) as [b4 tu] eqn:E4.
    destruct (sf_def_track _ _ _ _ _ Hb1 E2) as (B2 & X2 & T2 & O2).
    destruct (sf_def_track _ _ _ _ _ B2 E3) as (B3 & X3 & T3 & _).
    destruct (sf_def_track _ _ _ _ _ B3 E4) as (B4 & X4 & T4 & _).
    cbn [fst]. split.
    + apply sf_app_sig_ok; [exact Hst | exact B4 | |].
      * eapply sf_bext_trans; [exact He1|]. eapply sf_bext_trans; [exact X2|]. eapply sf_bext_trans; eassumption.
      * unfold sf_sig_ok. cbn [wm_sg_def wm_sg_tk_fsr wm_sg_tk_vsr wm_sg_tk_anno wm_sg_tk_utc wm_sg_fsr wm_sg_anno wm_sg_utc].
        split; [exact Hd|]. split; [eapply sf_tk_incl; [|exact T2]; eapply sf_bext_trans; eassumption|]. split; [exact O2|].
        split; [apply sf_tk0|]. split; [eapply sf_tk_incl; [exact X4 | exact T3]|]. split; [exact T4|].
        split; [intros f Hf; inversion Hf; subst f; split; [apply sf_fsr_open_inv | discriminate]|].
        split; intros ts Hts; inversion Hts; subst ts.
        -- apply sf_ts_open_sig. exact (proj2 Hadf).
        -- apply sf_ts_open_sig. exact (proj2 Hudf).
    + unfold sf_st_open. cbn [wm_st_sigs]. apply Forall_app. split; [exact Hop|]. constructor; [|constructor].
      unfold sf_sig_open. cbn [wm_sg_def wm_sg_fsr wm_sg_anno wm_sg_utc]. split; [discriminate|]. intros _. split; discriminate.
  - destruct (wm_def_track b1 (sg_id d) JLS_TRACK_TYPE_VSR) as [b2 tv] eqn:E2.
    destruct (wm_def_track b2 (sg_id d) JLS_TRACK_TYPE_ANNOTATION) as [b3 ta] eqn:E3.
    destruct (sf_def_track _ _ _ _ _ Hb1 E2) as (B2 & X2 & T2 & _).
    destruct (sf_def_track _ _ _ _ _ B2 E3) as (B3 & X3 & T3 & _).
    cbn [fst]. split.
    + apply sf_app_sig_ok; [exact Hst | exact B3 | |].
      * eapply sf_bext_trans; [exact He1|]. eapply sf_bext_trans; eassumption.
      * unfold sf_sig_ok. cbn [wm_sg_def wm_sg_tk_fsr wm_sg_tk_vsr wm_sg_tk_anno wm_sg_tk_utc wm_sg_fsr wm_sg_anno wm_sg_utc].
        split; [exact Hd|]. split; [apply sf_tk0|]. split; [reflexivity|].
        split; [eapply sf_tk_incl; [exact X3 | exact T2]|]. split; [exact T3|]. split; [apply sf_tk0|].
        split; [intros f Hf; discriminate|].
        split; intros ts Hts; [|discriminate]. inversion Hts; subst ts.
        apply sf_ts_open_sig. exact (proj2 Hadf).
    + unfold sf_st_open. cbn [wm_st_sigs]. apply Forall_app. split; [exact Hop|]. constructor; [|constructor].
      unfold sf_sig_open. cbn [wm_sg_def wm_sg_fsr wm_sg_anno wm_sg_utc]. split; [discriminate|].
      intro Hty. apply N.eqb_neq in Ety. congruence.
Qed.

(* ================================================================ the common part of jls_wr_annotation / jls_wr_utc *)
Lemma sf_ts_data_append : forall b t ts sid prev tag meta plen payload timestamp entry k r1 h1 r2 dh b1 t1,
  sf_base_ok b -> sf_tk (sf_bdisk b) t -> sf_ts_ok ts -> 10 <= wm_ts_dec ts -> sf_ts_w ts 1 <= wm_ts_dec ts * k -> k + 1 < sf_K ->
  tag <> JLS_TAG_INVALID -> plen <= N.of_nat (length payload) -> length entry = 16%nat ->
  wm_raw_wr (wm_b_raw b) (wm_mk_hdr prev tag meta plen) payload = (r1, h1) ->
  wm_update_item_head r1 (wm_tk_data_head t) {| wm_ck_offset := wm_raw_chunk_tell (wm_b_raw b); wm_ck_hdr := h1 |} = (r2, dh) ->
  wm_track_update (wm_b_set_raw b r2) sid (wm_tk_set_data_head t dh) 0 (wm_raw_chunk_tell (wm_b_raw b)) = (b1, t1) ->
  let x := wm_ts_add sid {| wm_tx_base := b1; wm_tx_tk := t1; wm_tx_ts := ts |} timestamp (wm_raw_chunk_tell (wm_b_raw b)) entry in
  sf_base_ok (wm_tx_base x) /\ sf_bext b (wm_tx_base x) /\ sf_tk (sf_bdisk (wm_tx_base x)) (wm_tx_tk x) /\
  sf_ts_ok (wm_tx_ts x) /\ 10 <= wm_ts_dec (wm_tx_ts x) /\ sf_ts_w (wm_tx_ts x) 1 <= wm_ts_dec (wm_tx_ts x) * (k + 1).
Proof.
  intros b t ts sid prev tag meta plen payload timestamp entry k r1 h1 r2 dh b1 t1 Hb Ht Hts Hdec Hw Hk Htag Hlen He Ew Eu Et.
  pose proof Ht as (T1 & T2 & T3 & T4 & T5 & T6).
  destruct (sf_core_append _ _ _ _ _ _ _ _ _ _ _ Hb T3 Htag Hlen Ew Eu) as (Hb2 & He2 & Hc & _).
  pose proof (sf_tk_incl _ _ _ He2 Ht) as (U1 & U2 & U3 & U4 & U5 & U6).
  assert (Ht1 : sf_tk (sf_bdisk (wm_b_set_raw b r2)) (wm_tk_set_data_head t dh)).
  { unfold sf_tk, sf_bdisk. cbn [wm_b_set_raw wm_b_raw wm_tk_set_data_head wm_tk_head wm_tk_data_head wm_tk_index_head wm_tk_summary_head wm_tk_offsets].
    split; [exact U1|]. split; [exact U2|]. split; [exact Hc|]. split; [exact U4|]. split; [exact U5 | exact U6]. }
  destruct (sf_track_update _ _ _ _ _ _ _ Hb2 Ht1 Et) as (Hb3 & He3 & Ht3 & _).
  set (x0 := {| wm_tx_base := b1; wm_tx_tk := t1; wm_tx_ts := ts |}).
  assert (Hx0 : sf_tx_ok x0) by (split; [exact Hb3|]; split; [exact Ht3 | exact Hts]).
  set (dec := wm_ts_dec ts) in *.
  assert (Hpre : sf_ts_w (wm_tx_ts x0) 1 + wm_ts_dec (wm_tx_ts x0) < wm_ts_dec (wm_tx_ts x0) ^ 16).
  { cbn [x0 wm_tx_ts]. fold dec. pose proof (sf_pow15_ge dec Hdec) as Hp.
    change 16 with (N.succ 15). rewrite N.pow_succ_r'. set (P := dec ^ 15) in *. nia. }
  destruct (sf_ts_add_spec sid x0 timestamp (wm_raw_chunk_tell (wm_b_raw b)) entry Hx0 He Hpre) as (K1 & K2 & K3 & K4).
  cbv zeta in K1, K2, K3, K4 |- *. cbn [x0 wm_tx_base wm_tx_ts] in K2, K3, K4. fold dec in K3, K4.
  destruct K1 as (A1 & A2 & A3).
  split; [exact A1|]. split; [eapply sf_bext_trans; [exact He2|]; eapply sf_bext_trans; eassumption|].
  split; [exact A2|]. split; [exact A3|]. rewrite K3. split; [exact Hdec|]. nia.
Qed.

Lemma sf_anno_entry_length : forall ts ty g y, length (wm_anno_summary_entry ts ty g y) = 16%nat.
Proof.
  intros. unfold wm_anno_summary_entry. rewrite !app_length, fm_enc_i64_length. unfold fm_enc_u8, fm_enc_u32. rewrite !fm_enc_length. reflexivity.
Qed.
Lemma sf_utc_entry_length : forall a b, length (wm_utc_summary_entry a b) = 16%nat.
Proof. intros. unfold wm_utc_summary_entry. rewrite app_length, !fm_enc_i64_length. reflexivity. Qed.
Lemma sf_utc_payload_length : forall a b, SIZEOF_utc_data <= N.of_nat (length (wm_utc_payload a b)).
Proof. intros. unfold wm_utc_payload. rewrite app_length, sf_payload_header_length, fm_enc_i64_length. cbv. discriminate. Qed.

(* the three results of jls_core_signal_validate(_typed) *)
Lemma sf_validate_some : forall st sig s, wm_signal_validate st sig = (0, Some s) -> In s (wm_st_sigs st).
Proof.
  intros st sig s H. unfold wm_signal_validate in H. destruct (JLS_SIGNAL_COUNT <=? sig); [discriminate|].
  destruct (wm_find_sig st sig) as [s'|] eqn:E; [|discriminate]. inversion H; subst s'. apply (sf_find_sig_in _ _ _ E).
Qed.
Lemma sf_validate_typed_some : forall st sig ty s, wm_signal_validate_typed st sig ty = (0, Some s) ->
  In s (wm_st_sigs st) /\ sg_type (wm_sg_def s) = ty.
Proof.
  intros st sig ty s H. unfold wm_signal_validate_typed in H.
  destruct (wm_signal_validate st sig) as [rc os] eqn:E.
  destruct rc as [|p]; [|destruct os; inversion H].
  destruct os as [s'|]; [|inversion H].
  destruct (sg_type (wm_sg_def s') =? ty) eqn:Et; [|inversion H].
  inversion H; subst s'. split; [apply (sf_validate_some _ _ _ E) | apply N.eqb_eq; exact Et].
Qed.

Lemma sf_In_sig_ok : forall lo k st s, sf_st_ok lo k st -> In s (wm_st_sigs st) -> sf_sig_ok (sf_bdisk (wm_st_base st)) lo k s.
Proof. intros lo k st s [_ H] Hin. rewrite Forall_forall in H. now apply H. Qed.
Lemma sf_In_sig_open : forall st s, sf_st_open st -> In s (wm_st_sigs st) -> sf_sig_open s.
Proof. intros st s H Hin. unfold sf_st_open in H. rewrite Forall_forall in H. now apply H. Qed.

(* ================================================================ jls_wr_fsr_omit_data *)
Lemma sf_api_omit_ok : forall lo k st sig en, sf_st_ok lo k st -> sf_st_open st ->
  sf_st_ok lo k (fst (wm_api_fsr_omit_data st sig en)) /\ sf_st_open (fst (wm_api_fsr_omit_data st sig en)).
Proof.
  intros lo k st sig en Hst Hop. unfold wm_api_fsr_omit_data.
  destruct (wm_signal_validate_typed st sig JLS_SIGNAL_TYPE_FSR) as [rc os] eqn:Ev.
  destruct rc as [|p]; [|split; assumption]. destruct os as [s|]; [|split; assumption].
  destruct (sf_validate_typed_some _ _ _ _ Ev) as [Hin Hty].
  pose proof (sf_In_sig_ok _ _ _ _ Hst Hin) as Hs. destruct (sf_In_sig_open _ _ Hop Hin) as [Ho1 Ho2].
  destruct (Ho2 Hty) as [Hf Hu].
  destruct (wm_sg_fsr s) as [f|] eqn:Ef; [|congruence]. cbn [fst].
  set (s' := wm_sg_set_fsr s (wm_sg_tk_fsr s) (Some (wm_f_set_omit f (if en =? 0 then 0 else N.lor (wm_f_omit f) 1)))).
  split.
  - apply (sf_put_sig_ok lo k k st); [exact Hst | apply Hst | apply sf_bext_refl | apply N.le_refl |].
    destruct Hs as (H1 & H2 & H3 & H4 & H5 & H6 & H7 & H8 & H9).
    unfold sf_sig_ok, s'. cbn [wm_sg_set_fsr wm_sg_def wm_sg_tk_fsr wm_sg_tk_vsr wm_sg_tk_anno wm_sg_tk_utc wm_sg_fsr wm_sg_anno wm_sg_utc].
    do 6 (split; [assumption|]). split; [|split; assumption].
    intros f' Hf'. inversion Hf'; subst f'. destruct (H7 f Ef) as [A B]. split; [exact A | exact B].
  - apply sf_put_sig_Forall; [exact Hop|]. unfold sf_sig_open, s'. cbn [wm_sg_set_fsr wm_sg_def wm_sg_fsr wm_sg_anno wm_sg_utc].
    split; [exact Ho1|]. intros _. split; [discriminate | exact Hu].
Qed.

(* ================================================================ jls_wr_annotation *)
Lemma sf_api_annotation_ok : forall lo k st sig a, sf_st_ok lo k st -> sf_st_open st -> k + 1 < sf_K ->
  sf_st_ok lo (k + 1) (fst (wm_api_annotation st sig a)) /\ sf_st_open (fst (wm_api_annotation st sig a)).
Proof.
  intros lo k st sig a Hst Hop Hk.
  assert (Hkeep : sf_st_ok lo (k + 1) st).
  { destruct Hst as [Hb Hs]. split; [exact Hb|]. eapply sf_Forall_sig_mono; [apply incl_refl | | exact Hs]. lia. }
  unfold wm_api_annotation.
  destruct (wm_signal_validate st sig) as [rc os] eqn:Ev.
  destruct rc as [|p]; [|split; assumption]. destruct os as [s|]; [|split; assumption].
  pose proof (sf_validate_some _ _ _ Ev) as Hin.
  pose proof (sf_In_sig_ok _ _ _ _ Hst Hin) as Hs. destruct (sf_In_sig_open _ _ Hop Hin) as [Ho1 Ho2].
  destruct (256 <=? an_type a); [split; assumption|].
  destruct (256 <=? an_stype a); [split; assumption|].
  destruct (negb ((1 <=? an_stype a) && (an_stype a <=? 3))); [split; assumption|].
  destruct (wm_sg_anno s) as [ts|] eqn:Ea; [|congruence].
  destruct (wm_raw_wr (wm_b_raw (wm_st_base st)) _ (wm_anno_payload a)) as [r1 h1] eqn:Ew.
  destruct (wm_update_item_head r1 (wm_tk_data_head (wm_sg_tk_anno s)) _) as [r2 dh] eqn:Eu.
  destruct (wm_track_update (wm_b_set_raw (wm_st_base st) r2) sig (wm_tk_set_data_head (wm_sg_tk_anno s) dh) 0 _) as [b1 t1] eqn:Et.
  destruct Hs as (H1 & H2 & H3 & H4 & H5 & H6 & H7 & H8 & H9). destruct (H8 ts Ea) as (A1 & A2 & A3).
  assert (Htag : JLS_TAG_TRACK_ANNOTATION_DATA <> JLS_TAG_INVALID) by discriminate.
  pose proof (sf_ts_data_append (wm_st_base st) (wm_sg_tk_anno s) ts sig _ _ _ _ (wm_anno_payload a) (an_ts a)
                (wm_anno_summary_entry (an_ts a) (an_type a) (an_group a) (an_y a)) k r1 h1 r2 dh b1 t1
                (proj1 Hst) H5 A1 A2 A3 Hk Htag (N.le_refl _) (sf_anno_entry_length _ _ _ _) Ew Eu Et) as K.
  cbv zeta in K. cbn [fst].
  match goal with |- context [wm_ts_add ?a1 ?a2 ?a3 ?a4 ?a5] => set (x := wm_ts_add a1 a2 a3 a4 a5) in * end.
  destruct K as (K1 & K2 & K3 & K4 & K5 & K6).
  split.
  - apply (sf_put_sig_ok lo k (k + 1) st); [exact Hst | exact K1 | exact K2 | lia |].
    unfold sf_sig_ok. cbn [wm_sg_set_anno wm_sg_def wm_sg_tk_fsr wm_sg_tk_vsr wm_sg_tk_anno wm_sg_tk_utc wm_sg_fsr wm_sg_anno wm_sg_utc].
    split; [exact H1|]. split; [eapply sf_tk_incl; eassumption|]. split; [exact H3|]. split; [eapply sf_tk_incl; eassumption|].
    split; [exact K3|]. split; [eapply sf_tk_incl; eassumption|]. split; [exact H7|].
    split.
    + intros ts' Hts'. inversion Hts'; subst ts'. split; [exact K4|]. split; [exact K5 | exact K6].
    + intros ts' Hts'. destruct (H9 ts' Hts') as (B1 & B2 & B3). split; [exact B1|]. split; [exact B2|]. nia.
  - apply sf_put_sig_Forall; [exact Hop|]. unfold sf_sig_open. cbn [wm_sg_set_anno wm_sg_def wm_sg_fsr wm_sg_anno wm_sg_utc].
    split; [discriminate | exact Ho2].
Qed.

(* ================================================================ jls_wr_utc *)
Lemma sf_api_utc_ok : forall lo k st sig sample_id utc, sf_st_ok lo k st -> sf_st_open st -> k + 1 < sf_K ->
  sf_st_ok lo (k + 1) (fst (wm_api_utc st sig sample_id utc)) /\ sf_st_open (fst (wm_api_utc st sig sample_id utc)).
Proof.
  intros lo k st sig sample_id utc Hst Hop Hk.
  assert (Hkeep : sf_st_ok lo (k + 1) st).
  { destruct Hst as [Hb Hs]. split; [exact Hb|]. eapply sf_Forall_sig_mono; [apply incl_refl | | exact Hs]. lia. }
  unfold wm_api_utc.
  destruct (wm_signal_validate_typed st sig JLS_SIGNAL_TYPE_FSR) as [rc os] eqn:Ev.
  destruct rc as [|p]; [|split; assumption]. destruct os as [s|]; [|split; assumption].
  destruct (sf_validate_typed_some _ _ _ _ Ev) as [Hin Hty].
  pose proof (sf_In_sig_ok _ _ _ _ Hst Hin) as Hs. destruct (sf_In_sig_open _ _ Hop Hin) as [Ho1 Ho2].
  destruct (Ho2 Hty) as [Hf Hu].
  destruct (wm_sg_utc s) as [ts|] eqn:Ea; [|congruence].
  destruct (wm_raw_wr (wm_b_raw (wm_st_base st)) _ (wm_utc_payload sample_id utc)) as [r1 h1] eqn:Ew.
  destruct (wm_update_item_head r1 (wm_tk_data_head (wm_sg_tk_utc s)) _) as [r2 dh] eqn:Eu.
  destruct (wm_track_update (wm_b_set_raw (wm_st_base st) r2) sig (wm_tk_set_data_head (wm_sg_tk_utc s) dh) 0 _) as [b1 t1] eqn:Et.
  destruct Hs as (H1 & H2 & H3 & H4 & H5 & H6 & H7 & H8 & H9). destruct (H9 ts Ea) as (A1 & A2 & A3).
  assert (Htag : JLS_TAG_TRACK_UTC_DATA <> JLS_TAG_INVALID) by discriminate.
  pose proof (sf_ts_data_append (wm_st_base st) (wm_sg_tk_utc s) ts sig _ _ _ _ (wm_utc_payload sample_id utc) sample_id
                (wm_utc_summary_entry sample_id utc) k r1 h1 r2 dh b1 t1
                (proj1 Hst) H6 A1 A2 A3 Hk Htag (sf_utc_payload_length _ _) (sf_utc_entry_length _ _) Ew Eu Et) as K.
  cbv zeta in K. cbn [fst].
  match goal with |- context [wm_ts_add ?a1 ?a2 ?a3 ?a4 ?a5] => set (x := wm_ts_add a1 a2 a3 a4 a5) in * end.
  destruct K as (K1 & K2 & K3 & K4 & K5 & K6).
  split.
  - apply (sf_put_sig_ok lo k (k + 1) st); [exact Hst | exact K1 | exact K2 | lia |].
    unfold sf_sig_ok. cbn [wm_sg_set_utc wm_sg_def wm_sg_tk_fsr wm_sg_tk_vsr wm_sg_tk_anno wm_sg_tk_utc wm_sg_fsr wm_sg_anno wm_sg_utc].
    split; [exact H1|]. split; [eapply sf_tk_incl; eassumption|]. split; [exact H3|]. split; [eapply sf_tk_incl; eassumption|].
    split; [eapply sf_tk_incl; eassumption|]. split; [exact K3|]. split; [exact H7|].
    split.
    + intros ts' Hts'. destruct (H8 ts' Hts') as (B1 & B2 & B3). split; [exact B1|]. split; [exact B2|]. nia.
    + intros ts' Hts'. inversion Hts'; subst ts'. split; [exact K4|]. split; [exact K5 | exact K6].
  - apply sf_put_sig_Forall; [exact Hop|]. unfold sf_sig_open. cbn [wm_sg_set_utc wm_sg_def wm_sg_fsr wm_sg_anno wm_sg_utc].
    split; [exact Ho1|]. intros _. split; [exact Hf | discriminate].
Qed.

Section SF_API.
Variable summ1 : N -> list N -> wm_sentry.
Variable summN : bool -> list wm_sentry -> wm_sentry.

(* ================================================================ jls_wr_fsr *)
Lemma sf_api_fsr_ok : forall lo k st sig sample_id samples, sf_st_ok lo k st -> sf_st_open st ->
  (lo <= sample_id /\ sample_id + Z.of_nat (length samples) < lo + sf_B)%Z ->
  sf_st_ok lo k (fst (wm_api_fsr summ1 summN st sig sample_id samples)) /\
  sf_st_open (fst (wm_api_fsr summ1 summN st sig sample_id samples)).
Proof.
  intros lo k st sig sample_id samples Hst Hop [Hlo Hhi]. unfold wm_api_fsr.
  destruct (wm_signal_validate_typed st sig JLS_SIGNAL_TYPE_FSR) as [rc os] eqn:Ev.
  destruct rc as [|p]; [|split; assumption]. destruct os as [s|]; [|split; assumption].
  destruct (sf_validate_typed_some _ _ _ _ Ev) as [Hin Hty].
  pose proof (sf_In_sig_ok _ _ _ _ Hst Hin) as Hs. destruct (sf_In_sig_open _ _ Hop Hin) as [Ho1 Ho2].
  destruct (Ho2 Hty) as [Hf Hu].
  destruct (wm_sg_fsr s) as [f|] eqn:Ef; [|congruence]. cbn [fst].
  destruct Hs as (H1 & H2 & H3 & H4 & H5 & H6 & H7 & H8 & H9). destruct (H7 f Ef) as [Finv Fwin].
  set (x0 := {| wm_fx_base := wm_st_base st; wm_fx_tk := wm_sg_tk_fsr s; wm_fx_fsr := f |}).
  assert (Hx0 : sf_fx_ok x0) by (split; [apply Hst|]; split; [exact H2|]; split; [apply Finv | exact H3]).
  pose proof (sf_lim_ge _ H1) as Hlim.
  destruct (sf_fsr_data_spec summ1 summN (wm_sg_def s) x0 sample_id samples lo (lo + sf_B - 1)%Z Hx0 H1 Finv) as (K1 & K2 & K3 & K4 & K5).
  { intro Ha. destruct (Fwin Ha). cbn [x0 wm_fx_fsr]. lia. }
  { exact Hlo. }
  { lia. }
  { unfold sf_B, sf_K in *. lia. }
  cbv zeta in K1, K2, K3, K4, K5.
  set (x := wm_fsr_data summ1 summN (wm_sg_def s) x0 sample_id samples) in *.
  destruct K1 as (A1 & A2 & A3 & A4). cbn [x0 wm_fx_base] in K2.
  split.
  - apply (sf_put_sig_ok lo k k st); [exact Hst | exact A1 | exact K2 | apply N.le_refl |].
    unfold sf_sig_ok. cbn [wm_sg_set_fsr wm_sg_def wm_sg_tk_fsr wm_sg_tk_vsr wm_sg_tk_anno wm_sg_tk_utc wm_sg_fsr wm_sg_anno wm_sg_utc].
    split; [exact H1|]. split; [exact A2|]. split; [exact A4|]. split; [eapply sf_tk_incl; eassumption|].
    split; [eapply sf_tk_incl; eassumption|]. split; [eapply sf_tk_incl; eassumption|].
    split; [|split; assumption].
    intros f' Hf'. inversion Hf'; subst f'. split; [exact K3|]. intro Ha. destruct (K4 Ha). lia.
  - apply sf_put_sig_Forall; [exact Hop|]. unfold sf_sig_open. cbn [wm_sg_set_fsr wm_sg_def wm_sg_fsr wm_sg_anno wm_sg_utc].
    split; [exact Ho1|]. intros _. split; [discriminate | exact Hu].
Qed.

(* ================================================================ one call *)
Definition sf_op_guard (lo : Z) (o : wop) : Prop :=
  match o with
  | WFsr _ sid samples => (lo <= sid /\ sid + Z.of_nat (length samples) < lo + sf_B)%Z
  | _ => True
  end.

Lemma sf_step_ok : forall lo k st o, sf_st_ok lo k st -> sf_st_open st -> k + 1 < sf_K -> sf_op_guard lo o ->
  sf_st_ok lo (k + 1) (fst (wm_step_rc summ1 summN st o)) /\ sf_st_open (fst (wm_step_rc summ1 summN st o)).
Proof.
  intros lo k st o Hst Hop Hk Hg.
  assert (Hup : forall st', sf_st_ok lo k st' -> sf_st_ok lo (k + 1) st').
  { intros st' [Hb Hs]. split; [exact Hb|]. eapply sf_Forall_sig_mono; [apply incl_refl | | exact Hs]. lia. }
  destruct o as [d|d|sig sid samples|sig en|sig a|sig sid utc|u|]; cbn [wm_step_rc].
  - destruct (sf_api_source_def_ok lo k st d Hst) as [A B]. split; [apply Hup; exact A|]. unfold sf_st_open. rewrite B. exact Hop.
  - destruct (sf_api_signal_def_ok lo k st d Hst Hop) as [A B]. split; [apply Hup; exact A | exact B].
  - destruct (sf_api_fsr_ok lo k st sig sid samples Hst Hop Hg) as [A B]. split; [apply Hup; exact A | exact B].
  - destruct (sf_api_omit_ok lo k st sig en Hst Hop) as [A B]. split; [apply Hup; exact A | exact B].
  - apply sf_api_annotation_ok; assumption.
  - apply sf_api_utc_ok; assumption.
  - destruct (sf_api_user_data_ok lo k st u Hst) as [A B]. split; [apply Hup; exact A|]. unfold sf_st_open. rewrite B. exact Hop.
  - destruct (sf_api_flush_ok lo k st Hst) as [A B]. split; [apply Hup; exact A|]. unfold sf_st_open. rewrite B. exact Hop.
Qed.

Lemma sf_steps_ok : forall lo p k st rcs, sf_st_ok lo k st -> sf_st_open st -> k + N.of_nat (length p) < sf_K ->
  Forall (sf_op_guard lo) p ->
  sf_st_ok lo (k + N.of_nat (length p)) (fst (wm_steps summ1 summN st p rcs)).
Proof.
  intros lo p. induction p as [|o r IH]; intros k st rcs Hst Hop Hk Hg.
  - cbn [wm_steps fst length]. replace (k + N.of_nat 0) with k by lia. exact Hst.
  - inversion Hg as [|? ? Hgo Hgr]; subst. cbn [wm_steps].
    destruct (wm_step_rc summ1 summN st o) as [st1 rc] eqn:Es.
    destruct (sf_step_ok lo k st o Hst Hop ltac:(cbn [length] in Hk; lia) Hgo) as [A B]. rewrite Es in A, B. cbn [fst] in A, B.
    replace (k + N.of_nat (length (o :: r))) with ((k + 1) + N.of_nat (length r)) by (cbn [length]; lia).
    apply IH; [exact A | exact B | cbn [length] in Hk; lia | exact Hgr].
Qed.

(* ================================================================ jls_wr_open *)
Lemma sf_state0_ok : forall lo, sf_st_ok lo 0 wm_state0.
Proof.
  intro lo. split; [|constructor].
  unfold sf_base_ok, sf_bdisk. cbn [wm_state0 wm_st_base wm_b_raw wm_b_source_head wm_b_signal_head wm_b_ud_head].
  split; [|split; [apply sf_ck0 | split; apply sf_ck0]].
  unfold sf_raw_ok.
  split; [vm_compute; reflexivity|]. split; [vm_compute; reflexivity|]. split; [vm_compute; discriminate|].
  split; [vm_compute; discriminate|].
  assert (Hd : wm_disk wm_raw_open = []) by (vm_compute; reflexivity). rewrite Hd.
  split; [intros o h Hin; destruct Hin | intros o h h' Hin; destruct Hin].
Qed.

Lemma sf_api_open_ok : forall lo, sf_st_ok lo 0 wm_api_open /\ sf_st_open wm_api_open.
Proof.
  intro lo. unfold wm_api_open.
  destruct (sf_api_user_data_ok lo 0 wm_state0 {| ud_meta := 0; ud_stype := JLS_STORAGE_TYPE_INVALID; ud_data := [] |} (sf_state0_ok lo)) as [A1 B1].
  destruct (wm_api_user_data wm_state0 _) as [st1 rc1]. cbn [fst] in A1, B1.
  destruct (sf_api_source_def_ok lo 0 st1 source0 A1) as [A2 B2].
  destruct (wm_api_source_def st1 source0) as [st2 rc2]. cbn [fst] in A2, B2.
  assert (Hop2 : sf_st_open st2) by (unfold sf_st_open; rewrite B2, B1; constructor).
  destruct (sf_api_signal_def_ok lo 0 st2 wm_signal0_raw A2 Hop2) as [A3 B3].
  destruct (wm_api_signal_def st2 wm_signal0_raw) as [st3 rc3]. cbn [fst] in A3, B3. split; assumption.
Qed.

(* ================================================================ jls_wr_close *)
Lemma sf_fsr_inv_lim : forall d f lo, sf_def_ok d -> sf_fsr_inv d f ->
  (wm_f_alloc f = true -> (lo <= wm_f_sid0 f /\ sf_pos f < lo + sf_B)%Z) ->
  sf_f_w d f 1 < sf_lim d /\
  (wm_f_alloc f = true -> wm_f_count f = N.of_nat (length (wm_f_buf f)) /\ sf_Wf d f < sf_lim d).
Proof.
  intros d f lo Hd (Hflv & Hal & Hnal) Hwin. pose proof (sf_lim_ge d Hd) as Hlim. unfold sf_K in Hlim.
  destruct (wm_f_alloc f) eqn:Ea.
  - destruct (Hal eq_refl) as [[B1 B2] B3]. destruct (Hwin eq_refl) as [W1 W2]. unfold sf_B in W2. unfold sf_Wf in *.
    split; [lia|]. intros _. split; [exact B1 | lia].
  - rewrite (Hnal eq_refl). split; [lia | discriminate].
Qed.

Lemma sf_close_signal_ok : forall lo k st id, sf_st_ok lo k st -> sf_st_ok lo k (wm_close_signal summ1 summN st id).
Proof.
  intros lo k st id Hst. unfold wm_close_signal.
  destruct (wm_find_sig st id) as [s|] eqn:Ef; [|exact Hst].
  destruct (sf_find_sig_in _ _ _ Ef) as [Hin _].
  pose proof (sf_In_sig_ok _ _ _ _ Hst Hin) as Hs.
  set (P := fun (b : wm_base) (s' : wm_signal) => sf_base_ok b /\ sf_bext (wm_st_base st) b /\ sf_sig_ok (sf_bdisk b) lo k s').
  (* fsr *)
  set (r1 := match wm_sg_fsr s with
             | None => (wm_st_base st, s)
             | Some f => let x := wm_fsr_close summ1 summN (wm_sg_def s) {| wm_fx_base := wm_st_base st; wm_fx_tk := wm_sg_tk_fsr s; wm_fx_fsr := f |} in
                         (wm_fx_base x, wm_sg_set_fsr s (wm_fx_tk x) None)
             end).
  assert (Q1 : P (fst r1) (snd r1)).
  { subst r1. destruct (wm_sg_fsr s) as [f|] eqn:Efs.
    - destruct Hs as (H1 & H2 & H3 & H4 & H5 & H6 & H7 & H8 & H9). destruct (H7 f Efs) as [Finv Fwin].
      set (x0 := {| wm_fx_base := wm_st_base st; wm_fx_tk := wm_sg_tk_fsr s; wm_fx_fsr := f |}).
      assert (Hx0 : sf_fx_ok x0) by (split; [apply Hst|]; split; [exact H2|]; split; [apply Finv | exact H3]).
      destruct (sf_fsr_inv_lim _ _ lo H1 Finv Fwin) as [L1 L2].
      destruct (sf_fsr_close_spec summ1 summN (wm_sg_def s) x0 Hx0 H1 L1 L2) as [K1 K2].
      cbv zeta in K1, K2 |- *. set (x := wm_fsr_close summ1 summN (wm_sg_def s) x0) in *. cbn [fst snd].
      destruct K1 as (A1 & A2 & A3 & A4). cbn [x0 wm_fx_base] in K2.
      split; [exact A1|]. split; [exact K2|].
      unfold sf_sig_ok. cbn [wm_sg_set_fsr wm_sg_def wm_sg_tk_fsr wm_sg_tk_vsr wm_sg_tk_anno wm_sg_tk_utc wm_sg_fsr wm_sg_anno wm_sg_utc].
      split; [exact H1|]. split; [exact A2|]. split; [exact A4|]. split; [eapply sf_tk_incl; eassumption|].
      split; [eapply sf_tk_incl; eassumption|]. split; [eapply sf_tk_incl; eassumption|].
      split; [intros f' Hf'; discriminate|]. split; assumption.
    - cbn [fst snd]. split; [apply Hst|]. split; [apply sf_bext_refl | exact Hs]. }
  destruct r1 as [b1 s1]. cbn [fst snd] in Q1.
  (* annotation *)
  set (r2 := match wm_sg_anno s1 with
             | None => (b1, s1)
             | Some ts => let x := wm_ts_close id {| wm_tx_base := b1; wm_tx_tk := wm_sg_tk_anno s1; wm_tx_ts := ts |} in
                          (wm_tx_base x, wm_sg_set_anno s1 (wm_tx_tk x) None)
             end).
  assert (Q2 : P (fst r2) (snd r2)).
  { subst r2. destruct Q1 as (Hb1 & He1 & Hs1). destruct (wm_sg_anno s1) as [ts|] eqn:Ea.
    - destruct Hs1 as (H1 & H2 & H3 & H4 & H5 & H6 & H7 & H8 & H9). destruct (H8 ts Ea) as (A1 & _).
      set (x0 := {| wm_tx_base := b1; wm_tx_tk := wm_sg_tk_anno s1; wm_tx_ts := ts |}).
      assert (Hx0 : sf_tx_ok x0) by (split; [exact Hb1|]; split; [exact H5 | exact A1]).
      destruct (sf_ts_close_spec id x0 Hx0) as [K1 K2]. cbv zeta. set (x := wm_ts_close id x0) in *. cbn [fst snd].
      destruct K1 as (B1 & B2 & B3). cbn [x0 wm_tx_base] in K2.
      split; [exact B1|]. split; [eapply sf_bext_trans; eassumption|].
      unfold sf_sig_ok. cbn [wm_sg_set_anno wm_sg_def wm_sg_tk_fsr wm_sg_tk_vsr wm_sg_tk_anno wm_sg_tk_utc wm_sg_fsr wm_sg_anno wm_sg_utc].
      split; [exact H1|]. split; [eapply sf_tk_incl; eassumption|]. split; [exact H3|]. split; [eapply sf_tk_incl; eassumption|].
      split; [exact B2|]. split; [eapply sf_tk_incl; eassumption|]. split; [exact H7|].
      split; [intros ts' Hts'; discriminate | exact H9].
    - cbn [fst snd]. split; [exact Hb1|]. split; [exact He1 | exact Hs1]. }
  destruct r2 as [b2 s2]. cbn [fst snd] in Q2.
  (* utc *)
  set (r3 := match wm_sg_utc s2 with
             | None => (b2, s2)
             | Some ts => let x := wm_ts_close id {| wm_tx_base := b2; wm_tx_tk := wm_sg_tk_utc s2; wm_tx_ts := ts |} in
                          (wm_tx_base x, wm_sg_set_utc s2 (wm_tx_tk x) None)
             end).
  assert (Q3 : P (fst r3) (snd r3)).
  { subst r3. destruct Q2 as (Hb2 & He2 & Hs2). destruct (wm_sg_utc s2) as [ts|] eqn:Ea.
    - destruct Hs2 as (H1 & H2 & H3 & H4 & H5 & H6 & H7 & H8 & H9). destruct (H9 ts Ea) as (A1 & _).
      set (x0 := {| wm_tx_base := b2; wm_tx_tk := wm_sg_tk_utc s2; wm_tx_ts := ts |}).
      assert (Hx0 : sf_tx_ok x0) by (split; [exact Hb2|]; split; [exact H6 | exact A1]).
      destruct (sf_ts_close_spec id x0 Hx0) as [K1 K2]. cbv zeta. set (x := wm_ts_close id x0) in *. cbn [fst snd].
      destruct K1 as (B1 & B2 & B3). cbn [x0 wm_tx_base] in K2.
      split; [exact B1|]. split; [eapply sf_bext_trans; eassumption|].
      unfold sf_sig_ok. cbn [wm_sg_set_utc wm_sg_def wm_sg_tk_fsr wm_sg_tk_vsr wm_sg_tk_anno wm_sg_tk_utc wm_sg_fsr wm_sg_anno wm_sg_utc].
      split; [exact H1|]. split; [eapply sf_tk_incl; eassumption|]. split; [exact H3|]. split; [eapply sf_tk_incl; eassumption|].
      split; [eapply sf_tk_incl; eassumption|]. split; [exact B2|]. split; [exact H7|].
      split; [exact H8 | intros ts' Hts'; discriminate].
    - cbn [fst snd]. split; [exact Hb2|]. split; [exact He2 | exact Hs2]. }
  destruct r3 as [b3 s3]. cbn [fst snd] in Q3. destruct Q3 as (Hb3 & He3 & Hs3).
  apply (sf_put_sig_ok lo k k st); [exact Hst | exact Hb3 | exact He3 | apply N.le_refl | exact Hs3].
Qed.

Lemma sf_api_close_no_fault : forall lo k st, sf_st_ok lo k st -> wm_st_fault (wm_api_close summ1 summN st) = false.
Proof.
  intros lo k st Hst. unfold wm_api_close.
  destruct (sf_fold_inv wm_state N (sf_st_ok lo k) (fun _ _ => True) (fun _ => True) (wm_close_signal summ1 summN))
    with (ls := wm_signal_ids) (x0 := st) as [J1 _]; auto.
  - intros x a Hx _. split; [apply sf_close_signal_ok; exact Hx | exact I].
  - apply Forall_forall. intros; exact I.
  - set (st1 := fold_left (wm_close_signal summ1 summN) wm_signal_ids st) in *.
    destruct (sf_core_wr_end (wm_st_base st1) (proj1 J1)) as [Hb _].
    unfold wm_st_fault, wm_st_set_base. cbn [wm_st_base wm_b_set_raw wm_b_raw]. rewrite sf_raw_close_fault. apply Hb.
Qed.

(* ================================================================ the main theorem *)
Theorem sf_writer_never_faults : forall (p : list wop) (lo : Z),
  N.of_nat (length p) < sf_K -> Forall (sf_op_guard lo) p ->
  wm_st_fault (fst (wm_run_full summ1 summN p)) = false.
Proof.
  intros p lo Hlen Hg. unfold wm_run_full.
  destruct (sf_api_open_ok lo) as [Ho1 Ho2].
  pose proof (sf_steps_ok lo p 0 wm_api_open [] Ho1 Ho2 ltac:(lia) Hg) as Hs.
  destruct (wm_steps summ1 summN wm_api_open p []) as [st rcs]. cbn [fst] in Hs |- *.
  eapply sf_api_close_no_fault. exact Hs.
Qed.

(* also without jls_wr_close (a program that is still running, or never closes) *)
Theorem sf_writer_steps_never_fault : forall (p : list wop) (lo : Z),
  N.of_nat (length p) < sf_K -> Forall (sf_op_guard lo) p ->
  wm_st_fault (fst (wm_steps summ1 summN wm_api_open p [])) = false.
Proof.
  intros p lo Hlen Hg. destruct (sf_api_open_ok lo) as [Ho1 Ho2].
  pose proof (sf_steps_ok lo p 0 wm_api_open [] Ho1 Ho2 ltac:(lia) Hg) as [Hb _].
  unfold wm_st_fault. apply Hb.
Qed.

End SF_API.
