(* C10, part 4: the synchronous writer API (WriterModel.v) never faults - the state invariant between API
   calls, its preservation by every call, jls_wr_open and jls_wr_close, and the main theorem sf_writer_never_faults.

   Guards of the main theorem (both are modelling limits, see Properties_C10.v):
     - fewer than 10^15 API calls (an annotation / UTC index pyramid that needs level 16);
     - all sample ids of jls_wr_fsr calls lie in one window of 10^15 samples (an FSR summary pyramid that needs
       level 16: the C would index self->level[16]).
   Every top-level name starts with sf_. *)
From Coq Require Import NArith ZArith List Bool Lia Arith.
From Coq Require Import ZifyBool ZifyN ZifyNat.
From JLS Require Import Generated CrcDefs Spec Format FormatProofs WmRaw WmCore WmTs WmFsr WriterModel WmProofs
                        SafeProofs SafeProofs2 SafeProofs3.
Import ListNotations.
Local Open Scope N_scope.
Ltac Zify.zify_post_hook ::= Z.div_mod_to_equations.

Local Opaque crc32c.

(* ================================================================ the aligned definition *)
Lemma sf_dt_bits_arith : forall dt, dt_bits dt = (dt / 256) mod 256.
Proof.
  intro dt. unfold dt_bits. change 255 with (N.ones 8). rewrite N.land_ones, N.shiftr_div_pow2. reflexivity.
Qed.

Lemma sf_dt_valid_bits : forall dt, wm_dt_valid dt = true ->
  let w := dt_bits dt in w = 1 \/ w = 4 \/ w = 8 \/ w = 16 \/ w = 24 \/ w = 32 \/ w = 64.
Proof.
  intros dt H. cbv zeta. unfold wm_dt_valid in H. apply andb_true_iff in H. destruct H as [H _].
  apply existsb_exists in H. destruct H as (c & Hin & Heq). apply N.eqb_eq in Heq.
  rewrite sf_dt_bits_arith.
  assert (Hk : N.land dt 65535 = dt mod 65536) by (change 65535 with (N.ones 16); apply N.land_ones).
  rewrite Hk in Heq.
  unfold JLS_DATATYPE_I4, JLS_DATATYPE_I8, JLS_DATATYPE_I16, JLS_DATATYPE_I24, JLS_DATATYPE_I32, JLS_DATATYPE_I64,
         JLS_DATATYPE_U1, JLS_DATATYPE_U4, JLS_DATATYPE_U8, JLS_DATATYPE_U16, JLS_DATATYPE_U24, JLS_DATATYPE_U32,
         JLS_DATATYPE_U64, JLS_DATATYPE_F32, JLS_DATATYPE_F64 in Hin.
  cbn [In] in Hin.
  repeat (destruct Hin as [Hc|Hin]; [subst c; lia|]). destruct Hin.
Qed.

Lemma sf_dt_valid_wok : forall dt, wm_dt_valid dt = true -> sf_wok (dt_bits dt).
Proof.
  intros dt H. pose proof (sf_dt_valid_bits dt H) as Hw. cbv zeta in Hw. unfold sf_wok.
  destruct Hw as [Hw|[Hw|[Hw|[Hw|[Hw|[Hw|Hw]]]]]]; rewrite Hw; (split; [lia|]; split; [|lia]); try (left; lia); right; reflexivity.
Qed.

Lemma sf_fit_epd_pos : forall fuel eps epd, 1 <= wm_fit_epd fuel eps epd.
Proof.
  induction fuel as [|f IH]; intros eps epd; cbn [wm_fit_epd]; [lia|].
  destruct (epd =? 0) eqn:E0; [lia|]. apply N.eqb_neq in E0. destruct (eps mod epd =? 0); [lia | apply IH].
Qed.

Lemma sf_round_up_ge : forall x m r, 0 < m -> wm_round_up x m = Some r -> x <= r.
Proof.
  intros x m r Hm H. unfold wm_round_up in H.
  destruct (wm_u32_max <? (x + m - 1) / m * m); inversion H; subst r.
  pose proof (N.div_mod (x + m - 1) m ltac:(lia)) as Hdm. pose proof (N.mod_lt (x + m - 1) m ltac:(lia)) as Hlt.
  rewrite (N.mul_comm ((x + m - 1) / m) m). lia.
Qed.

Lemma sf_align_ok : forall d0 d, wm_dt_valid (sg_dtype d0) = true -> wm_sig_align d0 = Some d ->
  sf_def_ok d /\ sg_dtype d = sg_dtype d0 /\ sg_id d = sg_id d0 /\ sg_type d = sg_type d0.
Proof.
  intros d0 d Hv H. pose proof (sf_dt_valid_wok _ Hv) as Hwok. pose proof (sf_dt_valid_bits _ Hv) as Hw. cbv zeta in Hw.
  unfold wm_sig_align in H. set (w := dt_bits (sg_dtype d0)) in *.
  assert (Hdef : wm_has_defaults w = true).
  { unfold wm_has_defaults. destruct Hw as [Hw|[Hw|[Hw|[Hw|[Hw|[Hw|Hw]]]]]]; rewrite Hw; reflexivity. }
  rewrite Hdef in H.
  set (mult := if w =? 24 then 32 else SAMPLE_SIZE_BYTES_MAX * 8 / w) in H.
  assert (Hmult : 0 < mult).
  { subst mult. unfold SAMPLE_SIZE_BYTES_MAX. destruct Hw as [Hw|[Hw|[Hw|[Hw|[Hw|[Hw|Hw]]]]]]; rewrite Hw; reflexivity. }
  destruct (wm_round_up (N.max (wm_dflt w (sg_sdf d0) (wm_default_of w 1)) SAMPLE_DECIMATE_FACTOR_MIN) mult) as [sdf|] eqn:E1; [|discriminate].
  destruct (wm_round_up (N.max (wm_dflt w (sg_eps d0) (wm_default_of w 2)) ENTRIES_PER_SUMMARY_MIN)
                        (N.max (wm_dflt w (sg_sumdf d0) (wm_default_of w 3)) SUMMARY_DECIMATE_FACTOR_MIN)) as [eps|] eqn:E2; [|discriminate].
  destruct (wm_round_up (N.max (wm_dflt w (sg_spd d0) (wm_default_of w 0)) SAMPLES_PER_DATA_MIN) sdf) as [spd2|] eqn:E3; [|discriminate].
  cbv zeta in H.
  match type of H with (if ?c then _ else _) = _ => destruct c end; [discriminate|].
  match type of H with (if ?c then _ else _) = _ => destruct c end; [discriminate|].
  inversion H; subst d; clear H.
  pose proof (sf_round_up_ge _ _ _ Hmult E1) as Hsdf. unfold SAMPLE_DECIMATE_FACTOR_MIN in Hsdf.
  split; [|repeat split].
  unfold sf_def_ok. cbn [sg_sdf sg_sumdf sg_spd sg_adf sg_udf sg_dtype].
  split; [lia|]. split; [unfold SUMMARY_DECIMATE_FACTOR_MIN; lia|].
  split.
  { match goal with |- 1 <= sdf * ?e => pose proof (sf_fit_epd_pos (N.to_nat (N.min (spd2 / sdf) eps)) eps (N.min (spd2 / sdf) eps)) as He; set (epd := e) in * end.
    change (1 <= epd) in He. nia. }
  split; [unfold SUMMARY_DECIMATE_FACTOR_MIN; lia|]. split; [unfold SUMMARY_DECIMATE_FACTOR_MIN; lia|]. exact Hwok.
Qed.
