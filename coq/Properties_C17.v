(* C17: copy preserves everything the reader can see.

   jls_copy (src/copy.c) is modelled as a transformation of writer programs (CopyModel.v): it walks the chunks of the
   original in file order and re-issues writer calls.  [cp_reissue p q] says "q is a sequence of calls jls_copy may make
   for the original program p": (i) the definitions and, per signal, the annotations / UTC entries / user data of the
   ACCEPTED calls of p in their original order, strings as read back (NULL = empty); (ii) per signal the final stream of
   the original cut into contiguous non-empty blocks with their sample ids; (iii) any interleaving in which definitions
   precede their uses; (iv) rejected calls do not reappear; (v) signal definitions with the stored (normalised)
   parameters; never an omit or flush call.  Everything is stated against Spec.spec_of for ALL programs (no bound, NO
   well-formedness guard on p: rejected calls, duplicate definitions, data on undefined or VSR signals, NULL strings,
   gaps, overlaps, empty writes are all allowed).

   What "reads back the same" means: [cp_obs] = sources (strings as read), per signal in reader order the definition
   (strings as read), first sample id, length, samples, annotations, UTC entries, and the user data;
   C17_obs_answers / C17_copy_answers show that every reader answer of Spec.v (rd_sources, rd_signals, rd_offset,
   rd_length, rd_window, stats_windows, annotations, anno_seek_range, utc_from, user data) is determined by it.

   NOT covered here (see CopyModel.v header): blocks omitted by the original writer (Spec has no omission; the C's
   behaviour - the copy leaves them out - is the recorded finding K-C17-copy-omitted-blocks; its effect at the level of
   Spec is C17_dropped_block_refuted / C17_dropped_last_block_refuted), unclosed originals (C03/C19), the byte-level
   file of the copy (C05/C14 decoders run on it in the differential check).
   Only `exact` + Print Assumptions here. *)
From Coq Require Import NArith ZArith List Bool.
From JLS Require Import Generated Spec CopyModel CopyProofs CopyProofs2 CopyProofs4 CopyProofs5 CopyProofs6.
From JLS Require Import SigDef SigDefSpec.
Import ListNotations.
Local Open Scope N_scope.

(* ---- 1. the copy reads back like the original ---- *)
Theorem C17_reissue_preserves : forall p q, cp_reissue p q -> cp_obs (spec_of q) = cp_obs (spec_of p).
Proof. exact cp_reissue_preserves. Qed.
Print Assumptions C17_reissue_preserves.

(* the same with the clauses of cp_reissue written out, together with acceptance of every call of the copy *)
Theorem C17_copy_preserves : forall p q : list wop,
  forallb cp_copy_op q = true ->
  map cp_norm_src (cp_srcs q) = map cp_norm_src (cp_srcs (cp_accepted p)) ->
  map cp_norm_sig (cp_sigs q) = map cp_norm_sig (map sp_align (cp_sigs (cp_accepted p))) ->
  (forall i, cp_annos i q = cp_annos i (cp_accepted p)) ->
  (forall i, cp_utcs i q = cp_utcs i (cp_accepted p)) ->
  cp_uds q = flat_map cp_ud_store (cp_uds (cp_accepted p)) ->
  (forall i, match find_sig (spec_of p) i with
             | Some s => match ss_first s with
                         | Some f => cp_contig f (cp_fsr i q) (ss_samples s)
                         | None => cp_fsr i q = []
                         end
             | None => cp_fsr i q = []
             end) ->
  cp_dbu q = true ->
  cp_ok q /\ cp_obs (spec_of q) = cp_obs (spec_of p).
Proof. exact cp_copy_preserves_clauses. Qed.
Print Assumptions C17_copy_preserves.

(* every reader answer of Spec.v is a function of the observation: equal observations, equal answers to every read *)
Theorem C17_obs_answers : forall c1 c2, cp_obs c1 = cp_obs c2 ->
  map cp_norm_src (rd_sources c1) = map cp_norm_src (rd_sources c2) /\
  map (fun s => cp_norm_sig (ss_def s)) (rd_signals c1) = map (fun s => cp_norm_sig (ss_def s)) (rd_signals c2) /\
  map rd_offset (rd_signals c1) = map rd_offset (rd_signals c2) /\
  map rd_length (rd_signals c1) = map rd_length (rd_signals c2) /\
  (forall start count,
     map (fun s => rd_window s start count) (rd_signals c1) = map (fun s => rd_window s start count) (rd_signals c2)) /\
  (forall (dec : N -> list N -> list Z) start incr count,
     map (fun s => stats_windows (dec (sg_dtype (ss_def s)) (ss_samples s)) start incr count) (rd_signals c1)
     = map (fun s => stats_windows (dec (sg_dtype (ss_def s)) (ss_samples s)) start incr count) (rd_signals c2)) /\
  map ss_annos (rd_signals c1) = map ss_annos (rd_signals c2) /\
  (forall t, map (fun s => anno_seek_range s t) (rd_signals c1) = map (fun s => anno_seek_range s t) (rd_signals c2)) /\
  (forall sid, map (fun s => utc_from s sid) (rd_signals c1) = map (fun s => utc_from s sid) (rd_signals c2)) /\
  c_udata c1 = c_udata c2.
Proof. exact cp_obs_answers. Qed.
Print Assumptions C17_obs_answers.

(* the single reads as functions of one signal's observation *)
Theorem C17_rd_window_obs : forall s start count, rd_window s start count = cp_o_window (cp_sig_obs s) start count.
Proof. exact cp_rd_window_obs. Qed.
Print Assumptions C17_rd_window_obs.
Theorem C17_anno_seek_obs : forall s t, anno_seek_range s t = cp_o_anno_seek (cp_sig_obs s) t.
Proof. exact cp_anno_seek_obs. Qed.
Print Assumptions C17_anno_seek_obs.
Theorem C17_utc_from_obs : forall s sid, utc_from s sid = cp_o_utc_from (cp_sig_obs s) sid.
Proof. exact cp_utc_from_obs. Qed.
Print Assumptions C17_utc_from_obs.
Theorem C17_stats_obs : forall (dec : N -> list N -> list Z) s start incr count,
  stats_windows (dec (sg_dtype (ss_def s)) (ss_samples s)) start incr count
  = cp_o_stats (dec (sg_dtype (cp_o_def (cp_sig_obs s)))) (cp_sig_obs s) start incr count.
Proof. exact cp_stats_obs. Qed.
Print Assumptions C17_stats_obs.
Theorem C17_rd_length_obs : forall s, rd_length s = cp_o_length (cp_sig_obs s).
Proof. exact cp_rd_length_obs. Qed.
Print Assumptions C17_rd_length_obs.
Theorem C17_rd_offset_obs : forall s, rd_offset s = cp_o_offset (cp_sig_obs s).
Proof. exact cp_rd_offset_obs. Qed.
Print Assumptions C17_rd_offset_obs.
Theorem C17_rd_sources_obs : forall c, map cp_norm_src (rd_sources c) = fst (fst (cp_obs c)).
Proof. exact cp_rd_sources_obs. Qed.
Print Assumptions C17_rd_sources_obs.
Theorem C17_rd_signals_obs : forall c, map cp_sig_obs (rd_signals c) = snd (fst (cp_obs c)).
Proof. exact cp_rd_signals_obs. Qed.
Print Assumptions C17_rd_signals_obs.

(* so: whatever is read from the copy is what is read from the original *)
Theorem C17_copy_answers : forall p q, cp_reissue p q ->
  map cp_norm_src (rd_sources (spec_of q)) = map cp_norm_src (rd_sources (spec_of p)) /\
  map (fun s => cp_norm_sig (ss_def s)) (rd_signals (spec_of q)) = map (fun s => cp_norm_sig (ss_def s)) (rd_signals (spec_of p)) /\
  map rd_offset (rd_signals (spec_of q)) = map rd_offset (rd_signals (spec_of p)) /\
  map rd_length (rd_signals (spec_of q)) = map rd_length (rd_signals (spec_of p)) /\
  (forall start count,
     map (fun s => rd_window s start count) (rd_signals (spec_of q))
     = map (fun s => rd_window s start count) (rd_signals (spec_of p))) /\
  (forall (dec : N -> list N -> list Z) start incr count,
     map (fun s => stats_windows (dec (sg_dtype (ss_def s)) (ss_samples s)) start incr count) (rd_signals (spec_of q))
     = map (fun s => stats_windows (dec (sg_dtype (ss_def s)) (ss_samples s)) start incr count) (rd_signals (spec_of p))) /\
  map ss_annos (rd_signals (spec_of q)) = map ss_annos (rd_signals (spec_of p)) /\
  (forall t, map (fun s => anno_seek_range s t) (rd_signals (spec_of q))
             = map (fun s => anno_seek_range s t) (rd_signals (spec_of p))) /\
  (forall sid, map (fun s => utc_from s sid) (rd_signals (spec_of q))
               = map (fun s => utc_from s sid) (rd_signals (spec_of p))) /\
  c_udata (spec_of q) = c_udata (spec_of p).
Proof. exact cp_reissue_answers. Qed.
Print Assumptions C17_copy_answers.

(* ---- 2. the relation is satisfiable for every program: the executable re-issue, with any block size ---- *)
Theorem C17_prog_with_reissue : forall (bs : sigdef -> N) p, cp_reissue p (cp_prog_with bs p).
Proof. exact cp_prog_with_reissue. Qed.
Print Assumptions C17_prog_with_reissue.

Theorem C17_prog_reissue : forall p, cp_reissue p (cp_prog p).
Proof. exact cp_prog_reissue. Qed.
Print Assumptions C17_prog_reissue.

Theorem C17_prog_preserves : forall p, cp_obs (spec_of (cp_prog p)) = cp_obs (spec_of p).
Proof. exact cp_prog_preserves. Qed.
Print Assumptions C17_prog_preserves.

(* ---- 3. the copy itself reports no error: every re-issued call is accepted ---- *)
Theorem C17_reissue_ok : forall p q, cp_reissue p q -> cp_ok q.
Proof. exact cp_reissue_ok. Qed.
Print Assumptions C17_reissue_ok.

Theorem C17_prog_ok : forall p, cp_ok (cp_prog p).
Proof. exact cp_prog_ok. Qed.
Print Assumptions C17_prog_ok.

(* ---- supporting facts about programs in general ---- *)
(* (iv): the content of ANY program is the denotation of its accepted calls; rejected calls leave no trace *)
Theorem C17_spec_accepted : forall p, spec_of p = cp_denote (cp_accepted p).
Proof. exact cp_spec_accepted. Qed.
Print Assumptions C17_spec_accepted.

(* acceptance of a whole program is the static check of every call against the calls before it *)
Theorem C17_ok_iff_wf : forall q, cp_ok q <-> cp_wf q = true.
Proof. exact cp_ok_iff_wf. Qed.
Print Assumptions C17_ok_iff_wf.

(* (v): normalising a normalised definition changes nothing (Spec.sp_align; no 32-bit wrap in Spec) *)
Theorem C17_align_idem : forall d, dt_bits (sg_dtype d) <> 0 -> sp_align (sp_align d) = sp_align d.
Proof. exact cp_align_idem. Qed.
Print Assumptions C17_align_idem.

(* ... and in the C16 model of the CURRENT jls_core_signal_def_align: the stored parameters are accepted again,
   stored unchanged, and are Spec's *)
Theorem C17_realign_current : forall D d', dt_valid (sg_dtype D) = true ->
  sd_align (dt_bits (sg_dtype D)) (sd_of_spec D) = SdOk d' ->
  sd_align (dt_bits (sg_dtype D)) d' = SdOk d' /\
  sd_of_spec (sp_align D) = d' /\ sd_of_spec (sp_align (sp_align D)) = d'.
Proof. exact cp_realign_current. Qed.
Print Assumptions C17_realign_current.

(* the executable (sufficient) check of the relation *)
Theorem C17_reissue_b_sound : forall p q, cp_reissue_b p q = true -> cp_reissue p q.
Proof. exact cp_reissue_b_sound. Qed.
Print Assumptions C17_reissue_b_sound.

(* ---- Examples: the hypotheses are satisfiable by non-trivial values ---- *)
(* cp_ex_p: 2 sources, 2 FSR signals, a gap, overlapping writes, annotations, UTC, user data, omit/flush calls and
   six REJECTED calls (the false flags); cp_ex_q: a hand-written re-issue with another interleaving and other blocks *)
Example C17_example_flags : cp_flags cp_ex_p =
  [true; true; true; true; true; true; true; true; true; true; false; true; true; true; true; true; true;
   false; false; true; true; true; true; false; false].
Proof. exact cp_ex_rejected. Qed.
Print Assumptions C17_example_flags.

Example C17_example_reissue : cp_reissue cp_ex_p cp_ex_q.
Proof. exact cp_ex_reissue. Qed.
Print Assumptions C17_example_reissue.

Example C17_example_differs :
  cp_ex_q <> cp_prog cp_ex_p /\ cp_ok cp_ex_q /\ cp_obs (spec_of cp_ex_q) = cp_obs (spec_of cp_ex_p).
Proof. exact cp_ex_differs. Qed.
Print Assumptions C17_example_differs.

(* ---- 4. what is false without clause (ii): a copy that leaves a block out ---- *)
(* an inner block left out: all calls accepted, same lengths, different samples (they read back as fill) *)
Theorem C17_dropped_block_refuted :
  exists p q keep, cp_reissue p q /\
    cp_ok (cp_drop keep q) /\
    cp_obs (spec_of (cp_drop keep q)) <> cp_obs (spec_of p) /\
    map rd_length (rd_signals (spec_of (cp_drop keep q))) = map rd_length (rd_signals (spec_of p)).
Proof. exact cp_dropped_block_refuted. Qed.
Print Assumptions C17_dropped_block_refuted.

(* the last block left out: a shorter signal *)
Theorem C17_dropped_last_block_refuted :
  exists p q keep, cp_reissue p q /\
    cp_ok (cp_drop keep q) /\
    map rd_length (rd_signals (spec_of (cp_drop keep q))) <> map rd_length (rd_signals (spec_of p)).
Proof. exact cp_dropped_last_block_refuted. Qed.
Print Assumptions C17_dropped_last_block_refuted.

(* the code BEFORE fix 591c3d3 (C16 model sd_align_old): a stored definition faulted (division by zero), or was
   stored differently, when defined again - as jls_copy does *)
Theorem C17_realign_old_refuted :
  (exists d d', sd_align_old 64 d = SdOk d' /\ sd_align_old 64 d' = SdFault SdDivZero) /\
  (exists d d' d'', sd_align_old 32 d = SdOk d' /\ sd_align_old 32 d' = SdOk d'' /\ d'' <> d').
Proof. exact cp_realign_old_refuted. Qed.
Print Assumptions C17_realign_old_refuted.
