(* Equivalence of the GENERATED omit-register shift at the end of wr_data (/repo/src/wr_fsr.c;
   GenFsr.v is written by tools/c2gallina.py from the current source: the statement
   `self->write_omit_data = (self->write_omit_data << 1) | (self->write_omit_data & 1);`)
   and the hand-written PyramidModel.py_reg_shift (also WmFsr's inline copy of the expression). *)
From Coq Require Import NArith ZArith List Bool Lia.
From Coq Require Import ZifyBool ZifyN ZifyNat.
From JLS Require Import GenLib GenFsr PyramidModel.
Local Open Scope N_scope.
Ltac Zify.zify_post_hook ::= Z.div_mod_to_equations.

Theorem gen_omit_shift_eq : forall g : jls_core_fsr_s,
  g.(jls_core_fsr_s_write_omit_data) < 256 ->
  wr_data'omit_shift g =
  Ok (set_jls_core_fsr_s_write_omit_data g (Z.to_N (py_reg_shift (Z.of_N g.(jls_core_fsr_s_write_omit_data))))).
Proof.
  intros g Ho. unfold wr_data'omit_shift, py_reg_shift. set (o := jls_core_fsr_s_write_omit_data g) in *.
  unfold sshl.
  assert (((0 <=? 1) && (1 <? 32) && (0 <=? Z.of_N o))%Z = true) as -> by lia.
  assert (S1 : Z.shiftl (Z.of_N o) 1 = (2 * Z.of_N o)%Z) by (rewrite Z.shiftl_mul_pow2 by lia; lia).
  unfold sint, in_sint. change (2 ^ (32 - 1))%Z with 2147483648%Z.
  destruct ((- (2147483648) <=? Z.shiftl (Z.of_N o) 1) && (Z.shiftl (Z.of_N o) 1 <? 2147483648))%Z eqn:E; [|lia].
  cbn [bind]. cbv zeta. unfold cast_u. change (2 ^ 8)%Z with 256%Z. reflexivity.
Qed.

(* the same on N, as the expression appears in WmFsr.v *)
Lemma zlor_shl1 : forall b a : Z, (a = 0 \/ a = 1)%Z -> Z.lor (Z.shiftl b 1) a = (2 * b + a)%Z.
Proof.
  intros b a Ha. rewrite Z.shiftl_mul_pow2 by lia. change (2 ^ 1)%Z with 2%Z.
  assert (HL : Z.land (b * 2) a = 0%Z).
  { destruct Ha as [-> | ->]; [apply Z.land_0_r|].
    change 1%Z with (Z.ones 1). rewrite Z.land_ones by lia. change (2 ^ 1)%Z with 2%Z. lia. }
  rewrite <- (Z.lxor_lor _ _ HL), <- (Z.add_nocarry_lxor _ _ HL). lia.
Qed.
Lemma nlor_shl1 : forall b a : N, a = 0 \/ a = 1 -> N.lor (N.shiftl b 1) a = 2 * b + a.
Proof.
  intros b a Ha. rewrite N.shiftl_mul_pow2. change (2 ^ 1) with 2.
  assert (HL : N.land (b * 2) a = 0).
  { destruct Ha as [-> | ->]; [apply N.land_0_r|].
    change 1 with (N.ones 1). rewrite N.land_ones. change (2 ^ 1) with 2. lia. }
  rewrite <- (N.lxor_lor _ _ HL), <- (N.add_nocarry_lxor _ _ HL). lia.
Qed.

Corollary gen_omit_shift_N : forall g : jls_core_fsr_s,
  g.(jls_core_fsr_s_write_omit_data) < 256 ->
  wr_data'omit_shift g =
  Ok (set_jls_core_fsr_s_write_omit_data g
        (N.lor (N.shiftl g.(jls_core_fsr_s_write_omit_data) 1) (N.land g.(jls_core_fsr_s_write_omit_data) 1) mod 256)).
Proof.
  intros g Ho. rewrite (gen_omit_shift_eq g Ho). do 2 f_equal. unfold py_reg_shift.
  set (o := jls_core_fsr_s_write_omit_data g).
  assert (LZ : Z.land (Z.of_N o) 1 = (Z.of_N o mod 2)%Z).
  { change 1%Z with (Z.ones 1). rewrite Z.land_ones by lia. reflexivity. }
  assert (LN : N.land o 1 = o mod 2).
  { change 1 with (N.ones 1). rewrite N.land_ones. reflexivity. }
  rewrite LZ, LN, zlor_shl1, nlor_shl1 by lia. lia.
Qed.
