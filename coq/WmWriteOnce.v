(* C14 for the writer model: EVERY backend log the byte-faithful writer model (WmRaw .. WriterModel) can
   produce is accepted by the verified write-once checker (WriteOnce.v), for all programs, with or without
   jls_wr_close.  Method: a simulation invariant between the writer's state and the checker's state after the
   log so far, proved for open and preserved by every raw operation (append = 1 or 3 accepted writes; link =
   header rewrite; head table = payload + footer; flush; file header), then lifted through core / ts / fsr /
   API functions.  The payload CONTENTS never matter (only lengths), so nothing here looks inside payloads.

   Guard.  The model's integers are unbounded; the C's are uint32 (payload_length) / int64 (file offsets).
   [wmw_bounded log]: every single write is shorter than 2^32 bytes and ends below 2^64.  Outside that guard
   the model's header encoding truncates (mod 2^32 / 2^64) while its payload does not, so the guard is needed.

   This file: the raw layer and jls_core_wr_data / _index / _summary, jls_track_*.  WmWriteOnce2.v: wr_ts.c, wr_fsr.c.
   WmWriteOnce3.v: writer.c and the top-level theorems.  WmWriteOnce4.v / 5.v: compositions, crash shape.
   Every top-level name starts with wmw_. *)
From Coq Require Import NArith ZArith List Bool Lia Arith.
From Coq Require Import ZifyBool ZifyN ZifyNat.
From JLS Require Import Generated CrcDefs Spec Format FormatProofs WriteOnce WriteOnceProofs
                        WmRaw WmCore WmTs WmFsr WriterModel WmProofs.
Import ListNotations.
Local Open Scope N_scope.
Ltac Zify.zify_post_hook ::= Z.div_mod_to_equations.

Local Opaque crc32c.

(* ================================================================ the log as checker events *)
Definition wmw_to_wo (e : wm_entry) : wo_ev :=
  match e with WmWrite o b => WoWrite o b | WmTrunc n => WoTrunc n | WmSync => WoSync end.
(* a writer log is kept newest first *)
Definition wmw_evs (l : wm_log) : list wo_ev := map wmw_to_wo (rev l).

Lemma wmw_evs_cons : forall e l, wmw_evs (e :: l) = wmw_evs l ++ [wmw_to_wo e].
Proof. intros. unfold wmw_evs. cbn [rev]. rewrite map_app. reflexivity. Qed.

Lemma wmw_run_snoc : forall b l s i s1 e s2,
  wo_run b s i l = inl s1 -> wo_step b s1 e = inl s2 -> wo_run b s i (l ++ [e]) = inl s2.
Proof.
  induction l as [|x l IH]; intros s i s1 e s2 H1 H2; cbn [app wo_run] in *.
  - inversion H1; subst. rewrite H2. reflexivity.
  - destruct (wo_step b s x) as [s'|why]; [|discriminate]. eapply IH; eauto.
Qed.

Lemma wmw_run_app_inl : forall b l1 l2 s i s2,
  wo_run b s i (l1 ++ l2) = inl s2 -> exists s1, wo_run b s i l1 = inl s1.
Proof.
  induction l1 as [|x l1 IH]; intros l2 s i s2 H; cbn [app wo_run] in *.
  - eexists; reflexivity.
  - destruct (wo_step b s x) as [s'|why]; [|discriminate]. eapply IH; eauto.
Qed.

(* ================================================================ the guard, faults, log growth *)
Definition wmw_two32 : N := 4294967296.
Definition wmw_bounded (l : wm_log) : Prop :=
  forall off b, In (WmWrite off b) l -> off + N.of_nat (length b) < fm_two64 /\ N.of_nat (length b) < wmw_two32.
Definition wmw_good (r : wm_raw) : Prop := wm_fault r = false /\ wmw_bounded (wm_rlog r).

(* fault is sticky and the log only grows; moreover, as long as nothing faults, the raw layer never stands at
   position 0 nor has a current chunk at offset 0 ([wmw_pos]: true from jls_raw_open on), and the entries it adds to
   the log are not writes at offset 0 ([wmw_nz]) - only wr_file_header (open, close) writes there *)
Definition wmw_pos (r : wm_raw) : Prop := wm_fpos r <> 0 /\ wm_offset r <> 0.
Definition wmw_nz (l : wm_log) : Prop := forall b, ~ In (WmWrite 0 b) l.
Definition wmw_le (r r' : wm_raw) : Prop :=
  exists l, wm_rlog r' = l ++ wm_rlog r /\
    (wm_fault r' = false -> wm_fault r = false /\ (wmw_pos r -> wmw_pos r' /\ wmw_nz l)).

Lemma wmw_nz_nil : wmw_nz [].
Proof. intros b H. exact H. Qed.
Lemma wmw_nz_app : forall a b, wmw_nz a -> wmw_nz b -> wmw_nz (a ++ b).
Proof. intros a b Ha Hb x H. apply in_app_or in H. destruct H as [H|H]; [exact (Ha x H)|exact (Hb x H)]. Qed.
Lemma wmw_nz_one : forall o b, o <> 0 -> wmw_nz [WmWrite o b].
Proof. intros o b Ho x [H|[]]. inversion H. congruence. Qed.
Lemma wmw_nz_sync : wmw_nz [WmSync].
Proof. intros x [H|[]]. discriminate. Qed.

Lemma wmw_le_nofault : forall r r', wmw_le r r' -> wm_fault r' = false -> wm_fault r = false.
Proof. intros r r' (l & _ & H) Hf. exact (proj1 (H Hf)). Qed.
Lemma wmw_le_log_ext : forall r r', wmw_le r r' -> wm_log_ext r r'.
Proof. intros r r' (l & L & _). exists l. exact L. Qed.

Lemma wmw_le_refl : forall r, wmw_le r r.
Proof. intro r. exists []. split; [reflexivity|]. intro Hf. split; [exact Hf|]. intro Hp. split; [exact Hp|apply wmw_nz_nil]. Qed.
Lemma wmw_le_trans : forall a b c, wmw_le a b -> wmw_le b c -> wmw_le a c.
Proof.
  intros a b c (l1 & L1 & F1) (l2 & L2 & F2). exists (l2 ++ l1). split; [rewrite L2, L1; apply app_assoc|].
  intro Hf. destruct (F2 Hf) as [Hfb P2]. destruct (F1 Hfb) as [Hfa P1]. split; [exact Hfa|].
  intro Hp. destruct (P1 Hp) as [Hpb N1]. destruct (P2 Hpb) as [Hpc N2]. split; [exact Hpc|apply wmw_nz_app; assumption].
Qed.
Lemma wmw_bounded_ext : forall l1 l2, wmw_bounded (l1 ++ l2) -> wmw_bounded l2.
Proof. intros l1 l2 H off b Hin. apply H. apply in_or_app. now right. Qed.
Lemma wmw_good_le : forall r r', wmw_le r r' -> wmw_good r' -> wmw_good r.
Proof.
  intros r r' (l & L & F) [G1 G2]. split; [exact (proj1 (F G1))|]. rewrite L in G2. eapply wmw_bounded_ext; eauto.
Qed.
(* no new log entry *)
Lemma wmw_le_nolog : forall r r', wm_fault r' = wm_fault r -> wm_rlog r' = wm_rlog r -> (wmw_pos r -> wmw_pos r') -> wmw_le r r'.
Proof.
  intros r r' F L P. exists []. split; [exact L|]. intro Hf. split; [congruence|].
  intro Hp. split; [exact (P Hp)|apply wmw_nz_nil].
Qed.
Lemma wmw_le_same : forall r r', wm_fault r' = wm_fault r -> wm_rlog r' = wm_rlog r ->
  wm_fpos r' = wm_fpos r -> wm_offset r' = wm_offset r -> wmw_le r r'.
Proof. intros r r' F L P1 P2. apply wmw_le_nolog; auto. unfold wmw_pos. rewrite P1, P2. auto. Qed.
(* a fault: only the growth of the log matters *)
Lemma wmw_le_fault_ext : forall r r', wm_fault r' = true -> wm_log_ext r r' -> wmw_le r r'.
Proof. intros r r' F [l L]. exists l. split; [exact L|]. rewrite F. discriminate. Qed.
Lemma wmw_le_fault : forall r r', wm_fault r' = true -> wm_rlog r' = wm_rlog r -> wmw_le r r'.
Proof. intros r r' F L. apply wmw_le_fault_ext; [exact F|now apply wm_log_ext_same]. Qed.

Lemma wmw_le_fwrite : forall r b, wmw_le r (wm_bk_fwrite r b).
Proof.
  intros r b. exists [WmWrite (wm_fpos r) b]. split; [reflexivity|]. intro Hf. split; [exact Hf|].
  intros [P1 P2]. split; [|apply wmw_nz_one; exact P1].
  unfold wmw_pos, wm_bk_fwrite. cbn [wm_fpos wm_offset]. split; [lia|exact P2].
Qed.
Lemma wmw_le_chunk_seek : forall r o, wmw_le r (wm_raw_chunk_seek r o).
Proof.
  intros r o. unfold wm_raw_chunk_seek. destruct (o =? 0) eqn:E.
  - apply wmw_le_fault; reflexivity.
  - apply N.eqb_neq in E. apply wmw_le_nolog; [reflexivity|reflexivity|]. intros _. split; cbn; exact E.
Qed.
Lemma wmw_le_wr_header : forall r h, wmw_le r (fst (wm_raw_wr_header r h)).
Proof.
  intros r h. unfold wm_raw_wr_header. cbn [fst].
  set (r1 := if wm_offset r =? wm_fpos r then r else wm_bk_fseek (wm_invalidate r) (wm_offset r)).
  assert (L1 : wmw_le r r1).
  { subst r1. destruct (wm_offset r =? wm_fpos r); [apply wmw_le_refl|].
    apply wmw_le_nolog; [reflexivity|reflexivity|]. intros [P1 P2]. split; cbn; exact P2. }
  eapply wmw_le_trans; [exact L1|]. eapply wmw_le_trans; [apply (wmw_le_fwrite r1)|].
  apply wmw_le_same; reflexivity.
Qed.
Lemma wmw_le_rd_header : forall r, wmw_le r (wm_raw_rd_header r).
Proof.
  intro r. unfold wm_raw_rd_header.
  destruct (wm_hdr_valid r); [apply wmw_le_refl|].
  destruct (wm_fend r <=? wm_fpos r); [apply wmw_le_fault; reflexivity|].
  set (r1 := if wm_offset r =? wm_fpos r then r else wm_bk_fseek r (wm_offset r)).
  assert (L1 : wmw_le r r1).
  { subst r1. destruct (wm_offset r =? wm_fpos r); [apply wmw_le_refl|].
    apply wmw_le_nolog; [reflexivity|reflexivity|]. intros [P1 P2]. split; cbn; exact P2. }
  eapply wmw_le_trans; [exact L1|].
  destruct (wm_disk_get (wm_disk (wm_set_offset r1 (wm_fpos r1))) (wm_fpos (wm_set_offset r1 (wm_fpos r1)))).
  - apply wmw_le_nolog; [reflexivity|reflexivity|]. intros [P1 P2]. split; cbn; [lia|exact P1].
  - apply wmw_le_fault; reflexivity.
Qed.
Lemma wmw_rd_header_fault : forall r, wm_fault (wm_raw_rd_header r) = false -> wm_fault r = false.
Proof. intro r. apply wmw_le_nofault. apply wmw_le_rd_header. Qed.
Lemma wmw_le_wr_payload : forall r n p, wmw_le r (wm_raw_wr_payload r n p).
Proof.
  intros r n p. unfold wm_raw_wr_payload.
  pose proof (wmw_le_rd_header r) as Hrd. set (r1 := wm_raw_rd_header r) in *.
  destruct (wm_fault r1) eqn:Ef; [exact Hrd|].
  eapply wmw_le_trans; [exact Hrd|].
  destruct (n =? 0).
  - destruct (wm_fend r1 <=? wm_fpos r1); [apply wmw_le_same; reflexivity|apply wmw_le_refl].
  - set (r2 := if N.of_nat (length p) <? fm_payload_length (wm_hdr r1) then wm_set_fault r1 else r1).
    assert (L2 : wmw_le r1 r2).
    { subst r2. destruct (N.of_nat (length p) <? fm_payload_length (wm_hdr r1)); [apply wmw_le_fault; reflexivity|apply wmw_le_refl]. }
    eapply wmw_le_trans; [exact L2|]. eapply wmw_le_trans; [apply wmw_le_fwrite|]. eapply wmw_le_trans; [apply wmw_le_fwrite|].
    match goal with |- wmw_le _ (if ?c then _ else _) => destruct c end; [apply wmw_le_same; reflexivity|apply wmw_le_refl].
Qed.
Lemma wmw_le_raw_wr : forall r h p, wmw_le r (fst (wm_raw_wr r h p)).
Proof.
  intros r h p. unfold wm_raw_wr.
  pose proof (wmw_le_wr_header r h) as H1.
  destruct (wm_raw_wr_header r h) as [r1 h1]. cbn [fst] in *.
  eapply wmw_le_trans; [exact H1|].
  eapply wmw_le_trans; [apply wmw_le_wr_payload|].
  apply wmw_le_nolog; [reflexivity|reflexivity|]. intros [P1 P2]. split; cbn; exact P1.
Qed.
Lemma wmw_le_update_item_head : forall r head next, wmw_le r (fst (wm_update_item_head r head next)).
Proof.
  intros r head next. unfold wm_update_item_head.
  destruct (wm_ck_offset head =? 0); [apply wmw_le_refl|].
  pose proof (wmw_le_wr_header (wm_raw_chunk_seek r (wm_ck_offset head)) (wm_hdr_set_next (wm_ck_hdr head) (wm_ck_offset next))) as H.
  destruct (wm_raw_wr_header _ _) as [r2 h2]. cbn [fst] in *.
  eapply wmw_le_trans; [apply wmw_le_chunk_seek|].
  eapply wmw_le_trans; [exact H|]. apply wmw_le_chunk_seek.
Qed.

(* ================================================================ extents: find / update *)
Lemma wmw_find_off : forall o E x, wo_find o E = Some x -> wo_e_off x = o.
Proof. intros o E x H. now destruct (wo_find_some _ _ _ H). Qed.

Lemma wmw_find_update : forall y E x0 o, wo_find (wo_e_off y) E = Some x0 ->
  wo_find o (wo_update y E) = if wo_e_off y =? o then Some y else wo_find o E.
Proof.
  intros y E. induction E as [|x E IH]; intros x0 o H; cbn [wo_find wo_update] in *; [discriminate|].
  destruct (wo_e_off x =? wo_e_off y) eqn:E1.
  - apply N.eqb_eq in E1. cbn [wo_find]. rewrite E1. destruct (wo_e_off y =? o); reflexivity.
  - cbn [wo_find]. destruct (wo_e_off x =? o) eqn:E2.
    + apply N.eqb_eq in E2. apply N.eqb_neq in E1.
      destruct (wo_e_off y =? o) eqn:E3; [apply N.eqb_eq in E3; congruence|reflexivity].
    + eapply IH; eauto.
Qed.

(* headers equal except item_next *)
Definition wmw_nn (h h' : fm_chunk_header) : Prop :=
  fm_item_prev h' = fm_item_prev h /\ fm_tag h' = fm_tag h /\ fm_rsv0 h' = fm_rsv0 h /\
  fm_chunk_meta h' = fm_chunk_meta h /\ fm_payload_length h' = fm_payload_length h /\
  fm_payload_prev_length h' = fm_payload_prev_length h.
Lemma wmw_nn_refl : forall h, wmw_nn h h.
Proof. intro h. repeat split. Qed.
Lemma wmw_nn_sym : forall h h', wmw_nn h h' -> wmw_nn h' h.
Proof. intros h h' (A & B & C & D & E & F). repeat split; congruence. Qed.
Lemma wmw_nn_trans : forall a b c, wmw_nn a b -> wmw_nn b c -> wmw_nn a c.
Proof. intros a b c (A & B & C & D & E & F) (A' & B' & C' & D' & E' & F'). repeat split; congruence. Qed.
Lemma wmw_nn_set_next : forall h x, wmw_nn h (wm_hdr_set_next h x).
Proof. intros. repeat split. Qed.

Lemma wmw_hdr_diff_nn : forall h h', wmw_nn h h' -> wo_hdr_diff false h h' = None.
Proof.
  intros h h' (A & B & C & D & E & F). unfold wo_hdr_diff.
  rewrite A, B, C, D, E, F, !N.eqb_refl. reflexivity.
Qed.

(* frame: every extent survives with the same header up to item_next; tables are kept except (possibly) at o *)
Definition wmw_fr (o : option N) (E E' : list wo_ext) : Prop :=
  forall a x, wo_find a E = Some x ->
    exists x', wo_find a E' = Some x' /\ wmw_nn (wo_e_hdr x) (wo_e_hdr x') /\ (o <> Some a -> wo_e_table x' = wo_e_table x).

Lemma wmw_fr_refl : forall o E, wmw_fr o E E.
Proof. intros o E a x H. exists x. repeat split; auto. Qed.
Lemma wmw_fr_trans : forall o E1 E2 E3, wmw_fr o E1 E2 -> wmw_fr o E2 E3 -> wmw_fr o E1 E3.
Proof.
  intros o E1 E2 E3 H1 H2 a x Hx.
  destruct (H1 _ _ Hx) as (x2 & F2 & N2 & T2). destruct (H2 _ _ F2) as (x3 & F3 & N3 & T3).
  exists x3. split; [exact F3|]. split; [eapply wmw_nn_trans; eauto|].
  intro Hne. rewrite T3, T2; auto.
Qed.
Lemma wmw_fr_weaken : forall o E E', wmw_fr None E E' -> wmw_fr o E E'.
Proof.
  intros o E E' H a x Hx. destruct (H _ _ Hx) as (x' & F & Nn & T). exists x'. split; [exact F|]. split; [exact Nn|].
  intros _. apply T. discriminate.
Qed.

Lemma wmw_fr_cons : forall E y, wo_find (wo_e_off y) E = None -> wmw_fr None E (y :: E).
Proof.
  intros E y Hn a x Hx. exists x. cbn [wo_find].
  destruct (wo_e_off y =? a) eqn:Ea; [apply N.eqb_eq in Ea; congruence|].
  repeat split; auto.
Qed.
Lemma wmw_fr_update_hdr : forall E y x0, wo_find (wo_e_off y) E = Some x0 ->
  wmw_nn (wo_e_hdr x0) (wo_e_hdr y) -> wo_e_table y = wo_e_table x0 -> wmw_fr None E (wo_update y E).
Proof.
  intros E y x0 Hf Hn Ht a x Hx. rewrite (wmw_find_update y E x0 a Hf).
  destruct (wo_e_off y =? a) eqn:Ea.
  - apply N.eqb_eq in Ea. subst a. rewrite Hf in Hx. inversion Hx; subst x0. exists y. repeat split; auto; apply Hn.
  - exists x. repeat split; auto.
Qed.
Lemma wmw_fr_update_tbl : forall E y x0, wo_find (wo_e_off y) E = Some x0 ->
  wo_e_hdr y = wo_e_hdr x0 -> wmw_fr (Some (wo_e_off y)) E (wo_update y E).
Proof.
  intros E y x0 Hf Hh a x Hx. rewrite (wmw_find_update y E x0 a Hf).
  destruct (wo_e_off y =? a) eqn:Ea.
  - apply N.eqb_eq in Ea. subst a. rewrite Hf in Hx. inversion Hx; subst x0. exists y. rewrite Hh.
    split; [reflexivity|]. split; [apply wmw_nn_refl|]. intro Hne. congruence.
  - exists x. repeat split; auto.
Qed.

(* ================================================================ references held by the writer *)
(* a cached (offset, header) pair: offset 0 = none; else a completed chunk whose on-disk header differs from the
   cached one at most in item_next *)
Definition wmw_hdr_wf0 (h : fm_chunk_header) : Prop := fm_chunk_header_wf h.
Definition wmw_ref (E : list wo_ext) (c : wm_chunk) : Prop :=
  wm_ck_offset c = 0 \/
  (wm_ck_offset c < fm_two64 /\ fm_chunk_header_wf (wm_ck_hdr c) /\
   exists x, wo_find (wm_ck_offset c) E = Some x /\ wmw_nn (wo_e_hdr x) (wm_ck_hdr c)).

Lemma wmw_ref_fr : forall o E E' c, wmw_fr o E E' -> wmw_ref E c -> wmw_ref E' c.
Proof.
  intros o E E' c Hfr [H0|(Hlt & Hwf & x & Hf & Hn)]; [now left|right].
  destruct (Hfr _ _ Hf) as (x' & F & Nn & _). split; [exact Hlt|]. split; [exact Hwf|].
  exists x'. split; [exact F|]. eapply wmw_nn_trans; [apply wmw_nn_sym; exact Nn|exact Hn].
Qed.
Lemma wmw_ref0 : forall E, wmw_ref E wm_chunk0.
Proof. intro E. now left. Qed.

Lemma wmw_Forall_ref_fr : forall o E E' l, wmw_fr o E E' -> Forall (wmw_ref E) l -> Forall (wmw_ref E') l.
Proof. intros o E E' l Hfr H. eapply Forall_impl; [|exact H]. intros c. now apply wmw_ref_fr with (o := o). Qed.

Lemma wmw_Forall_upd : forall (A : Type) (P : A -> Prop) n x l, Forall P l -> P x -> Forall P (wm_upd n x l).
Proof.
  intros A P n x l. revert n. induction l as [|y l IH]; intros n Hl Hx; destruct n; cbn [wm_upd]; try constructor;
  inversion Hl; subst; auto.
Qed.
Lemma wmw_Forall_get : forall E l level, Forall (wmw_ref E) l -> wmw_ref E (wm_get_chunk l level).
Proof.
  intros E l level H. unfold wm_get_chunk.
  destruct (nth_in_or_default (N.to_nat level) l wm_chunk0) as [Hin|Hd].
  - rewrite Forall_forall in H. now apply H.
  - rewrite Hd. apply wmw_ref0.
Qed.
Lemma wmw_upd_length : forall (A : Type) n (x : A) l, length (wm_upd n x l) = length l.
Proof. intros A n x l. revert n. induction l as [|y l IH]; intros n; destruct n; cbn [wm_upd length]; auto. Qed.

(* ================================================================ tracks *)
Definition wmw_head_off (t : wm_track) : N := wm_ck_offset (wm_tk_head t).
Definition wmw_headopt (t : wm_track) : option N := if wmw_head_off t =? 0 then None else Some (wmw_head_off t).

Definition wmw_track (E : list wo_ext) (id ty : N) (t : wm_track) : Prop :=
  wm_tk_type t = ty /\ ty < 4 /\ id < 256 /\ length (wm_tk_offsets t) = 16%nat /\
  wmw_ref E (wm_tk_data_head t) /\ Forall (wmw_ref E) (wm_tk_index_head t) /\ Forall (wmw_ref E) (wm_tk_summary_head t) /\
  (wmw_head_off t <> 0 ->
   exists x, wo_find (wmw_head_off t) E = Some x /\ fm_tag (wo_e_hdr x) = fm_track_tag ty JLS_TRACK_CHUNK_HEAD /\
             fm_chunk_meta (wo_e_hdr x) = id /\ fm_payload_length (wo_e_hdr x) = SIZEOF_track_head /\
             wo_e_table x = wm_head_payload (wm_tk_offsets t)).

Lemma wmw_head_tag_inj : forall ty ty', ty < 4 -> ty' < 4 ->
  fm_track_tag ty JLS_TRACK_CHUNK_HEAD = fm_track_tag ty' JLS_TRACK_CHUNK_HEAD -> ty = ty'.
Proof.
  intros ty ty' H H' He.
  destruct (fm_track_tag_roundtrip ty JLS_TRACK_CHUNK_HEAD H ltac:(discriminate)) as (_ & A & _).
  destruct (fm_track_tag_roundtrip ty' JLS_TRACK_CHUNK_HEAD H' ltac:(discriminate)) as (_ & A' & _).
  congruence.
Qed.

(* a track survives any frame whose changed table is not its own head's *)
Lemma wmw_track_fr : forall o E E' id ty t, wmw_fr o E E' -> wmw_track E id ty t ->
  (wmw_head_off t <> 0 -> o <> Some (wmw_head_off t)) -> wmw_track E' id ty t.
Proof.
  intros o E E' id ty t Hfr (A & B & C & D & R1 & R2 & R3 & Hh) Hne.
  repeat split; auto.
  - eapply wmw_ref_fr; eauto.
  - eapply wmw_Forall_ref_fr; eauto.
  - eapply wmw_Forall_ref_fr; eauto.
  - intro H0. destruct (Hh H0) as (x & Hf & T1 & T2 & T3 & T4).
    destruct (Hfr _ _ Hf) as (x' & F & (_ & N2 & _ & N4 & N5 & _) & Tb).
    exists x'. repeat split; try congruence. rewrite Tb; auto.
Qed.

(* the tag-based disjointness: another (id, ty) cannot own the head chunk whose table changed *)
Lemma wmw_track_fr_other : forall o E E' id ty t id2 ty2 t2,
  wmw_fr o E E' -> wmw_track E' id ty t -> (o <> None -> o = wmw_headopt t) ->
  wmw_track E id2 ty2 t2 -> (id2 <> id \/ ty2 <> ty) -> wmw_track E' id2 ty2 t2.
Proof.
  intros o E E' id ty t id2 ty2 t2 Hfr Ht Ho Ht2 Hd.
  eapply wmw_track_fr; eauto.
  intros H0 Heq. subst o.
  specialize (Ho ltac:(discriminate)). unfold wmw_headopt in Ho.
  destruct (wmw_head_off t =? 0) eqn:E0; [discriminate|]. apply N.eqb_neq in E0. inversion Ho as [Ho'].
  destruct Ht as (_ & B & _ & _ & _ & _ & _ & Hh). destruct (Hh E0) as (x & Hf & T1 & T2 & _).
  destruct Ht2 as (_ & B2 & _ & _ & _ & _ & _ & Hh2). destruct (Hh2 H0) as (x2 & Hf2 & U1 & U2 & _).
  destruct (Hfr _ _ Hf2) as (x2' & F & (_ & N2 & _ & N4 & _) & _).
  rewrite Ho' in F. rewrite Hf in F. inversion F; subst x2'.
  destruct Hd as [Hd|Hd]; [congruence|].
  apply Hd. apply wmw_head_tag_inj; auto. congruence.
Qed.

(* ================================================================ single checker steps *)
Lemma wmw_step_hdr : forall s a h, wo_len s = a -> a <> 0 -> wo_pending s = WoIdle -> fm_chunk_header_wf h ->
  wo_step false s (WoWrite a (fm_encode_chunk_header h)) =
  inl (if fm_payload_length h =? 0 then wo_complete s h [] (a + 32) else wo_set s (a + 32) (WoHdr h) 0 0 0 0 (wo_exts s)).
Proof.
  intros s a h Hl Ha Hp Hwf. unfold wo_step, wo_step_write. cbv zeta.
  apply N.eqb_neq in Ha. rewrite Hl, Ha, Hp. cbv beta iota.
  rewrite N.ltb_irrefl, N.eqb_refl. rewrite (fm_chunk_header_roundtrip0 h Hwf), wm_hdr_bytes_length.
  change (32 =? SIZEOF_chunk_header) with true. cbv beta iota delta [negb].
  destruct (fm_payload_length h =? 0); reflexivity.
Qed.

Lemma wmw_step_pay : forall s a h body, wo_len s = a -> a <> 0 -> wo_pending s = WoHdr h ->
  N.of_nat (length body) = fm_payload_length h ->
  wo_step false s (WoWrite a body) = inl (wo_set s (a + fm_payload_length h) (WoPay h body) 0 0 0 0 (wo_exts s)).
Proof.
  intros s a h body Hl Ha Hp Hb. unfold wo_step, wo_step_write. cbv zeta.
  apply N.eqb_neq in Ha. rewrite Hl, Ha, Hp. cbv beta iota.
  rewrite N.ltb_irrefl, N.eqb_refl, Hb, N.eqb_refl. reflexivity.
Qed.

Lemma wmw_footer_ok : forall h body, wo_footer_ok h body (wm_footer (fm_payload_length h) (crc32c body)) = true.
Proof.
  intros h body. unfold wo_footer_ok. cbv zeta. rewrite wm_footer_length.
  change RAW_CRC_SIZE with 4. rewrite N.eqb_refl. unfold wm_footer.
  rewrite firstn_app_exact by apply repeat_length. rewrite skipn_app_exact by apply repeat_length.
  rewrite fm_all_zero_repeat. rewrite fm_u32_roundtrip by apply fm_crc32c_lt. rewrite N.eqb_refl. reflexivity.
Qed.

Lemma wmw_step_ft : forall s a h body, wo_len s = a -> a <> 0 -> wo_pending s = WoPay h body ->
  wo_step false s (WoWrite a (wm_footer (fm_payload_length h) (crc32c body))) =
  inl (wo_complete s h body (a + (fm_pad_len (fm_payload_length h) + 4))).
Proof.
  intros s a h body Hl Ha Hp. unfold wo_step, wo_step_write. cbv zeta.
  apply N.eqb_neq in Ha. rewrite Hl, Ha, Hp. cbv beta iota.
  rewrite N.ltb_irrefl, N.eqb_refl, wmw_footer_ok, wm_footer_length. reflexivity.
Qed.

Lemma wmw_step_link : forall s a o x h', wo_len s = a -> o <> 0 -> o < a -> wo_pending s = WoIdle ->
  wo_find o (wo_exts s) = Some x -> fm_chunk_header_wf h' -> wmw_nn (wo_e_hdr x) h' ->
  wo_step false s (WoWrite o (fm_encode_chunk_header h')) =
  inl (wo_set s a WoIdle 0 1 0 0 (wo_update {| wo_e_off := o; wo_e_hdr := h'; wo_e_table := wo_e_table x |} (wo_exts s))).
Proof.
  intros s a o x h' Hl Ho Hlt Hp Hf Hwf Hn. unfold wo_step, wo_step_write. cbv zeta.
  assert (Ha : a =? 0 = false) by (apply N.eqb_neq; lia).
  assert (H1 : a <? o = false) by (apply N.ltb_ge; lia).
  assert (H2 : o =? a = false) by (apply N.eqb_neq; lia).
  apply N.eqb_neq in Ho. rewrite Hl, Ho, Ha, Hp. cbv beta iota. rewrite H1, H2.
  cbv beta iota delta [wo_is_idle negb]. rewrite Hf.
  rewrite (fm_chunk_header_roundtrip0 h' Hwf), wm_hdr_bytes_length.
  change (32 =? SIZEOF_chunk_header) with true. cbv beta iota delta [negb].
  rewrite (wmw_hdr_diff_nn _ _ Hn). reflexivity.
Qed.

(* the entries of a head table: old = encoded [olds], new = encoded [news] *)
Lemma wmw_tbl_check : forall E olds news k ro rn,
  length olds = length news ->
  Forall2 (fun a b => b = a \/ (a = 0 /\ b < fm_two64 /\ wo_is_start b E = true)) olds news ->
  wo_tbl_check E (length olds) k (flat_map fm_enc_u64 olds ++ ro) (flat_map fm_enc_u64 news ++ rn) = None.
Proof.
  intros E olds. induction olds as [|a olds IH]; intros news k ro rn Hlen HF; [reflexivity|].
  destruct news as [|b news]; [discriminate|]. inversion HF as [|? ? ? ? Hab HF']; subst.
  cbn [length wo_tbl_check flat_map]. rewrite <- !app_assoc.
  assert (Hs : forall v r, skipn 8 (fm_enc_u64 v ++ r) = r) by (intros; apply skipn_app_exact; apply fm_enc_length).
  rewrite !Hs.
  assert (Hok : ((fm_dec_u64 (fm_enc_u64 b ++ flat_map fm_enc_u64 news ++ rn) =? fm_dec_u64 (fm_enc_u64 a ++ flat_map fm_enc_u64 olds ++ ro))
                 || ((fm_dec_u64 (fm_enc_u64 a ++ flat_map fm_enc_u64 olds ++ ro) =? 0) && wo_is_start (fm_dec_u64 (fm_enc_u64 b ++ flat_map fm_enc_u64 news ++ rn)) E)) = true).
  { destruct Hab as [->|(-> & Hb & Hst)].
    - assert (Hd : forall r r', fm_dec_u64 (fm_enc_u64 a ++ r) = fm_dec_u64 (fm_enc_u64 a ++ r')).
      { intros. unfold fm_dec_u64. rewrite !firstn_app_exact by apply fm_enc_length. reflexivity. }
      rewrite (Hd _ (flat_map fm_enc_u64 olds ++ ro)). rewrite N.eqb_refl. reflexivity.
    - rewrite (fm_dec_u64_enc 0) by reflexivity. rewrite (fm_dec_u64_enc b) by exact Hb.
      rewrite Hst. rewrite N.eqb_refl. apply orb_true_r. }
  rewrite Hok. apply IH; [cbn [length] in Hlen; lia|exact HF'].
Qed.

Lemma wmw_step_tbl : forall s a o x news olds, wo_len s = a -> a <> 0 -> o + 32 < a -> wo_pending s = WoIdle ->
  wo_find (o + 32) (wo_exts s) = None -> wo_find o (wo_exts s) = Some x ->
  fm_is_head_tag (fm_tag (wo_e_hdr x)) = true -> fm_payload_length (wo_e_hdr x) = SIZEOF_track_head ->
  wo_e_table x = wm_head_payload olds -> length olds = 16%nat -> length news = 16%nat ->
  Forall2 (fun a b => b = a \/ (a = 0 /\ b < fm_two64 /\ wo_is_start b (wo_exts s) = true)) olds news ->
  wo_step false s (WoWrite (o + 32) (wm_head_payload news)) =
  inl (wo_set s a (WoTbl o (wo_e_hdr x) (wm_head_payload news)) 0 0 0 0
         (wo_update {| wo_e_off := o; wo_e_hdr := wo_e_hdr x; wo_e_table := wm_head_payload news |} (wo_exts s))).
Proof.
  intros s a o x news olds Hl Ha Hlt Hp Hn Hf Hh Hpl Ht Lo Ln HF. unfold wo_step, wo_step_write. cbv zeta.
  assert (H0 : o + 32 =? 0 = false) by (apply N.eqb_neq; lia).
  assert (H1 : a <? o + 32 = false) by (apply N.ltb_ge; lia).
  assert (H2 : o + 32 =? a = false) by (apply N.eqb_neq; lia).
  apply N.eqb_neq in Ha. rewrite Hl, H0, Ha, Hp. cbv beta iota. rewrite H1, H2.
  cbv beta iota delta [wo_is_idle negb]. rewrite Hn.
  assert (H3 : o + 32 <? SIZEOF_chunk_header = false) by (apply N.ltb_ge; unfold SIZEOF_chunk_header; lia).
  rewrite H3. replace (o + 32 - SIZEOF_chunk_header) with o by (unfold SIZEOF_chunk_header; lia).
  rewrite Hf. cbv beta iota. rewrite Hh, Hpl. cbv beta iota delta [negb].
  assert (Hlen : N.of_nat (length (wm_head_payload news)) = SIZEOF_track_head).
  { unfold wm_head_payload. clear - Ln. do 17 (destruct news as [|? news]; try discriminate). reflexivity. }
  rewrite Hlen, !N.eqb_refl. cbv beta iota delta [andb negb].
  rewrite Ht. unfold wm_head_payload.
  rewrite <- (app_nil_r (flat_map fm_enc_u64 olds)), <- (app_nil_r (flat_map fm_enc_u64 news)).
  change (N.to_nat JLS_SUMMARY_LEVEL_COUNT) with 16%nat. rewrite <- Lo.
  rewrite wmw_tbl_check by (auto; lia). rewrite !app_nil_r.
  rewrite (wmw_find_off _ _ _ Hf). reflexivity.
Qed.

Lemma wmw_step_tbl_ft : forall s a o h p, wo_len s = a -> a <> 0 -> wo_pending s = WoTbl o h p ->
  wo_step false s (WoWrite (o + 32 + fm_payload_length h) (wm_footer (fm_payload_length h) (crc32c p))) =
  inl (wo_set s a WoIdle 0 0 1 0 (wo_exts s)).
Proof.
  intros s a o h p Hl Ha Hp. unfold wo_step, wo_step_write. cbv zeta.
  assert (H0 : o + 32 + fm_payload_length h =? 0 = false) by (apply N.eqb_neq; lia).
  apply N.eqb_neq in Ha. rewrite Hl, H0, Ha, Hp. cbv beta iota.
  change SIZEOF_chunk_header with 32. rewrite N.eqb_refl, wmw_footer_ok. reflexivity.
Qed.

Lemma wmw_step_fh : forall s a, wo_len s = a -> a <> 0 -> a < fm_two64 -> wo_pending s = WoIdle ->
  wo_step false s (WoWrite 0 (wm_file_header_bytes a)) = inl (wo_set s a WoIdle 0 0 0 1 (wo_exts s)).
Proof.
  intros s a Hl Ha Hlt Hp. unfold wo_step, wo_step_write. cbv zeta. rewrite N.eqb_refl.
  unfold wm_file_header_bytes.
  rewrite fm_file_header_roundtrip0 by (cbn [fm_fh_length fm_fh_version]; first [exact Hlt|reflexivity]).
  rewrite fm_encode_file_header_length. change (N.of_nat 32 =? SIZEOF_file_header) with true.
  apply N.eqb_neq in Ha. rewrite Hp, Hl, Ha. cbv beta iota delta [negb wo_is_idle fm_fh_length].
  rewrite N.eqb_refl. reflexivity.
Qed.

(* ================================================================ closed forms of the raw operations *)
Lemma wmw_raw_wr_eq : forall a hdr lpl disk log h payload, fm_tag h <> JLS_TAG_INVALID ->
  let h1 := wm_hdr_set_ppl h lpl in
  let pl := fm_payload_length h in
  let body := firstn (N.to_nat pl) payload in
  let lb := N.of_nat (length body) in
  wm_raw_wr (wm_mk_raw a a a hdr lpl disk log false) h payload =
  if pl =? 0 then
    (wm_mk_raw (a + 32) (a + 32) (a + 32) (wm_hdr_set_tag h1 JLS_TAG_INVALID) 0 ((a, h1) :: disk)
               (WmWrite a (fm_encode_chunk_header h1) :: log) false, h1)
  else
    let e := a + 32 + lb + (fm_pad_len pl + 4) in
    (wm_mk_raw e e e (wm_hdr_set_tag h1 JLS_TAG_INVALID) pl ((a, h1) :: disk)
       (WmWrite (a + 32 + lb) (wm_footer pl (crc32c body)) :: WmWrite (a + 32) body :: WmWrite a (fm_encode_chunk_header h1) :: log)
       (N.of_nat (length payload) <? pl), h1).
Proof.
  intros a hdr lpl disk log h payload Htag h1 pl body lb.
  assert (Hpl1 : fm_payload_length h1 = pl) by reflexivity.
  assert (Htag1 : (fm_tag h1 =? JLS_TAG_INVALID) = false) by (subst h1; cbv [fm_tag wm_hdr_set_ppl]; apply N.eqb_neq; exact Htag).
  unfold wm_raw_wr. rewrite wm_raw_wr_header_append. cbv beta iota zeta. fold h1.
  rewrite wm_hdr_bytes_length, Hpl1.
  rewrite (N.max_r a (a + 32)) by lia.
  unfold wm_raw_wr_payload, wm_raw_rd_header, wm_hdr_valid, wm_mk_raw.
  cbv [wm_hdr wm_fault]. rewrite Htag1. cbv [negb wm_fault].
  destruct (pl =? 0) eqn:E0.
  - cbv [wm_fend wm_fpos]. rewrite N.leb_refl.
    unfold wm_invalidate, wm_set_hdr, wm_set_offset, wm_set_last_pl.
    cbv [wm_fpos wm_fend wm_offset wm_hdr wm_last_pl wm_disk wm_rlog wm_fault]. reflexivity.
  - cbv [wm_hdr]. rewrite Hpl1. fold body.
    destruct (N.of_nat (length payload) <? pl) eqn:Ef;
      unfold wm_bk_fwrite, wm_set_fault; cbv [wm_fpos wm_fend wm_offset wm_hdr wm_last_pl wm_disk wm_rlog wm_fault];
      fold lb; rewrite wm_footer_length;
      set (q := fm_pad_len pl);
      replace (N.max (N.max (a + 32) (a + 32 + lb)) (a + 32 + lb + (q + 4))) with (a + 32 + lb + (q + 4)) by lia;
      rewrite N.leb_refl;
      unfold wm_invalidate, wm_set_hdr, wm_set_offset, wm_set_last_pl;
      cbv [wm_fpos wm_fend wm_offset wm_hdr wm_last_pl wm_disk wm_rlog wm_fault]; reflexivity.
Qed.

(* link: rewrite the header at o (a completed chunk strictly inside the file), come back to the end a *)
Lemma wmw_update_item_head_eq : forall a hdr lpl disk log head next,
  wm_ck_offset head <> 0 -> wm_ck_offset head + 32 <= a -> a <> 0 ->
  let o := wm_ck_offset head in
  let h := wm_hdr_set_next (wm_ck_hdr head) (wm_ck_offset next) in
  wm_update_item_head (wm_mk_raw a a a hdr lpl disk log false) head next =
  (wm_mk_raw a a a (wm_hdr_set_tag h JLS_TAG_INVALID) lpl ((o, h) :: disk) (WmWrite o (fm_encode_chunk_header h) :: log) false, next).
Proof.
  intros a hdr lpl disk log head next Ho Hle Ha o h.
  unfold wm_update_item_head. fold o. fold h.
  assert (E0 : o =? 0 = false) by (apply N.eqb_neq; exact Ho). rewrite E0.
  unfold wm_raw_chunk_tell, wm_raw_chunk_seek, wm_mk_raw. cbv [wm_offset]. rewrite E0.
  unfold wm_invalidate, wm_bk_fseek, wm_set_fpos, wm_set_hdr, wm_set_offset.
  cbv [wm_fpos wm_fend wm_offset wm_hdr wm_last_pl wm_disk wm_rlog wm_fault].
  unfold wm_raw_wr_header. cbv [wm_fpos wm_fend wm_offset wm_hdr wm_last_pl wm_disk wm_rlog wm_fault].
  assert (E1 : a <=? o = false) by (apply N.leb_gt; subst o; lia). rewrite E1, N.eqb_refl.
  unfold wm_bk_fwrite, wm_disk_put, wm_set_hdr. cbv [wm_fpos wm_fend wm_offset wm_hdr wm_last_pl wm_disk wm_rlog wm_fault].
  rewrite wm_hdr_bytes_length.
  assert (E2 : a =? 0 = false) by (apply N.eqb_neq; exact Ha). rewrite E2.
  cbv [wm_fpos wm_fend wm_offset wm_hdr wm_last_pl wm_disk wm_rlog wm_fault].
  rewrite (N.max_l a (o + 32)) by (subst o; lia). reflexivity.
Qed.

(* head table rewrite: seek to the head chunk at o, re-read its header from the (ghost) disk, write 128 + 8 bytes *)
Lemma wmw_tbl_rewrite_eq : forall a hdr lpl disk log o hd payload,
  o <> 0 -> o + 168 <= a -> wm_disk_get disk o = Some hd -> fm_payload_length hd = SIZEOF_track_head ->
  N.of_nat (length payload) = SIZEOF_track_head ->
  wm_raw_chunk_seek (wm_raw_wr_payload (wm_raw_chunk_seek (wm_mk_raw a a a hdr lpl disk log false) o) SIZEOF_track_head payload) a =
  wm_mk_raw a a a (wm_hdr_set_tag hd JLS_TAG_INVALID) (if a <=? o + 168 then SIZEOF_track_head else lpl) disk
    (WmWrite (o + 32 + SIZEOF_track_head) (wm_footer SIZEOF_track_head (crc32c payload)) :: WmWrite (o + 32) payload :: log) false.
Proof.
  intros a hdr lpl disk log o hd payload Ho Hle Hd Hpl Hlen.
  assert (E0 : o =? 0 = false) by (apply N.eqb_neq; exact Ho).
  assert (Ea : a =? 0 = false) by (apply N.eqb_neq; lia).
  unfold wm_raw_chunk_seek at 2. unfold wm_mk_raw. rewrite E0.
  unfold wm_invalidate, wm_bk_fseek, wm_set_fpos, wm_set_hdr, wm_set_offset.
  cbv [wm_fpos wm_fend wm_offset wm_hdr wm_last_pl wm_disk wm_rlog wm_fault].
  unfold wm_raw_wr_payload, wm_raw_rd_header, wm_hdr_valid.
  cbv [wm_fpos wm_fend wm_offset wm_hdr wm_last_pl wm_disk wm_rlog wm_fault wm_hdr_set_tag fm_tag].
  change (negb (JLS_TAG_INVALID =? JLS_TAG_INVALID)) with false. cbv beta iota.
  assert (E1 : a <=? o = false) by (apply N.leb_gt; lia). rewrite E1, N.eqb_refl.
  unfold wm_set_offset. cbv [wm_fpos wm_fend wm_offset wm_hdr wm_last_pl wm_disk wm_rlog wm_fault].
  rewrite Hd. unfold wm_set_fpos, wm_set_hdr. cbv [wm_fpos wm_fend wm_offset wm_hdr wm_last_pl wm_disk wm_rlog wm_fault].
  change (SIZEOF_track_head =? 0) with false. cbv beta iota. rewrite Hpl, Hlen, N.ltb_irrefl.
  replace (N.to_nat SIZEOF_track_head) with (length payload) by lia. rewrite firstn_all.
  unfold wm_bk_fwrite. cbv [wm_fpos wm_fend wm_offset wm_hdr wm_last_pl wm_disk wm_rlog wm_fault].
  rewrite wm_footer_length, Hlen. change SIZEOF_chunk_header with 32. change SIZEOF_track_head with 128.
  change (fm_pad_len 128 + 4) with 8.
  replace (N.max (N.max a (o + 32 + 128)) (o + 32 + 128 + 8)) with a by lia.
  replace (o + 32 + 128 + 8) with (o + 168) by lia.
  unfold wm_raw_chunk_seek. rewrite Ea.
  destruct (a <=? o + 168);
    unfold wm_invalidate, wm_bk_fseek, wm_set_fpos, wm_set_hdr, wm_set_offset, wm_set_last_pl;
    cbv [wm_fpos wm_fend wm_offset wm_hdr wm_last_pl wm_disk wm_rlog wm_fault]; unfold wm_hdr_set_tag; rewrite ?Hpl; reflexivity.
Qed.

Lemma wmw_raw_close_eq : forall a hdr lpl disk log flt, 32 <= a ->
  wm_raw_close (wm_mk_raw a a a hdr lpl disk log flt) =
  wm_mk_raw a a a hdr lpl disk (WmWrite 0 (wm_file_header_bytes a) :: log) flt.
Proof.
  intros a hdr lpl disk log flt Ha32. assert (Ha : a <> 0) by lia. unfold wm_raw_close, wm_wr_file_header, wm_mk_raw.
  cbv [wm_fpos wm_fend]. apply N.eqb_neq in Ha. rewrite Ha.
  unfold wm_bk_fwrite, wm_bk_fseek, wm_set_fpos. cbv [wm_fpos wm_fend wm_offset wm_hdr wm_last_pl wm_disk wm_rlog wm_fault].
  assert (Hl : N.of_nat (length (wm_file_header_bytes a)) = 32)
    by (unfold wm_file_header_bytes; rewrite fm_encode_file_header_length; reflexivity).
  rewrite Hl. apply N.eqb_neq in Ha. rewrite (N.max_l a (0 + 32)) by lia. reflexivity.
Qed.

(* ================================================================ the simulation between API calls *)
Definition wmw_disk_ok (d : list (N * fm_chunk_header)) (E : list wo_ext) : Prop :=
  forall o x, wo_find o E = Some x ->
    exists h, wm_disk_get d o = Some h /\ fm_payload_length h = fm_payload_length (wo_e_hdr x).

Definition wmw_sim (r : wm_raw) (s : wo_st) : Prop :=
  wo_run false wo_st0 0 (wmw_evs (wm_rlog r)) = inl s /\
  wm_offset r = wm_fend r /\ wm_fpos r = wm_fend r /\
  wo_len s = wm_fend r /\ wo_end s = wm_fend r /\ wo_pending s = WoIdle /\
  32 <= wm_fend r /\ wm_fend r < fm_two64 /\ wm_last_pl r < wmw_two32 /\
  wmw_disk_ok (wm_disk r) (wo_exts s).

Lemma wmw_sim_mk : forall r s, wmw_sim r s ->
  r = wm_mk_raw (wm_fend r) (wm_fend r) (wm_fend r) (wm_hdr r) (wm_last_pl r) (wm_disk r) (wm_rlog r) (wm_fault r).
Proof.
  intros r s (_ & Ho & Hp & _). destruct r as [fpos fend off hdr lpl disk log flt].
  cbv [wm_offset wm_fpos wm_fend] in Ho, Hp. subst off fpos. reflexivity.
Qed.

Lemma wmw_sim_geom : forall r s, wmw_sim r s ->
  (forall o x, wo_find o (wo_exts s) = Some x -> 32 <= o /\ o + wo_size (wo_e_hdr x) <= wm_fend r) /\
  (forall o1 x1 o2 x2, wo_find o1 (wo_exts s) = Some x1 -> wo_find o2 (wo_exts s) = Some x2 ->
     o1 = o2 \/ o1 + wo_size (wo_e_hdr x1) <= o2 \/ o2 + wo_size (wo_e_hdr x2) <= o1).
Proof.
  intros r s (Hrun & _ & _ & Hlen & Hend & _ & H32 & _).
  pose proof (wo_run_tracks_chunks _ _ _ Hrun) as I.
  assert (Hne : wo_len s <> 0) by lia.
  pose proof (wi_chain _ _ I Hne) as Hc.
  assert (Hin : forall o x, wo_find o (wo_exts s) = Some x -> In (o, wo_e_hdr x) (wo_pairs (wo_exts s))).
  { intros o x Hf. destruct (wo_find_some _ _ _ Hf) as [Hi Ho]. rewrite <- Ho. now apply wo_pairs_in. }
  split.
  - intros o x Hf. destruct (wo_chunks_bounds _ _ _ Hc) as [_ Hb].
    destruct (Hb _ _ (Hin _ _ Hf)) as (A & B & _). split; [exact A|lia].
  - intros o1 x1 o2 x2 H1 H2.
    destruct (wo_chunks_disjoint _ _ _ Hc _ _ _ _ (Hin _ _ H1) (Hin _ _ H2)) as [[A _]|[A|A]]; auto.
Qed.

Lemma wmw_good_cons : forall r off b l, wmw_good r -> wm_rlog r = WmWrite off b :: l ->
  off + N.of_nat (length b) < fm_two64 /\ N.of_nat (length b) < wmw_two32.
Proof. intros r off b l [_ Hb] Hl. apply Hb. rewrite Hl. now left. Qed.

(* ---------------------------------------------------------------- append *)
Definition wmw_hdr_pre (h : fm_chunk_header) : Prop :=
  fm_tag h <> JLS_TAG_INVALID /\ fm_tag h < 256 /\ fm_rsv0 h < 256 /\ fm_chunk_meta h < 65536 /\
  fm_item_next h < fm_two64 /\ fm_item_prev h < fm_two64.

Lemma wmw_sim_append : forall r s h payload r1 h1,
  wmw_sim r s -> wmw_hdr_pre h -> wm_raw_wr r h payload = (r1, h1) -> wmw_good r1 ->
  exists s1, wmw_sim r1 s1 /\ h1 = wm_hdr_set_ppl h (wm_last_pl r) /\ fm_chunk_header_wf h1 /\
    wo_exts s1 = {| wo_e_off := wm_fend r; wo_e_hdr := h1;
                    wo_e_table := if fm_is_head_tag (fm_tag h) then firstn (N.to_nat (fm_payload_length h)) payload else [] |} :: wo_exts s /\
    wo_find (wm_fend r) (wo_exts s) = None.
Proof.
  intros r s h payload r1 h1 Hsim (Ht0 & Ht & Hr & Hm & Hn & Hp) Heq Hgood.
  pose proof (wmw_le_raw_wr r h payload) as Hle. rewrite Heq in Hle. cbn [fst] in Hle.
  assert (Hflt : wm_fault r = false) by (apply (wmw_le_nofault _ _ Hle), Hgood).
  pose proof (wmw_sim_geom _ _ Hsim) as [Hgeo _].
  assert (Hnone : wo_find (wm_fend r) (wo_exts s) = None).
  { destruct (wo_find (wm_fend r) (wo_exts s)) as [x|] eqn:Ef; [|reflexivity].
    destruct (Hgeo _ _ Ef) as [_ B]. pose proof (wo_size_ge (wo_e_hdr x)). lia. }
  pose proof Hsim as (Hrun & _ & _ & Hlen & Hend & Hpend & H32 & H64 & Hlpl & Hdisk).
  rewrite (wmw_sim_mk _ _ Hsim), Hflt in Heq.
  rewrite (wmw_raw_wr_eq _ _ _ _ _ h payload Ht0) in Heq. cbv zeta in Heq.
  set (a := wm_fend r) in *. set (hh := wm_hdr_set_ppl h (wm_last_pl r)) in *.
  assert (Ha0 : a <> 0) by lia.
  destruct (fm_payload_length h =? 0) eqn:E0.
  - inversion Heq; subst r1 h1. clear Heq. apply N.eqb_eq in E0.
    destruct (wmw_good_cons _ _ _ _ Hgood eq_refl) as [B1 _]. rewrite wm_hdr_bytes_length in B1.
    assert (Hwf : fm_chunk_header_wf hh).
    { subst hh. unfold fm_chunk_header_wf, wm_hdr_set_ppl. cbn [fm_item_next fm_item_prev fm_tag fm_rsv0 fm_chunk_meta fm_payload_length fm_payload_prev_length].
      rewrite E0. unfold wmw_two32 in Hlpl. repeat split; auto; lia. }
    pose proof (wmw_step_hdr s a hh Hlen Ha0 Hpend Hwf) as Hst.
    assert (Ehh : fm_payload_length hh =? 0 = true) by (subst hh; cbn [wm_hdr_set_ppl fm_payload_length]; now apply N.eqb_eq).
    rewrite Ehh in Hst.
    eexists. split; [|split; [reflexivity|split; [exact Hwf|split; [|exact Hnone]]]].
    + unfold wmw_sim, wm_mk_raw. cbv [wm_rlog wm_offset wm_fpos wm_fend wm_last_pl wm_disk].
      split; [rewrite wmw_evs_cons; eapply wmw_run_snoc; [exact Hrun|exact Hst]|].
      cbn [wo_complete wo_len wo_end wo_pending wo_exts].
      repeat (split; [reflexivity || lia || (unfold wmw_two32; lia)|]).
      intros o x Hf. cbn [wo_find wo_e_off] in Hf. rewrite Hend in Hf. cbn [wm_disk_get].
      destruct (a =? o) eqn:Eo.
      * inversion Hf; subst x. eexists; split; reflexivity.
      * apply Hdisk. exact Hf.
    + cbn [wo_complete wo_exts]. rewrite Hend.
      replace (fm_tag hh) with (fm_tag h) by reflexivity. rewrite E0. cbn [N.to_nat firstn].
      destruct (fm_is_head_tag (fm_tag h)); reflexivity.
  - inversion Heq; subst r1 h1. clear Heq. apply N.eqb_neq in E0.
    destruct Hgood as [Hf1 Hb1]. unfold wm_mk_raw in Hf1, Hb1. cbv [wm_fault wm_rlog] in Hf1, Hb1.
    apply N.ltb_ge in Hf1.
    set (body := firstn (N.to_nat (fm_payload_length h)) payload) in *.
    assert (Hlb : N.of_nat (length body) = fm_payload_length h) by (subst body; rewrite firstn_length; lia).
    rewrite Hlb in *.
    destruct (Hb1 _ _ (or_introl eq_refl)) as [B3 _].
    destruct (Hb1 _ _ (or_intror (or_introl eq_refl))) as [_ B2]. rewrite Hlb in B2.
    rewrite wm_footer_length in B3.
    assert (Hwf : fm_chunk_header_wf hh).
    { subst hh. unfold fm_chunk_header_wf, wm_hdr_set_ppl. cbn [fm_item_next fm_item_prev fm_tag fm_rsv0 fm_chunk_meta fm_payload_length fm_payload_prev_length].
      unfold wmw_two32 in *. repeat split; auto; lia. }
    pose proof (wmw_step_hdr s a hh Hlen Ha0 Hpend Hwf) as Hst1.
    assert (Ehh : fm_payload_length hh = fm_payload_length h) by reflexivity.
    assert (Ehh0 : fm_payload_length hh =? 0 = false) by (rewrite Ehh; now apply N.eqb_neq).
    rewrite Ehh0 in Hst1.
    set (sA := wo_set s (a + 32) (WoHdr hh) 0 0 0 0 (wo_exts s)) in *.
    assert (Hst2 : wo_step false sA (WoWrite (a + 32) body) = inl (wo_set sA (a + 32 + fm_payload_length h) (WoPay hh body) 0 0 0 0 (wo_exts sA))).
    { apply (wmw_step_pay sA (a + 32) hh body); [reflexivity|lia|reflexivity|rewrite Ehh; exact Hlb]. }
    set (sB := wo_set sA (a + 32 + fm_payload_length h) (WoPay hh body) 0 0 0 0 (wo_exts sA)) in *.
    assert (Hst3 : wo_step false sB (WoWrite (a + 32 + fm_payload_length h) (wm_footer (fm_payload_length h) (crc32c body))) =
                   inl (wo_complete sB hh body (a + 32 + fm_payload_length h + (fm_pad_len (fm_payload_length h) + 4)))).
    { apply (wmw_step_ft sB (a + 32 + fm_payload_length h) hh body); [reflexivity|lia|reflexivity]. }
    eexists. split; [|split; [reflexivity|split; [exact Hwf|split; [|exact Hnone]]]].
    + unfold wmw_sim, wm_mk_raw. cbv [wm_rlog wm_offset wm_fpos wm_fend wm_last_pl wm_disk].
      split.
      { rewrite !wmw_evs_cons. eapply wmw_run_snoc; [eapply wmw_run_snoc; [eapply wmw_run_snoc; [exact Hrun|exact Hst1]|exact Hst2]|exact Hst3]. }
      cbn [wo_complete wo_len wo_end wo_pending wo_exts].
      repeat (split; [reflexivity || lia || (unfold wmw_two32 in *; lia)|]).
      intros o x Hf. cbn [wo_find wo_e_off wo_set wo_end wo_exts sA sB] in Hf. rewrite Hend in Hf. cbn [wm_disk_get].
      destruct (a =? o) eqn:Eo.
      * inversion Hf; subst x. eexists; split; reflexivity.
      * apply Hdisk. exact Hf.
    + cbn [wo_complete wo_exts wo_set wo_end sA sB]. rewrite Hend. reflexivity.
Qed.

(* ---------------------------------------------------------------- link *)
Lemma wmw_sim_link : forall r s head next r2 c,
  wmw_sim r s -> wmw_ref (wo_exts s) head -> wm_ck_offset next < fm_two64 ->
  wm_update_item_head r head next = (r2, c) -> wmw_good r2 ->
  exists s2, wmw_sim r2 s2 /\ c = next /\ wmw_fr None (wo_exts s) (wo_exts s2).
Proof.
  intros r s head next r2 c Hsim Href Hnx Heq Hgood.
  pose proof (wmw_le_update_item_head r head next) as Hle. rewrite Heq in Hle. cbn [fst] in Hle.
  assert (Hflt : wm_fault r = false) by (apply (wmw_le_nofault _ _ Hle), Hgood).
  destruct Href as [H0|(Hlt & Hwf & x & Hf & Hn)].
  - unfold wm_update_item_head in Heq. rewrite H0 in Heq. cbn [N.eqb] in Heq. inversion Heq; subst.
    exists s. split; [exact Hsim|]. split; [reflexivity|apply wmw_fr_refl].
  - pose proof (wmw_sim_geom _ _ Hsim) as [Hgeo _].
    destruct (Hgeo _ _ Hf) as [G1 G2]. pose proof (wo_size_ge (wo_e_hdr x)) as G3.
    pose proof Hsim as (Hrun & _ & _ & Hlen & Hend & Hpend & H32 & H64 & Hlpl & Hdisk).
    rewrite (wmw_sim_mk _ _ Hsim), Hflt in Heq.
    rewrite wmw_update_item_head_eq in Heq by lia. cbv zeta in Heq.
    set (a := wm_fend r) in *. set (o := wm_ck_offset head) in *.
    set (h' := wm_hdr_set_next (wm_ck_hdr head) (wm_ck_offset next)) in *.
    inversion Heq; subst r2 c. clear Heq.
    assert (Hwf' : fm_chunk_header_wf h').
    { destruct Hwf as (W1 & W2 & W3 & W4 & W5 & W6 & W7). subst h'. unfold fm_chunk_header_wf, wm_hdr_set_next.
      cbn [fm_item_next fm_item_prev fm_tag fm_rsv0 fm_chunk_meta fm_payload_length fm_payload_prev_length]. repeat split; auto. }
    assert (Hn' : wmw_nn (wo_e_hdr x) h') by (eapply wmw_nn_trans; [exact Hn|apply wmw_nn_set_next]).
    pose proof (wmw_step_link s a o x h' Hlen ltac:(lia) ltac:(lia) Hpend Hf Hwf' Hn') as Hst.
    set (y := {| wo_e_off := o; wo_e_hdr := h'; wo_e_table := wo_e_table x |}) in *.
    eexists. split; [|split; [reflexivity|]].
    + unfold wmw_sim, wm_mk_raw. cbv [wm_rlog wm_offset wm_fpos wm_fend wm_last_pl wm_disk].
      split; [rewrite wmw_evs_cons; eapply wmw_run_snoc; [exact Hrun|exact Hst]|].
      cbn [wo_set wo_len wo_end wo_pending wo_exts].
      repeat (split; [reflexivity || lia || assumption|]).
      intros o' x' Hf'. rewrite (wmw_find_update y (wo_exts s) x o' Hf) in Hf'. cbn [wo_e_off y] in Hf'. cbn [wm_disk_get].
      destruct (o =? o') eqn:Eo.
      * inversion Hf'; subst x'. eexists; split; reflexivity.
      * apply Hdisk. exact Hf'.
    + cbn [wo_set wo_exts]. apply (wmw_fr_update_hdr (wo_exts s) y x); [exact Hf|exact Hn'|reflexivity].
Qed.

(* ---------------------------------------------------------------- head table *)
Definition wmw_tbl_rewrite (r : wm_raw) (o : N) (payload : list N) : wm_raw :=
  wm_raw_chunk_seek (wm_raw_wr_payload (wm_raw_chunk_seek r o) SIZEOF_track_head payload) (wm_raw_chunk_tell r).

Lemma wmw_le_tbl_rewrite : forall r o payload, wmw_le r (wmw_tbl_rewrite r o payload).
Proof.
  intros. unfold wmw_tbl_rewrite.
  eapply wmw_le_trans; [apply wmw_le_chunk_seek|].
  eapply wmw_le_trans; [apply wmw_le_wr_payload|]. apply wmw_le_chunk_seek.
Qed.

Lemma wmw_head_payload_length : forall l, length l = 16%nat -> N.of_nat (length (wm_head_payload l)) = SIZEOF_track_head.
Proof. intros l H. unfold wm_head_payload. do 17 (destruct l as [|? l]; try discriminate). reflexivity. Qed.

Lemma wmw_sim_tbl : forall r s o x olds news,
  wmw_sim r s -> wo_find o (wo_exts s) = Some x ->
  fm_is_head_tag (fm_tag (wo_e_hdr x)) = true -> fm_payload_length (wo_e_hdr x) = SIZEOF_track_head ->
  wo_e_table x = wm_head_payload olds -> length olds = 16%nat -> length news = 16%nat ->
  Forall2 (fun a b => b = a \/ (a = 0 /\ b < fm_two64 /\ wo_is_start b (wo_exts s) = true)) olds news ->
  wmw_good (wmw_tbl_rewrite r o (wm_head_payload news)) ->
  exists s', wmw_sim (wmw_tbl_rewrite r o (wm_head_payload news)) s' /\
    wmw_fr (Some o) (wo_exts s) (wo_exts s') /\
    wo_find o (wo_exts s') = Some {| wo_e_off := o; wo_e_hdr := wo_e_hdr x; wo_e_table := wm_head_payload news |}.
Proof.
  intros r s o x olds news Hsim Hf Hhead Hpl Htbl Lo Ln HF Hgood.
  pose proof (wmw_le_tbl_rewrite r o (wm_head_payload news)) as Hle.
  assert (Hflt : wm_fault r = false) by (apply (wmw_le_nofault _ _ Hle), Hgood).
  pose proof (wmw_sim_geom _ _ Hsim) as [Hgeo Hdis].
  destruct (Hgeo _ _ Hf) as [G1 G2].
  assert (Hsz : wo_size (wo_e_hdr x) = 168) by (unfold wo_size; rewrite Hpl; reflexivity).
  rewrite Hsz in G2.
  assert (Hnone : wo_find (o + 32) (wo_exts s) = None).
  { destruct (wo_find (o + 32) (wo_exts s)) as [x2|] eqn:E2; [|reflexivity].
    pose proof (wo_size_ge (wo_e_hdr x2)).
    destruct (Hdis _ _ _ _ Hf E2) as [A|[A|A]]; rewrite ?Hsz in A; lia. }
  pose proof Hsim as (Hrun & _ & _ & Hlen & Hend & Hpend & H32 & H64 & Hlpl & Hdisk).
  destruct (Hdisk _ _ Hf) as (hd & Hdg & Hdpl). rewrite Hpl in Hdpl.
  pose proof (wmw_head_payload_length news Ln) as Hplen.
  unfold wmw_tbl_rewrite in *. unfold wm_raw_chunk_tell in *.
  rewrite (wmw_sim_mk _ _ Hsim), Hflt in Hgood |- *.
  change (wm_offset (wm_mk_raw (wm_fend r) (wm_fend r) (wm_fend r) (wm_hdr r) (wm_last_pl r) (wm_disk r) (wm_rlog r) false)) with (wm_fend r) in *.
  rewrite (wmw_tbl_rewrite_eq (wm_fend r) (wm_hdr r) (wm_last_pl r) (wm_disk r) (wm_rlog r) o hd (wm_head_payload news)) in Hgood |- * by (auto; lia).
  set (a := wm_fend r) in *.
  pose proof (wmw_step_tbl s a o x news olds Hlen ltac:(lia) ltac:(lia) Hpend Hnone Hf Hhead Hpl Htbl Lo Ln HF) as Hst1.
  set (y := {| wo_e_off := o; wo_e_hdr := wo_e_hdr x; wo_e_table := wm_head_payload news |}) in *.
  set (sA := wo_set s a (WoTbl o (wo_e_hdr x) (wm_head_payload news)) 0 0 0 0 (wo_update y (wo_exts s))) in *.
  assert (Hst2 : wo_step false sA (WoWrite (o + 32 + SIZEOF_track_head) (wm_footer SIZEOF_track_head (crc32c (wm_head_payload news)))) =
                 inl (wo_set sA a WoIdle 0 0 1 0 (wo_exts sA))).
  { rewrite <- Hpl. apply (wmw_step_tbl_ft sA a o (wo_e_hdr x) (wm_head_payload news)); [reflexivity|lia|reflexivity]. }
  eexists. split; [|split].
  - unfold wmw_sim, wm_mk_raw. cbv [wm_rlog wm_offset wm_fpos wm_fend wm_last_pl wm_disk].
    split; [rewrite !wmw_evs_cons; eapply wmw_run_snoc; [eapply wmw_run_snoc; [exact Hrun|exact Hst1]|exact Hst2]|].
    cbn [wo_set wo_len wo_end wo_pending wo_exts sA].
    repeat (split; [reflexivity || lia || assumption|]).
    split; [destruct (a <=? o + 168); [reflexivity|exact Hlpl]|].
    intros o' x' Hf'. rewrite (wmw_find_update y (wo_exts s) x o' Hf) in Hf'. cbn [wo_e_off y] in Hf'.
    destruct (o =? o') eqn:Eo.
    + apply N.eqb_eq in Eo. subst o'. inversion Hf'; subst x'. exists hd. split; [exact Hdg|]. cbn [y wo_e_hdr]. congruence.
    + apply Hdisk. exact Hf'.
  - cbn [wo_set wo_exts sA]. apply (wmw_fr_update_tbl (wo_exts s) y x); [exact Hf|reflexivity].
  - cbn [wo_set wo_exts sA]. rewrite (wmw_find_update y (wo_exts s) x o Hf). cbn [wo_e_off y]. rewrite N.eqb_refl. reflexivity.
Qed.

(* ---------------------------------------------------------------- flush, close *)
Lemma wmw_le_flush : forall r, wmw_le r (wm_raw_flush r).
Proof.
  intro r. exists [WmSync]. split; [reflexivity|]. intro Hf. split; [exact Hf|]. intro Hp. split; [exact Hp|apply wmw_nz_sync].
Qed.
Lemma wmw_sim_flush : forall r s, wmw_sim r s -> wmw_sim (wm_raw_flush r) s.
Proof.
  intros r s (Hrun & H). split; [|exact H].
  unfold wm_raw_flush, wm_bk_fflush, wm_log_add. cbv [wm_rlog]. rewrite wmw_evs_cons.
  eapply wmw_run_snoc; [exact Hrun|reflexivity].
Qed.

(* jls_raw_close writes the file header at offset 0: not a [wmw_le] step; the log grows by that one write and the
   fault flag is untouched *)
Lemma wmw_close_log : forall r, wm_rlog (wm_raw_close r) = WmWrite 0 (wm_file_header_bytes (wm_fend r)) :: wm_rlog r /\
  wm_fault (wm_raw_close r) = wm_fault r.
Proof.
  intro r. unfold wm_raw_close, wm_wr_file_header. destruct (wm_fpos r =? 0); split; reflexivity.
Qed.
Lemma wmw_good_close : forall r, wmw_good (wm_raw_close r) -> wmw_good r.
Proof.
  intros r [G1 G2]. destruct (wmw_close_log r) as [L F]. split; [congruence|].
  rewrite L in G2. intros off b Hin. apply G2. now right.
Qed.
Lemma wmw_sim_close : forall r s, wmw_sim r s ->
  exists s', wmw_sim (wm_raw_close r) s' /\ wo_exts s' = wo_exts s.
Proof.
  intros r s Hsim.
  pose proof Hsim as (Hrun & _ & _ & Hlen & Hend & Hpend & H32 & H64 & Hlpl & Hdisk).
  rewrite (wmw_sim_mk _ _ Hsim). rewrite wmw_raw_close_eq by exact H32.
  set (a := wm_fend r) in *.
  pose proof (wmw_step_fh s a Hlen ltac:(lia) H64 Hpend) as Hst.
  exists (wo_set s a WoIdle 0 0 0 1 (wo_exts s)). split; [|reflexivity].
  unfold wmw_sim, wm_mk_raw. cbv [wm_rlog wm_offset wm_fpos wm_fend wm_last_pl wm_disk].
  split; [rewrite wmw_evs_cons; eapply wmw_run_snoc; [exact Hrun|exact Hst]|].
  cbn [wo_set wo_len wo_end wo_pending wo_exts].
  repeat (split; [reflexivity || lia || assumption|]). exact Hdisk.
Qed.

(* ---------------------------------------------------------------- open *)
Lemma wmw_sim_open : exists s, wmw_sim wm_raw_open s /\ wo_exts s = [].
Proof.
  assert (Hst : wo_step false wo_st0 (WoWrite 0 (wm_file_header_bytes 0)) =
                inl {| wo_len := 32; wo_end := 32; wo_exts := []; wo_pending := WoIdle; wo_n_app := 0; wo_n_link := 0; wo_n_tbl := 0; wo_n_fh := 1 |}).
  { unfold wo_step, wo_step_write. cbv zeta. rewrite N.eqb_refl. unfold wm_file_header_bytes.
    rewrite fm_file_header_roundtrip0 by (cbn [fm_fh_length fm_fh_version]; reflexivity).
    rewrite fm_encode_file_header_length. reflexivity. }
  exists {| wo_len := 32; wo_end := 32; wo_exts := []; wo_pending := WoIdle; wo_n_app := 0; wo_n_link := 0; wo_n_tbl := 0; wo_n_fh := 1 |}.
  split; [|reflexivity].
  unfold wmw_sim. split.
  - change (wm_rlog wm_raw_open) with [WmWrite 0 (wm_file_header_bytes 0); WmTrunc 0].
    rewrite !wmw_evs_cons. change (wmw_evs []) with (@nil wo_ev). cbn [app wmw_to_wo].
    cbn [wo_run]. change (wo_step false wo_st0 (WoTrunc 0)) with (@inl wo_st wo_reason wo_st0). cbv beta iota.
    rewrite Hst. reflexivity.
  - assert (Hl : N.of_nat (length (wm_file_header_bytes 0)) = 32)
      by (unfold wm_file_header_bytes; rewrite fm_encode_file_header_length; reflexivity).
    unfold wm_raw_open, wm_wr_file_header, wm_raw0, wm_log_add, wm_bk_fseek, wm_set_fpos, wm_bk_fwrite.
    cbv [wm_rlog wm_offset wm_fpos wm_fend wm_last_pl wm_disk wm_hdr wm_fault]. rewrite N.eqb_refl.
    unfold wm_set_offset. cbv [wm_rlog wm_offset wm_fpos wm_fend wm_last_pl wm_disk wm_hdr wm_fault].
    rewrite Hl. cbn [wo_len wo_end wo_pending wo_exts].
    change (N.max 0 (0 + 32)) with 32. change (0 + 32) with 32.
    repeat (split; [reflexivity || (unfold fm_two64, wmw_two32; lia)|]).
    intros o x Hf. discriminate.
Qed.

(* ================================================================ append + link (the unit every chunk goes through) *)
Lemma wmw_le_append_link : forall r head h payload r1 h1 r2 c nx,
  wm_raw_wr r h payload = (r1, h1) -> wm_update_item_head r1 head nx = (r2, c) -> wmw_le r r2.
Proof.
  intros r head h payload r1 h1 r2 c nx E1 E2.
  pose proof (wmw_le_raw_wr r h payload) as L1. rewrite E1 in L1.
  pose proof (wmw_le_update_item_head r1 head nx) as L2. rewrite E2 in L2.
  eapply wmw_le_trans; eauto.
Qed.

Lemma wmw_sim_append_link : forall r s head h payload r1 h1 r2 c,
  wmw_sim r s -> wmw_ref (wo_exts s) head -> wmw_hdr_pre h ->
  wm_raw_wr r h payload = (r1, h1) ->
  wm_update_item_head r1 head {| wm_ck_offset := wm_raw_chunk_tell r; wm_ck_hdr := h1 |} = (r2, c) ->
  wmw_good r2 ->
  exists s2, wmw_sim r2 s2 /\ wmw_fr None (wo_exts s) (wo_exts s2) /\ wmw_ref (wo_exts s2) c /\
    c = {| wm_ck_offset := wm_fend r; wm_ck_hdr := h1 |} /\ wm_fend r < fm_two64 /\ wm_fend r <> 0 /\
    exists x, wo_find (wm_fend r) (wo_exts s2) = Some x /\ wmw_nn h1 (wo_e_hdr x) /\
      fm_tag h1 = fm_tag h /\ fm_chunk_meta h1 = fm_chunk_meta h /\ fm_payload_length h1 = fm_payload_length h /\
      wo_e_table x = (if fm_is_head_tag (fm_tag h) then firstn (N.to_nat (fm_payload_length h)) payload else []).
Proof.
  intros r s head h payload r1 h1 r2 c Hsim Href Hpre E1 E2 Hgood.
  pose proof (wmw_le_update_item_head r1 head {| wm_ck_offset := wm_raw_chunk_tell r; wm_ck_hdr := h1 |}) as L2.
  rewrite E2 in L2. cbn [fst] in L2.
  pose proof (wmw_good_le _ _ L2 Hgood) as Hgood1.
  destruct (wmw_sim_append r s h payload r1 h1 Hsim Hpre E1 Hgood1) as (s1 & Hsim1 & Hh1 & Hwf1 & Hex1 & Hnone).
  pose proof Hsim as (_ & Hoff & _ & _ & _ & _ & H32 & H64 & _).
  unfold wm_raw_chunk_tell in E2. rewrite Hoff in E2.
  set (a := wm_fend r) in *.
  set (xn := {| wo_e_off := a; wo_e_hdr := h1;
               wo_e_table := if fm_is_head_tag (fm_tag h) then firstn (N.to_nat (fm_payload_length h)) payload else [] |}) in *.
  assert (Hfr1 : wmw_fr None (wo_exts s) (wo_exts s1)) by (rewrite Hex1; apply wmw_fr_cons; exact Hnone).
  assert (Href1 : wmw_ref (wo_exts s1) head) by (eapply wmw_ref_fr; eauto).
  destruct (wmw_sim_link r1 s1 head {| wm_ck_offset := a; wm_ck_hdr := h1 |} r2 c Hsim1 Href1 H64 E2 Hgood) as (s2 & Hsim2 & Hc & Hfr2).
  assert (Hfn : wo_find a (wo_exts s1) = Some xn) by (rewrite Hex1; cbn [wo_find xn wo_e_off]; rewrite N.eqb_refl; reflexivity).
  destruct (Hfr2 _ _ Hfn) as (x' & F' & Nn' & T').
  exists s2. split; [exact Hsim2|]. split; [eapply wmw_fr_trans; eauto|].
  split.
  { rewrite Hc. right. cbn [wm_ck_offset wm_ck_hdr]. split; [exact H64|]. split; [exact Hwf1|].
    exists x'. split; [exact F'|]. apply wmw_nn_sym. exact Nn'. }
  split; [exact Hc|]. split; [exact H64|]. split; [lia|].
  exists x'. split; [exact F'|]. split; [exact Nn'|].
  rewrite Hh1. cbn [wm_hdr_set_ppl fm_tag fm_chunk_meta fm_payload_length].
  repeat (split; [reflexivity|]). rewrite T' by discriminate. reflexivity.
Qed.

(* the fresh header the writer builds *)
Lemma wmw_mk_hdr_pre : forall E head tag meta plen, wmw_ref E head -> tag <> 0 -> tag < 256 -> meta < 65536 ->
  wmw_hdr_pre (wm_mk_hdr (wm_ck_offset head) tag meta plen).
Proof.
  intros E head tag meta plen Href T0 T1 M. unfold wmw_hdr_pre, wm_mk_hdr.
  cbn [fm_item_next fm_item_prev fm_tag fm_rsv0 fm_chunk_meta].
  repeat (split; [assumption || (unfold fm_two64; lia)|]).
  destruct Href as [->|(H & _)]; [unfold fm_two64; lia|exact H].
Qed.

Lemma wmw_track_tag_ok : forall ty k, ty < 4 -> k <= JLS_TRACK_CHUNK_SUMMARY -> fm_track_tag ty k <> 0 /\ fm_track_tag ty k < 256.
Proof.
  intros ty k H1 H2. destruct (fm_track_tag_roundtrip ty k H1 H2) as (A & _ & _ & D). split; [|exact D].
  intro E. rewrite E in A. discriminate.
Qed.
Lemma wmw_head_tag_is_head : forall ty, ty < 4 -> fm_is_head_tag (fm_track_tag ty JLS_TRACK_CHUNK_HEAD) = true.
Proof.
  intros ty H. destruct (fm_track_tag_roundtrip ty JLS_TRACK_CHUNK_HEAD H ltac:(discriminate)) as (A & _ & C & _).
  unfold fm_is_head_tag. rewrite A, C. reflexivity.
Qed.
Lemma wmw_meta_lt : forall id level, wm_meta id level < 65536.
Proof. intros. unfold wm_meta. apply N.mod_lt. discriminate. Qed.

(* ================================================================ base and track steps *)
Definition wmw_binv (b : wm_base) (s : wo_st) : Prop :=
  wmw_sim (wm_b_raw b) s /\ wmw_ref (wo_exts s) (wm_b_source_head b) /\
  wmw_ref (wo_exts s) (wm_b_signal_head b) /\ wmw_ref (wo_exts s) (wm_b_ud_head b).

Definition wmw_bgood (b : wm_base) : Prop := wmw_good (wm_b_raw b).
Definition wmw_ble (b b' : wm_base) : Prop := wmw_le (wm_b_raw b) (wm_b_raw b').

Definition wmw_bstep (b b' : wm_base) : Prop :=
  wmw_ble b b' /\
  forall s, wmw_binv b s -> wmw_bgood b' -> exists s', wmw_binv b' s' /\ wmw_fr None (wo_exts s) (wo_exts s').

Definition wmw_tstep (id ty : N) (b : wm_base) (t : wm_track) (b' : wm_base) (t' : wm_track) : Prop :=
  wmw_ble b b' /\
  forall s, wmw_binv b s -> wmw_track (wo_exts s) id ty t -> wmw_bgood b' ->
    exists s', wmw_binv b' s' /\ wmw_track (wo_exts s') id ty t' /\
               wmw_fr (wmw_headopt t') (wo_exts s) (wo_exts s') /\
               (wmw_head_off t <> 0 -> wmw_head_off t' = wmw_head_off t).

Lemma wmw_tstep_refl : forall id ty b t, wmw_tstep id ty b t b t.
Proof.
  intros. split; [apply wmw_le_refl|]. intros s Hb Ht _. exists s. split; [exact Hb|]. split; [exact Ht|]. split; [apply wmw_fr_refl|auto].
Qed.

Lemma wmw_fr_chain : forall t1 t2 E E1 E2,
  wmw_fr (wmw_headopt t1) E E1 -> wmw_fr (wmw_headopt t2) E1 E2 ->
  (wmw_head_off t1 <> 0 -> wmw_head_off t2 = wmw_head_off t1) -> wmw_fr (wmw_headopt t2) E E2.
Proof.
  intros t1 t2 E E1 E2 H1 H2 Hs. eapply wmw_fr_trans; [|exact H2].
  unfold wmw_headopt in *. destruct (wmw_head_off t1 =? 0) eqn:E0.
  - apply wmw_fr_weaken. exact H1.
  - apply N.eqb_neq in E0. rewrite (Hs E0). apply N.eqb_neq in E0. rewrite E0. exact H1.
Qed.

Lemma wmw_tstep_trans : forall id ty b t b1 t1 b2 t2,
  wmw_tstep id ty b t b1 t1 -> wmw_tstep id ty b1 t1 b2 t2 -> wmw_tstep id ty b t b2 t2.
Proof.
  intros id ty b t b1 t1 b2 t2 [L1 S1] [L2 S2]. split; [eapply wmw_le_trans; eauto|].
  intros s Hb Ht Hg.
  assert (Hg1 : wmw_bgood b1) by (eapply wmw_good_le; eauto).
  destruct (S1 s Hb Ht Hg1) as (s1 & Hb1 & Ht1 & F1 & St1).
  destruct (S2 s1 Hb1 Ht1 Hg) as (s2 & Hb2 & Ht2 & F2 & St2).
  exists s2. split; [exact Hb2|]. split; [exact Ht2|]. split.
  - eapply wmw_fr_chain; eauto.
  - intro H0. rewrite St2; [apply St1; exact H0|]. rewrite St1; auto.
Qed.

Lemma wmw_tstep_fault : forall id ty b t t', wmw_tstep id ty b t (wm_b_fault b) t'.
Proof.
  intros. split; [apply wmw_le_fault; reflexivity|].
  intros s _ _ [Hf _]. cbn in Hf. discriminate.
Qed.

(* only the ts / fsr component differs *)
Lemma wmw_binv_set_raw_same : forall b s, wmw_binv (wm_b_set_raw b (wm_b_raw b)) s <-> wmw_binv b s.
Proof. intros. destruct b; reflexivity. Qed.

Lemma wmw_binv_fr : forall b s b' s' o, wmw_binv b s -> wmw_fr o (wo_exts s) (wo_exts s') ->
  wmw_sim (wm_b_raw b') s' -> wm_b_source_head b' = wm_b_source_head b -> wm_b_signal_head b' = wm_b_signal_head b ->
  wm_b_ud_head b' = wm_b_ud_head b -> wmw_binv b' s'.
Proof.
  intros b s b' s' o (_ & R1 & R2 & R3) Hfr Hsim E1 E2 E3. unfold wmw_binv. rewrite E1, E2, E3.
  split; [exact Hsim|]. split; [|split]; eapply wmw_ref_fr; eauto.
Qed.

(* the relation allowed between old and new head-table entries *)
Definition wmw_ent (E : list wo_ext) (a b : N) : Prop := b = a \/ (a = 0 /\ b < fm_two64 /\ wo_is_start b E = true).
Lemma wmw_ent_refl : forall E l, Forall2 (wmw_ent E) l l.
Proof. intros E l. induction l; constructor; auto. now left. Qed.
Lemma wmw_ent_upd : forall E l n pos, nth n l 0 = 0 -> pos < fm_two64 -> wo_is_start pos E = true ->
  Forall2 (wmw_ent E) l (wm_upd n pos l).
Proof.
  intros E l. induction l as [|a l IH]; intros n pos Hn Hp Hs; destruct n; cbn [wm_upd]; try constructor.
  - right. cbn [nth] in Hn. auto.
  - apply wmw_ent_refl.
  - now left.
  - apply IH; auto.
Qed.

(* jls_track_wr_head with the (possibly updated) table [offs'] *)
Lemma wmw_track_wr_head_step : forall id ty b t offs' b' t',
  wm_track_wr_head b id (wm_tk_set_offsets t offs') = (b', t') ->
  wmw_ble b b' /\
  forall s, wmw_binv b s -> wmw_track (wo_exts s) id ty t -> length offs' = 16%nat ->
    Forall2 (wmw_ent (wo_exts s)) (wm_tk_offsets t) offs' -> wmw_bgood b' ->
    exists s', wmw_binv b' s' /\ wmw_track (wo_exts s') id ty t' /\
               wmw_fr (wmw_headopt t') (wo_exts s) (wo_exts s') /\
               (wmw_head_off t <> 0 -> wmw_head_off t' = wmw_head_off t).
Proof.
  intros id ty b t offs' b' t' Heq. unfold wm_track_wr_head in Heq. cbv zeta in Heq.
  cbn [wm_tk_head wm_tk_offsets wm_tk_set_offsets wm_tk_type] in Heq.
  destruct (wm_ck_offset (wm_tk_head t) =? 0) eqn:E0.
  - (* first call: a new HEAD chunk on the signal list *)
    destruct (wm_raw_wr _ _ _) as [r1 h1] eqn:E1. destruct (wm_update_item_head _ _ _) as [r2 sh] eqn:E2.
    inversion Heq; subst b' t'. clear Heq.
    split; [unfold wmw_ble; cbn [wm_b_raw wm_b_set_signal_head wm_b_set_raw]; eapply wmw_le_append_link; eauto|].
    intros s Hb Ht Lo HF Hg. unfold wmw_bgood in Hg. cbn [wm_b_raw wm_b_set_signal_head wm_b_set_raw] in Hg.
    pose proof Hb as (Hsim & R1 & R2 & R3).
    pose proof Ht as (T1 & T2 & T3 & T4 & T5 & T6 & T7 & T8).
    destruct (wmw_track_tag_ok ty JLS_TRACK_CHUNK_HEAD T2 ltac:(discriminate)) as [G0 G1].
    rewrite T1 in E1.
    assert (Hpre : wmw_hdr_pre (wm_mk_hdr (wm_ck_offset (wm_b_signal_head b)) (fm_track_tag ty JLS_TRACK_CHUNK_HEAD) id SIZEOF_track_head))
      by (eapply wmw_mk_hdr_pre; eauto; lia).
    destruct (wmw_sim_append_link _ _ _ _ _ _ _ _ _ Hsim R2 Hpre E1 E2 Hg)
      as (s2 & Hsim2 & Hfr & Hrefc & Hc & H64 & Ha0 & x & Hfx & Hnx & X1 & X2 & X3 & X4).
    exists s2. split; [|split; [|split]].
    + unfold wmw_binv. cbn [wm_b_raw wm_b_source_head wm_b_signal_head wm_b_ud_head wm_b_set_signal_head wm_b_set_raw].
      split; [exact Hsim2|]. split; [eapply wmw_ref_fr; eauto|]. split; [exact Hrefc|eapply wmw_ref_fr; eauto].
    + unfold wmw_track. cbn [wm_tk_type wm_tk_offsets wm_tk_data_head wm_tk_index_head wm_tk_summary_head wm_tk_set_head wm_tk_set_offsets].
      split; [exact T1|]. split; [exact T2|]. split; [exact T3|]. split; [exact Lo|].
      split; [eapply wmw_ref_fr; eauto|]. split; [eapply wmw_Forall_ref_fr; eauto|]. split; [eapply wmw_Forall_ref_fr; eauto|].
      intros _. unfold wmw_head_off. cbn [wm_tk_head wm_tk_set_head wm_ck_offset].
      unfold wm_raw_chunk_tell. rewrite (proj1 (proj2 Hsim)).
      exists x. split; [exact Hfx|]. destruct Hnx as (_ & N2 & _ & N4 & N5 & _).
      cbn [wm_mk_hdr fm_tag fm_chunk_meta fm_payload_length] in X1, X2, X3, X4.
      split; [congruence|]. split; [congruence|]. split; [congruence|].
      rewrite X4, (wmw_head_tag_is_head ty T2).
      pose proof (wmw_head_payload_length offs' Lo) as Hl.
      rewrite <- Hl, Nat2N.id, firstn_all. reflexivity.
    + apply wmw_fr_weaken. exact Hfr.
    + intro H0. unfold wmw_head_off in H0. apply N.eqb_eq in E0. congruence.
  - (* later calls: rewrite the table in place *)
    inversion Heq; subst b' t'. clear Heq.
    split; [unfold wmw_ble; cbn [wm_b_raw wm_b_set_raw]; apply wmw_le_tbl_rewrite|].
    intros s Hb Ht Lo HF Hg. unfold wmw_bgood in Hg. cbn [wm_b_raw wm_b_set_raw] in Hg.
    pose proof Hb as (Hsim & R1 & R2 & R3).
    pose proof Ht as (T1 & T2 & T3 & T4 & T5 & T6 & T7 & T8).
    apply N.eqb_neq in E0. destruct (T8 E0) as (x & Hfx & X1 & X2 & X3 & X4).
    assert (Hhead : fm_is_head_tag (fm_tag (wo_e_hdr x)) = true) by (rewrite X1; apply wmw_head_tag_is_head; exact T2).
    destruct (wmw_sim_tbl _ _ _ _ _ _ Hsim Hfx Hhead X3 X4 T4 Lo HF Hg) as (s' & Hsim' & Hfr & Hfx').
    assert (Hho : wmw_headopt (wm_tk_set_offsets t offs') = Some (wmw_head_off t)).
    { unfold wmw_headopt, wmw_head_off. cbn [wm_tk_head wm_tk_set_offsets]. apply N.eqb_neq in E0. rewrite E0. reflexivity. }
    exists s'. split; [|split; [|split]].
    + eapply wmw_binv_fr; [exact Hb|exact Hfr|exact Hsim'|reflexivity|reflexivity|reflexivity].
    + unfold wmw_track. cbn [wm_tk_type wm_tk_offsets wm_tk_data_head wm_tk_index_head wm_tk_summary_head wm_tk_set_offsets].
      split; [exact T1|]. split; [exact T2|]. split; [exact T3|]. split; [exact Lo|].
      split; [eapply wmw_ref_fr; eauto|]. split; [eapply wmw_Forall_ref_fr; eauto|]. split; [eapply wmw_Forall_ref_fr; eauto|].
      intros _. eexists. split; [exact Hfx'|]. cbn [wo_e_hdr wo_e_table]. repeat split; auto.
    + rewrite Hho. exact Hfr.
    + intros _. reflexivity.
Qed.

(* ================================================================ core.c / track.c *)
(* a chunk appended to one of the lists, base part *)
Lemma wmw_base_append : forall b head tag meta plen payload r1 h1 r2 c,
  wm_raw_wr (wm_b_raw b) (wm_mk_hdr (wm_ck_offset head) tag meta plen) payload = (r1, h1) ->
  wm_update_item_head r1 head {| wm_ck_offset := wm_raw_chunk_tell (wm_b_raw b); wm_ck_hdr := h1 |} = (r2, c) ->
  wmw_ble b (wm_b_set_raw b r2) /\
  forall s, wmw_binv b s -> wmw_ref (wo_exts s) head -> tag <> 0 -> tag < 256 -> meta < 65536 -> wmw_good r2 ->
    exists s', wmw_binv (wm_b_set_raw b r2) s' /\ wmw_fr None (wo_exts s) (wo_exts s') /\ wmw_ref (wo_exts s') c /\
      wm_ck_offset c = wm_raw_chunk_tell (wm_b_raw b) /\ wm_ck_offset c < fm_two64 /\ wm_ck_offset c <> 0 /\
      wo_is_start (wm_ck_offset c) (wo_exts s') = true /\
      exists x, wo_find (wm_ck_offset c) (wo_exts s') = Some x /\ fm_tag (wo_e_hdr x) = tag /\ fm_chunk_meta (wo_e_hdr x) = meta /\
        fm_payload_length (wo_e_hdr x) = plen /\
        wo_e_table x = (if fm_is_head_tag tag then firstn (N.to_nat plen) payload else []).
Proof.
  intros b head tag meta plen payload r1 h1 r2 c E1 E2.
  split; [unfold wmw_ble; cbn [wm_b_raw wm_b_set_raw]; eapply wmw_le_append_link; eauto|].
  intros s Hb Href T0 T1 M Hg. pose proof Hb as (Hsim & R1 & R2 & R3).
  assert (Hpre : wmw_hdr_pre (wm_mk_hdr (wm_ck_offset head) tag meta plen)) by (eapply wmw_mk_hdr_pre; eauto).
  destruct (wmw_sim_append_link _ _ _ _ _ _ _ _ _ Hsim Href Hpre E1 E2 Hg)
    as (s2 & Hsim2 & Hfr & Hrefc & Hc & H64 & Ha0 & x & Hfx & Hnx & X1 & X2 & X3 & X4).
  exists s2. split; [eapply wmw_binv_fr; [exact Hb|exact Hfr|exact Hsim2|reflexivity|reflexivity|reflexivity]|].
  split; [exact Hfr|]. split; [exact Hrefc|].
  assert (Hoc : wm_ck_offset c = wm_fend (wm_b_raw b)) by (rewrite Hc; reflexivity).
  rewrite Hoc. split; [unfold wm_raw_chunk_tell; symmetry; exact (proj1 (proj2 Hsim))|].
  split; [exact H64|]. split; [exact Ha0|]. split; [unfold wo_is_start; rewrite Hfx; reflexivity|].
  exists x. split; [exact Hfx|]. destruct Hnx as (_ & N2 & _ & N4 & N5 & _).
  cbn [wm_mk_hdr fm_tag fm_chunk_meta fm_payload_length] in X1, X2, X3, X4.
  split; [congruence|]. split; [congruence|]. split; [congruence|exact X4].
Qed.

Lemma wmw_track_fr_none : forall E E' id ty t, wmw_fr None E E' -> wmw_track E id ty t -> wmw_track E' id ty t.
Proof. intros. eapply wmw_track_fr; eauto. intros _. discriminate. Qed.

Lemma wmw_track_set_data_head : forall E id ty t c, wmw_track E id ty t -> wmw_ref E c -> wmw_track E id ty (wm_tk_set_data_head t c).
Proof. intros E id ty t c (A & B & C & D & R1 & R2 & R3 & H) Hc. unfold wmw_track. cbn. auto 10. Qed.
Lemma wmw_track_set_index_head : forall E id ty t l, wmw_track E id ty t -> Forall (wmw_ref E) l -> wmw_track E id ty (wm_tk_set_index_head t l).
Proof. intros E id ty t c (A & B & C & D & R1 & R2 & R3 & H) Hc. unfold wmw_track. cbn. auto 10. Qed.
Lemma wmw_track_set_summary_head : forall E id ty t l, wmw_track E id ty t -> Forall (wmw_ref E) l -> wmw_track E id ty (wm_tk_set_summary_head t l).
Proof. intros E id ty t c (A & B & C & D & R1 & R2 & R3 & H) Hc. unfold wmw_track. cbn. auto 10. Qed.

(* jls_track_update *)
Lemma wmw_track_update_step : forall id ty b t level pos b' t',
  wm_track_update b id t level pos = (b', t') ->
  wmw_ble b b' /\
  forall s, wmw_binv b s -> wmw_track (wo_exts s) id ty t -> pos < fm_two64 -> wo_is_start pos (wo_exts s) = true -> wmw_bgood b' ->
    exists s', wmw_binv b' s' /\ wmw_track (wo_exts s') id ty t' /\
               wmw_fr (wmw_headopt t') (wo_exts s) (wo_exts s') /\
               (wmw_head_off t <> 0 -> wmw_head_off t' = wmw_head_off t).
Proof.
  intros id ty b t level pos b' t' Heq. unfold wm_track_update in Heq.
  destruct (wm_get_off (wm_tk_offsets t) level =? 0) eqn:E0.
  - destruct (wmw_track_wr_head_step id ty _ _ _ _ _ Heq) as [L S]. split; [exact L|].
    intros s Hb Ht Hp Hs Hg. apply N.eqb_eq in E0.
    apply (S s Hb Ht); [rewrite wmw_upd_length; apply Ht| |exact Hg].
    apply wmw_ent_upd; auto.
  - inversion Heq; subst. destruct (wmw_tstep_refl id ty b' t') as [L S]. split; [exact L|].
    intros s Hb Ht _ _ Hg. exact (S s Hb Ht Hg).
Qed.

(* jls_core_wr_summary *)
Lemma wmw_core_wr_summary_step : forall id ty b t level payload plen b' t',
  wm_core_wr_summary b id t level payload plen = (b', t') -> wmw_tstep id ty b t b' t'.
Proof.
  intros id ty b t level payload plen b' t' Heq. unfold wm_core_wr_summary in Heq. cbv zeta in Heq.
  destruct (wm_raw_wr _ _ _) as [r1 h1] eqn:E1. destruct (wm_update_item_head _ _ _) as [r2 nh] eqn:E2.
  inversion Heq; subst b' t'. clear Heq.
  destruct (wmw_base_append _ _ _ _ _ _ _ _ _ _ E1 E2) as [L S]. split; [exact L|].
  intros s Hb Ht Hg. pose proof Ht as (T1 & T2 & T3 & T4 & T5 & T6 & T7 & T8).
  destruct (wmw_track_tag_ok ty JLS_TRACK_CHUNK_SUMMARY T2 ltac:(reflexivity)) as [G0 G1]. rewrite T1 in S.
  destruct (S s Hb (wmw_Forall_get _ _ level T7) G0 G1 (wmw_meta_lt _ _) Hg) as (s' & Hb' & Hfr & Hrc & _).
  pose proof (wmw_track_fr_none _ _ _ _ _ Hfr Ht) as Ht'.
  exists s'. split; [exact Hb'|]. split.
  - apply wmw_track_set_summary_head; [exact Ht'|]. apply wmw_Forall_upd; [apply Ht'|exact Hrc].
  - split; [apply wmw_fr_weaken; exact Hfr|auto].
Qed.

(* jls_core_wr_index *)
Lemma wmw_core_wr_index_step : forall id ty b t level payload plen b' t',
  wm_core_wr_index b id t level payload plen = (b', t') -> wmw_tstep id ty b t b' t'.
Proof.
  intros id ty b t level payload plen b' t' Heq. unfold wm_core_wr_index in Heq. cbv zeta in Heq.
  destruct (wm_raw_wr _ _ _) as [r1 h1] eqn:E1. destruct (wm_update_item_head _ _ _) as [r2 nh] eqn:E2.
  destruct (wmw_base_append _ _ _ _ _ _ _ _ _ _ E1 E2) as [L S].
  destruct (wmw_track_update_step id ty _ _ _ _ _ _ Heq) as [L2 S2].
  split; [eapply wmw_le_trans; eauto|].
  intros s Hb Ht Hg. pose proof Ht as (T1 & T2 & T3 & T4 & T5 & T6 & T7 & T8).
  destruct (wmw_track_tag_ok ty JLS_TRACK_CHUNK_INDEX T2 ltac:(discriminate)) as [G0 G1]. rewrite T1 in S.
  assert (Hg1 : wmw_good r2) by (eapply wmw_good_le; [exact L2|exact Hg]).
  destruct (S s Hb (wmw_Forall_get _ _ level T6) G0 G1 (wmw_meta_lt _ _) Hg1) as (s1 & Hb1 & Hfr & Hrc & Hoc & Hc64 & _ & Hst & _).
  pose proof (wmw_track_fr_none _ _ _ _ _ Hfr Ht) as Ht1.
  assert (Ht1' : wmw_track (wo_exts s1) id ty (wm_tk_set_index_head t (wm_upd (N.to_nat level) nh (wm_tk_index_head t)))).
  { apply wmw_track_set_index_head; [exact Ht1|]. apply wmw_Forall_upd; [apply Ht1|exact Hrc]. }
  rewrite <- Hoc in S2.
  destruct (S2 s1 Hb1 Ht1' Hc64 Hst Hg) as (s2 & Hb2 & Ht2 & Hfr2 & Hst2).
  exists s2. split; [exact Hb2|]. split; [exact Ht2|]. split.
  - eapply wmw_fr_trans; [apply wmw_fr_weaken; exact Hfr|exact Hfr2].
  - exact Hst2.
Qed.

(* jls_core_wr_data *)
Lemma wmw_core_wr_data_step : forall id ty b t payload plen b' t',
  wm_core_wr_data b id t payload plen = (b', t') -> wmw_tstep id ty b t b' t'.
Proof.
  intros id ty b t payload plen b' t' Heq. unfold wm_core_wr_data in Heq. cbv zeta in Heq.
  destruct (wm_raw_wr _ _ _) as [r1 h1] eqn:E1. destruct (wm_update_item_head _ _ _) as [r2 dh] eqn:E2.
  destruct (wmw_base_append _ _ _ _ _ _ _ _ _ _ E1 E2) as [L S].
  cbn [wm_tk_offsets wm_tk_set_data_head] in Heq.
  destruct (wm_get_off (wm_tk_offsets t) 0 =? 0) eqn:E0.
  - change (wm_tk_set_offsets (wm_tk_set_data_head t dh) (wm_upd 0 (wm_raw_chunk_tell (wm_b_raw b)) (wm_tk_offsets t)))
      with (wm_tk_set_offsets (wm_tk_set_data_head t dh) (wm_upd 0 (wm_raw_chunk_tell (wm_b_raw b)) (wm_tk_offsets (wm_tk_set_data_head t dh)))) in Heq.
    destruct (wmw_track_wr_head_step id ty _ _ _ _ _ Heq) as [L2 S2].
    split; [eapply wmw_le_trans; eauto|].
    intros s Hb Ht Hg. pose proof Ht as (T1 & T2 & T3 & T4 & T5 & T6 & T7 & T8).
    destruct (wmw_track_tag_ok ty JLS_TRACK_CHUNK_DATA T2 ltac:(discriminate)) as [G0 G1]. rewrite T1 in S.
    assert (Hg1 : wmw_good r2) by (eapply wmw_good_le; [exact L2|exact Hg]).
    destruct (S s Hb T5 G0 G1 (wmw_meta_lt _ _) Hg1) as (s1 & Hb1 & Hfr & Hrc & Hoc & Hc64 & _ & Hst & _).
    pose proof (wmw_track_fr_none _ _ _ _ _ Hfr Ht) as Ht1.
    pose proof (wmw_track_set_data_head _ _ _ _ _ Ht1 Hrc) as Ht1'.
    rewrite <- Hoc in S2. apply N.eqb_eq in E0.
    destruct (S2 s1 Hb1 Ht1') as (s2 & Hb2 & Ht2 & Hfr2 & Hst2);
      [cbn [wm_tk_offsets wm_tk_set_data_head]; rewrite wmw_upd_length; exact T4
      |cbn [wm_tk_offsets wm_tk_set_data_head]; apply wmw_ent_upd; auto|exact Hg|].
    exists s2. split; [exact Hb2|]. split; [exact Ht2|]. split.
    + eapply wmw_fr_trans; [apply wmw_fr_weaken; exact Hfr|exact Hfr2].
    + exact Hst2.
  - inversion Heq; subst b' t'. clear Heq. split; [exact L|].
    intros s Hb Ht Hg. pose proof Ht as (T1 & T2 & T3 & T4 & T5 & T6 & T7 & T8).
    destruct (wmw_track_tag_ok ty JLS_TRACK_CHUNK_DATA T2 ltac:(discriminate)) as [G0 G1]. rewrite T1 in S.
    destruct (S s Hb T5 G0 G1 (wmw_meta_lt _ _) Hg) as (s1 & Hb1 & Hfr & Hrc & _).
    pose proof (wmw_track_fr_none _ _ _ _ _ Hfr Ht) as Ht1.
    exists s1. split; [exact Hb1|]. split; [apply wmw_track_set_data_head; auto|].
    split; [apply wmw_fr_weaken; exact Hfr|auto].
Qed.
