(* C17, part 6: every reader answer is a function of the observation; the executable check of the relation is sound;
   what is NOT preserved (blocks left out by the copy); the stored definition is accepted again unchanged by the
   C's normalisation (C16 model of the current code) but was not by the code before the fix. *)
From Coq Require Import NArith ZArith List Bool Lia ZifyBool ZifyN ZifyNat.
From JLS Require Import Generated Spec SpecProofs CopyModel CopyProofs CopyProofs2 CopyProofs3 CopyProofs4 CopyProofs5.
From JLS Require Import SigDef SigDefProofs SigDefSpec.
Import ListNotations.
Local Open Scope N_scope.

(* ------------------------------------------------------------------ *)
(* reader answers from the observation alone                            *)

Lemma cp_rd_window_obs : forall s start count, rd_window s start count = cp_o_window (cp_sig_obs s) start count.
Proof. reflexivity. Qed.
Lemma cp_anno_seek_obs : forall s t, anno_seek_range s t = cp_o_anno_seek (cp_sig_obs s) t.
Proof. reflexivity. Qed.
Lemma cp_utc_from_obs : forall s sid, utc_from s sid = cp_o_utc_from (cp_sig_obs s) sid.
Proof. reflexivity. Qed.
Lemma cp_stats_obs : forall (dec : N -> list N -> list Z) s start incr count,
  stats_windows (dec (sg_dtype (ss_def s)) (ss_samples s)) start incr count
  = cp_o_stats (dec (sg_dtype (cp_o_def (cp_sig_obs s)))) (cp_sig_obs s) start incr count.
Proof. reflexivity. Qed.
Lemma cp_rd_length_obs : forall s, rd_length s = cp_o_length (cp_sig_obs s).
Proof. reflexivity. Qed.
Lemma cp_rd_offset_obs : forall s, rd_offset s = cp_o_offset (cp_sig_obs s).
Proof. reflexivity. Qed.
Lemma cp_annos_obs : forall s, ss_annos s = cp_o_annos (cp_sig_obs s).
Proof. reflexivity. Qed.
Lemma cp_utcs_obs : forall s, ss_utcs s = cp_o_utcs (cp_sig_obs s).
Proof. reflexivity. Qed.
Lemma cp_def_obs : forall s, cp_norm_sig (ss_def s) = cp_o_def (cp_sig_obs s).
Proof. reflexivity. Qed.
Lemma cp_rd_sources_obs : forall c, map cp_norm_src (rd_sources c) = fst (fst (cp_obs c)).
Proof. reflexivity. Qed.
Lemma cp_rd_signals_obs : forall c, map cp_sig_obs (rd_signals c) = snd (fst (cp_obs c)).
Proof. reflexivity. Qed.
Lemma cp_udata_obs : forall c, c_udata c = snd (cp_obs c).
Proof. reflexivity. Qed.

Lemma cp_via_obs : forall (B : Type) (F : sigstate -> B) (G : cp_sigobs -> B) c1 c2,
  (forall s, F s = G (cp_sig_obs s)) -> cp_obs c1 = cp_obs c2 ->
  map F (rd_signals c1) = map F (rd_signals c2).
Proof.
  intros B F G c1 c2 H E.
  rewrite (map_ext F (fun s => G (cp_sig_obs s)) H (rd_signals c1)).
  rewrite (map_ext F (fun s => G (cp_sig_obs s)) H (rd_signals c2)).
  rewrite <- !(map_map cp_sig_obs G). rewrite !cp_rd_signals_obs, E. reflexivity.
Qed.

(* equal observations: every read of Spec answers the same, signal by signal (signals in reader order) *)
Theorem cp_obs_answers : forall c1 c2, cp_obs c1 = cp_obs c2 ->
  map cp_norm_src (rd_sources c1) = map cp_norm_src (rd_sources c2) /\
  map (fun s => cp_norm_sig (ss_def s)) (rd_signals c1) = map (fun s => cp_norm_sig (ss_def s)) (rd_signals c2) /\
  map rd_offset (rd_signals c1) = map rd_offset (rd_signals c2) /\
  map rd_length (rd_signals c1) = map rd_length (rd_signals c2) /\
  (forall start count,
     map (fun s => rd_window s start count) (rd_signals c1) = map (fun s => rd_window s start count) (rd_signals c2)) /\
  (forall (dec : N -> list N -> list Z) start incr count,
     map (fun s => stats_windows (dec (sg_dtype (ss_def s)) (ss_samples s)) start incr count) (rd_signals c1)
     = map (fun s => stats_windows (dec (sg_dtype (ss_def s)) (ss_samples s)) start incr count) (rd_signals c2)) /\
  map ss_annos (rd_signals c1) = map ss_annos (rd_signals c2) /\
  (forall t, map (fun s => anno_seek_range s t) (rd_signals c1) = map (fun s => anno_seek_range s t) (rd_signals c2)) /\
  (forall sid, map (fun s => utc_from s sid) (rd_signals c1) = map (fun s => utc_from s sid) (rd_signals c2)) /\
  c_udata c1 = c_udata c2.
Proof.
  intros c1 c2 E.
  split; [rewrite !cp_rd_sources_obs, E; reflexivity|].
  split; [apply (cp_via_obs _ _ cp_o_def); [reflexivity|exact E]|].
  split; [apply (cp_via_obs _ _ cp_o_offset); [reflexivity|exact E]|].
  split; [apply (cp_via_obs _ _ cp_o_length); [reflexivity|exact E]|].
  split; [intros start count; apply (cp_via_obs _ _ (fun o => cp_o_window o start count)); [reflexivity|exact E]|].
  split; [intros dec start incr count;
          apply (cp_via_obs _ _ (fun o => cp_o_stats (dec (sg_dtype (cp_o_def o))) o start incr count)); [reflexivity|exact E]|].
  split; [apply (cp_via_obs _ _ cp_o_annos); [reflexivity|exact E]|].
  split; [intros t; apply (cp_via_obs _ _ (fun o => cp_o_anno_seek o t)); [reflexivity|exact E]|].
  split; [intros sid; apply (cp_via_obs _ _ (fun o => cp_o_utc_from o sid)); [reflexivity|exact E]|].
  rewrite !cp_udata_obs, E. reflexivity.
Qed.

(* ------------------------------------------------------------------ *)
(* the executable check of the relation is sound                        *)

Lemma cp_eqb_true : forall (A : Type) (dec : forall x y : A, {x = y} + {x <> y}) l1 l2, cp_eqb dec l1 l2 = true -> l1 = l2.
Proof. intros A dec l1 l2 H. unfold cp_eqb in H. destruct (list_eq_dec dec l1 l2); [assumption|discriminate]. Qed.

Lemma cp_contig_b_sound : forall bl f strm, cp_contig_b f bl strm = true -> cp_contig f bl strm.
Proof.
  induction bl as [|[g smp] r IH]; intros f strm H; cbn [cp_contig_b] in H.
  - destruct strm; [constructor|discriminate].
  - rewrite !andb_true_iff in H. destruct H as (((H1 & H2) & H3) & H4).
    destruct (Z.eq_dec g f) as [->|]; [|discriminate].
    apply cp_eqb_true in H3. apply IH in H4.
    rewrite <- (firstn_skipn (length smp) strm). rewrite H3. constructor; [|exact H4].
    destruct smp; [discriminate|discriminate].
Qed.

Lemma cp_no_data : forall i p, ~ In i (cp_data_ids p) ->
  cp_fsr i p = [] /\ cp_annos i p = [] /\ cp_utcs i p = [].
Proof.
  intros i p H.
  assert (K : forall o, In o p ->
              match o with WFsr j _ _ | WOmit j _ | WAnno j _ | WUtc j _ _ => j <> i | _ => True end).
  { intros o Ho. destruct o; try exact I; intros ->; apply H; unfold cp_data_ids; apply in_flat_map;
      eexists; (split; [exact Ho|left; reflexivity]). }
  repeat split.
  - destruct (cp_fsr i p) as [|[sid smp] r] eqn:E; [reflexivity|]. exfalso.
    assert (Hin : In (sid, smp) (cp_fsr i p)) by (rewrite E; left; reflexivity).
    apply cp_in_fsr in Hin. apply (K _ Hin). reflexivity.
  - destruct (cp_annos i p) as [|a r] eqn:E; [reflexivity|]. exfalso.
    assert (Hin : In a (cp_annos i p)) by (rewrite E; left; reflexivity).
    apply cp_in_annos in Hin. apply (K _ Hin). reflexivity.
  - destruct (cp_utcs i p) as [|[sid utc] r] eqn:E; [reflexivity|]. exfalso.
    assert (Hin : In (sid, utc) (cp_utcs i p)) by (rewrite E; left; reflexivity).
    apply cp_in_utcs in Hin. apply (K _ Hin). reflexivity.
Qed.

Theorem cp_reissue_b_sound : forall p q, cp_reissue_b p q = true -> cp_reissue p q.
Proof.
  intros p q H. unfold cp_reissue_b in H. rewrite !andb_true_iff in H.
  destruct H as (((((((H1 & H2) & H3) & H4) & H5) & H6) & H7) & H8).
  set (a := cp_accepted p) in *. set (c := spec_of p) in *.
  set (ids := map (fun s => sg_id (ss_def s)) (c_signals c) ++ cp_data_ids q ++ cp_data_ids a) in *.
  rewrite forallb_forall in H4, H5, H7.
  assert (Hout : forall i, ~ In i ids ->
            find_sig c i = None /\ (cp_fsr i q = [] /\ cp_annos i q = [] /\ cp_utcs i q = []) /\
            (cp_fsr i a = [] /\ cp_annos i a = [] /\ cp_utcs i a = [])).
  { intros i Hi. split; [|split].
    - unfold find_sig. destruct (find (fun s => sg_id (ss_def s) =? i) (c_signals c)) as [s|] eqn:F; [|reflexivity].
      exfalso. apply Hi. unfold ids. apply in_or_app. left.
      apply find_some in F. destruct F as [F1 F2]. apply N.eqb_eq in F2. rewrite <- F2.
      apply (in_map (fun s => sg_id (ss_def s))). exact F1.
    - apply cp_no_data. intros Hin. apply Hi. unfold ids. apply in_or_app. right. apply in_or_app. left. exact Hin.
    - apply cp_no_data. intros Hin. apply Hi. unfold ids. apply in_or_app. right. apply in_or_app. right. exact Hin. }
  unfold cp_reissue. fold a. fold c.
  split; [exact H1|]. split; [apply cp_eqb_true in H2; exact H2|]. split; [apply cp_eqb_true in H3; exact H3|].
  split; [|split; [|split; [apply cp_eqb_true in H6; exact H6|split; [|exact H8]]]].
  - intros i. destruct (in_dec N.eq_dec i ids) as [Hi|Hi].
    + apply (cp_eqb_true _ cp_anno_eq_dec). apply H4. exact Hi.
    + destruct (Hout i Hi) as (_ & (_ & Q & _) & (_ & A & _)). rewrite Q, A. reflexivity.
  - intros i. destruct (in_dec N.eq_dec i ids) as [Hi|Hi].
    + apply (cp_eqb_true _ cp_zz_eq_dec). apply H5. exact Hi.
    + destruct (Hout i Hi) as (_ & (_ & _ & Q) & (_ & _ & A)). rewrite Q, A. reflexivity.
  - intros i. destruct (in_dec N.eq_dec i ids) as [Hi|Hi].
    + specialize (H7 i Hi). destruct (find_sig c i) as [s|].
      * destruct (ss_first s) as [f|]; [apply cp_contig_b_sound; exact H7|].
        destruct (cp_fsr i q); [reflexivity|discriminate].
      * destruct (cp_fsr i q); [reflexivity|discriminate].
    + destruct (Hout i Hi) as (F & (Q & _) & _). rewrite F. exact Q.
Qed.

(* the hand-written re-issue of the example program is one: a different interleaving, different blocks *)
Lemma cp_ex_reissue : cp_reissue cp_ex_p cp_ex_q.
Proof. apply cp_reissue_b_sound. vm_compute. reflexivity. Qed.

Lemma cp_ex_rejected : cp_flags cp_ex_p =
  [true; true; true; true; true; true; true; true; true; true; false; true; true; true; true; true; true;
   false; false; true; true; true; true; false; false].
Proof. vm_compute. reflexivity. Qed.

Lemma cp_ex_differs : cp_ex_q <> cp_prog cp_ex_p /\ cp_ok cp_ex_q /\ cp_obs (spec_of cp_ex_q) = cp_obs (spec_of cp_ex_p).
Proof.
  split; [intros H; vm_compute in H; discriminate|].
  split; [apply (cp_reissue_ok cp_ex_p), cp_ex_reissue|apply cp_reissue_preserves, cp_ex_reissue].
Qed.

(* ------------------------------------------------------------------ *)
(* what is not preserved: a copy that leaves a block out                *)

(* an inner block left out reads back as fill (here 4, 5, 10 become 0); the last block left out shortens the signal.
   This is jls_copy's behaviour for blocks the original writer omitted (K-C17-copy-omitted-blocks). *)
Theorem cp_dropped_block_refuted :
  exists p q keep, cp_reissue p q /\
    cp_ok (cp_drop keep q) /\
    cp_obs (spec_of (cp_drop keep q)) <> cp_obs (spec_of p) /\
    map rd_length (rd_signals (spec_of (cp_drop keep q))) = map rd_length (rd_signals (spec_of p)).
Proof.
  exists cp_ex_p, cp_ex_q, (fun i sid => negb (Z.eqb sid 9)).
  split; [exact cp_ex_reissue|].
  split; [vm_compute; reflexivity|].
  split; [intros H; vm_compute in H; discriminate|vm_compute; reflexivity].
Qed.

Theorem cp_dropped_last_block_refuted :
  exists p q keep, cp_reissue p q /\
    cp_ok (cp_drop keep q) /\
    map rd_length (rd_signals (spec_of (cp_drop keep q))) <> map rd_length (rd_signals (spec_of p)).
Proof.
  exists cp_ex_p, cp_ex_q, (fun i sid => negb (Z.eqb sid 15)).
  split; [exact cp_ex_reissue|].
  split; [vm_compute; reflexivity|].
  intros H; vm_compute in H; discriminate.
Qed.

(* ------------------------------------------------------------------ *)
(* the second normalisation of a stored definition, in the C16 model of the C                                   *)

(* current code: whatever jls_core_signal_def_align stored for the original, it accepts again for the copy and
   stores unchanged, and these are Spec's parameters (so clause (v) of cp_reissue is what the C does) *)
Theorem cp_realign_current : forall D d', dt_valid (sg_dtype D) = true ->
  sd_align (dt_bits (sg_dtype D)) (sd_of_spec D) = SdOk d' ->
  sd_align (dt_bits (sg_dtype D)) d' = SdOk d' /\
  sd_of_spec (sp_align D) = d' /\ sd_of_spec (sp_align (sp_align D)) = d'.
Proof.
  intros D d' Hv H.
  assert (Hw : In (dt_bits (sg_dtype D)) sd_widths).
  { unfold dt_valid in Hv. apply andb_prop in Hv. destruct Hv as [Hv _].
    apply existsb_exists in Hv. destruct Hv as (x & Hin & Hx). apply N.eqb_eq in Hx.
    rewrite cp_dt_bits_k, Hx. clear Hx. cbn [In] in Hin.
    repeat (destruct Hin as [Hin|Hin]; [subst x; vm_compute; tauto|]). contradiction. }
  split; [apply (align_idem _ _ _ Hw H)|].
  pose proof (sp_align_agrees D d' Hw H) as E. split; [exact E|].
  rewrite cp_align_idem; [exact E|]. apply cp_valid_bits. exact Hv.
Qed.

(* the code before fix 591c3d3: a stored (consistent) definition faulted, or was stored differently, when defined again *)
Theorem cp_realign_old_refuted :
  (exists d d', sd_align_old 64 d = SdOk d' /\ sd_align_old 64 d' = SdFault SdDivZero) /\
  (exists d d' d'', sd_align_old 32 d = SdOk d' /\ sd_align_old 32 d' = SdOk d'' /\ d'' <> d').
Proof.
  destruct old_renormalise as (H1 & _ & H3 & H4 & _ & H6 & _).
  split.
  - eexists. eexists. split; [exact H1|exact H3].
  - eexists. eexists. eexists. split; [exact H4|]. split; [exact H6|]. intros E. discriminate E.
Qed.

(* ------------------------------------------------------------------ *)
(* the statements in the form used by Properties_C17.v                  *)

Theorem cp_reissue_answers : forall p q, cp_reissue p q ->
  map cp_norm_src (rd_sources (spec_of q)) = map cp_norm_src (rd_sources (spec_of p)) /\
  map (fun s => cp_norm_sig (ss_def s)) (rd_signals (spec_of q)) = map (fun s => cp_norm_sig (ss_def s)) (rd_signals (spec_of p)) /\
  map rd_offset (rd_signals (spec_of q)) = map rd_offset (rd_signals (spec_of p)) /\
  map rd_length (rd_signals (spec_of q)) = map rd_length (rd_signals (spec_of p)) /\
  (forall start count,
     map (fun s => rd_window s start count) (rd_signals (spec_of q))
     = map (fun s => rd_window s start count) (rd_signals (spec_of p))) /\
  (forall (dec : N -> list N -> list Z) start incr count,
     map (fun s => stats_windows (dec (sg_dtype (ss_def s)) (ss_samples s)) start incr count) (rd_signals (spec_of q))
     = map (fun s => stats_windows (dec (sg_dtype (ss_def s)) (ss_samples s)) start incr count) (rd_signals (spec_of p))) /\
  map ss_annos (rd_signals (spec_of q)) = map ss_annos (rd_signals (spec_of p)) /\
  (forall t, map (fun s => anno_seek_range s t) (rd_signals (spec_of q))
             = map (fun s => anno_seek_range s t) (rd_signals (spec_of p))) /\
  (forall sid, map (fun s => utc_from s sid) (rd_signals (spec_of q))
               = map (fun s => utc_from s sid) (rd_signals (spec_of p))) /\
  c_udata (spec_of q) = c_udata (spec_of p).
Proof. intros p q R. apply cp_obs_answers, cp_reissue_preserves, R. Qed.

(* the relation with its clauses written out as separate hypotheses *)
Theorem cp_copy_preserves_clauses : forall p q : list wop,
  forallb cp_copy_op q = true ->
  map cp_norm_src (cp_srcs q) = map cp_norm_src (cp_srcs (cp_accepted p)) ->
  map cp_norm_sig (cp_sigs q) = map cp_norm_sig (map sp_align (cp_sigs (cp_accepted p))) ->
  (forall i, cp_annos i q = cp_annos i (cp_accepted p)) ->
  (forall i, cp_utcs i q = cp_utcs i (cp_accepted p)) ->
  cp_uds q = flat_map cp_ud_store (cp_uds (cp_accepted p)) ->
  (forall i, match find_sig (spec_of p) i with
             | Some s => match ss_first s with
                         | Some f => cp_contig f (cp_fsr i q) (ss_samples s)
                         | None => cp_fsr i q = []
                         end
             | None => cp_fsr i q = []
             end) ->
  cp_dbu q = true ->
  cp_ok q /\ cp_obs (spec_of q) = cp_obs (spec_of p).
Proof.
  intros p q H1 H2 H3 H4 H5 H6 H7 H8.
  assert (R : cp_reissue p q) by (unfold cp_reissue; repeat split; assumption).
  split; [apply (cp_reissue_ok p q R)|apply (cp_reissue_preserves p q R)].
Qed.
