(* The JLS on-disk format, written from /repo/include/jls/format.h only (an independent
   decoder/encoder: nothing here is derived from the writer's code).  Bytes are N < 256.
   Little-endian integers, the 32-byte file header, the 32-byte chunk header, the payload
   framing (payload ++ zero pad ++ CRC32 of the payload; nothing at all for an empty payload),
   the 16-byte payload header, the track tag packing and the chunk_meta packing.
   Definitions only; proofs are in FormatProofs.v.  Every top-level name starts with fm_. *)
From Coq Require Import NArith ZArith List Bool.
From JLS Require Import Generated CrcDefs.
Import ListNotations.
Local Open Scope N_scope.

(* ---------------------------------------------------------------- little-endian integers *)
Fixpoint fm_enc (n : nat) (x : N) : list N :=
  match n with O => [] | S n' => (x mod 256) :: fm_enc n' (x / 256) end.
Fixpoint fm_dec (l : list N) : N :=
  match l with [] => 0 | b :: r => b + 256 * fm_dec r end.

Definition fm_enc_u8 (x : N) := fm_enc 1 x.
Definition fm_enc_u16 (x : N) := fm_enc 2 x.
Definition fm_enc_u32 (x : N) := fm_enc 4 x.
Definition fm_enc_u64 (x : N) := fm_enc 8 x.
Definition fm_dec_u8 (l : list N) : N := fm_dec (firstn 1 l).
Definition fm_dec_u16 (l : list N) : N := fm_dec (firstn 2 l).
Definition fm_dec_u32 (l : list N) : N := fm_dec (firstn 4 l).
Definition fm_dec_u64 (l : list N) : N := fm_dec (firstn 8 l).

Definition fm_two63 : N := 9223372036854775808.
Definition fm_two64 : N := 18446744073709551616.
(* int64_t: two's complement *)
Definition fm_enc_i64 (z : Z) : list N := fm_enc 8 (Z.to_N (z mod Z.of_N fm_two64)).
Definition fm_i64_of_u64 (v : N) : Z := if v <? fm_two63 then Z.of_N v else (Z.of_N v - Z.of_N fm_two64)%Z.
Definition fm_dec_i64 (l : list N) : Z := fm_i64_of_u64 (fm_dec_u64 l).

(* the bytes [off, off+len) of l *)
Definition fm_sub (off len : N) (l : list N) : list N := firstn (N.to_nat len) (skipn (N.to_nat off) l).
Definition fm_u8_at (off : N) (l : list N) : N := fm_dec_u8 (skipn (N.to_nat off) l).
Definition fm_u16_at (off : N) (l : list N) : N := fm_dec_u16 (skipn (N.to_nat off) l).
Definition fm_u32_at (off : N) (l : list N) : N := fm_dec_u32 (skipn (N.to_nat off) l).
Definition fm_u64_at (off : N) (l : list N) : N := fm_dec_u64 (skipn (N.to_nat off) l).
Definition fm_i64_at (off : N) (l : list N) : Z := fm_dec_i64 (skipn (N.to_nat off) l).

Fixpoint fm_list_eqb (a b : list N) : bool :=
  match a, b with
  | [], [] => true
  | x :: a', y :: b' => (x =? y) && fm_list_eqb a' b'
  | _, _ => false
  end.
Definition fm_all_zero (l : list N) : bool := forallb (N.eqb 0) l.
(* l has at least n elements (cost n, not length l) *)
Definition fm_has (n : nat) (l : list N) : bool := Nat.eqb (length (firstn n l)) n.

(* ---------------------------------------------------------------- file header (32 bytes) *)
Record fm_file_header := { fm_fh_length : N; fm_fh_version : N }.

Definition fm_file_header_body (h : fm_file_header) : list N :=
  JLS_HEADER_IDENTIFICATION ++ fm_enc_u64 (fm_fh_length h) ++ fm_enc_u32 (fm_fh_version h).
Definition fm_encode_file_header (h : fm_file_header) : list N :=
  let b := fm_file_header_body h in b ++ fm_enc_u32 (crc32c b).

Definition fm_fh_complete (l : list N) : bool := fm_has (N.to_nat SIZEOF_file_header) l.
Definition fm_fh_ident_ok (l : list N) : bool :=
  fm_list_eqb (firstn (length JLS_HEADER_IDENTIFICATION) l) JLS_HEADER_IDENTIFICATION.
Definition fm_fh_crc_ok (l : list N) : bool :=
  fm_u32_at OFFSETOF_file_header_crc32 l =? crc32c (firstn (N.to_nat OFFSETOF_file_header_crc32) l).
Definition fm_decode_file_header (l : list N) : option fm_file_header :=
  if fm_fh_complete l && fm_fh_ident_ok l && fm_fh_crc_ok l
  then Some {| fm_fh_length := fm_u64_at OFFSETOF_file_header_length l;
               fm_fh_version := fm_u32_at OFFSETOF_file_header_version l |}
  else None.
(* the format version is major(8).minor(8).patch(16); a decoder accepts its own major version *)
Definition fm_version_major (v : N) : N := N.shiftr v 24.

(* ---------------------------------------------------------------- chunk header (32 bytes) *)
Record fm_chunk_header := {
  fm_item_next : N; fm_item_prev : N; fm_tag : N; fm_rsv0 : N; fm_chunk_meta : N;
  fm_payload_length : N; fm_payload_prev_length : N }.

Definition fm_chunk_header_body (h : fm_chunk_header) : list N :=
  fm_enc_u64 (fm_item_next h) ++ fm_enc_u64 (fm_item_prev h) ++ fm_enc_u8 (fm_tag h) ++ fm_enc_u8 (fm_rsv0 h)
  ++ fm_enc_u16 (fm_chunk_meta h) ++ fm_enc_u32 (fm_payload_length h) ++ fm_enc_u32 (fm_payload_prev_length h).
Definition fm_encode_chunk_header (h : fm_chunk_header) : list N :=
  let b := fm_chunk_header_body h in b ++ fm_enc_u32 (crc32c b).

Definition fm_ch_complete (l : list N) : bool := fm_has (N.to_nat SIZEOF_chunk_header) l.
Definition fm_ch_crc_ok (l : list N) : bool :=
  fm_u32_at OFFSETOF_chunk_crc32 l =? crc32c (firstn (N.to_nat OFFSETOF_chunk_crc32) l).
Definition fm_ch_fields (l : list N) : fm_chunk_header :=
  {| fm_item_next := fm_u64_at OFFSETOF_chunk_item_next l;
     fm_item_prev := fm_u64_at OFFSETOF_chunk_item_prev l;
     fm_tag := fm_u8_at OFFSETOF_chunk_tag l;
     fm_rsv0 := fm_u8_at OFFSETOF_chunk_rsv0 l;
     fm_chunk_meta := fm_u16_at OFFSETOF_chunk_meta l;
     fm_payload_length := fm_u32_at OFFSETOF_chunk_payload_length l;
     fm_payload_prev_length := fm_u32_at OFFSETOF_chunk_payload_prev_length l |}.
(* decodes the first 32 bytes of l; None if fewer than 32 bytes or the header CRC is wrong *)
Definition fm_decode_chunk_header (l : list N) : option fm_chunk_header :=
  if fm_ch_complete l && fm_ch_crc_ok l then Some (fm_ch_fields l) else None.

Definition fm_chunk_header_wf (h : fm_chunk_header) : Prop :=
  fm_item_next h < fm_two64 /\ fm_item_prev h < fm_two64 /\ fm_tag h < 256 /\ fm_rsv0 h < 256 /\
  fm_chunk_meta h < 65536 /\ fm_payload_length h < 4294967296 /\ fm_payload_prev_length h < 4294967296.

(* ---------------------------------------------------------------- payload framing *)
(* zero padding so that payload_length + pad + 4 is a multiple of 8 ("this field ends on 8k - 4") *)
Definition fm_pad_len (pl : N) : N := (RAW_HEADER_ALIGN - (pl + RAW_CRC_SIZE) mod RAW_HEADER_ALIGN) mod RAW_HEADER_ALIGN.
(* bytes occupied after the chunk header *)
Definition fm_disk_len (pl : N) : N := if pl =? 0 then 0 else pl + fm_pad_len pl + RAW_CRC_SIZE.
Definition fm_chunk_size (pl : N) : N := SIZEOF_chunk_header + fm_disk_len pl.

Definition fm_frame (p : list N) : list N :=
  match p with
  | [] => []
  | _ => p ++ repeat 0 (N.to_nat (fm_pad_len (N.of_nat (length p)))) ++ fm_enc_u32 (crc32c p)
  end.

Inductive fm_unframed :=
| FmPayload (p rest : list N)      (* payload and what follows the chunk *)
| FmShort                          (* the file ends inside the chunk *)
| FmPadNonzero
| FmCrcBad.

(* l = the bytes following a chunk header whose payload_length is pl *)
Definition fm_unframe_r (pl : N) (l : list N) : fm_unframed :=
  if pl =? 0 then FmPayload [] l else
  let n := N.to_nat pl in
  let p := firstn n l in
  let r1 := skipn n l in
  let padn := N.to_nat (fm_pad_len pl) in
  let pad := firstn padn r1 in
  let r2 := skipn padn r1 in
  if negb (Nat.eqb (length p) n && Nat.eqb (length pad) padn && fm_has 4 r2) then FmShort else
  if negb (fm_all_zero pad) then FmPadNonzero else
  if negb (fm_dec_u32 r2 =? crc32c p) then FmCrcBad else
  FmPayload p (skipn 4 r2).
Definition fm_unframe (pl : N) (l : list N) : option (list N) :=
  match fm_unframe_r pl l with FmPayload p _ => Some p | _ => None end.

(* a whole chunk: header ++ framed payload *)
Definition fm_encode_chunk (h : fm_chunk_header) (p : list N) : list N := fm_encode_chunk_header h ++ fm_frame p.

(* ---------------------------------------------------------------- payload header (16 bytes) *)
Record fm_payload_header := { fm_ph_timestamp : Z; fm_ph_entry_count : N; fm_ph_entry_size_bits : N; fm_ph_rsv16 : N }.
Definition fm_encode_payload_header (h : fm_payload_header) : list N :=
  fm_enc_i64 (fm_ph_timestamp h) ++ fm_enc_u32 (fm_ph_entry_count h) ++ fm_enc_u16 (fm_ph_entry_size_bits h) ++ fm_enc_u16 (fm_ph_rsv16 h).
Definition fm_decode_payload_header (p : list N) : option fm_payload_header :=
  if fm_has (N.to_nat SIZEOF_payload_header) p
  then Some {| fm_ph_timestamp := fm_i64_at 0 p;
               fm_ph_entry_count := fm_u32_at OFFSETOF_payload_entry_count p;
               fm_ph_entry_size_bits := fm_u16_at OFFSETOF_payload_entry_size_bits p;
               fm_ph_rsv16 := fm_u16_at (OFFSETOF_payload_entry_size_bits + 2) p |}
  else None.
Definition fm_payload_header_wf (h : fm_payload_header) : Prop :=
  (- Z.of_N fm_two63 <= fm_ph_timestamp h < Z.of_N fm_two63)%Z /\ fm_ph_entry_count h < 4294967296 /\
  fm_ph_entry_size_bits h < 65536 /\ fm_ph_rsv16 h < 65536.
(* DATA / INDEX / SUMMARY: payload_length = 16 + entry_count * entry_size_bits / 8, rounded up to bytes *)
Definition fm_entries_length (h : fm_payload_header) : N :=
  SIZEOF_payload_header + (fm_ph_entry_count h * fm_ph_entry_size_bits h + 7) / 8.

(* ---------------------------------------------------------------- tags *)
(* JLS_TRACK_TAG_PACK *)
Definition fm_track_tag (track_type chunk_kind : N) : N :=
  N.lor JLS_TRACK_TAG_FLAG (N.lor (N.shiftl (N.land track_type 3) 3) (N.land chunk_kind 7)).
Definition fm_tag_track_type (t : N) : N := N.land (N.shiftr t 3) 3.
Definition fm_tag_chunk_kind (t : N) : N := N.land t 7.
(* the tags JLS_TRACK_TAG_PACK can produce for the five chunk kinds of format.h *)
Definition fm_is_track_tag (t : N) : bool :=
  (N.shiftr t 5 =? 1) && (fm_tag_chunk_kind t <=? JLS_TRACK_CHUNK_SUMMARY).
Definition fm_is_head_tag (t : N) : bool := fm_is_track_tag t && (fm_tag_chunk_kind t =? JLS_TRACK_CHUNK_HEAD).

(* ---------------------------------------------------------------- chunk_meta *)
(* data tags: [7:0] signal, [11:8] reserved, [15:12] level *)
Definition fm_meta_track (signal_id level : N) : N := N.lor (N.land signal_id 255) (N.shiftl (N.land level 15) 12).
Definition fm_meta_signal (m : N) : N := N.land m 255.
Definition fm_meta_rsv (m : N) : N := N.land (N.shiftr m 8) 15.
Definition fm_meta_level (m : N) : N := N.shiftr m 12.
(* user data: [11:0] application tag, [15:12] storage type *)
Definition fm_meta_user (user_tag storage_type : N) : N := N.lor (N.land user_tag 4095) (N.shiftl (N.land storage_type 15) 12).
Definition fm_meta_user_tag (m : N) : N := N.land m 4095.
Definition fm_meta_storage (m : N) : N := N.shiftr m 12.

(* ---------------------------------------------------------------- definition payloads *)
(* a stored string: the bytes, then 0x00 0x1f *)
Definition fm_str_term : list N := [0; 31].
Definition fm_encode_str (s : list N) : list N := s ++ fm_str_term.
(* splits off one stored string: (string, rest) *)
Fixpoint fm_decode_str (l : list N) : option (list N * list N) :=
  match l with
  | [] => None
  | b :: r =>
    if b =? 0 then (match r with t :: r' => if t =? 31 then Some ([], r') else None | [] => None end)
    else match fm_decode_str r with Some (s, r') => Some (b :: s, r') | None => None end
  end.
Definition fm_source_reserved : N := 64.
Definition fm_encode_source_payload (name vendor model version serial : list N) : list N :=
  repeat 0 (N.to_nat fm_source_reserved) ++ fm_encode_str name ++ fm_encode_str vendor ++ fm_encode_str model
  ++ fm_encode_str version ++ fm_encode_str serial.
(* the fixed part of a signal definition: 36 bytes of fields + 92 reserved = 128 *)
Definition fm_signal_fixed : N := 36.
Definition fm_signal_reserved : N := 92.
