(* Property C01, sample packing core (slice `bits`): FSR samples round-trip bit-exactly for every
   type, however the writes were split into calls (consecutive, overlapping, with gaps), whatever
   the first sample id, however the read window aligns with bytes or storage blocks.
   Models: BitCopyModel.v (jls_bit_copy), FsrPackModel.v (wr_data_inner / wr_data / jls_wr_fsr_data /
   jls_fsr_close; the jls_core_fsr copy loop).  Proofs: BitCopyProofs.v, FsrPackProofs.v.
   The block index / seek pyramid, omitted blocks and the chunk layer are other slices. *)
From Coq Require Import NArith ZArith List Bool.
From JLS Require Import Generated Spec BitCopyModel BitCopyProofs FsrPackModel FsrPackProofs.
Import ListNotations.

(* 1. jls_bit_copy: for buffers of ANY length, ANY bit offsets and ANY count inside the buffers, the
   model never faults, preserves the length, and the result's bits (LSB first) are the destination's
   with the range replaced by the source range; the memcpy fast path and the bit loop agree. *)
Theorem bit_copy_spec : forall dst dst_bit src src_bit n,
  (dst_bit + n <= 8 * N.of_nat (length dst))%N ->
  (src_bit + n <= 8 * N.of_nat (length src))%N ->
  exists dst',
    bc_bit_copy dst dst_bit src src_bit n = BC_ok dst' /\
    bc_bits dst' = firstn (N.to_nat dst_bit) (bc_bits dst)
                   ++ firstn (N.to_nat n) (skipn (N.to_nat src_bit) (bc_bits src))
                   ++ skipn (N.to_nat (dst_bit + n)) (bc_bits dst) /\
    length dst' = length dst /\
    (Forall (fun b => (b < 256)%N) dst -> Forall (fun b => (b < 256)%N) src -> Forall (fun b => (b < 256)%N) dst') /\
    (Forall (fun b => (b < 256)%N) dst -> Forall (fun b => (b < 256)%N) src ->
     bc_bit_copy_slow dst dst_bit src src_bit n = BC_ok dst').
Proof. exact BitCopyProofs.bit_copy_spec. Qed.
Print Assumptions bit_copy_spec.

Example bit_copy_spec_example :
  (3 + 9 <= 8 * N.of_nat (length [255; 0; 255]))%N /\ (1 + 9 <= 8 * N.of_nat (length [165; 195]))%N /\
  bc_bit_copy [255; 0; 255]%N 3 [165; 195]%N 1 9 = BC_ok [151; 14; 255]%N /\
  bc_bit_copy_slow [0; 0]%N 0 [255; 255]%N 0 16 = bc_bit_copy [0; 0]%N 0 [255; 255]%N 0 16.
Proof. exact BitCopyProofs.bit_copy_spec_example. Qed.
Print Assumptions bit_copy_spec_example.

(* outside the buffers the model reports the fault (the ASan build of the harness faults on the same lines) *)
Example bit_copy_oob_example :
  bc_bit_copy [0]%N 0 [255]%N 0 9 = BC_oob /\ bc_bit_copy [0; 0]%N 0 [255]%N 0 16 = BC_oob.
Proof. exact BitCopyProofs.bit_copy_oob_example. Qed.
Print Assumptions bit_copy_oob_example.

(* 2. the writer: for ANY list of calls (sample id, samples) - consecutive, overlapping, with gaps -,
   any of the 15 data types, any block size spd with spd*w a multiple of 8 bits (the library makes
   it a multiple of 256) below 2^32 bits, any initial content of the malloc'ed block buffer:
   jls_wr_fsr_data ... jls_fsr_close never fault, and the concatenation over the emitted blocks of the
   first count*w bits of each payload is exactly the bit stream of Spec.ss_samples of the state obtained
   by folding Spec.fsr_write over the same calls (gaps = Spec.fill_value, first-written samples kept);
   block k has timestamp first + k*spd, every block but the last is full, payloads are ceil(count*w/8)
   bytes and the unused bits of the last byte are zero. *)
Theorem blocks_stream : forall dt spd buf0 d calls,
  In dt [JLS_DATATYPE_I4; JLS_DATATYPE_I8; JLS_DATATYPE_I16; JLS_DATATYPE_I24; JLS_DATATYPE_I32; JLS_DATATYPE_I64;
         JLS_DATATYPE_U1; JLS_DATATYPE_U4; JLS_DATATYPE_U8; JLS_DATATYPE_U16; JLS_DATATYPE_U24; JLS_DATATYPE_U32;
         JLS_DATATYPE_U64; JLS_DATATYPE_F32; JLS_DATATYPE_F64] ->
  sg_dtype d = dt ->
  (0 < spd)%N -> ((spd * dt_bits dt) mod 8 = 0)%N -> (spd * dt_bits dt + 7 < 4294967296)%N ->
  (8 * N.of_nat (length buf0) = spd * dt_bits dt)%N -> Forall (fun b => (b < 256)%N) buf0 ->
  Forall (fun c => (N.of_nat (length (snd c)) < 4294967296)%N) calls ->
  let w := dt_bits dt in
  let s := fold_left (fun s c => fsr_write s (fst c) (snd c)) calls (new_sig d) in
  exists st, fp_write_all dt spd buf0 calls = FP_ok st /\
    flat_map (fun b => let '(_, cnt, p) := b in firstn (N.to_nat (cnt * w)) (bc_bits p)) (fp_blocks st)
      = flat_map (bits_of (N.to_nat w)) (ss_samples s) /\
    fp_total (fp_blocks st) = N.of_nat (length (ss_samples s)) /\
    (ss_first s = None -> fp_blocks st = [] /\ ss_samples s = []) /\
    (forall first, ss_first s = Some first -> fp_first st = first) /\
    (forall k ts cnt p, nth_error (fp_blocks st) k = Some (ts, cnt, p) ->
       ss_first s = Some (ts - Z.of_nat k * Z.of_N spd)%Z /\ (0 < cnt <= spd)%N /\
       ((S k < length (fp_blocks st))%nat -> cnt = spd) /\
       N.of_nat (length p) = ((cnt * w + 7) / 8)%N /\ Forall (fun b => (b < 256)%N) p /\
       Forall (fun b => b = false) (skipn (N.to_nat (cnt * w)) (bc_bits p))).
Proof. exact blocks_stream_lemma. Qed.
Print Assumptions blocks_stream.

(* 3. the reader loop of jls_core_fsr over any blocks of that shape holding any stream: every
   in-range window (any alignment of start inside bytes and blocks, windows spanning any number of
   blocks, ending at the last sample) is copied into the caller's buffer: the first len*w bits are
   the window's samples, the other bits of the buffer are untouched, and into a zeroed buffer of
   ceil(len*w/8) bytes the result is byte for byte Spec.pack of the window. *)
Theorem rd_blocks_spec : forall w spd first blocks stream start len dst,
  (0 < w)%N -> (0 < spd)%N ->
  (forall k ts cnt p, nth_error blocks k = Some (ts, cnt, p) ->
     ts = (first + Z.of_nat k * Z.of_N spd)%Z /\ (0 < cnt <= spd)%N /\
     ((S k < length blocks)%nat -> cnt = spd) /\
     N.of_nat (length p) = ((cnt * w + 7) / 8)%N /\ Forall (fun b => (b < 256)%N) p) ->
  flat_map (fun b => let '(_, cnt, p) := b in firstn (N.to_nat (cnt * w)) (bc_bits p)) blocks
    = flat_map (bits_of (N.to_nat w)) stream ->
  (0 <= start)%Z -> (0 < len)%Z -> (start + len <= Z.of_nat (length stream))%Z ->
  (Z.to_N len * w <= 8 * N.of_nat (length dst))%N ->
  exists out, fp_rd_blocks w first blocks start len dst = RD_ok out /\ length out = length dst /\
    firstn (N.to_nat (Z.to_N len * w)) (bc_bits out)
      = flat_map (bits_of (N.to_nat w)) (firstn (Z.to_nat len) (skipn (Z.to_nat start) stream)) /\
    skipn (N.to_nat (Z.to_N len * w)) (bc_bits out) = skipn (N.to_nat (Z.to_N len * w)) (bc_bits dst) /\
    (dst = repeat 0%N (N.to_nat ((Z.to_N len * w + 7) / 8)) ->
     out = pack w (firstn (Z.to_nat len) (skipn (Z.to_nat start) stream))).
Proof. exact rd_blocks_spec_lemma. Qed.
Print Assumptions rd_blocks_spec.

(* 4. writer + reader: for every call list and every window (start, count > 0), reading the model
   writer's blocks yields exactly Spec.rd_window of the specification state; when the specification
   says the window is out of range the reader returns PARAMETER_INVALID; the length is right. *)
Theorem C01_pack_roundtrip : forall dt spd buf0 d calls,
  In dt [JLS_DATATYPE_I4; JLS_DATATYPE_I8; JLS_DATATYPE_I16; JLS_DATATYPE_I24; JLS_DATATYPE_I32; JLS_DATATYPE_I64;
         JLS_DATATYPE_U1; JLS_DATATYPE_U4; JLS_DATATYPE_U8; JLS_DATATYPE_U16; JLS_DATATYPE_U24; JLS_DATATYPE_U32;
         JLS_DATATYPE_U64; JLS_DATATYPE_F32; JLS_DATATYPE_F64] ->
  sg_dtype d = dt ->
  (0 < spd)%N -> ((spd * dt_bits dt) mod 8 = 0)%N -> (spd * dt_bits dt + 7 < 4294967296)%N ->
  (8 * N.of_nat (length buf0) = spd * dt_bits dt)%N -> Forall (fun b => (b < 256)%N) buf0 ->
  Forall (fun c => (N.of_nat (length (snd c)) < 4294967296)%N) calls ->
  let w := dt_bits dt in
  let s := fold_left (fun s c => fsr_write s (fst c) (snd c)) calls (new_sig d) in
  exists st, fp_write_all dt spd buf0 calls = FP_ok st /\
    fp_total (fp_blocks st) = rd_length s /\
    forall start count, (0 < count)%N ->
      match rd_window s start count with
      | Some win =>
        fp_rd_blocks w (rd_offset s) (fp_blocks st) (Z.of_N start) (Z.of_N count)
                     (repeat 0%N (N.to_nat ((count * w + 7) / 8))) = RD_ok win /\
        forall dst, (count * w <= 8 * N.of_nat (length dst))%N ->
          exists out, fp_rd_blocks w (rd_offset s) (fp_blocks st) (Z.of_N start) (Z.of_N count) dst = RD_ok out /\
            length out = length dst /\
            firstn (N.to_nat (count * w)) (bc_bits out) = firstn (N.to_nat (count * w)) (bc_bits win) /\
            skipn (N.to_nat (count * w)) (bc_bits out) = skipn (N.to_nat (count * w)) (bc_bits dst)
      | None => forall dst, fp_rd_blocks w (rd_offset s) (fp_blocks st) (Z.of_N start) (Z.of_N count) dst = RD_param_invalid
      end.
Proof. exact pack_roundtrip_lemma. Qed.
Print Assumptions C01_pack_roundtrip.

(* the hypotheses of 2-4 are satisfiable: u4, 64-sample blocks with garbage initial buffer content, first id 5,
   an overlapping call, a 66-sample gap across the block boundary, a 71-sample window starting at an odd nibble *)
Example C01_pack_roundtrip_example_u4 :
  let dt := JLS_DATATYPE_U4 in let spd := 64%N in let buf0 := repeat 165%N 32 in
  let calls := [(5%Z, [1; 2; 3]%N); (6%Z, [9; 9; 4; 5]%N); (76%Z, [6; 7; 8]%N)] in
  let s := fold_left (fun s c => fsr_write s (fst c) (snd c)) calls (new_sig (ex_sigdef dt)) in
  In dt fp_dt_list /\ (0 < spd)%N /\ ((spd * dt_bits dt) mod 8 = 0)%N /\ (spd * dt_bits dt + 7 < 4294967296)%N /\
  (8 * N.of_nat (length buf0) = spd * dt_bits dt)%N /\ Forall (fun b => (b < 256)%N) buf0 /\
  Forall (fun c => (N.of_nat (length (snd c)) < 4294967296)%N) calls /\
  ss_first s = Some 5%Z /\ rd_length s = 74%N /\
  exists st win, fp_write_all dt spd buf0 calls = FP_ok st /\
    map (fun b => (fst (fst b), snd (fst b))) (fp_blocks st) = [(5%Z, 64%N); (69%Z, 10%N)] /\
    rd_window s 3 71 = Some win /\ length win = 36%nat /\
    fp_rd_blocks 4 5 (fp_blocks st) 3 71 (repeat 0%N 36) = RD_ok win.
Proof. exact pack_roundtrip_example_u4. Qed.
Print Assumptions C01_pack_roundtrip_example_u4.

Example C01_pack_roundtrip_example_f32 :
  let dt := JLS_DATATYPE_F32 in let spd := 8%N in let buf0 := repeat 0%N 32 in
  let calls := [(0%Z, [1065353216]%N); (3%Z, [1073741824]%N)] in
  let s := fold_left (fun s c => fsr_write s (fst c) (snd c)) calls (new_sig (ex_sigdef dt)) in
  ss_samples s = [1065353216; 2143289344; 2143289344; 1073741824]%N /\
  exists st win, fp_write_all dt spd buf0 calls = FP_ok st /\ rd_window s 0 4 = Some win /\
    fp_rd_blocks 32 0 (fp_blocks st) 0 4 (repeat 0%N 16) = RD_ok win.
Proof. exact pack_roundtrip_example_f32. Qed.
Print Assumptions C01_pack_roundtrip_example_f32.

(* the guard on dt is needed: data_type 0x01002004 (f32 with a reserved top-byte bit) is accepted by the
   writer and by Spec.dt_valid, but its gaps are filled with 0.0 instead of NaN *)
Theorem C01_blocks_stream_refuted_reserved_dt_bits :
  exists dt spd buf0 calls,
    dt_valid dt = true /\ dt_is_float dt = true /\
    (0 < spd)%N /\ ((spd * dt_bits dt) mod 8 = 0)%N /\ (spd * dt_bits dt + 7 < 4294967296)%N /\
    (8 * N.of_nat (length buf0) = spd * dt_bits dt)%N /\ Forall (fun b => (b < 256)%N) buf0 /\
    Forall (fun c => (N.of_nat (length (snd c)) < 4294967296)%N) calls /\
    let w := dt_bits dt in
    let s := fold_left (fun s c => fsr_write s (fst c) (snd c)) calls (new_sig (ex_sigdef dt)) in
    exists st, fp_write_all dt spd buf0 calls = FP_ok st /\
      flat_map (fun b => let '(_, cnt, p) := b in firstn (N.to_nat (cnt * w)) (bc_bits p)) (fp_blocks st)
        <> flat_map (bits_of (N.to_nat w)) (ss_samples s).
Proof. exact blocks_stream_refuted_reserved_dt_bits. Qed.
Print Assumptions C01_blocks_stream_refuted_reserved_dt_bits.
