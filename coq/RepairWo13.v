(* WHAT THE REPAIR-ON-OPEN WRITES, part 13: termination of jls_track_repair_pointers (the pointer walks of the repair
   branch), PARTIAL.  The model's fuel (computed from the file length) does not run out in rp_ptr_levels / rp_ptr_data /
   rp_repair_pointers / rp_repair_all_pointers when in the given file AND in every version of it that the walks
   themselves produce (decidable on file + events: rt_guard_b) every CRC-valid chunk header image links forward by at
   least a header: item_next = 0 or offset + 32 <= item_next.  The measure: (level, bytes left above the offset) / 32.
   Not covered: the walks of jls_core_repair_fsr (rp_fsr_levels, rp_fsr_data) - see Properties_C03_repair.v.
   Every top-level name starts with rt_. *)
From Coq Require Import NArith ZArith List Bool Lia Arith.
From Coq Require Import ZifyBool ZifyN ZifyNat.
From JLS Require Import Generated CrcDefs Spec Format FormatProofs WriteOnce WriteOnceProofs WmRaw WmCore WmFsr WriterModel WmProofs
  WmWriteOnce RepairRaw RawReadProofs RepairModel RepairProofs RepairProofs2 RepairProofs3
  RepairWo RepairWo2 RepairWo3 RepairWo4 RepairWo5 RepairWo8.
Import ListNotations.
Local Open Scope N_scope.
Ltac Zify.zify_post_hook ::= Z.div_mod_to_equations.

(* ================================================================ links forward by at least 32 bytes *)
Fixpoint rt_links32_go (o : N) (l : list N) : bool :=
  match l with
  | [] => true
  | _ :: t =>
    (match fm_decode_chunk_header l with
     | Some h => (fm_item_next h =? 0) || (o + 32 <=? fm_item_next h)
     | None => true
     end) && rt_links32_go (o + 1) t
  end.
Definition rt_links32 (f : list N) : bool := rt_links32_go 0 f.

Lemma rt_links32_go_at : forall l o k h, rt_links32_go o l = true -> fm_decode_chunk_header (skipn k l) = Some h ->
  fm_item_next h = 0 \/ o + N.of_nat k + 32 <= fm_item_next h.
Proof.
  induction l as [| x t IH]; intros o k h H D.
  - rewrite skipn_nil in D. discriminate D.
  - cbn [rt_links32_go] in H. apply andb_true_iff in H. destruct H as [H1 H2]. destruct k as [| k].
    + cbn [skipn] in D. rewrite D in H1. apply orb_true_iff in H1. destruct H1 as [A | A]; [left; now apply N.eqb_eq | right; apply N.leb_le in A; lia].
    + cbn [skipn] in D. destruct (IH (o + 1) k h H2 D) as [A | A]; [left; exact A | right; lia].
Qed.
Lemma rt_links32_at : forall f k h, rt_links32 f = true -> rw_hdr_at f k = Some h -> fm_item_next h = 0 \/ k + 32 <= fm_item_next h.
Proof.
  intros f k h H D. unfold rw_hdr_at in D. destruct (rt_links32_go_at f 0 (N.to_nat k) h H D) as [A | A]; [left; exact A | right; lia].
Qed.

(* the guard: the given file and every version of it that the log (newest event first) goes through *)
Definition rt_guard (f : list N) (log : wm_log) : Prop :=
  forall l1 l2, log = l1 ++ l2 -> rt_links32 (fst (rp_apply_log (f, rp_len f) l2)) = true.
Definition rt_guard_b (f : list N) (log : wm_log) : bool :=
  forallb (fun k => rt_links32 (fst (rp_apply_log (f, rp_len f) (skipn k log)))) (seq 0 (S (length log))).
Lemma rt_guard_b_sound : forall f log, rt_guard_b f log = true -> rt_guard f log.
Proof.
  intros f log H l1 l2 E. unfold rt_guard_b in H. rewrite forallb_forall in H.
  specialize (H (length l1)). rewrite E, skipn_app, skipn_all, Nat.sub_diag in H. cbn [app skipn] in H. apply H.
  apply in_seq. rewrite app_length. lia.
Qed.

Definition rt_ext (w w' : rp_w) : Prop := exists l, rp_log w' = l ++ rp_log w.
Lemma rt_ext_refl : forall w, rt_ext w w.
Proof. intros. exists []. reflexivity. Qed.
Lemma rt_ext_trans : forall a b c, rt_ext a b -> rt_ext b c -> rt_ext a c.
Proof. intros a b c [l1 H1] [l2 H2]. exists (l2 ++ l1). rewrite H2, H1. apply app_assoc. Qed.
Lemma rt_ext_same : forall w w', rp_log w' = rp_log w -> rt_ext w w'.
Proof. intros w w' H. exists []. exact H. Qed.
Lemma rt_ext_commit : forall w b, rt_ext w (rp_commit w b).
Proof. intros w b. unfold rp_commit. destruct (rp_apply_log _ _). eexists. reflexivity. Qed.
Lemma rt_guard_ext : forall f w w', rt_ext w w' -> rt_guard f (rp_log w') -> rt_guard f (rp_log w).
Proof. intros f w w' [l E] G l1 l2 H. apply (G (l ++ l1) l2). rewrite E, H. apply app_assoc. Qed.

Lemma rt_ext_update_chunk_header : forall w ch, rt_ext w (rp_update_chunk_header w ch).
Proof. intros w ch. unfold rp_update_chunk_header. destruct (wm_ck_offset ch =? 0); [apply rt_ext_refl | apply rt_ext_commit]. Qed.
Lemma rt_ext_ptr_descend : forall w t level offset idx sum desc, rt_ext w (fst (fst (rp_ptr_descend w t level offset idx sum desc))).
Proof.
  intros. unfold rp_ptr_descend. match goal with |- context [if ?b then _ else _] => destruct b end; cbn [fst]; [| apply rt_ext_refl].
  eapply rt_ext_trans; apply rt_ext_update_chunk_header.
Qed.
Lemma rt_ext_ptr_levels : forall fuel w t level offset idx sum desc,
  rt_ext w (fst (fst (fst (rp_ptr_levels fuel w t level offset idx sum desc)))).
Proof.
  induction fuel as [| fu IH]; intros w t level offset idx sum desc; cbn [rp_ptr_levels]; [apply rt_ext_same; reflexivity |].
  destruct (level =? 0); [apply rt_ext_refl |].
  destruct (rp_chunk_seek (rp_w_io w) offset) as [s1 rc1].
  destruct (if rc1 =? 0 then rp_rd_chunk s1 else (s1, rc1)) as [s2 rc2].
  destruct (negb (rc2 =? 0)).
  { pose proof (rt_ext_ptr_descend (rp_w_set_io w s2) t level offset idx sum desc) as D.
    destruct (rp_ptr_descend (rp_w_set_io w s2) t level offset idx sum desc) as [[w1 t1] offset1]. cbn [fst] in D.
    eapply rt_ext_trans; [| apply IH]. eapply rt_ext_trans; [apply rt_ext_same; reflexivity | exact D]. }
  destruct (rp_buf_u32 s2 OFFSETOF_payload_entry_count) as [s3 ec].
  match goal with |- context [let '(s4, dnext) := ?p in _] => destruct p as [s4 dnext] end.
  destruct (rp_rd_chunk s4) as [s5 rc3].
  destruct (negb (rc3 =? 0)).
  { pose proof (rt_ext_ptr_descend (rp_w_set_io w s5) t level offset idx sum desc) as D.
    destruct (rp_ptr_descend (rp_w_set_io w s5) t level offset idx sum desc) as [[w1 t1] offset1]. cbn [fst] in D.
    eapply rt_ext_trans; [| apply IH]. eapply rt_ext_trans; [apply rt_ext_same; reflexivity | exact D]. }
  destruct (fm_item_next (wm_ck_hdr (rp_cur s2)) =? 0).
  { match goal with |- context [rp_ptr_descend ?a ?b ?c ?d ?e ?g ?h] =>
      pose proof (rt_ext_ptr_descend a b c d e g h) as D; destruct (rp_ptr_descend a b c d e g h) as [[w2 t2] offset2] end.
    cbn [fst] in D. eapply rt_ext_trans; [| apply IH]. eapply rt_ext_trans; [apply rt_ext_same; reflexivity | exact D]. }
  eapply rt_ext_trans; [apply (rt_ext_same w (rp_w_set_io w s5)); reflexivity | apply IH].
Qed.
Lemma rt_ext_ptr_data : forall fuel w offset data sum, rt_ext w (rp_ptr_data fuel w offset data sum).
Proof.
  induction fuel as [| fu IH]; intros w offset data sum; cbn [rp_ptr_data]; [apply rt_ext_same; reflexivity |].
  destruct (offset =? 0); [apply rt_ext_refl |].
  destruct (rp_chunk_seek (rp_w_io w) offset) as [s1 rc1].
  destruct (if rc1 =? 0 then rp_rd_chunk s1 else (s1, rc1)) as [s2 rc2].
  destruct (negb (rc2 =? 0)).
  - destruct (wm_ck_offset data =? 0); [apply rt_ext_same; reflexivity |].
    eapply rt_ext_trans; [apply (rt_ext_same w (rp_w_set_io w s2)); reflexivity | apply rt_ext_update_chunk_header].
  - eapply rt_ext_trans; [apply (rt_ext_same w (rp_w_set_io w s2)); reflexivity | apply IH].
Qed.
Lemma rt_ext_track_wr_head : forall w id t, rt_ext w (fst (rp_track_wr_head w id t)).
Proof. intros w id t. unfold rp_track_wr_head. destruct (wm_track_wr_head _ _ _) as [b1 t1]. cbn [fst]. apply rt_ext_commit. Qed.

(* ================================================================ no step but an exhausted loop raises RpF_fuel *)
Definition rt_nfi (s s' : rp_io) : Prop := rp_flt s <> RpF_fuel -> rp_flt s' <> RpF_fuel.
Definition rt_nf (w w' : rp_w) : Prop := rt_nfi (rp_w_io w) (rp_w_io w').
Lemma rt_nfi_refl : forall s, rt_nfi s s.
Proof. intros s H. exact H. Qed.
Lemma rt_nfi_trans : forall a b c, rt_nfi a b -> rt_nfi b c -> rt_nfi a c.
Proof. intros a b c H1 H2 H. auto. Qed.
Lemma rt_nfi_io_fault : forall s c, c <> RpF_fuel -> rt_nfi s (rp_io_fault s c).
Proof. intros s c Hc H. unfold rp_io_fault. cbn [rp_flt]. destruct (rp_flt s =? 0); assumption. Qed.
Lemma rt_nfi_chunk_seek : forall s o, rt_nfi s (fst (rp_chunk_seek s o)).
Proof. intros s o H. rewrite rpp_chunk_seek_flt. exact H. Qed.
Lemma rt_nfi_rd_chunk : forall s, rt_nfi s (fst (rp_rd_chunk s)).
Proof. intros s H. apply rpp_rd_chunk_nofuel. exact H. Qed.
Lemma rt_nfi_buf_sub : forall s off n, rt_nfi s (fst (rp_buf_sub s off n)).
Proof. intros s off n. unfold rp_buf_sub. destruct (JLS_BUF_DEFAULT_SIZE <? off + n); cbn [fst]; [apply rt_nfi_io_fault; discriminate | apply rt_nfi_refl]. Qed.
Lemma rt_nfi_buf_u32 : forall s off, rt_nfi s (fst (rp_buf_u32 s off)).
Proof. intros s off. unfold rp_buf_u32. pose proof (rt_nfi_buf_sub s off 4) as H. destruct (rp_buf_sub s off 4). exact H. Qed.
Lemma rt_nfi_buf_u64 : forall s off, rt_nfi s (fst (rp_buf_u64 s off)).
Proof. intros s off. unfold rp_buf_u64. pose proof (rt_nfi_buf_sub s off 8) as H. destruct (rp_buf_sub s off 8). exact H. Qed.
Lemma rt_nfi_seek_rd : forall s o,
  rt_nfi s (fst (let '(s1, rc1) := rp_chunk_seek s o in if rc1 =? 0 then rp_rd_chunk s1 else (s1, rc1))).
Proof.
  intros s o. pose proof (rt_nfi_chunk_seek s o) as H. destruct (rp_chunk_seek s o) as [s1 rc1]. cbn [fst] in H.
  destruct (rc1 =? 0); [| exact H]. eapply rt_nfi_trans; [exact H | apply rt_nfi_rd_chunk].
Qed.
Lemma rt_nfi_first_level : forall k s t ch, rt_nfi s (fst (fst (rp_first_level k s t ch))).
Proof.
  induction k as [| k IH]; intros s t ch; cbn [rp_first_level]; [apply rt_nfi_refl |].
  destruct (wm_get_off (wm_tk_offsets t) (N.of_nat (S k)) =? 0); [apply IH |].
  pose proof (rt_nfi_chunk_seek s (wm_get_off (wm_tk_offsets t) (N.of_nat (S k)))) as H.
  destruct (rp_chunk_seek s (wm_get_off (wm_tk_offsets t) (N.of_nat (S k)))) as [s1 rc]. cbn [fst] in H.
  destruct (rc =? 0); [exact H |]. eapply rt_nfi_trans; [exact H | apply IH].
Qed.
Lemma rt_nf_commit : forall w b, rt_nf w (rp_commit w b).
Proof.
  intros w b H. unfold rp_commit. destruct (rp_apply_log _ _). cbn [rp_w_io rp_c rp_io_ rp_flt].
  destruct ((rp_flt (rp_w_io w) =? 0) && wm_fault (wm_b_raw b)); [discriminate | exact H].
Qed.
Lemma rt_nf_update_chunk_header : forall w ch, rt_nf w (rp_update_chunk_header w ch).
Proof. intros w ch. unfold rp_update_chunk_header. destruct (wm_ck_offset ch =? 0); [intros H; exact H | apply rt_nf_commit]. Qed.
Lemma rt_nf_ptr_descend : forall w t level offset idx sum desc, rt_nf w (fst (fst (rp_ptr_descend w t level offset idx sum desc))).
Proof.
  intros. unfold rp_ptr_descend. match goal with |- context [if ?b then _ else _] => destruct b end; cbn [fst]; [| intros H; exact H].
  intros H. apply rt_nf_update_chunk_header. apply rt_nf_update_chunk_header. exact H.
Qed.
Lemma rt_nf_track_wr_head : forall w id t, rt_nf w (fst (rp_track_wr_head w id t)).
Proof. intros w id t. unfold rp_track_wr_head. destruct (wm_track_wr_head _ _ _) as [b1 t1]. cbn [fst]. apply rt_nf_commit. Qed.
Lemma rt_fault_fuel : forall w, rp_flt (rp_w_io w) <> 0 -> rp_flt (rp_w_io w) <> RpF_fuel -> rp_flt (rp_w_io (rp_w_fault w RpF_fuel)) <> RpF_fuel.
Proof.
  intros w H0 H. unfold rp_w_fault, rp_w_set_io, rp_w_io, rp_io_fault in *. cbn [rp_c rp_io_ rp_rd_set_io rp_flt] in *.
  destruct (rp_flt (rp_io_ (rp_c w)) =? 0) eqn:E; [apply N.eqb_eq in E; contradiction | exact H].
Qed.

(* ================================================================ the measure *)
(* chunk headers that can still be read above offset, in a file of n bytes *)
Definition rt_rem (n offset : N) : N := if offset =? 0 then 0 else if offset + 32 <=? n then (n - offset) / 32 + 1 else 0.
Lemma rt_rem_le : forall n o, rt_rem n o <= n / 32 + 1.
Proof. intros n o. unfold rt_rem. destruct (o =? 0); [lia |]. destruct (o + 32 <=? n) eqn:E; [apply N.leb_le in E |]; lia. Qed.
Lemma rt_rem_step : forall n o nx, o <> 0 -> o + 32 <= n -> nx = 0 \/ o + 32 <= nx -> rt_rem n nx < rt_rem n o.
Proof.
  intros n o nx Ho Hle Hn. unfold rt_rem. replace (o =? 0) with false by (symmetry; apply N.eqb_neq; exact Ho).
  replace (o + 32 <=? n) with true by (symmetry; apply N.leb_le; exact Hle).
  destruct Hn as [-> | Hn]; [cbn [N.eqb]; lia |].
  replace (nx =? 0) with false by (symmetry; apply N.eqb_neq; lia).
  destruct (nx + 32 <=? n) eqn:E; [apply N.leb_le in E |]; lia.
Qed.

Section RT.
Variable f : list N.
Variable pos : N.

Lemma rt_guard_file : forall w st, ry_acc f pos w st -> rt_guard f (rp_log w) -> rt_links32 (rw_g st) = true.
Proof.
  intros w st (A1 & _) G. specialize (G [] (rp_log w) eq_refl).
  destruct (rw_runs_file _ _ _ _ _ _ A1) as (F1 & _). cbn [rw_st0 rw_g rw_n] in F1.
  rewrite rw_apply_log_fold, <- F1 in G. exact G.
Qed.

(* one read of a walk: where the chunk links to *)
Lemma rt_read_step : forall w st offset s1 s2, ry_acc f pos w st -> rt_links32 (rw_g st) = true ->
  rp_chunk_seek (rp_w_io w) offset = (s1, 0) -> rp_rd_chunk s1 = (s2, 0) ->
  offset <> 0 /\ offset + 32 <= rw_n st /\
  (fm_item_next (wm_ck_hdr (rp_cur s2)) = 0 \/ offset + 32 <= fm_item_next (wm_ck_hdr (rp_cur s2))).
Proof.
  intros w st offset s1 s2 H L E1 E2. pose proof H as (A1 & A2 & A3 & A4 & A5 & A6 & A7 & A8 & A9).
  pose proof (ry_rd_chunk_seek (rp_w_io w) offset) as ((F1 & F2 & F3) & I & _). rewrite E1 in F1, F2, F3, I. cbn [fst] in F1, F2, F3, I.
  destruct (rpp_chunk_seek_ok _ _ _ E1) as (P1 & _). destruct (ro_chunk_seek_pos _ _ _ E1) as (Pn0 & _).
  destruct (ry_rd_chunk_ok s1 s2 (I A9) E2) as (_ & K2 & _). rewrite P1, F1, <- A3 in K2.
  pose proof (rw_hdr_at_bound _ _ _ K2) as Hb. rewrite <- A5 in Hb.
  split; [exact Pn0 |]. split; [exact Hb |]. exact (rt_links32_at _ _ _ L K2).
Qed.

(* ================================================================ the data walk *)
Lemma rt_ptr_data_nf : forall fuel w offset data sum,
  rt_guard f (rp_log (rp_ptr_data fuel w offset data sum)) ->
  rp_flt (rp_w_io w) <> RpF_fuel ->
  (rp_flt (rp_w_io w) = 0 -> exists st, ry_acc f pos w st /\ rt_rem (rw_n st) offset < N.of_nat fuel) ->
  rp_flt (rp_w_io (rp_ptr_data fuel w offset data sum)) <> RpF_fuel.
Proof.
  induction fuel as [| fu IH]; intros w offset data sum G Hf Hi.
  { cbn [rp_ptr_data]. destruct (N.eq_dec (rp_flt (rp_w_io w)) 0) as [Z | Z]; [| apply rt_fault_fuel; assumption].
    destruct (Hi Z) as (st & _ & M). cbn in M. lia. }
  cbn [rp_ptr_data] in G |- *.
  destruct (offset =? 0) eqn:E0; [exact Hf |]. apply N.eqb_neq in E0.
  pose proof (rt_nfi_seek_rd (rp_w_io w) offset) as N2. pose proof (ry_rd_seek_rd (rp_w_io w) offset) as R2.
  destruct (rp_chunk_seek (rp_w_io w) offset) as [s1 rc1] eqn:E1.
  assert (E2 : exists s2 rc2, (if rc1 =? 0 then rp_rd_chunk s1 else (s1, rc1)) = (s2, rc2) /\ (rc2 = 0 -> rc1 = 0 /\ rp_rd_chunk s1 = (s2, 0))).
  { destruct (rc1 =? 0) eqn:Erc.
    - destruct (rp_rd_chunk s1) as [s2 rc2]. exists s2, rc2. split; [reflexivity |]. intros ->. split; [now apply N.eqb_eq | reflexivity].
    - exists s1, rc1. split; [reflexivity |]. intros ->. discriminate Erc. }
  destruct E2 as (s2 & rc2 & E2 & K2). rewrite E2 in *. cbn [fst] in N2, R2.
  destruct (rc2 =? 0) eqn:Erc2; cbn [negb] in G |- *.
  2:{ destruct (wm_ck_offset data =? 0); [exact (N2 Hf) | apply rt_nf_update_chunk_header; exact (N2 Hf)]. }
  apply N.eqb_eq in Erc2. destruct (K2 Erc2) as (Z1 & K3). subst rc1 rc2.
  apply IH; [exact G | exact (N2 Hf) |].
  intros Z. assert (Z0 : rp_flt (rp_w_io w) = 0) by (apply (proj2 (proj2 R2)); exact Z).
  destruct (Hi Z0) as (st & H & M). exists st. split; [apply (ry_acc_rd f pos _ _ _ H R2) |].
  assert (L : rt_links32 (rw_g st) = true).
  { apply (rt_guard_file w st H). eapply rt_guard_ext; [| exact G].
    eapply rt_ext_trans; [apply (rt_ext_same w (rp_w_set_io w s2)); reflexivity | apply rt_ext_ptr_data]. }
  destruct (rt_read_step w st offset s1 s2 H L E1 K3) as (B1 & B2 & B3).
  pose proof (rt_rem_step (rw_n st) offset _ B1 B2 B3). lia.
Qed.

(* ================================================================ the level walk *)
Lemma rt_mul_pred : forall level K, level <> 0 -> level * K = (level - 1) * K + K.
Proof. intros level K H. replace level with ((level - 1) + 1) at 1 by lia. rewrite N.mul_add_distr_r, N.mul_1_l. reflexivity. Qed.

Lemma rt_ptr_levels_nf : forall fuel w t level offset idx sum desc,
  rt_guard f (rp_log (fst (fst (fst (rp_ptr_levels fuel w t level offset idx sum desc))))) ->
  rp_flt (rp_w_io w) <> RpF_fuel ->
  (rp_flt (rp_w_io w) = 0 -> exists st, ry_acc f pos w st /\ ry_fresh (rw_n st) t /\
     rw_ck (rw_hist st) (rw_n st) idx /\ rw_ck (rw_hist st) (rw_n st) sum /\
     level * (rw_n st / 32 + 2) + rt_rem (rw_n st) offset < N.of_nat fuel) ->
  rp_flt (rp_w_io (fst (fst (fst (rp_ptr_levels fuel w t level offset idx sum desc))))) <> RpF_fuel.
Proof.
  induction fuel as [| fu IH]; intros w t level offset idx sum desc G Hf Hi.
  { cbn [rp_ptr_levels fst]. destruct (N.eq_dec (rp_flt (rp_w_io w)) 0) as [Z | Z]; [| apply rt_fault_fuel; assumption].
    destruct (Hi Z) as (st & _ & _ & _ & _ & M). cbn in M. lia. }
  cbn [rp_ptr_levels] in G |- *.
  destruct (level =? 0) eqn:El; [exact Hf |]. apply N.eqb_neq in El.
  (* a descend followed by the rest of the walk *)
  assert (TAIL : forall s' t0 offset0 idx0 sum0 desc0, ry_rd (rp_w_io w) s' -> rt_nfi (rp_w_io w) s' ->
    (forall st, ry_acc f pos w st -> ry_fresh (rw_n st) t -> rw_ck (rw_hist st) (rw_n st) idx -> rw_ck (rw_hist st) (rw_n st) sum ->
       ry_fresh (rw_n st) t0 /\ rw_ck (rw_hist st) (rw_n st) idx0 /\ rw_ck (rw_hist st) (rw_n st) sum0) ->
    let res := (let '(w1, t1, offset1) := rp_ptr_descend (rp_w_set_io w s') t0 level offset0 idx0 sum0 desc0 in
                rp_ptr_levels fu w1 t1 (level - 1) offset1 (rp_ck_set_offset idx0 0) (rp_ck_set_offset sum0 0) 0) in
    rt_guard f (rp_log (fst (fst (fst res)))) -> rp_flt (rp_w_io (fst (fst (fst res)))) <> RpF_fuel).
  { intros s' t0 offset0 idx0 sum0 desc0 Rd Nd Hfacts. cbv zeta.
    pose proof (ry_ptr_descend f pos (rp_w_set_io w s') t0 level offset0 idx0 sum0 desc0) as D. cbv zeta in D.
    pose proof (rt_nf_ptr_descend (rp_w_set_io w s') t0 level offset0 idx0 sum0 desc0) as DN.
    destruct (rp_ptr_descend (rp_w_set_io w s') t0 level offset0 idx0 sum0 desc0) as [[w1 t1] offset1]. cbn [fst snd] in D, DN.
    destruct D as (DW & DS). intros G1.
    apply IH; [exact G1 | apply DN; apply Nd; exact Hf |].
    intros Z1. assert (Z' : rp_flt (rp_w_io (rp_w_set_io w s')) = 0) by (apply (proj2 DW); exact Z1).
    assert (Z0 : rp_flt (rp_w_io w) = 0) by (apply (proj2 (proj2 Rd)); exact Z').
    destruct (Hi Z0) as (st & H & Fr & Ci & Cs & M).
    destruct (Hfacts st H Fr Ci Cs) as (Fr0 & Ci0 & Cs0).
    destruct (DS st (ry_acc_rd f pos _ _ _ H Rd) Fr0 Ci0 Cs0 Z1) as (st1 & H1 & M1 & N1 & Fr1 & _).
    exists st1. split; [exact H1 |]. split; [exact Fr1 |]. split; [apply ry_ck_off0 |]. split; [apply ry_ck_off0 |].
    rewrite N1. pose proof (rt_rem_le (rw_n st) offset1) as R1. rewrite (rt_mul_pred level _ El) in M.
    set (A := (level - 1) * (rw_n st / 32 + 2)) in *. lia. }
  pose proof (ry_rd_chunk_seek (rp_w_io w) offset) as R1. pose proof (rt_nfi_chunk_seek (rp_w_io w) offset) as N1.
  destruct (rp_chunk_seek (rp_w_io w) offset) as [s1 rc1] eqn:E1. cbn [fst] in R1, N1.
  assert (E2 : exists s2 rc2, (if rc1 =? 0 then rp_rd_chunk s1 else (s1, rc1)) = (s2, rc2) /\ ry_rd (rp_w_io w) s2 /\ rt_nfi (rp_w_io w) s2 /\
                              (rc2 = 0 -> rc1 = 0 /\ rp_rd_chunk s1 = (s2, 0))).
  { destruct (rc1 =? 0) eqn:Erc.
    - pose proof (ry_rd_rd_chunk s1) as R2. pose proof (rt_nfi_rd_chunk s1) as N2. destruct (rp_rd_chunk s1) as [s2 rc2]. cbn [fst] in R2, N2.
      exists s2, rc2. split; [reflexivity |]. split; [eapply ry_rd_trans; eauto |]. split; [eapply rt_nfi_trans; eauto |].
      intros ->. split; [now apply N.eqb_eq | reflexivity].
    - exists s1, rc1. split; [reflexivity |]. split; [exact R1 |]. split; [exact N1 |]. intros ->. discriminate Erc. }
  destruct E2 as (s2 & rc2 & E2 & R2 & N2 & K2). rewrite E2 in *.
  assert (SAME : forall st, ry_acc f pos w st -> ry_fresh (rw_n st) t -> rw_ck (rw_hist st) (rw_n st) idx -> rw_ck (rw_hist st) (rw_n st) sum ->
            ry_fresh (rw_n st) t /\ rw_ck (rw_hist st) (rw_n st) idx /\ rw_ck (rw_hist st) (rw_n st) sum)
    by (intros st0 _ A B C; split; [exact A | split; [exact B | exact C]]).
  destruct (rc2 =? 0) eqn:Erc2; cbn [negb] in G |- *.
  2:{ exact (TAIL s2 t offset idx sum desc R2 N2 SAME G). }
  apply N.eqb_eq in Erc2. destruct (K2 Erc2) as (Z1 & K3). subst rc1 rc2.
  pose proof (ry_rd_buf_u32 s2 OFFSETOF_payload_entry_count) as R3. pose proof (rt_nfi_buf_u32 s2 OFFSETOF_payload_entry_count) as N3.
  destruct (rp_buf_u32 s2 OFFSETOF_payload_entry_count) as [s3 ec]. cbn [fst] in R3, N3.
  set (p4 := if ec =? 0 then (s3, 0)
             else if wm_tk_type t =? JLS_TRACK_TYPE_FSR then rp_buf_u64 s3 (SIZEOF_payload_header + 8 * (ec - 1))
             else rp_buf_u64 s3 (SIZEOF_payload_header + SIZEOF_index_entry * (ec - 1) + 8)) in *.
  assert (R4 : ry_rd s3 (fst p4) /\ rt_nfi s3 (fst p4)).
  { unfold p4. destruct (ec =? 0); [split; [apply ry_rd_refl | apply rt_nfi_refl] |].
    destruct (wm_tk_type t =? JLS_TRACK_TYPE_FSR); (split; [apply ry_rd_buf_u64 | apply rt_nfi_buf_u64]). }
  destruct p4 as [s4 dnext]. cbn [fst] in R4. destruct R4 as (R4 & N4).
  pose proof (ry_rd_rd_chunk s4) as R5. pose proof (rt_nfi_rd_chunk s4) as N5. destruct (rp_rd_chunk s4) as [s5 rc3] eqn:E5. cbn [fst] in R5, N5.
  assert (G4 : ry_rd (rp_w_io w) s4) by (eapply ry_rd_trans; [exact R2 |]; eapply ry_rd_trans; eauto).
  assert (G5 : ry_rd (rp_w_io w) s5) by (eapply ry_rd_trans; eauto).
  assert (M5 : rt_nfi (rp_w_io w) s5).
  { eapply rt_nfi_trans; [exact N2 |]. eapply rt_nfi_trans; [exact N3 |]. eapply rt_nfi_trans; [exact N4 | exact N5]. }
  destruct (rc3 =? 0) eqn:Erc3; cbn [negb] in G |- *.
  2:{ exact (TAIL s5 t offset idx sum desc G5 M5 SAME G). }
  apply N.eqb_eq in Erc3. subst rc3.
  set (idxn := rp_cur s2) in *. set (sum1 := rp_cur s5) in *.
  set (t1 := rp_tk_set_sum_off (rp_tk_set_idx_off t level (wm_ck_offset idxn)) level (wm_ck_offset sum1)) in *.
  assert (FACTS : forall st, ry_acc f pos w st -> ry_fresh (rw_n st) t -> rw_ck (rw_hist st) (rw_n st) idx -> rw_ck (rw_hist st) (rw_n st) sum ->
            ry_fresh (rw_n st) t1 /\ rw_ck (rw_hist st) (rw_n st) idxn /\ rw_ck (rw_hist st) (rw_n st) sum1).
  { intros st H Hfr _ _.
    destruct (ry_rd_chunk_ck f pos w st s1 s2 H R1 K3) as (C1 & O1).
    destruct (ry_rd_chunk_ck f pos w st s4 s5 H G4 E5) as (C2 & O2).
    split; [| split; [exact C1 | exact C2]]. unfold t1. apply ry_fresh_set_sum_off; [| exact O2]. apply ry_fresh_set_idx_off; assumption. }
  destruct (fm_item_next (wm_ck_hdr idxn) =? 0).
  { exact (TAIL s5 t1 (fm_item_next (wm_ck_hdr idxn)) idxn sum1 dnext G5 M5 FACTS G). }
  apply IH; [exact G | exact (M5 Hf) |].
  intros Z5. assert (Z0 : rp_flt (rp_w_io w) = 0) by (apply (proj2 (proj2 G5)); exact Z5).
  destruct (Hi Z0) as (st & H & Fr & Ci & Cs & M). destruct (FACTS st H Fr Ci Cs) as (Fr1 & Ci1 & Cs1).
  exists st. split; [apply (ry_acc_rd f pos _ _ _ H G5) |]. split; [exact Fr1 |]. split; [exact Ci1 |]. split; [exact Cs1 |].
  assert (L : rt_links32 (rw_g st) = true).
  { apply (rt_guard_file w st H). eapply rt_guard_ext; [| exact G].
    eapply rt_ext_trans; [apply (rt_ext_same w (rp_w_set_io w s5)); reflexivity | apply rt_ext_ptr_levels]. }
  destruct (rt_read_step w st offset s1 s2 H L E1 K3) as (B1 & B2 & B3).
  pose proof (rt_rem_step (rw_n st) offset _ B1 B2 B3) as Q. fold idxn in Q.
  set (A := level * (rw_n st / 32 + 2)) in *. lia.
Qed.

(* ================================================================ jls_track_repair_pointers *)
Lemma rt_first_level_le : forall k s t ch, snd (rp_first_level k s t ch) <= N.of_nat k.
Proof.
  induction k as [| k IH]; intros s t ch; cbn [rp_first_level]; [cbn; lia |].
  destruct (wm_get_off (wm_tk_offsets t) (N.of_nat (S k)) =? 0); [specialize (IH s t ch); lia |].
  destruct (rp_chunk_seek s (wm_get_off (wm_tk_offsets t) (N.of_nat (S k)))) as [s1 rc].
  destruct (rc =? 0); [cbn [snd]; lia |]. match goal with |- snd (rp_first_level k ?a ?b ?c) <= _ => specialize (IH a b c) end. lia.
Qed.

Lemma rt_ext_repair_pointers : forall w id t, rt_ext w (fst (rp_repair_pointers w id t)).
Proof.
  intros w id t. unfold rp_repair_pointers.
  destruct (rp_first_level rp_top_level (rp_w_io w) t true) as [[s1 t1] level].
  match goal with |- context [rp_ptr_levels ?a ?b ?c ?d ?e ?g ?h ?i] =>
    pose proof (rt_ext_ptr_levels a b c d e g h i) as P2; destruct (rp_ptr_levels a b c d e g h i) as [[[w2 t2] offset2] sum2] end.
  cbn [fst] in P2.
  eapply rt_ext_trans; [apply (rt_ext_same w (rp_w_set_io w s1)); reflexivity |]. eapply rt_ext_trans; [exact P2 |].
  eapply rt_ext_trans; [apply rt_ext_ptr_data | apply rt_ext_track_wr_head].
Qed.

Lemma rt_repair_pointers_nf : forall w id t,
  rt_guard f (rp_log (fst (rp_repair_pointers w id t))) -> rp_flt (rp_w_io w) <> RpF_fuel ->
  (rp_flt (rp_w_io w) = 0 -> exists st, ry_acc f pos w st /\ ry_fresh (rw_n st) t) ->
  rp_flt (rp_w_io (fst (rp_repair_pointers w id t))) <> RpF_fuel.
Proof.
  intros w id t G Hf Hi. unfold rp_repair_pointers in G |- *.
  pose proof (ry_rd_first_level rp_top_level (rp_w_io w) t true) as R1.
  pose proof (rt_nfi_first_level rp_top_level (rp_w_io w) t true) as N1.
  pose proof (fun n => ry_first_level_t rp_top_level (rp_w_io w) t true n) as FT.
  pose proof (rt_first_level_le rp_top_level (rp_w_io w) t true) as LE.
  destruct (rp_first_level rp_top_level (rp_w_io w) t true) as [[s1 t1] level]. cbn [fst snd] in R1, N1, FT, LE.
  change (N.of_nat rp_top_level) with 15 in LE.
  set (w1 := rp_w_set_io w s1) in *.
  pose proof (ry_ptr_levels f pos (rp_chain_fuel s1 + 16) w1 t1 level (wm_get_off (wm_tk_offsets t1) level) wm_chunk0 wm_chunk0 0) as P2.
  pose proof (rt_ptr_levels_nf (rp_chain_fuel s1 + 16) w1 t1 level (wm_get_off (wm_tk_offsets t1) level) wm_chunk0 wm_chunk0 0) as Q2.
  destruct (rp_ptr_levels (rp_chain_fuel s1 + 16) w1 t1 level (wm_get_off (wm_tk_offsets t1) level) wm_chunk0 wm_chunk0 0)
    as [[[w2 t2] offset2] sum2]. cbv zeta in P2. cbn [fst snd] in P2, Q2. destruct P2 as (W2 & S2).
  pose proof (rt_ptr_data_nf (rp_chain_fuel s1) w2 offset2 wm_chunk0 sum2) as Q3.
  set (w3 := rp_ptr_data (rp_chain_fuel s1) w2 offset2 wm_chunk0 sum2) in *.
  pose proof (rt_ext_track_wr_head w3 id t2) as X4. pose proof (rt_nf_track_wr_head w3 id t2) as N4.
  destruct (rp_track_wr_head w3 id t2) as [w4 t4]. cbn [fst] in G, X4, N4 |- *.
  assert (G3 : rt_guard f (rp_log w3)) by (eapply rt_guard_ext; [exact X4 | exact G]).
  assert (G2 : rt_guard f (rp_log w2)) by (eapply rt_guard_ext; [apply rt_ext_ptr_data | exact G3]).
  (* the file length as the fuel sees it *)
  assert (FUEL : forall st, ry_acc f pos w st -> N.of_nat (rp_chain_fuel s1) = rw_n st + 2).
  { intros st (A1 & A2 & A3 & A4 & A5 & _). unfold rp_chain_fuel. destruct R1 as ((F1 & _) & _). rewrite F1, <- A3. rewrite A5. unfold rp_len. lia. }
  assert (INV1 : rp_flt (rp_w_io w1) = 0 -> exists st, ry_acc f pos w1 st /\ ry_fresh (rw_n st) t1 /\ ry_acc f pos w st).
  { intros Z1. assert (Z0 : rp_flt (rp_w_io w) = 0) by (apply (proj2 (proj2 R1)); exact Z1).
    destruct (Hi Z0) as (st & H & Fr). exists st. split; [apply (ry_acc_rd f pos _ _ _ H R1) |]. split; [apply FT; exact Fr | exact H]. }
  assert (F2 : rp_flt (rp_w_io w2) <> RpF_fuel).
  { apply Q2; [exact G2 | apply N1; exact Hf |]. intros Z1. destruct (INV1 Z1) as (st & H1 & Fr1 & H).
    exists st. split; [exact H1 |]. split; [exact Fr1 |]. split; [apply rw_ck0 |]. split; [apply rw_ck0 |].
    pose proof (FUEL st H) as Fu. pose proof (rt_rem_le (rw_n st) (wm_get_off (wm_tk_offsets t1) level)) as Rl.
    assert (B32 : 32 <= rw_n st) by apply H.
    assert (ML : level * (rw_n st / 32 + 2) <= 15 * (rw_n st / 32 + 2)) by (apply N.mul_le_mono_r; exact LE).
    rewrite Nat2N.inj_add, Fu. change (N.of_nat 16) with 16. lia. }
  apply N4. apply Q3; [exact G3 | exact F2 |].
  intros Z2. assert (Z1 : rp_flt (rp_w_io w1) = 0) by (apply (proj2 W2); exact Z2).
  destruct (INV1 Z1) as (st & H1 & Fr1 & H).
  destruct (S2 st H1 Fr1 (rw_ck0 _ _) (rw_ck0 _ _) Z2) as (st2 & H2 & _ & N2 & _).
  exists st2. split; [exact H2 |]. rewrite N2. pose proof (FUEL st H) as Fu. pose proof (rt_rem_le (rw_n st) offset2) as Rl. lia.
Qed.

(* ================================================================ the loops over tracks and signals *)
Definition rt_inv (w : rp_w) : Prop := exists st, ry_acc f pos w st /\ ry_sigs f pos st (rp_c w).

Lemma rt_fold_nf : forall (A : Type) (g : rp_w -> A -> rp_w),
  (forall w0 a, rt_ext w0 (g w0 a)) -> (forall w0 a, ry_full f pos w0 (g w0 a)) ->
  (forall w0 a, rt_guard f (rp_log (g w0 a)) -> rp_flt (rp_w_io w0) <> RpF_fuel -> (rp_flt (rp_w_io w0) = 0 -> rt_inv w0) ->
                rp_flt (rp_w_io (g w0 a)) <> RpF_fuel) ->
  forall l w, rt_guard f (rp_log (fold_left g l w)) -> rp_flt (rp_w_io w) <> RpF_fuel -> (rp_flt (rp_w_io w) = 0 -> rt_inv w) ->
    rp_flt (rp_w_io (fold_left g l w)) <> RpF_fuel.
Proof.
  intros A g Hext Hfull Hnf. 
  assert (EXT : forall l w, rt_ext w (fold_left g l w)).
  { induction l as [| a l IH]; intros w; cbn [fold_left]; [apply rt_ext_refl | eapply rt_ext_trans; [apply Hext | apply IH]]. }
  induction l as [| a l IH]; intros w G Hf Hi; cbn [fold_left] in G |- *; [exact Hf |].
  apply IH; [exact G | |].
  - apply Hnf; [eapply rt_guard_ext; [apply EXT | exact G] | exact Hf | exact Hi].
  - intros Z1. destruct (Hfull w a) as (F1 & S1). destruct (Hi (F1 Z1)) as (st & H & S). destruct (S1 st H S Z1) as (st1 & H1 & G1 & _).
    exists st1. split; assumption.
Qed.

Definition rt_tracks_step (id : N) (w0 : rp_w) (ty : N) : rp_w :=
  let g := rp_get_sig (rp_c w0) id in
  let '(has, t) := rp_sg_track g ty in
  if has then
    let '(w1, t1) := rp_repair_pointers w0 id t in
    let g1 := rp_get_sig (rp_c w1) id in
    rp_w_set_c w1 (rp_put_sig (rp_c w1) id (rp_sg_set_tk g1 (wm_upd (N.to_nat ty) (true, t1) (rp_sg_tk g1))))
  else w0.

Lemma rt_tracks_step_ext : forall id w0 ty, rt_ext w0 (rt_tracks_step id w0 ty).
Proof.
  intros id w0 ty. unfold rt_tracks_step. cbv zeta. destruct (rp_sg_track (rp_get_sig (rp_c w0) id) ty) as [has t].
  destruct has; [| apply rt_ext_refl]. pose proof (rt_ext_repair_pointers w0 id t) as X. destruct (rp_repair_pointers w0 id t) as [w1 t1]. exact X.
Qed.
Lemma rt_tracks_step_nf : forall id w0 ty, rt_guard f (rp_log (rt_tracks_step id w0 ty)) -> rp_flt (rp_w_io w0) <> RpF_fuel ->
  (rp_flt (rp_w_io w0) = 0 -> rt_inv w0) -> rp_flt (rp_w_io (rt_tracks_step id w0 ty)) <> RpF_fuel.
Proof.
  intros id w0 ty. unfold rt_tracks_step. cbv zeta. destruct (rp_sg_track (rp_get_sig (rp_c w0) id) ty) as [has t] eqn:Et.
  destruct has; [| intros _ Hf _; exact Hf].
  pose proof (rt_repair_pointers_nf w0 id t) as Q. destruct (rp_repair_pointers w0 id t) as [w1 t1]. cbn [fst] in Q.
  intros G Hf Hi. change (rp_flt (rp_w_io w1) <> RpF_fuel). apply Q; [exact G | exact Hf |].
  intros Z. destruct (Hi Z) as (st & H & S). exists st. split; [exact H |].
  pose proof (ry_sig_track f pos st _ ty (ry_sigs_get f pos st _ id S)) as Tk. rewrite Et in Tk. apply Tk.
Qed.

Theorem rt_repair_all_pointers_nf : forall w,
  rt_guard f (rp_log (rp_repair_all_pointers w)) -> rp_flt (rp_w_io w) <> RpF_fuel -> (rp_flt (rp_w_io w) = 0 -> rt_inv w) ->
  rp_flt (rp_w_io (rp_repair_all_pointers w)) <> RpF_fuel.
Proof.
  intros w. unfold rp_repair_all_pointers. apply rt_fold_nf.
  - intros w0 id. destruct (rp_sg_sigid (rp_get_sig (rp_c w0) id) =? id); [| apply rt_ext_refl].
    unfold rp_repair_tracks. generalize [0; 1; 2; 3]. intros l. revert w0.
    induction l as [| ty l IH]; intros w0; cbn [fold_left]; [apply rt_ext_refl |].
    eapply rt_ext_trans; [apply (rt_tracks_step_ext id w0 ty) | apply IH].
  - intros w0 id. destruct (rp_sg_sigid (rp_get_sig (rp_c w0) id) =? id); [apply ry_repair_tracks | apply ry_full_refl].
  - intros w0 id G Hf Hi. destruct (rp_sg_sigid (rp_get_sig (rp_c w0) id) =? id); [| exact Hf].
    unfold rp_repair_tracks in G |- *. revert G Hf Hi. apply (rt_fold_nf N (rt_tracks_step id)).
    + apply rt_tracks_step_ext.
    + intros w1 ty. apply ry_repair_tracks_step.
    + apply rt_tracks_step_nf.
Qed.

End RT.
