(* private extraction file of the slice `repair` (development only; see SLICE_GUIDE.md).
   At integration: coq/Extract.v gets  `RepairRaw RepairModel`  added to its `From JLS Require Import` line and the names
     RepairModel.rp_open RepairModel.rp_scan RepairModel.rp_apply_log RepairModel.rp_ends_with_end RepairModel.rp_links_forward
   added to its Extraction list (ocaml/drv_repair.ml uses rp_open, the record rp_result (fields rp_rc rp_events rp_after
   rp_fault rp_did rp_uninit_ppl rp_end_off), the type wm_entry, and the float oracles of ocaml/drv_wmodel.ml, which must
   precede drv_repair.ml in ocaml/DRIVERS); the names of Extract_wmodel.v stay. *)
From Coq Require Import Extraction ExtrOcamlBasic NArith ZArith QArith Qreduction List.
From JLS Require Import Generated CrcDefs Spec Format WmRaw WmCore WmTs WmFsr WriterModel RepairRaw RepairModel.
Extraction Language OCaml.
Extraction "jlsmodel_ext"
  BinInt.Z.add BinInt.Z.opp BinInt.Z.of_N BinInt.Z.to_N BinNat.N.add BinNat.N.mul BinNat.N.of_nat BinNat.N.to_nat
  CrcDefs.crc_spec CrcDefs.crc32c CrcDefs.crc_slice8 CrcDefs.crc_hw CrcDefs.crc_hdr_hw CrcDefs.crc_hdr_slice8
  Spec.str_read
  WriterModel.wm_run WriterModel.wm_run_full WriterModel.wm_step WriterModel.wm_step_rc
  WriterModel.wm_api_open WriterModel.wm_api_close WriterModel.wm_st_log WriterModel.wm_st_fault WriterModel.wm_find_sig
  RepairModel.rp_open RepairModel.rp_scan RepairModel.rp_apply_log RepairModel.rp_ends_with_end RepairModel.rp_links_forward.
