(* Private extraction file of the pyr slice (copy of Extract.v naming only the pyramid
   entry points).  At integration add to coq/Extract.v:
     PyramidModel.py_srun PyramidModel.py_run PyramidModel.py_fsr_length PyramidModel.py_fsr_seek
     PyramidModel.py_rd_data0 PyramidModel.py_cache0 PyramidModel.py_step PyramidModel.py_cap
     PyramidModel.py_chunk_level PyramidModel.py_chunk_tag PyramidModel.py_consistentb
   and `PyramidModel` to the Require line. *)
From Coq Require Import Extraction ExtrOcamlBasic NArith ZArith List.
From JLS Require Import Generated PyramidModel.
Extraction Language OCaml.
Extraction "jlsmodel_ext"
  BinInt.Z.add BinInt.Z.opp BinInt.Z.of_N BinInt.Z.to_N BinNat.N.add BinNat.N.mul BinNat.N.of_nat BinNat.N.to_nat
  PyramidModel.py_srun PyramidModel.py_run PyramidModel.py_fsr_length PyramidModel.py_fsr_seek
  PyramidModel.py_rd_data0 PyramidModel.py_cache0 PyramidModel.py_step PyramidModel.py_cap
  PyramidModel.py_chunk_level PyramidModel.py_chunk_tag PyramidModel.py_consistentb.
