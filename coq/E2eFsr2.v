(* END TO END, layer 4 (FSR read path), part 2: the byte-level reader model (ReaderModel: jls_core_fsr_seek,
   jls_core_rd_fsr_level1, jls_core_rd_fsr_data0, jls_core_fsr_length on the bytes of a file f) SIMULATES the abstract
   reader arithmetic of PyramidModel (py_fsr_seek, py_rd_level1, py_rd_data0, py_fsr_length on an abstract disk), whenever
   the abstract disk "is in the file": every abstract chunk pc stands, complete, at the file offset psi (pc_off pc) with the
   payload the writer model builds for it (INDEX entries = psi of the abstract entries), and the chunk that follows an INDEX
   chunk in the file is the chunk that follows it on the abstract disk.  Whatever the abstract reader computes successfully,
   the byte-level reader computes its image, with return code 0, without fault and without reading beyond a payload.
   (That the abstract arithmetic is RIGHT is Properties_C01_pyr / Properties_compose; that the writer model's file satisfies
   the hypotheses is E2eModel + E2eProg.) *)
From Coq Require Import NArith ZArith List Bool Lia Arith.
From Coq Require Import ZifyBool ZifyN ZifyNat.
From JLS Require Import Generated CrcDefs CrcProofs Spec Format FormatProofs WmRaw WmCore WmTs WmFsr WriterModel
  WmProofs RefineLog RefineFsr RefinePyr RepairRaw RepairModel BitCopyModel FsrPackModel FsrPackProofs RawReadProofs ReaderModel ReaderProofs ReaderProofs3 ReaderProofs4 ReaderProofs6
  PyramidModel RefineDefs E2eLog E2eRead E2eFsr.
Import ListNotations.
Local Open Scope N_scope.
Ltac Zify.zify_post_hook ::= Z.div_mod_to_equations.

Local Opaque crc32c.

Definition e2_tsb : Z := 2305843009213693952%Z.      (* 2^61: bound on sample ids, so that no int64 expression of the reader overflows *)

Definition e2_pc_tag (k : py_kind) : N :=
  match k with PyData => JLS_TAG_TRACK_FSR_DATA | PyIndex _ => JLS_TAG_TRACK_FSR_INDEX | PySummary _ => JLS_TAG_TRACK_FSR_SUMMARY end.
Definition e2_pc_level (k : py_kind) : N := match k with PyData => 0 | PyIndex L => N.of_nat L | PySummary L => N.of_nat L end.

(* ---- int64 step sizes ---- *)
Lemma e2_mul_loop_ge : forall n m acc, (1 <= m)%Z -> (0 < acc)%Z -> (acc <= py_mul_loop n m acc)%Z.
Proof.
  induction n as [|n IH]; intros m acc Hm Ha; cbn [py_mul_loop]; [lia|].
  specialize (IH m (acc * m)%Z Hm ltac:(nia)). nia.
Qed.

Lemma e2_mul_n : forall n x m, (0 < x)%Z -> (1 <= m)%Z -> (py_mul_loop n m x < rdm_two63)%Z ->
  rdm_mul_n n x m = (py_mul_loop n m x, true).
Proof.
  induction n as [|n IH]; intros x m Hx Hm Hlt; cbn [rdm_mul_n py_mul_loop] in *; [reflexivity|].
  pose proof (e2_mul_loop_ge n m (x * m)%Z Hm ltac:(nia)) as Hge.
  assert (Hin : rdm_inr (x * m) = true) by (unfold rdm_inr, rdm_two63 in *; apply andb_true_iff; split; [apply Z.leb_le|apply Z.ltb_lt]; nia).
  assert (Hw : rdm_wrap (x * m) = (x * m)%Z) by (unfold rdm_wrap, rdm_two63, rdm_two64 in *; nia).
  rewrite Hw, (IH (x * m)%Z m ltac:(nia) Hm Hlt), Hin. reflexivity.
Qed.

Lemma e2_step_size : forall d k, (1 <= k)%nat -> py_div_ok (rf_pd d) = true ->
  (0 < py_step (rf_pd d) k < rdm_two63)%Z -> (1 <= Z.of_N (sg_sumdf d))%Z ->
  rdm_step_size d (N.of_nat k) = (py_step (rf_pd d) k, false, true).
Proof.
  intros d k Hk Hdiv Hst Hsum. unfold rdm_step_size, py_step in *. unfold rf_pd in *. cbn [py_spd py_sdf py_eps py_sumdf] in *.
  unfold py_div_ok, py_epd in Hdiv. cbn [py_spd py_sdf py_eps py_sumdf] in Hdiv.
  apply andb_true_iff in Hdiv as [Hdiv H4]. apply andb_true_iff in Hdiv as [Hdiv H3]. apply andb_true_iff in Hdiv as [H1 H2].
  apply negb_true_iff, Z.eqb_neq in H1, H2, H3, H4.
  destruct (N.leb_spec (N.of_nat k) 1) as [Hle|Hgt].
  - assert (k = 1%nat) by lia. subst k. cbn [Nat.ltb Nat.leb Nat.sub py_mul_loop] in *. reflexivity.
  - assert (Hk2 : (1 <? k)%nat = true) by (apply Nat.ltb_lt; lia). rewrite Hk2 in Hst.
    assert (Hsdf : (sg_sdf d =? 0) = false) by (apply N.eqb_neq; lia).
    assert (Hq : (sg_spd d / sg_sdf d =? 0) = false).
    { apply N.eqb_neq. intro E. apply H2. rewrite <- N2Z.inj_div. rewrite E. reflexivity. }
    rewrite Hsdf, Hq. cbn [orb].
    replace (N.to_nat (N.of_nat k - 2)) with (k - 2)%nat by lia.
    set (s1 := (Z.of_N (sg_spd d) * Z.of_N (sg_eps d / (sg_spd d / sg_sdf d)))%Z).
    assert (Es1 : s1 = (Z.of_N (sg_spd d) * (Z.of_N (sg_eps d) / (Z.of_N (sg_spd d) / Z.of_N (sg_sdf d))))%Z).
    { subst s1. rewrite !N2Z.inj_div. reflexivity. }
    rewrite <- Es1 in Hst.
    assert (Hs1pos : (0 < s1)%Z).
    { destruct (Z.lt_total 0 s1) as [Hp|[Hz|Hn]]; [exact Hp| |].
      - exfalso. rewrite <- Hz in Hst. assert (forall n m, py_mul_loop n m 0 = 0%Z) as Hm0 by (induction n; intros; cbn [py_mul_loop]; [reflexivity|rewrite Z.mul_0_l; auto]).
        rewrite Hm0 in Hst. lia.
      - exfalso. subst s1. pose proof (N2Z.is_nonneg (sg_spd d)). pose proof (N2Z.is_nonneg (sg_eps d / (sg_spd d / sg_sdf d))). nia. }
    pose proof (e2_mul_loop_ge (k - 2) (Z.of_N (sg_sumdf d)) s1 Hsum Hs1pos) as Hge.
    assert (Hin : rdm_inr s1 = true) by (unfold rdm_inr, rdm_two63 in *; apply andb_true_iff; split; [apply Z.leb_le|apply Z.ltb_lt]; lia).
    assert (Hw : rdm_wrap s1 = s1) by (unfold rdm_wrap, rdm_two63, rdm_two64 in *; lia).
    rewrite Hw, (e2_mul_n (k - 2) s1 (Z.of_N (sg_sumdf d)) Hs1pos Hsum ltac:(lia)), Hin. rewrite Hk2, <- Es1. reflexivity.
Qed.

(* ---- reads of the index / summary / core buffers that stay inside the content leave the state alone ---- *)
Lemma e2_set_stale_false : forall st, rdm_set_stale st false = st.
Proof. intro st. destruct st. unfold rdm_set_stale. cbn. rewrite orb_false_r. reflexivity. Qed.

Lemma e2_mem_rd_in : forall b len off n, length (rp_take len b) = N.to_nat len -> (0 <= off)%Z ->
  Z.to_N off + n <= len -> len <= JLS_BUF_DEFAULT_SIZE ->
  rdm_mem_rd b len off n = (fm_sub (Z.to_N off) n (rp_take len b), false, false).
Proof.
  intros b len off n Hl H0 Hb Hmax. unfold rdm_mem_rd.
  destruct (off <? 0)%Z eqn:E0; [lia|]. destruct (JLS_BUF_DEFAULT_SIZE <? Z.to_N off + n) eqn:E1; [lia|].
  destruct (len <? Z.to_N off + n) eqn:E2; [lia|]. rewrite (rdm_sub_inside b len _ _ Hl Hb). reflexivity.
Qed.

Lemma e2_idx_rd_in : forall st off n, length (rp_take (rdm_ilen st) (rdm_ibuf st)) = N.to_nat (rdm_ilen st) -> (0 <= off)%Z ->
  Z.to_N off + n <= rdm_ilen st -> rdm_ilen st <= JLS_BUF_DEFAULT_SIZE ->
  rdm_idx_rd st off n = (st, fm_sub (Z.to_N off) n (rp_take (rdm_ilen st) (rdm_ibuf st))).
Proof.
  intros st off n Hl H0 Hb Hmax. unfold rdm_idx_rd. rewrite (e2_mem_rd_in _ _ _ _ Hl H0 Hb Hmax).
  cbn [rdm_fault_if]. rewrite e2_set_stale_false. reflexivity.
Qed.
Lemma e2_sum_rd_in : forall st off n, length (rp_take (rdm_slen st) (rdm_sbuf st)) = N.to_nat (rdm_slen st) -> (0 <= off)%Z ->
  Z.to_N off + n <= rdm_slen st -> rdm_slen st <= JLS_BUF_DEFAULT_SIZE ->
  rdm_sum_rd st off n = (st, fm_sub (Z.to_N off) n (rp_take (rdm_slen st) (rdm_sbuf st))).
Proof.
  intros st off n Hl H0 Hb Hmax. unfold rdm_sum_rd. rewrite (e2_mem_rd_in _ _ _ _ Hl H0 Hb Hmax).
  cbn [rdm_fault_if]. rewrite e2_set_stale_false. reflexivity.
Qed.
Lemma e2_buf_rd_in : forall st off n, rdm_pay_ok (rdm_io st) -> (0 <= off)%Z ->
  Z.to_N off + n <= rp_buf_len (rdm_io st) -> rp_buf_len (rdm_io st) <= JLS_BUF_DEFAULT_SIZE ->
  rdm_buf_rd st off n = (st, fm_sub (Z.to_N off) n (rp_payload (rdm_io st))).
Proof.
  intros st off n Hl H0 Hb Hmax. unfold rdm_buf_rd. unfold rdm_pay_ok, rp_payload in Hl.
  rewrite (e2_mem_rd_in _ _ _ _ Hl H0 Hb Hmax). cbn [rdm_fault_if]. rewrite e2_set_stale_false. reflexivity.
Qed.
Lemma e2_buf_u_in : forall st off n, rdm_pay_ok (rdm_io st) -> (0 <= off)%Z ->
  Z.to_N off + n <= rp_buf_len (rdm_io st) -> rp_buf_len (rdm_io st) <= JLS_BUF_DEFAULT_SIZE ->
  rdm_buf_u st off n = (st, fm_dec (fm_sub (Z.to_N off) n (rp_payload (rdm_io st)))).
Proof. intros st off n Hl H0 Hb Hmax. unfold rdm_buf_u. rewrite (e2_buf_rd_in st off n Hl H0 Hb Hmax). reflexivity. Qed.
Lemma e2_buf_i64_in : forall st off, rdm_pay_ok (rdm_io st) -> (0 <= off)%Z ->
  Z.to_N off + 8 <= rp_buf_len (rdm_io st) -> rp_buf_len (rdm_io st) <= JLS_BUF_DEFAULT_SIZE ->
  rdm_buf_i64 st off = (st, fm_i64_of_u64 (fm_dec (fm_sub (Z.to_N off) 8 (rp_payload (rdm_io st))))).
Proof. intros st off Hl H0 Hb Hmax. unfold rdm_buf_i64. rewrite (e2_buf_rd_in st off 8 Hl H0 Hb Hmax). reflexivity. Qed.

Lemma e2_i64_in : forall st z, (- e2_tsb <= z < e2_tsb)%Z -> rdm_i64 st z = (st, z).
Proof.
  intros st z H. apply rdm_i64_fwd. unfold rdm_inr, rdm_two63, e2_tsb in *. apply andb_true_iff. split; [apply Z.leb_le|apply Z.ltb_lt]; lia.
Qed.

(* ================================================================ the copy loop of jls_core_fsr *)
(* Same statement as ReaderProofs6.rdm_fsr_loop_window (Properties_reader.Reader_fsr_loop_window_partial) without its first
   hypothesis ("P ignores the ghost flag / fault code of the state": a P that mentions the FILE of the state cannot satisfy it,
   because the relation used there leaves rp_file unconstrained); instead the reads of core->buf inside the current payload
   are shown to return the state unchanged. *)
Section E2Link.
Variable recon : bool -> bool -> Z -> N -> N -> N -> list N.
Variable f32_of_f64 : N -> N.
Variable id w : N.
Variable blocks : list (Z * N * list N).
Variable P : rdm_st -> Prop.

Hypothesis delivers : forall st sid ts cnt payload, P st -> fp_find_block blocks sid = Some (ts, cnt, payload) ->
  exists st', rdm_rd_fsr_data0 recon f32_of_f64 st id sid = (st', 0, false) /\ P st' /\
              rdm_stale st' = rdm_stale st /\ rdm_flt st' = rdm_flt st /\ rdm_block_in_buf w st' ts cnt payload.
Hypothesis blocks_ok : forall ts cnt p, In (ts, cnt, p) blocks ->
  (- rdm_two63 <= ts)%Z /\ (ts + Z.of_N cnt < rdm_two63)%Z /\ cnt < rdm_two32 /\ N.of_nat (length p) = (cnt * w + 7) / 8.
Hypothesis w_pos : 0 < w.

Lemma e2_find_block_in : forall sid ts cnt p, fp_find_block blocks sid = Some (ts, cnt, p) ->
  In (ts, cnt, p) blocks /\ (ts <= sid)%Z /\ (sid < ts + Z.of_N cnt)%Z.
Proof.
  intros sid ts cnt p H. unfold fp_find_block in H. apply find_some in H. destruct H as [Hin Hb].
  apply andb_true_iff in Hb. split; [exact Hin | lia].
Qed.

Lemma e2_fp_rd_loop_fuel : forall n m sid len dst dbit out, (n <= m)%nat ->
  fp_rd_loop n w blocks sid len dst dbit = RD_ok out -> fp_rd_loop m w blocks sid len dst dbit = RD_ok out.
Proof.
  induction n as [| n IH]; intros m sid len dst dbit out Hnm H; cbn [fp_rd_loop] in H.
  - destruct (len <=? 0)%Z eqn:E; [| discriminate]. destruct m; cbn [fp_rd_loop]; rewrite E; exact H.
  - destruct m as [| m]; [lia |]. cbn [fp_rd_loop]. destruct (len <=? 0)%Z; [exact H |].
    destruct (fp_find_block blocks sid) as [[[ts cnt] payload] |]; [| discriminate].
    match type of H with context [if ?c then RD_not_found else _] => destruct c end; [discriminate |].
    match type of H with context [bc_bit_copy ?a ?b ?c ?d ?e] => destruct (bc_bit_copy a b c d e) end; try discriminate.
    apply IH; [lia | exact H].
Qed.

Lemma e2_fsr_loop_is_fp_rd_loop : forall fuel st sid len dst dbit pcs out, P st ->
  fp_rd_loop fuel w blocks sid len dst dbit = RD_ok out ->
  exists st' pcs', rdm_fsr_loop recon f32_of_f64 fuel st id w sid len dst dbit pcs = (st', 0, out, pcs') /\
                   P st' /\ rdm_stale st' = rdm_stale st /\ rdm_flt st' = rdm_flt st.
Proof.
  induction fuel as [| fu IH]; intros st sid len dst dbit pcs out HP H; cbn [fp_rd_loop rdm_fsr_loop] in *.
  - destruct (len <=? 0)%Z; [| discriminate]. inversion H; subst. exists st, pcs. repeat split; assumption.
  - destruct (len <=? 0)%Z eqn:Elen; [inversion H; subst; exists st, pcs; repeat split; assumption |].
    destruct (fp_find_block blocks sid) as [[[ts cnt] payload] |] eqn:Efb; [| discriminate].
    destruct (e2_find_block_in _ _ _ _ Efb) as (Hin & Hlo & Hhi).
    destruct (blocks_ok _ _ _ Hin) as (Bts & Bend & Bcnt & Blen).
    destruct (delivers st sid ts cnt payload HP Efb) as (st1 & E1 & P1 & S1 & F1 & Hbuf).
    rewrite E1. cbn [negb N.eqb]. cbv beta iota.
    destruct Hbuf as (Hpok & Hbl & Hmax & Hts & Hcnt & Hw & Hpay).
    unfold SIZEOF_payload_header in Hbl.
    rewrite (e2_buf_i64_in st1 0 Hpok); [|lia|change (Z.to_N 0) with 0; lia|exact Hmax].
    change (Z.to_N 0) with 0. rewrite Hts.
    rewrite (e2_buf_u_in st1 _ 4 Hpok); [|lia|rewrite N2Z.id; unfold OFFSETOF_payload_entry_count; lia|exact Hmax].
    rewrite N2Z.id, Hcnt.
    rewrite (e2_buf_u_in st1 _ 2 Hpok); [|lia|rewrite N2Z.id; unfold OFFSETOF_payload_entry_size_bits; lia|exact Hmax].
    rewrite N2Z.id, Hw. rewrite N.eqb_refl. cbn [negb].
    set (idx := if (sid >? ts)%Z then (sid - ts)%Z else 0%Z) in *.
    assert (E5 : (if (ts <? sid)%Z then rdm_i64 st1 (sid - ts)%Z else (st1, 0%Z)) = (st1, idx)).
    { unfold idx. destruct (ts <? sid)%Z eqn:E; destruct (sid >? ts)%Z eqn:E'; try lia; [| reflexivity].
      apply rdm_i64_fwd. unfold rdm_inr, rdm_two63, rdm_two32 in *. apply andb_true_iff. split; lia. }
    rewrite E5.
    assert (Hidx : (0 <= idx)%Z /\ (idx < Z.of_N cnt)%Z /\ idx = (sid - ts)%Z) by (unfold idx; destruct (sid >? ts)%Z eqn:E; lia).
    set (sz0 := if (sid >? ts)%Z then (Z.of_N cnt - idx)%Z else Z.of_N cnt) in *.
    assert (Hsz0 : sz0 = (Z.of_N cnt - idx)%Z) by (unfold sz0, idx; destruct (sid >? ts)%Z; lia).
    set (sz := if (sz0 >? len)%Z then len else sz0) in *.
    assert (Esz : (if (len <? Z.of_N cnt - idx)%Z then len else (Z.of_N cnt - idx)%Z) = sz).
    { unfold sz. rewrite Hsz0. destruct (len <? Z.of_N cnt - idx)%Z eqn:E; destruct (Z.of_N cnt - idx >? len)%Z eqn:E'; lia. }
    rewrite Esz.
    destruct (sz <=? 0)%Z eqn:Eszpos; [discriminate |].
    assert (Hsz : (0 < sz)%Z /\ (sz <= Z.of_N cnt - idx)%Z /\ (sz <= len)%Z) by (unfold sz in *; destruct (sz0 >? len)%Z eqn:E; lia).
    set (sbit := Z.to_N idx * w) in *. set (cb := Z.to_N sz * w) in *.
    set (nbytes := (sbit mod 8 + cb + 7) / 8).
    assert (Hfit : sbit / 8 + nbytes <= rp_len payload).
    { unfold rp_len. rewrite Blen. unfold nbytes, sbit, cb.
      assert (Z.to_N idx * w + Z.to_N sz * w <= cnt * w) by nia. lia. }
    cbn [negb].
    rewrite (e2_buf_rd_in st1 (Z.of_N (SIZEOF_payload_header + sbit / 8)) nbytes Hpok); [|lia|rewrite N2Z.id; unfold SIZEOF_payload_header; lia|exact Hmax].
    rewrite N2Z.id.
    rewrite (rdm_sub_sub (sbit / 8) SIZEOF_payload_header nbytes (rp_len payload)) by exact Hfit. rewrite Hpay.
    unfold rdm_apply_piece. cbn [rdm_pc_dbit rdm_pc_src rdm_pc_sbit rdm_pc_cnt].
    unfold nbytes. rewrite rdm_bit_copy_sub by (fold nbytes; unfold rp_len in Hfit; exact Hfit).
    fold sbit cb in H |- *.
    destruct (bc_bit_copy dst dbit payload sbit cb) as [dst1 | |]; try discriminate.
    assert (E7 : rdm_i64 st1 (sid + sz)%Z = (st1, (sid + sz)%Z)).
    { apply rdm_i64_fwd. unfold rdm_inr, rdm_two63, rdm_two32 in *. apply andb_true_iff. split; lia. }
    rewrite E7.
    match goal with |- context [rdm_fsr_loop _ _ fu st1 id w ?a ?b ?c ?d ?e] =>
      destruct (IH st1 a b c d e out P1 H) as (st' & pcs' & E & P' & S' & F') end.
    exists st', pcs'. split; [exact E |]. split; [exact P' |]. split; congruence.
Qed.

Theorem e2_fsr_loop_window : forall spd first stream st start len dst, P st ->
  0 < spd ->
  (forall k ts cnt p, nth_error blocks k = Some (ts, cnt, p) ->
     ts = (first + Z.of_nat k * Z.of_N spd)%Z /\ (0 < cnt <= spd)%N /\
     ((S k < length blocks)%nat -> cnt = spd) /\
     N.of_nat (length p) = ((cnt * w + 7) / 8)%N /\ Forall (fun b => (b < 256)%N) p) ->
  flat_map (fun b => let '(_, cnt, p) := b in firstn (N.to_nat (cnt * w)) (bc_bits p)) blocks
    = flat_map (bits_of (N.to_nat w)) stream ->
  (0 <= start)%Z -> (0 < len)%Z -> (start + len <= Z.of_nat (length stream))%Z ->
  (Z.to_N len * w <= 8 * N.of_nat (length dst))%N ->
  exists st' pcs' out,
    rdm_fsr_loop recon f32_of_f64 (S (8 * length dst)) st id w (start + first)%Z len dst 0 [] = (st', 0, out, pcs') /\
    P st' /\ rdm_stale st' = rdm_stale st /\ rdm_flt st' = rdm_flt st /\ length out = length dst /\
    firstn (N.to_nat (Z.to_N len * w)) (bc_bits out)
      = flat_map (bits_of (N.to_nat w)) (firstn (Z.to_nat len) (skipn (Z.to_nat start) stream)) /\
    skipn (N.to_nat (Z.to_N len * w)) (bc_bits out) = skipn (N.to_nat (Z.to_N len * w)) (bc_bits dst) /\
    (dst = repeat 0%N (N.to_nat ((Z.to_N len * w + 7) / 8)) ->
     out = pack w (firstn (Z.to_nat len) (skipn (Z.to_nat start) stream))).
Proof.
  intros spd first stream st start len dst HP Hspd Hshape Hbits Hst Hlen Hrange Hdst.
  destruct (rd_blocks_spec_lemma w spd first blocks stream start len dst w_pos Hspd Hshape Hbits Hst Hlen Hrange Hdst)
    as (out & H1 & H2 & H3 & H4 & H5).
  unfold fp_rd_blocks in H1.
  destruct (len <=? 0)%Z eqn:E0; [lia |]. destruct (start <? 0)%Z; [discriminate |].
  match type of H1 with context [if ?c then RD_param_invalid else _] => destruct c end; [discriminate |].
  assert (Hfuel : (Z.to_nat len <= S (8 * length dst))%nat) by nia.
  pose proof (e2_fp_rd_loop_fuel _ _ _ _ _ _ _ Hfuel H1) as H1'.
  destruct (e2_fsr_loop_is_fp_rd_loop _ st _ _ _ _ [] _ HP H1') as (st' & pcs' & E & P' & S' & F').
  exists st', pcs', out. repeat split; assumption.
Qed.
End E2Link.

(* ================================================================ the setting *)
Section E2F.
Variable f : list N.                 (* the file *)
Variable d : sigdef.                 (* the signal's stored (aligned) definition *)
Variable disk : list py_chunk.       (* PyramidModel's disk of the signal *)
Variable heads : list Z.             (* PyramidModel's head table *)
Variable psi : Z -> N.               (* abstract position -> file offset *)
Variable T0 : Z.                     (* first sample id *)
Variable Ktop : nat.                 (* no level above Ktop *)

Let sid := sg_id d.
Let w := dt_bits (sg_dtype d).
Let pd := rf_pd d.

(* the payload the writer model builds for an abstract chunk *)
Definition e2_pc_pay (pc : py_chunk) (p : list N) : Prop :=
  match pc_kind pc with
  | PyData => exists data, p = wm_fsr_data_payload (pc_ts pc) (Z.to_N (pc_count pc)) w data
  | PyIndex L => p = wm_fsr_index_payload (pc_ts pc) (Z.to_N (pc_count pc)) (map psi (pc_entries pc)) /\
                 Z.of_nat (length (pc_entries pc)) = pc_count pc
  | PySummary L => exists entries, p = wm_fsr_summary_payload (sg_dtype d) (pc_ts pc) (Z.to_N (pc_count pc)) entries
  end.

(* the abstract chunk pc is in the file *)
Definition e2_pc_ok (pc : py_chunk) : Prop :=
  (0 < pc_off pc)%Z /\ 32 <= psi (pc_off pc) /\ psi (pc_off pc) < rp_two63 /\
  match pc_kind pc with PySummary _ => True | _ => (- e2_tsb <= pc_ts pc < e2_tsb)%Z end /\
  (0 <= pc_count pc < 4294967296)%Z /\ e2_pc_level (pc_kind pc) < 16 /\
  exists h p, e2_chunk_at f (psi (pc_off pc)) h p /\ fm_tag h = e2_pc_tag (pc_kind pc) /\
              fm_chunk_meta h = wm_meta sid (e2_pc_level (pc_kind pc)) /\
              fm_disk_len (rf_len p) <= JLS_BUF_DEFAULT_SIZE /\ e2_pc_pay pc p.

Hypothesis Hsid : sid < 256.
Hypothesis Hw : 0 < w < 65536.
Hypothesis Hdiv : py_div_ok pd = true.
Hypothesis Hsumdf : (1 <= py_sumdf pd)%Z.
Hypothesis Hpsi0 : psi 0 = 0.
Hypothesis Hdisk : Forall e2_pc_ok disk.
Hypothesis Hnd : NoDup (map pc_off disk).
(* entries of INDEX chunks and head offsets are 0 or positions of the disk *)
Hypothesis Hent : forall pc L e, In pc disk -> pc_kind pc = PyIndex L -> In e (pc_entries pc) -> e = 0%Z \/ exists c, In c disk /\ pc_off c = e.
Hypothesis Hheads : forall L, nth L heads 0%Z = 0%Z \/ exists c, In c disk /\ pc_off c = nth L heads 0%Z.
(* the chunk that follows an INDEX chunk in the file is the next chunk of the disk *)
Hypothesis Hnext : forall pc nx L, py_find disk (pc_off pc) = Some (pc, Some nx) -> pc_kind pc = PyIndex L ->
  psi (pc_off nx) = psi (pc_off pc) + fm_chunk_size (SIZEOF_payload_header + 8 * Z.to_N (pc_count pc)).
Hypothesis Htop : forall L, (Ktop < L)%nat -> nth L heads 0%Z = 0%Z.
Hypothesis Hstep : forall k, (1 <= k <= Ktop)%nat -> (0 < py_step pd k < rdm_two63)%Z.
Hypothesis HT0 : (- e2_tsb <= T0 < e2_tsb)%Z.
(* the shape of the pyramid (Properties_C01_pyr.pyramid_inv): head_offsets[L] and the entries of an INDEX chunk of level
   L + 1 are INDEX chunks of level L; an INDEX chunk has at least one entry *)
Hypothesis Hidx_head : forall L c, (1 <= L)%nat -> In c disk -> pc_off c = nth L heads 0%Z -> pc_kind c = PyIndex L.
Hypothesis Hidx_ent : forall pc L e c, In pc disk -> pc_kind pc = PyIndex (S (S L)) -> In e (pc_entries pc) -> In c disk -> pc_off c = e ->
  pc_kind c = PyIndex (S L).
Hypothesis Hidx_cnt : forall pc L, In pc disk -> pc_kind pc = PyIndex L -> (1 <= pc_count pc)%Z.
Hypothesis Hsido : py_sample_id_offset disk heads = T0.
(* the SUMMARY chunk behind an INDEX chunk carries a sample id in range; the entries of a level-1 INDEX chunk and
   head_offsets[0] are DATA chunks *)
Hypothesis Hsum_ts : forall pc nx L, py_find disk (pc_off pc) = Some (pc, Some nx) -> pc_kind pc = PyIndex L ->
  (- e2_tsb <= pc_ts nx < e2_tsb)%Z.
Hypothesis Hdata_ent : forall pc e c, In pc disk -> pc_kind pc = PyIndex 1 -> In e (pc_entries pc) -> In c disk -> pc_off c = e ->
  pc_kind c = PyData.
Hypothesis Hhead0 : forall c, In c disk -> pc_off c = nth 0 heads 0%Z -> pc_kind c = PyData.

(* ---- the disk ---- *)
Lemma e2_find_in : forall pc, In pc disk -> exists nx, py_find disk (pc_off pc) = Some (pc, nx).
Proof.
  intros pc Hin. revert Hnd. clear - Hin. induction disk as [|a l IH]; intros Hnd; [destruct Hin|].
  cbn [map] in Hnd. inversion Hnd as [|? ? Hni Hnd']; subst. cbn [py_find].
  destruct Hin as [->|Hin]; [rewrite Z.eqb_refl; eexists; reflexivity|].
  destruct (Z.eqb_spec (pc_off a) (pc_off pc)) as [E|_]; [|apply IH; assumption].
  exfalso. apply Hni. rewrite E. apply in_map. exact Hin.
Qed.

Lemma e2_find_some : forall off c nx, py_find disk off = Some (c, nx) -> In c disk /\ pc_off c = off.
Proof.
  intros off c nx. clear. induction disk as [|a l IH]; intros H; cbn [py_find] in H; [discriminate|].
  destruct (Z.eqb_spec (pc_off a) off) as [E|_].
  - inversion H; subst. split; [left; reflexivity|reflexivity].
  - destruct (IH H) as [A B]. split; [right; exact A|exact B].
Qed.

Lemma e2_find_next_in : forall off c nx, py_find disk off = Some (c, Some nx) -> In nx disk.
Proof.
  intros off c nx. clear. induction disk as [|a l IH]; intros H; cbn [py_find] in H; [discriminate|].
  destruct (Z.eqb_spec (pc_off a) off) as [E|_].
  - destruct l as [|b l']; inversion H; subst. right. left. reflexivity.
  - right. apply IH. exact H.
Qed.

Lemma e2_pc_ok_in : forall pc, In pc disk -> e2_pc_ok pc.
Proof. intros pc H. rewrite Forall_forall in Hdisk. apply Hdisk. exact H. Qed.

(* psi of a position of the disk is a proper offset *)
Lemma e2_psi_pos : forall p, (p = 0%Z \/ exists c, In c disk /\ pc_off c = p) ->
  (p = 0%Z -> psi p = 0) /\ (p <> 0%Z -> 32 <= psi p /\ psi p < rp_two63) /\ psi p < fm_two64.
Proof.
  intros p [->|(c & Hc & <-)].
  - rewrite Hpsi0. split; [reflexivity|]. split; [intro K; elim K; reflexivity|]. unfold fm_two64. lia.
  - destruct (e2_pc_ok_in c Hc) as (A & B & C & _). split; [lia|]. split; [intros _; split; assumption|].
    unfold rp_two63, fm_two63, fm_two64 in *. lia.
Qed.

(* ---- the part of the reader state that never changes while reading ---- *)
Record e2_R0 (st : rdm_st) : Prop := {
  r_rdr : e2_rdr (rdm_io st) f;
  r_val : rp_signal_validate (rdm_c st) sid = 0;
  r_type : sg_type (rdm_def st sid) = JLS_SIGNAL_TYPE_FSR;
  r_spd : sg_spd (rdm_def st sid) = sg_spd d;
  r_sdf : sg_sdf (rdm_def st sid) = sg_sdf d;
  r_eps : sg_eps (rdm_def st sid) = sg_eps d;
  r_sumdf : sg_sumdf (rdm_def st sid) = sg_sumdf d;
  r_dtype : sg_dtype (rdm_def st sid) = sg_dtype d;
  r_sid0 : rdm_sid0 st sid = T0;
  r_tk : (0 < length (rp_sg_tk (rdm_sig st sid)))%nat;
  r_offs : forall L, (L < 16)%nat -> wm_get_off (rdm_offsets st sid JLS_TRACK_TYPE_FSR) (N.of_nat L) = psi (nth L heads 0%Z) }.

Lemma e2_R0_same : forall st st', e2_R0 st -> rp_sigs (rdm_c st') = rp_sigs (rdm_c st) -> e2_rdr (rdm_io st') f -> e2_R0 st'.
Proof.
  intros st st' [A B C D E F G H I K J] Hs Hr.
  assert (Eg : forall id, rdm_sig st' id = rdm_sig st id) by (intro id; unfold rdm_sig, rp_get_sig; rewrite Hs; reflexivity).
  constructor; unfold rdm_def, rdm_sid0, rdm_offsets, rp_signal_validate, rp_get_sig in *; try rewrite Eg; try rewrite Hs; try assumption.
Qed.

Lemma e2_step_size_def : forall st k, e2_R0 st -> (1 <= k <= Ktop)%nat ->
  rdm_step_size (rdm_def st sid) (N.of_nat k) = (py_step pd k, false, true).
Proof.
  intros st k R Hk.
  assert (E : rdm_step_size (rdm_def st sid) (N.of_nat k) = rdm_step_size d (N.of_nat k)).
  { unfold rdm_step_size. rewrite (r_spd _ R), (r_sdf _ R), (r_eps _ R), (r_sumdf _ R). reflexivity. }
  rewrite E. apply e2_step_size; [lia|exact Hdiv|apply Hstep; exact Hk|exact Hsumdf].
Qed.

(* ---- reading an INDEX chunk of the disk into core->buf ---- *)
Lemma e2_map_psi_lt : forall pc L, In pc disk -> pc_kind pc = PyIndex L -> Forall (fun x => x < fm_two64) (map psi (pc_entries pc)).
Proof.
  intros pc L Hin Hk. apply Forall_forall. intros x Hx. apply in_map_iff in Hx. destruct Hx as (e & <- & He).
  destruct (e2_psi_pos e (Hent pc L e Hin Hk He)) as (_ & _ & H). exact H.
Qed.

Lemma e2_nth_map_psi : forall l i, nth i (map psi l) 0 = psi (nth i l 0%Z).
Proof. intros l i. rewrite <- Hpsi0 at 1. apply map_nth. Qed.

(* seek to a chunk of the disk and read it *)
Lemma e2_rd_disk_chunk : forall st c, e2_R0 st -> In c disk ->
  exists st' h p, (let '(st1, rc1) := rdm_seek st (psi (pc_off c)) in
                   if negb (rc1 =? 0) then (st1, rc1) else rdm_rd_chunk st1) = (st', 0) /\
    e2_R0 st' /\ e2_hi_same st st' /\ e2_pos (rdm_io st') f (psi (pc_off c) + fm_chunk_size (rf_len p)) /\
    rp_cur (rdm_io st') = {| wm_ck_offset := psi (pc_off c); wm_ck_hdr := h |} /\
    fm_tag h = e2_pc_tag (pc_kind c) /\ fm_chunk_meta h = wm_meta sid (e2_pc_level (pc_kind c)) /\
    rp_buf_len (rdm_io st') = rf_len p /\ rp_payload (rdm_io st') = p /\ rdm_pay_ok (rdm_io st') /\
    rf_len p <= JLS_BUF_DEFAULT_SIZE /\ e2_pc_pay c p /\ e2_chunk_at f (psi (pc_off c)) h p.
Proof.
  intros st c R Hc. destruct (e2_pc_ok_in c Hc) as (A & B & C & Dts & Dc & Dl & h & p & Hat & Ht & Hm & Hbig & Hpay).
  destruct (e2_rdm_seek st f (psi (pc_off c)) (r_rdr _ R) ltac:(lia) C) as (st1 & E1 & P1 & S1 & _).
  rewrite E1. cbn [N.eqb negb].
  assert (Htag : fm_tag h <> JLS_TAG_INVALID) by (rewrite Ht; destruct (pc_kind c); discriminate).
  destruct (e2_rdm_rd_chunk st1 f _ h p P1 Hat Htag Hbig) as (st2 & E2 & P2 & S2 & Hcur & Hbl & Hp & Hok).
  exists st2, h, p. split; [exact E2|].
  pose proof (e2_hi_same_trans _ _ _ S1 S2) as S12.
  split; [eapply e2_R0_same; [exact R|apply S12|eapply e2_pos_rdr; exact P2]|].
  split; [exact S12|]. split; [exact P2|]. split; [exact Hcur|]. split; [exact Ht|]. split; [exact Hm|].
  split; [exact Hbl|]. split; [exact Hp|]. split; [exact Hok|]. split; [|split; [exact Hpay|exact Hat]].
  pose proof (e2_disk_len_ge (rf_len p)). lia.
Qed.

(* the fields of an INDEX chunk held in core->buf *)
Lemma e2_index_in_buf : forall st c p L, In c disk -> pc_kind c = PyIndex L -> e2_pc_pay c p ->
  rp_payload (rdm_io st) = p -> rp_buf_len (rdm_io st) = rf_len p -> rdm_pay_ok (rdm_io st) -> rf_len p <= JLS_BUF_DEFAULT_SIZE ->
  rdm_buf_i64 st 0 = (st, pc_ts c) /\
  rdm_buf_u st (Z.of_N OFFSETOF_payload_entry_count) 4 = (st, Z.to_N (pc_count c)) /\
  rdm_buf_u st (Z.of_N OFFSETOF_payload_entry_size_bits) 2 = (st, 64) /\
  rp_buf_len (rdm_io st) = SIZEOF_payload_header + 8 * Z.to_N (pc_count c) /\
  forall i o, nth_error (pc_entries c) i = Some o ->
    rdm_buf_u st (Z.of_N SIZEOF_payload_header + 8 * Z.of_nat i)%Z 8 = (st, psi o).
Proof.
  intros st c p L Hc Hk Hpay Hp Hbl Hok Hmax.
  destruct (e2_pc_ok_in c Hc) as (_ & _ & _ & Dts & Dc & _). rewrite Hk in Dts.
  unfold e2_pc_pay in Hpay. rewrite Hk in Hpay. destruct Hpay as (Ep & Hlen).
  assert (Hlen' : rf_len (map psi (pc_entries c)) = Z.to_N (pc_count c)) by (unfold rf_len; rewrite map_length; lia).
  assert (Hplen : rf_len p = SIZEOF_payload_header + 8 * Z.to_N (pc_count c)) by (rewrite Ep, e2_index_payload_len, Hlen'; reflexivity).
  assert (Hi64 : e2_i64 (pc_ts c)) by (unfold e2_i64, e2_tsb, fm_two63 in *; lia).
  destruct (e2_ph_fields (pc_ts c) (Z.to_N (pc_count c)) 64 (flat_map fm_enc_u64 (map psi (pc_entries c))) Hi64 ltac:(lia) ltac:(lia))
    as (F1 & F2 & F3 & _). cbv zeta in F1, F2, F3. fold (wm_fsr_index_payload (pc_ts c) (Z.to_N (pc_count c)) (map psi (pc_entries c))) in F1, F2, F3.
  rewrite <- Ep in F1, F2, F3. change SIZEOF_payload_header with 16 in *.
  split. { rewrite e2_buf_i64_in; [rewrite Hp; change (Z.to_N 0) with 0; rewrite F1; reflexivity|exact Hok|lia|change (Z.to_N 0) with 0; lia|lia]. }
  split. { rewrite e2_buf_u_in; [rewrite Hp, N2Z.id, F2; reflexivity|exact Hok|lia|rewrite N2Z.id; unfold OFFSETOF_payload_entry_count; lia|lia]. }
  split. { rewrite e2_buf_u_in; [rewrite Hp, N2Z.id, F3; reflexivity|exact Hok|lia|rewrite N2Z.id; unfold OFFSETOF_payload_entry_size_bits; lia|lia]. }
  split; [lia|].
  intros i o Hi. assert (Hil : (i < length (pc_entries c))%nat) by (apply nth_error_Some; congruence).
  rewrite e2_buf_u_in; [|exact Hok|lia|lia|lia].
  rewrite Hp. replace (Z.to_N (Z.of_N 16 + 8 * Z.of_nat i)) with (16 + 8 * N.of_nat i) by lia.
  rewrite Ep. change 16 with SIZEOF_payload_header.
  rewrite e2_index_entry; [|rewrite map_length; exact Hil|apply (e2_map_psi_lt c L); [exact Hc|exact Hk]].
  rewrite e2_nth_map_psi. f_equal. f_equal. apply nth_error_nth. exact Hi.
Qed.

(* ---- jls_core_fsr_seek ---- *)
Definition e2_valid_pos (p : Z) : Prop := p = 0%Z \/ exists c, In c disk /\ pc_off c = p.

Lemma e2_sim_seek_levels : forall k st dd level t off res,
  e2_R0 st -> dd = rdm_def st sid -> (k <= Ktop)%nat -> (- e2_tsb <= t < e2_tsb)%Z ->
  py_seek_loop pd disk k level off t = PyOk res -> e2_valid_pos off ->
  (forall c, In c disk -> pc_off c = off -> (1 <= k)%nat -> pc_kind c = PyIndex k) ->
  exists st', rdm_seek_levels k st dd (N.of_nat level) t (psi off) = (st', 0, psi res) /\
              e2_R0 st' /\ e2_hi_same st st' /\ e2_valid_pos res.
Proof.
  induction k as [|k IH]; intros st dd level t off res R Edd Hk Ht Hpy Hv Hpre.
  - cbn in Hpy. injection Hpy as <-. exists st. cbn [rdm_seek_levels]. split; [reflexivity|]. split; [exact R|]. split; [apply e2_hi_same_refl|exact Hv].
  - cbn [py_seek_loop] in Hpy. cbn [rdm_seek_levels].
    destruct (Nat.leb_spec (S k) level) as [Hle|Hgt].
    + injection Hpy as <-. destruct (N.leb_spec (N.of_nat (S k)) (N.of_nat level)) as [_|Hx]; [|lia].
      exists st. split; [reflexivity|]. split; [exact R|]. split; [apply e2_hi_same_refl|exact Hv].
    + destruct (N.leb_spec (N.of_nat (S k)) (N.of_nat level)) as [Hx|_]; [lia|].
      destruct (py_find disk off) as [[c nx]|] eqn:Ef; [|discriminate].
      destruct (e2_find_some _ _ _ Ef) as (Hc & Eoff). subst off.
      pose proof (Hstep (S k) ltac:(lia)) as Hst.
      destruct (Z.eqb_spec (py_step pd (S k)) 0) as [E0|_]; [lia|].
      set (idx := Z.quot (t - pc_ts c) (py_step pd (S k))) in *.
      destruct ((idx <? 0)%Z || (pc_count c <=? idx)%Z) eqn:Eb; [discriminate|].
      destruct (nth_error (pc_entries c) (Z.to_nat idx)) as [o|] eqn:En; [|discriminate].
      rewrite Edd, (e2_step_size_def st (S k) R ltac:(lia)). cbn [negb rdm_fault_if].
      destruct (e2_rd_disk_chunk st c R Hc) as (st2 & h & p & E2 & R2 & S2 & P2 & Hcur & Htg & Hm & Hbl & Hp & Hok & Hmax & Hpay & Hcat).
      destruct (rdm_seek st (psi (pc_off c))) as [st1 rc1]. destruct (rc1 =? 0) eqn:Erc1; cbn [negb] in E2 |- *; [|inversion E2; subst; discriminate].
      rewrite E2. cbn [N.eqb negb].
      (* c is an INDEX chunk: it has entries *)
      assert (Hkind : exists L, pc_kind c = PyIndex L) by (exists (S k); apply (Hpre c Hc eq_refl); lia).
      destruct Hkind as (L & Hkind).
      destruct (e2_index_in_buf st2 c p L Hc Hkind Hpay Hp Hbl Hok Hmax) as (B1 & B2 & _ & B4 & B5).
      rewrite B1, B2. rewrite B4.
      destruct (N.ltb_spec (SIZEOF_payload_header + 8 * Z.to_N (pc_count c)) (SIZEOF_payload_header + 8 * Z.to_N (pc_count c))) as [Hx|_]; [lia|].
      destruct (Z.eqb_spec (py_step pd (S k)) 0) as [E0|_]; [lia|].
      destruct (e2_pc_ok_in c Hc) as (_ & _ & _ & Dts & Dc & _). rewrite Hkind in Dts.
      rewrite (rdm_i64_fwd st2 (t - pc_ts c)) by (unfold rdm_inr, rdm_two63, e2_tsb in *; apply andb_true_iff; split; [apply Z.leb_le|apply Z.ltb_lt]; lia).
      fold idx. rewrite Z2N.id by lia. rewrite Eb.
      apply orb_false_iff in Eb as [Eb1 Eb2]. apply Z.ltb_ge in Eb1.
      specialize (B5 (Z.to_nat idx) o En). rewrite Z2Nat.id in B5 by lia. rewrite B5.
      assert (Hvo : e2_valid_pos o) by (apply (Hent c _ o Hc Hkind); eapply nth_error_In; exact En).
      destruct (IH st2 (rdm_def st sid) level t o res R2) as (st' & E' & R' & S' & V'); try assumption; try lia.
      { unfold rdm_def, rdm_sig, rp_get_sig. destruct S2 as (_ & _ & _ & _ & _ & _ & _ & _ & Hsg & _). rewrite Hsg. reflexivity. }
      { intros c' Hc' Eo' Hk1. destruct k as [|k'']; [lia|].
        eapply (Hidx_ent c k'' o c' Hc (Hpre c Hc eq_refl ltac:(lia))); [eapply nth_error_In; exact En|exact Hc'|exact Eo']. }
      exists st'. split; [exact E'|]. split; [exact R'|]. split; [eapply e2_hi_same_trans; eassumption|exact V'].
Qed.

Lemma e2_heads_nz : forall L, nth L heads 0%Z <> 0%Z -> psi (nth L heads 0%Z) <> 0 /\ (L <= Ktop)%nat.
Proof.
  intros L H. destruct (e2_psi_pos _ (Hheads L)) as (_ & B & _). specialize (B H). split; [lia|].
  destruct (Nat.leb_spec L Ktop) as [Hle|Hgt]; [exact Hle|]. elim H. apply Htop. exact Hgt.
Qed.

Lemma e2_top_level : forall st k, e2_R0 st -> (k <= 16)%nat ->
  match py_top heads k with
  | Some (l0, off) => rdm_top_level k (rdm_offsets st sid JLS_TRACK_TYPE_FSR) = (N.of_nat l0, psi off) /\ off <> 0%Z /\
                      off = nth l0 heads 0%Z /\ (l0 < k)%nat
  | None => rdm_top_level k (rdm_offsets st sid JLS_TRACK_TYPE_FSR) = (0, 0)
  end.
Proof.
  intros st k R. induction k as [|k IH]; intro Hk; cbn [py_top rdm_top_level]; [reflexivity|].
  rewrite (r_offs _ R k ltac:(lia)).
  destruct (Z.eqb_spec (nth k heads 0%Z) 0) as [E|Hne].
  - rewrite E, Hpsi0. cbn [N.eqb]. specialize (IH ltac:(lia)). destruct (py_top heads k) as [[l0 off]|]; [|exact IH].
    destruct IH as (A & B & C & D). repeat split; try assumption. lia.
  - destruct (e2_heads_nz k Hne) as (Hp & _). destruct (N.eqb_spec (psi (nth k heads 0%Z)) 0) as [E|_]; [contradiction|].
    repeat split; try assumption. lia.
Qed.

Theorem e2_sim_fsr_seek : forall st level t res,
  e2_R0 st -> (- e2_tsb <= t < e2_tsb)%Z -> py_fsr_seek pd disk heads level t = PyOk res -> res <> 0%Z ->
  exists st', rdm_fsr_seek st sid (N.of_nat level) t = (st', 0) /\ e2_R0 st' /\ e2_hi_same st st' /\
              e2_pos (rdm_io st') f (psi res) /\ (exists c, In c disk /\ pc_off c = res).
Proof.
  intros st level t res R Ht Hpy Hres. unfold py_fsr_seek in Hpy. fold pd in Hdiv. rewrite Hdiv in Hpy. cbn [negb] in Hpy.
  unfold rdm_fsr_seek. rewrite (r_val _ R), (r_type _ R). cbn [N.eqb negb].
  pose proof (e2_top_level st 16 R (Nat.le_refl 16)) as Htl. change rdm_levels with 16%nat.
  destruct (py_top heads 16) as [[l0 off]|]; [|discriminate].
  destruct Htl as (Etl & Hoff & Eoff & Hl0). rewrite Etl.
  assert (Hoffnz : nth l0 heads 0%Z <> 0%Z) by (rewrite <- Eoff; exact Hoff).
  destruct (e2_heads_nz l0 Hoffnz) as (Hp & Hk). rewrite <- Eoff in Hp.
  destruct (N.eqb_spec (psi off) 0) as [E|_]; [contradiction|]. rewrite Nat2N.id.
  assert (Hv : e2_valid_pos off) by (rewrite Eoff; apply Hheads).
  assert (Hpre : forall c, In c disk -> pc_off c = off -> (1 <= l0)%nat -> pc_kind c = PyIndex l0).
  { intros c Hc Ec Hl1. apply Hidx_head; [exact Hl1|exact Hc|rewrite Ec; exact Eoff]. }
  destruct (e2_sim_seek_levels l0 st (rdm_def st sid) level t off res R eq_refl Hk Ht Hpy Hv Hpre) as (st1 & E1 & R1 & S1 & V1).
  rewrite E1. cbn [N.eqb negb].
  destruct V1 as [E0|(c & Hc & Ec)]; [contradiction|].
  destruct (e2_pc_ok_in c Hc) as (A & B & C & _). rewrite Ec in B, C.
  destruct (e2_rdm_seek st1 f (psi res) (r_rdr _ R1) ltac:(lia) C) as (st2 & E2 & P2 & S2 & _).
  exists st2. split; [exact E2|]. pose proof (e2_hi_same_trans _ _ _ S1 S2) as S12.
  split; [eapply e2_R0_same; [exact R|apply S12|eapply e2_pos_rdr; exact P2]|]. split; [exact S12|]. split; [exact P2|].
  exists c. split; assumption.
Qed.

(* ---- the level-1 cache (rd_index_chunk / rd_index / rd_summary) ---- *)
Definition e2_cache_valid (cc : py_cache) : Prop := cc_meta cc = (4096 + Z.of_N sid)%Z /\ cc_off cc <> 0%Z.

Record e2_CR (st : rdm_st) (cc : py_cache) : Prop := {
  c_meta : Z.of_N (fm_chunk_meta (wm_ck_hdr (rdm_ick st))) = cc_meta cc;
  c_off : wm_ck_offset (rdm_ick st) = psi (cc_off cc);
  c_pos : e2_valid_pos (cc_off cc);
  c_ours : e2_cache_valid cc ->
    (exists L, pc_kind (cc_index cc) = PyIndex L) /\
    py_find disk (cc_off cc) = Some (cc_index cc, Some (cc_summary cc)) /\
    exists pI pS, e2_pc_pay (cc_index cc) pI /\ rdm_ilen st = rf_len pI /\ rp_take (rdm_ilen st) (rdm_ibuf st) = pI /\
                  rf_len pI <= JLS_BUF_DEFAULT_SIZE /\
                  e2_pc_pay (cc_summary cc) pS /\ rdm_slen st = rf_len pS /\ rp_take (rdm_slen st) (rdm_sbuf st) = pS /\
                  rf_len pS <= JLS_BUF_DEFAULT_SIZE }.

Lemma e2_CR_same : forall st st' cc, e2_CR st cc -> rdm_ick st' = rdm_ick st -> rdm_ibuf st' = rdm_ibuf st -> rdm_ilen st' = rdm_ilen st ->
  rdm_sbuf st' = rdm_sbuf st -> rdm_slen st' = rdm_slen st -> e2_CR st' cc.
Proof. intros st st' cc [A B C D] E1 E2 E3 E4 E5. constructor; rewrite ?E1, ?E2, ?E3, ?E4, ?E5; assumption. Qed.

Lemma e2_CR_hi : forall st st' cc, e2_CR st cc -> e2_hi_same st st' -> e2_CR st' cc.
Proof. intros st st' cc H (_ & A & B & C & _ & D & E & _). eapply e2_CR_same; eauto. Qed.

Lemma e2_meta_Z : forall k, e2_pc_level k < 16 -> Z.of_N (wm_meta sid (e2_pc_level k)) = (Z.of_N sid + 4096 * Z.of_N (e2_pc_level k))%Z.
Proof.
  intros k Hl. unfold wm_meta.
  assert (Es : N.land sid 4095 = sid).
  { change 4095 with (N.ones 12). rewrite N.land_ones. apply N.mod_small. change (2 ^ 12) with 4096. lia. }
  pose proof (rd_ud_meta sid (e2_pc_level k)) as E. rewrite Es in E. rewrite E. rewrite N.mod_small by lia. lia.
Qed.

Lemma e2_py_meta : forall c, In c disk -> Z.of_N (wm_meta sid (e2_pc_level (pc_kind c))) = py_meta (Z.of_N sid) c.
Proof.
  intros c Hc. destruct (e2_pc_ok_in c Hc) as (_ & _ & _ & _ & _ & Dl & _). rewrite e2_meta_Z by exact Dl.
  unfold py_meta, e2_pc_level. destruct (pc_kind c); lia.
Qed.

(* the first 16 bytes of the payload of any chunk of the disk *)
Lemma e2_pay_hdr : forall c p, In c disk -> e2_pc_pay c p ->
  exists esb r, p = wm_payload_header (pc_ts c) (Z.to_N (pc_count c)) esb ++ r /\ esb < 65536.
Proof.
  intros c p Hc Hp. unfold e2_pc_pay in Hp. destruct (pc_kind c) as [|L|L].
  - destruct Hp as (data & ->). exists w, data. split; [reflexivity|lia].
  - destruct Hp as (-> & _). eexists 64, _. split; [reflexivity|lia].
  - destruct Hp as (entries & ->). eexists _, _. split; [reflexivity|].
    unfold wm_summary_entry_bits, JLS_SUMMARY_FSR_COUNT. destruct (wm_summary_is64 _); lia.
Qed.

(* what every FSR read leaves alone *)
Definition e2_lo_same (st st' : rdm_st) : Prop :=
  rdm_len st' = rdm_len st /\ rdm_stale st' = rdm_stale st /\ rp_sigs (rdm_c st') = rp_sigs (rdm_c st) /\ rdm_flt st' = rdm_flt st.
Lemma e2_lo_same_refl : forall st, e2_lo_same st st.
Proof. intro st. repeat split. Qed.
Lemma e2_lo_same_trans : forall a b c, e2_lo_same a b -> e2_lo_same b c -> e2_lo_same a c.
Proof. intros a b c (A1 & A2 & A3 & A4) (B1 & B2 & B3 & B4). repeat split; congruence. Qed.
Lemma e2_hi_lo : forall st st', e2_hi_same st st' -> e2_lo_same st st'.
Proof. intros st st' (A & _ & _ & _ & _ & _ & _ & B & C & D). repeat split; assumption. Qed.

Lemma e2_buf_put_take : forall old p, rp_take (rf_len p) (rp_buf_put old p) = p.
Proof.
  intros old p. unfold rp_buf_put. rewrite rr_take_eq. unfold rf_len. rewrite Nat2N.id. apply FormatProofs.firstn_app_exact. reflexivity.
Qed.

(* jls_core_rd_fsr_level1, the reload *)
Lemma e2_sim_load : forall st t c1 s1 L,
  e2_R0 st -> wm_ck_offset (rdm_ick st) = 0 -> (- e2_tsb <= t < e2_tsb)%Z ->
  py_fsr_seek pd disk heads 1 t = PyOk (pc_off c1) -> In c1 disk -> pc_kind c1 = PyIndex L ->
  py_find disk (pc_off c1) = Some (c1, Some s1) ->
  exists st', rdm_level1_load st sid t = (st', 0) /\ e2_R0 st' /\ e2_lo_same st st' /\
    e2_CR st' {| cc_meta := py_meta (Z.of_N sid) c1; cc_off := pc_off c1; cc_index := c1; cc_summary := s1 |}.
Proof.
  intros st t c1 s1 L R Hoff0 Ht Hseek Hc1 Hk1 Hfind.
  destruct (e2_pc_ok_in c1 Hc1) as (A1 & B1 & C1 & Dts1 & Dc1 & Dl1 & h1 & p1 & Hat1 & Htg1 & Hm1 & Hbig1 & Hpay1).
  unfold rdm_level1_load. rewrite Hoff0. cbn [N.eqb].
  destruct (e2_sim_fsr_seek st 1 t (pc_off c1) R Ht Hseek ltac:(lia)) as (sta & Ea & Ra & Sa & Pa & _).
  change (N.of_nat 1) with 1 in Ea. rewrite Ea. cbn [N.eqb negb].
  assert (Htag1 : fm_tag h1 <> JLS_TAG_INVALID) by (rewrite Htg1, Hk1; discriminate).
  destruct (e2_rdm_rd_chunk sta f _ h1 p1 Pa Hat1 Htag1 Hbig1) as (stb & Eb & Pb & Sb & Hcurb & Hblb & Hpb & Hokb).
  rewrite Eb. cbn [N.eqb negb].
  (* the index payload and the summary chunk behind it *)
  pose proof Hpay1 as Hpay1'. unfold e2_pc_pay in Hpay1'. rewrite Hk1 in Hpay1'. destruct Hpay1' as (Ep1 & Hlen1).
  assert (Hp1len : rf_len p1 = SIZEOF_payload_header + 8 * Z.to_N (pc_count c1)).
  { rewrite Ep1, e2_index_payload_len. unfold rf_len. rewrite map_length. lia. }
  pose proof (Hnext c1 s1 L Hfind Hk1) as Hnx. rewrite <- Hp1len in Hnx.
  pose proof (e2_find_next_in _ _ _ Hfind) as Hs1.
  destruct (e2_pc_ok_in s1 Hs1) as (A2 & B2 & C2 & Dts2 & Dc2 & Dl2 & h2 & p2 & Hat2 & Htg2 & Hm2 & Hbig2 & Hpay2).
  set (stc := rdm_copy_index stb).
  assert (Pc : e2_pos (rdm_io stc) f (psi (pc_off s1))) by (rewrite Hnx; exact Pb).
  assert (Htag2 : fm_tag h2 <> JLS_TAG_INVALID) by (rewrite Htg2; destruct (pc_kind s1); discriminate).
  destruct (e2_rdm_rd_chunk stc f _ h2 p2 Pc Hat2 Htag2 Hbig2) as (std & Ed & Pd & Sd & Hcurd & Hbld & Hpd & Hokd).
  rewrite Ed. cbn [N.eqb negb].
  exists (rdm_copy_summary std). split; [reflexivity|].
  assert (Slo : e2_lo_same st (rdm_copy_summary std)).
  { eapply e2_lo_same_trans; [apply e2_hi_lo; exact Sa|]. eapply e2_lo_same_trans; [apply e2_hi_lo; exact Sb|].
    eapply e2_lo_same_trans with (b := stc); [repeat split|]. eapply e2_lo_same_trans; [apply e2_hi_lo; exact Sd|]. repeat split. }
  split. { eapply e2_R0_same; [exact R|apply Slo|]. exact (e2_pos_rdr _ _ _ Pd). }
  split; [exact Slo|].
  destruct Sd as (_ & Eick & Eibuf & Eilen & _).
  constructor; cbn [cc_meta cc_off cc_index cc_summary].
  - cbn [rdm_copy_summary rdm_set_summary rdm_ick]. rewrite Eick. subst stc. cbn [rdm_copy_index rdm_set_index rdm_ick].
    rewrite Hcurb. cbn [wm_ck_hdr]. rewrite Hm1. apply e2_py_meta. exact Hc1.
  - cbn [rdm_copy_summary rdm_set_summary rdm_ick]. rewrite Eick. subst stc. cbn [rdm_copy_index rdm_set_index rdm_ick].
    rewrite Hcurb. reflexivity.
  - right. exists c1. split; [exact Hc1|reflexivity].
  - intros _. split; [exists L; exact Hk1|]. split; [exact Hfind|].
    exists p1, p2. cbn [rdm_copy_summary rdm_set_summary rdm_ilen rdm_ibuf rdm_slen rdm_sbuf]. rewrite Eibuf, Eilen.
    subst stc. cbn [rdm_copy_index rdm_set_index rdm_ilen rdm_ibuf]. rewrite Hblb, Hpb, Hbld, Hpd.
    pose proof (e2_disk_len_ge (rf_len p1)). pose proof (e2_disk_len_ge (rf_len p2)).
    split; [exact Hpay1|]. split; [reflexivity|]. split; [apply e2_buf_put_take|]. split; [lia|].
    split; [exact Hpay2|]. split; [reflexivity|]. split; [apply e2_buf_put_take|lia].
Qed.

Lemma e2_lor_sid : N.lor 4096 (N.land sid 255) = 4096 + sid.
Proof.
  assert (Es : N.land sid 255 = sid) by (change 255 with (N.ones 8); rewrite N.land_ones; apply N.mod_small; change (2 ^ 8) with 256; lia).
  rewrite Es. rewrite N.lor_comm. pose proof (rd_ud_meta sid 1) as E.
  assert (Es2 : N.land sid 4095 = sid) by (change 4095 with (N.ones 12); rewrite N.land_ones; apply N.mod_small; change (2 ^ 12) with 4096; lia).
  rewrite Es2 in E. change (N.shiftl 1 12) with 4096 in E. rewrite E. lia.
Qed.
Lemma e2_land_sid : Z.land (Z.of_N sid) 255 = Z.of_N sid.
Proof. change 255%Z with (Z.ones 8). rewrite Z.land_ones by lia. apply Z.mod_small. change (2 ^ 8)%Z with 256%Z. lia. Qed.

(* the timestamp and entry count of the cached index chunk, read from rd_index *)
Lemma e2_idx_hdr : forall st cc, e2_CR st cc -> e2_cache_valid cc -> In (cc_index cc) disk ->
  rdm_idx_rd st 0 8 = (st, fm_sub 0 8 (rp_take (rdm_ilen st) (rdm_ibuf st))) /\
  fm_i64_of_u64 (fm_dec (fm_sub 0 8 (rp_take (rdm_ilen st) (rdm_ibuf st)))) = pc_ts (cc_index cc) /\
  rdm_idx_rd st (Z.of_N OFFSETOF_payload_entry_count) 4 = (st, fm_sub OFFSETOF_payload_entry_count 4 (rp_take (rdm_ilen st) (rdm_ibuf st))) /\
  fm_dec (fm_sub OFFSETOF_payload_entry_count 4 (rp_take (rdm_ilen st) (rdm_ibuf st))) = Z.to_N (pc_count (cc_index cc)).
Proof.
  intros st cc C V Hin. destruct (c_ours _ _ C V) as ((Lk & Hkk) & _ & pI & pS & HpI & Eil & EI & HmI & _).
  destruct (e2_pc_ok_in _ Hin) as (_ & _ & _ & Dts & Dc & _). rewrite Hkk in Dts.
  destruct (e2_pay_hdr _ _ Hin HpI) as (esb & r & Ep & Hesb).
  assert (Hi64 : e2_i64 (pc_ts (cc_index cc))) by (unfold e2_i64, e2_tsb, fm_two63 in *; lia).
  destruct (e2_ph_fields (pc_ts (cc_index cc)) (Z.to_N (pc_count (cc_index cc))) esb r Hi64 ltac:(lia) Hesb) as (F1 & F2 & _ & F4).
  cbv zeta in F1, F2. rewrite <- Ep in F1, F2.
  assert (Hl16 : 16 <= rf_len pI) by (rewrite Ep; unfold rf_len; rewrite app_length, F4; lia).
  assert (Hlen : length (rp_take (rdm_ilen st) (rdm_ibuf st)) = N.to_nat (rdm_ilen st)) by (rewrite EI, Eil; unfold rf_len; lia).
  split; [apply (e2_idx_rd_in st 0 8 Hlen); [lia|change (Z.to_N 0) with 0; lia|lia]|].
  split; [rewrite EI; exact F1|].
  split; [rewrite (e2_idx_rd_in st _ 4 Hlen); [rewrite N2Z.id; reflexivity|lia|rewrite N2Z.id; unfold OFFSETOF_payload_entry_count; lia|lia]|].
  rewrite EI. exact F2.
Qed.

Theorem e2_sim_level1 : forall st cc t cc',
  e2_R0 st -> e2_CR st cc -> (- e2_tsb <= t < e2_tsb)%Z ->
  (forall off, py_fsr_seek pd disk heads 1 t = PyOk off -> exists c, In c disk /\ pc_off c = off /\ pc_kind c = PyIndex 1) ->
  py_rd_level1 pd disk heads (Z.of_N sid) cc t = (cc', None) ->
  exists st', rdm_rd_fsr_level1 st sid t = (st', 0) /\ e2_R0 st' /\ e2_lo_same st st' /\ e2_CR st' cc' /\ e2_cache_valid cc'.
Proof.
  intros st cc t cc' R C Ht Hkind Hpy.
  (* the reload, from a state whose cached offset is 0 *)
  assert (Hload : forall st0, e2_R0 st0 -> wm_ck_offset (rdm_ick st0) = 0 -> e2_lo_same st st0 ->
            (match py_fsr_seek pd disk heads 1 t with
             | PyErr e => (py_cache_inval cc, Some e)
             | PyOk off => match py_find disk off with
                           | None => (py_cache_inval cc, Some PE_Seek)
                           | Some (c, None) => ({| cc_meta := py_meta (Z.of_N sid) c; cc_off := off; cc_index := c; cc_summary := cc_summary cc |}, Some PE_Seek)
                           | Some (c, Some s) => ({| cc_meta := py_meta (Z.of_N sid) c; cc_off := off; cc_index := c; cc_summary := s |}, None)
                           end
             end) = (cc', None) ->
            exists st', rdm_level1_load st0 sid t = (st', 0) /\ e2_R0 st' /\ e2_lo_same st st' /\ e2_CR st' cc' /\ e2_cache_valid cc').
  { intros st0 R0' Hoff0 Slo Hm. destruct (py_fsr_seek pd disk heads 1 t) as [off|e] eqn:Es; [|discriminate].
    destruct (Hkind off eq_refl) as (c1 & Hc1 & Eoff & Hk1). subst off.
    destruct (py_find disk (pc_off c1)) as [[c [s|]]|] eqn:Ef; try discriminate.
    destruct (e2_find_some _ _ _ Ef) as (Hc & Eo).
    assert (c = c1).
    { destruct (e2_find_in c1 Hc1) as (nx & Ef1). rewrite Ef in Ef1. inversion Ef1. reflexivity. }
    subst c. inversion Hm; subst cc'. clear Hm.
    destruct (e2_sim_load st0 t c1 s 1 R0' Hoff0 Ht Es Hc1 Hk1 Ef) as (st' & E' & R' & S' & C').
    exists st'. split; [exact E'|]. split; [exact R'|]. split; [eapply e2_lo_same_trans; eassumption|]. split; [exact C'|].
    unfold e2_cache_valid. cbn [cc_meta cc_off]. destruct (e2_pc_ok_in c1 Hc1) as (A & _).
    split; [|lia]. unfold py_meta. rewrite Hk1. lia. }
  unfold py_rd_level1, py_cache_hit in Hpy. rewrite e2_land_sid in Hpy.
  unfold rdm_rd_fsr_level1. rewrite e2_lor_sid.
  assert (Emeta : (fm_chunk_meta (wm_ck_hdr (rdm_ick st)) =? 4096 + sid) = (cc_meta cc =? 4096 + Z.of_N sid)%Z).
  { rewrite <- (c_meta _ _ C). destruct (N.eqb_spec (fm_chunk_meta (wm_ck_hdr (rdm_ick st))) (4096 + sid)) as [E|E];
    destruct (Z.eqb_spec (Z.of_N (fm_chunk_meta (wm_ck_hdr (rdm_ick st)))) (4096 + Z.of_N sid)) as [E'|E']; try reflexivity; lia. }
  rewrite Emeta.
  destruct (Z.eqb_spec (cc_meta cc) (4096 + Z.of_N sid)) as [Em|Em]; cbn [negb] in Hpy |- *.
  2:{ apply (Hload (rdm_ick_clear st)); [eapply e2_R0_same; [exact R|reflexivity|exact (r_rdr _ R)]|reflexivity|repeat split|exact Hpy]. }
  assert (Eoff : (wm_ck_offset (rdm_ick st) =? 0) = (cc_off cc =? 0)%Z).
  { rewrite (c_off _ _ C). destruct (e2_psi_pos _ (c_pos _ _ C)) as (P0 & P1 & _).
    destruct (Z.eqb_spec (cc_off cc) 0) as [E|E]; [rewrite (P0 E); reflexivity|]. specialize (P1 E). apply N.eqb_neq. lia. }
  rewrite Eoff.
  destruct (Z.eqb_spec (cc_off cc) 0) as [Eo|Eo]; cbn [negb] in Hpy |- *.
  { apply (Hload st R); [rewrite (c_off _ _ C), Eo; exact Hpsi0|apply e2_lo_same_refl|exact Hpy]. }
  (* the cache test *)
  assert (V : e2_cache_valid cc) by (split; assumption).
  destruct (c_ours _ _ C V) as ((Lc & Hkc) & Hfc & _).
  destruct (e2_find_some _ _ _ Hfc) as (Hinc & _).
  destruct (e2_idx_hdr st cc C V Hinc) as (I1 & I2 & I3 & I4).
  destruct (e2_pc_ok_in _ Hinc) as (_ & _ & _ & Dts & Dc & _). rewrite Hkc in Dts.
  rewrite I1. rewrite I2. rewrite I3. rewrite I4. rewrite (r_spd _ R).
  assert (Ee : Z.of_N ((Z.to_N (pc_count (cc_index cc)) * sg_spd d) mod rdm_two32) = ((pc_count (cc_index cc) * py_spd pd) mod 2 ^ 32)%Z).
  { unfold rdm_two32. rewrite N2Z.inj_mod, N2Z.inj_mul, Z2N.id by lia. reflexivity. }
  rewrite Ee. set (e := (pc_ts (cc_index cc) + (pc_count (cc_index cc) * py_spd pd) mod 2 ^ 32)%Z) in *.
  assert (He : (- e2_tsb <= e < rdm_two63)%Z).
  { subst e. pose proof (Z.mod_pos_bound (pc_count (cc_index cc) * py_spd pd) (2 ^ 32) ltac:(lia)). unfold e2_tsb, rdm_two63 in *. lia. }
  rewrite (rdm_i64_fwd st e) by (unfold rdm_inr, rdm_two63, e2_tsb in *; apply andb_true_iff; split; [apply Z.leb_le|apply Z.ltb_lt]; lia).
  destruct ((pc_ts (cc_index cc) <=? t)%Z && (t <? e)%Z) eqn:Ehit.
  - inversion Hpy; subst cc'. exists st. split; [reflexivity|]. split; [exact R|]. split; [apply e2_lo_same_refl|]. split; [exact C|exact V].
  - apply (Hload (rdm_ick_clear st)); [eapply e2_R0_same; [exact R|reflexivity|exact (r_rdr _ R)]|reflexivity|repeat split|exact Hpy].
Qed.

(* ---- jls_core_fsr_length ---- *)
Lemma e2_len_first : forall st k, e2_R0 st -> (k <= 16)%nat ->
  match py_len_top disk heads k with
  | Some (l0, off) => exists st1, rdm_len_first k st (rdm_offsets st sid JLS_TRACK_TYPE_FSR) =
                                    (st1, rdm_offsets st sid JLS_TRACK_TYPE_FSR, N.of_nat l0, psi off) /\
                      e2_hi_same st st1 /\ e2_rdr (rdm_io st1) f /\ off <> 0%Z /\ off = nth l0 heads 0%Z /\ (l0 < k)%nat
  | None => rdm_len_first k st (rdm_offsets st sid JLS_TRACK_TYPE_FSR) = (st, rdm_offsets st sid JLS_TRACK_TYPE_FSR, 0, 0)
  end.
Proof.
  intros st k R. induction k as [|k IH]; intro Hk; cbn [py_len_top rdm_len_first]; [reflexivity|].
  rewrite (r_offs _ R k ltac:(lia)).
  destruct (Z.eqb_spec (nth k heads 0%Z) 0) as [E|Hne].
  - rewrite E, Hpsi0. cbn [N.eqb negb andb]. specialize (IH ltac:(lia)). destruct (py_len_top disk heads k) as [[l0 off]|]; [|exact IH].
    destruct IH as (st1 & A & B & C & D & E' & F). exists st1.
    split; [exact A|]. split; [exact B|]. split; [exact C|]. split; [exact D|]. split; [exact E'|lia].
  - cbn [negb andb]. destruct (e2_heads_nz k Hne) as (Hp & _).
    destruct (N.eqb_spec (psi (nth k heads 0%Z)) 0) as [E|_]; [contradiction|].
    destruct (Hheads k) as [E0|(c & Hc & Ec)]; [contradiction|].
    destruct (e2_find_in c Hc) as (nx & Ef). rewrite Ec in Ef. rewrite Ef.
    destruct (e2_pc_ok_in c Hc) as (A & B & C & _). rewrite Ec in B, C.
    assert (Hnz : psi (nth k heads 0%Z) <> 0) by lia.
    destruct (e2_rdm_seek st f _ (r_rdr _ R) Hnz C) as (st1 & E1 & P1 & S1 & _).
    rewrite E1. cbn [N.eqb]. exists st1. split; [reflexivity|]. split; [exact S1|]. split; [exact (e2_pos_rdr _ _ _ P1)|].
    split; [exact Hne|]. split; [reflexivity|lia].
Qed.

Lemma e2_sid_lt_sigs : forall st, e2_R0 st -> (N.to_nat sid < length (rp_sigs (rdm_c st)))%nat.
Proof.
  intros st R. pose proof (r_val _ R) as H. unfold rp_signal_validate in H.
  destruct (JLS_SIGNAL_COUNT <=? sid); [discriminate|]. unfold rp_get_sig in H.
  destruct (Nat.ltb_spec (N.to_nat sid) (length (rp_sigs (rdm_c st)))) as [Hlt|Hge]; [exact Hlt|].
  rewrite nth_overflow in H by exact Hge. cbn [rp_sig0 rp_sg_sigid rp_sg_def_off] in H.
  destruct (negb (0 =? sid)); [discriminate|]. cbn in H. discriminate.
Qed.

Lemma e2_nth_upd_same : forall (A : Type) n (x d0 : A) l, (n < length l)%nat -> nth n (wm_upd n x l) d0 = x.
Proof. intros. apply rf_nth_upd_eq. assumption. Qed.

(* jls_core_fsr_length writes the head offsets back: unchanged when every seek succeeded *)
Lemma e2_set_offsets_R0 : forall st, e2_R0 st ->
  e2_R0 (rdm_set_offsets st sid JLS_TRACK_TYPE_FSR (rdm_offsets st sid JLS_TRACK_TYPE_FSR)).
Proof.
  intros st R. pose proof (e2_sid_lt_sigs st R) as Hlt. pose proof R as [A B C D E F G H I K J].
  unfold rdm_set_offsets. destruct (rp_sg_track (rdm_sig st sid) JLS_TRACK_TYPE_FSR) as [has t] eqn:Etk.
  set (g := rdm_sig st sid) in *.
  set (g' := rp_sg_set_tk g (wm_upd (N.to_nat JLS_TRACK_TYPE_FSR) (has, wm_tk_set_offsets t (rdm_offsets st sid JLS_TRACK_TYPE_FSR)) (rp_sg_tk g))).
  assert (Eg : rdm_sig (rdm_set_c st (rp_put_sig (rdm_c st) sid g')) sid = g').
  { unfold rdm_sig, rdm_set_c, rp_get_sig, rp_put_sig, rp_rd_set_sigs. cbn [rdm_c rp_sigs]. apply e2_nth_upd_same. exact Hlt. }
  assert (Eio : rdm_io (rdm_set_c st (rp_put_sig (rdm_c st) sid g')) = rdm_io st) by reflexivity.
  constructor; unfold rdm_def, rdm_sid0, rdm_offsets, rp_signal_validate in *; fold (rdm_sig st sid) in *;
    try (change (rp_get_sig (rdm_c (rdm_set_c st (rp_put_sig (rdm_c st) sid g'))) sid) with (rdm_sig (rdm_set_c st (rp_put_sig (rdm_c st) sid g')) sid));
    try rewrite Eg; try rewrite Eio; subst g'; cbn [rp_sg_set_tk rp_sg_sigid rp_sg_def_off rp_sg_d rp_sg_sid0 rp_sg_tk]; try assumption.
  { rewrite rf_upd_length. exact K. }
  intros L HL. unfold rp_sg_track. cbn [rp_sg_set_tk rp_sg_tk].
  rewrite e2_nth_upd_same by exact K. cbn [snd wm_tk_set_offsets wm_tk_offsets].
  apply (J L HL).
Qed.

(* everything but the raw position / core->buf / chunk_cur and the cached lengths *)
Definition e2_mid_same (st st' : rdm_st) : Prop :=
  rdm_ick st' = rdm_ick st /\ rdm_ibuf st' = rdm_ibuf st /\ rdm_ilen st' = rdm_ilen st /\
  rdm_sck st' = rdm_sck st /\ rdm_sbuf st' = rdm_sbuf st /\ rdm_slen st' = rdm_slen st /\ rdm_stale st' = rdm_stale st /\
  rp_sigs (rdm_c st') = rp_sigs (rdm_c st) /\ rdm_flt st' = rdm_flt st.
Lemma e2_mid_same_refl : forall st, e2_mid_same st st.
Proof. intro st. repeat split. Qed.
Lemma e2_mid_same_trans : forall a b c, e2_mid_same a b -> e2_mid_same b c -> e2_mid_same a c.
Proof.
  intros a b c (A1 & A2 & A3 & A4 & A5 & A6 & A7 & A8 & A9) (B1 & B2 & B3 & B4 & B5 & B6 & B7 & B8 & B9). repeat split; congruence.
Qed.
Lemma e2_hi_mid : forall st st', e2_hi_same st st' -> e2_mid_same st st'.
Proof. intros st st' (_ & A1 & A2 & A3 & A4 & A5 & A6 & A7 & A8 & A9). repeat split; assumption. Qed.
Lemma e2_mid_put_len : forall st id v, e2_mid_same st (rdm_put_len st id v).
Proof. intros. repeat split. Qed.
Lemma e2_CR_mid : forall st st' cc, e2_CR st cc -> e2_mid_same st st' -> e2_CR st' cc.
Proof. intros st st' cc H (A & B & C & _ & D & E & _). eapply e2_CR_same; eauto. Qed.

Lemma e2_get_put_len : forall st id v, (N.to_nat id < length (rdm_len st))%nat -> rdm_get_len (rdm_put_len st id v) id = v.
Proof. intros st id v H. unfold rdm_get_len, rdm_put_len, rdm_set_len. cbn [rdm_len]. apply e2_nth_upd_same. exact H. Qed.
Lemma e2_put_len_length : forall st id v, length (rdm_len (rdm_put_len st id v)) = length (rdm_len st).
Proof. intros. unfold rdm_put_len, rdm_set_len. cbn [rdm_len]. apply rf_upd_length. Qed.

(* the payload header of a chunk of the disk held in core->buf *)
Lemma e2_hdr_in_buf : forall st c p, In c disk -> e2_pc_pay c p -> (- e2_tsb <= pc_ts c < e2_tsb)%Z ->
  rp_payload (rdm_io st) = p -> rp_buf_len (rdm_io st) = rf_len p -> rdm_pay_ok (rdm_io st) -> rf_len p <= JLS_BUF_DEFAULT_SIZE ->
  rdm_buf_i64 st 0 = (st, pc_ts c) /\ rdm_buf_u st (Z.of_N OFFSETOF_payload_entry_count) 4 = (st, Z.to_N (pc_count c)).
Proof.
  intros st c p Hc Hpay Dts Hp Hbl Hok Hmax.
  destruct (e2_pc_ok_in c Hc) as (_ & _ & _ & _ & Dc & _).
  destruct (e2_pay_hdr c p Hc Hpay) as (esb & r & Ep & Hesb).
  assert (Hi64 : e2_i64 (pc_ts c)) by (unfold e2_i64, e2_tsb, fm_two63 in *; lia).
  destruct (e2_ph_fields (pc_ts c) (Z.to_N (pc_count c)) esb r Hi64 ltac:(lia) Hesb) as (F1 & F2 & _ & F4).
  cbv zeta in F1, F2. rewrite <- Ep in F1, F2.
  assert (Hl16 : 16 <= rf_len p) by (rewrite Ep; unfold rf_len; rewrite app_length, F4; lia).
  split.
  - rewrite e2_buf_i64_in; [rewrite Hp; change (Z.to_N 0) with 0; rewrite F1; reflexivity|exact Hok|lia|change (Z.to_N 0) with 0; lia|lia].
  - rewrite e2_buf_u_in; [rewrite Hp, N2Z.id, F2; reflexivity|exact Hok|lia|rewrite N2Z.id; unfold OFFSETOF_payload_entry_count; lia|lia].
Qed.

Lemma e2_sdf_mod : forall c, (0 <= pc_count c < 4294967296)%Z ->
  Z.of_N ((Z.to_N (pc_count c) * sg_sdf d) mod rdm_two32) = ((pc_count c * py_sdf pd) mod 2 ^ 32)%Z.
Proof. intros c H. unfold rdm_two32. rewrite N2Z.inj_mod, N2Z.inj_mul, Z2N.id by lia. reflexivity. Qed.

Lemma e2_sim_len_levels : forall k st off len0 off' len',
  e2_R0 st -> (k <= Ktop)%nat -> length (rdm_len st) = 256%nat -> e2_valid_pos off ->
  (k = 0%nat \/ exists c, In c disk /\ pc_off c = off /\ pc_kind c = PyIndex k) ->
  py_len_loop pd disk T0 k off len0 = PyOk (off', len') ->
  exists st', rdm_len_levels k st sid (psi off) = (st', 0, psi off') /\ e2_R0 st' /\ e2_mid_same st st' /\
              length (rdm_len st') = 256%nat /\ e2_valid_pos off' /\
              (k = 0%nat -> st' = st /\ off' = off) /\ ((1 <= k)%nat -> rdm_get_len st' sid = len') /\
              ((1 <= k)%nat -> forall c', In c' disk -> pc_off c' = off' -> pc_kind c' = PyData).
Proof.
  induction k as [|k IH]; intros st off len0 off' len' R Hk Hll Hvoff Hpre Hpy.
  - cbn in Hpy. inversion Hpy; subst. exists st. cbn [rdm_len_levels]. split; [reflexivity|]. split; [exact R|]. split; [apply e2_mid_same_refl|].
    split; [exact Hll|]. split; [exact Hvoff|split; [intros _; split; reflexivity|split; lia]].
  - destruct Hpre as [E|(c & Hc & Eoff & Hkc)]; [discriminate|]. subst off.
    cbn [py_len_loop] in Hpy. destruct (e2_find_in c Hc) as (nx & Ef). rewrite Ef in Hpy.
    destruct (e2_pc_ok_in c Hc) as (_ & _ & _ & Dts & Dc & _). rewrite Hkc in Dts.
    pose proof (Hidx_cnt c (S k) Hc Hkc) as Hcnt.
    cbn [rdm_len_levels].
    destruct (e2_rd_disk_chunk st c R Hc) as (st2 & h & p & E2 & R2 & S2 & P2 & Hcur & Htg & Hm & Hbl & Hp & Hok & Hmax & Hpay & Hcat).
    destruct (rdm_seek st (psi (pc_off c))) as [sta rca]. destruct (rca =? 0) eqn:Erca; cbn [negb] in E2 |- *; [|inversion E2; subst; discriminate].
    rewrite E2. cbn [N.eqb negb].
    destruct (e2_index_in_buf st2 c p (S k) Hc Hkc Hpay Hp Hbl Hok Hmax) as (B1 & B2 & B3 & B4 & B5).
    rewrite B3. cbn [N.eqb Pos.eqb negb]. rewrite B2. rewrite B4.
    replace (Z.to_N (pc_count c) * 8) with (8 * Z.to_N (pc_count c)) by lia.
    destruct (N.ltb_spec (SIZEOF_payload_header + 8 * Z.to_N (pc_count c)) (SIZEOF_payload_header + 8 * Z.to_N (pc_count c))) as [Hx|_]; [lia|].
    destruct (N.ltb_spec 0 (Z.to_N (pc_count c))) as [_|Hx]; [|lia].
    pose proof Hpay as Hpay'. unfold e2_pc_pay in Hpay'. rewrite Hkc in Hpay'. destruct Hpay' as (_ & Hlen).
    destruct (Z.ltb_spec (Z.of_nat (length (pc_entries c))) (pc_count c)) as [Hx|_]; [lia|].
    destruct (Z.ltb_spec 0 (pc_count c)) as [_|Hx]; [|lia].
    set (last := nth (Z.to_nat (pc_count c - 1)) (pc_entries c) 0%Z) in *.
    assert (Hnl : nth_error (pc_entries c) (Z.to_nat (pc_count c - 1)) = Some last).
    { subst last. apply nth_error_nth'. lia. }
    specialize (B5 _ _ Hnl).
    replace (Z.of_N SIZEOF_payload_header + 8 * Z.of_nat (Z.to_nat (pc_count c - 1)))%Z with (Z.of_N (SIZEOF_payload_header + 8 * (Z.to_N (pc_count c) - 1))) in B5 by lia.
    rewrite B5.
    assert (Hvl : e2_valid_pos last) by (apply (Hent c _ last Hc Hkc); eapply nth_error_In; exact Hnl).
    destruct k as [|k'].
    + (* level 1: the summary behind the index *)
      cbn [Nat.eqb] in Hpy. destruct nx as [s|]; [|discriminate]. cbn [py_len_loop] in Hpy. inversion Hpy; subst off' len'. clear Hpy.
      pose proof (Hnext c s 1%nat Ef Hkc) as Hnx.
      assert (Hplen : rf_len p = SIZEOF_payload_header + 8 * Z.to_N (pc_count c)) by (rewrite <- Hbl; exact B4).
      rewrite <- Hplen in Hnx. rewrite <- Hnx in P2.
      pose proof (e2_find_next_in _ _ _ Ef) as Hs.
      destruct (e2_pc_ok_in s Hs) as (A2 & B2' & C2 & _ & Dc2 & Dl2 & h2 & p2 & Hat2 & Htg2 & Hm2 & Hbig2 & Hpay2).
      pose proof (Hsum_ts c s 1%nat Ef Hkc) as Dts2.
      assert (Htag2 : fm_tag h2 <> JLS_TAG_INVALID) by (rewrite Htg2; destruct (pc_kind s); discriminate).
      destruct (e2_rdm_rd_chunk st2 f _ h2 p2 P2 Hat2 Htag2 Hbig2) as (st3 & E3 & P3 & S3 & Hcur3 & Hbl3 & Hp3 & Hok3).
      rewrite E3. cbn [N.eqb negb].
      assert (Hmax3 : rf_len p2 <= JLS_BUF_DEFAULT_SIZE) by (pose proof (e2_disk_len_ge (rf_len p2)); lia).
      destruct (e2_hdr_in_buf st3 s p2 Hs Hpay2 Dts2 Hp3 Hbl3 Hok3 Hmax3) as (G1 & G2).
      rewrite G1, G2.
      assert (R3 : e2_R0 st3).
      { eapply e2_R0_same; [exact R2|destruct S3 as (_ & _ & _ & _ & _ & _ & _ & _ & X & _); exact X|exact (e2_pos_rdr _ _ _ P3)]. }
      rewrite (r_sdf _ R3), (e2_sdf_mod s Dc2).
      pose proof (Z.mod_pos_bound (pc_count s * py_sdf pd) (2 ^ 32) ltac:(lia)) as Hmod.
      rewrite (rdm_i64_fwd st3) by (unfold rdm_inr, rdm_two63, e2_tsb in *; apply andb_true_iff; split; [apply Z.leb_le|apply Z.ltb_lt]; lia).
      rewrite (r_sid0 _ R3).
      rewrite (rdm_i64_fwd st3) by (unfold rdm_inr, rdm_two63, e2_tsb in *; apply andb_true_iff; split; [apply Z.leb_le|apply Z.ltb_lt]; lia).
      eexists. split; [reflexivity|].
      assert (Hll3 : length (rdm_len st3) = 256%nat).
      { destruct S3 as (X & _). destruct S2 as (Y & _). rewrite X, Y. exact Hll. }
      split. { eapply e2_R0_same; [exact R3|reflexivity|exact (r_rdr _ R3)]. }
      split. { eapply e2_mid_same_trans; [apply e2_hi_mid; exact S2|]. eapply e2_mid_same_trans; [apply e2_hi_mid; exact S3|apply e2_mid_put_len]. }
      split; [rewrite e2_put_len_length; exact Hll3|]. split; [exact Hvl|]. split; [discriminate|].
      split; [intros _; apply e2_get_put_len; rewrite Hll3; lia|].
      intros _ c' Hc' Eo'. eapply (Hdata_ent c last c' Hc Hkc); [eapply nth_error_In; exact Hnl|exact Hc'|exact Eo'].
    + (* upper levels *)
      cbn [Nat.eqb] in Hpy.
      assert (Hll2 : length (rdm_len st2) = 256%nat) by (destruct S2 as (X & _); rewrite X; exact Hll).
      assert (Hpre' : S k' = 0%nat \/ exists c', In c' disk /\ pc_off c' = last /\ pc_kind c' = PyIndex (S k')).
      { right. cbn [py_len_loop] in Hpy. destruct (py_find disk last) as [[c' nx']|] eqn:Ef'; [|discriminate].
        destruct (e2_find_some _ _ _ Ef') as (Hc' & Eo'). exists c'. split; [exact Hc'|]. split; [exact Eo'|].
        eapply (Hidx_ent c k' last c' Hc Hkc); [eapply nth_error_In; exact Hnl|exact Hc'|exact Eo']. }
      destruct (IH st2 last len0 off' len' R2 ltac:(lia) Hll2 Hvl Hpre' Hpy) as (st' & E' & R' & S' & Hll' & V' & _ & G' & G2').
      exists st'. split; [exact E'|]. split; [exact R'|]. split; [eapply e2_mid_same_trans; [apply e2_hi_mid; exact S2|exact S']|].
      split; [exact Hll'|]. split; [exact V'|]. split; [discriminate|]. split; [intros _; apply G'; lia|intros _; apply G2'; lia].
Qed.

Lemma e2_set_offsets_frame : forall st id ty l,
  let st' := rdm_set_offsets st id ty l in
  rdm_ick st' = rdm_ick st /\ rdm_ibuf st' = rdm_ibuf st /\ rdm_ilen st' = rdm_ilen st /\ rdm_sbuf st' = rdm_sbuf st /\
  rdm_slen st' = rdm_slen st /\ rdm_stale st' = rdm_stale st /\ rdm_flt st' = rdm_flt st /\ rdm_len st' = rdm_len st.
Proof. intros st id ty l. cbv zeta. unfold rdm_set_offsets. destruct (rp_sg_track _ _). repeat split. Qed.

Lemma e2_validate_typed : forall st, e2_R0 st -> rp_signal_validate_typed (rdm_c st) sid JLS_SIGNAL_TYPE_FSR = 0.
Proof.
  intros st R. unfold rp_signal_validate_typed. rewrite (r_val _ R). cbn [N.eqb negb].
  pose proof (r_type _ R) as H. unfold rdm_def, rdm_sig in H. rewrite H. reflexivity.
Qed.

Definition e2_len_ok (st : rdm_st) (len : Z) : Prop :=
  length (rdm_len st) = 256%nat /\ (rdm_get_len st sid = (-1)%Z \/ rdm_get_len st sid = len).

Theorem e2_sim_fsr_length : forall st cc len,
  e2_R0 st -> e2_CR st cc -> e2_len_ok st len -> (0 <= len)%Z -> py_fsr_length pd disk heads = PyOk len ->
  exists st', rdm_fsr_length st sid = (st', 0, len) /\ e2_R0 st' /\ e2_CR st' cc /\ e2_len_ok st' len /\
              rdm_stale st' = rdm_stale st /\ rdm_flt st' = rdm_flt st.
Proof.
  intros st cc len R C (Hll & Hlen) Hpos Hpy. unfold rdm_fsr_length. rewrite (e2_validate_typed st R). cbn [N.eqb negb].
  destruct (Z.leb_spec 0 (rdm_get_len st sid)) as [Hge|Hlt].
  { destruct Hlen as [E|E]; [lia|]. rewrite E. exists st. split; [reflexivity|]. split; [exact R|]. split; [exact C|].
    split; [split; [exact Hll|right; exact E]|]. split; reflexivity. }
  unfold py_fsr_length in Hpy. rewrite Hsido in Hpy.
  pose proof (e2_len_first st 16 R (Nat.le_refl 16)) as Hlf. change rdm_levels with 16%nat.
  destruct (py_len_top disk heads 16) as [[l0 off]|].
  2:{ rewrite Hlf. cbn [N.eqb]. inversion Hpy; subst len. eexists. split; [reflexivity|].
      pose proof (e2_set_offsets_R0 st R) as R2. split; [exact R2|].
      destruct (e2_set_offsets_frame st sid JLS_TRACK_TYPE_FSR (rdm_offsets st sid JLS_TRACK_TYPE_FSR)) as (F1 & F2 & F3 & F4 & F5 & F6 & F7 & F8).
      split. { eapply e2_CR_same; [exact C|assumption..]. }
      split. { split; [rewrite F8; exact Hll|]. left. unfold rdm_get_len. rewrite F8. destruct Hlen as [E|E]; [exact E|unfold rdm_get_len in *; lia]. }
      split; assumption. }
  destruct Hlf as (st1 & E1 & S1 & Rd1 & Hoffnz & Eoff & Hl0). rewrite E1.
  assert (R1 : e2_R0 st1) by (eapply e2_R0_same; [exact R|destruct S1 as (_ & _ & _ & _ & _ & _ & _ & _ & X & _); exact X|exact Rd1]).
  assert (Eoffs : rdm_offsets st sid JLS_TRACK_TYPE_FSR = rdm_offsets st1 sid JLS_TRACK_TYPE_FSR).
  { unfold rdm_offsets, rdm_sig, rp_get_sig. destruct S1 as (_ & _ & _ & _ & _ & _ & _ & _ & X & _). rewrite X. reflexivity. }
  rewrite Eoffs. pose proof (e2_set_offsets_R0 st1 R1) as R2.
  set (st2 := rdm_set_offsets st1 sid JLS_TRACK_TYPE_FSR (rdm_offsets st1 sid JLS_TRACK_TYPE_FSR)) in *.
  assert (Hnz : nth l0 heads 0%Z <> 0%Z) by (rewrite <- Eoff; exact Hoffnz).
  destruct (e2_heads_nz l0 Hnz) as (Hp & Hk). rewrite <- Eoff in Hp.
  destruct (N.eqb_spec (psi off) 0) as [E|_]; [contradiction|]. rewrite Nat2N.id.
  unfold py_bind in Hpy. destruct (py_len_loop pd disk T0 l0 off (-1)) as [[off' len']|e] eqn:Ell; [|discriminate].
  destruct (e2_set_offsets_frame st1 sid JLS_TRACK_TYPE_FSR (rdm_offsets st1 sid JLS_TRACK_TYPE_FSR)) as (F1 & F2 & F3 & F4 & F5 & F6 & F7 & F8).
  fold st2 in F1, F2, F3, F4, F5, F6, F7, F8.
  assert (Hll2 : length (rdm_len st2) = 256%nat) by (rewrite F8; destruct S1 as (X & _); rewrite X; exact Hll).
  assert (Hvoff : e2_valid_pos off) by (rewrite Eoff; apply Hheads).
  assert (Hpre : l0 = 0%nat \/ exists c, In c disk /\ pc_off c = off /\ pc_kind c = PyIndex l0).
  { destruct l0 as [|l0']; [left; reflexivity|right]. destruct Hvoff as [E|(c & Hc & Ec)]; [contradiction|].
    exists c. split; [exact Hc|]. split; [exact Ec|]. apply Hidx_head; [lia|exact Hc|rewrite Ec; exact Eoff]. }
  destruct (e2_sim_len_levels l0 st2 off (-1) off' len' R2 Hk Hll2 Hvoff Hpre Ell) as (st3 & E3 & R3 & S3 & Hll3 & V3 & K0 & K1 & K2).
  rewrite E3. cbn [N.eqb negb].
  assert (Smid : e2_mid_same st st3 \/ True) by (right; exact I).
  assert (C3 : e2_CR st3 cc).
  { eapply e2_CR_mid; [|exact S3]. eapply e2_CR_same; [eapply e2_CR_hi; [exact C|exact S1]|assumption..]. }
  assert (Hst3 : rdm_stale st3 = rdm_stale st /\ rdm_flt st3 = rdm_flt st).
  { destruct S3 as (_ & _ & _ & _ & _ & _ & X & _ & Y). rewrite X, Y, F6, F7.
    destruct S1 as (_ & _ & _ & _ & _ & _ & _ & X1 & _ & Y1). split; [exact X1|exact Y1]. }
  destruct (Z.eqb_spec off' 0) as [E0|Hne0].
  - (* the last block is omitted: the length comes from the level-1 summary *)
    inversion Hpy; subst len'. rewrite E0, Hpsi0. cbn [N.eqb].
    assert (Hl1 : (1 <= l0)%nat).
    { destruct l0 as [|l0']; [|lia]. destruct (K0 eq_refl) as (_ & Eo). lia. }
    rewrite (K1 Hl1). exists st3. split; [reflexivity|]. split; [exact R3|]. split; [exact C3|].
    split; [split; [exact Hll3|right; exact (K1 Hl1)]|exact Hst3].
  - destruct (e2_psi_pos off' V3) as (_ & P1 & _). specialize (P1 Hne0).
    destruct (N.eqb_spec (psi off') 0) as [E|_]; [lia|].
    destruct (py_find disk off') as [[c nx]|] eqn:Ef; [|discriminate]. inversion Hpy; subst len. clear Hpy.
    destruct (e2_find_some _ _ _ Ef) as (Hc & Eo). subst off'.
    assert (Hkd : pc_kind c = PyData).
    { destruct l0 as [|l0']; [|apply (K2 ltac:(lia) c Hc eq_refl)].
      destruct (K0 eq_refl) as (_ & Eo). apply Hhead0; [exact Hc|]. rewrite Eo. exact Eoff. }
    destruct (e2_pc_ok_in c Hc) as (_ & _ & _ & Dts & Dc & _). rewrite Hkd in Dts.
    destruct (e2_rd_disk_chunk st3 c R3 Hc) as (st4 & h & p & E4 & R4 & S4 & P4 & Hcur & Htg & Hm & Hbl & Hpp & Hok & Hmax & Hpay & Hcat).
    destruct (rdm_seek st3 (psi (pc_off c))) as [sta rca]. destruct (rca =? 0) eqn:Erca; cbn [negb] in E4 |- *; [|inversion E4; subst; discriminate].
    rewrite E4. cbn [N.eqb negb].
    destruct (e2_hdr_in_buf st4 c p Hc Hpay Dts Hpp Hbl Hok Hmax) as (G1 & G2). rewrite G1, G2. rewrite Z2N.id by lia.
    rewrite (rdm_i64_fwd st4) by (unfold rdm_inr, rdm_two63, e2_tsb in *; apply andb_true_iff; split; [apply Z.leb_le|apply Z.ltb_lt]; lia).
    rewrite (r_sid0 _ R4).
    rewrite (rdm_i64_fwd st4) by (unfold rdm_inr, rdm_two63, e2_tsb in *; apply andb_true_iff; split; [apply Z.leb_le|apply Z.ltb_lt]; lia).
    eexists. split; [reflexivity|].
    assert (Hll4 : length (rdm_len st4) = 256%nat) by (destruct S4 as (X & _); rewrite X; exact Hll3).
    split. { eapply e2_R0_same; [exact R4|reflexivity|exact (r_rdr _ R4)]. }
    split. { eapply e2_CR_mid; [eapply e2_CR_hi; [exact C3|exact S4]|apply e2_mid_put_len]. }
    split. { split; [rewrite e2_put_len_length; exact Hll4|right; apply e2_get_put_len; rewrite Hll4; lia]. }
    destruct S4 as (_ & _ & _ & _ & _ & _ & _ & X & _ & Y). destruct Hst3 as (X3 & Y3).
    split; [cbn [rdm_put_len rdm_set_len rdm_stale]; rewrite X; exact X3|].
    change (rdm_flt (rdm_put_len st4 sid (pc_ts c + pc_count c - T0))) with (rdm_flt st4). rewrite Y. exact Y3.
Qed.

(* ---- jls_core_rd_fsr_data0, a stored block ---- *)
Section E2F_DATA0.
Variable recon : bool -> bool -> Z -> N -> N -> N -> list N.
Variable f32_of_f64 : N -> N.

Theorem e2_sim_data0_stored : forall st cc t cd cc',
  e2_R0 st -> e2_CR st cc -> (- e2_tsb <= t < e2_tsb)%Z ->
  (forall off, py_fsr_seek pd disk heads 1 t = PyOk off -> exists c, In c disk /\ pc_off c = off /\ pc_kind c = PyIndex 1) ->
  py_rd_data0 pd disk heads (Z.of_N sid) cc t = (PyOk (PyStored cd), cc') -> pc_kind cd = PyData ->
  exists st' data h, rdm_rd_fsr_data0 recon f32_of_f64 st sid t = (st', 0, false) /\
    e2_R0 st' /\ e2_lo_same st st' /\ e2_CR st' cc' /\ In cd disk /\
    e2_chunk_at f (psi (pc_off cd)) h (wm_fsr_data_payload (pc_ts cd) (Z.to_N (pc_count cd)) w data) /\
    rdm_block_in_buf w st' (pc_ts cd) (Z.to_N (pc_count cd)) data.
Proof.
  intros st cc t cd cc' R C Ht Hkind Hpy Hkd.
  unfold py_rd_data0 in Hpy. destruct (py_rd_level1 pd disk heads (Z.of_N sid) cc t) as [cc1 rc] eqn:El.
  destruct rc as [e|]; [discriminate|].
  destruct (e2_sim_level1 st cc t cc1 R C Ht Hkind El) as (st1 & E1 & R1 & S1 & C1 & V1).
  unfold rdm_rd_fsr_data0. rewrite E1. cbn [N.eqb negb].
  set (ie := Z.quot (t - pc_ts (cc_index cc1)) (py_spd pd)) in *.
  destruct (ie <? 0)%Z eqn:Eneg; [discriminate|]. apply Z.ltb_ge in Eneg.
  destruct (nth_error (pc_entries (cc_index cc1)) (Z.to_nat ie)) as [offset|] eqn:En; [|discriminate].
  destruct (Z.eqb_spec offset 0) as [E0|Hoff]; [discriminate|].
  destruct (py_find disk offset) as [[c nx]|] eqn:Ef; [|discriminate].
  destruct (t <? pc_ts c)%Z eqn:Ets; [discriminate|]. apply Z.ltb_ge in Ets.
  inversion Hpy; subst c cc'. clear Hpy.
  destruct (e2_find_some _ _ _ Ef) as (Hcd & Eoff). subst offset.
  (* the cached index *)
  destruct (c_ours _ _ C1 V1) as ((Lc & Hkc) & Hfc & pI & pS & HpI & Eil & EI & HmI & _).
  destruct (e2_find_some _ _ _ Hfc) as (Hinc & _).
  destruct (e2_idx_hdr st1 cc1 C1 V1 Hinc) as (I1 & I2 & _ & _).
  destruct (e2_pc_ok_in _ Hinc) as (_ & _ & _ & Dts & Dc & _). rewrite Hkc in Dts.
  assert (Hspd : sg_spd d <> 0).
  { intro E. unfold py_div_ok in Hdiv. apply andb_true_iff in Hdiv as [_ H4]. apply negb_true_iff, Z.eqb_neq in H4. apply H4.
    subst pd. unfold rf_pd. cbn [py_spd]. rewrite E. reflexivity. }
  rewrite (r_spd _ R1). destruct (N.eqb_spec (sg_spd d) 0) as [E|_]; [contradiction|].
  rewrite I1, I2.
  rewrite (rdm_i64_fwd st1 (t - pc_ts (cc_index cc1))) by (unfold rdm_inr, rdm_two63, e2_tsb in *; apply andb_true_iff; split; [apply Z.leb_le|apply Z.ltb_lt]; lia).
  change (Z.of_N (sg_spd d)) with (py_spd pd). fold ie.
  (* the entry *)
  pose proof HpI as HpI'. unfold e2_pc_pay in HpI'. rewrite Hkc in HpI'. destruct HpI' as (EpI & HlenI).
  assert (Hil : (Z.to_nat ie < length (pc_entries (cc_index cc1)))%nat) by (apply nth_error_Some; congruence).
  assert (Hlen : length (rp_take (rdm_ilen st1) (rdm_ibuf st1)) = N.to_nat (rdm_ilen st1)) by (rewrite EI, Eil; unfold rf_len; lia).
  assert (HpIlen : rf_len pI = SIZEOF_payload_header + 8 * Z.to_N (pc_count (cc_index cc1))).
  { rewrite EpI, e2_index_payload_len. unfold rf_len. rewrite map_length. lia. }
  change SIZEOF_payload_header with 16 in *.
  rewrite (e2_idx_rd_in st1 _ 8 Hlen); [|lia|lia|lia].
  rewrite EI. replace (Z.to_N (Z.of_N 16 + 8 * ie)) with (16 + 8 * N.of_nat (Z.to_nat ie)) by lia.
  rewrite EpI. change 16 with SIZEOF_payload_header.
  rewrite e2_index_entry; [|rewrite map_length; exact Hil|apply (e2_map_psi_lt _ _ Hinc Hkc)].
  rewrite e2_nth_map_psi, (nth_error_nth _ _ _ En).
  destruct (e2_pc_ok_in cd Hcd) as (A & B & Cc & Dts2 & Dc2 & _). rewrite Hkd in Dts2.
  destruct (N.eqb_spec (psi (pc_off cd)) 0) as [E|_]; [lia|].
  destruct (e2_rd_disk_chunk st1 cd R1 Hcd) as (st2 & h & p & E2 & R2 & S2 & P2 & Hcur & Htg & Hm & Hbl & Hp & Hok & Hmax & Hpay & Hcat).
  destruct (rdm_seek st1 (psi (pc_off cd))) as [sta rca]. destruct (rca =? 0) eqn:Erca; cbn [negb] in E2 |- *; [|inversion E2; subst; discriminate].
  rewrite E2. cbn [N.eqb negb]. change (0 =? JLS_ERROR_EMPTY) with false. cbv iota.
  pose proof Hpay as Hpay'. unfold e2_pc_pay in Hpay'. rewrite Hkd in Hpay'. destruct Hpay' as (data & Ep).
  assert (Hi64 : e2_i64 (pc_ts cd)) by (unfold e2_i64, e2_tsb, fm_two63 in *; lia).
  destruct (e2_ph_fields (pc_ts cd) (Z.to_N (pc_count cd)) w data Hi64 ltac:(lia) ltac:(lia)) as (F1 & F2 & F3 & F4).
  cbv zeta in F1, F2, F3. fold (wm_fsr_data_payload (pc_ts cd) (Z.to_N (pc_count cd)) w data) in F1, F2, F3. rewrite <- Ep in F1, F2, F3.
  assert (Hplen : rf_len p = 16 + rf_len data) by (rewrite Ep; unfold wm_fsr_data_payload, rf_len; rewrite app_length, F4; lia).
  rewrite (e2_buf_i64_in st2 0 Hok); [|lia|change (Z.to_N 0) with 0; lia|lia].
  rewrite Hp. change (Z.to_N 0) with 0. rewrite F1.
  unfold rdm_data0_finish. destruct (t <? pc_ts cd)%Z eqn:Ets'; [lia|].
  cbn [N.eqb negb].
  rewrite (e2_buf_u_in st2 _ 2 Hok); [|lia|rewrite N2Z.id; unfold OFFSETOF_payload_entry_size_bits; lia|lia].
  rewrite Hp, N2Z.id, F3.
  rewrite (r_dtype _ R2). fold w. rewrite N.eqb_refl. cbn [negb].
  exists st2, data, h. split; [reflexivity|]. split; [exact R2|].
  split; [eapply e2_lo_same_trans; [exact S1|apply e2_hi_lo; exact S2]|].
  split; [eapply e2_CR_hi; eassumption|]. split; [exact Hcd|]. split; [rewrite <- Ep; exact Hcat|].
  unfold rdm_block_in_buf. rewrite Hp, Hbl. change SIZEOF_payload_header with 16. unfold rp_len. fold (rf_len data).
  split; [exact Hok|]. split; [exact Hplen|]. split; [exact Hmax|]. split; [exact F1|]. split; [exact F2|]. split; [exact F3|].
  rewrite Ep. unfold wm_fsr_data_payload, fm_sub. rewrite FormatProofs.skipn_app_exact by exact F4. unfold rf_len. rewrite Nat2N.id. apply firstn_all.
Qed.
End E2F_DATA0.

(* caches a fresh reader, reads of other signals and earlier reads of this signal can have left *)
Definition e2_reach (cc : py_cache) : Prop :=
  exists cache0 starts, (cc_meta cache0 <> (4096 + Z.of_N sid)%Z \/ cc_off cache0 = 0%Z) /\
                        cc = py_reads pd disk heads (Z.of_N sid) cache0 starts.

Lemma e2_reads_snoc : forall starts cache t,
  py_reads pd disk heads (Z.of_N sid) cache (starts ++ [t]) =
  snd (py_rd_data0 pd disk heads (Z.of_N sid) (py_reads pd disk heads (Z.of_N sid) cache starts) t).
Proof. induction starts as [|s r IH]; intros cache t; cbn [py_reads app]; [reflexivity|apply IH]. Qed.

Lemma e2_reach_step : forall cc t, e2_reach cc -> e2_reach (snd (py_rd_data0 pd disk heads (Z.of_N sid) cc t)).
Proof.
  intros cc t (c0 & starts & Hf & ->). exists c0, (starts ++ [t]). split; [exact Hf|]. symmetry. apply e2_reads_snoc.
Qed.

(* ---- jls_rd_fsr on a signal whose blocks are all stored ---- *)
Section E2F_WIN.
Variable recon : bool -> bool -> Z -> N -> N -> N -> list N.
Variable f32_of_f64 : N -> N.
Variable blocks : list (Z * N * list N).     (* first sample id, sample count, packed samples of every block *)
Variable stream : list N.                    (* the samples *)
Variable total : Z.                          (* the signal length *)

Hypothesis Htotal : py_fsr_length pd disk heads = PyOk total.
Hypothesis Hstream : total = Z.of_nat (length stream).
Hypothesis Hrange : (T0 + total < e2_tsb)%Z.
(* what the abstract reader delivers for a sample id inside a block: the stored DATA chunk of that block, whose bytes in
   the file are the block's bytes (Properties_compose + E2eModel) *)
Hypothesis Hdel : forall cc t ts cnt payload, e2_reach cc -> fp_find_block blocks t = Some (ts, cnt, payload) ->
  (forall off, py_fsr_seek pd disk heads 1 t = PyOk off -> exists c, In c disk /\ pc_off c = off /\ pc_kind c = PyIndex 1) /\
  exists cd, fst (py_rd_data0 pd disk heads (Z.of_N sid) cc t) = PyOk (PyStored cd) /\ pc_kind cd = PyData /\
             pc_ts cd = ts /\ Z.to_N (pc_count cd) = cnt /\
             forall h data, e2_chunk_at f (psi (pc_off cd)) h (wm_fsr_data_payload ts cnt w data) -> data = payload.
Hypothesis Hblk_rng : forall ts cnt p, In (ts, cnt, p) blocks ->
  (- e2_tsb <= ts)%Z /\ (ts + Z.of_N cnt < e2_tsb)%Z /\ cnt < rdm_two32 /\ N.of_nat (length p) = (cnt * w + 7) / 8.
Hypothesis Hshape : forall k ts cnt p, nth_error blocks k = Some (ts, cnt, p) ->
  ts = (T0 + Z.of_nat k * Z.of_N (sg_spd d))%Z /\ 0 < cnt <= sg_spd d /\ ((S k < length blocks)%nat -> cnt = sg_spd d) /\
  N.of_nat (length p) = (cnt * w + 7) / 8 /\ Forall (fun b => b < 256) p.
Hypothesis Hbits : flat_map (fun b => let '(_, cnt, p) := b in firstn (N.to_nat (cnt * w)) (bc_bits p)) blocks
                   = flat_map (bits_of (N.to_nat w)) stream.

Definition e2_P (st : rdm_st) : Prop := exists cc, e2_R0 st /\ e2_CR st cc /\ e2_reach cc /\ e2_len_ok st total.

Lemma e2_find_block_rng : forall t ts cnt p, fp_find_block blocks t = Some (ts, cnt, p) ->
  In (ts, cnt, p) blocks /\ (ts <= t < ts + Z.of_N cnt)%Z.
Proof.
  intros t ts cnt p H. unfold fp_find_block in H. apply find_some in H. destruct H as [Hin Hb].
  apply andb_true_iff in Hb. split; [exact Hin|lia].
Qed.

Lemma e2_P_delivers : forall st t ts cnt payload, e2_P st -> fp_find_block blocks t = Some (ts, cnt, payload) ->
  exists st', rdm_rd_fsr_data0 recon f32_of_f64 st sid t = (st', 0, false) /\ e2_P st' /\
              rdm_stale st' = rdm_stale st /\ rdm_flt st' = rdm_flt st /\ rdm_block_in_buf w st' ts cnt payload.
Proof.
  intros st t ts cnt payload (cc & R & C & Hr & Hl) Hfb.
  destruct (e2_find_block_rng _ _ _ _ Hfb) as (Hin & Ht). destruct (Hblk_rng _ _ _ Hin) as (B1 & B2 & _).
  destruct (Hdel cc t ts cnt payload Hr Hfb) as (Hkind & cd & Er & Hkd & Ets & Ecnt & Hdata).
  destruct (py_rd_data0 pd disk heads (Z.of_N sid) cc t) as [r cc'] eqn:Epy. cbn [fst] in Er. subst r.
  destruct (e2_sim_data0_stored recon f32_of_f64 st cc t cd cc' R C ltac:(lia) Hkind Epy Hkd)
    as (st' & data & h & E' & R' & S' & C' & Hcd & Hcat & Hbuf).
  rewrite Ets, Ecnt in Hcat, Hbuf. rewrite (Hdata h data Hcat) in Hbuf.
  exists st'. split; [exact E'|]. destruct S' as (L1 & L2 & L3 & L4).
  split. { exists cc'. split; [exact R'|]. split; [exact C'|]. split.
           - replace cc' with (snd (py_rd_data0 pd disk heads (Z.of_N sid) cc t)) by (rewrite Epy; reflexivity). apply e2_reach_step. exact Hr.
           - destruct Hl as (A & B). unfold e2_len_ok, rdm_get_len in *. rewrite L1. split; assumption. }
  split; [exact L2|]. split; [exact L4|exact Hbuf].
Qed.

Theorem e2_fsr_abs : forall st start len dst, e2_P st ->
  (0 <= start)%Z -> (0 < len)%Z -> (start + len <= total)%Z -> Z.to_N len * w <= 8 * N.of_nat (length dst) ->
  exists st' pcs out,
    rdm_fsr recon f32_of_f64 st sid start len dst = (st', 0, out, pcs) /\ e2_P st' /\
    rdm_stale st' = rdm_stale st /\ rdm_flt st' = rdm_flt st /\ length out = length dst /\
    firstn (N.to_nat (Z.to_N len * w)) (bc_bits out) =
      flat_map (bits_of (N.to_nat w)) (firstn (Z.to_nat len) (skipn (Z.to_nat start) stream)) /\
    skipn (N.to_nat (Z.to_N len * w)) (bc_bits out) = skipn (N.to_nat (Z.to_N len * w)) (bc_bits dst) /\
    (dst = repeat 0 (N.to_nat ((Z.to_N len * w + 7) / 8)) -> out = pack w (firstn (Z.to_nat len) (skipn (Z.to_nat start) stream))).
Proof.
  intros st start len dst (cc & R & C & Hr & Hl) Hs Hlen Hend Hcap.
  unfold rdm_fsr. rewrite (e2_validate_typed st R). cbn [N.eqb negb].
  assert (Htot0 : (0 <= total)%Z) by lia.
  destruct (e2_sim_fsr_length st cc total R C Hl Htot0 Htotal) as (st1 & E1 & R1 & C1 & Hl1 & S1 & F1).
  rewrite E1. cbn [N.eqb negb].
  destruct (Z.leb_spec len 0) as [Hx|_]; [lia|]. destruct (Z.ltb_spec start 0) as [Hx|_]; [lia|].
  rewrite (r_dtype _ R1). fold w.
  destruct ((total <? len)%Z || (total - len <? start)%Z) eqn:Eb.
  { apply orb_true_iff in Eb as [Eb|Eb]; [apply Z.ltb_lt in Eb|apply Z.ltb_lt in Eb]; lia. }
  destruct (N.eqb_spec w 0) as [E|_]; [lia|].
  destruct (Z.ltb_spec (Z.of_N (8 * rp_len dst)) (len * Z.of_N w)) as [Hx|_]; [unfold rp_len in Hx; lia|].
  rewrite (r_sid0 _ R1).
  rewrite (rdm_i64_fwd st1 (start + T0)) by (unfold rdm_inr, rdm_two63, e2_tsb in *; apply andb_true_iff; split; [apply Z.leb_le|apply Z.ltb_lt]; lia).
  assert (HP1 : e2_P st1) by (exists cc; split; [exact R1|split; [exact C1|split; [exact Hr|exact Hl1]]]).
  assert (Hspd : 0 < sg_spd d).
  { pose proof Hdiv as Hdiv'. unfold py_div_ok in Hdiv'. apply andb_true_iff in Hdiv' as [_ H4]. apply negb_true_iff, Z.eqb_neq in H4.
    change (py_spd pd) with (Z.of_N (sg_spd d)) in H4. lia. }
  assert (Hbok : forall ts cnt p, In (ts, cnt, p) blocks ->
            (- rdm_two63 <= ts)%Z /\ (ts + Z.of_N cnt < rdm_two63)%Z /\ cnt < rdm_two32 /\ N.of_nat (length p) = (cnt * w + 7) / 8).
  { intros ts cnt p Hin. destruct (Hblk_rng ts cnt p Hin) as (A & B & Cc & D). unfold rdm_two63, e2_tsb in *. repeat split; try assumption; lia. }
  destruct (e2_fsr_loop_window recon f32_of_f64 sid w blocks e2_P e2_P_delivers Hbok ltac:(lia) (sg_spd d) T0 stream st1 start len dst
              HP1 Hspd Hshape Hbits Hs Hlen ltac:(lia) Hcap) as (st' & pcs' & out & E & P' & S' & F' & Hlo & Hb1 & Hb2 & Hz).
  rewrite E. exists st', (wm_rev pcs'), out. split; [reflexivity|]. split; [exact P'|].
  split; [congruence|]. split; [congruence|]. split; [exact Hlo|]. split; [exact Hb1|]. split; [exact Hb2|exact Hz].
Qed.
End E2F_WIN.
End E2F.

(* ================================================================ the hypotheses of the setting, bundled *)
Record e2_env (f : list N) (d : sigdef) (disk : list py_chunk) (heads : list Z) (psi : Z -> N) (T0 : Z) (Ktop : nat) : Prop := {
  env_sid : sg_id d < 256;
  env_w : 0 < dt_bits (sg_dtype d) < 65536;
  env_div : py_div_ok (rf_pd d) = true;
  env_sumdf : (1 <= py_sumdf (rf_pd d))%Z;
  env_psi0 : psi 0%Z = 0;
  env_disk : Forall (e2_pc_ok f d psi) disk;
  env_nd : NoDup (map pc_off disk);
  env_ent : forall pc L e, In pc disk -> pc_kind pc = PyIndex L -> In e (pc_entries pc) -> e = 0%Z \/ exists c, In c disk /\ pc_off c = e;
  env_heads : forall L, nth L heads 0%Z = 0%Z \/ exists c, In c disk /\ pc_off c = nth L heads 0%Z;
  env_next : forall pc nx L, py_find disk (pc_off pc) = Some (pc, Some nx) -> pc_kind pc = PyIndex L ->
    psi (pc_off nx) = psi (pc_off pc) + fm_chunk_size (SIZEOF_payload_header + 8 * Z.to_N (pc_count pc));
  env_top : forall L, (Ktop < L)%nat -> nth L heads 0%Z = 0%Z;
  env_step : forall k, (1 <= k <= Ktop)%nat -> (0 < py_step (rf_pd d) k < rdm_two63)%Z;
  env_T0 : (- e2_tsb <= T0 < e2_tsb)%Z;
  env_idx_head : forall L c, (1 <= L)%nat -> In c disk -> pc_off c = nth L heads 0%Z -> pc_kind c = PyIndex L;
  env_idx_ent : forall pc L e c, In pc disk -> pc_kind pc = PyIndex (S (S L)) -> In e (pc_entries pc) -> In c disk -> pc_off c = e ->
    pc_kind c = PyIndex (S L);
  env_idx_cnt : forall pc L, In pc disk -> pc_kind pc = PyIndex L -> (1 <= pc_count pc)%Z;
  env_sido : py_sample_id_offset disk heads = T0;
  env_sum_ts : forall pc nx L, py_find disk (pc_off pc) = Some (pc, Some nx) -> pc_kind pc = PyIndex L -> (- e2_tsb <= pc_ts nx < e2_tsb)%Z;
  env_data_ent : forall pc e c, In pc disk -> pc_kind pc = PyIndex 1 -> In e (pc_entries pc) -> In c disk -> pc_off c = e -> pc_kind c = PyData;
  env_head0 : forall c, In c disk -> pc_off c = nth 0 heads 0%Z -> pc_kind c = PyData }.

Theorem e2_env_fsr_length : forall f d disk heads psi T0 Ktop st cc len,
  e2_env f d disk heads psi T0 Ktop ->
  e2_R0 f d heads psi T0 st -> e2_CR d disk psi st cc -> e2_len_ok d st len -> (0 <= len)%Z ->
  py_fsr_length (rf_pd d) disk heads = PyOk len ->
  exists st', rdm_fsr_length st (sg_id d) = (st', 0, len) /\ e2_R0 f d heads psi T0 st' /\ e2_CR d disk psi st' cc /\ e2_len_ok d st' len /\
              rdm_stale st' = rdm_stale st /\ rdm_flt st' = rdm_flt st.
Proof.
  intros f d disk heads psi T0 Ktop st cc len [] R C L Hl Hpy.
  eapply (e2_sim_fsr_length f d disk heads psi T0 Ktop); eassumption.
Qed.

Theorem e2_env_fsr : forall f d disk heads psi T0 Ktop recon f32_of_f64 blocks stream total,
  e2_env f d disk heads psi T0 Ktop ->
  py_fsr_length (rf_pd d) disk heads = PyOk total -> total = Z.of_nat (length stream) -> (T0 + total < e2_tsb)%Z ->
  (forall cc t ts cnt payload, e2_reach d disk heads cc -> fp_find_block blocks t = Some (ts, cnt, payload) ->
     (forall off, py_fsr_seek (rf_pd d) disk heads 1 t = PyOk off -> exists c, In c disk /\ pc_off c = off /\ pc_kind c = PyIndex 1) /\
     exists cd, fst (py_rd_data0 (rf_pd d) disk heads (Z.of_N (sg_id d)) cc t) = PyOk (PyStored cd) /\ pc_kind cd = PyData /\
                pc_ts cd = ts /\ Z.to_N (pc_count cd) = cnt /\
                forall h data, e2_chunk_at f (psi (pc_off cd)) h (wm_fsr_data_payload ts cnt (dt_bits (sg_dtype d)) data) -> data = payload) ->
  (forall ts cnt p, In (ts, cnt, p) blocks ->
     (- e2_tsb <= ts)%Z /\ (ts + Z.of_N cnt < e2_tsb)%Z /\ cnt < rdm_two32 /\ N.of_nat (length p) = (cnt * dt_bits (sg_dtype d) + 7) / 8) ->
  (forall k ts cnt p, nth_error blocks k = Some (ts, cnt, p) ->
     ts = (T0 + Z.of_nat k * Z.of_N (sg_spd d))%Z /\ 0 < cnt <= sg_spd d /\ ((S k < length blocks)%nat -> cnt = sg_spd d) /\
     N.of_nat (length p) = (cnt * dt_bits (sg_dtype d) + 7) / 8 /\ Forall (fun b => b < 256) p) ->
  flat_map (fun b => let '(_, cnt, p) := b in firstn (N.to_nat (cnt * dt_bits (sg_dtype d))) (bc_bits p)) blocks
    = flat_map (bits_of (N.to_nat (dt_bits (sg_dtype d)))) stream ->
  forall st start len dst, e2_P f d disk heads psi T0 total st ->
  (0 <= start)%Z -> (0 < len)%Z -> (start + len <= total)%Z -> Z.to_N len * dt_bits (sg_dtype d) <= 8 * N.of_nat (length dst) ->
  exists st' pcs out,
    rdm_fsr recon f32_of_f64 st (sg_id d) start len dst = (st', 0, out, pcs) /\ e2_P f d disk heads psi T0 total st' /\
    rdm_stale st' = rdm_stale st /\ rdm_flt st' = rdm_flt st /\ length out = length dst /\
    firstn (N.to_nat (Z.to_N len * dt_bits (sg_dtype d))) (bc_bits out) =
      flat_map (bits_of (N.to_nat (dt_bits (sg_dtype d)))) (firstn (Z.to_nat len) (skipn (Z.to_nat start) stream)) /\
    skipn (N.to_nat (Z.to_N len * dt_bits (sg_dtype d))) (bc_bits out) = skipn (N.to_nat (Z.to_N len * dt_bits (sg_dtype d))) (bc_bits dst) /\
    (dst = repeat 0 (N.to_nat ((Z.to_N len * dt_bits (sg_dtype d) + 7) / 8)) ->
     out = pack (dt_bits (sg_dtype d)) (firstn (Z.to_nat len) (skipn (Z.to_nat start) stream))).
Proof.
  intros f d disk heads psi T0 Ktop recon f32_of_f64 blocks stream total [] Htot Hstr Hrng Hdel Hbr Hsh Hbits st start len dst HP Hs Hl He Hc.
  eapply (e2_fsr_abs f d disk heads psi T0 Ktop); eassumption.
Qed.
