(* private extraction file of the format/write-once slice (development only; see SLICE_GUIDE.md) *)
From Coq Require Import Extraction ExtrOcamlBasic NArith ZArith List.
From JLS Require Import Generated CrcDefs Spec Format Decode WriteOnce.
Extraction Language OCaml.
Extraction "jlsmodel_ext"
  BinInt.Z.add BinInt.Z.opp BinInt.Z.of_N BinInt.Z.to_N BinNat.N.add BinNat.N.mul BinNat.N.of_nat BinNat.N.to_nat
  CrcDefs.crc_spec CrcDefs.crc32c CrcDefs.crc_slice8 CrcDefs.crc_hw CrcDefs.crc_hdr_hw CrcDefs.crc_hdr_slice8
  Spec.str_read
  Format.fm_encode_file_header Format.fm_encode_chunk Format.fm_decode_chunk_header Format.fm_decode_file_header
  Decode.dw_walk Decode.dw_walk_report Decode.dw_content_of Decode.dw_stream
  WriteOnce.wo_file_after WriteOnce.wo_run WriteOnce.wo_st0 WriteOnce.wo_check_log WriteOnce.wo_check_log_lenient.
