(* Model of /repo/src/tmap.c: the (sample id, UTC) anchor table of an FSR signal and
   the two conversions sample id -> time, time -> sample id.

   What is modelled, line by line (CURRENT code, i.e. with /repo commits 4ae268d and 768bbbf):
     jls_tmap_alloc                    tmap_alloc
     jls_tmap_add                      tmap_add      (growth, duplicate overwrite, rejection)
     interp_i64                        search (search_loop + clamp) + interp_at
     jls_tmap_sample_id_to_timestamp   tmap_sample_id_to_timestamp
     jls_tmap_timestamp_to_sample_id   tmap_timestamp_to_sample_id
   The code before those two repairs is kept at the end of the file as *_old, as
   documentation of the defects (over-read of x[entries_length]; 0/0 on equal UTC times).

   Memory: the two arrays sample_id[] / utc[] hold `length tm_entries` initialised cells.
   `tm_alloc` is entries_alloc, `tm_phys` is the number of 8-byte cells the heap objects really
   have: malloc(ENTRIES_ALLOC_INIT * sizeof(double)) gives tm_phys = tm_alloc = 1000, but
   realloc(entries_alloc * sizeof(struct jls_utc_summary_entry_s)) gives 16 bytes per entry,
   i.e. tm_phys = 2 * tm_alloc after the first growth.  A read at an index in [length, tm_phys) returns
   uninitialised heap content, modelled by the parameter `junk` (any value); a read at an
   index >= tm_phys is outside the heap object: TmFault Tm_OOB_read.  The current code never reads at
   an index >= length (search_total); only the old code did.

   Arithmetic: the C computes in binary64.  The model computes the same expressions, in
   the same order, with the same rounding function (round() = half away from zero, the
   cast (int64_t) = truncation), over Q exactly.  The difference between binary64 and Q
   evaluation is NOT modelled (see TmapProofs.v, section "binary64 gap").
   int64 overflow of the C subtractions/additions and a cast of an out-of-range double to
   int64 are undefined behaviour in C: TmFault Tm_Int_overflow.

   Definitions only; proofs are in TmapProofs.v. *)
From Coq Require Import ZArith QArith List Bool Arith.
From JLS Require Import Generated.
Import ListNotations.
Local Open Scope Z_scope.

Inductive tm_fault : Set :=
| Tm_OOB_read        (* read outside the heap object (old code only) *)
| Tm_FP_invalid      (* division by zero in double, result NaN/inf converted to int64 (UB; old code only) *)
| Tm_Int_overflow    (* signed 64-bit overflow or out-of-range double -> int64 cast (UB) *)
| Tm_Nonterm.        (* fuel exhausted: never happens (search_total, search_loop_ok) *)

Inductive tm_res (A : Type) : Type :=
| TmOk (a : A)
| TmFault (f : tm_fault).
Arguments TmOk {A} a.
Arguments TmFault {A} f.

(* result of one conversion call: *value written, return code, or a tm_fault *)
Inductive qres : Set :=
| QVal (v : Z)      (* rc = 0, *out = v *)
| QErr (rc : Z)     (* rc <> 0, *out untouched *)
| QFault (f : tm_fault).

(* constants come from /repo through Generated.v (tools/gen_constants.py); the
   correspondence harness additionally prints the C values next to the model's
   (script line "consts") *)
Definition TMAP_ERROR_UNAVAILABLE : Z := Z.of_N JLS_ERROR_UNAVAILABLE.   (* jls/ec.h *)
Definition TMAP_TIME_SECOND : Z := Z.of_N JLS_TIME_SECOND.   (* jls/time.h: 1 << JLS_TIME_Q = 2^30 ticks *)
Definition TMAP_CELL_BYTES : N := 8.               (* sizeof(int64_t) = sizeof(double) *)

Record tmap : Type := mk_tmap {
  tm_rate    : Q;               (* sample_rate (a finite double is a rational) *)
  tm_alloc   : nat;             (* entries_alloc *)
  tm_phys    : nat;             (* 8-byte cells really allocated for each array *)
  tm_entries : list (Z * Z)     (* (sample_id[i], utc[i]) for i < entries_length *)
}.

Definition ids (t : tmap) : list Z := map fst (tm_entries t).
Definition times (t : tmap) : list Z := map snd (tm_entries t).

(* tm_rate = num / 2^sh : how the correspondence scripts name a double exactly *)
Definition tmap_rate (num : Z) (sh : N) : Q := Qmake num (Pos.shiftl 1%positive sh).

(* ---- jls_tmap_alloc ---- *)
Definition tmap_alloc (r : Q) : tmap :=
  mk_tmap r (N.to_nat TMAP_ENTRIES_ALLOC_INIT) (N.to_nat TMAP_ENTRIES_ALLOC_INIT) [].

(* ---- jls_tmap_add ---- *)
(* if (entries_length >= entries_alloc) { tm_alloc *= 2; realloc(tm_alloc * sizeof(entry)) }
   (the out-of-memory branch of the C is not modelled) *)
Definition tmap_grow (t : tmap) : tmap :=
  if (tm_alloc t <=? length (tm_entries t))%nat then
    let a := (2 * tm_alloc t)%nat in
    mk_tmap (tm_rate t) a (a * N.to_nat (SIZEOF_utc_summary_entry / TMAP_CELL_BYTES))%nat (tm_entries t)
  else t.

(* the part of jls_tmap_add after the growth, on the entry list: compares with the last
   entry (one pass to the end of the list) *)
Fixpoint add_last (es : list (Z * Z)) (s u : Z) : list (Z * Z) * Z :=
  match es with
  | [] => ([(s, u)], 0)
  | e :: r =>
      match r with
      | [] =>
          if s =? fst e then ([(s, u)], 0)                      (* --entries_length; overwrite *)
          else if s <=? fst e then (es, Z.of_N JLS_ERROR_PARAMETER_INVALID)   (* not increasing: ignored *)
          else ([e; (s, u)], 0)
      | _ :: _ => let (r', rc) := add_last r s u in (e :: r', rc)
      end
  end.

Definition tmap_add (t : tmap) (s u : Z) : tmap * Z :=
  let t1 := tmap_grow t in
  let (es, rc) := add_last (tm_entries t1) s u in
  (mk_tmap (tm_rate t1) (tm_alloc t1) (tm_phys t1) es, rc).

(* ---- memory read x[i] ---- *)
Definition rd (junk : Z) (ph : nat) (xs : list Z) (i : nat) : tm_res Z :=
  if (i <? length xs)%nat then TmOk (nth i xs 0)
  else if (i <? ph)%nat then TmOk junk
  else TmFault Tm_OOB_read.

(* ---- interp_i64: the binary search_old, exactly as written ----
     low = 0; high = entries_length;
     while (low < high) { mid = (low + high + 1) / 2;
        if (x0 == x[mid]) { low = mid; break; }
        else if (x0 < x[mid]) high = mid - 1; else if (x0 > x[mid]) low = mid; }      *)
Fixpoint search_loop (fuel : nat) (junk : Z) (ph : nat) (xs : list Z) (x0 : Z) (low high : nat) : tm_res nat :=
  match fuel with
  | O => TmFault Tm_Nonterm
  | S f =>
      if (low <? high)%nat then
        let mid := ((low + high + 1) / 2)%nat in
        match rd junk ph xs mid with
        | TmFault e => TmFault e
        | TmOk xm =>
            if x0 =? xm then TmOk mid
            else if x0 <? xm then search_loop f junk ph xs x0 low (mid - 1)%nat
            else search_loop f junk ph xs x0 mid high
        end
      else TmOk low
  end.

(* if (low >= entries_length - 1) low = entries_length - 2;   (entries_length >= 2 here) *)
Definition clamp (len low : nat) : nat :=
  if (len - 1 <=? low)%nat then (len - 2)%nat else low.

(* ---- rounding functions of the C, on Q ---- *)
(* round(): nearest integer, halfway cases away from zero *)
Definition Qround_haz (q : Q) : Z :=
  let n := Qnum q in
  let d := Zpos (Qden q) in
  if 0 <=? n then (2 * n + d) / (2 * d) else - ((2 * (- n) + d) / (2 * d)).
(* (int64_t) of a double: truncation toward zero *)
Definition Qtrunc (q : Q) : Z := Z.quot (Qnum q) (Zpos (Qden q)).

Definition in64 (v : Z) : bool := (- 2 ^ 63 <=? v) && (v <? 2 ^ 63).

(* ---- interp_i64, current code: the binary search over the valid indices ----
     low = 0; high = entries_length - 1;           (entries_length >= 2 here)
     while (low < high) { mid = (low + high + 1) / 2;
        if (x0 == x[mid]) { low = mid; break; }
        else if (x0 < x[mid]) high = mid - 1; else if (x0 > x[mid]) low = mid; }
     if (low >= entries_length - 1) low = entries_length - 2;
   search_loop is shared with the old code; it is run with physical size 0, i.e. ANY read at
   an index >= length would be TmFault Tm_OOB_read (proved never to happen: search_total). ---- *)
Definition search (xs : list Z) (x0 : Z) : tm_res nat :=
  match search_loop (length xs) 0 0%nat xs x0 0%nat (length xs - 1)%nat with
  | TmFault e => TmFault e
  | TmOk low => TmOk (clamp (length xs) low)
  end.

(* ---- interp_i64, current code: the interpolation at segment [low, low+1] ----
     dk = (double)(x0 - x[low]); ds = (double)(x[low+1] - x[low]); dt = (double)(y[low+1] - y[low]);
     if (ds == 0.0) return y[low];
     slope = dt / ds;  k = (int64_t) round(dk * slope);  return y[low] + k;              *)
Definition interp_k (dk ds dt : Z) : Z :=
  Qround_haz (inject_Z dk * (inject_Z dt / inject_Z ds))%Q.


Definition interp_at (xs ys : list Z) (low : nat) (x0 : Z) : tm_res Z :=
  let xl := nth low xs 0 in
  let yl := nth low ys 0 in
  let dk := x0 - xl in
  let ds := nth (S low) xs 0 - xl in
  let dt := nth (S low) ys 0 - yl in
  if negb (in64 dk && in64 ds && in64 dt) then TmFault Tm_Int_overflow
  else if ds =? 0 then TmOk yl
  else
    let k := interp_k dk ds dt in
    if negb (in64 k && in64 (yl + k)) then TmFault Tm_Int_overflow
    else TmOk (yl + k).

Definition interp (xs ys : list Z) (x0 : Z) : tm_res Z :=
  match search xs x0 with
  | TmFault e => TmFault e
  | TmOk low => interp_at xs ys low x0
  end.

Definition qres_of (r : tm_res Z) : qres :=
  match r with TmOk v => QVal v | TmFault f => QFault f end.

(* ---- single entry: extrapolate with the sample tm_rate ----
     dsample = (double)(sample_id - sample_id[0]); dt = dsample / sample_rate; dt *= JLS_TIME_SECOND;
     *timestamp = utc[0] + (int64_t) dt;                                                   *)
Definition single_id_to_time (r : Q) (s0 u0 q : Z) : tm_res Z :=
  let d := q - s0 in
  if negb (in64 d) then TmFault Tm_Int_overflow
  else
    let k := Qtrunc ((inject_Z d / r) * inject_Z TMAP_TIME_SECOND)%Q in
    if negb (in64 k && in64 (u0 + k)) then TmFault Tm_Int_overflow else TmOk (u0 + k).

(*   dt = (double)(timestamp - utc[0]); dt *= (1.0 / JLS_TIME_SECOND);
     *sample_id = sample_id[0] + (int64_t)(dt * sample_rate);                              *)
Definition single_time_to_id (r : Q) (s0 u0 q : Z) : tm_res Z :=
  let d := q - u0 in
  if negb (in64 d) then TmFault Tm_Int_overflow
  else
    let k := Qtrunc ((inject_Z d * (1 / inject_Z TMAP_TIME_SECOND)) * r)%Q in
    if negb (in64 k && in64 (s0 + k)) then TmFault Tm_Int_overflow else TmOk (s0 + k).

Definition rate_positive (r : Q) : bool := 0 <? Qnum r.

(* ---- jls_tmap_sample_id_to_timestamp (current code) ---- *)
Definition tmap_sample_id_to_timestamp (t : tmap) (q : Z) : qres :=
  match tm_entries t with
  | [] => QErr TMAP_ERROR_UNAVAILABLE
  | [(s0, u0)] =>
      if rate_positive (tm_rate t) then qres_of (single_id_to_time (tm_rate t) s0 u0 q)
      else QErr TMAP_ERROR_UNAVAILABLE
  | _ => qres_of (interp (ids t) (times t) q)
  end.

(* ---- jls_tmap_timestamp_to_sample_id (current code) ---- *)
Definition tmap_timestamp_to_sample_id (t : tmap) (q : Z) : qres :=
  match tm_entries t with
  | [] => QErr TMAP_ERROR_UNAVAILABLE
  | [(s0, u0)] =>
      if rate_positive (tm_rate t) then qres_of (single_time_to_id (tm_rate t) s0 u0 q)
      else QErr TMAP_ERROR_UNAVAILABLE
  | _ => qres_of (interp (times t) (ids t) q)
  end.

(* ---- helpers for statements and for the correspondence driver ---- *)
Definition tmap_add_all (t : tmap) (l : list (Z * Z)) : tmap :=
  fold_left (fun t e => fst (tmap_add t (fst e) (snd e))) l t.

(* the plain (non-sanitizer) build: the read of x[length] is not detected, it returns
   whatever the heap holds; modelled by an unbounded physical size *)
Definition tmap_unchecked (t : tmap) : tmap :=
  mk_tmap (tm_rate t) (tm_alloc t) (S (S (length (tm_entries t)))) (tm_entries t).

(* sortedness, index style *)
Definition sorted_lt (xs : list Z) : Prop :=
  forall i j, (i < j < length xs)%nat -> nth i xs 0 < nth j xs 0.
Definition sorted_le (xs : list Z) : Prop :=
  forall i j, (i <= j < length xs)%nat -> nth i xs 0 <= nth j xs 0.

(* the segment the C selects for query x0: index c with c+1 a valid index,
   x[c] <= x0 unless c is the first segment, x0 < x[c+1] unless c is the last segment *)
Definition seg_ok (xs : list Z) (x0 : Z) (c : nat) : Prop :=
  (c + 2 <= length xs)%nat /\
  (forall i, (0 < i <= c)%nat -> nth i xs 0 <= x0) /\
  (forall i, (c < i)%nat -> (i + 1 < length xs)%nat -> x0 < nth i xs 0).

(* exact (unrounded) value of the interpolation on segment c *)
Definition exact_at (xs ys : list Z) (c : nat) (x0 : Z) : Q :=
  let yl := nth c ys 0 in
  let dk := x0 - nth c xs 0 in
  let dt := nth (S c) ys 0 - nth c ys 0 in
  let ds := nth (S c) xs 0 - nth c xs 0 in
  (inject_Z yl + inject_Z dk * (inject_Z dt / inject_Z ds))%Q.

Definition all_in (B : Z) (l : list Z) : Prop := Forall (fun v => - B <= v <= B) l.

(* ======================================================================================
   The code before the two repairs (/repo commits 4ae268d "high = entries_length - 1" and
   768bbbf "if (ds == 0.0) return y[low]"), kept as documentation of the fixed defects:
     - the bisection started with high = entries_length and could read x[entries_length]:
       uninitialised heap (`junk`) below capacity, outside the heap object (TmFault Tm_OOB_read)
       with exactly ENTRIES_ALLOC_INIT tm_entries;
     - a zero-width segment (two equal UTC times) divided by zero in double and cast
       NaN/inf to int64 (TmFault Tm_FP_invalid).
   TmapProofs.v: tmap_old_oob_refuted, tmap_old_oob_iff, tmap_old_equal_times_refuted, and
   tmap_eq_old (the current code returns what the old code returned wherever that was defined).
   ====================================================================================== *)
Definition search_old (junk : Z) (ph : nat) (xs : list Z) (x0 : Z) : tm_res nat :=
  match search_loop (S (length xs)) junk ph xs x0 0%nat (length xs) with
  | TmFault e => TmFault e
  | TmOk low => TmOk (clamp (length xs) low)
  end.

Definition interp_at_old (xs ys : list Z) (low : nat) (x0 : Z) : tm_res Z :=
  let xl := nth low xs 0 in
  let yl := nth low ys 0 in
  let dk := x0 - xl in
  let ds := nth (S low) xs 0 - xl in
  let dt := nth (S low) ys 0 - yl in
  if negb (in64 dk && in64 ds && in64 dt) then TmFault Tm_Int_overflow
  else if ds =? 0 then TmFault Tm_FP_invalid
  else
    let k := interp_k dk ds dt in
    if negb (in64 k && in64 (yl + k)) then TmFault Tm_Int_overflow
    else TmOk (yl + k).

Definition interp_old (junk : Z) (ph : nat) (xs ys : list Z) (x0 : Z) : tm_res Z :=
  match search_old junk ph xs x0 with
  | TmFault e => TmFault e
  | TmOk low => interp_at_old xs ys low x0
  end.

(* jls_tmap_sample_id_to_timestamp, old code *)
Definition tmap_sample_id_to_timestamp_old (junk : Z) (t : tmap) (q : Z) : qres :=
  match tm_entries t with
  | [] => QErr TMAP_ERROR_UNAVAILABLE
  | [(s0, u0)] =>
      if rate_positive (tm_rate t) then qres_of (single_id_to_time (tm_rate t) s0 u0 q)
      else QErr TMAP_ERROR_UNAVAILABLE
  | _ => qres_of (interp_old junk (tm_phys t) (ids t) (times t) q)
  end.

(* jls_tmap_timestamp_to_sample_id, old code *)
Definition tmap_timestamp_to_sample_id_old (junk : Z) (t : tmap) (q : Z) : qres :=
  match tm_entries t with
  | [] => QErr TMAP_ERROR_UNAVAILABLE
  | [(s0, u0)] =>
      if rate_positive (tm_rate t) then qres_of (single_time_to_id (tm_rate t) s0 u0 q)
      else QErr TMAP_ERROR_UNAVAILABLE
  | _ => qres_of (interp_old junk (tm_phys t) (times t) (ids t) q)
  end.

