(* The abstract specification of a JLS file's content: what a sequence of writer
   calls means, independently of chunks, indices and summaries.  Short enough to
   read in minutes; every file-level property (C01 C09 C11 C12 C13 C15 C17 C03 C19)
   is stated against [spec_of].  Definitions only. *)
From Coq Require Import NArith ZArith List Bool.
From JLS Require Import Generated.
Import ListNotations.
Local Open Scope N_scope.

(* a C string argument: NULL or bytes (without the terminator) *)
Inductive strv := SNull | SBytes (l : list N).
Definition str_read (s : strv) : list N := match s with SNull => [] | SBytes l => l end.

Record srcdef := { so_id : N; so_name : strv; so_vendor : strv; so_model : strv; so_version : strv; so_serial : strv }.

Record sigdef := {
  sg_id : N; sg_src : N; sg_type : N; sg_dtype : N; sg_rate : N;
  sg_spd : N; sg_sdf : N; sg_eps : N; sg_sumdf : N; sg_adf : N; sg_udf : N;
  sg_name : strv; sg_units : strv }.

Record anno := { an_ts : Z; an_y : N; an_type : N; an_group : N; an_stype : N; an_data : list N }.
Record udata := { ud_meta : N; ud_stype : N; ud_data : list N }.

Inductive wop :=
| WSrc (d : srcdef)
| WSig (d : sigdef)
| WFsr (sig : N) (sid : Z) (samples : list N)      (* raw w-bit patterns *)
| WOmit (sig : N) (en : N)
| WAnno (sig : N) (a : anno)
| WUtc (sig : N) (sid utc : Z)
| WUd (u : udata)
| WFlush.

Record sigstate := {
  ss_def : sigdef;                 (* as stored: normalised parameters *)
  ss_first : option Z;             (* sample id of the first sample written *)
  ss_samples : list N;             (* the stream from ss_first on, gaps filled *)
  ss_annos : list anno;            (* write order *)
  ss_utcs : list (Z * Z) }.        (* write order *)

Record content := { c_sources : list srcdef; c_signals : list sigstate; c_udata : list udata }.

(* ---- data types ---- *)
Definition dt_bits (dt : N) : N := N.land (N.shiftr dt 8) 255.
Definition dt_base (dt : N) : N := N.land dt 15.
Definition dt_q (dt : N) : N := N.land (N.shiftr dt 16) 255.
Definition dt_is_float (dt : N) : bool := dt_base dt =? 4.
Definition dt_valid (dt : N) : bool :=
  let k := N.land dt 65535 in
  existsb (N.eqb k) [JLS_DATATYPE_I4; JLS_DATATYPE_I8; JLS_DATATYPE_I16; JLS_DATATYPE_I24; JLS_DATATYPE_I32; JLS_DATATYPE_I64;
                     JLS_DATATYPE_U1; JLS_DATATYPE_U4; JLS_DATATYPE_U8; JLS_DATATYPE_U16; JLS_DATATYPE_U24; JLS_DATATYPE_U32;
                     JLS_DATATYPE_U64; JLS_DATATYPE_F32; JLS_DATATYPE_F64]
  && negb (negb (dt_q dt =? 0) && dt_is_float dt).

(* fill value of a gap: NaN for floats (the C NAN macro: quiet NaN, positive), 0 for integers *)
Definition fill_value (dt : N) : N :=
  if dt_is_float dt then (if dt_bits dt =? 32 then 0x7FC00000 else 0x7FF8000000000000) else 0.

(* ---- intended normalisation of definition parameters (C16; no overflow: the generators and the
        theorems using spec_of stay below 2^31) ---- *)
Definition sp_round_up (x m : N) : N := ((x + m - 1) / m) * m.
Definition sp_default_of (w : N) (f : N) : N :=   (* f: 0 spd 1 sdf 2 eps 3 sumdf *)
  match w, f with
  | 1, 0 => DEF1_samples_per_data | 1, 1 => DEF1_sample_decimate_factor | 1, 2 => DEF1_entries_per_summary | 1, 3 => DEF1_summary_decimate_factor
  | 4, 0 => DEF4_samples_per_data | 4, 1 => DEF4_sample_decimate_factor | 4, 2 => DEF4_entries_per_summary | 4, 3 => DEF4_summary_decimate_factor
  | 8, 0 => DEF8_samples_per_data | 8, 1 => DEF8_sample_decimate_factor | 8, 2 => DEF8_entries_per_summary | 8, 3 => DEF8_summary_decimate_factor
  | 16, 0 => DEF16_samples_per_data | 16, 1 => DEF16_sample_decimate_factor | 16, 2 => DEF16_entries_per_summary | 16, 3 => DEF16_summary_decimate_factor
  | 24, 0 => DEF32_samples_per_data | 24, 1 => DEF32_sample_decimate_factor | 24, 2 => DEF32_entries_per_summary | 24, 3 => DEF32_summary_decimate_factor
  | 32, 0 => DEF32_samples_per_data | 32, 1 => DEF32_sample_decimate_factor | 32, 2 => DEF32_entries_per_summary | 32, 3 => DEF32_summary_decimate_factor
  | 64, 0 => DEF64_samples_per_data | 64, 1 => DEF64_sample_decimate_factor | 64, 2 => DEF64_entries_per_summary | 64, 3 => DEF64_summary_decimate_factor
  | _, _ => 0
  end.
Definition sp_dflt (w f v : N) : N := if v =? 0 then sp_default_of w f else v.

Fixpoint sp_fit_epd (fuel : nat) (eps epd : N) : N :=
  match fuel with
  | O => 1
  | S f => if (epd =? 0) then 1 else if (eps mod epd =? 0) then epd else sp_fit_epd f eps (epd - 1)
  end.

Definition sp_align (d : sigdef) : sigdef :=
  let w := dt_bits (sg_dtype d) in
  let spd0 := sp_dflt w 0 (sg_spd d) in let sdf0 := sp_dflt w 1 (sg_sdf d) in
  let eps0 := sp_dflt w 2 (sg_eps d) in let sumdf0 := sp_dflt w 3 (sg_sumdf d) in
  let adf := N.max (if sg_adf d =? 0 then DEF32_annotation_decimate_factor else sg_adf d) SUMMARY_DECIMATE_FACTOR_MIN in
  let udf := N.max (if sg_udf d =? 0 then DEF32_utc_decimate_factor else sg_udf d) SUMMARY_DECIMATE_FACTOR_MIN in
  let mult := if w =? 24 then 32 else (SAMPLE_SIZE_BYTES_MAX * 8) / w in   (* a level-1 entry covers a multiple of 256 bits *)
  let sdf := sp_round_up (N.max sdf0 SAMPLE_DECIMATE_FACTOR_MIN) mult in
  let spd1 := N.max spd0 SAMPLES_PER_DATA_MIN in
  let eps1 := N.max eps0 ENTRIES_PER_SUMMARY_MIN in
  let sumdf := N.max sumdf0 SUMMARY_DECIMATE_FACTOR_MIN in
  let eps := sp_round_up eps1 sumdf in
  let spd2 := sp_round_up spd1 sdf in
  let epd := sp_fit_epd (N.to_nat (spd2 / sdf)) eps (spd2 / sdf) in
  {| sg_id := sg_id d; sg_src := sg_src d; sg_type := sg_type d; sg_dtype := sg_dtype d;
     sg_rate := if sg_type d =? JLS_SIGNAL_TYPE_VSR then 0 else sg_rate d;
     sg_spd := sdf * epd; sg_sdf := sdf; sg_eps := eps; sg_sumdf := sumdf; sg_adf := adf; sg_udf := udf;
     sg_name := sg_name d; sg_units := sg_units d |}.

(* ---- the reserved definitions written by jls_wr_open ---- *)
Definition ascii (s : list N) := SBytes s.
Definition source0 : srcdef :=
  {| so_id := 0;
     so_name := ascii [103;108;111;98;97;108;95;97;110;110;111;116;97;116;105;111;110;95;115;111;117;114;99;101];
     so_vendor := ascii [106;108;115]; so_model := ascii [45]; so_version := ascii [49;46;48;46;48]; so_serial := ascii [45] |}.
Definition signal0 : sigdef :=
  sp_align {| sg_id := 0; sg_src := 0; sg_type := JLS_SIGNAL_TYPE_VSR; sg_dtype := JLS_DATATYPE_F32; sg_rate := 0;
     sg_spd := 10; sg_sdf := 10; sg_eps := 10; sg_sumdf := 10; sg_adf := 100; sg_udf := 100;
     sg_name := ascii [103;108;111;98;97;108;95;97;110;110;111;116;97;116;105;111;110;95;115;105;103;110;97;108];
     sg_units := ascii [] |}.

Definition new_sig (d : sigdef) : sigstate :=
  {| ss_def := d; ss_first := None; ss_samples := []; ss_annos := []; ss_utcs := [] |}.
Definition content0 : content :=
  {| c_sources := [source0]; c_signals := [new_sig signal0]; c_udata := [] |}.

Definition find_src (c : content) (id : N) : option srcdef := find (fun s => so_id s =? id) (c_sources c).
Definition find_sig (c : content) (id : N) : option sigstate := find (fun s => sg_id (ss_def s) =? id) (c_signals c).
Definition upd_sig (c : content) (s : sigstate) : content :=
  {| c_sources := c_sources c;
     c_signals := map (fun x => if sg_id (ss_def x) =? sg_id (ss_def s) then s else x) (c_signals c);
     c_udata := c_udata c |}.

(* ---- FSR stream: gaps are filled, overlaps keep what was written first ---- *)
Definition fsr_write (s : sigstate) (sid : Z) (samples : list N) : sigstate :=
  match samples with
  | [] => s
  | _ =>
    match ss_first s with
    | None => {| ss_def := ss_def s; ss_first := Some sid; ss_samples := samples; ss_annos := ss_annos s; ss_utcs := ss_utcs s |}
    | Some f =>
      let next := (f + Z.of_nat (length (ss_samples s)))%Z in
      let strm :=
        if (sid >=? next)%Z
        then ss_samples s ++ repeat (fill_value (sg_dtype (ss_def s))) (Z.to_nat (sid - next)) ++ samples
        else ss_samples s ++ skipn (Z.to_nat (next - sid)) samples in
      {| ss_def := ss_def s; ss_first := Some f; ss_samples := strm; ss_annos := ss_annos s; ss_utcs := ss_utcs s |}
    end
  end.

(* a definition string must fit one internal string block together with its terminator *)
Definition str_fits (s : strv) : bool := (N.of_nat (length (str_read s)) + 2 <=? JLS_BUF_STRING_SIZE).

Definition stype_ok_anno (st : N) : bool := (1 <=? st) && (st <=? 3).
Definition stype_ok_ud (st : N) : bool := (st <=? 3).

(* one writer call: new content and whether the call is accepted (returns 0) *)
Definition wstep (c : content) (o : wop) : content * bool :=
  match o with
  | WSrc d =>
    if (so_id d <? JLS_SOURCE_COUNT) && (match find_src c (so_id d) with None => true | Some _ => false end)
       && str_fits (so_name d) && str_fits (so_vendor d) && str_fits (so_model d) && str_fits (so_version d) && str_fits (so_serial d)
    then ({| c_sources := c_sources c ++ [d]; c_signals := c_signals c; c_udata := c_udata c |}, true)
    else (c, false)
  | WSig d =>
    if (sg_id d <? JLS_SIGNAL_COUNT) && (sg_src d <? JLS_SOURCE_COUNT)
       && (match find_src c (sg_src d) with None => false | Some _ => true end)
       && (match find_sig c (sg_id d) with None => true | Some _ => false end)
       && ((sg_type d =? JLS_SIGNAL_TYPE_FSR) || (sg_type d =? JLS_SIGNAL_TYPE_VSR))
       && dt_valid (sg_dtype d)
       && ((sg_type d =? JLS_SIGNAL_TYPE_VSR) || negb (sg_rate d =? 0))
       && str_fits (sg_name d) && str_fits (sg_units d)
    then ({| c_sources := c_sources c; c_signals := c_signals c ++ [new_sig (sp_align d)]; c_udata := c_udata c |}, true)
    else (c, false)
  | WFsr sig sid samples =>
    match find_sig c sig with
    | Some s => if sg_type (ss_def s) =? JLS_SIGNAL_TYPE_FSR then (upd_sig c (fsr_write s sid samples), true) else (c, false)
    | None => (c, false)
    end
  | WOmit sig en =>
    match find_sig c sig with
    | Some s => if sg_type (ss_def s) =? JLS_SIGNAL_TYPE_FSR then (c, true) else (c, false)
    | None => (c, false)
    end
  | WAnno sig a =>
    match find_sig c sig with
    | Some s =>
      if stype_ok_anno (an_stype a) && (an_type a <? 256)
      then (upd_sig c {| ss_def := ss_def s; ss_first := ss_first s; ss_samples := ss_samples s;
                         ss_annos := ss_annos s ++ [a]; ss_utcs := ss_utcs s |}, true)
      else (c, false)
    | None => (c, false)
    end
  | WUtc sig sid utc =>
    match find_sig c sig with
    | Some s =>
      if sg_type (ss_def s) =? JLS_SIGNAL_TYPE_FSR
      then (upd_sig c {| ss_def := ss_def s; ss_first := ss_first s; ss_samples := ss_samples s;
                         ss_annos := ss_annos s; ss_utcs := ss_utcs s ++ [(sid, utc)] |}, true)
      else (c, false)
    | None => (c, false)
    end
  | WUd u =>
    if stype_ok_ud (ud_stype u)
    then (if ud_stype u =? 0 then (c, true)     (* storage type INVALID: an empty placeholder chunk, not an item *)
          else ({| c_sources := c_sources c; c_signals := c_signals c;
                   c_udata := c_udata c ++ [{| ud_meta := N.land (ud_meta u) 4095; ud_stype := ud_stype u;
                                               ud_data := ud_data u |}] |}, true))
    else (c, false)
  | WFlush => (c, true)
  end.

Fixpoint run_spec (c : content) (p : list wop) : content * list bool :=
  match p with
  | [] => (c, [])
  | o :: r => let '(c1, a) := wstep c o in let '(c2, l) := run_spec c1 r in (c2, a :: l)
  end.
Definition spec_of (p : list wop) : content := fst (run_spec content0 p).

(* ---- what the reader must return ---- *)
Fixpoint insert_by {A} (key : A -> N) (x : A) (l : list A) : list A :=
  match l with [] => [x] | y :: r => if key x <=? key y then x :: l else y :: insert_by key x r end.
Definition sort_by {A} (key : A -> N) (l : list A) : list A := fold_right (insert_by key) [] l.

Definition rd_sources (c : content) : list srcdef := sort_by so_id (c_sources c).
Definition rd_signals (c : content) : list sigstate := sort_by (fun s => sg_id (ss_def s)) (c_signals c).
Definition rd_offset (s : sigstate) : Z := match ss_first s with Some f => f | None => 0%Z end.
Definition rd_length (s : sigstate) : N := N.of_nat (length (ss_samples s)).

(* sample window -> bytes, LSB first; the bits past count*w in the last byte are 0 *)
Fixpoint bits_of (w : nat) (v : N) : list bool :=
  match w with O => [] | S w' => N.odd v :: bits_of w' (N.div2 v) end.
Fixpoint byte_of_bits (l : list bool) (k : nat) : N :=
  match k with
  | O => 0
  | S k' => match l with [] => 0 | b :: r => (if b then 1 else 0) + 2 * byte_of_bits r k' end
  end.
Fixpoint bytes_of_bits (fuel : nat) (l : list bool) : list N :=
  match fuel with
  | O => []
  | S f => match l with [] => [] | _ => byte_of_bits l 8 :: bytes_of_bits f (skipn 8 l) end
  end.
Definition pack (w : N) (samples : list N) : list N :=
  let bits := flat_map (bits_of (N.to_nat w)) samples in
  bytes_of_bits (S (length bits)) bits.

Definition rd_window (s : sigstate) (start count : N) : option (list N) :=
  if (start + count <=? rd_length s)
  then Some (pack (dt_bits (sg_dtype (ss_def s))) (firstn (N.to_nat count) (skipn (N.to_nat start) (ss_samples s))))
  else None.

(* annotation seek (C11): the delivered list must be annos[j..] for some lo <= j <= hi, timestamps
   relative to the first sample id *)
Fixpoint first_ge (t : Z) (l : list anno) (i : nat) : nat :=
  match l with [] => i | a :: r => if (an_ts a >=? t)%Z then i else first_ge t r (S i) end.
Definition anno_seek_range (s : sigstate) (t : Z) : nat * nat :=
  let hi := first_ge t (ss_annos s) 0 in (Nat.pred hi, hi).

Definition utc_from (s : sigstate) (sid : Z) : list (Z * Z) :=
  filter (fun p => (fst p >=? sid)%Z) (ss_utcs s).

(* ---- exact window statistics (C02): samples as integers; the oracle compares the implementation's
        {mean, std, min, max} with these exact sums under the tolerance the property states ---- *)
Definition z_min_list (l : list Z) : Z := match l with [] => 0%Z | x :: r => fold_left Z.min r x end.
Definition z_max_list (l : list Z) : Z := match l with [] => 0%Z | x :: r => fold_left Z.max r x end.
Definition win_stats (l : list Z) : Z * Z * Z * Z :=
  (fold_left Z.add l 0%Z, fold_left (fun a x => (a + x * x)%Z) l 0%Z, z_min_list l, z_max_list l).
(* consecutive windows of [incr] samples starting at [start] *)
Fixpoint windows {A} (count : nat) (incr : nat) (l : list A) : list (list A) :=
  match count with O => [] | S c => firstn incr l :: windows c incr (skipn incr l) end.
Definition stats_windows (vals : list Z) (start incr count : nat) : list (Z * Z * Z * Z) :=
  map win_stats (windows count incr (skipn start vals)).
