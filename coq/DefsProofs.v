(* C13 - proofs about DefsModel.v: byte codecs, writer/reader tables, refinement of Spec.wstep. *)
From Coq Require Import NArith ZArith List Bool Lia ZifyBool ZifyN ZifyNat.
From JLS Require Import Generated Spec DefsModel.
Import ListNotations.
Local Open Scope N_scope.
Ltac Zify.zify_post_hook ::= Z.div_mod_to_equations.

(* ================================================================== strings *)
Lemma nonul_cons : forall a l, df_nonul (a :: l) -> a <> 0 /\ df_nonul l.
Proof. intros a l H. split; [apply H; left; reflexivity | intros b Hb; apply H; right; exact Hb]. Qed.

Lemma cstr_nonul : forall l, df_nonul l -> df_cstr l = l.
Proof.
  induction l as [|a l IH]; intros H; [reflexivity|].
  apply nonul_cons in H. destruct H as [Ha Hl]. cbn [df_cstr].
  destruct (a =? 0) eqn:E; [lia|]. now rewrite IH.
Qed.

Lemma cstr_is_nonul : forall l, df_nonul (df_cstr l).
Proof.
  induction l as [|a l IH]; intros b Hb; [destruct Hb|].
  cbn [df_cstr] in Hb. destruct (a =? 0) eqn:E; [destruct Hb|].
  destruct Hb as [<-|Hb]; [lia | now apply IH].
Qed.

Lemma cstr_idem : forall l, df_cstr (df_cstr l) = df_cstr l.
Proof. intros l. apply cstr_nonul, cstr_is_nonul. Qed.

(* strlen stops at the first NUL: what follows never reaches the file *)
Lemma cstr_truncates : forall a b, df_nonul a -> df_cstr (a ++ 0 :: b) = a.
Proof.
  induction a as [|x a IH]; intros b H; [reflexivity|].
  apply nonul_cons in H. destruct H as [Hx Ha]. cbn [app df_cstr].
  destruct (x =? 0) eqn:E; [lia|]. now rewrite IH.
Qed.

Lemma enc_str_truncates : forall a b, df_nonul a -> df_enc_str (SBytes (a ++ 0 :: b)) = df_enc_str (SBytes a).
Proof. intros a b H. unfold df_enc_str. cbn [str_read]. now rewrite cstr_truncates, cstr_nonul. Qed.

Lemma rd_str_go_ok : forall l room r, df_nonul l -> N.of_nat (length l) < room ->
  df_rd_str_go room (l ++ 0 :: 31 :: r) = DfOk (l, r).
Proof.
  induction l as [|a l IH]; intros room r Hn Hroom.
  - cbn [app df_rd_str_go]. destruct (room =? 0) eqn:E; [cbn [length] in Hroom; lia|]. reflexivity.
  - apply nonul_cons in Hn. destruct Hn as [Ha Hl]. cbn [app df_rd_str_go].
    cbn [length] in Hroom.
    destruct (room =? 0) eqn:E; [lia|]. destruct (a =? 0) eqn:E2; [lia|].
    rewrite IH; [reflexivity | exact Hl | lia].
Qed.

Lemma rd_str_go_too_big : forall l room r, df_nonul l -> room <= N.of_nat (length l) ->
  df_rd_str_go room (l ++ 0 :: r) = DfErr JLS_ERROR_TOO_BIG.
Proof.
  induction l as [|a l IH]; intros room r Hn Hroom.
  - cbn [app df_rd_str_go]. cbn [length] in Hroom. destruct (room =? 0) eqn:E; [reflexivity|lia].
  - apply nonul_cons in Hn. destruct Hn as [Ha Hl]. cbn [app df_rd_str_go]. cbn [length] in Hroom.
    destruct (room =? 0) eqn:E; [reflexivity|]. destruct (a =? 0) eqn:E2; [lia|].
    rewrite IH; [reflexivity | exact Hl | lia].
Qed.

(* a terminator that is not followed by 0x1f is accepted as well; nothing is skipped *)
Lemma rd_str_go_no_sep : forall l room x r, df_nonul l -> N.of_nat (length l) < room -> x <> 31 ->
  df_rd_str_go room (l ++ 0 :: x :: r) = DfOk (l, x :: r).
Proof.
  induction l as [|a l IH]; intros room x r Hn Hroom Hx.
  - cbn [app df_rd_str_go]. destruct (room =? 0) eqn:E; [cbn [length] in Hroom; lia|].
    cbn. destruct (x =? 31) eqn:E2; [lia|reflexivity].
  - apply nonul_cons in Hn. destruct Hn as [Ha Hl]. cbn [app df_rd_str_go]. cbn [length] in Hroom.
    destruct (room =? 0) eqn:E; [lia|]. destruct (a =? 0) eqn:E2; [lia|].
    rewrite IH; [reflexivity | exact Hl | lia | exact Hx].
Qed.

(* the NUL is the last byte of the payload: nothing beyond it is looked at *)
Lemma rd_str_go_at_end : forall l room, df_nonul l -> N.of_nat (length l) < room ->
  df_rd_str_go room (l ++ [0]) = DfOk (l, []).
Proof.
  induction l as [|a l IH]; intros room Hn Hroom.
  - cbn [app df_rd_str_go]. destruct (room =? 0) eqn:E; [cbn [length] in Hroom; lia|]. reflexivity.
  - apply nonul_cons in Hn. destruct Hn as [Ha Hl]. cbn [app df_rd_str_go]. cbn [length] in Hroom.
    destruct (room =? 0) eqn:E; [lia|]. destruct (a =? 0) eqn:E2; [lia|].
    rewrite IH; [reflexivity | exact Hl | lia].
Qed.

(* no NUL at all: EMPTY or TOO_BIG *)
Lemma rd_str_go_no_nul : forall l room, df_nonul l ->
  df_rd_str_go room l = DfErr (if N.of_nat (length l) <=? room then JLS_ERROR_EMPTY else JLS_ERROR_TOO_BIG).
Proof.
  induction l as [|a l IH]; intros room Hn.
  - cbn [df_rd_str_go length]. destruct (N.of_nat 0 <=? room) eqn:E; [reflexivity|lia].
  - apply nonul_cons in Hn. destruct Hn as [Ha Hl]. cbn [df_rd_str_go length].
    destruct (room =? 0) eqn:E.
    + destruct (N.of_nat (S (length l)) <=? room) eqn:E3; [lia|reflexivity].
    + destruct (a =? 0) eqn:E2; [lia|]. rewrite IH by exact Hl.
      destruct (N.of_nat (length l) <=? room - 1) eqn:E3; destruct (N.of_nat (S (length l)) <=? room) eqn:E4;
        try reflexivity; lia.
Qed.

Lemma str_fits_iff : forall l, df_str_fitsb l = true <-> df_str_fits l.
Proof. intros l. unfold df_str_fitsb, df_str_fits. apply N.leb_le. Qed.

Lemma rd_str_enc : forall s rest, df_str_fits (df_cstr (str_read s)) ->
  df_rd_str (df_enc_str s ++ rest) = DfOk (df_cstr (str_read s), rest).
Proof.
  intros s rest Hf. unfold df_rd_str, df_enc_str. rewrite <- app_assoc. cbn [app].
  apply rd_str_go_ok; [apply cstr_is_nonul|]. unfold df_str_fits in Hf. lia.
Qed.

Lemma rd_str_enc_nil : forall s, df_str_fits (df_cstr (str_read s)) ->
  df_rd_str (df_enc_str s) = DfOk (df_cstr (str_read s), []).
Proof. intros s Hf. rewrite <- (app_nil_r (df_enc_str s)). now apply rd_str_enc. Qed.

Lemma rd_str_enc_too_big : forall s rest, ~ df_str_fits (df_cstr (str_read s)) ->
  df_rd_str (df_enc_str s ++ rest) = DfErr JLS_ERROR_TOO_BIG.
Proof.
  intros s rest Hf. unfold df_rd_str, df_enc_str. rewrite <- app_assoc. cbn [app].
  apply rd_str_go_too_big; [apply cstr_is_nonul|]. unfold df_str_fits in Hf. lia.
Qed.

(* ---- property 1 ---- *)
Theorem str_roundtrip : forall s rest, df_nonul (str_read s) -> df_str_fits (str_read s) ->
  df_dec_str (df_enc_str s ++ rest) = Some (str_read s, rest).
Proof.
  intros s rest Hn Hf. unfold df_dec_str. rewrite rd_str_enc; rewrite cstr_nonul by exact Hn; auto.
Qed.

(* all byte lists: what comes back is the C string (bytes before the first NUL); 0x1f bytes inside
   the string, also directly before the terminator, are ordinary bytes *)
Theorem str_roundtrip_any : forall s rest, df_str_fits (df_cstr (str_read s)) ->
  df_dec_str (df_enc_str s ++ rest) = Some (df_cstr (str_read s), rest).
Proof. intros s rest Hf. unfold df_dec_str. now rewrite rd_str_enc. Qed.

Theorem str_too_big_rejected : forall s rest, ~ df_str_fits (df_cstr (str_read s)) ->
  df_dec_str (df_enc_str s ++ rest) = None /\ df_save_ok (SBytes (str_read s)) = false.
Proof.
  intros s rest Hf. split.
  - unfold df_dec_str. now rewrite rd_str_enc_too_big.
  - cbn [df_save_ok]. destruct (df_str_fitsb (df_cstr (str_read s))) eqn:E; [|reflexivity].
    apply str_fits_iff in E. contradiction.
Qed.

(* ================================================================== fixed-size fields *)
Lemma rd_u8_enc : forall v r, v < 256 -> df_rd_u8 (df_u8 v ++ r) = DfOk (v, r).
Proof. intros v r H. unfold df_u8. cbn [app df_rd_u8]. do 2 f_equal. lia. Qed.

Lemma rd_u16_enc : forall v r, v < 65536 -> df_rd_u16 (df_u16 v ++ r) = DfOk (v, r).
Proof. intros v r H. unfold df_u16. cbn [app df_rd_u16]. do 2 f_equal. lia. Qed.

Lemma rd_u32_enc : forall v r, v < 4294967296 -> df_rd_u32 (df_u32 v ++ r) = DfOk (v, r).
Proof. intros v r H. unfold df_u32. cbn [app df_rd_u32]. do 2 f_equal. lia. Qed.

Lemma skipn_repeat : forall n r, df_skipn n (repeat 0 n ++ r) = Some r.
Proof. induction n as [|n IH]; intros r; [reflexivity|]. cbn [repeat app df_skipn]. apply IH. Qed.

Lemma rd_skip_zero : forall n r, df_rd_skip n (repeat 0 n ++ r) = DfOk r.
Proof. intros n r. unfold df_rd_skip. now rewrite skipn_repeat. Qed.

(* ================================================================== definition payloads *)
Theorem source_def_roundtrip : forall d, df_src_fits d ->
  df_dec_source_def (so_id d) (df_enc_source_def d) = DfOk (df_src_read d).
Proof.
  intros d (H1 & H2 & H3 & H4 & H5). unfold df_dec_source_def, df_enc_source_def.
  rewrite rd_skip_zero. cbn [df_bind].
  rewrite rd_str_enc by exact H1. cbn [df_bind].
  rewrite rd_str_enc by exact H2. cbn [df_bind].
  rewrite rd_str_enc by exact H3. cbn [df_bind].
  rewrite rd_str_enc by exact H4. cbn [df_bind].
  rewrite rd_str_enc_nil by exact H5. cbn [df_bind].
  reflexivity.
Qed.

Theorem signal_def_roundtrip : forall d, df_sig_ranges d -> df_sig_fits d ->
  df_dec_signal_def (sg_id d) (df_enc_signal_def d) = DfOk (df_sig_read d).
Proof.
  intros d (R1 & R2 & R3 & R4 & R5 & R6 & R7 & R8 & R9 & R10) (F1 & F2).
  unfold df_dec_signal_def, df_enc_signal_def.
  rewrite rd_u16_enc by exact R1. cbn [df_bind].
  rewrite rd_u8_enc by exact R2. cbn [df_bind].
  change (df_u8 0) with (repeat 0 1). rewrite rd_skip_zero. cbn [df_bind].
  rewrite rd_u32_enc by exact R3. cbn [df_bind].
  rewrite rd_u32_enc by exact R4. cbn [df_bind].
  rewrite rd_u32_enc by exact R5. cbn [df_bind].
  rewrite rd_u32_enc by exact R6. cbn [df_bind].
  rewrite rd_u32_enc by exact R7. cbn [df_bind].
  rewrite rd_u32_enc by exact R8. cbn [df_bind].
  rewrite rd_u32_enc by exact R9. cbn [df_bind].
  rewrite rd_u32_enc by exact R10. cbn [df_bind].
  rewrite rd_skip_zero. cbn [df_bind].
  rewrite rd_str_enc by exact F1. cbn [df_bind].
  rewrite rd_str_enc_nil by exact F2. cbn [df_bind].
  reflexivity.
Qed.

(* ================================================================== sorting / enumeration *)
Fixpoint incr (l : list N) : Prop :=
  match l with [] => True | x :: r => (forall y, In y r -> x < y) /\ incr r end.

Lemma ids_in : forall i, In i df_ids <-> i < 256.
Proof.
  intros i. unfold df_ids. rewrite in_map_iff. split.
  - intros (n & <- & Hn). apply in_seq in Hn. lia.
  - intros H. exists (N.to_nat i). split; [apply N2Nat.id|]. apply in_seq. lia.
Qed.

Lemma seq_incr : forall n a, incr (map N.of_nat (seq a n)).
Proof.
  induction n as [|n IH]; intros a; [exact I|]. cbn [seq map incr]. split; [|apply IH].
  intros y Hy. apply in_map_iff in Hy. destruct Hy as (m & <- & Hm). apply in_seq in Hm. lia.
Qed.

Lemma ids_incr : incr df_ids.
Proof. apply seq_incr. Qed.

Section Sorting.
Context {A : Type} (key : A -> N).

Fixpoint ssorted (l : list A) : Prop :=
  match l with [] => True | x :: r => (forall y, In y r -> key x < key y) /\ ssorted r end.

Lemma insert_in : forall x l y, In y (insert_by key x l) <-> y = x \/ In y l.
Proof.
  induction l as [|a l IH]; intros y; cbn [insert_by].
  - cbn [In]. intuition.
  - destruct (key x <=? key a); cbn [In]; [|rewrite IH]; intuition.
Qed.

Lemma sort_in : forall l y, In y (sort_by key l) <-> In y l.
Proof.
  induction l as [|a l IH]; intros y; [reflexivity|].
  unfold sort_by. cbn [fold_right]. fold (sort_by key l). rewrite insert_in, IH. cbn [In]. intuition.
Qed.

Lemma insert_ssorted : forall x l, ssorted l -> (forall y, In y l -> key y <> key x) -> ssorted (insert_by key x l).
Proof.
  induction l as [|a l IH]; intros Hs Hne; cbn [insert_by].
  - split; [intros y []|exact I].
  - destruct (key x <=? key a) eqn:E.
    + split; [|exact Hs]. intros y [<-|Hy].
      * specialize (Hne a (or_introl eq_refl)). lia.
      * destruct Hs as [H1 _]. specialize (H1 y Hy). lia.
    + destruct Hs as [H1 H2]. split.
      * intros y Hy. apply insert_in in Hy. destruct Hy as [->|Hy]; [lia|now apply H1].
      * apply IH; [exact H2|]. intros y Hy. apply Hne. now right.
Qed.

Lemma sort_ssorted : forall l, NoDup (map key l) -> ssorted (sort_by key l).
Proof.
  induction l as [|a l IH]; intros Hnd; [exact I|].
  cbn [map] in Hnd. inversion Hnd as [|k r Hnin Hnd']; subst.
  unfold sort_by. cbn [fold_right]. fold (sort_by key l).
  apply insert_ssorted; [now apply IH|].
  intros y Hy Heq. apply (proj1 (sort_in _ _)) in Hy. apply Hnin. rewrite <- Heq. now apply in_map.
Qed.

Lemma ssorted_ext : forall l1 l2, ssorted l1 -> ssorted l2 -> (forall x, In x l1 <-> In x l2) -> l1 = l2.
Proof.
  induction l1 as [|a l1 IH]; intros [|b l2] S1 S2 H.
  - reflexivity.
  - destruct (proj2 (H b) (or_introl eq_refl)).
  - destruct (proj1 (H a) (or_introl eq_refl)).
  - destruct S1 as [A1 A2]. destruct S2 as [B1 B2].
    assert (Hab : a = b).
    { destruct (proj1 (H a) (or_introl eq_refl)) as [E|Ha]; [now symmetry|].
      destruct (proj2 (H b) (or_introl eq_refl)) as [E|Hb]; [exact E|].
      specialize (B1 a Ha). specialize (A1 b Hb). lia. }
    subst b. f_equal. apply IH; [exact A2|exact B2|].
    intros x; split; intros Hx.
    + destruct (proj1 (H x) (or_intror Hx)) as [E|Hx2]; [|exact Hx2]. subst x. specialize (A1 a Hx). lia.
    + destruct (proj2 (H x) (or_intror Hx)) as [E|Hx2]; [|exact Hx2]. subst x. specialize (B1 a Hx). lia.
Qed.

Lemma find_nodup : forall l x, NoDup (map key l) -> In x l -> find (fun d => key d =? key x) l = Some x.
Proof.
  induction l as [|a l IH]; intros x Hnd Hx; [destruct Hx|].
  cbn [map] in Hnd. inversion Hnd as [|k r Hnin Hnd']; subst. cbn [find].
  destruct Hx as [<-|Hx].
  - now rewrite N.eqb_refl.
  - destruct (key a =? key x) eqn:E.
    + exfalso. apply Hnin. apply N.eqb_eq in E. rewrite E. now apply in_map.
    + now apply IH.
Qed.

Lemma nodup_key_inj : forall l x y, NoDup (map key l) -> In x l -> In y l -> key x = key y -> x = y.
Proof.
  intros l x y Hnd Hx Hy E.
  pose proof (find_nodup l x Hnd Hx) as F1. pose proof (find_nodup l y Hnd Hy) as F2.
  rewrite E in F1. congruence.
Qed.

Lemma in_enum : forall (f : N -> option A) ids x,
  In x (flat_map (fun i => df_opt_list (f i)) ids) <-> exists i, In i ids /\ f i = Some x.
Proof.
  intros f ids x. rewrite in_flat_map. split; intros (i & Hi & H); exists i; (split; [exact Hi|]).
  - destruct (f i); cbn [df_opt_list In] in H; [destruct H as [<-|[]]; reflexivity | destruct H].
  - rewrite H. now left.
Qed.

Lemma enum_ssorted : forall (f : N -> option A) ids, (forall i x, f i = Some x -> key x = i) ->
  incr ids -> ssorted (flat_map (fun i => df_opt_list (f i)) ids).
Proof.
  intros f ids Hf. induction ids as [|a ids IH]; intros Hi; [exact I|].
  destruct Hi as [H1 H2]. cbn [flat_map]. destruct (f a) as [x|] eqn:E; cbn [df_opt_list app]; [|now apply IH].
  split; [|now apply IH]. intros y Hy. apply in_enum in Hy. destruct Hy as (i & Hi & Hfi).
  apply Hf in E. apply Hf in Hfi. specialize (H1 i Hi). lia.
Qed.

Theorem enum_sort : forall l, NoDup (map key l) -> (forall x, In x l -> key x < 256) ->
  flat_map (fun i => df_opt_list (find (fun d => key d =? i) l)) df_ids = sort_by key l.
Proof.
  intros l Hnd Hlt. apply ssorted_ext.
  - apply enum_ssorted; [|apply ids_incr]. intros i x Hf. apply find_some in Hf. destruct Hf as [_ Hf].
    now apply N.eqb_eq in Hf.
  - now apply sort_ssorted.
  - intros x. rewrite in_enum, sort_in. split.
    + intros (i & _ & Hf). apply find_some in Hf. tauto.
    + intros Hx. exists (key x). split; [apply ids_in; now apply Hlt | now apply find_nodup].
Qed.

(* an element with key 0 sorts to the front *)
Lemma insert_zero : forall x l, key x = 0 -> insert_by key x l = x :: l.
Proof. intros x [|a l] H; cbn [insert_by]; [reflexivity|]. rewrite H. destruct (0 <=? key a) eqn:E; [reflexivity|lia]. Qed.
End Sorting.

Lemma flat_map_opt_map : forall {A B} (g : A -> B) (f : N -> option A) ids,
  flat_map (fun i => df_opt_list (option_map g (f i))) ids = map g (flat_map (fun i => df_opt_list (f i)) ids).
Proof.
  intros A B g f ids. induction ids as [|a ids IH]; [reflexivity|]. cbn [flat_map]. rewrite map_app, IH.
  destruct (f a); reflexivity.
Qed.

Lemma insert_map : forall {A B} (f : A -> B) (k : B -> N) x l,
  map f (insert_by (fun a => k (f a)) x l) = insert_by k (f x) (map f l).
Proof.
  intros A B f k x l. induction l as [|a l IH]; [reflexivity|]. cbn [insert_by map].
  destruct (k (f x) <=? k (f a)); cbn [map]; [reflexivity|now rewrite IH].
Qed.

Lemma sort_map : forall {A B} (f : A -> B) (k : B -> N) l,
  map f (sort_by (fun a => k (f a)) l) = sort_by k (map f l).
Proof.
  intros A B f k l. induction l as [|a l IH]; [reflexivity|]. unfold sort_by. cbn [fold_right map].
  fold (sort_by (fun a => k (f a)) l). fold (sort_by k (map f l)). now rewrite insert_map, IH.
Qed.

Lemma find_map : forall {A B} (f : A -> B) (p : B -> bool) l,
  find p (map f l) = option_map f (find (fun x => p (f x)) l).
Proof.
  intros A B f p l. induction l as [|a l IH]; [reflexivity|]. cbn [map find]. destruct (p (f a)); [reflexivity|exact IH].
Qed.

Lemma find_app1 : forall {A} (p : A -> bool) l x,
  find p (l ++ [x]) = match find p l with Some y => Some y | None => if p x then Some x else None end.
Proof.
  intros A p l x. induction l as [|a l IH]; [reflexivity|]. cbn [app find]. destruct (p a); [reflexivity|exact IH].
Qed.

Lemma nodup_snoc : forall {A} (l : list A) x, NoDup (l ++ [x]) <-> NoDup l /\ ~ In x l.
Proof.
  intros A l x. pose proof (Add_app x l []) as H. rewrite app_nil_r in H. apply (NoDup_Add H).
Qed.

(* ================================================================== refinement of Spec.wstep *)
Definition sdefs (c : content) : list sigdef := map ss_def (c_signals c).
Definition find_so (srcs : list srcdef) (id : N) := find (fun s => so_id s =? id) srcs.
Definition find_sd (sds : list sigdef) (id : N) := find (fun d => sg_id d =? id) sds.

Lemma find_sig_sd : forall c id, option_map ss_def (find_sig c id) = find_sd (sdefs c) id.
Proof. intros c id. unfold find_sd, sdefs, find_sig. now rewrite find_map. Qed.

Definition src_entry (d : srcdef) := (so_id d, df_enc_source_def d).
Definition sig_entry (d : sigdef) := (sg_id d, df_enc_signal_def d).
Definition ud_entry (u : udata) := (ud_meta u + 4096 * ud_stype u, ud_data u).

Definition Rel (w : df_wr) (srcs : list srcdef) (sds : list sigdef) (uds : list udata) : Prop :=
  (forall id, df_is_defd (dfw_src w id) = match find_so srcs id with Some _ => true | None => false end) /\
  (forall id, match dfw_sig w id with DfDefd d => find_sd sds id = Some d | _ => find_sd sds id = None end) /\
  df_log_src (dfw_log w) = map src_entry srcs /\
  df_log_sig (dfw_log w) = map sig_entry sds /\
  (exists r, df_log_ud (dfw_log w) = (0, []) :: r /\ df_ud_walk r = (uds, 0)).

Definition CInv (srcs : list srcdef) (sds : list sigdef) (uds : list udata) : Prop :=
  NoDup (map so_id srcs) /\
  (forall d, In d srcs -> so_id d < 256 /\ df_src_fits d) /\
  find_so srcs 0 = Some source0 /\
  NoDup (map sg_id sds) /\
  (forall d, In d sds -> sg_id d < 256 /\ df_validate d = true /\ df_sig_ranges d /\ df_sig_fits d) /\
  find_sd sds 0 = Some signal0 /\
  (forall u, In u uds -> ud_meta u < 4096 /\ 1 <= ud_stype u <= 3).

Definition R (w : df_wr) (c : content) : Prop :=
  Rel w (c_sources c) (sdefs c) (c_udata c) /\ CInv (c_sources c) (sdefs c) (c_udata c).

Lemma log_src_app : forall a b, df_log_src (a ++ b) = df_log_src a ++ df_log_src b.
Proof. induction a as [|e a IH]; intros b; [reflexivity|]. destruct e; cbn [app df_log_src]; now rewrite IH. Qed.
Lemma log_sig_app : forall a b, df_log_sig (a ++ b) = df_log_sig a ++ df_log_sig b.
Proof. induction a as [|e a IH]; intros b; [reflexivity|]. destruct e; cbn [app df_log_sig]; now rewrite IH. Qed.
Lemma log_ud_app : forall a b, df_log_ud (a ++ b) = df_log_ud a ++ df_log_ud b.
Proof. induction a as [|e a IH]; intros b; [reflexivity|]. destruct e; cbn [app df_log_ud]; now rewrite IH. Qed.

Lemma track_entries_proj : forall id ty,
  df_log_src (df_track_entries id ty) = [] /\ df_log_sig (df_track_entries id ty) = [] /\ df_log_ud (df_track_entries id ty) = [].
Proof. intros id ty. unfold df_track_entries, df_tracks. destruct (ty =? JLS_SIGNAL_TYPE_FSR); repeat split; reflexivity. Qed.

Lemma save_ok_fits : forall s, df_str_fits (df_cstr (str_read s)) -> df_save_ok s = true.
Proof. intros [|l] H; [reflexivity|]. cbn [df_save_ok]. now apply str_fits_iff. Qed.

Lemma accepted_rc : forall rc, df_accepted (DfRc rc) = (rc =? 0).
Proof. intros [|p]; reflexivity. Qed.

Lemma upd_same : forall {A} (m : N -> A) k v, df_upd m k v k = v.
Proof. intros A m k v. unfold df_upd. now rewrite N.eqb_refl. Qed.
Lemma upd_other : forall {A} (m : N -> A) k v i, i <> k -> df_upd m k v i = m i.
Proof. intros A m k v i H. unfold df_upd. destruct (i =? k) eqn:E; [lia|reflexivity]. Qed.

Ltac split5 := split; [|split; [|split; [|split]]].
Ltac split7 := split; [|split; [|split; [|split; [|split; [|split]]]]].

(* ---- WSrc ---- *)
Lemma spec_fits_save : forall s, df_nonul (str_read s) -> str_fits s = df_save_ok s.
Proof.
  intros [|l] H; [reflexivity|]. cbn [str_read] in H. unfold str_fits, df_save_ok, df_str_fitsb. cbn [str_read].
  rewrite (cstr_nonul l H). change JLS_BUF_STRING_SIZE with 1048576.
  destruct (N.of_nat (length l) + 2 <=? 1048576) eqn:E1; destruct (N.of_nat (length l) + 1 <=? 1048576 - 1) eqn:E2;
    try reflexivity; lia.
Qed.

Lemma save_ok_fits_inv : forall s, df_save_ok s = true -> df_str_fits (df_cstr (str_read s)).
Proof. intros [|l] H; [unfold df_str_fits; vm_compute; intros Hle_; discriminate Hle_ | now apply str_fits_iff]. Qed.

Lemma andb_tail5 : forall a s1 s2 s3 s4 s5, a && s1 && s2 && s3 && s4 && s5 = a && (s1 && s2 && s3 && s4 && s5).
Proof. intros [|] s1 s2 s3 s4 s5; reflexivity. Qed.

Lemma R_scratch_src : forall w c id d, R w c -> df_is_defd (dfw_src w id) = false ->
  R (df_set_src w id (DfScratch d) (dfw_log w)) c.
Proof.
  intros w c id d [(Rs & Rg & Ls & Lg & Lu) HC] Hnd. split; [|exact HC].
  unfold Rel, df_set_src. cbn [dfw_src dfw_sig dfw_log]. split5; try assumption.
  intros i. destruct (N.eq_dec i id) as [->|Hne].
  - rewrite upd_same. rewrite <- Rs, Hnd. reflexivity.
  - rewrite upd_other by exact Hne. apply Rs.
Qed.

Lemma step_src : forall w c d, R w c -> df_src_nonul d ->
  R (fst (df_step w (DfSrc d))) (fst (wstep c (WSrc d))) /\
  df_accepted (snd (df_step w (DfSrc d))) = snd (wstep c (WSrc d)).
Proof.
  intros w c d HR (N1 & N2 & N3 & N4 & N5). pose proof HR as [(Rs & Rg & Ls & Lg & Lu) (C1 & C2 & C3 & C4 & C5 & C6 & C7)].
  cbn [df_step wstep]. unfold df_wr_source, find_src. change JLS_SOURCE_COUNT with 256.
  fold (find_so (c_sources c) (so_id d)).
  rewrite andb_tail5.
  rewrite (spec_fits_save _ N1), (spec_fits_save _ N2), (spec_fits_save _ N3), (spec_fits_save _ N4), (spec_fits_save _ N5).
  destruct (256 <=? so_id d) eqn:E1.
  - assert (E1' : (so_id d <? 256) = false) by lia. rewrite E1'. cbn [andb fst snd].
    split; [exact HR|reflexivity].
  - assert (E1' : (so_id d <? 256) = true) by lia. rewrite E1'. cbn [andb].
    pose proof (Rs (so_id d)) as Rsd. destruct (find_so (c_sources c) (so_id d)) as [d0|] eqn:F; rewrite Rsd.
    + cbn [andb fst snd]. split; [exact HR|reflexivity].
    + cbn [andb].
      destruct (df_save_ok (so_name d) && df_save_ok (so_vendor d) && df_save_ok (so_model d)
                && df_save_ok (so_version d) && df_save_ok (so_serial d)) eqn:SO;
        [|cbn [fst snd]; split; [now apply R_scratch_src|reflexivity]].
      assert (Hf : df_src_fits d).
      { apply andb_prop in SO. destruct SO as [SO S5]. apply andb_prop in SO. destruct SO as [SO S4].
        apply andb_prop in SO. destruct SO as [SO S3]. apply andb_prop in SO. destruct SO as [S1 S2].
        repeat split; now apply save_ok_fits_inv. }
      cbn [fst snd]. split; [|reflexivity].
      assert (Hnin : forall x, In x (c_sources c) -> so_id x <> so_id d).
      { intros x Hx E. pose proof (find_none _ _ F x Hx) as Hn. cbn beta in Hn. lia. }
      split.
      * (* Rel *)
        unfold Rel, df_set_src. cbn [dfw_src dfw_sig dfw_log c_sources c_signals c_udata sdefs].
        split5.
        -- intros id. unfold find_so. rewrite find_app1. fold (find_so (c_sources c) id).
           destruct (N.eq_dec id (so_id d)) as [->|Hne].
           ++ rewrite upd_same, F, N.eqb_refl. reflexivity.
           ++ rewrite upd_other by exact Hne. rewrite Rs.
              destruct (find_so (c_sources c) id); [reflexivity|].
              destruct (so_id d =? id) eqn:E; [lia|reflexivity].
        -- exact Rg.
        -- rewrite log_src_app, map_app, Ls. reflexivity.
        -- rewrite log_sig_app, Lg. cbn [df_log_sig]. now rewrite app_nil_r.
        -- rewrite log_ud_app. cbn [df_log_ud]. rewrite app_nil_r. exact Lu.
      * (* CInv *)
        unfold CInv. cbn [c_sources c_signals c_udata sdefs]. split7; try assumption.
        -- rewrite map_app. cbn [map]. apply nodup_snoc. split; [exact C1|].
           intros Hin. apply in_map_iff in Hin. destruct Hin as (x & Hx1 & Hx2). now apply (Hnin x Hx2).
        -- intros x Hx. apply in_app_or in Hx. destruct Hx as [Hx|[<-|[]]]; [now apply C2|].
           split; [lia|exact Hf].
        -- unfold find_so. rewrite find_app1. fold (find_so (c_sources c) 0). now rewrite C3.
Qed.

(* ---- WSig ---- *)
Lemma validate_align : forall d, df_validate (sp_align d) = df_validate d.
Proof. reflexivity. Qed.
Lemma align_id : forall d, sg_id (sp_align d) = sg_id d.
Proof. reflexivity. Qed.
Lemma align_fits : forall d, df_sig_fits (sp_align d) <-> df_sig_fits d.
Proof. intros d. unfold df_sig_fits. reflexivity. Qed.

Lemma sig_defd_iff : forall w c id, R w c ->
  df_is_defd (dfw_sig w id) = match find_sig c id with Some _ => true | None => false end.
Proof.
  intros w c id [(_ & Rg & _) _]. pose proof (find_sig_sd c id) as H. specialize (Rg id).
  destruct (dfw_sig w id); destruct (find_sig c id); cbn [option_map df_is_defd] in *; congruence.
Qed.

Lemma R_scratch : forall w c id d, R w c -> df_is_defd (dfw_sig w id) = false ->
  R (df_set_sig w id (DfScratch d) (dfw_log w)) c.
Proof.
  intros w c id d [(Rs & Rg & Ls & Lg & Lu) HC] Hnd. split; [|exact HC].
  unfold Rel, df_set_sig. cbn [dfw_src dfw_sig dfw_log]. split5; try assumption.
  intros i. destruct (N.eq_dec i id) as [->|Hne].
  - rewrite upd_same. specialize (Rg id). destruct (dfw_sig w id); [exact Rg|exact Rg|discriminate].
  - rewrite upd_other by exact Hne. apply Rg.
Qed.

Lemma step_sig : forall w c d, R w c -> df_nonul (str_read (sg_name d)) -> df_nonul (str_read (sg_units d)) ->
  df_sig_ranges (sp_align d) -> df_align_ok d = true ->
  R (fst (df_step w (DfSig d))) (fst (wstep c (WSig d))) /\
  df_accepted (snd (df_step w (DfSig d))) = snd (wstep c (WSig d)).
Proof.
  intros w c d HR Nn Nu Hr Hao. pose proof HR as [(Rs & Rg & Ls & Lg & Lu) (C1 & C2 & C3 & C4 & C5 & C6 & C7)].
  cbn [df_step wstep]. unfold df_wr_signal, find_src.
  change JLS_SIGNAL_COUNT with 256. change JLS_SOURCE_COUNT with 256.
  fold (find_so (c_sources c) (sg_src d)).
  rewrite <- (andb_assoc _ (str_fits (sg_name d)) (str_fits (sg_units d))).
  rewrite (spec_fits_save _ Nn), (spec_fits_save _ Nu).
  destruct (df_save_ok (sg_name d) && df_save_ok (sg_units d)) eqn:SO.
  2: { (* a string does not fit: the specification rejects; so does the writer, at one of its checks *)
    rewrite andb_false_r. cbn [fst snd negb].
    destruct (256 <=? sg_id d); [split; [exact HR|reflexivity]|].
    destruct (256 <=? sg_src d); [split; [exact HR|reflexivity]|].
    destruct (negb (df_is_defd (dfw_src w (sg_src d)))); [split; [exact HR|reflexivity]|].
    destruct (df_is_defd (dfw_sig w (sg_id d))) eqn:Hnd; [split; [exact HR|reflexivity]|].
    destruct (negb ((sg_type d =? JLS_SIGNAL_TYPE_FSR) || (sg_type d =? JLS_SIGNAL_TYPE_VSR))); [split; [exact HR|reflexivity]|].
    cbn [fst snd]. split; [now apply R_scratch|reflexivity]. }
  rewrite andb_true_r. cbn [negb].
  assert (Hf : df_sig_fits d).
  { apply andb_prop in SO. destruct SO as [S1 S2]. split; now apply save_ok_fits_inv. }
  destruct (256 <=? sg_id d) eqn:E1.
  { assert (E1' : (sg_id d <? 256) = false) by lia. rewrite E1'. cbn [andb fst snd]. split; [exact HR|reflexivity]. }
  assert (E1' : (sg_id d <? 256) = true) by lia. rewrite E1'.
  destruct (256 <=? sg_src d) eqn:E2.
  { assert (E2' : (sg_src d <? 256) = false) by lia. rewrite E2'. cbn [andb fst snd]. split; [exact HR|reflexivity]. }
  assert (E2' : (sg_src d <? 256) = true) by lia. rewrite E2'.
  rewrite Rs. destruct (find_so (c_sources c) (sg_src d)) as [s0|] eqn:F; cbn [negb andb];
    [|cbn [fst snd]; split; [exact HR|reflexivity]].
  rewrite (sig_defd_iff w c (sg_id d) HR).
  destruct (find_sig c (sg_id d)) as [g0|] eqn:G; cbn [andb]; [cbn [fst snd]; split; [exact HR|reflexivity]|].
  assert (Hnd : df_is_defd (dfw_sig w (sg_id d)) = false) by (rewrite (sig_defd_iff w c (sg_id d) HR), G; reflexivity).
  destruct ((sg_type d =? JLS_SIGNAL_TYPE_FSR) || (sg_type d =? JLS_SIGNAL_TYPE_VSR)) eqn:T; cbn [negb andb];
    [|cbn [fst snd]; split; [exact HR|reflexivity]].
  pose proof Hf as (F1 & F2).
  unfold df_validate. change JLS_SIGNAL_COUNT with 256. change JLS_SOURCE_COUNT with 256. rewrite E1', E2', T. cbn [andb].
  destruct (dt_valid (sg_dtype d)) eqn:V; cbn [negb andb];
    [|cbn [fst snd]; split; [now apply R_scratch|reflexivity]].
  rewrite Hao. cbn [negb].
  destruct ((sg_type d =? JLS_SIGNAL_TYPE_FSR) && (sg_rate d =? 0)) eqn:RT.
  { assert (RT' : (sg_type d =? JLS_SIGNAL_TYPE_VSR) || negb (sg_rate d =? 0) = false)
      by (unfold JLS_SIGNAL_TYPE_FSR, JLS_SIGNAL_TYPE_VSR in *; lia).
    rewrite RT'. cbn [fst snd]. split; [now apply R_scratch|reflexivity]. }
  assert (RT' : (sg_type d =? JLS_SIGNAL_TYPE_VSR) || negb (sg_rate d =? 0) = true)
    by (unfold JLS_SIGNAL_TYPE_FSR, JLS_SIGNAL_TYPE_VSR in *; lia).
  rewrite RT'. cbn [fst snd]. split; [|reflexivity].
  assert (Gd : find_sd (sdefs c) (sg_id d) = None).
  { rewrite <- find_sig_sd, G. reflexivity. }
  assert (Hnin : forall x, In x (sdefs c) -> sg_id x <> sg_id d).
  { intros x Hx E. pose proof (find_none _ _ Gd x Hx) as Hn. cbn beta in Hn. lia. }
  set (d' := sp_align d) in *.
  assert (Hsd : map ss_def (c_signals c ++ [new_sig d']) = sdefs c ++ [d']).
  { rewrite map_app. reflexivity. }
  split.
  - unfold Rel, df_set_sig, sdefs. cbn [dfw_src dfw_sig dfw_log c_sources c_signals c_udata]. rewrite Hsd.
    destruct (track_entries_proj (sg_id d) (sg_type d)) as (T1 & T2 & T3).
    split5.
    + exact Rs.
    + intros i. unfold find_sd. rewrite find_app1. fold (find_sd (sdefs c) i).
      destruct (N.eq_dec i (sg_id d)) as [->|Hne].
      * rewrite upd_same, Gd. change (sg_id d') with (sg_id d). now rewrite N.eqb_refl.
      * rewrite upd_other by exact Hne. specialize (Rg i). change (sg_id d') with (sg_id d).
        destruct (dfw_sig w i); rewrite Rg; try reflexivity; destruct (sg_id d =? i) eqn:E; try reflexivity; lia.
    + rewrite log_src_app, Ls. cbn [df_log_src]. rewrite T1. now rewrite app_nil_r.
    + rewrite log_sig_app, map_app, Lg. cbn [df_log_sig map]. rewrite T2. reflexivity.
    + rewrite log_ud_app. cbn [df_log_ud]. rewrite T3, app_nil_r. exact Lu.
  - unfold CInv, sdefs. cbn [c_sources c_signals c_udata]. rewrite Hsd. split7; try assumption.
    + rewrite map_app. cbn [map]. apply nodup_snoc. split; [exact C4|].
      intros Hin. apply in_map_iff in Hin. destruct Hin as (x & Hx1 & Hx2). apply (Hnin x Hx2). exact Hx1.
    + intros x Hx. apply in_app_or in Hx. destruct Hx as [Hx|[<-|[]]]; [now apply C5|].
      split; [change (sg_id d') with (sg_id d); lia|]. split; [|split; [exact Hr|exact Hf]].
      unfold d'. rewrite validate_align. unfold df_validate.
      change JLS_SIGNAL_COUNT with 256. change JLS_SOURCE_COUNT with 256. rewrite E1', E2', T, V. reflexivity.
    + unfold find_sd. rewrite find_app1. fold (find_sd (sdefs c) 0). now rewrite C6.
Qed.

(* ---- WUd ---- *)
Lemma land_4095 : forall m, N.land m 4095 = m mod 4096.
Proof. intros m. change 4095 with (N.ones 12). now rewrite N.land_ones. Qed.

Lemma ud_bits : forall m st, m < 4096 -> st <= 3 ->
  N.land (N.shiftr (m + 4096 * st) 12) 15 = st /\ N.land (m + 4096 * st) 4095 = m.
Proof.
  intros m st Hm Hs. split.
  - rewrite N.shiftr_div_pow2. change (2 ^ 12) with 4096. change 15 with (N.ones 4). rewrite N.land_ones.
    change (2 ^ 4) with 16. lia.
  - rewrite land_4095. lia.
Qed.

Lemma ud_walk_app : forall l e items, df_ud_walk l = (items, 0) ->
  df_ud_walk (l ++ [e]) = (items ++ fst (df_ud_walk [e]), snd (df_ud_walk [e])).
Proof.
  induction l as [|[m pl] l IH]; intros e items H.
  - cbn [df_ud_walk] in H. injection H as <-. cbn [app]. now destruct (df_ud_walk [e]).
  - cbn [app]. cbn [df_ud_walk] in H |- *.
    destruct (N.land (N.shiftr m 12) 15 =? 0); [now apply IH|].
    destruct ((1 <=? N.land (N.shiftr m 12) 15) && (N.land (N.shiftr m 12) 15 <=? 3)); [|discriminate H].
    destruct (df_ud_walk l) as [it rc] eqn:W. injection H as <- ->.
    rewrite (IH e it eq_refl). reflexivity.
Qed.

(* an item (storage type 1..3) *)
Lemma R_put : forall w c meta st pl, R w c -> 1 <= st <= 3 ->
  R {| dfw_src := dfw_src w; dfw_sig := dfw_sig w;
       dfw_log := dfw_log w ++ [DfLUd (N.land meta 4095 + 4096 * st) pl]; dfw_data := dfw_data w |}
    {| c_sources := c_sources c; c_signals := c_signals c;
       c_udata := c_udata c ++ [{| ud_meta := N.land meta 4095; ud_stype := st; ud_data := pl |}] |}.
Proof.
  intros w c meta st pl [(Rs & Rg & Ls & Lg & (r & Lu & Wk)) (C1 & C2 & C3 & C4 & C5 & C6 & C7)] Hst.
  assert (Hm : N.land meta 4095 < 4096) by (rewrite land_4095; apply N.mod_lt; lia).
  split.
  - unfold Rel, sdefs. cbn [dfw_src dfw_sig dfw_log c_sources c_signals c_udata]. split5; try assumption.
    + rewrite log_src_app, Ls. cbn [df_log_src]. now rewrite app_nil_r.
    + rewrite log_sig_app, Lg. cbn [df_log_sig]. now rewrite app_nil_r.
    + exists (r ++ [(N.land meta 4095 + 4096 * st, pl)]). split; [rewrite log_ud_app, Lu; reflexivity|].
      rewrite (ud_walk_app r _ _ Wk). cbn [df_ud_walk].
      destruct (ud_bits (N.land meta 4095) st Hm (proj2 Hst)) as [E1 E2]. rewrite E1, E2.
      destruct (st =? 0) eqn:E0; [lia|]. destruct ((1 <=? st) && (st <=? 3)) eqn:E3; [|lia]. reflexivity.
  - unfold CInv, sdefs. cbn [c_sources c_signals c_udata]. split7; try assumption.
    intros x Hx. apply in_app_or in Hx. destruct Hx as [Hx|[<-|[]]]; [now apply C7|].
    cbn [ud_meta ud_stype]. split; [exact Hm|exact Hst].
Qed.

(* a placeholder (storage type INVALID): a chunk in the log, nothing in the content *)
Lemma R_put0 : forall w c meta, R w c ->
  R {| dfw_src := dfw_src w; dfw_sig := dfw_sig w;
       dfw_log := dfw_log w ++ [DfLUd (N.land meta 4095 + 4096 * 0) []]; dfw_data := dfw_data w |} c.
Proof.
  intros w c meta [(Rs & Rg & Ls & Lg & (r & Lu & Wk)) HC].
  assert (Hm : N.land meta 4095 < 4096) by (rewrite land_4095; apply N.mod_lt; lia).
  split; [|exact HC].
  unfold Rel. cbn [dfw_src dfw_sig dfw_log]. split5; try assumption.
  - rewrite log_src_app, Ls. cbn [df_log_src]. now rewrite app_nil_r.
  - rewrite log_sig_app, Lg. cbn [df_log_sig]. now rewrite app_nil_r.
  - exists (r ++ [(N.land meta 4095 + 4096 * 0, [])]). split; [rewrite log_ud_app, Lu; reflexivity|].
    rewrite (ud_walk_app r _ _ Wk). cbn [df_ud_walk].
    assert (H0 : (0 : N) <= 3) by lia.
    destruct (ud_bits (N.land meta 4095) 0 Hm H0) as [E1 _]. rewrite E1. cbn [N.eqb fst snd].
    now rewrite app_nil_r.
Qed.

Lemma step_ud : forall w c u, R w c ->
  ((ud_stype u = JLS_STORAGE_TYPE_STRING \/ ud_stype u = JLS_STORAGE_TYPE_JSON) ->
   exists s, ud_data u = s ++ [0] /\ df_nonul s) ->
  R (fst (df_step w (df_op_of (WUd u)))) (fst (wstep c (WUd u))) /\
  df_accepted (snd (df_step w (df_op_of (WUd u)))) = snd (wstep c (WUd u)).
Proof.
  intros w c u HR Hg. cbn [df_op_of df_step wstep]. unfold df_wr_user_data, stype_ok_ud.
  unfold JLS_STORAGE_TYPE_INVALID, JLS_STORAGE_TYPE_BINARY, JLS_STORAGE_TYPE_STRING, JLS_STORAGE_TYPE_JSON in *.
  destruct (ud_stype u =? 0) eqn:E0.
  { assert (E3 : (ud_stype u <=? 3) = true) by lia. rewrite E3. cbn [fst snd]. split; [|reflexivity].
    assert (Hz : ud_stype u = 0) by lia. rewrite Hz. now apply R_put0. }
  destruct (ud_stype u =? 1) eqn:E1.
  { assert (E3 : (ud_stype u <=? 3) = true) by lia. rewrite E3. cbn [fst snd str_read]. split; [|reflexivity]. apply R_put; [exact HR|lia]. }
  destruct ((ud_stype u =? 2) || (ud_stype u =? 3)) eqn:E2.
  { assert (E3 : (ud_stype u <=? 3) = true) by lia. rewrite E3. cbn [fst snd]. split; [|reflexivity].
    destruct Hg as (s & Hs & Hn); [lia|]. rewrite Hs at 1. rewrite cstr_truncates by exact Hn. rewrite <- Hs.
    apply R_put; [exact HR|lia]. }
  assert (E3 : (ud_stype u <=? 3) = false) by lia. rewrite E3. cbn [fst snd]. split; [exact HR|reflexivity].
Qed.

(* ---- data calls ---- *)
Lemma find_sig_lt : forall w c sig s, R w c -> find_sig c sig = Some s -> sig < 256 /\ sg_id (ss_def s) = sig /\ In s (c_signals c).
Proof.
  intros w c sig s [_ (_ & _ & _ & _ & C5 & _)] G. unfold find_sig in G. apply find_some in G. destruct G as [Hin E].
  apply N.eqb_eq in E. split; [|split; assumption]. rewrite <- E.
  apply (C5 (ss_def s)). unfold sdefs. now apply in_map.
Qed.

Lemma validate_spec : forall w c sig, R w c ->
  df_sig_validate w sig = match find_sig c sig with
                          | Some _ => 0
                          | None => if 256 <=? sig then JLS_ERROR_PARAMETER_INVALID else JLS_ERROR_NOT_FOUND
                          end
  /\ (forall s, find_sig c sig = Some s -> dfw_sig w sig = DfDefd (ss_def s)).
Proof.
  intros w c sig HR. pose proof HR as [(_ & Rg & _) _]. specialize (Rg sig). pose proof (find_sig_sd c sig) as H.
  unfold df_sig_validate. change JLS_SIGNAL_COUNT with 256.
  destruct (find_sig c sig) as [s|] eqn:G.
  - destruct (find_sig_lt w c sig s HR G) as (Hlt & _). destruct (256 <=? sig) eqn:E; [lia|].
    cbn [option_map] in H. destruct (dfw_sig w sig); try congruence.
    split; [reflexivity|]. intros s1 Hs1. congruence.
  - cbn [option_map] in H. split; [|discriminate]. destruct (256 <=? sig); [reflexivity|].
    destruct (dfw_sig w sig); try reflexivity. congruence.
Qed.

Lemma validate_typed_spec : forall w c sig ty, R w c ->
  df_sig_validate_typed w sig ty = match find_sig c sig with
                                   | Some s => if sg_type (ss_def s) =? ty then 0 else JLS_ERROR_NOT_SUPPORTED
                                   | None => if 256 <=? sig then JLS_ERROR_PARAMETER_INVALID else JLS_ERROR_NOT_FOUND
                                   end.
Proof.
  intros w c sig ty HR. destruct (validate_spec w c sig HR) as [Hv Hd]. unfold df_sig_validate_typed. rewrite Hv.
  destruct (find_sig c sig) as [s|] eqn:G.
  - cbn [N.eqb negb]. now rewrite (Hd s eq_refl).
  - destruct (256 <=? sig); reflexivity.
Qed.

Lemma R_data : forall w c o, R w c ->
  R {| dfw_src := dfw_src w; dfw_sig := dfw_sig w; dfw_log := dfw_log w; dfw_data := dfw_data w ++ [o] |} c.
Proof. intros w c o HR. exact HR. Qed.

Lemma R_upd_sig : forall w c sig s s', R w c -> find_sig c sig = Some s -> ss_def s' = ss_def s -> R w (upd_sig c s').
Proof.
  intros w c sig s s' HR G Hd. destruct (find_sig_lt w c sig s HR G) as (_ & Hid & Hin).
  assert (Hs : sdefs (upd_sig c s') = sdefs c).
  { unfold sdefs, upd_sig. cbn [c_signals]. rewrite map_map. apply map_ext_in. intros x Hx.
    destruct (sg_id (ss_def x) =? sg_id (ss_def s')) eqn:E; [|reflexivity].
    apply N.eqb_eq in E. rewrite Hd in E. rewrite Hd.
    destruct HR as [_ (_ & _ & _ & C4 & _)]. unfold sdefs in C4. rewrite map_map in C4.
    now rewrite (nodup_key_inj (fun y => sg_id (ss_def y)) (c_signals c) x s C4 Hx Hin E). }
  destruct HR as [HRel HC]. unfold R. rewrite Hs. exact (conj HRel HC).
Qed.

Lemma fsr_write_def : forall s sid samples, ss_def (fsr_write s sid samples) = ss_def s.
Proof. intros s sid samples. unfold fsr_write. destruct samples; [reflexivity|]. destruct (ss_first s); reflexivity. Qed.

Lemma step_data : forall w c o, R w c ->
  match o with WSrc _ | WSig _ | WUd _ => False | _ => True end ->
  R (fst (df_step w (df_op_of o))) (fst (wstep c o)) /\
  df_accepted (snd (df_step w (df_op_of o))) = snd (wstep c o).
Proof.
  intros w c o HR Ho. destruct o as [d|d|sig sid samples|sig en|sig a|sig sid utc|u|]; try destruct Ho;
    cbn [df_op_of df_step wstep]; unfold df_data.
  - (* WFsr *)
    rewrite (validate_typed_spec w c sig _ HR). destruct (find_sig c sig) as [s|] eqn:G.
    + destruct (sg_type (ss_def s) =? JLS_SIGNAL_TYPE_FSR); cbn [N.eqb fst snd].
      * split; [|reflexivity]. apply R_data. apply (R_upd_sig w c sig s); [exact HR|exact G|apply fsr_write_def].
      * split; [exact HR|reflexivity].
    + destruct (256 <=? sig); cbn [fst snd]; (split; [exact HR|reflexivity]).
  - (* WOmit *)
    rewrite (validate_typed_spec w c sig _ HR). destruct (find_sig c sig) as [s|] eqn:G.
    + destruct (sg_type (ss_def s) =? JLS_SIGNAL_TYPE_FSR); cbn [N.eqb fst snd].
      * split; [|reflexivity]. apply R_data. exact HR.
      * split; [exact HR|reflexivity].
    + destruct (256 <=? sig); cbn [fst snd]; (split; [exact HR|reflexivity]).
  - (* WAnno *)
    destruct (validate_spec w c sig HR) as [Hv _]. rewrite Hv. unfold stype_ok_anno.
    destruct (find_sig c sig) as [s|] eqn:G.
    + cbn [N.eqb negb].
      destruct ((256 <=? an_type a) || (256 <=? an_stype a)) eqn:E1.
      * assert (E2 : (1 <=? an_stype a) && (an_stype a <=? 3) && (an_type a <? 256) = false) by lia.
        rewrite E2. cbn [fst snd]. split; [exact HR|reflexivity].
      * destruct ((1 <=? an_stype a) && (an_stype a <=? 3)) eqn:E3.
        -- assert (E2 : (an_type a <? 256) = true) by lia. rewrite E2. cbn [andb N.eqb fst snd]. split; [|reflexivity].
           apply R_data. apply (R_upd_sig w c sig s); [exact HR|exact G|reflexivity].
        -- cbn [andb fst snd]. split; [exact HR|reflexivity].
    + destruct (256 <=? sig); cbn [fst snd]; (split; [exact HR|reflexivity]).
  - (* WUtc *)
    rewrite (validate_typed_spec w c sig _ HR). destruct (find_sig c sig) as [s|] eqn:G.
    + destruct (sg_type (ss_def s) =? JLS_SIGNAL_TYPE_FSR); cbn [N.eqb fst snd].
      * split; [|reflexivity]. apply R_data. apply (R_upd_sig w c sig s); [exact HR|exact G|reflexivity].
      * split; [exact HR|reflexivity].
    + destruct (256 <=? sig); cbn [fst snd]; (split; [exact HR|reflexivity]).
  - (* WFlush *)
    cbn [fst snd]. split; [exact HR|reflexivity].
Qed.

(* ---- all calls, whole programs ---- *)
Lemma step_any : forall w c o, R w c -> df_wop_ok o ->
  R (fst (df_step w (df_op_of o))) (fst (wstep c o)) /\
  df_accepted (snd (df_step w (df_op_of o))) = snd (wstep c o).
Proof.
  intros w c o HR Hok. destruct o as [d|d|sig sid samples|sig en|sig a|sig sid utc|u|]; cbn [df_wop_ok] in Hok.
  - now apply step_src.
  - destruct Hok as ((Nn & Nu) & Hr & Hao). now apply step_sig.
  - now apply step_data.
  - now apply step_data.
  - now apply step_data.
  - now apply step_data.
  - now apply step_ud.
  - now apply step_data.
Qed.

Lemma run_refines_from : forall p w c, R w c -> df_prog_ok p ->
  R (fst (df_run w (map df_op_of p))) (fst (run_spec c p)) /\
  map df_accepted (snd (df_run w (map df_op_of p))) = snd (run_spec c p).
Proof.
  induction p as [|o p IH]; intros w c HR Hok.
  - cbn. split; [exact HR|reflexivity].
  - inversion Hok as [|o' p' Ho Hp]; subst. cbn [map df_run run_spec].
    destruct (step_any w c o HR Ho) as [HR1 Hacc].
    destruct (df_step w (df_op_of o)) as [w1 o1]. destruct (wstep c o) as [c1 a1]. cbn [fst snd] in HR1, Hacc.
    destruct (IH w1 c1 HR1 Hp) as [HR2 Hacc2].
    destruct (df_run w1 (map df_op_of p)) as [w2 l2]. destruct (run_spec c1 p) as [c2 l2']. cbn [fst snd] in *.
    split; [exact HR2|]. cbn [map]. now rewrite Hacc, Hacc2.
Qed.

Ltac le_by_compute := vm_compute; intros Hle_; discriminate Hle_.
Ltac nonul_tac := let b := fresh "b" in let Hb := fresh "Hb" in
  intros b Hb; cbn in Hb; repeat (destruct Hb as [<-|Hb]; [discriminate|]); destruct Hb.

Lemma R_open : R df_open content0.
Proof.
  split.
  - unfold Rel. split5.
    + intros [|p]; vm_compute; reflexivity.
    + intros [|p]; vm_compute; reflexivity.
    + vm_compute. reflexivity.
    + vm_compute. reflexivity.
    + exists []. split; vm_compute; reflexivity.
  - unfold CInv. split7.
    + vm_compute. repeat constructor. intros [].
    + intros d [<-|[]]. split; [vm_compute; reflexivity|]. unfold df_src_fits, df_str_fits. repeat split; le_by_compute.
    + vm_compute. reflexivity.
    + vm_compute. repeat constructor. intros [].
    + intros d [<-|[]]. split; [vm_compute; reflexivity|]. split; [vm_compute; reflexivity|].
      split; [unfold df_sig_ranges; repeat split; vm_compute; reflexivity|].
      unfold df_sig_fits, df_str_fits. split; le_by_compute.
    + vm_compute. reflexivity.
    + intros u [].
Qed.

(* the table model refines Spec.wstep: the same calls are accepted, the same definitions and user data
   are stored *)
Theorem run_refines : forall p, df_prog_ok p ->
  R (fst (df_run_prog p)) (spec_of p) /\
  map df_accepted (snd (df_run_prog p)) = snd (run_spec content0 p).
Proof. intros p Hok. unfold df_run_prog, spec_of. apply run_refines_from; [apply R_open|exact Hok]. Qed.

(* ================================================================== the reader on a writer's log *)
Lemma fold_upd_lookup : forall {A B} (key : A -> N) (g : A -> B) l (t : N -> option B) id, NoDup (map key l) ->
  fold_left (fun t d => df_upd t (key d) (Some (g d))) l t id
  = match find (fun d => key d =? id) l with Some d => Some (g d) | None => t id end.
Proof.
  intros A B key g. induction l as [|a l IH]; intros t id Hnd; [reflexivity|].
  cbn [map] in Hnd. inversion Hnd as [|k r Hnin Hnd']; subst. cbn [fold_left find]. rewrite IH by exact Hnd'.
  destruct (key a =? id) eqn:E.
  - apply N.eqb_eq in E. subst id.
    destruct (find (fun d => key d =? key a) l) as [x|] eqn:F.
    + apply find_some in F. destruct F as [Hin Hk]. apply N.eqb_eq in Hk. exfalso. apply Hnin. rewrite <- Hk. now apply in_map.
    + now rewrite upd_same.
  - destruct (find (fun d => key d =? id) l); [reflexivity|]. rewrite upd_other; [reflexivity|lia].
Qed.

Lemma fold_flag_lookup : forall {A} (key : A -> N) l (ch : N -> bool) id,
  fold_left (fun ch d => df_upd ch (key d) true) l ch id
  = match find (fun d => key d =? id) l with Some _ => true | None => ch id end.
Proof.
  intros A key. induction l as [|a l IH]; intros ch id; [reflexivity|]. cbn [fold_left find]. rewrite IH.
  destruct (key a =? id) eqn:E.
  - apply N.eqb_eq in E. subst id. destruct (find (fun d => key d =? key a) l); [reflexivity|]. now rewrite upd_same.
  - destruct (find (fun d => key d =? id) l); [reflexivity|]. rewrite upd_other; [reflexivity|lia].
Qed.

Lemma scan_sources_ok : forall srcs t, (forall d, In d srcs -> so_id d < 256 /\ df_src_fits d) ->
  df_scan_sources (map src_entry srcs) t
  = DfOk (fold_left (fun t d => df_upd t (so_id d) (Some (df_src_read d))) srcs t).
Proof.
  induction srcs as [|a l IH]; intros t H; [reflexivity|].
  cbn [map fold_left]. unfold src_entry at 1. cbn [df_scan_sources]. change JLS_SOURCE_COUNT with 256.
  destruct (H a (or_introl eq_refl)) as [Hlt Hf].
  destruct (256 <=? so_id a) eqn:E; [lia|]. rewrite source_def_roundtrip by exact Hf. cbn [df_bind].
  apply IH. intros d Hd. apply H. now right.
Qed.

Lemma validate_read : forall d, df_validate (df_sig_read d) = df_validate d.
Proof. reflexivity. Qed.

Lemma scan_signals_ok : forall sds t ch,
  (forall d, In d sds -> sg_id d < 256 /\ df_validate d = true /\ df_sig_ranges d /\ df_sig_fits d) ->
  df_scan_signals (map sig_entry sds) t ch
  = DfOk (fold_left (fun t d => df_upd t (sg_id d) (Some (df_sig_read d))) sds t,
          fold_left (fun ch d => df_upd ch (sg_id d) true) sds ch).
Proof.
  induction sds as [|a l IH]; intros t ch H; [reflexivity|].
  cbn [map fold_left]. unfold sig_entry at 1. cbn [df_scan_signals]. change JLS_SIGNAL_COUNT with 256.
  destruct (H a (or_introl eq_refl)) as (Hlt & Hv & Hr & Hf).
  destruct (256 <=? sg_id a) eqn:E; [lia|]. rewrite signal_def_roundtrip by assumption.
  rewrite validate_read, Hv. apply IH. intros d Hd. apply H. now right.
Qed.

Theorem reader_on_R : forall w c, R w c ->
  exists r, df_scan (dfw_log w) = DfOk r /\
    df_rd_sources r = map df_src_read (rd_sources c) /\
    df_rd_signals r = map df_sig_read (map ss_def (rd_signals c)) /\
    (forall id, df_rd_signal r id =
                match find_sig c id with
                | Some s => DfOk (df_sig_read (ss_def s))
                | None => DfErr (if JLS_SIGNAL_COUNT <=? id then JLS_ERROR_PARAMETER_INVALID else JLS_ERROR_NOT_FOUND)
                end) /\
    df_rd_user_data r = (c_udata c, 0).
Proof.
  intros w c HR. pose proof HR as [(Rs & Rg & Ls & Lg & (ru & Lu & Wk)) (C1 & C2 & C3 & C4 & C5 & C6 & C7)].
  unfold df_scan. rewrite Ls, Lg. rewrite scan_sources_ok by exact C2. cbn [df_bind].
  rewrite scan_signals_ok by exact C5. cbn [df_bind].
  eexists. split; [reflexivity|]. split; [|split; [|split]].
  - unfold df_rd_sources, rd_sources. cbn [dfr_src].
    rewrite <- (enum_sort so_id (c_sources c) C1 (fun x Hx => proj1 (C2 x Hx))).
    rewrite <- flat_map_opt_map. apply flat_map_ext. intros i.
    rewrite (fold_upd_lookup so_id df_src_read (c_sources c) _ i C1).
    fold (find_so (c_sources c) i). destruct (find_so (c_sources c) i) eqn:F; [reflexivity|].
    cbn [df_rd0 dfr_src option_map]. destruct (i =? 0) eqn:E; [|reflexivity].
    apply N.eqb_eq in E. subst i. congruence.
  - unfold df_rd_signals, rd_signals. cbn [dfr_sig].
    rewrite (sort_map ss_def sg_id (c_signals c)). fold (sdefs c).
    rewrite <- (enum_sort sg_id (sdefs c) C4 (fun x Hx => proj1 (C5 x Hx))).
    rewrite <- flat_map_opt_map. apply flat_map_ext. intros i.
    rewrite (fold_upd_lookup sg_id df_sig_read (sdefs c) _ i C4).
    fold (find_sd (sdefs c) i). destruct (find_sd (sdefs c) i) eqn:F; [reflexivity|].
    cbn [df_rd0 dfr_sig option_map]. destruct (i =? 0) eqn:E; [|reflexivity].
    apply N.eqb_eq in E. subst i. congruence.
  - intros id. unfold df_rd_signal. cbn [dfr_sig dfr_sigchunk]. change JLS_SIGNAL_COUNT with 256.
    pose proof (find_sig_sd c id) as Hsd.
    destruct (256 <=? id) eqn:E.
    + destruct (find_sig c id) as [s|] eqn:G; [|reflexivity]. destruct (find_sig_lt w c id s HR G) as [Hlt _]. lia.
    + rewrite (fold_upd_lookup sg_id df_sig_read (sdefs c) _ id C4). rewrite fold_flag_lookup.
      fold (find_sd (sdefs c) id). rewrite <- Hsd.
      destruct (find_sig c id) as [s|] eqn:G; cbn [option_map]; [reflexivity|].
      cbn [df_rd0 dfr_sig dfr_sigchunk]. destruct (id =? 0) eqn:E0; [|reflexivity].
      apply N.eqb_eq in E0. subst id. rewrite <- find_sig_sd, G in C6. discriminate C6.
  - unfold df_rd_user_data. cbn [dfr_ud]. rewrite Lu. cbn [tl]. exact Wk.
Qed.

(* ---- property 3 ---- *)
Lemma ssorted_head0 : forall {A} (key : A -> N) l x, ssorted key l -> In x l -> key x = 0 -> exists r, l = x :: r.
Proof.
  intros A key [|a l] x Hs Hin Hk; [destruct Hin|]. destruct Hin as [->|Hin]; [now exists l|].
  destruct Hs as [H1 _]. specialize (H1 x Hin). lia.
Qed.

Theorem defs_roundtrip : forall p, df_prog_ok p ->
  exists r, df_scan (dfw_log (fst (df_run_prog p))) = DfOk r /\
    df_rd_sources r = map df_src_read (rd_sources (spec_of p)) /\
    df_rd_signals r = map df_sig_read (map ss_def (rd_signals (spec_of p))) /\
    (forall id, df_rd_signal r id =
                match find_sig (spec_of p) id with
                | Some s => DfOk (df_sig_read (ss_def s))
                | None => DfErr (if JLS_SIGNAL_COUNT <=? id then JLS_ERROR_PARAMETER_INVALID else JLS_ERROR_NOT_FOUND)
                end) /\
    (exists rs, rd_sources (spec_of p) = source0 :: rs) /\
    (exists rg, map ss_def (rd_signals (spec_of p)) = signal0 :: rg) /\
    map df_accepted (snd (df_run_prog p)) = snd (run_spec content0 p).
Proof.
  intros p Hok. destruct (run_refines p Hok) as [HR Hacc].
  destruct (reader_on_R _ _ HR) as (r & H1 & H2 & H3 & H4 & _).
  exists r. split; [exact H1|]. split; [exact H2|]. split; [exact H3|]. split; [exact H4|].
  destruct HR as [_ (C1 & C2 & C3 & C4 & C5 & C6 & C7)]. split; [|split; [|exact Hacc]].
  - unfold rd_sources. apply (ssorted_head0 so_id).
    + now apply sort_ssorted.
    + apply sort_in. unfold find_so in C3. apply find_some in C3. tauto.
    + reflexivity.
  - unfold rd_signals. rewrite (sort_map ss_def sg_id). fold (sdefs (spec_of p)). apply (ssorted_head0 sg_id).
    + now apply sort_ssorted.
    + apply sort_in. unfold find_sd in C6. apply find_some in C6. tauto.
    + reflexivity.
Qed.

(* strings that do not fit a string block: the definition is refused and nothing is written *)
Theorem unfit_source_rejected : forall w d, so_id d < JLS_SOURCE_COUNT -> df_is_defd (dfw_src w (so_id d)) = false ->
  ~ df_src_fits d ->
  snd (df_step w (DfSrc d)) = DfRc JLS_ERROR_TOO_BIG /\
  dfw_log (fst (df_step w (DfSrc d))) = dfw_log w /\
  df_is_defd (dfw_src (fst (df_step w (DfSrc d))) (so_id d)) = false.
Proof.
  intros w d Hlt Hnd Hnf. cbn [df_step]. unfold df_wr_source. change JLS_SOURCE_COUNT with 256 in *.
  destruct (256 <=? so_id d) eqn:E; [lia|]. rewrite Hnd.
  destruct (df_save_ok (so_name d) && df_save_ok (so_vendor d) && df_save_ok (so_model d)
            && df_save_ok (so_version d) && df_save_ok (so_serial d)) eqn:S.
  - exfalso. apply Hnf.
    assert (Hs : forall s, df_save_ok s = true -> df_str_fits (df_cstr (str_read s))).
    { intros [|l] H; [|now apply str_fits_iff]. unfold df_str_fits. le_by_compute. }
    apply andb_prop in S. destruct S as [S S5]. apply andb_prop in S. destruct S as [S S4].
    apply andb_prop in S. destruct S as [S S3]. apply andb_prop in S. destruct S as [S1 S2].
    repeat split; now apply Hs.
  - cbn [fst snd df_set_src dfw_log dfw_src]. rewrite upd_same. repeat split.
Qed.

(* a definition whose buffers would not fit 32-bit sizes is refused and nothing is written *)
Theorem oversize_signal_rejected : forall w d, df_align_ok d = false ->
  exists rc, rc <> 0 /\ snd (df_step w (DfSig d)) = DfRc rc /\ dfw_log (fst (df_step w (DfSig d))) = dfw_log w /\
             (df_is_defd (dfw_sig w (sg_id d)) = false -> df_is_defd (dfw_sig (fst (df_step w (DfSig d))) (sg_id d)) = false).
Proof.
  intros w d Hao. cbn [df_step]. unfold df_wr_signal.
  assert (Hsame : forall rc, rc <> 0 -> exists rc0, rc0 <> 0 /\ snd (w, DfRc rc) = DfRc rc0 /\ dfw_log (fst (w, DfRc rc)) = dfw_log w /\
            (df_is_defd (dfw_sig w (sg_id d)) = false -> df_is_defd (dfw_sig (fst (w, DfRc rc)) (sg_id d)) = false)).
  { intros rc Hrc. exists rc. repeat split; [exact Hrc|]. intros H; exact H. }
  assert (Hscr : forall rc, rc <> 0 -> exists rc0, rc0 <> 0 /\
            snd (df_set_sig w (sg_id d) (DfScratch d) (dfw_log w), DfRc rc) = DfRc rc0 /\
            dfw_log (fst (df_set_sig w (sg_id d) (DfScratch d) (dfw_log w), DfRc rc)) = dfw_log w /\
            (df_is_defd (dfw_sig w (sg_id d)) = false ->
             df_is_defd (dfw_sig (fst (df_set_sig w (sg_id d) (DfScratch d) (dfw_log w), DfRc rc)) (sg_id d)) = false)).
  { intros rc Hrc. exists rc. repeat split; [exact Hrc|]. intros _. cbn [fst df_set_sig dfw_sig]. now rewrite upd_same. }
  destruct (JLS_SIGNAL_COUNT <=? sg_id d); [apply Hsame; discriminate|].
  destruct (JLS_SOURCE_COUNT <=? sg_src d); [apply Hsame; discriminate|].
  destruct (negb (df_is_defd (dfw_src w (sg_src d)))); [apply Hsame; discriminate|].
  destruct (df_is_defd (dfw_sig w (sg_id d))) eqn:E; [apply Hsame; discriminate|].
  destruct (negb ((sg_type d =? JLS_SIGNAL_TYPE_FSR) || (sg_type d =? JLS_SIGNAL_TYPE_VSR))); [apply Hsame; discriminate|].
  destruct (negb (df_save_ok (sg_name d) && df_save_ok (sg_units d))); [apply Hscr; discriminate|].
  destruct (negb (df_validate d)); [apply Hscr; discriminate|].
  rewrite Hao. cbn [negb]. apply Hscr. discriminate.
Qed.

(* ---- property 4: identity rules ---- *)
Lemma step_src_table : forall w o id, df_is_defd (dfw_src w id) = true ->
  dfw_src (fst (df_step w o)) id = dfw_src w id.
Proof.
  intros w o id Hd. destruct o as [d|d|meta st data|sig|sig|sig a s|sig|]; cbn [df_step].
  - unfold df_wr_source. destruct (JLS_SOURCE_COUNT <=? so_id d); [reflexivity|].
    destruct (df_is_defd (dfw_src w (so_id d))) eqn:E; [reflexivity|].
    assert (Hne : id <> so_id d) by (intros ->; congruence).
    destruct (df_save_ok (so_name d) && df_save_ok (so_vendor d) && df_save_ok (so_model d)
              && df_save_ok (so_version d) && df_save_ok (so_serial d));
      cbn [fst df_set_src dfw_src]; now apply upd_other.
  - unfold df_wr_signal.
    destruct (JLS_SIGNAL_COUNT <=? sg_id d); [reflexivity|].
    destruct (JLS_SOURCE_COUNT <=? sg_src d); [reflexivity|].
    destruct (negb (df_is_defd (dfw_src w (sg_src d)))); [reflexivity|].
    destruct (df_is_defd (dfw_sig w (sg_id d))); [reflexivity|].
    destruct (negb ((sg_type d =? JLS_SIGNAL_TYPE_FSR) || (sg_type d =? JLS_SIGNAL_TYPE_VSR))); [reflexivity|].
    destruct (negb (df_save_ok (sg_name d) && df_save_ok (sg_units d))); [reflexivity|].
    destruct (negb (df_validate d)); [reflexivity|].
    destruct (negb (df_align_ok d)); [reflexivity|].
    destruct ((sg_type d =? JLS_SIGNAL_TYPE_FSR) && (sg_rate d =? 0)); reflexivity.
  - unfold df_wr_user_data.
    destruct (st =? JLS_STORAGE_TYPE_INVALID); [reflexivity|].
    destruct (st =? JLS_STORAGE_TYPE_BINARY); [reflexivity|].
    destruct ((st =? JLS_STORAGE_TYPE_STRING) || (st =? JLS_STORAGE_TYPE_JSON)); [|reflexivity].
    destruct data; reflexivity.
  - unfold df_data. destruct (df_sig_validate_typed w sig JLS_SIGNAL_TYPE_FSR =? 0); reflexivity.
  - unfold df_data. destruct (df_sig_validate_typed w sig JLS_SIGNAL_TYPE_FSR =? 0); reflexivity.
  - unfold df_data.
    match goal with |- context [if ?b =? 0 then _ else _] => destruct (b =? 0) end; reflexivity.
  - unfold df_data. destruct (df_sig_validate_typed w sig JLS_SIGNAL_TYPE_FSR =? 0); reflexivity.
  - reflexivity.
Qed.

Lemma step_sig_table : forall w o id, df_is_defd (dfw_sig w id) = true ->
  dfw_sig (fst (df_step w o)) id = dfw_sig w id.
Proof.
  intros w o id Hd. destruct o as [d|d|meta st data|sig|sig|sig a s|sig|]; cbn [df_step].
  - unfold df_wr_source. destruct (JLS_SOURCE_COUNT <=? so_id d); [reflexivity|].
    destruct (df_is_defd (dfw_src w (so_id d))); [reflexivity|].
    destruct (df_save_ok (so_name d) && df_save_ok (so_vendor d) && df_save_ok (so_model d)
              && df_save_ok (so_version d) && df_save_ok (so_serial d)); reflexivity.
  - unfold df_wr_signal.
    destruct (JLS_SIGNAL_COUNT <=? sg_id d); [reflexivity|].
    destruct (JLS_SOURCE_COUNT <=? sg_src d); [reflexivity|].
    destruct (negb (df_is_defd (dfw_src w (sg_src d)))); [reflexivity|].
    destruct (df_is_defd (dfw_sig w (sg_id d))) eqn:E; [reflexivity|].
    assert (Hne : id <> sg_id d) by (intros ->; congruence).
    destruct (negb ((sg_type d =? JLS_SIGNAL_TYPE_FSR) || (sg_type d =? JLS_SIGNAL_TYPE_VSR))); [reflexivity|].
    destruct (negb (df_save_ok (sg_name d) && df_save_ok (sg_units d)));
      [cbn [fst df_set_sig dfw_sig]; now apply upd_other|].
    destruct (negb (df_validate d)); [cbn [fst df_set_sig dfw_sig]; now apply upd_other|].
    destruct (negb (df_align_ok d)); [cbn [fst df_set_sig dfw_sig]; now apply upd_other|].
    destruct ((sg_type d =? JLS_SIGNAL_TYPE_FSR) && (sg_rate d =? 0));
      cbn [fst df_set_sig dfw_sig]; now apply upd_other.
  - unfold df_wr_user_data.
    destruct (st =? JLS_STORAGE_TYPE_INVALID); [reflexivity|].
    destruct (st =? JLS_STORAGE_TYPE_BINARY); [reflexivity|].
    destruct ((st =? JLS_STORAGE_TYPE_STRING) || (st =? JLS_STORAGE_TYPE_JSON)); [|reflexivity].
    destruct data; reflexivity.
  - unfold df_data. destruct (df_sig_validate_typed w sig JLS_SIGNAL_TYPE_FSR =? 0); reflexivity.
  - unfold df_data. destruct (df_sig_validate_typed w sig JLS_SIGNAL_TYPE_FSR =? 0); reflexivity.
  - unfold df_data.
    match goal with |- context [if ?b =? 0 then _ else _] => destruct (b =? 0) end; reflexivity.
  - unfold df_data. destruct (df_sig_validate_typed w sig JLS_SIGNAL_TYPE_FSR =? 0); reflexivity.
  - reflexivity.
Qed.

Lemma run_tables : forall ops w,
  (forall id, df_is_defd (dfw_src w id) = true -> dfw_src (fst (df_run w ops)) id = dfw_src w id) /\
  (forall id, df_is_defd (dfw_sig w id) = true -> dfw_sig (fst (df_run w ops)) id = dfw_sig w id).
Proof.
  induction ops as [|o ops IH]; intros w; [split; reflexivity|].
  cbn [df_run]. pose proof (step_src_table w o) as Hs. pose proof (step_sig_table w o) as Hg.
  destruct (df_step w o) as [w1 a]. cbn [fst] in Hs, Hg. destruct (IH w1) as [I1 I2].
  destruct (df_run w1 ops) as [w2 l]. cbn [fst] in *. split; intros id Hd.
  - rewrite I1; [now apply Hs|]. now rewrite Hs.
  - rewrite I2; [now apply Hg|]. now rewrite Hg.
Qed.

Lemma src_accept_inv : forall w d, snd (df_step w (DfSrc d)) = DfRc 0 ->
  so_id d < JLS_SOURCE_COUNT /\ dfw_src (fst (df_step w (DfSrc d))) (so_id d) = DfDefd d.
Proof.
  intros w d. cbn [df_step]. unfold df_wr_source. destruct (JLS_SOURCE_COUNT <=? so_id d) eqn:E; [discriminate|].
  destruct (df_is_defd (dfw_src w (so_id d))); [discriminate|].
  destruct (df_save_ok (so_name d) && df_save_ok (so_vendor d) && df_save_ok (so_model d)
            && df_save_ok (so_version d) && df_save_ok (so_serial d)); [|discriminate].
  intros _. cbn [fst df_set_src dfw_src]. rewrite upd_same. split; [lia|reflexivity].
Qed.

Theorem dup_source_rejected : forall w d ops d',
  snd (df_step w (DfSrc d)) = DfRc 0 -> so_id d' = so_id d ->
  let w2 := fst (df_run (fst (df_step w (DfSrc d))) ops) in
  df_step w2 (DfSrc d') = (w2, DfRc JLS_ERROR_ALREADY_EXISTS).
Proof.
  intros w d ops d' Hacc Hid w2. destruct (src_accept_inv w d Hacc) as [Hlt Hslot].
  assert (Hd : dfw_src w2 (so_id d) = DfDefd d).
  { unfold w2. rewrite (proj1 (run_tables ops _)); [exact Hslot|]. now rewrite Hslot. }
  cbn [df_step]. unfold df_wr_source. rewrite Hid. destruct (JLS_SOURCE_COUNT <=? so_id d) eqn:E; [lia|].
  now rewrite Hd.
Qed.

Lemma sig_accept_inv : forall w d, snd (df_step w (DfSig d)) = DfRc 0 ->
  sg_id d < JLS_SIGNAL_COUNT /\ dfw_sig (fst (df_step w (DfSig d))) (sg_id d) = DfDefd (sp_align d).
Proof.
  intros w d. cbn [df_step]. unfold df_wr_signal.
  destruct (JLS_SIGNAL_COUNT <=? sg_id d) eqn:E; [discriminate|].
  destruct (JLS_SOURCE_COUNT <=? sg_src d); [discriminate|].
  destruct (negb (df_is_defd (dfw_src w (sg_src d)))); [discriminate|].
  destruct (df_is_defd (dfw_sig w (sg_id d))); [discriminate|].
  destruct (negb ((sg_type d =? JLS_SIGNAL_TYPE_FSR) || (sg_type d =? JLS_SIGNAL_TYPE_VSR))); [discriminate|].
  destruct (negb (df_save_ok (sg_name d) && df_save_ok (sg_units d))); [discriminate|].
  destruct (negb (df_validate d)); [discriminate|].
  destruct (negb (df_align_ok d)); [discriminate|].
  destruct ((sg_type d =? JLS_SIGNAL_TYPE_FSR) && (sg_rate d =? 0)); [discriminate|].
  intros _. cbn [fst df_set_sig dfw_sig]. rewrite upd_same. split; [lia|reflexivity].
Qed.

Theorem dup_signal_rejected : forall w d ops d',
  snd (df_step w (DfSig d)) = DfRc 0 -> sg_id d' = sg_id d ->
  let w2 := fst (df_run (fst (df_step w (DfSig d))) ops) in
  exists rc, rc <> 0 /\ df_step w2 (DfSig d') = (w2, DfRc rc) /\
             (sg_src d' < JLS_SOURCE_COUNT -> df_is_defd (dfw_src w2 (sg_src d')) = true -> rc = JLS_ERROR_ALREADY_EXISTS).
Proof.
  intros w d ops d' Hacc Hid w2. destruct (sig_accept_inv w d Hacc) as [Hlt Hslot].
  assert (Hd : dfw_sig w2 (sg_id d) = DfDefd (sp_align d)).
  { unfold w2. rewrite (proj2 (run_tables ops _)); [exact Hslot|]. now rewrite Hslot. }
  cbn [df_step]. unfold df_wr_signal. rewrite Hid.
  destruct (JLS_SIGNAL_COUNT <=? sg_id d) eqn:E; [lia|].
  destruct (JLS_SOURCE_COUNT <=? sg_src d') eqn:E2.
  { eexists. split; [|split; [reflexivity|]]; [discriminate|lia]. }
  destruct (df_is_defd (dfw_src w2 (sg_src d'))) eqn:E3; cbn [negb].
  - rewrite Hd. cbn [df_is_defd]. eexists. split; [|split; [reflexivity|]]; [discriminate|reflexivity].
  - eexists. split; [|split; [reflexivity|]]; [discriminate|discriminate].
Qed.

Theorem signal_without_source_rejected : forall w d, df_is_defd (dfw_src w (sg_src d)) = false ->
  exists rc, rc <> 0 /\ df_step w (DfSig d) = (w, DfRc rc).
Proof.
  intros w d Hs. cbn [df_step]. unfold df_wr_signal.
  destruct (JLS_SIGNAL_COUNT <=? sg_id d); [eexists; split; [|reflexivity]; discriminate|].
  destruct (JLS_SOURCE_COUNT <=? sg_src d); [eexists; split; [|reflexivity]; discriminate|].
  rewrite Hs. cbn [negb]. eexists; split; [|reflexivity]; discriminate.
Qed.

Lemma validate_undefined : forall w sig, df_is_defd (dfw_sig w sig) = false -> df_sig_validate w sig <> 0.
Proof.
  intros w sig H. unfold df_sig_validate. destruct (JLS_SIGNAL_COUNT <=? sig); [discriminate|].
  destruct (dfw_sig w sig); discriminate.
Qed.

Theorem undefined_signal_data_rejected : forall w sig o, df_is_defd (dfw_sig w sig) = false ->
  (o = DfFsr sig \/ o = DfOmit sig \/ o = DfUtc sig \/ exists atype stype, o = DfAnno sig atype stype) ->
  exists rc, rc <> 0 /\ df_step w o = (w, DfRc rc).
Proof.
  intros w sig o Hu Ho. pose proof (validate_undefined w sig Hu) as Hv.
  assert (Ht : forall ty, df_sig_validate_typed w sig ty = df_sig_validate w sig).
  { intros ty. unfold df_sig_validate_typed. destruct (df_sig_validate w sig =? 0) eqn:E; [lia|reflexivity]. }
  destruct Ho as [->|[->|[->|(a & s & ->)]]]; cbn [df_step]; unfold df_data; rewrite ?Ht.
  - destruct (df_sig_validate w sig =? 0) eqn:E; [lia|]. eexists; split; [exact Hv|reflexivity].
  - destruct (df_sig_validate w sig =? 0) eqn:E; [lia|]. eexists; split; [exact Hv|reflexivity].
  - destruct (df_sig_validate w sig =? 0) eqn:E; [lia|]. eexists; split; [exact Hv|reflexivity].
  - destruct (df_sig_validate w sig =? 0) eqn:E; [lia|]. cbn [negb]. rewrite E. eexists; split; [exact Hv|reflexivity].
Qed.

(* the same through Spec.wstep: a program's calls are accepted by the model exactly when the
   specification accepts them (run_refines), and the reader reports an undefined signal *)

(* ---- property 5: user data ---- *)
Theorem user_data_roundtrip : forall p, df_prog_ok p ->
  exists r, df_scan (dfw_log (fst (df_run_prog p))) = DfOk r /\
            df_rd_user_data r = (c_udata (spec_of p), 0).
Proof.
  intros p Hok. destruct (run_refines p Hok) as [HR _].
  destruct (reader_on_R _ _ HR) as (r & H1 & _ & _ & _ & Hud). exists r. split; assumption.
Qed.

(* what the items are (Spec.wstep): tag masked to 12 bits, storage type, the bytes given, in call order;
   for STRING/JSON the bytes are the C string with its terminator, size = strlen + 1; a call with storage
   type INVALID is accepted and stores no item *)
Theorem user_data_item : forall c u, stype_ok_ud (ud_stype u) = true ->
  c_udata (fst (wstep c (WUd u))) =
  if ud_stype u =? 0 then c_udata c
  else c_udata c ++ [{| ud_meta := N.land (ud_meta u) 4095; ud_stype := ud_stype u; ud_data := ud_data u |}].
Proof. intros c u H. cbn [wstep]. rewrite H. destruct (ud_stype u =? 0); reflexivity. Qed.

(* the program that lost its third item before /repo commit 48f541e: now every item comes back *)
Definition df_ud_placeholder_prog : list wop :=
  [WUd {| ud_meta := 1; ud_stype := 1; ud_data := [7] |};
   WUd {| ud_meta := 1; ud_stype := 0; ud_data := [] |};
   WUd {| ud_meta := 2; ud_stype := 1; ud_data := [5] |}].
Example ex_ud_placeholder :
  df_prog_ok df_ud_placeholder_prog /\
  map df_accepted (snd (df_run_prog df_ud_placeholder_prog)) = [true; true; true] /\
  df_log_ud (dfw_log (fst (df_run_prog df_ud_placeholder_prog))) = [(0, []); (4097, [7]); (1, []); (4098, [5])] /\
  match df_scan (dfw_log (fst (df_run_prog df_ud_placeholder_prog))) with
  | DfOk r => df_rd_user_data r = ([{| ud_meta := 1; ud_stype := 1; ud_data := [7] |};
                                    {| ud_meta := 2; ud_stype := 1; ud_data := [5] |}], 0)
  | _ => False
  end.
Proof.
  split.
  - repeat (apply Forall_cons; [cbn; intros [H|H]; discriminate H|]). apply Forall_nil.
  - vm_compute. repeat split.
Qed.

(* a payload that did not come from the writer: a string whose NUL is the last payload byte; nothing
   after the payload is looked at, the next read answers EMPTY (before /repo commit 741edba a 0x1f stored
   after the payload moved the cursor beyond the end) *)
Theorem foreign_payload_no_overrun :
  df_dec_source_def 0 (repeat 0 64 ++ [65; 0]) = DfErr JLS_ERROR_EMPTY /\
  df_rd_str [65; 0] = DfOk ([65], []).
Proof. split; vm_compute; reflexivity. Qed.

(* ---- examples ---- *)
Example ex_str_1f : df_dec_str (df_enc_str (SBytes [65; 31; 31]) ++ [31; 7]) = Some ([65; 31; 31], [31; 7]).
Proof. vm_compute. reflexivity. Qed.
Example ex_str_null : df_enc_str SNull = [0; 31] /\ df_dec_str (df_enc_str SNull ++ [9]) = Some ([], [9]).
Proof. vm_compute. split; reflexivity. Qed.
Example ex_str_nul_inside : df_enc_str (SBytes [65; 0; 66]) = [65; 0; 31].
Proof. vm_compute. reflexivity. Qed.
Example ex_str_no_sep : df_dec_str [65; 0; 66; 0; 31] = Some ([65], [66; 0; 31]).
Proof. vm_compute. reflexivity. Qed.
Example ex_str_hyp : df_nonul [206; 169; 31] /\ df_str_fits [206; 169; 31].
Proof. split; [nonul_tac | unfold df_str_fits; le_by_compute]. Qed.

Definition df_ex_src : srcdef :=
  {| so_id := 7; so_name := SBytes [206; 169]; so_vendor := SNull; so_model := SBytes []; so_version := SBytes [49; 31];
     so_serial := SBytes [45] |}.
Example ex_source_def :
  df_src_fits df_ex_src /\
  df_enc_source_def df_ex_src = repeat 0 64 ++ [206; 169; 0; 31; 0; 31; 0; 31; 49; 31; 0; 31; 45; 0; 31] /\
  df_dec_source_def 7 (df_enc_source_def df_ex_src) = DfOk (df_src_read df_ex_src).
Proof. split; [unfold df_src_fits, df_str_fits; repeat split; le_by_compute|]. split; vm_compute; reflexivity. Qed.

Definition df_ex_sig : sigdef :=
  {| sg_id := 5; sg_src := 7; sg_type := JLS_SIGNAL_TYPE_FSR; sg_dtype := JLS_DATATYPE_U8; sg_rate := 2000000;
     sg_spd := 1000; sg_sdf := 100; sg_eps := 0; sg_sumdf := 0; sg_adf := 0; sg_udf := 0;
     sg_name := SBytes [118]; sg_units := SNull |}.
Example ex_signal_def :
  df_sig_ranges (sp_align df_ex_sig) /\ df_sig_fits (sp_align df_ex_sig) /\
  (sg_spd (sp_align df_ex_sig), sg_sdf (sp_align df_ex_sig), sg_eps (sp_align df_ex_sig)) = (1024, 128, 640) /\
  df_dec_signal_def 5 (df_enc_signal_def (sp_align df_ex_sig)) = DfOk (df_sig_read (sp_align df_ex_sig)).
Proof.
  split; [unfold df_sig_ranges; repeat split; vm_compute; reflexivity|].
  split; [unfold df_sig_fits, df_str_fits; split; le_by_compute|]. split; vm_compute; reflexivity.
Qed.

(* a program with definitions in non-id order, interleaved with data and user data, a duplicate source,
   a duplicate signal, a signal without source, data for an undefined signal *)
Definition df_ex_prog : list wop :=
  [WUd {| ud_meta := 8191; ud_stype := 2; ud_data := [104; 105; 0] |};
   WSig {| sg_id := 9; sg_src := 7; sg_type := 0; sg_dtype := JLS_DATATYPE_F32; sg_rate := 1000; sg_spd := 0; sg_sdf := 0;
           sg_eps := 0; sg_sumdf := 0; sg_adf := 0; sg_udf := 0; sg_name := SBytes [120]; sg_units := SNull |};
   WSrc df_ex_src;
   WFsr 5 0%Z [1; 2; 3];
   WSig df_ex_sig;
   WSrc {| so_id := 3; so_name := SNull; so_vendor := SNull; so_model := SNull; so_version := SNull; so_serial := SNull |};
   WFsr 5 0%Z [1; 2; 3];
   WSrc df_ex_src;
   WSig df_ex_sig;
   WUd {| ud_meta := 5; ud_stype := 1; ud_data := [] |};
   WSig {| sg_id := 2; sg_src := 3; sg_type := 1; sg_dtype := JLS_DATATYPE_I16; sg_rate := 50; sg_spd := 0; sg_sdf := 0;
           sg_eps := 0; sg_sumdf := 0; sg_adf := 0; sg_udf := 0; sg_name := SNull; sg_units := SBytes [86] |}].

Example ex_prog :
  df_prog_ok df_ex_prog /\
  snd (df_run_prog df_ex_prog) =
    [DfRc 0; DfRc JLS_ERROR_NOT_FOUND; DfRc 0; DfRc JLS_ERROR_NOT_FOUND; DfRc 0; DfRc 0; DfRc 0;
     DfRc JLS_ERROR_ALREADY_EXISTS; DfRc JLS_ERROR_ALREADY_EXISTS; DfRc 0; DfRc 0] /\
  match df_scan (dfw_log (fst (df_run_prog df_ex_prog))) with
  | DfOk r => map so_id (df_rd_sources r) = [0; 3; 7] /\ map sg_id (df_rd_signals r) = [0; 2; 5] /\
              df_rd_user_data r = ([{| ud_meta := 4095; ud_stype := 2; ud_data := [104; 105; 0] |};
                                    {| ud_meta := 5; ud_stype := 1; ud_data := [] |}], 0) /\
              df_rd_signal r 9 = DfErr JLS_ERROR_NOT_FOUND
  | _ => False
  end.
Proof.
  split.
  { unfold df_prog_ok, df_ex_prog. repeat (apply Forall_cons; [cbn [df_wop_ok]|]); [..|apply Forall_nil].
    all: try exact I.
    all: try solve [unfold df_src_nonul; repeat split; nonul_tac].
    all: try solve [split; [split; nonul_tac
                           |split; [unfold df_sig_ranges; repeat split; vm_compute; reflexivity|vm_compute; reflexivity]]].
    - intros _. exists [104; 105]. split; [reflexivity|]. nonul_tac.
    - intros [H|H]; discriminate H. }
  vm_compute. repeat split.
Qed.

(* run_refines with the invariant written out in terms of Spec.v only *)
Theorem refines_spec : forall p, df_prog_ok p ->
  let w := fst (df_run_prog p) in
  let c := spec_of p in
  map df_accepted (snd (df_run_prog p)) = snd (run_spec content0 p) /\
  (forall id, df_is_defd (dfw_src w id) = match find_src c id with Some _ => true | None => false end) /\
  (forall id, match dfw_sig w id with
              | DfDefd d => option_map ss_def (find_sig c id) = Some d
              | _ => find_sig c id = None
              end) /\
  df_log_src (dfw_log w) = map (fun d => (so_id d, df_enc_source_def d)) (c_sources c) /\
  df_log_sig (dfw_log w) = map (fun s => (sg_id (ss_def s), df_enc_signal_def (ss_def s))) (c_signals c) /\
  (exists r, df_log_ud (dfw_log w) = (0, []) :: r /\ df_ud_walk r = (c_udata c, 0)).
Proof.
  intros p Hok w c. destruct (run_refines p Hok) as [[(Rs & Rg & Ls & Lg & Lu) _] Hacc].
  fold w in Rs, Rg, Ls, Lg, Lu. fold c in Rs, Rg, Ls, Lg, Lu.
  split; [exact Hacc|]. split; [exact Rs|]. split; [|split; [exact Ls|split; [|exact Lu]]].
  - intros id. specialize (Rg id). pose proof (find_sig_sd c id) as H.
    destruct (dfw_sig w id); rewrite <- H in Rg; try exact Rg; destruct (find_sig c id); try reflexivity; discriminate Rg.
  - rewrite Lg. unfold sdefs. rewrite map_map. reflexivity.
Qed.

(* none of the modelled writer calls crashes, whatever the arguments and the state *)
Theorem step_never_faults : forall w o, snd (df_step w o) <> DfFault.
Proof.
  intros w o. destruct o as [d|d|meta st data|sig|sig|sig a s|sig|]; cbn [df_step].
  - unfold df_wr_source. destruct (JLS_SOURCE_COUNT <=? so_id d); [discriminate|].
    destruct (df_is_defd (dfw_src w (so_id d))); [discriminate|].
    destruct (df_save_ok (so_name d) && df_save_ok (so_vendor d) && df_save_ok (so_model d)
              && df_save_ok (so_version d) && df_save_ok (so_serial d)); discriminate.
  - unfold df_wr_signal.
    destruct (JLS_SIGNAL_COUNT <=? sg_id d); [discriminate|].
    destruct (JLS_SOURCE_COUNT <=? sg_src d); [discriminate|].
    destruct (negb (df_is_defd (dfw_src w (sg_src d)))); [discriminate|].
    destruct (df_is_defd (dfw_sig w (sg_id d))); [discriminate|].
    destruct (negb ((sg_type d =? JLS_SIGNAL_TYPE_FSR) || (sg_type d =? JLS_SIGNAL_TYPE_VSR))); [discriminate|].
    destruct (negb (df_save_ok (sg_name d) && df_save_ok (sg_units d))); [discriminate|].
    destruct (negb (df_validate d)); [discriminate|].
    destruct (negb (df_align_ok d)); [discriminate|].
    destruct ((sg_type d =? JLS_SIGNAL_TYPE_FSR) && (sg_rate d =? 0)); discriminate.
  - unfold df_wr_user_data.
    destruct (st =? JLS_STORAGE_TYPE_INVALID); [discriminate|].
    destruct (st =? JLS_STORAGE_TYPE_BINARY); [discriminate|].
    destruct ((st =? JLS_STORAGE_TYPE_STRING) || (st =? JLS_STORAGE_TYPE_JSON)); [|discriminate].
    destruct data; discriminate.
  - unfold df_data. destruct (df_sig_validate_typed w sig JLS_SIGNAL_TYPE_FSR =? 0); discriminate.
  - unfold df_data. destruct (df_sig_validate_typed w sig JLS_SIGNAL_TYPE_FSR =? 0); discriminate.
  - unfold df_data.
    match goal with |- context [if ?b =? 0 then _ else _] => destruct (b =? 0) end; discriminate.
  - unfold df_data. destruct (df_sig_validate_typed w sig JLS_SIGNAL_TYPE_FSR =? 0); discriminate.
  - discriminate.
Qed.
