(* WHAT THE REPAIR-ON-OPEN WRITES, part 14: termination of the loop over jls_track_repair_pointers inside jls_rd_open,
   stated on the state of rp_repair after that loop (the steps of the model written out).  PARTIAL: see RepairWo13.v.
   Every top-level name starts with rt_. *)
From Coq Require Import NArith ZArith List Bool Lia Arith.
From Coq Require Import ZifyBool ZifyN ZifyNat.
From JLS Require Import Generated CrcDefs Spec Format FormatProofs WriteOnce WriteOnceProofs WmRaw WmCore WmFsr WriterModel WmProofs
  WmWriteOnce RepairRaw RawReadProofs RepairModel RepairProofs RepairProofs2 RepairProofs3 RepairProofsData
  RepairWo RepairWo2 RepairWo3 RepairWo4 RepairWo5 RepairWo7 RepairWo8 RepairWo10 RepairWo13.
Import ListNotations.
Local Open Scope N_scope.
Ltac Zify.zify_post_hook ::= Z.div_mod_to_equations.

Theorem rt_open_pointer_walks_nf : forall (f : list N) (c : rp_rd) s1 rc1 s2 s3 s5 r6 h6,
  rp_scan f = inr c -> rp_links_forward f = true -> rw_heads_below f = true ->
  let pos := rp_offset (rp_r (rp_io_ c)) in
  rp_raw_open (rp_io_ c) true = (s1, rc1) -> rp_chunk_seek s1 pos = (s2, 0) -> rp_rd_chunk s2 = (s3, 0) ->
  let w1 := rp_w_set_io (rp_w0 c) s1 in
  let w4 := rp_bk_truncate (rp_w_set_io w1 s3) in
  rp_chunk_seek (rp_w_io w4) pos = (s5, 0) ->
  let w5 := rp_w_set_io w4 s5 in
  wm_raw_wr (wm_b_raw (rp_wm_base w5 0)) (wm_ck_hdr (rp_cur s5)) (rp_payload s5) = (r6, h6) ->
  let w6 := rp_commit w5 (wm_b_set_raw (rp_wm_base w5 0) r6) in
  let w6a := rp_w_set_io w6 (rp_io_set_cur (rp_w_io w6) {| wm_ck_offset := wm_ck_offset (rp_cur s5); wm_ck_hdr := h6 |}) in
  let w7 := rp_repair_all_pointers w6a in
  rt_guard_b f (rp_log w7) = true -> rp_flt (rp_w_io w7) <> RpF_fuel.
Proof.
  intros f c s1 rc1 s2 s3 s5 r6 h6 Es Hlf Hhb pos E1 E2 E3. cbv zeta. intros E5 E6 Hgb. unfold pos in *. clear pos.
  pose proof (rpp_scan_nofuel f Hlf) as NF0. pose proof (rpp_scan_cases f) as SCc. pose proof (sc_scan f c Es) as Ssc.
  unfold rw_heads_below in Hhb. rewrite Es in NF0, SCc, Hhb.
  destruct SCc as (c3 & _ & (I1 & I2 & _) & E & Hf).
  assert (Hn : rp_flen (rp_io_ c) = rp_len f).
  { pose proof (rpp_rd_chunk_end_frame (rp_io_ c3)) as F. rewrite E in F. cbn [fst] in F. destruct F as (_ & F2 & _). congruence. }
  destruct (ro_start_inv wm_zero_summ1 f c s1 rc1 s2 s3 s5 r6 h6 Hf Hn Ssc Hhb E1 E2 E3 E5 E6) as (st6 & M).
  apply (rt_repair_all_pointers_nf f (rp_offset (rp_r (rp_io_ c)))).
  - apply rt_guard_b_sound. exact Hgb.
  - (* nothing before the loops raises RpF_fuel *)
    change (rp_flt (rp_w_io (rp_commit (rp_w_set_io (rp_bk_truncate (rp_w_set_io (rp_w_set_io (rp_w0 c) s1) s3)) s5)
              (wm_b_set_raw (rp_wm_base (rp_w_set_io (rp_bk_truncate (rp_w_set_io (rp_w_set_io (rp_w0 c) s1) s3)) s5) 0) r6))) <> RpF_fuel).
    apply rt_nf_commit. change (rp_flt s5 <> RpF_fuel).
    pose proof (rt_nfi_chunk_seek (rp_w_io (rp_bk_truncate (rp_w_set_io (rp_w_set_io (rp_w0 c) s1) s3))) (rp_offset (rp_r (rp_io_ c)))) as N5.
    rewrite E5 in N5. cbn [fst] in N5. apply N5.
    destruct (ro_truncate (rp_w_set_io (rp_w_set_io (rp_w0 c) s1) s3)) as (b4 & Eb4 & _). rewrite Eb4.
    apply rt_nf_commit. change (rp_flt s3 <> RpF_fuel).
    pose proof (rt_nfi_rd_chunk s2) as N3. rewrite E3 in N3. cbn [fst] in N3. apply N3.
    pose proof (rt_nfi_chunk_seek s1 (rp_offset (rp_r (rp_io_ c)))) as N2. rewrite E2 in N2. cbn [fst] in N2. apply N2.
    pose proof (rpp_raw_open_state (rp_io_ c) true NF0) as (_ & N1). rewrite E1 in N1. exact N1.
  - intros Z. exists st6. exact (M Z).
Qed.

(* the guard and the other hypotheses are satisfiable: the real crash image (s1 := fst o1, rc1 := snd o1, s2 := fst o2, ...) *)
Lemma rt_ex_crash_image :
  match rp_scan rpp_crash_image with
  | inr c =>
    let pos := rp_offset (rp_r (rp_io_ c)) in
    let o1 := rp_raw_open (rp_io_ c) true in
    let o2 := rp_chunk_seek (fst o1) pos in
    let o3 := rp_rd_chunk (fst o2) in
    let w4 := rp_bk_truncate (rp_w_set_io (rp_w_set_io (rp_w0 c) (fst o1)) (fst o3)) in
    let o5 := rp_chunk_seek (rp_w_io w4) pos in
    let w5 := rp_w_set_io w4 (fst o5) in
    let o6 := wm_raw_wr (wm_b_raw (rp_wm_base w5 0)) (wm_ck_hdr (rp_cur (fst o5))) (rp_payload (fst o5)) in
    let w6 := rp_commit w5 (wm_b_set_raw (rp_wm_base w5 0) (fst o6)) in
    let w6a := rp_w_set_io w6 (rp_io_set_cur (rp_w_io w6) {| wm_ck_offset := wm_ck_offset (rp_cur (fst o5)); wm_ck_hdr := snd o6 |}) in
    rp_links_forward rpp_crash_image = true /\ rw_heads_below rpp_crash_image = true /\
    snd o2 = 0 /\ snd o3 = 0 /\ snd o5 = 0 /\
    rt_guard_b rpp_crash_image (rp_log (rp_repair_all_pointers w6a)) = true /\
    length (rp_log (rp_repair_all_pointers w6a)) = 8%nat
  | inl _ => False
  end.
Proof. vm_compute. repeat split. Qed.
