(* THE SCANS OF jls_rd_open (RepairRaw.v) ON LINKED LISTS OF COMPLETE CHUNKS: reader-side lemmas, for ANY file.
     lk_raw_open            jls_raw_open "r" on a file that starts with the writer's file header
     lk_scan_initial        jls_core_scan_initial when the first three chunks are USER_DATA, SOURCE_DEF, SIGNAL_DEF
     lk_scan_sources_loop   jls_core_scan_sources over a linked list of complete chunks (each payload parses)
     lk_scan_signals_loop   jls_core_scan_signals over a linked list of complete chunks: the signal table afterwards is the
                            fold of the handlers (lk_sigs_step) over the list, in list order
   "complete" = E2eLog.e2_chunk_at; each step of a loop is E2eRead.e2_rd_chunk + e2_seek along item_next.
   Every top-level name starts with lk_. *)
From Coq Require Import NArith ZArith List Bool Lia Arith.
From Coq Require Import ZifyBool ZifyN ZifyNat.
From JLS Require Import Generated CrcDefs CrcProofs Spec Format FormatProofs WriteOnce WriteOnceProofs WmRaw WmCore WmFsr WriterModel WmProofs
                        RefineLog RepairRaw RawReadProofs E2eLog E2eRead.
Import ListNotations.
Local Open Scope N_scope.
Ltac Zify.zify_post_hook ::= Z.div_mod_to_equations.
Local Opaque crc32c.

(* ================================================================ jls_raw_open *)
Lemma lk_fh_ok : forall n, n < fm_two64 -> rp_fh_ok (wm_file_header_bytes n) = true /\
  fm_u64_at OFFSETOF_file_header_length (wm_file_header_bytes n) = n /\ rp_len (wm_file_header_bytes n) = 32.
Proof.
  intros n Hn. unfold wm_file_header_bytes.
  set (h := {| fm_fh_length := n; fm_fh_version := JLS_FORMAT_VERSION_U32 |}).
  pose proof (fm_file_header_roundtrip0 h Hn ltac:(reflexivity)) as R.
  unfold fm_decode_file_header in R.
  destruct (fm_fh_complete (fm_encode_file_header h) && fm_fh_ident_ok (fm_encode_file_header h) && fm_fh_crc_ok (fm_encode_file_header h)) eqn:E;
    [|discriminate].
  apply andb_true_iff in E as [E E3]. apply andb_true_iff in E as [E1 E2].
  assert (R1 : fm_u64_at OFFSETOF_file_header_length (fm_encode_file_header h) = n) by (inversion R; reflexivity).
  assert (R2 : fm_u32_at OFFSETOF_file_header_version (fm_encode_file_header h) = JLS_FORMAT_VERSION_U32) by (inversion R; reflexivity). unfold rp_fh_ok. rewrite E1, E2, E3, !R2, R1.
  split; [reflexivity|]. split; [reflexivity|]. unfold rp_len. rewrite fm_encode_file_header_length. reflexivity.
Qed.

Lemma lk_raw_open : forall f, fm_sub 0 32 f = wm_file_header_bytes (rf_len f) -> 0 < rf_len f -> rf_len f < fm_two64 ->
  exists s1, rp_raw_open (rp_io0 f) false = (s1, 0) /\ e2_pos s1 f 32 /\ rp_flt s1 = 0.
Proof.
  intros f Hh H0 H64. destruct (lk_fh_ok (rf_len f) H64) as (Hok & Hlen & Hl32).
  unfold rp_raw_open, rp_read_verify, rp_bk_fread, rp_io0.
  cbv [rp_io_set_r rp_file rp_flen rp_r rp_buf rp_buf_len rp_cur rp_flt rp_raw0 rp_fpos rp_fend rp_offset rp_hdr rp_last_pl rp_r_set_fpos rp_r_set_offset].
  rewrite rr_file_read_sub. change SIZEOF_file_header with 32. rewrite Hh, Hok, Hl32, Hlen.
  change (32 <? OFFSETOF_file_header_version) with false. cbv iota.
  cbv [rp_io_set_r rp_file rp_flen rp_r rp_buf rp_buf_len rp_cur rp_flt rp_raw0 rp_fpos rp_fend rp_offset rp_hdr rp_last_pl rp_r_set_fpos rp_r_set_offset rp_r_set_fend].
  destruct (N.eqb_spec (rf_len f) 0) as [E|_]; [lia|]. cbn [andb].
  eexists. split; [reflexivity|]. unfold e2_pos. cbn. repeat split.
Qed.

(* ================================================================ lists of complete chunks *)
Definition lk_ck : Type := (N * fm_chunk_header * list N)%type.
Definition lk_ck_off (t : lk_ck) : N := fst (fst t).
Definition lk_ck_hdr (t : lk_ck) : fm_chunk_header := snd (fst t).
Definition lk_ck_pay (t : lk_ck) : list N := snd t.
Definition lk_ck_ok (f : list N) (t : lk_ck) : Prop :=
  e2_chunk_at f (lk_ck_off t) (lk_ck_hdr t) (lk_ck_pay t) /\ fm_tag (lk_ck_hdr t) <> JLS_TAG_INVALID /\
  fm_disk_len (rf_len (lk_ck_pay t)) <= JLS_BUF_DEFAULT_SIZE /\ lk_ck_off t < rp_two63.
Fixpoint lk_rlinked (l : list lk_ck) : Prop :=
  match l with
  | [] => True
  | t :: r => fm_item_next (lk_ck_hdr t) = match r with [] => 0 | t' :: _ => lk_ck_off t' end /\ lk_rlinked r
  end.

Lemma lk_ck_off_pos : forall f t, lk_ck_ok f t -> lk_ck_off t <> 0.
Proof. intros f t ((_ & _ & _ & _ & H & _) & _). lia. Qed.

(* one chunk read *)
Lemma lk_rd : forall f t s, lk_ck_ok f t -> e2_pos s f (lk_ck_off t) ->
  exists s', rp_rd_chunk s = (s', 0) /\ e2_pos s' f (lk_ck_off t + fm_chunk_size (rf_len (lk_ck_pay t))) /\
             rp_cur s' = {| wm_ck_offset := lk_ck_off t; wm_ck_hdr := lk_ck_hdr t |} /\ rp_buf_len s' = rf_len (lk_ck_pay t) /\
             rp_payload s' = lk_ck_pay t /\ rp_flt s' = rp_flt s.
Proof.
  intros f t s (Hat & Htg & Hbig & _) Hp.
  destruct (e2_rd_chunk s f _ _ _ Hp Hat Htg Hbig) as (s' & A & B & C & D & E & _ & G).
  exists s'. split; [exact A|]. split; [exact B|]. split; [exact C|]. split; [exact D|]. split; [exact E|exact G].
Qed.

(* ================================================================ jls_core_scan_sources *)
Lemma lk_scan_sources_loop : forall f l fuel s t,
  Forall (lk_ck_ok f) (t :: l) -> lk_rlinked (t :: l) ->
  Forall (fun t => JLS_SOURCE_COUNT <= fm_chunk_meta (lk_ck_hdr t) \/ rp_source_parse (lk_ck_pay t) = 0) (t :: l) ->
  (length l < fuel)%nat -> e2_pos s f (lk_ck_off t) ->
  exists s', rp_scan_sources_loop fuel s = (s', 0) /\ e2_rdr s' f /\ rp_flt s' = rp_flt s.
Proof.
  intros f l. induction l as [|t2 l IH]; intros fuel s t Hok Hlk Hpar Hfu Hpos;
    (destruct fuel as [|fu]; [cbn [length] in Hfu; lia|]); cbn [rp_scan_sources_loop];
    inversion Hok as [|? ? Hok1 Hok2]; subst; inversion Hpar as [|? ? Hpar1 Hpar2]; subst;
    destruct (lk_rd f t s Hok1 Hpos) as (s1 & Erd & Hpos1 & Hcur & Hbl & Hpay & Hflt);
    rewrite Erd; cbn [N.eqb negb]; rewrite Hcur; cbn [wm_ck_hdr]; rewrite Hpay;
    assert (Hrc2 : (if JLS_SOURCE_COUNT <=? fm_chunk_meta (lk_ck_hdr t) then 0 else rp_source_parse (lk_ck_pay t)) = 0)
      by (destruct (N.leb_spec JLS_SOURCE_COUNT (fm_chunk_meta (lk_ck_hdr t))); [reflexivity|destruct Hpar1; [lia|assumption]]);
    rewrite Hrc2; cbn [N.eqb negb]; cbn [lk_rlinked] in Hlk; destruct Hlk as [Hnx Hlk].
  - rewrite Hnx. cbn [N.eqb]. exists s1. split; [reflexivity|]. split; [eapply e2_pos_rdr; eauto|exact Hflt].
  - rewrite Hnx. inversion Hok2 as [|? ? Hok21 _]; subst.
    pose proof (lk_ck_off_pos f t2 Hok21) as Hnz. destruct (N.eqb_spec (lk_ck_off t2) 0) as [E|_]; [contradiction|].
    destruct (e2_seek s1 f (lk_ck_off t2) (e2_pos_rdr _ _ _ Hpos1) Hnz ltac:(apply Hok21)) as (s2 & Esk & Hpos2 & _ & _ & _ & Hflt2).
    rewrite Esk. cbn [N.eqb negb].
    destruct (IH fu s2 t2 Hok2 Hlk Hpar2 ltac:(cbn [length] in Hfu; lia) Hpos2) as (s' & E' & R' & F').
    exists s'. split; [exact E'|]. split; [exact R'|congruence].
Qed.

(* ================================================================ jls_core_scan_signals *)
(* what the loop body does with the chunk just read *)
Definition lk_sig_handle (c1 : rp_rd) : rp_rd :=
  let h := wm_ck_hdr (rp_cur (rp_io_ c1)) in
  if fm_tag h =? JLS_TAG_SIGNAL_DEF then rp_handle_signal_def c1
  else if N.land (fm_tag h) 7 =? JLS_TRACK_CHUNK_DEF then c1
  else if N.land (fm_tag h) 7 =? JLS_TRACK_CHUNK_HEAD then rp_handle_track_head c1
  else c1.
(* the same on the signal table alone: the handlers only look at chunk_cur, the payload and its length *)
Definition lk_view (t : lk_ck) : rp_io :=
  {| rp_file := []; rp_flen := 0; rp_r := rp_raw0; rp_buf := lk_ck_pay t; rp_buf_len := rf_len (lk_ck_pay t);
     rp_cur := {| wm_ck_offset := lk_ck_off t; wm_ck_hdr := lk_ck_hdr t |}; rp_flt := 0 |}.
Definition lk_sigs_step (sigs : list rp_sig) (t : lk_ck) : list rp_sig :=
  rp_sigs (lk_sig_handle {| rp_io_ := lk_view t; rp_src_head := wm_chunk0; rp_sig_head := wm_chunk0; rp_ud_head := wm_chunk0;
                            rp_sigs := sigs |}).

Lemma lk_view_payload : forall t, rp_payload (lk_view t) = lk_ck_pay t.
Proof. intro t. unfold rp_payload, lk_view, rp_take, rf_len. cbn [rp_buf rp_buf_len]. rewrite Nat2N.id. apply firstn_all. Qed.

Lemma lk_sig_handle_eq : forall c t,
  rp_cur (rp_io_ c) = {| wm_ck_offset := lk_ck_off t; wm_ck_hdr := lk_ck_hdr t |} ->
  rp_payload (rp_io_ c) = lk_ck_pay t -> rp_buf_len (rp_io_ c) = rf_len (lk_ck_pay t) ->
  lk_sig_handle c = rp_rd_set_sigs c (lk_sigs_step (rp_sigs c) t).
Proof.
  intros c t Hcur Hpay Hlen. destruct c as [io sh gh uh sigs]. cbn [rp_io_ rp_sigs] in *.
  unfold lk_sigs_step, lk_sig_handle. cbn [rp_io_]. rewrite Hcur.
  change (rp_cur (lk_view t)) with {| wm_ck_offset := lk_ck_off t; wm_ck_hdr := lk_ck_hdr t |}. cbn [wm_ck_hdr].
  destruct (fm_tag (lk_ck_hdr t) =? JLS_TAG_SIGNAL_DEF).
  - unfold rp_handle_signal_def. cbn [rp_io_]. rewrite Hcur, Hpay, Hlen, lk_view_payload.
    change (rp_cur (lk_view t)) with {| wm_ck_offset := lk_ck_off t; wm_ck_hdr := lk_ck_hdr t |}.
    change (rp_buf_len (lk_view t)) with (rf_len (lk_ck_pay t)). cbn [wm_ck_hdr wm_ck_offset].
    destruct (JLS_SIGNAL_COUNT <=? fm_chunk_meta (lk_ck_hdr t)); reflexivity.
  - destruct (N.land (fm_tag (lk_ck_hdr t)) 7 =? JLS_TRACK_CHUNK_DEF); [reflexivity|].
    destruct (N.land (fm_tag (lk_ck_hdr t)) 7 =? JLS_TRACK_CHUNK_HEAD); [|reflexivity].
    unfold rp_handle_track_head. cbn [rp_io_]. rewrite Hcur, Hpay, Hlen, lk_view_payload.
    change (rp_cur (lk_view t)) with {| wm_ck_offset := lk_ck_off t; wm_ck_hdr := lk_ck_hdr t |}.
    change (rp_buf_len (lk_view t)) with (rf_len (lk_ck_pay t)). cbn [wm_ck_hdr wm_ck_offset].
    unfold rp_validate_track_tag, rp_signal_validate, rp_get_sig. cbn [rp_sigs].
    destruct (negb _); [reflexivity|]. destruct (negb _); [reflexivity|].
    destruct (rp_sg_track _ _) as [hp tk]. reflexivity.
Qed.

Lemma lk_scan_signals_loop : forall f l fuel c t,
  Forall (lk_ck_ok f) (t :: l) -> lk_rlinked (t :: l) -> (length l < fuel)%nat -> e2_pos (rp_io_ c) f (lk_ck_off t) ->
  exists c', rp_scan_signals_loop fuel c = (c', 0) /\ e2_rdr (rp_io_ c') f /\ rp_flt (rp_io_ c') = rp_flt (rp_io_ c) /\
    rp_sigs c' = fold_left lk_sigs_step (t :: l) (rp_sigs c) /\
    rp_src_head c' = rp_src_head c /\ rp_sig_head c' = rp_sig_head c /\ rp_ud_head c' = rp_ud_head c.
Proof.
  intros f l. induction l as [|t2 l IH]; intros fuel c t Hok Hlk Hfu Hpos;
    (destruct fuel as [|fu]; [cbn [length] in Hfu; lia|]); cbn [rp_scan_signals_loop];
    inversion Hok as [|? ? Hok1 Hok2]; subst;
    destruct (lk_rd f t (rp_io_ c) Hok1 Hpos) as (s1 & Erd & Hpos1 & Hcur & Hbl & Hpay & Hflt);
    rewrite Erd; cbn [N.eqb negb];
    match goal with |- context [if fm_tag ?h =? JLS_TAG_SIGNAL_DEF then ?a else ?b] =>
      set (c2 := if fm_tag h =? JLS_TAG_SIGNAL_DEF then a else b) end;
    assert (Ec2 : c2 = rp_rd_set_sigs (rp_rd_set_io c s1) (lk_sigs_step (rp_sigs (rp_rd_set_io c s1)) t))
      by (rewrite <- (lk_sig_handle_eq (rp_rd_set_io c s1) t Hcur Hpay Hbl); destruct c; reflexivity);
    rewrite Ec2; clear Ec2 c2;
    cbn [rp_rd_set_io rp_io_ rp_sigs rp_rd_set_sigs];
    rewrite Hcur; cbn [wm_ck_hdr]; cbn [lk_rlinked] in Hlk; destruct Hlk as [Hnx Hlk]; rewrite Hnx.
  - cbn [N.eqb]. eexists. split; [reflexivity|]. cbn [rp_io_ rp_sigs rp_src_head rp_sig_head rp_ud_head fold_left].
    split; [eapply e2_pos_rdr; eauto|]. split; [exact Hflt|]. repeat split.
  - inversion Hok2 as [|? ? Hok21 _]; subst.
    pose proof (lk_ck_off_pos f t2 Hok21) as Hnz. destruct (N.eqb_spec (lk_ck_off t2) 0) as [E|_]; [contradiction|].
    destruct (e2_seek s1 f (lk_ck_off t2) (e2_pos_rdr _ _ _ Hpos1) Hnz ltac:(apply Hok21)) as (s2 & Esk & Hpos2 & _ & _ & _ & Hflt2).
    rewrite Esk. cbn [N.eqb negb].
    match goal with |- exists c', rp_scan_signals_loop fu ?c2 = _ /\ _ =>
      destruct (IH fu c2 t2 Hok2 Hlk ltac:(cbn [length] in Hfu; lia) Hpos2) as (c' & E' & R' & F' & S' & H1 & H2 & H3) end.
    cbn [rp_rd_set_io rp_io_ rp_sigs rp_src_head rp_sig_head rp_ud_head] in *.
    exists c'. split; [exact E'|]. split; [exact R'|]. split; [congruence|]. split; [|auto].
    rewrite S'. reflexivity.
Qed.

(* ================================================================ jls_core_scan_initial *)
(* the file starts (at the reader's position) with a USER_DATA, a SOURCE_DEF and a SIGNAL_DEF chunk, back to back *)
Lemma lk_scan_initial_loop : forall f fuel c t1 t2 t3,
  lk_ck_ok f t1 -> lk_ck_ok f t2 -> lk_ck_ok f t3 ->
  fm_tag (lk_ck_hdr t1) = JLS_TAG_USER_DATA -> fm_tag (lk_ck_hdr t2) = JLS_TAG_SOURCE_DEF -> fm_tag (lk_ck_hdr t3) = JLS_TAG_SIGNAL_DEF ->
  lk_ck_off t2 = lk_ck_off t1 + fm_chunk_size (rf_len (lk_ck_pay t1)) ->
  lk_ck_off t3 = lk_ck_off t2 + fm_chunk_size (rf_len (lk_ck_pay t2)) ->
  (3 < fuel)%nat -> e2_pos (rp_io_ c) f (lk_ck_off t1) ->
  wm_ck_offset (rp_src_head c) = 0 -> wm_ck_offset (rp_sig_head c) = 0 -> wm_ck_offset (rp_ud_head c) = 0 ->
  exists c', rp_scan_initial_loop fuel c 0 = (c', 0) /\ e2_rdr (rp_io_ c') f /\ rp_flt (rp_io_ c') = rp_flt (rp_io_ c) /\
    rp_sigs c' = rp_sigs c /\
    rp_ud_head c' = {| wm_ck_offset := lk_ck_off t1; wm_ck_hdr := lk_ck_hdr t1 |} /\
    rp_src_head c' = {| wm_ck_offset := lk_ck_off t2; wm_ck_hdr := lk_ck_hdr t2 |} /\
    rp_sig_head c' = {| wm_ck_offset := lk_ck_off t3; wm_ck_hdr := lk_ck_hdr t3 |}.
Proof.
  intros f fuel c t1 t2 t3 K1 K2 K3 T1 T2 T3 O2 O3 Hfu Hpos Hs0 Hg0 Hu0.
  do 4 (destruct fuel as [|fuel]; [lia|]).
  destruct c as [io sh gh uh sigs]. cbn [rp_io_ rp_src_head rp_sig_head rp_ud_head rp_sigs] in *.
  (* chunk 1 *)
  cbn [rp_scan_initial_loop]. change (0 =? 7) with false. cbv iota. cbn [rp_io_].
  destruct (lk_rd f t1 io K1 Hpos) as (s1 & Erd1 & Hpos1 & Hcur1 & _ & _ & Hflt1).
  rewrite Erd1. cbn [rp_rd_set_io rp_io_ rp_src_head rp_sig_head rp_ud_head rp_sigs].
  change (0 =? JLS_ERROR_EMPTY) with false. cbn [N.eqb negb]. rewrite Hcur1. cbn [wm_ck_hdr]. rewrite T1.
  change (JLS_TAG_USER_DATA =? JLS_TAG_USER_DATA) with true. cbv iota. rewrite Hu0. cbn [N.eqb].
  replace (rp_offset (rp_r io)) with (lk_ck_off t1) by (symmetry; apply Hpos).
  change (N.lor 0 1) with 1.
  (* chunk 2 *)
  cbn [rp_scan_initial_loop]. change (1 =? 7) with false. cbv iota. cbn [rp_io_].
  rewrite <- O2 in Hpos1.
  destruct (lk_rd f t2 s1 K2 Hpos1) as (s2 & Erd2 & Hpos2 & Hcur2 & _ & _ & Hflt2).
  rewrite Erd2. cbn [rp_rd_set_io rp_io_ rp_src_head rp_sig_head rp_ud_head rp_sigs].
  change (0 =? JLS_ERROR_EMPTY) with false. cbn [N.eqb negb]. rewrite Hcur2. cbn [wm_ck_hdr]. rewrite T2.
  change (JLS_TAG_SOURCE_DEF =? JLS_TAG_USER_DATA) with false. change (JLS_TAG_SOURCE_DEF =? JLS_TAG_SOURCE_DEF) with true. cbv iota.
  rewrite Hs0. cbn [N.eqb].
  replace (rp_offset (rp_r s1)) with (lk_ck_off t2) by (symmetry; apply Hpos1).
  change (N.lor 1 2) with 3.
  (* chunk 3 *)
  cbn [rp_scan_initial_loop]. change (3 =? 7) with false. cbv iota. cbn [rp_io_].
  rewrite <- O3 in Hpos2.
  destruct (lk_rd f t3 s2 K3 Hpos2) as (s3 & Erd3 & Hpos3 & Hcur3 & _ & _ & Hflt3).
  rewrite Erd3. cbn [rp_rd_set_io rp_io_ rp_src_head rp_sig_head rp_ud_head rp_sigs].
  change (0 =? JLS_ERROR_EMPTY) with false. cbn [N.eqb negb]. rewrite Hcur3. cbn [wm_ck_hdr]. rewrite T3.
  change (JLS_TAG_SIGNAL_DEF =? JLS_TAG_USER_DATA) with false. change (JLS_TAG_SIGNAL_DEF =? JLS_TAG_SOURCE_DEF) with false.
  change (JLS_TAG_SIGNAL_DEF =? JLS_TAG_SIGNAL_DEF) with true. cbv iota.
  rewrite Hg0. cbn [N.eqb].
  replace (rp_offset (rp_r s2)) with (lk_ck_off t3) by (symmetry; apply Hpos2).
  change (N.lor 3 4) with 7.
  cbn [rp_scan_initial_loop]. change (7 =? 7) with true. cbv iota.
  eexists. split; [reflexivity|]. cbn [rp_io_ rp_src_head rp_sig_head rp_ud_head rp_sigs].
  split; [eapply e2_pos_rdr; eauto|]. split; [congruence|]. repeat split.
Qed.
