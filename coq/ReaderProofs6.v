(* Proofs about ReaderModel.v, part 6 (partial link to FsrPackModel / Spec.rd_window): the copy loop of jls_core_fsr in
   the byte-level model computes exactly FsrPackModel.fp_rd_loop (whose result is Spec.rd_window by
   Properties_C01_bits.rd_blocks_spec) PROVIDED jls_core_rd_fsr_data0 delivers, for every sample id of the window, the
   block of the block list that contains it (hypothesis rdm_delivers).  What is missing for the unconditional statement
   on well-formed files: that the index descent (rdm_fsr_seek / rdm_rd_fsr_level1 over INDEX payload bytes) lands on
   that block - proved at chunk level with abstract offsets in PyramidProofs.v, not yet connected to the bytes. *)
From Coq Require Import NArith ZArith List Bool Lia Arith.
From Coq Require Import ZifyBool ZifyN ZifyNat.
From JLS Require Import Generated CrcDefs Spec Format WmRaw WmCore WmFsr WriterModel RepairRaw RepairModel BitCopyModel
  FsrPackModel FsrPackProofs RawReadProofs ReaderModel ReaderProofs ReaderProofs3 ReaderProofs4.
Import ListNotations.
Local Open Scope N_scope.
Ltac Zify.zify_post_hook ::= Z.div_mod_to_equations.

(* ------------------------------------------------------------------ jls_bit_copy reads only the bytes it needs *)
Lemma rdm_bc_loop_src : forall fuel dst di db src src' si si' sb cnt, sb < 8 -> db < 8 ->
  (forall j, j < (sb + cnt + 7) / 8 -> bc_get src (si + j) = bc_get src' (si' + j)) ->
  bc_loop fuel dst di db src si sb cnt = bc_loop fuel dst di db src' si' sb cnt.
Proof.
  induction fuel as [| fu IH]; intros dst di db src src' si si' sb cnt Hsb Hdb H; cbn [bc_loop]; [reflexivity |].
  destruct (cnt =? 0) eqn:E0; [reflexivity |]. apply N.eqb_neq in E0.
  assert (H0 : bc_get src si = bc_get src' si').
  { specialize (H 0). rewrite !N.add_0_r in H. apply H.
    assert (1 <= (sb + cnt + 7) / 8) by (apply N.div_le_lower_bound; lia).
    eapply N.lt_le_trans; [apply N.lt_0_1 | eassumption]. }
  rewrite H0. destruct (bc_get src' si') as [s |]; [| reflexivity].
  destruct (bc_get dst di) as [d |]; [| reflexivity].
  set (n0 := 8 - (if sb <? db then db else sb)). set (n := if cnt <? n0 then cnt else n0).
  assert (Hn : 1 <= n /\ n <= cnt /\ sb + n <= 8).
  { unfold n, n0. destruct (sb <? db) eqn:E1; destruct (cnt <? _) eqn:E2; lia. }
  destruct (bc_set dst di _) as [dst1 |]; [| reflexivity].
  assert (Hdb1 : (if 8 <=? db + n then 0 else db + n) < 8) by (destruct (8 <=? db + n) eqn:E; lia).
  destruct (8 <=? sb + n) eqn:E8.
  - apply IH; [lia | exact Hdb1 |]. intros j Hj. rewrite <- !N.add_assoc. apply H. lia.
  - apply IH; [lia | exact Hdb1 |]. intros j Hj. apply H. lia.
Qed.

Lemma rdm_nth_error_firstn : forall {A} (l : list A) n j, (j < n)%nat -> nth_error (firstn n l) j = nth_error l j.
Proof.
  intros A l. induction l as [| x l IH]; intros n j H.
  - rewrite firstn_nil. reflexivity.
  - destruct n as [| n]; [lia |]. destruct j as [| j]; cbn; [reflexivity |]. apply IH. lia.
Qed.
Lemma rdm_nth_error_skipn : forall {A} (l : list A) k j, nth_error (skipn k l) j = nth_error l (k + j).
Proof.
  intros A l. induction l as [| x l IH]; intros k j.
  - rewrite skipn_nil. destruct j; destruct (k + _)%nat; reflexivity.
  - destruct k as [| k]; cbn; [reflexivity | apply IH].
Qed.
Lemma rdm_get_sub : forall (src : list N) si n j, si + n <= N.of_nat (length src) -> j < n ->
  bc_get (fm_sub si n src) j = bc_get src (si + j).
Proof.
  intros src si n j Hb Hj. unfold bc_get, fm_sub.
  rewrite rdm_nth_error_firstn by lia. rewrite rdm_nth_error_skipn. f_equal. lia.
Qed.

Lemma rdm_bit_copy_sub : forall dst dbit src sbit cnt,
  sbit / 8 + (sbit mod 8 + cnt + 7) / 8 <= N.of_nat (length src) ->
  bc_bit_copy dst dbit (fm_sub (sbit / 8) ((sbit mod 8 + cnt + 7) / 8) src) (sbit mod 8) cnt = bc_bit_copy dst dbit src sbit cnt.
Proof.
  intros dst dbit src sbit cnt Hb.
  set (si := sbit / 8) in *. set (sb := sbit mod 8) in *. set (nb := (sb + cnt + 7) / 8) in *.
  assert (Hsb : sb < 8) by (unfold sb; apply N.mod_lt; discriminate).
  unfold bc_bit_copy. cbv zeta.
  assert (E1 : sb / 8 = 0) by (apply N.div_small; exact Hsb).
  assert (E2 : N.land sb 7 = sb).
  { change 7 with (N.ones 3). rewrite N.land_ones. apply N.mod_small. exact Hsb. }
  assert (E3 : N.land sbit 7 = sb).
  { change 7 with (N.ones 3). rewrite N.land_ones. reflexivity. }
  rewrite E1, E2, E3. fold si.
  assert (Hdb : N.land dbit 7 < 8) by apply rdm_land7_lt.
  assert (Hget : forall j, j < nb -> bc_get src (si + j) = bc_get (fm_sub si nb src) (0 + j)).
  { intros j Hj. rewrite N.add_0_l. symmetry. apply rdm_get_sub; assumption. }
  destruct ((N.land dbit 7 =? 0) && (sb =? 0)) eqn:Efast.
  - apply andb_true_iff in Efast. destruct Efast as [_ Esb]. apply N.eqb_eq in Esb.
    destruct (cnt / 8 =? 0) eqn:Esz.
    + symmetry. apply rdm_bc_loop_src; [exact Hsb | exact Hdb |]. intros j Hj. apply Hget. exact Hj.
    + apply N.eqb_neq in Esz.
      assert (Hnb : cnt / 8 <= nb) by (unfold nb; lia).
      assert (Hm : bc_memcpy dst (dbit / 8) (fm_sub si nb src) 0 (cnt / 8) = bc_memcpy dst (dbit / 8) src si (cnt / 8)).
      { unfold bc_memcpy. 
        assert (Hl : length (fm_sub si nb src) = N.to_nat nb) by (apply rr_sub_length; lia).
        rewrite Hl.
        assert (Hc1 : (0 + cnt / 8 <=? N.of_nat (N.to_nat nb)) = true) by (apply N.leb_le; lia).
        assert (Hc2 : (si + cnt / 8 <=? N.of_nat (length src)) = true) by (apply N.leb_le; lia).
        rewrite Hc1, Hc2. destruct (dbit / 8 + cnt / 8 <=? N.of_nat (length dst)); cbn [andb]; [| reflexivity].
        f_equal. f_equal. f_equal. unfold fm_sub. change (N.to_nat 0) with 0%nat. cbn [skipn]. rewrite firstn_firstn.
        rewrite Nat.min_l by lia. reflexivity. }
      rewrite Hm. destruct (bc_memcpy dst (dbit / 8) src si (cnt / 8)) as [dst1 |]; [| reflexivity].
      symmetry. apply rdm_bc_loop_src; [exact Hsb | exact Hdb |]. intros j Hj.
      rewrite <- !N.add_assoc. rewrite Hget by lia. reflexivity.
  - symmetry. apply rdm_bc_loop_src; [exact Hsb | exact Hdb |]. intros j Hj. apply Hget. exact Hj.
Qed.

(* ------------------------------------------------------------------ forward form of the buffer reads *)
(* st' is st up to the ghost flag and the fault code *)
Definition rdm_same_all (st st' : rdm_st) : Prop :=
  rdm_same_buf st st' /\ rdm_len st' = rdm_len st /\ rdm_ick st' = rdm_ick st /\ rdm_ibuf st' = rdm_ibuf st /\
  rdm_ilen st' = rdm_ilen st /\ rdm_sck st' = rdm_sck st /\ rdm_sbuf st' = rdm_sbuf st /\ rdm_slen st' = rdm_slen st.
Lemma rdm_same_all_refl : forall st, rdm_same_all st st.
Proof. intro st. split; [apply rdm_same_buf_refl | repeat split]. Qed.
Lemma rdm_same_all_trans : forall a b c, rdm_same_all a b -> rdm_same_all b c -> rdm_same_all a c.
Proof.
  intros a b c (A0 & A1 & A2 & A3 & A4 & A5 & A6 & A7) (B0 & B1 & B2 & B3 & B4 & B5 & B6 & B7).
  split; [eapply rdm_same_buf_trans; eassumption | repeat split; congruence].
Qed.

Lemma rdm_buf_rd_fwd : forall st off n, rdm_pay_ok (rdm_io st) -> (0 <= off)%Z ->
  Z.to_N off + n <= rp_buf_len (rdm_io st) -> rp_buf_len (rdm_io st) <= JLS_BUF_DEFAULT_SIZE ->
  exists st1, rdm_buf_rd st off n = (st1, fm_sub (Z.to_N off) n (rp_payload (rdm_io st))) /\
              rdm_same_all st st1 /\ rdm_stale st1 = rdm_stale st /\ rdm_flt st1 = rdm_flt st.
Proof.
  intros st off n Hp H0 Hb Hmax. unfold rdm_buf_rd, rdm_mem_rd.
  destruct (off <? 0)%Z eqn:E0; [lia |].
  destruct (JLS_BUF_DEFAULT_SIZE <? Z.to_N off + n) eqn:E1; [lia |].
  destruct (rp_buf_len (rdm_io st) <? Z.to_N off + n) eqn:E2; [lia |].
  eexists. split; [f_equal; apply rdm_sub_inside; [exact Hp | exact Hb] |].
  split; [| split; [cbn; apply orb_false_r | reflexivity]].
  split; [eapply rdm_same_buf_trans; [apply (rdm_same_buf_fault_if st false RpF_buf) | apply rdm_same_buf_set_stale] | repeat split].
Qed.
Lemma rdm_buf_rd_fresh_fwd : forall st off n, rdm_pay_ok (rdm_io st) -> (0 <= off)%Z ->
  Z.to_N off + n <= rp_buf_len (rdm_io st) -> rp_buf_len (rdm_io st) <= JLS_BUF_DEFAULT_SIZE ->
  rdm_buf_rd_fresh st off n = (st, fm_sub (Z.to_N off) n (rp_payload (rdm_io st))).
Proof.
  intros st off n Hp H0 Hb Hmax. unfold rdm_buf_rd_fresh, rdm_mem_rd.
  destruct (off <? 0)%Z eqn:E0; [lia |].
  destruct (JLS_BUF_DEFAULT_SIZE <? Z.to_N off + n) eqn:E1; [lia |].
  cbn [rdm_fault_if]. f_equal. apply rdm_sub_inside; [exact Hp | exact Hb].
Qed.
Lemma rdm_i64_fwd : forall st z, rdm_inr z = true -> rdm_i64 st z = (st, z).
Proof.
  intros st z H. unfold rdm_i64. rewrite H. cbn [negb rdm_fault_if]. f_equal.
  unfold rdm_inr, rdm_wrap, rdm_two63, rdm_two64 in *. apply andb_true_iff in H. destruct H as [H1 H2]. lia.
Qed.

Lemma rdm_skipn_skipn : forall {A} (l : list A) a b, skipn a (skipn b l) = skipn (b + a) l.
Proof.
  intros A l. induction l as [| x l IH]; intros a b.
  - rewrite !skipn_nil. reflexivity.
  - destruct b as [| b]; cbn [skipn plus]; [reflexivity | apply IH].
Qed.
Lemma rdm_sub_sub : forall a b n L (p : list N), a + n <= L -> fm_sub (b + a) n p = fm_sub a n (fm_sub b L p).
Proof.
  intros a b n L p H. unfold fm_sub.
  replace (N.to_nat (b + a)) with (N.to_nat b + N.to_nat a)%nat by lia.
  rewrite <- rdm_skipn_skipn. rewrite skipn_firstn_comm. rewrite firstn_firstn. f_equal. lia.
Qed.

(* ------------------------------------------------------------------ the copy loop = FsrPackModel.fp_rd_loop, given block delivery *)
(* the buffer holds the DATA payload of the block (ts, cnt, payload) of a signal with w-bit samples *)
Definition rdm_block_in_buf (w : N) (st : rdm_st) (ts : Z) (cnt : N) (payload : list N) : Prop :=
  rdm_pay_ok (rdm_io st) /\ rp_buf_len (rdm_io st) = SIZEOF_payload_header + rp_len payload /\
  rp_buf_len (rdm_io st) <= JLS_BUF_DEFAULT_SIZE /\
  fm_i64_of_u64 (fm_dec (fm_sub 0 8 (rp_payload (rdm_io st)))) = ts /\
  fm_dec (fm_sub OFFSETOF_payload_entry_count 4 (rp_payload (rdm_io st))) = cnt /\
  fm_dec (fm_sub OFFSETOF_payload_entry_size_bits 2 (rp_payload (rdm_io st))) = w /\
  fm_sub SIZEOF_payload_header (rp_len payload) (rp_payload (rdm_io st)) = payload.

Section Link.
Variable recon : bool -> bool -> Z -> N -> N -> N -> list N.
Variable f32_of_f64 : N -> N.
Variable id w : N.
Variable blocks : list (Z * N * list N).
Variable P : rdm_st -> Prop.

(* P only looks at what the buffer reads of the loop leave alone *)
Hypothesis P_same : forall st st', P st -> rdm_same_all st st' -> P st'.
(* jls_core_rd_fsr_data0 finds the block that holds sample id sid, without reconstruction, flag or fault *)
Hypothesis delivers : forall st sid ts cnt payload, P st -> fp_find_block blocks sid = Some (ts, cnt, payload) ->
  exists st', rdm_rd_fsr_data0 recon f32_of_f64 st id sid = (st', 0, false) /\ P st' /\
              rdm_stale st' = rdm_stale st /\ rdm_flt st' = rdm_flt st /\ rdm_block_in_buf w st' ts cnt payload.
(* the blocks: sample ids inside int64, payloads of the documented size *)
Hypothesis blocks_ok : forall ts cnt p, In (ts, cnt, p) blocks ->
  (- rdm_two63 <= ts)%Z /\ (ts + Z.of_N cnt < rdm_two63)%Z /\ cnt < rdm_two32 /\ N.of_nat (length p) = (cnt * w + 7) / 8.
Hypothesis w_pos : 0 < w.

Lemma rdm_find_block_in : forall sid ts cnt p, fp_find_block blocks sid = Some (ts, cnt, p) ->
  In (ts, cnt, p) blocks /\ (ts <= sid)%Z /\ (sid < ts + Z.of_N cnt)%Z.
Proof.
  intros sid ts cnt p H. unfold fp_find_block in H. apply find_some in H. destruct H as [Hin Hb].
  apply andb_true_iff in Hb. split; [exact Hin | lia].
Qed.

Lemma rdm_fsr_loop_is_fp_rd_loop : forall fuel st sid len dst dbit pcs out, P st ->
  fp_rd_loop fuel w blocks sid len dst dbit = RD_ok out ->
  exists st' pcs', rdm_fsr_loop recon f32_of_f64 fuel st id w sid len dst dbit pcs = (st', 0, out, pcs') /\
                   P st' /\ rdm_stale st' = rdm_stale st /\ rdm_flt st' = rdm_flt st.
Proof.
  induction fuel as [| fu IH]; intros st sid len dst dbit pcs out HP H; cbn [fp_rd_loop rdm_fsr_loop] in *.
  - destruct (len <=? 0)%Z; [| discriminate]. inversion H; subst. exists st, pcs. repeat split; assumption.
  - destruct (len <=? 0)%Z eqn:Elen; [inversion H; subst; exists st, pcs; repeat split; assumption |].
    destruct (fp_find_block blocks sid) as [[[ts cnt] payload] |] eqn:Efb; [| discriminate].
    destruct (rdm_find_block_in _ _ _ _ Efb) as (Hin & Hlo & Hhi).
    destruct (blocks_ok _ _ _ Hin) as (Bts & Bend & Bcnt & Blen).
    destruct (delivers st sid ts cnt payload HP Efb) as (st1 & E1 & P1 & S1 & F1 & Hbuf).
    rewrite E1. cbn [negb N.eqb]. cbv beta iota.
    destruct Hbuf as (Hpok & Hbl & Hmax & Hts & Hcnt & Hw & Hpay).
    (* the three header reads *)
    destruct (rdm_buf_rd_fwd st1 0 8 Hpok) as (st2 & R2 & A2 & S2 & F2); [lia | change (Z.to_N 0) with 0; unfold SIZEOF_payload_header in Hbl; lia | exact Hmax |].
    unfold rdm_buf_i64. rewrite R2. change (Z.to_N 0) with 0. rewrite Hts.
    assert (Hpok2 : rdm_pay_ok (rdm_io st2)) by (eapply rdm_pay_ok_same; [apply A2 | exact Hpok]).
    assert (Q2 : rp_payload (rdm_io st2) = rp_payload (rdm_io st1)) by (apply rdm_same_buf_payload; apply A2).
    assert (L2 : rp_buf_len (rdm_io st2) = rp_buf_len (rdm_io st1)) by apply A2.
    destruct (rdm_buf_rd_fwd st2 (Z.of_N OFFSETOF_payload_entry_count) 4 Hpok2) as (st3 & R3 & A3 & S3 & F3);
      [lia | rewrite N2Z.id, L2; unfold SIZEOF_payload_header, OFFSETOF_payload_entry_count in *; lia | lia |].
    unfold rdm_buf_u. rewrite R3. rewrite N2Z.id, Q2, Hcnt.
    assert (Hpok3 : rdm_pay_ok (rdm_io st3)) by (eapply rdm_pay_ok_same; [apply A3 | exact Hpok2]).
    assert (Q3 : rp_payload (rdm_io st3) = rp_payload (rdm_io st1)) by (rewrite (rdm_same_buf_payload st2 st3); [exact Q2 | apply A3]).
    assert (L3 : rp_buf_len (rdm_io st3) = rp_buf_len (rdm_io st1)) by (destruct A3 as ((_ & X & _) & _); congruence).
    destruct (rdm_buf_rd_fwd st3 (Z.of_N OFFSETOF_payload_entry_size_bits) 2 Hpok3) as (st4 & R4 & A4 & S4 & F4);
      [lia | rewrite N2Z.id, L3; unfold SIZEOF_payload_header, OFFSETOF_payload_entry_size_bits in *; lia | lia |].
    rewrite R4. rewrite N2Z.id, Q3, Hw. rewrite N.eqb_refl. cbn [negb].
    assert (Hpok4 : rdm_pay_ok (rdm_io st4)) by (eapply rdm_pay_ok_same; [apply A4 | exact Hpok3]).
    assert (Q4 : rp_payload (rdm_io st4) = rp_payload (rdm_io st1)) by (rewrite (rdm_same_buf_payload st3 st4); [exact Q3 | apply A4]).
    assert (L4 : rp_buf_len (rdm_io st4) = rp_buf_len (rdm_io st1)) by (destruct A4 as ((_ & X & _) & _); congruence).
    (* idx_start and sz agree *)
    set (idx := if (sid >? ts)%Z then (sid - ts)%Z else 0%Z) in *.
    assert (E5 : (if (ts <? sid)%Z then rdm_i64 st4 (sid - ts)%Z else (st4, 0%Z)) = (st4, idx)).
    { unfold idx. destruct (ts <? sid)%Z eqn:E; destruct (sid >? ts)%Z eqn:E'; try lia; [| reflexivity].
      apply rdm_i64_fwd. unfold rdm_inr, rdm_two63, rdm_two32 in *. apply andb_true_iff. split; lia. }
    rewrite E5.
    assert (Hidx : (0 <= idx)%Z /\ (idx < Z.of_N cnt)%Z /\ idx = (sid - ts)%Z) by (unfold idx; destruct (sid >? ts)%Z eqn:E; lia).
    set (sz0 := if (sid >? ts)%Z then (Z.of_N cnt - idx)%Z else Z.of_N cnt) in *.
    assert (Hsz0 : sz0 = (Z.of_N cnt - idx)%Z) by (unfold sz0, idx; destruct (sid >? ts)%Z; lia).
    set (sz := if (sz0 >? len)%Z then len else sz0) in *.
    assert (Esz : (if (len <? Z.of_N cnt - idx)%Z then len else (Z.of_N cnt - idx)%Z) = sz).
    { unfold sz. rewrite Hsz0. destruct (len <? Z.of_N cnt - idx)%Z eqn:E; destruct (Z.of_N cnt - idx >? len)%Z eqn:E'; lia. }
    rewrite Esz.
    destruct (sz <=? 0)%Z eqn:Eszpos; [discriminate |].
    assert (Hsz : (0 < sz)%Z /\ (sz <= Z.of_N cnt - idx)%Z /\ (sz <= len)%Z) by (unfold sz in *; destruct (sz0 >? len)%Z eqn:E; lia).
    (* the source bytes *)
    set (sbit := Z.to_N idx * w) in *. set (cb := Z.to_N sz * w) in *.
    set (nbytes := (sbit mod 8 + cb + 7) / 8).
    assert (Hfit : sbit / 8 + nbytes <= rp_len payload).
    { unfold rp_len. rewrite Blen. unfold nbytes, sbit, cb. 
      assert (Z.to_N idx * w + Z.to_N sz * w <= cnt * w) by nia. lia. }
    destruct (rdm_buf_rd_fwd st4 (Z.of_N (SIZEOF_payload_header + sbit / 8)) nbytes Hpok4) as (st6 & R6 & A6 & S6 & F6);
      [lia | rewrite N2Z.id, L4, Hbl; lia | lia |].
    cbn [negb]. rewrite R6. rewrite N2Z.id, Q4.
    rewrite (rdm_sub_sub (sbit / 8) SIZEOF_payload_header nbytes (rp_len payload)) by exact Hfit. rewrite Hpay.
    unfold rdm_apply_piece. cbn [rdm_pc_dbit rdm_pc_src rdm_pc_sbit rdm_pc_cnt].
    unfold nbytes. rewrite rdm_bit_copy_sub by (fold nbytes; unfold rp_len in Hfit; exact Hfit).
    fold sbit cb in H |- *.
    destruct (bc_bit_copy dst dbit payload sbit cb) as [dst1 | |]; try discriminate.
    assert (E7 : rdm_i64 st6 (sid + sz)%Z = (st6, (sid + sz)%Z)).
    { apply rdm_i64_fwd. unfold rdm_inr, rdm_two63, rdm_two32 in *. apply andb_true_iff. split; lia. }
    rewrite E7.
    assert (P6 : P st6).
    { apply (P_same st1); [exact P1 |]. eapply rdm_same_all_trans; [exact A2 |]. eapply rdm_same_all_trans; [exact A3 |].
      eapply rdm_same_all_trans; [exact A4 | exact A6]. }
    match goal with |- context [rdm_fsr_loop _ _ fu st6 id w ?a ?b ?c ?d ?e] =>
      destruct (IH st6 a b c d e out P6 H) as (st' & pcs' & E & P' & S' & F') end.
    exists st', pcs'. split; [exact E |]. split; [exact P' |]. split; congruence.
Qed.

Lemma rdm_fp_rd_loop_fuel : forall n m sid len dst dbit out, (n <= m)%nat ->
  fp_rd_loop n w blocks sid len dst dbit = RD_ok out -> fp_rd_loop m w blocks sid len dst dbit = RD_ok out.
Proof.
  induction n as [| n IH]; intros m sid len dst dbit out Hnm H; cbn [fp_rd_loop] in H.
  - destruct (len <=? 0)%Z eqn:E; [| discriminate]. destruct m; cbn [fp_rd_loop]; rewrite E; exact H.
  - destruct m as [| m]; [lia |]. cbn [fp_rd_loop]. destruct (len <=? 0)%Z; [exact H |].
    destruct (fp_find_block blocks sid) as [[[ts cnt] payload] |]; [| discriminate].
    match type of H with context [if ?c then RD_not_found else _] => destruct c end; [discriminate |].
    match type of H with context [bc_bit_copy ?a ?b ?c ?d ?e] => destruct (bc_bit_copy a b c d e) end; try discriminate.
    apply IH; [lia | exact H].
Qed.

(* with the block shape of Properties_C01_bits.rd_blocks_spec: the loop started by jls_core_fsr for an in-range window
   returns 0 and the window's samples (Spec.pack of the slice of the stream when the caller's buffer is zeroed) *)
Theorem rdm_fsr_loop_window : forall spd first stream st start len dst, P st ->
  0 < spd ->
  (forall k ts cnt p, nth_error blocks k = Some (ts, cnt, p) ->
     ts = (first + Z.of_nat k * Z.of_N spd)%Z /\ (0 < cnt <= spd)%N /\
     ((S k < length blocks)%nat -> cnt = spd) /\
     N.of_nat (length p) = ((cnt * w + 7) / 8)%N /\ Forall (fun b => (b < 256)%N) p) ->
  flat_map (fun b => let '(_, cnt, p) := b in firstn (N.to_nat (cnt * w)) (bc_bits p)) blocks
    = flat_map (bits_of (N.to_nat w)) stream ->
  (0 <= start)%Z -> (0 < len)%Z -> (start + len <= Z.of_nat (length stream))%Z ->
  (Z.to_N len * w <= 8 * N.of_nat (length dst))%N ->
  exists st' pcs' out,
    rdm_fsr_loop recon f32_of_f64 (S (8 * length dst)) st id w (start + first)%Z len dst 0 [] = (st', 0, out, pcs') /\
    P st' /\ rdm_stale st' = rdm_stale st /\ rdm_flt st' = rdm_flt st /\ length out = length dst /\
    firstn (N.to_nat (Z.to_N len * w)) (bc_bits out)
      = flat_map (bits_of (N.to_nat w)) (firstn (Z.to_nat len) (skipn (Z.to_nat start) stream)) /\
    skipn (N.to_nat (Z.to_N len * w)) (bc_bits out) = skipn (N.to_nat (Z.to_N len * w)) (bc_bits dst) /\
    (dst = repeat 0%N (N.to_nat ((Z.to_N len * w + 7) / 8)) ->
     out = pack w (firstn (Z.to_nat len) (skipn (Z.to_nat start) stream))).
Proof.
  intros spd first stream st start len dst HP Hspd Hshape Hbits Hst Hlen Hrange Hdst.
  destruct (rd_blocks_spec_lemma w spd first blocks stream start len dst w_pos Hspd Hshape Hbits Hst Hlen Hrange Hdst)
    as (out & H1 & H2 & H3 & H4 & H5).
  unfold fp_rd_blocks in H1.
  destruct (len <=? 0)%Z eqn:E0; [lia |]. destruct (start <? 0)%Z; [discriminate |].
  match type of H1 with context [if ?c then RD_param_invalid else _] => destruct c end; [discriminate |].
  assert (Hfuel : (Z.to_nat len <= S (8 * length dst))%nat) by nia.
  pose proof (rdm_fp_rd_loop_fuel _ _ _ _ _ _ _ Hfuel H1) as H1'.
  destruct (rdm_fsr_loop_is_fp_rd_loop _ st _ _ _ _ [] _ HP H1') as (st' & pcs' & E & P' & S' & F').
  exists st', pcs', out. repeat split; assumption.
Qed.
End Link.
